"""gen_all.py — regenerate every coq/gen/*.v from /repo's working tree (tie D/S). Each generator is
fail-closed; a generator that raises leaves a stub that does not compile, so dependent obligations break."""
import os, sys, importlib
from common import *
GENERATORS = ['dump_x86', 'dump_asm', 'dump_att', 'dump_ppc', 'dump_lift']   # (module name, output file) — filled as dumps are added
def generate(name, verbose=False):
    mod = importlib.import_module(name)
    return mod.generate(verbose=verbose)
def generate_all(verbose=False):
    for name in GENERATORS:
        generate(name, verbose)
