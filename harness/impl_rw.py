"""impl runner (C08): one hex string per line -> the read and write sets the library reports for the lifted semantics:
   '<mnemonic> <len> R <ids,> ## RM <(addr-sexp) size> ... ## W <ids,> ## WM <(addr-sexp) size> ...'
computed exactly as the property's observation point says: union of a.get_r(mem_read=True) and a.get_w() over
emul_helper.get_instr_expr(instr, next_eip).  'None' (not decodable), 'NOLIFT <mn>', 'E <Exception> <mn>' otherwise."""
import os, sys, binascii, logging
REAL = os.fdopen(os.dup(1), 'w'); sys.stdout = open(os.devnull, 'w')
sys.path.insert(0, os.path.dirname(os.path.abspath(__file__)))
sys.setrecursionlimit(20000)
logging.disable(logging.CRITICAL)
from exprlib import obj2s
from miasmx.arch.ia32_arch import x86mnemo
from miasmx.arch.ia32_sem import mnemo_func
from miasmx.tools import emul_helper
from miasmx.expression.expression import ExprInt32, ExprId, ExprMem
def one(h):
    i = x86mnemo.dis(binascii.unhexlify(h))
    if i is None: return 'None'
    if i.m.name not in mnemo_func and '#' not in i.m.name: return 'NOLIFT %s' % i.m.name
    try:
        ex = emul_helper.get_instr_expr(i, ExprInt32(0x1000 + i.l), [])
        r = set(); w = set()
        for a in ex:
            r |= set(a.get_r(mem_read=True)); w |= set(a.get_w())
        # the same query after the other query mode has been used on the same objects (a second lift of the same instruction):
        # an element missing in either history is an omission, so the intersection is what is reported
        i2 = x86mnemo.dis(binascii.unhexlify(h))
        ex2 = emul_helper.get_instr_expr(i2, ExprInt32(0x1000 + i2.l), [])
        r2 = set(); w2 = set()
        for a in ex2: a.get_r(); a.get_w()
        for a in ex2:
            r2 |= set(a.get_r(mem_read=True)); w2 |= set(a.get_w())
        r &= r2; w &= w2
    except Exception as e:
        return 'E %s %s' % (type(e).__name__, i.m.name)
    def ids(s): return ','.join(sorted(x.name for x in s if isinstance(x, ExprId)))
    def mems(s): return ' '.join(sorted('%s %d' % (obj2s(x.arg), x.get_size()) for x in s if isinstance(x, ExprMem)))
    other = [x for x in (r | w) if not isinstance(x, (ExprId, ExprMem))]
    if other: return 'E non-id-in-set %s' % i.m.name
    return '%s %d R %s ## RM %s ## W %s ## WM %s' % (i.m.name, i.l, ids(r), mems(r), ids(w), mems(w))
out = []
for l in sys.stdin:
    l = l.strip()
    if not l: continue
    try: out.append(one(l))
    except Exception as e: out.append('E outer-%s' % type(e).__name__)
REAL.write('\n'.join(out) + '\n'); REAL.flush()
