"""C01 — x86 decoding agrees with IA-32 (tables: tie D + Coq reflection vs SDM ModRM/SIB forms; decoder walk: tie H;
opcode maps: external reference decoder = GNU objdump 2.40, exploration)."""
import os, sys, json, re
from common import *
import dump_x86, x86gen, objref

BRANCH = re.compile(r'^(j[a-z]+|call|loop[a-z]*|jmp)$')
SEGP = {0x26: 'es', 0x2e: 'cs', 0x36: 'ss', 0x3e: 'ds', 0x64: 'fs', 0x65: 'gs'}

def compare(h, addr, impl_len, impl_text, ref):
    """returns None when the implementation's Intel rendering denotes the instruction objdump reports, else (kind, detail)"""
    rlen, rtext = ref
    if '(bad)' in rtext or rtext.startswith('.byte'): return 'skip'
    rp, rmn, rops = objref.norm_text(rtext)
    # superfluous prefixes: objdump prints unused prefixes as leading pseudo-mnemonics
    lead = rtext.split()[0]
    if lead in ('cs', 'ds', 'es', 'fs', 'gs', 'ss', 'data16', 'addr16', 'repz', 'repnz', 'lock', 'rep', 'notrack', 'bnd') and lead not in ('rep', 'repz', 'repnz', 'lock', 'notrack'): return 'skip'
    if lead in ('repz', 'repnz', 'rep', 'lock') and rmn not in ('movs', 'cmps', 'stos', 'lods', 'scas', 'ins', 'outs') and lead != 'lock': return 'skip'
    if 'xrelease' in rtext or 'xacquire' in rtext: return 'skip'
    if re.match(r'^(..)*?f0', h[:8]) and rmn not in ('add', 'or', 'adc', 'sbb', 'and', 'sub', 'xor', 'not', 'neg', 'inc', 'dec', 'xchg', 'xadd', 'cmpxchg', 'cmpxchg8b', 'bts', 'btr', 'btc'):
        return 'skip'       # lock on an instruction that cannot be locked: a meaning-free (or #UD) prefix      # F2/F3 as HLE hints: a prefix without architectural meaning for the decoder
    if impl_len != rlen: return ('length', 'length %d, reference %d (%s)' % (impl_len, rlen, rtext))
    ip, imn, iops = objref.norm_text(impl_text)
    has66 = h[:8].find('66') in (0, 2, 4)
    if imn != rmn and rmn == imn + 'w' and has66: rmn = imn          # objdump spells the 16-bit form with a w suffix (pushw, sgdtw, fldenvw ...)
    if imn != rmn and rmn == imn + 'd' and imn in ('pusha', 'popa', 'iret', 'pushf', 'popf'): rmn = imn
    if imn != rmn and rmn == imn + 'd' and imn in ('sgdt', 'sidt', 'lgdt', 'lidt'): rmn = imn
    m_ = re.match(r'^cmp(eq|lt|le|unord|neq|nlt|nle|ord)(ps|pd|ss|sd)$', rmn)
    if imn != rmn and m_ and imn == 'cmp' + m_.group(2):
        rmn = imn; rops = rops + [('imm', ['eq', 'lt', 'le', 'unord', 'neq', 'nlt', 'nle', 'ord'].index(m_.group(1)))]
    if rmn == 'int3' and imn == 'int' and iops == [('imm', 3)]: return None
    if imn == 'nop' and rmn == 'xchg' and len(rops) == 2 and rops[0] == rops[1] and not iops: return None
    if len(rops) == 1 and rops[0][0] == 'far' and len(iops) == 2 and iops[0][0] == 'imm' and iops[1][0] == 'imm':
        if (iops[0][1] % (1 << 32), iops[1][1] % (1 << 16)) == (rops[0][2] % (1 << 32), rops[0][1] % (1 << 16)): return None
    if imn != rmn:
        return ('mnemonic', 'mnemonic %s, reference %s (%s)' % (imn, rmn, rtext))
    if len(rops) == len(iops) + 1 and rops[-1] == ('reg', 'xmm0'): rops = rops[:-1]     # implicit xmm0 of blendv*
    if len(iops) != len(rops):
        # string instructions: objdump shows implicit operands
        if rmn in ('movs', 'cmps', 'stos', 'lods', 'scas', 'ins', 'outs', 'xlat') : return None
        return ('operands', 'operand count %d, reference %d (%s | %s)' % (len(iops), len(rops), impl_text, rtext))
    if rmn == 'xchg' and len(iops) == 2 and sorted(map(repr, iops)) == sorted(map(repr, rops)): return None      # xchg is symmetric
    for k, (a, b) in enumerate(zip(iops, rops)):
        if a == b: continue
        # an absolute address / immediate printed without brackets or with a size keyword: same number, other notation
        if {a[0], b[0]} == {'imm', 'mem'}:
            m_, i_ = (a, b) if a[0] == 'mem' else (b, a)
            if m_[3] == () and m_[4] % (1 << 32) == i_[1] % (1 << 32): continue
            if m_[3] == () and (m_[4] - i_[1]) % (1 << 16) == 0: continue
        if a[0] == 'imm' and b[0] == 'imm':
            if BRANCH.match(rmn):
                # objdump prints the absolute target of a relative branch; the library prints the displacement
                if (b[1] - addr - rlen) % (1 << 32) == a[1] % (1 << 32) or (b[1] - addr - rlen) % (1 << 16) == a[1] % (1 << 16): continue
            if a[1] % (1 << 32) == b[1] % (1 << 32): continue
            # sign-extended 8/16-bit immediates printed at operand width
            if any((a[1] - b[1]) % (1 << w) == 0 and (a[1] % (1 << 32) >= (1 << 32) - (1 << w) or b[1] % (1 << 32) >= (1 << 32) - (1 << w) or max(a[1], b[1]) < (1 << w)) for w in (8, 16)): continue
        if a[0] == 'mem' and b[0] == 'mem':
            sa, sb = a[1], b[1]
            size_ok = sa == sb or sa is None or sb is None
            seg_ok = a[2] == b[2] or (a[2] is None and b[2] in ('ds', 'ss')) or (b[2] is None and a[2] in ('ds', 'ss'))
            # 16-bit addressing displacements are printed mod 2^16 by one side
            disp_ok = a[4] == b[4] or (a[4] - b[4]) % (1 << 16) == 0
            if size_ok and seg_ok and a[3] == b[3] and disp_ok: continue
            if seg_ok and a[3] == b[3] and disp_ok: return ('size%d' % k, 'operand %d has size %s, reference %s (%s | %s)' % (k, sa, sb, impl_text, rtext))
        if a[0] == 'reg' and b[0] == 'reg' and a[1].replace('st(0)', 'st') == b[1].replace('st(0)', 'st'): continue
        return ('operand%d' % k, 'operand %d is %r, reference %r (%s | %s)' % (k, a, b, impl_text, rtext))
    return None

def run(tier):
    chk = Check('C01', tier)
    try: d = dump_x86.generate()
    except Exception as e:
        chk.violation('dump of the x86 tables failed: %s' % str(e)[:300], dict(dump='harness/dump_x86.py', error=str(e)[:2000]), found_input=False)
        return chk.finish()
    proved = chk.prove(['gen/X86Tables.vo'])
    if not proved:
        w = modrm_witness(d)
        if w: chk.violation('the ModRM/SIB tables no longer agree with the SDM addressing forms: %s' % w['why'], dict(chk.broken_summary(), **w))
        else: chk.violation('proof obligations of props/C01.v no longer check', chk.broken_summary(), found_input=False)
    try: build_model()
    except BuildBroken as e:
        chk.violation('extracted model does not build: ' + e.what, dict(log_tail=e.log[-3000:]), found_input=False)
        return chk.finish()
    rng = chk.rng
    strings = list(x86gen.control_strings(d, rng, tier))
    chk.log('strings: %d' % len(strings))
    model = run_model('x86dis', strings)
    impl = run_impl('impl_x86dis.py', strings)
    chk.cov['evaluations'] = len(strings); chk.cov['traces_validated_against_impl'] = len(strings)
    mism = [(s, m, i) for s, m, i in zip(strings, model, impl) if m != i]
    # reference decoder on every accepted string
    acc = [(s, i) for s, i in zip(strings, impl) if '|' in i]
    refs = []
    CH = 200000
    for k in range(0, len(acc), CH):
        refs += objref.objdump_many([s for s, _ in acc[k:k + CH]], chk.work)
    rend = run_impl('impl_x86dis.py', ['r ' + s[:2 * int(i.split('|')[0])] for s, i in acc])
    kf = {k['key']: k for k in chk.known_findings()}
    bad = {}; compared = 0; skipped = 0
    for k, ((s, i), ref, rt) in enumerate(zip(acc, refs, rend)):
        if ref is None: continue
        it = rt.split(' || ')[0]
        if it.startswith('CRASH') or it == 'None': continue        # rendering failures are C10's
        r = compare(s, (k % CH) * objref.SLOT, int(i.split('|')[0]), it, ref)
        if r == 'skip': skipped += 1; continue
        compared += 1
        if r: bad.setdefault((opclass(s), r[0]), []).append((s, r[1]))
    chk.cov['reference_compared'] = compared; chk.cov['reference_skipped_superfluous_or_invalid'] = skipped
    chk.cov['distinct_nontrivial'] = compared
    chk.cov['reference_disagreement_classes'] = len(bad)
    nrep = 0
    for (oc, kind), items in sorted(bad.items()):
        key = 'ref:%s:%s' % (oc, kind)
        items.sort(key=lambda x: (len(x[0]), x[0]))
        if key in kf: chk.report_known(key, kf[key]['what'] + ' (%d strings in this run)' % len(items)); continue
        if nrep < 600:
            nrep += 1
            s, why = items[0]
            chk.violation('bytes %s: %s; %d strings of opcode class %s disagree with the reference decoder on %s' % (s, why, len(items), oc, kind),
                          dict(case=s, why=why, count=len(items), key=key))
    if mism:
        mism.sort(key=lambda x: (len(x[0]), x[0]))
        s, m, i = mism[0]
        chk.violation('correspondence X86Dis.v vs x86_mn._dis broken on %d strings, e.g. %s: model %s, impl %s' % (len(mism), s, m[:200], i[:200]),
                      dict(correspondence='X86Dis.v/dis (tables regenerated) vs x86mnemo.dis', case=s, model=m, impl=i, count=len(mism)), found_input=False)
    chk.cov['rule'] = ('control-byte space from the dumped trie (see C10); every accepted string is also decoded by GNU objdump 2.40 (each in its own 32-byte nop-padded slot) and the library Intel '
                       'rendering is compared with objdump text after normalisation: length, mnemonic (alias table), operand count, registers, memory base/index/scale/displacement/segment/size, '
                       'immediates, branch displacement; strings objdump reports with a superfluous prefix or as (bad) are skipped. Non-trivial = string compared with the reference')
    chk.cov['samples'] = [dict(bytes=s, model=m[:160], impl=i[:160]) for s, m, i in list(zip(strings, model, impl))[::max(1, len(strings) // 6)][:6]]
    return chk.finish(assumptions=['ModRM/SIB agreement with the SDM forms is a kernel-checked reflection over the regenerated tables (X86Facts.v); the opcode-map agreement is validated against objdump (external reference, exploration), not proved',
                                   'X86Dis.v is a hand transcription of _dis/get_afs/special_opcodes tied by exact-output correspondence'])

def opclass(s):
    b = bytes.fromhex(s); i = 0; pf = []
    while i < len(b) and b[i] in (0xf0, 0xf2, 0xf3, 0x2e, 0x36, 0x3e, 0x26, 0x64, 0x65, 0x66, 0x67): pf.append(b[i]); i += 1
    op = b[i:i + 1]
    if op == b'\x0f': op = b[i:i + 2]
    if op in (b'\x0f\x38', b'\x0f\x3a'): op = b[i:i + 3]
    rest = b[i + len(op):]
    GROUPS = {(0x80,), (0x81,), (0x82,), (0x83,), (0xc0,), (0xc1,), (0xd0,), (0xd1,), (0xd2,), (0xd3,), (0xf6,), (0xf7,), (0xfe,), (0xff,), (0x8f,), (0xc6,), (0xc7,),
              (0x0f, 0x00), (0x0f, 0x01), (0x0f, 0xae), (0x0f, 0xba), (0x0f, 0xc7), (0x0f, 0x18), (0x0f, 0x71), (0x0f, 0x72), (0x0f, 0x73)} | {(x,) for x in range(0xd8, 0xe0)}
    cls = ''.join('%02x' % p for p in sorted(set(pf) - set(SEGP))) + ':' + op.hex()
    if rest and tuple(op) in GROUPS:
        cls += '/%d' % ((rest[0] >> 3) & 7) + ('r' if rest[0] >> 6 == 3 else 'm')
    return cls

def modrm_witness(d):
    """find a ModRM/SIB byte pair whose dumped table entry differs from the SDM form, and a byte string exercising it"""
    def sdm32(m, s):
        md, rm = m >> 6, m & 7
        if md == 3: return (False, None, [(rm, 1)])
        disp = {0: None, 1: 1, 2: 4}[md]
        if rm == 4:
            ss, idx, base = s >> 6, (s >> 3) & 7, s & 7
            regs = {} if (base == 5 and md == 0) else {base: 1}
            if idx != 4: regs[idx] = regs.get(idx, 0) + (1 << ss)
            return (True, 4 if (base == 5 and md == 0) else disp, sorted(regs.items()))
        if rm == 5 and md == 0: return (True, 4, [])
        return (True, disp, [(rm, 1)])
    for m in range(256):
        e = d['db_afs'][m]
        for s in (range(256) if 'sib' in e else [0]):
            a = d['sib'][e['sib']][s] if 'sib' in e else e
            got = (a['ad'], {None: None, 1: 1, 2: 2, 4: 4}.get(a['imm'], 99), [tuple(x) for x in a['regs']])
            if got != sdm32(m, s):
                h = '8b%02x%02x0102030405' % (m, s) if 'sib' in e else '8b%02x0102030405' % m
                return dict(case=h, why='ModRM %02x SIB %02x: table %r, SDM %r' % (m, s, got, sdm32(m, s)))
    return None

def replay(path):
    r = json.load(open(path))
    if 'case' not in r: print('replay names a broken obligation:', r.get('what')); return 1
    c = Check('C01', 'quick')
    s = r['case']
    i = run_impl('impl_x86dis.py', [s], shards=1)[0]; rt = run_impl('impl_x86dis.py', ['r ' + s[:2 * int(i.split('|')[0])]], shards=1)[0] if '|' in i else 'None'
    ref = objref.objdump_many([s], c.work)[0]
    res = compare(s, 0, int(i.split('|')[0]), rt.split(' || ')[0], ref) if '|' in i else None
    print('bytes', s, '\nimpl', rt, '\nreference', ref, '\n=>', res)
    return 1 if res and res != 'skip' else 0
