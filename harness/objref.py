"""objref.py — GNU objdump (binutils 2.40) as the external IA-32 reference decoder, and a tolerant normaliser of
Intel-syntax instruction text into a comparable structure."""
import os, re, subprocess, tempfile
SLOT = 32
def objdump_many(hexes, workdir):
    """decode each byte string in its own 32-byte slot (nop padding); returns list of (length, text) or None"""
    path = os.path.join(workdir, 'ref.bin')
    with open(path, 'wb') as f:
        for h in hexes:
            b = bytes.fromhex(h)[:15]
            f.write(b + b'\x90' * (SLOT - len(b)))
    out = subprocess.run(['objdump', '-D', '-b', 'binary', '-mi386', '-M', 'intel', '--insn-width=16', path], stdout=subprocess.PIPE, text=True).stdout
    res = [None] * len(hexes)
    for line in out.split('\n'):
        m = re.match(r'^\s*([0-9a-f]+):\t([0-9a-f ]+?)\s*\t(.*)$', line)
        if not m: continue
        addr = int(m.group(1), 16)
        if addr % SLOT: continue
        k = addr // SLOT
        nb = len(m.group(2).split())
        res[k] = (nb, m.group(3).strip())
    os.remove(path)
    return res

SIZES = {'byte': 8, 'word': 16, 'dword': 32, 'fword': 48, 'qword': 64, 'tbyte': 80, 'xmmword': 128, 'oword': 128}
SEGS = ('es', 'cs', 'ss', 'ds', 'fs', 'gs')
PFX_WORDS = {'rep', 'repz', 'repe', 'repnz', 'repne', 'lock', 'notrack', 'bnd', 'data16', 'addr16', 'rep;', 'xacquire', 'xrelease', '[0xf2]', '[0xf3]', '[0xf0]'}
def num(t):
    t = t.strip()
    neg = t.startswith('-')
    if neg: t = t[1:]
    v = int(t, 16) if t.lower().startswith('0x') else int(t, 10)
    return -v if neg else v
def split_ops(s):
    out = []; depth = 0; cur = ''
    for c in s:
        if c == '[': depth += 1
        if c == ']': depth -= 1
        if c == ',' and depth == 0: out.append(cur.strip()); cur = ''
        else: cur += c
    if cur.strip(): out.append(cur.strip())
    return out
def norm_operand(o):
    o = o.strip()
    ol = o.lower()
    if ol.startswith('[') and ol.endswith(']') and re.match(r'^\[(byte|word|dword|fword|qword|tbyte|xmmword)\s+ptr', ol): ol = ol[1:-1].strip()   # call [DWORD PTR x]
    size = None
    m = re.match(r'^(byte|word|dword|fword|qword|tbyte|xmmword|oword)\s+ptr\s*(.*)$', ol)
    if m: size = SIZES[m.group(1)]; ol = m.group(2).strip()
    seg = None
    m = re.match(r'^(es|cs|ss|ds|fs|gs):\s*(.*)$', ol)
    if m: seg = m.group(1); ol = m.group(2).strip()
    if ol.startswith('[') and ol.endswith(']'):
        inner = ol[1:-1].replace(' ', '')
        terms = re.findall(r'[+-]?[^+-]+', inner)
        regs = {}; disp = 0
        for t in terms:
            sign = -1 if t.startswith('-') else 1
            t = t.lstrip('+-')
            if '*' in t:
                a, b = t.split('*')
                if re.match(r'^(0x)?[0-9a-f]+$', a) and not re.match(r'^[a-z]', a): a, b = b, a
                if a == 'eiz': continue
                regs[a] = regs.get(a, 0) + sign * num(b)
            elif re.match(r'^(0x[0-9a-f]+|[0-9]+)$', t): disp += sign * num(t)
            elif t == 'eiz': continue
            else: regs[t] = regs.get(t, 0) + sign
        return ('mem', size, seg, tuple(sorted(regs.items())), disp % (1 << 32))
    if (seg is not None or size is not None) and re.match(r'^-?(0x[0-9a-f]+|[0-9]+)$', ol):       # ds:0x10 / WORD PTR 513
        return ('mem', size, seg, (), num(ol) % (1 << 32))
    if re.match(r'^-?(0x[0-9a-f]+|[0-9]+)$', ol): return ('imm', num(ol) % (1 << 32))
    if re.match(r'^(0x[0-9a-f]+|[0-9]+):(0x[0-9a-f]+|[0-9]+)$', ol):
        a, b = ol.split(':'); return ('far', num(a), num(b))
    if ol in ('st', 'st(0)'): return ('reg', 'st(0)')
    return ('reg', ol)
ALIAS = {'jz': 'je', 'jnz': 'jne', 'jc': 'jb', 'jnae': 'jb', 'jnc': 'jae', 'jnb': 'jae', 'jna': 'jbe', 'jnbe': 'ja', 'jpe': 'jp', 'jpo': 'jnp', 'jnge': 'jl', 'jnl': 'jge', 'jng': 'jle', 'jnle': 'jg',
         'setz': 'sete', 'setnz': 'setne', 'setc': 'setb', 'setnae': 'setb', 'setnc': 'setae', 'setnb': 'setae', 'setna': 'setbe', 'setnbe': 'seta', 'setpe': 'setp', 'setpo': 'setnp',
         'setnge': 'setl', 'setnl': 'setge', 'setng': 'setle', 'setnle': 'setg', 'cmovz': 'cmove', 'cmovnz': 'cmovne', 'cmovc': 'cmovb', 'cmovnae': 'cmovb', 'cmovnc': 'cmovae', 'cmovnb': 'cmovae',
         'cmovna': 'cmovbe', 'cmovnbe': 'cmova', 'cmovpe': 'cmovp', 'cmovpo': 'cmovnp', 'cmovnge': 'cmovl', 'cmovnl': 'cmovge', 'cmovng': 'cmovle', 'cmovnle': 'cmovg',
         'pushad': 'pusha', 'popad': 'popa', 'pushfd': 'pushf', 'popfd': 'popf', 'pushaw': 'pusha', 'popaw': 'popa', 'pushfw': 'pushf', 'popfw': 'popf', 'iretd': 'iret', 'iretw': 'iret',
         'sal': 'shl', 'wait': 'fwait', 'retn': 'ret', 'retf': 'retf', 'lret': 'retf', 'callf': 'call', 'jmpf': 'jmp', 'xlatb': 'xlat', 'int3': 'int3',
         'loope': 'loope', 'loopz': 'loope', 'loopnz': 'loopne', 'repe': 'repz', 'repne': 'repnz', 'jecxz': 'jecxz', 'jcxz': 'jcxz',
         'movsd': 'movs', 'movsw': 'movs', 'movsb': 'movs', 'cmpsd': 'cmps', 'cmpsw': 'cmps', 'cmpsb': 'cmps', 'stosd': 'stos', 'stosw': 'stos', 'stosb': 'stos', 'lodsd': 'lods', 'lodsw': 'lods', 'lodsb': 'lods',
         'scasd': 'scas', 'scasw': 'scas', 'scasb': 'scas', 'insd': 'ins', 'insw': 'ins', 'insb': 'ins', 'outsd': 'outs', 'outsw': 'outs', 'outsb': 'outs',
         'cwde': 'cwde', 'cbw': 'cbw', 'cdq': 'cdq', 'cwd': 'cwd', 'fucompp': 'fucompp'}
def norm_text(text):
    """-> (prefix words, mnemonic, [operands]) ; tolerant"""
    text = text.split('#')[0].strip()
    text = re.sub(r'<[^>]*>', '', text)
    words = text.split(None)
    pfx = []
    while words and words[0].lower() in PFX_WORDS:
        pfx.append(ALIAS.get(words[0].lower().rstrip(';'), words[0].lower().rstrip(';'))); words = words[1:]
    if not words: return (tuple(pfx), '', [])
    mn = words[0].lower()
    rest = text[text.lower().find(mn, sum(len(p) for p in pfx)) + len(mn):].strip() if len(words) > 1 else ''
    ops = [norm_operand(o) for o in split_ops(rest)] if rest else []
    return (tuple(sorted(set(pfx) - {'data16', 'addr16', 'bnd'})), ALIAS.get(mn, mn), ops)
