"""C04 — lifted x86 semantics match the processor on the integer core.
The lifted IR of the working tree (impl) is evaluated with the extracted standard meaning (Expr.eval) on boundary x random
states and compared with an executable reference written from the Intel SDM (harness/x86ref.py)."""
import os, sys, json, re
from common import *
import exprlib as X, liftgen, x86ref, dump_lift

CORE = set('mov movzx movsx lea xchg add adc sub sbb cmp and or xor test inc dec neg not shl sal shr sar rol ror rcl rcr shld shrd mul imul div idiv bt bts btr btc bsf bsr bswap '
           'cbw cwde cwd cdq clc stc cmc cld std lahf sahf xadd cmpxchg push pop leave call ret jmp loop loope loopne jecxz nop '
           'movsb movsw movsd stosb stosw stosd lodsb lodsw lodsd cmpsb cmpsw cmpsd scasb scasw scasd'.split())
CC = list(x86ref.CC)
for c in CC: CORE |= {'j' + c, 'set' + c, 'cmov' + c}
FLAGS = ['cf', 'pf', 'af', 'zf', 'nf', 'of', 'df']
SZ = {'u08': 8, 'u16': 16, 'u32': 32}

def parse_args(dump, admode):
    """operands of the implementation's structural dump -> reference operand tuples; None if outside the core forms"""
    ops = []
    if not dump: return ops
    for a in dump.split(' ; '):
        f = dict(x.split('=', 1) for x in a.split(' ') if '=' in x)
        size = SZ.get(f.get('size'))
        regs = [tuple(int(v) for v in rc.split(':')) for rc in f.get('regs', '').split(',') if rc]
        imm = f.get('imm')
        if f.get('ad') == 'False':
            if imm and imm != '-':
                w, v = imm.split(':'); ops.append(('imm', int(v), int(w)))
            elif len(regs) == 1 and regs[0][0] < 8 and size: ops.append(('reg', regs[0][0], size))
            else: return None
        else:
            if size is None and f.get('size') != 'True': return None
            disp = 0
            if imm and imm != '-': w, v = imm.split(':'); disp = x86ref.sx(int(v), int(w))
            if any(r >= 8 for r, c in regs): return None
            ops.append(('mem', regs, size or 32, disp, 32))
    return ops

def states(rng, n):
    B = [0, 1, 2, 0x7f, 0x80, 0xff, 0x100, 0x7fff, 0x8000, 0xffff, 0x7fffffff, 0x80000000, 0xffffffff, 0x10, 0x1f, 0x20, 0x21, 0xf, 8, 9, 31, 32, 33]
    out = []
    for k in range(n):
        regs = {}
        for r in x86ref.REG32:
            regs[r] = rng.choice(B) if rng.random() < 0.6 else rng.randrange(1 << 32)
        regs['esp'] = 0x7000 + 4 * rng.randrange(64); regs['ebp'] = 0x7200 + 4 * rng.randrange(64)
        if k % 3 == 0: regs['esi'] = 0x5000 + rng.randrange(256); regs['edi'] = 0x6000 + rng.randrange(256)
        if k % 4 == 1: regs['ecx'] = rng.choice([0, 1, 2, 5, 8, 16, 31, 32, 33, 0x101])
        flags = {f: rng.randrange(2) for f in FLAGS}
        out.append((regs, flags))
    return out

SHIFTS = set('shl sal shr sar rol ror rcl rcr shld shrd'.split())
def count_class(mn, ops, regs, n):
    """shift count class of the property's quantifier: masked count 0, 1, 2..size-1, >= size"""
    if mn not in SHIFTS: return ''
    if mn in ('shld', 'shrd'): c = ops[2] if len(ops) > 2 else ('reg', 1, 8)
    else: c = ops[1] if len(ops) > 1 else ('imm', 1, 8)
    v = (c[1] if c[0] == 'imm' else regs['ecx']) & 31
    return ':c0' if v == 0 else ':c1' if v == 1 else ':cn' if v < n else ':cge'

def split_top(s):
    out = []; depth = 0; cur = ''
    for c in s:
        cur += c
        if c == '(': depth += 1
        elif c == ')':
            depth -= 1
            if depth == 0: out.append(cur.strip()); cur = ''
    return out

def run(tier):
    chk = Check('C04', tier)
    try: dump_lift.generate()
    except Exception as e:
        chk.violation('dump of the lifted semantics failed: %s' % str(e)[:300], dict(dump='harness/dump_lift.py', error=str(e)[:2000]), found_input=False)
        return chk.finish()
    proved = chk.prove(['gen/LiftAll.vo'])
    try: build_model()
    except BuildBroken as e:
        chk.violation('extracted model does not build: ' + e.what, dict(log_tail=e.log[-3000:]), found_input=False)
        return chk.finish()
    import random
    rng = random.Random(20250926)      # fixed: the known-finding classes must not depend on VERIF_SEED
    cat = list(liftgen.catalogue())
    # addressing sweep: every ModRM memory form and every SIB byte under lea / mov load / mov store (32-bit addressing)
    have = set(cat)
    for opc in ('8d', '8b', '89', '8a'):
        for mod in (0, 1, 2):
            for rm in range(8):
                for sib in (range(256) if rm == 4 else [None]):
                    b = opc + '%02x' % ((mod << 6) | (1 << 3) | rm)
                    base5 = sib is not None and (sib & 7) == 5
                    if sib is not None: b += '%02x' % sib
                    if mod == 1: b += 'f8'
                    elif mod == 2 or (mod == 0 and (rm == 5 or base5)): b += '10200000'
                    if b not in have: have.add(b); cat.append(b)
    for b in liftgen.shift_sweep():
        if b not in have: have.add(b); cat.append(b)
    dis = run_impl('impl_x86dis.py', cat)
    forms = []
    for h, d in zip(cat, dis):
        if '|' not in d: continue
        f = d.split('|')
        if f[2] not in CORE or f[4] != 'u32' or f[3] not in ('u32', 'u16'): continue
        if f[1] not in ('', '102'): continue
        ops = parse_args(f[5], 32)
        if ops is None or (f[2] == 'lea' and ops[1][0] != 'mem'): continue      # lea with a register source is #UD
        forms.append((h, f[2], int(f[0]), 16 if f[3] == 'u16' else 32, ops))
    lifted = run_impl('impl_lift.py', [x[0] for x in forms])
    nst = 6 if tier == 'quick' else 40
    lines = []; meta = []
    kf = {k['key']: k for k in chk.known_findings()}
    bad = {}
    def note(mn, o16, what, h, detail):
        bad.setdefault((mn, o16, what), []).append((h, detail))
    for (h, mn, L, opsize, ops), lo in zip(forms, lifted):
        o16 = opsize == 16
        if lo.startswith('E '):
            note(mn, o16, 'lift-raises', h, lo); continue
        affs = [X.s2t(a) for a in split_top(lo.split(' ', 2)[2] if lo.count(' ') >= 2 else '')]
        ok = all(a[0] == 'A' and a[1][0] in ('D', 'M') for a in affs)
        if not ok:
            note(mn, o16, 'ill-formed', h, 'element is not an assignment to a register or memory cell'); continue
        for (regs, flags) in states(rng, nst):
            exprs = []
            for a in affs:
                exprs.append(X.t2s(a[2]))
                if a[1][0] == 'M': exprs.append(X.t2s(a[1][2]))
            env = ' '.join('(%s %d)' % kv for kv in list(regs.items()) + list(flags.items()))
            lines.append('(evs (%s) () %s)' % (env, ' '.join(exprs)))
            meta.append((h, mn, L, opsize, ops, affs, regs, flags))
    chk.log('forms: %d, evaluations: %d' % (len(forms), len(lines)))
    res = run_model('eval', lines)
    ncmp = 0
    for (h, mn, L, opsize, ops, affs, regs, flags), r in zip(meta, res):
        o16 = opsize == 16
        if r.startswith('X'):
            note(mn, o16, 'model-cannot-evaluate', h, r); continue
        vals = [int(v) for v in r.split()]
        st = x86ref.State(regs, flags)
        try:
            covered = x86ref.exec_instr(mn, ops, st, opsize, 0x1000 + L)
        except Exception as e:
            covered = False
        if not covered: continue
        ncmp += 1
        # what the lifted IR writes
        wregs = {}; wflags = {}; wmem = {}; weip = None; k = 0
        for a in affs:
            v = vals[k]; k += 1
            if a[1][0] == 'D':
                name, w = a[1][1], a[1][2]
                v &= (1 << w) - 1
                if name in regs: wregs[name] = v
                elif name in flags: wflags[name] = v & 1
                elif name == 'eip': weip = v
            else:
                addr = vals[k]; k += 1; w = a[1][1]
                for j in range(w // 8): wmem[(addr + j) & 0xffffffff] = (v >> (8 * j)) & 0xff
        desc = '%s regs=%s flags=%s' % (h, {r_: hex(v) for r_, v in regs.items()}, flags)
        cc = count_class(mn, ops, regs, ops[0][2] if ops and len(ops[0]) > 2 and ops[0][0] != 'imm' else opsize)
        _note = note
        def note(mn_, o16_, what, h_, d_, cc=cc, _note=_note): _note(mn_, o16_, what + cc, h_, d_)
        for rname in x86ref.REG32:
            want = st.wregs.get(rname, regs[rname]); got = wregs.get(rname, regs[rname])
            if 'dst' in st.undef and rname not in st.wregs: continue
            if got != want: note(mn, o16, 'reg-written' if rname in st.wregs else 'reg-clobbered', h, '%s: %s = 0x%x, processor 0x%x' % (desc, rname, got, want))
        for fl in FLAGS:
            if fl in st.undef: continue
            want = st.wflags.get(fl, flags[fl]); got = wflags.get(fl, flags[fl])
            if got != want: note(mn, o16, fl, h, '%s: %s = %d, processor %d' % (desc, fl, got, want))
        allm = set(wmem) | set(st.wmem)
        for a_ in (sorted(allm) if 'dst' not in st.undef else []):
            want = st.wmem.get(a_, st.mem(a_)); got = wmem.get(a_, st.mem(a_))
            if got != want: note(mn, o16, 'mem', h, '%s: byte at 0x%x = 0x%x, processor 0x%x' % (desc, a_, got, want)); break
        if st.eip is not None or weip is not None:
            want = st.eip if st.eip is not None else 0x1000 + L
            got = weip if weip is not None else 0x1000 + L
            if got != want: note(mn, o16, 'eip', h, '%s: next eip 0x%x, processor 0x%x' % (desc, got, want))
        note = _note
    chk.cov['evaluations'] = len(lines); chk.cov['forms'] = len(forms); chk.cov['compared_with_reference'] = ncmp
    chk.cov['distinct_nontrivial'] = len(set(m[0] for m in meta)); chk.cov['traces_validated_against_impl'] = len(lines)
    for (mn, o16, what), items in sorted(bad.items()):
        key = 'sem:%s:%s:%s' % (mn, 'o16' if o16 else 'o32', what)
        if key in kf: chk.report_known(key, kf[key]['what'] + ' (%d state/form pairs in this run)' % len(items)); continue
        if len(chk.violations) >= 400: break
        items.sort(key=lambda x: len(x[1]))
        h, detail = items[0]
        chk.violation('%s (%d-bit): lifted semantics and processor differ on %s — %s; %d state/form pairs' % (mn, 16 if o16 else 32, what, detail[:400], len(items)),
                      dict(case=h, mnemonic=mn, o16=o16, output=what, detail=detail, count=len(items), key=key))
    if not proved:
        # the mirror tie / theorems of props/C04.v broke: the evaluation above is the search for a concrete failing state
        if chk.violations:
            w = json.load(open(chk.violations[0]))
            chk.violation('proof obligations of props/C04.v no longer check; failing state found by evaluation: %s' % w.get('what', '')[:300], dict(chk.broken_summary(), witness=w))
        else:
            chk.violation('proof obligations of props/C04.v no longer check (the regenerated add/adc/sub/sbb/cmp/and/or/xor/test forms are no longer the mirror of Sem.v, or a theorem broke)', chk.broken_summary(), found_input=False)
    # supporting validation of the reference itself against the processor of this machine (testing of the specification)
    try:
        import cpucheck, io, contextlib
        buf = io.StringIO()
        with contextlib.redirect_stdout(buf):
            rc = cpucheck.main(10 if tier == 'quick' else 200)
        chk.cov['reference_vs_processor'] = buf.getvalue().strip().split('\n')[0] if buf.getvalue().strip() else 'no output'
        if rc != 0: chk.log('WARNING: harness/x86ref.py disagrees with this processor: ' + buf.getvalue()[:400])
    except Exception as e:
        chk.cov['reference_vs_processor'] = 'not run: %s' % e
    chk.cov['rule'] = ('integer-core forms of the lift catalogue (one byte string per mnemonic x operand size x operand shape signature; 32-bit addressing; prefixes none/66) x %d states per form '
                       '(registers from boundary values 0,1,2^k-1,2^k,sign bit,all-ones and random; flags random; esp/ebp/esi/edi partly placed in a memory window). The lifted IR is evaluated with the '
                       'extracted Expr.eval, all assignments reading the pre-state, and compared with harness/x86ref.py (SDM reference): 8 registers, defined flags, written bytes, next eip. '
                       'Non-trivial = distinct instruction form') % nst
    chk.cov['samples'] = [dict(bytes=m[0], mnemonic=m[1], regs={k: hex(v) for k, v in m[6].items()}) for m in meta[::max(1, len(meta) // 5)][:5]]
    return chk.finish(assumptions=['x86ref.py is a hand-written reference of the integer core from the Intel SDM (a specification, validated only by review and by agreement with the library on most forms)',
                                   'instruction fetch uses the library decoder (C01); Expr.eval is the standard bit-vector meaning fixed in Expr.v'])

def replay(path):
    r = json.load(open(path))
    print(r.get('detail', r.get('what')))
    return 1
