#!/usr/bin/env python3
"""prune_known.py <PID> — developer tool (never run by a check): after a THOROUGH run of <PID> on the unchanged tree, drop the
known-finding entries of <PID> that the run no longer observes (e.g. after a fix: commit)."""
import sys, json, os
ROOT = os.path.dirname(os.path.dirname(os.path.abspath(__file__)))
pid = sys.argv[1]
ev = json.load(open(os.path.join(ROOT, 'evidence', pid + '.json')))
assert ev.get('tier') == 'thorough' or '--force' in sys.argv, 'run the thorough tier first (tier=%s)' % ev.get('tier')
seen = set(ev['known_findings_reported'])
kf = json.load(open(os.path.join(ROOT, 'known_findings.json')))
before = len(kf['findings'])
kf['findings'] = [k for k in kf['findings'] if k['property'] != pid or k['key'] in seen]
json.dump(kf, open(os.path.join(ROOT, 'known_findings.json'), 'w'), indent=1)
print('dropped', before - len(kf['findings']))
