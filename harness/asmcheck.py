"""asmcheck.py — shared machinery of the assembler properties C02 / C03 / C09 / C19.

Line sources (all deterministic):
  S1  renderings (Intel and AT&T, by the working tree's printer) of decodable byte strings: the lift catalogue's one-per-signature
      forms plus a fixed sample of the decoder control space (C01/C10), restricted to strings on which the library decoder and
      GNU objdump agree (C01 decides the others) and which are canonical (GNU as applied to objdump's text gives the string back).
  S2  the Intel lines of S1 with each immediate / displacement replaced by the width-boundary values of the property.
  S3  presentation-only rewrites of S1 lines (C19).
References: GNU objdump 2.40 (what a candidate encodes), GNU as 2.40 (what a line denotes / whether a rendering is valid input)."""
import os, re, sys, json, random
from common import *
import dump_x86, x86gen, liftgen, objref, gas
from p_c01 import compare as cmp_text

BOUNDARY = [-129, -128, -1, 0, 1, 127, 128, 255, 256, 32767, 32768, 65535, 2**31 - 1, 2**31, 2**32 - 1]

def base_strings(tier):
    d = dump_x86.load()
    cat = list(liftgen.catalogue())
    allc = list(x86gen.control_strings(d, None, 'quick'))
    sample = allc[::37] + ([] if tier == 'quick' else allc[::5])      # the thorough set contains the quick set
    # mandatory-prefix (F3 / F2 / 66) SSE forms, register and memory operand, which the control space samples only thinly
    sse = ['%s0f%02x%s0000000000' % (pfx, op2, modrm) for pfx in ('f3', 'f2', '66', '') for op2 in range(0x10, 0x100) for modrm in ('c1', '00', '0a')]
    seen = set(); out = []
    for s in cat + sample + sse:
        if s not in seen: seen.add(s); out.append(s)
    return out

def mnem_class(text):
    t = text.strip().split()
    while t and t[0].rstrip(';') in objref.PFX_WORDS: t = t[1:]
    return t[0] if t else '?'

class Ctx:
    """decoded base instructions with renderings, reference decodings and assembler results"""
    def __init__(self, chk, tier):
        self.chk = chk; self.tier = tier
        strings = base_strings(tier)
        impl = run_impl('impl_x86dis.py', strings)
        acc = []
        for s, i in zip(strings, impl):
            if '|' not in i: continue
            L = int(i.split('|')[0]); acc.append((s[:2 * L], i))
        seen = set(); acc2 = []
        for h, i in acc:
            if h not in seen: seen.add(h); acc2.append((h, i))
        acc = acc2
        refs = objref.objdump_many([h for h, _ in acc], chk.work)
        rend = run_impl('impl_x86dis.py', ['r ' + h for h, _ in acc])
        self.base = []      # dict(b, intel, att, ref_text, name)
        self.disagree = []
        nskip = 0
        for k, ((h, i), ref, rt) in enumerate(zip(acc, refs, rend)):
            if ref is None or ' || ' not in rt: continue
            it, at = rt.split(' || ')
            if it.startswith('CRASH') or at.startswith('CRASH'): continue     # rendering failures: C10
            r = cmp_text(h, k * objref.SLOT, len(h) // 2, it, ref)
            pfx = i.split('|')[1].split(',')
            if '240' in pfx and '[' not in ref[1]: continue                    # lock without a memory destination: #UD, not an instruction
            if i.split('|')[2] == 'lea' and re.search(r'\b[c-gs]s:', ref[1]): continue    # segment override on lea: meaning-free prefix
            if r == 'skip': nskip += 1; continue                              # superfluous prefix / not an instruction for the reference
            if r is not None:                                                 # decoder/reference disagreement (C01 decides it): kept apart, used only where the
                nskip += 1                                                    # rendering itself is handed to GNU as (C09)
                self.disagree.append(dict(b=h, intel=it, att=at, ref=ref[1], name=i.split('|')[2], addr=k * objref.SLOT, admode=i.split('|')[4], prefix=i.split('|')[1]))
                continue
            self.base.append(dict(b=h, intel=it, att=at, ref=ref[1], name=i.split('|')[2], addr=k * objref.SLOT, admode=i.split('|')[4], prefix=i.split('|')[1]))
        chk.log('base strings %d, decodable %d, usable (decoder and objdump agree) %d' % (len(strings), len(acc), len(self.base)))
        self._canon = None
    # ---- GNU as on objdump's own text: canonical encodings
    def canonical(self):
        if self._canon is not None: return self._canon
        lines = [self.fix_objdump_text(x['ref']) for x in self.base]
        st = gas.assemble(lines, 'intel', self.chk.work, 'canon')
        self._canon = [s[0] == 'ok' and s[1] == x['b'] for s, x in zip(st, self.base)]
        self.chk.log('canonical (GNU as reproduces the bytes from objdump text): %d of %d' % (sum(self._canon), len(self.base)))
        return self._canon
    @staticmethod
    def fix_objdump_text(t):
        t = re.sub(r'\s+#.*$', '', t); t = re.sub(r'<[^>]*>', '', t)
        return t
    def asm(self, lines, history=None):
        """lines: list of ('i'|'a', text) -> list of candidate lists (hex) or ('E', name).
        history: a list that receives (line, result in given order, result in reversed order) for every line whose result depends on
        the order in which the lines are assembled within one process (the assembler must be a function of the line)"""
        out = run_impl('impl_asm.py', ['%s %s' % (k, t) for k, t in lines])
        if history is not None:
            rev = run_impl('impl_asm.py', ['%s %s' % (k, t) for k, t in reversed(lines)])[::-1]
            for (k, t), a, b in zip(lines, out, rev):
                if a != b and not (a[:2] == 'E ' and b[:2] == 'E '): history.append((t, a, b))      # the exception type may depend on the parser's lazy initialisation; rejection itself may not
        res = []
        for o in out:
            if o.startswith('E ') or o.startswith('X '): res.append(('E', o[2:]))
            elif o == '': res.append([])
            else: res.append(o.split(','))
        return res
    def objdump(self, hexes):
        return objref.objdump_many(hexes, self.chk.work)

def has_branch_or_abs(x):
    """instructions whose text a compiler would not emit as such: raw relative displacements, absolute numeric memory operands, far pointers"""
    it = x['intel']; ref = x['ref']
    mn = mnem_class(ref)
    if re.match(r'^(j[a-z]+|call|loop[a-z]*|jecxz|jcxz|xbegin)$', mn) and '[' not in ref and not re.search(r'\b(e?[abcd]x|e?[sd]i|e?[sb]p)\b', ref.split(None, 1)[1] if ' ' in ref else ''): return True
    if re.search(r'\b[c-gs]s:0x[0-9a-f]+', ref) or re.search(r'\[(eiz[^\]]*|0x[0-9a-f]+)\]', ref): return True
    if re.search(r'0x[0-9a-f]+:0x[0-9a-f]+', ref): return True
    return False

R16 = r'\b(bx|bp|si|di)\b'
def features(x):
    """coarse, root-cause oriented features of a base instruction (from its Intel rendering)"""
    it = x['intel']; f = []
    ops = it.split(None, 1)[1] if ' ' in it.strip() else ''
    if x.get('admode') == 'u16' or '103' in x.get('prefix', '').split(','): f.append('addr16')
    if re.search(r'\b[c-gs]s:', ops): f.append('segovr')
    if re.search(r'(^|[ ,])([c-gs]s)($|[ ,])', ops): f.append('sreg')
    if re.search(r'\bcr\d\b', ops): f.append('creg')
    if re.search(r'\bdr\d\b', ops): f.append('dreg')
    if re.search(r'\bxmm\d\b', ops): f.append('xmm')
    elif re.search(r'\bmm\d\b', ops): f.append('mm')
    if re.search(r'\bst\b|\bst\(', ops): f.append('st')
    if '[' in ops: f.append('mem')
    if re.search(r'(^|[ ,])(-?0x[0-9a-fA-F]+|-?\d+)\s*($|,)', ops): f.append('imm')
    if x['b'][:2] in ('66',) or x['b'][2:4] == '66': f.append('o16')
    return '+'.join(f) or 'plain'

def klass(kind, x):
    f = features(x)
    if 'addr16' in f.split('+'): return '%s:*:addr16' % kind      # one root cause: 16-bit addressing is not supported by the text layer
    return '%s:%s:%s' % (kind, x['name'], f)

def report(chk, bad, pid_prefix=''):
    """bad: key -> list of (case, detail).  Known classes are reported as such; every other class is a violation."""
    kf = {k['key']: k for k in chk.known_findings()}
    nrep = 0
    for key, items in sorted(bad.items()):
        if key in kf: chk.report_known(key, kf[key]['what'] + ' (%d cases in this run)' % len(items)); continue
        if nrep >= 1500: break
        nrep += 1
        items.sort(key=lambda t: (len(t[0]), t[0]))
        case, detail = items[0]
        chk.violation('%s — %s; %d cases' % (key, detail[:400], len(items)), dict(case=case, key=key, detail=detail, count=len(items)))
