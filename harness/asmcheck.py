"""asmcheck.py — shared machinery of the assembler properties C02 / C03 / C09 / C19.

Line sources (all deterministic):
  S1  renderings (Intel and AT&T, by the working tree's printer) of decodable byte strings: the lift catalogue's one-per-signature
      forms plus a fixed sample of the decoder control space (C01/C10), restricted to strings on which the library decoder and
      GNU objdump agree (C01 decides the others) and which are canonical (GNU as applied to objdump's text gives the string back).
  S2  the Intel lines of S1 with each immediate / displacement replaced by the width-boundary values of the property.
  S3  presentation-only rewrites of S1 lines (C19).
References: GNU objdump 2.40 (what a candidate encodes), GNU as 2.40 (what a line denotes / whether a rendering is valid input)."""
import os, re, sys, json, random
from common import *
import dump_x86, x86gen, liftgen, objref, gas
from p_c01 import compare as cmp_text

BOUNDARY = [-129, -128, -1, 0, 1, 127, 128, 255, 256, 32767, 32768, 65535, 2**31 - 1, 2**31, 2**32 - 1]

def base_strings(tier):
    d = dump_x86.load()
    cat = list(liftgen.catalogue())
    allc = list(x86gen.control_strings(d, None, 'quick'))
    sample = allc[::37] + ([] if tier == 'quick' else allc[::5])      # the thorough set contains the quick set
    # mandatory-prefix (F3 / F2 / 66) SSE forms, register and memory operand, which the control space samples only thinly
    sse = ['%s0f%02x%s0000000000' % (pfx, op2, modrm) for pfx in ('f3', 'f2', '66', '') for op2 in range(0x10, 0x100) for modrm in ('c1', '00', '0a')]
    seen = set(); out = []
    for s in cat + sample + sse:
        if s not in seen: seen.add(s); out.append(s)
    return out

def mnem_class(text):
    t = text.strip().split()
    while t and t[0].rstrip(';') in objref.PFX_WORDS: t = t[1:]
    return t[0] if t else '?'

class Ctx:
    """decoded base instructions with renderings, reference decodings and assembler results"""
    def __init__(self, chk, tier):
        self.chk = chk; self.tier = tier
        strings = base_strings(tier)
        impl = run_impl('impl_x86dis.py', strings)
        acc = []
        for s, i in zip(strings, impl):
            if '|' not in i: continue
            L = int(i.split('|')[0]); acc.append((s[:2 * L], i))
        seen = set(); acc2 = []
        for h, i in acc:
            if h not in seen: seen.add(h); acc2.append((h, i))
        acc = acc2
        refs = objref.objdump_many([h for h, _ in acc], chk.work)
        rend = run_impl('impl_x86dis.py', ['r ' + h for h, _ in acc])
        self.base = []      # dict(b, intel, att, ref_text, name)
        self.disagree = []
        nskip = 0
        for k, ((h, i), ref, rt) in enumerate(zip(acc, refs, rend)):
            if ref is None or ' || ' not in rt: continue
            it, at = rt.split(' || ')
            if it.startswith('CRASH') or at.startswith('CRASH'): continue     # rendering failures: C10
            r = cmp_text(h, k * objref.SLOT, len(h) // 2, it, ref)
            pfx = i.split('|')[1].split(',')
            if '240' in pfx and '[' not in ref[1]: continue                    # lock without a memory destination: #UD, not an instruction
            if i.split('|')[2] == 'lea' and re.search(r'\b[c-gs]s:', ref[1]): continue    # segment override on lea: meaning-free prefix
            if r == 'skip': nskip += 1; continue                              # superfluous prefix / not an instruction for the reference
            if r is not None:                                                 # decoder/reference disagreement (C01 decides it): kept apart, used only where the
                nskip += 1                                                    # rendering itself is handed to GNU as (C09)
                self.disagree.append(dict(b=h, intel=it, att=at, ref=ref[1], name=i.split('|')[2], addr=k * objref.SLOT, admode=i.split('|')[4], prefix=i.split('|')[1]))
                continue
            self.base.append(dict(b=h, intel=it, att=at, ref=ref[1], name=i.split('|')[2], addr=k * objref.SLOT, admode=i.split('|')[4], prefix=i.split('|')[1]))
        chk.log('base strings %d, decodable %d, usable (decoder and objdump agree) %d' % (len(strings), len(acc), len(self.base)))
        self._canon = None
    # ---- GNU as on objdump's own text: canonical encodings
    def canonical(self):
        if self._canon is not None: return self._canon
        lines = [self.fix_objdump_text(x['ref']) for x in self.base]
        st = gas.assemble(lines, 'intel', self.chk.work, 'canon')
        self._canon = [s[0] == 'ok' and s[1] == x['b'] for s, x in zip(st, self.base)]
        self.chk.log('canonical (GNU as reproduces the bytes from objdump text): %d of %d' % (sum(self._canon), len(self.base)))
        return self._canon
    def canonical_of(self, items, tag='canon2'):
        """the same judgement for other decoded strings (e.g. those on which the library's TEXT differs from objdump's)"""
        if not items: return []
        st = gas.assemble([self.fix_objdump_text(x['ref']) for x in items], 'intel', self.chk.work, tag)
        return [s[0] == 'ok' and s[1] == x['b'] for s, x in zip(st, items)]
    @staticmethod
    def fix_objdump_text(t):
        t = re.sub(r'\s+#.*$', '', t); t = re.sub(r'<[^>]*>', '', t)
        return t
    def asm(self, lines, history=None):
        """lines: list of ('i'|'a', text) -> list of candidate lists (hex) or ('E', name).
        history: a list that receives (line, result in given order, result in reversed order) for every line whose result depends on
        the order in which the lines are assembled within one process (the assembler must be a function of the line)"""
        out = run_impl('impl_asm.py', ['%s %s' % (k, t) for k, t in lines])
        if history is not None:
            rev = run_impl('impl_asm.py', ['%s %s' % (k, t) for k, t in reversed(lines)])[::-1]
            for (k, t), a, b in zip(lines, out, rev):
                if a != b and not (a[:2] == 'E ' and b[:2] == 'E '): history.append((t, a, b))      # the exception type may depend on the parser's lazy initialisation; rejection itself may not
        res = []
        for o in out:
            if o.startswith('E ') or o.startswith('X '): res.append(('E', o[2:]))
            elif o == '': res.append([])
            else: res.append(o.split(','))
        return res
    def objdump(self, hexes):
        return objref.objdump_many(hexes, self.chk.work)

def has_branch_or_abs(x):
    """instructions whose text a compiler would not emit as such: raw relative displacements, absolute numeric memory operands, far pointers"""
    it = x['intel']; ref = x['ref']
    mn = mnem_class(ref)
    if re.match(r'^(j[a-z]+|call|loop[a-z]*|jecxz|jcxz|xbegin)$', mn) and '[' not in ref and not re.search(r'\b(e?[abcd]x|e?[sd]i|e?[sb]p)\b', ref.split(None, 1)[1] if ' ' in ref else ''): return True
    if re.search(r'\b[c-gs]s:0x[0-9a-f]+', ref) or re.search(r'\[(eiz[^\]]*|0x[0-9a-f]+)\]', ref): return True
    if re.search(r'0x[0-9a-f]+:0x[0-9a-f]+', ref): return True
    return False

R16 = r'\b(bx|bp|si|di)\b'
def features(x):
    """coarse, root-cause oriented features of a base instruction (from its Intel rendering)"""
    it = x['intel']; f = []
    ops = it.split(None, 1)[1] if ' ' in it.strip() else ''
    if x.get('admode') == 'u16' or '103' in x.get('prefix', '').split(','): f.append('addr16')
    if re.search(r'\b[c-gs]s:', ops): f.append('segovr')
    if re.search(r'(^|[ ,])([c-gs]s)($|[ ,])', ops): f.append('sreg')
    if re.search(r'\bcr\d\b', ops): f.append('creg')
    if re.search(r'\bdr\d\b', ops): f.append('dreg')
    if re.search(r'\bxmm\d\b', ops): f.append('xmm')
    elif re.search(r'\bmm\d\b', ops): f.append('mm')
    if re.search(r'\bst\b|\bst\(', ops): f.append('st')
    if '[' in ops: f.append('mem')
    if re.search(r'(^|[ ,])(-?0x[0-9a-fA-F]+|-?\d+)\s*($|,)', ops): f.append('imm')
    if x['b'][:2] in ('66',) or x['b'][2:4] == '66': f.append('o16')
    return '+'.join(f) or 'plain'

def klass(kind, x):
    f = features(x)
    if 'addr16' in f.split('+'): return '%s:*:addr16' % kind      # one root cause: 16-bit addressing is not supported by the text layer
    return '%s:%s:%s' % (kind, x['name'], f)

def report(chk, bad, pid_prefix=''):
    """bad: key -> list of (case, detail).  Known classes are reported as such; every other class is a violation."""
    kf = {k['key']: k for k in chk.known_findings()}
    nrep = 0
    for key, items in sorted(bad.items()):
        if key in kf: chk.report_known(key, kf[key]['what'] + ' (%d cases in this run)' % len(items)); continue
        if nrep >= 1500: break
        nrep += 1
        items.sort(key=lambda t: (len(t[0]), t[0]))
        case, detail = items[0]
        chk.violation('%s — %s; %d cases' % (key, detail[:400], len(items)), dict(case=case, key=key, detail=detail, count=len(items)))


# ---------------------------------------------------------------------------------------------------------------------------
# Coq side of C02 / C03: regenerate the reverse table, prove, and tie check_imm_size / emission to the implementation
def prove_codec(chk):
    """regenerates gen/AsmTables.v (and gen/X86Tables.v) from the working tree, builds props/<pid>.v; when an obligation fails,
    searches the dumped tables for the concrete entry that breaks it"""
    import dump_asm
    try: d = dump_asm.generate()
    except Exception as e:
        chk.violation('dump of the assembler tables failed: %s' % str(e)[:300], dict(dump='harness/dump_asm.py', error=str(e)[:2000]), found_input=False)
        return False
    if chk.prove(['gen/AsmTables.vo']): return True
    w = reverse_table_witness(d)
    if w: chk.violation('the reverse ModRM/SIB table breaks the codec obligation: %s' % w['why'], dict(chk.broken_summary(), **w))
    else: chk.violation('proof obligations of props/%s.v no longer check' % chk.pid, chk.broken_summary(), found_input=False)
    return False

def reverse_table_witness(d):
    """Python re-statement of rev_sound / rev_complete on the dumped tables: returns the first entry that violates it"""
    def keyd(o): return (bool(o['ad']), o['imm'], tuple(tuple(x) for x in o['regs']))
    IMMK = {'u08': 0, 's08': 1, 'u16': 2, 'u32': 4}
    listed = {}
    for key, vals in d['fd_afs']:
        ad = None; imm = None; txt = None; regs = []
        for k, v in key:
            if k == 'ad': ad = v
            elif k == 'imm': imm = IMMK.get(v, v)
            elif k == 'txt': txt = v
            elif k.isdigit(): regs.append((int(k), int(v)))
        regs.sort(); kk = (bool(ad), imm, tuple(regs))
        tbl = d['db_afs']
        if len(regs) == 1 and 64 <= regs[0][0] < 72: tbl = d['db_afs_mm']
        if len(regs) == 1 and 80 <= regs[0][0] < 88: tbl = d['db_afs_xmm']
        for m, sb in vals:
            listed.setdefault((m, sb), []).append((kk, txt))
            if m & 56: return dict(why='entry (ModRM 0x%02x, SIB %s) of key %s has a non-empty reg field: forge_opc ORs it into the opcode, giving the encoding of another register' % (m, sb, key), entry=[m, sb], key=key)
            e = tbl[m]
            if 'sib' in e:
                if sb is None: return dict(why='ModRM 0x%02x needs a SIB byte but the entry of key %s has none' % (m, key), entry=[m, sb], key=key)
                a = d['sib'][e['sib']][sb]
            else:
                if sb is not None: return dict(why='ModRM 0x%02x takes no SIB byte but the entry of key %s has one' % (m, key), entry=[m, sb], key=key)
                a = e
            if keyd(a) != kk or (txt is not None and a['txt'] != txt):
                return dict(why='entry (ModRM 0x%02x, SIB %s) listed for the address form %s decodes to %s' % (m, sb, key, a), entry=[m, sb], key=key, decodes_to=a)
    for m in range(256):
        if m & 56: continue
        e = d['db_afs'][m]
        for sb in (range(256) if 'sib' in e else [None]):
            a = d['sib'][e['sib']][sb] if 'sib' in e else e
            got = listed.get((m, sb), [])
            if not any(k == keyd(a) and t is None for k, t in got):
                return dict(why='ModRM 0x%02x SIB %s decodes to %s but is not offered for that address form: the canonical encoding cannot be reproduced' % (m, sb, a), entry=[m, sb], decodes_to=a)
    return None

def codec_tie(chk):
    """check_imm_size and the struct.pack emission: model (Asm.v, extracted) vs implementation, boundary values x kinds"""
    try: build_model()
    except BuildBroken as e:
        chk.violation('extracted model does not build: ' + e.what, dict(log_tail=e.log[-3000:]), found_input=False); return 0
    vals = set()
    for w in (7, 8, 15, 16, 31, 32, 33):
        for d_ in (-2, -1, 0, 1, 2):
            vals.add((1 << w) + d_); vals.add(-(1 << w) + d_)
    vals |= set(BOUNDARY) | set(range(-300, 301, 7)) | {0x12345678, -0x12345678, 0x7fffffff, 0x80000000, 0xffffffff, 0xffffff80, 0xffff8000, 0x1ffffffff}
    rng = chk.rng
    vals |= {rng.randrange(-(1 << 33), 1 << 33) for _ in range(400)} | {rng.randrange(-70000, 70000) for _ in range(400)}
    lines_i = []; lines_m = []
    for v in sorted(vals):
        for k in range(6):
            lines_i.append('cis %d 0 %d' % (v, k)); lines_m.append('cis %d 0 %d' % (v, k))
            lines_i.append('cis %d 1 %d' % (v, k)); lines_m.append('cis %d 1 %d' % (v % 65536, k))     # a 16-bit modint holds v mod 2^16
    impl = run_impl('impl_asmcodec.py', lines_i, shards=4)
    model = run_model('asm', lines_m)
    bad = [(l, m, i) for l, m, i in zip(lines_i, model, impl) if m != i]
    if bad:
        l, m, i = bad[0]
        t = l.split(); v = int(t[1]); kind = ['u08', 's08', 'u16', 's16', 'u32', 's32'][int(t[3])]
        # the property fails on this input if the implementation accepts a value the form cannot represent
        found = False
        if i != 'None' and not i.startswith('E'):
            r = int(i.split()[0]); bits = [8, 8, 16, 16, 32, 32][int(t[3])]
            found = (r - v) % (1 << bits) != 0
        chk.violation('correspondence Asm.v/check_imm_size vs ia32_arch.check_imm_size broken on %d inputs, e.g. check_imm_size(%d%s, %s): model %s, implementation %s' % (len(bad), v, ' as uint16' if t[2] == '1' else '', kind, m, i),
                      dict(correspondence='Asm.v check_imm_size/emit vs ia32_arch.check_imm_size + struct.pack', case=l, model=m, impl=i, count=len(bad)), found_input=found)
    return len(lines_i)
