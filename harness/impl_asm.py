"""impl runner for the assembler: 'i <line>' (Intel) / 'a <line>' (AT&T) -> sorted candidate encodings (hex, comma separated, in
the order returned: first is preferred) or 'E <ExceptionName>'."""
import os, sys
REAL = os.fdopen(os.dup(1), 'w')
sys.stdout = open(os.devnull, 'w')      # the PLY lexers print 'Illegal character' to stdout
import sys, binascii, logging
logging.disable(logging.CRITICAL)
from miasmx.arch.ia32_arch import x86mnemo
def one(l):
    kind, text = l[0], l[2:]
    try:
        c = x86mnemo.asm(text) if kind == 'i' else x86mnemo.asm_att(text)
    except Exception as e:
        return 'E %s' % type(e).__name__
    if not isinstance(c, list): return 'X notalist %s' % type(c).__name__
    return ','.join(binascii.hexlify(x).decode() for x in c)
out = []
for l in sys.stdin:
    l = l.rstrip('\n')
    if not l.strip(): continue
    out.append(one(l))
REAL.write('\n'.join(out) + '\n'); REAL.flush()
