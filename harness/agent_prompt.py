#!/usr/bin/env python3
"""Print the prompt given to an independent sub-agent asked to seed a property-breaking change."""
import json, sys
pid = sys.argv[1]
n = int(sys.argv[2]) if len(sys.argv) > 2 else 2
for l in open('/verif/properties.jsonl'):
    p = json.loads(l)
    if p['id'] == pid:
        break
else:
    sys.exit('no such property')
wt = '/tmp/wt/%s' % pid
print(f"""You are helping test a verification effort for the Python library LRGH/miasmX (a patched fork of miasm v1:
pure-Python x86/PPC assembler/disassembler, instruction semantics lifted to an expression IR, symbolic evaluation).
You have your own scratch git worktree of the repository at {wt} (work ONLY there; never touch /repo or /verif; do not read /verif).
Run Python as:  cd {wt} && PYTHONPATH={wt} /venv/bin/python ...   (ignore any 'conda' warning line on stderr).
The existing test suite is run with:  cd {wt} && PYTHONPATH={wt} /venv/bin/python -m pytest -q -p no:cacheprovider   (278 tests, all pass, ~3 s).

Here is a semantic property of miasmX that should hold:

  id: {p['id']}
  title: {p['title']}
  statement: {p['statement']}
  quantifier: {p['quantifier']['text']}
  anchored in files: {', '.join(p['anchors']['files'])}

Your task: produce {n} DIFFERENT, independent, realistic changes ("mutations") to the library source, each of which BREAKS this property
while the code still imports/compiles and the existing 278-test suite STILL PASSES. Each should look like a plausible mistake or
well-meant refactor/optimisation a maintainer could make (a few lines), not sabotage. Prefer changes that need something specific
to manifest (an unusual input, a particular width/boundary value, a multi-step sequence of operations, two cooperating sites that
each look fine alone, a particular history of calls), not ones that ordinary use would expose at once.
Note: the unchanged library already has some defects; your change must introduce a NEW violation, demonstrated by a program that
passes on the unchanged code and fails with your change.

For each mutation k = 1..{n}:
  1. start from a clean tree (git -C {wt} checkout -- .), make the change, and save it:  git -C {wt} diff > {wt}/mut{'{k}'}.diff
  2. write a demonstration {wt}/demo{'{k}'}.py : a small standalone program (uses PYTHONPATH to import miasmx) that exits 0 and prints OK on
     the UNCHANGED code, and exits non-zero (assert failure) WITH the change, showing the property violated on a concrete input.
  3. confirm yourself: the test suite passes with the change; the demo fails with the change; after git checkout -- . the demo passes.
  4. write {wt}/meta{'{k}'}.json with keys: property, summary (what was changed), needs (what specific input/sequence is needed for it to manifest), files_touched.
Leave the worktree clean (git checkout -- .) at the end; the mut*.diff, demo*.py and meta*.json files stay there as untracked files.
Do not commit anything. Do not create files outside {wt}. Finish with a short report listing the mutations and what you verified.""")
