"""impl runner for C18: one 32-bit word (decimal) per line -> 'claiming classes|re-encoded word|text|assembled word'."""
import os, sys
REAL = os.fdopen(os.dup(1), 'w')
sys.stdout = open(os.devnull, 'w')          # ppc_arch prints while assembling
import struct
from miasmx.arch import ppc_arch as P
MODE = sys.argv[1] if len(sys.argv) > 1 else 'word'
def one(w):
    cl = [c for c in P.tab_mn if c.check(w)]
    names = ','.join(c.__name__ for c in cl)
    if len(cl) != 1:
        # a word that no class (or several) claims must not decode
        try: i = P.ppc_mn(w); return names + '|-|DECODES as %s' % type(i).__name__
        except ValueError: return names + '|-'
        except Exception as e: return names + '|-|CRASH %s' % type(e).__name__
    if MODE == 'word':
        try:
            i = P.ppc_mn(w)
            return '%s|%d' % (names, i.bin())
        except Exception as e: return '%s|CRASH %s' % (names, type(e).__name__)
    # text fixpoint
    try: i = P.ppc_mn(w); b = i.bin()
    except Exception as e: return '%s|CRASH %s' % (names, type(e).__name__)
    try: txt = str(i)
    except Exception as e: return '%s|%d|RENDER-CRASH %s' % (names, b, type(e).__name__)
    try:
        r = P.ppc_mn.asm(txt)
        a = struct.unpack('>L', r[0])[0]
        return '%s|%d|%s|%d' % (names, b, txt, a)
    except Exception as e:
        return '%s|%d|%s|ASM-CRASH %s' % (names, b, txt, type(e).__name__)
out = []
for l in sys.stdin:
    l = l.strip()
    if not l: continue
    out.append(one(int(l)))
REAL.write('\n'.join(out) + '\n'); REAL.flush()
