"""impl runner (C09 mnemonic tie): 'to <name> <size0> <size1> <ad0> <two_no_st0>' -> mnemo_to_att(name, args, 'att_syntax') or 'E <Exc>';
'from <attname> <two_no_st0>' -> '<intel name> <size imposed on memory operands or ->' or 'E <Exc>'."""
import os, sys
REAL = os.fdopen(os.dup(1), 'w'); sys.stdout = open(os.devnull, 'w')
from miasmx.arch import ia32_arch as A
from miasmx.arch.ia32_reg import x86_afs as X
SZ = {'u08': X.u08, 'u16': X.u16, 'u32': X.u32, 'f32': X.f32, 'f64': X.f64, 'f80': X.f80, 'xmm': X.xmm, 'other': X.mm}
BACK = {v: k for k, v in SZ.items()}
def one(l):
    t = l.split()
    try:
        if t[0] == 'to':
            name, s0, s1, ad0, two = t[1], SZ[t[2]], SZ[t[3]], t[4] == '1', t[5] == '1'
            a0 = {X.size: s0, X.ad: (s0 if ad0 else False)}
            if not ad0: a0[3] = 1
            a1 = {X.size: s1, X.ad: False, 1: 1}
            if two: args = [a0, a1]
            else:
                a0 = dict(a0); a0[0] = 1; a0.pop(3, None); args = [a0, a1]
            return A.mnemo_to_att(name, args, 'att_syntax')
        if t[0] == 'from':
            name, two = t[1], t[2] == '1'
            a0 = {X.ad: True, X.size: True, 3: 1}; a1 = {X.ad: False, X.size: X.u32, 1: 1}
            if not two: a0[0] = 1
            args = [a0, a1]
            p, n = A.mnemo_from_att([], name, args, 'att_syntax')
            mem = [a for a in args if a[X.ad]]
            sz = mem[0][X.size] if mem else True
            return '%s %s' % (n, '-' if sz is True else BACK.get(sz, str(sz)))
    except Exception as e:
        return 'E %s' % type(e).__name__
out = []
for l in sys.stdin:
    l = l.strip()
    if l: out.append(one(l))
REAL.write('\n'.join(out) + '\n'); REAL.flush()
