"""C16 — read sets and pattern matching are semantically exact (tie H: Expr.v vs expression.py)."""
import os, sys, json
from common import *
import exprlib as X
import exprcheck as XC

def subst_pos(t, path, new):
    """replace the sub-term at a path (list of child indexes in subterm order) — implemented by identity of objects"""
    raise NotImplementedError

def make_pattern(t, rng, g):
    """pick 1-3 sub-terms of t, abstract them into wildcard ids; returns (pattern, tks, expression) where the expression is
    the pattern with the wildcards substituted (a wildcard used twice receives one binding)"""
    subs = [x for x in X.subterms(t)[1:] if X.tsize(x) in X.WIDTHS]
    if not subs: return None
    chosen = rng.sample(subs, min(len(subs), rng.choice([1, 1, 2, 3])))
    # drop sub-terms nested inside another chosen one
    chosen = [c for c in chosen if not any(c is not d and any(c is s for s in X.subterms(d)) for d in chosen)]
    names = ['jok1', 'jok2', 'jok3']
    binding = {}
    wild = {}
    for i, c in enumerate(chosen):
        n = names[i]
        if i > 0 and rng.random() < 0.3 and X.tsize(chosen[0]) == X.tsize(c): n = names[0]     # repeated wildcard
        wild[id(c)] = ('D', n, X.tsize(c), 0, 0)
        binding.setdefault(n, c)
    def rec(x, to_pat):
        if id(x) in wild:
            w = wild[id(x)]
            return w if to_pat else binding[w[1]]
        k = x[0]
        if k == 'M': return ('M', x[1], rec(x[2], to_pat), None if x[3] is None else x[3])
        if k == 'O': return ('O', x[1], [rec(a, to_pat) for a in x[2]])
        if k == 'C': return ('C', rec(x[1], to_pat), rec(x[2], to_pat), rec(x[3], to_pat))
        if k == 'S': return ('S', rec(x[1], to_pat), x[2], x[3])
        if k == 'K': return ('K', [(rec(e, to_pat), lo, hi) for e, lo, hi in x[1]])
        return x
    pat = rec(t, True); e = rec(t, False)
    tks = sorted(set(w for w in wild.values()))
    return pat, tks, e

def gen(chk):
    rng = chk.rng
    g = X.Gen(rng, ops_extra=[('fadd', 2), ('umul32_hi', 2)], signed_ints=False)
    n = 2500 if chk.tier == 'quick' else 40000
    lines = []; hist = {}
    def add(tag, l): lines.append(l); hist[tag] = hist.get(tag, 0) + 1
    for i in range(n):
        w = rng.choice(X.WIDTHS[1:]); depth = rng.choice([1, 2, 2, 3, 3, 4, 5])
        t = g.expr(w, depth); s = X.t2s(t)
        add('getr', '(getr 0 %s)' % s); add('getr', '(getr 1 %s)' % s); add('ids', '(ids %s)' % s)
        add('getr-hist', '(getr01 %s)' % s); add('getr-hist', '(getr10 %s)' % s)
        dst = g.ident(w) if rng.random() < 0.5 or w < 8 else ('M', w, g.expr(32, 1), None)
        if rng.random() < 0.2: dst = rng.choice([t, ('S', g.ident(32), 0, 8), ('C', g.ident(1), g.ident(w), g.ident(w))])
        a = X.t2s(('A', dst, t))
        add('getw', '(getw %s)' % a); add('getr', '(getr 1 %s)' % a); add('getr', '(getr 0 %s)' % a)
        pm = make_pattern(t, rng, g)
        if pm:
            pat, tks, e = pm
            tk = '(' + ' '.join(X.t2s(x) for x in tks) + ')'
            add('match-inst', '(match %s %s %s)' % (tk, X.t2s(e), X.t2s(pat)))
            for _ in range(2):
                add('match-mut', '(match %s %s %s)' % (tk, X.t2s(X.mutate(e, rng)), X.t2s(pat)))
                add('match-mut', '(match %s %s %s)' % (tk, X.t2s(e), X.t2s(X.mutate(pat, rng))))
            add('match-self', '(match () %s %s)' % (X.t2s(e), X.t2s(e)))
            # the expression itself contains wildcard identifiers: substitute only ONE occurrence of each wildcard
            seen = set()
            def half(x):
                k = x[0]
                if k == 'D' and x[1].startswith('jok'):
                    if x[1] in seen: return x
                    seen.add(x[1]); return g.expr(x[2], 1)
                if k == 'M': return ('M', x[1], half(x[2]), x[3])
                if k == 'O': return ('O', x[1], [half(a) for a in x[2]])
                if k == 'C': return ('C', half(x[1]), half(x[2]), half(x[3]))
                if k == 'S': return ('S', half(x[1]), x[2], x[3])
                if k == 'K': return ('K', [(half(a), lo, hi) for a, lo, hi in x[1]])
                return x
            add('match-selfwild', '(match %s %s %s)' % (tk, X.t2s(half(pat)), X.t2s(pat)))
            seen = set(); hp = half(pat)
            add('match-selfwild', '(match %s %s %s)' % (tk, X.t2s(('O', '^', [hp, pat])), X.t2s(('O', '^', [pat, pat]))))
            add('match-selfwild', '(match %s %s %s)' % (tk, X.t2s(('O', '^', [pat, hp])), X.t2s(('O', '^', [pat, pat]))))
            t2 = g.expr(w, depth)
            add('match-other', '(match %s %s %s)' % (tk, X.t2s(t2), X.t2s(pat)))
    return lines, hist

def prop_holds(line, impl_out):
    x = X.parse(line); op = x[0]
    if impl_out.startswith('X'): return False, 'no exception'
    if op == 'match':
        if impl_out == 'F': return None, ''
        tks, e, m = x[1], X.show(x[2]), X.show(x[3])
        pairs = [] if impl_out == 'T' else [(X.show(k), X.show(v)) for k, v in X.parse(impl_out)]
        d = ' '.join('(%s %s)' % kv for kv in pairs)
        r = run_impl('impl_exprlaws.py', ['(replace (%s) %s)' % (d, m)], shards=1)[0]
        r2 = run_impl('impl_exprlaws.py', ['(eq %s %s)' % (r, e)], shards=1)[0] if not r.startswith('X') else '0'
        return r2 == '1', 'substituting the returned bindings into the pattern reproduces the expression (got %s)' % r[:200]
    if op in ('getr', 'getr01', 'getr10'):
        if op == 'getr01': x = ['getr', '1', x[1]]
        if op == 'getr10': x = ['getr', '0', x[1]]
        flag = x[1]; e = X.show(x[2]); t = X.s2t(e)
        if t[0] == 'A': t = t[2]; e = X.t2s(t)
        reported = set(X.show(i) for i in X.parse(impl_out)) if impl_out != '()' else set()
        rep_names = set(X.parse(r)[1] for r in reported if r.startswith('(D '))
        has_mem = any(r.startswith('(M ') for r in reported)
        allids = set(s[1] for s in X.subterms(t) if s[0] == 'D')
        if flag == '0':
            # with mem_read=False a cell is an atom: ids occurring only inside a reported cell's address are covered by the cell
            def outside(y, acc):
                k = y[0]
                if k == 'D': acc.add(y[1])
                elif k == 'M':
                    if X.t2s(y) not in reported: outside(y[2], acc)
                elif k == 'O': [outside(a, acc) for a in y[2]]
                elif k == 'C': [outside(a, acc) for a in y[1:]]
                elif k == 'S': outside(y[1], acc)
                elif k == 'K': [outside(a, acc) for a, _, _ in y[1]]
                return acc
            allids = outside(t, set())
        for n in sorted(allids - rep_names):
            for seed in range(16):
                v = XC.model_eval([(seed, e, {}), (seed, e, {n: 0x5a5a5a5a5a5a5a5a ^ seed}), (seed, e, {n: 1})])
                if len(set(v)) > 1:
                    return False, 'identifier %s is not in the reported read set but changes the value (seed %d: %r)' % (n, seed, v)
        return True, 'read set'
    if op == 'getw':
        t = X.s2t(X.show(x[1]))
        if t[1][0] in ('D', 'M'):
            return impl_out == '(%s)' % X.t2s(t[1]), 'the written set of an assignment names its destination'
        return None, ''
    if op == 'ids':
        t = X.s2t(X.show(x[1]))
        want = set(X.t2s(s) for s in X.subterms(t) if s[0] == 'D')
        got = set(X.show(i) for i in X.parse(impl_out)) if impl_out != '()' else set()
        return want == got, 'get_expr_ids returns every identifier occurring in the expression'
    return None, ''

def match_batch(items):
    """batched form of the soundness clause: substitute the returned bindings into the pattern, compare with the expression"""
    cand = []
    for l, m, i in items:
        if i == 'F' or i.startswith('X'): continue
        x = X.parse(l)
        pairs = [] if i == 'T' else [(X.show(k), X.show(v)) for k, v in X.parse(i)]
        cand.append((l, m, i, '(replace (%s) %s)' % (' '.join('(%s %s)' % kv for kv in pairs), X.show(x[3])), X.show(x[2])))
    if not cand: return None
    rep = run_impl('impl_exprlaws.py', [c[3] for c in cand])
    eqs = run_impl('impl_exprlaws.py', ['(eq %s %s)' % (r, c[4]) if not r.startswith('X') else '(eq (I 0 8 0) (I 0 8 1))' for r, c in zip(rep, cand)])
    for c, r, q in zip(cand, rep, eqs):
        if q != '1':
            return (c[0], c[1], c[2], 'substituting the returned bindings into the pattern reproduces the expression (got %s)' % r[:200])
    return None

def run(tier):
    chk = Check('C16', tier)
    if not chk.prove():
        chk.violation('proof obligations of props/C16.v no longer check', chk.broken_summary(), found_input=False)
    try: build_model()
    except BuildBroken as e:
        chk.violation('extracted model does not build: ' + e.what, dict(log_tail=e.log[-3000:]), found_input=False)
        return chk.finish()
    lines, hist = gen(chk)
    lines = XC.load_corpus('C16') + lines
    chk.log('cases: %d %s' % (len(lines), hist))
    model, impl = XC.run_both(chk, 'exprlaws', 'impl_exprlaws.py', lines)
    chk.cov['evaluations'] = len(lines); chk.cov['traces_validated_against_impl'] = len(lines)
    chk.cov['generator_histogram'] = hist
    res = {}
    for l, m in zip(lines, model):
        if l.startswith('(match'): res[m[:1]] = res.get(m[:1], 0) + 1
    chk.cov['match_outcomes'] = res
    chk.cov['distinct_nontrivial'] = len(set(l for l, m in zip(lines, model) if m not in ('()', 'F', 'E')))
    chk.cov['rule'] = ('typed random trees; per tree: get_r with and without memory reads (also through ExprAff), get_expr_ids, get_w of an assignment (id / memory / non-lvalue '
                       'destinations); (pattern, wildcards, expression) triples built by abstracting 1-3 sub-terms into wildcards (a wildcard may occur twice), plus single-feature '
                       'mutants of the expression and of the pattern, self-match without wildcards and an unrelated expression. Non-trivial = distinct case with a non-empty answer')
    chk.cov['samples'] = [dict(case=l[:300], model=m[:200], impl=i[:200]) for l, m, i in list(zip(lines, model, impl))[::max(1, len(lines) // 6)][:6]]
    mism = [(l, m, i) for l, m, i in zip(lines, model, impl) if m != i]
    byop = {}
    for l, m, i in mism: byop.setdefault(l[1:].split(' ', 1)[0], []).append((l, m, i))
    for op, items in sorted(byop.items()):
        items.sort(key=lambda x: len(x[0]))
        found = None
        if op == 'match':
            found = match_batch(items[:4000])
        for l, m, i in (items[:40] if not found else []):
            r = prop_holds(l, i)
            if r[0] is False: found = (l, m, i, r[1]); break
        if found:
            l, m, i, why = found
            chk.violation('%s: implementation breaks "%s" on %s -> %s (model: %s); %d cases differ from the model' % (op, why, l[:400], i[:200], m[:200], len(items)),
                          dict(case=l, impl=i, model=m, law=why, count=len(items)))
        else:
            l, m, i = items[0]
            chk.violation('correspondence Expr.v vs expression.py broken for %s (%d cases), e.g. %s: model %s, impl %s; no input found on which the property itself fails' % (op, len(items), l[:300], m[:200], i[:200]),
                          dict(correspondence='Expr.v/%s vs miasmx.expression.expression' % op, case=l, impl=i, model=m, count=len(items)), found_input=False)
    return chk.finish(assumptions=['Expr.v is a hand transcription of expression.py tied by exact-output correspondence on the cases counted here'])

def replay(path):
    r = json.load(open(path))
    if 'case' not in r: print('replay names a broken obligation:', r.get('what')); return 1
    out = XC.canon(r['case'], run_impl('impl_exprlaws.py', [r['case']], shards=1)[0])
    ok = prop_holds(r['case'], out)
    print('case', r['case'], '\nimpl', out, '\nproperty:', ok)
    return 1 if ok[0] is False else 0
