"""impl runner for C14: reads case lines (same syntax as the extracted model's 'modint' suite),
runs miasmx.tools.modint and prints canonical results."""
import sys, operator
from miasmx.tools import modint as M
CLS = {('u', 1): M.uint1, ('u', 8): M.uint8, ('u', 16): M.uint16, ('u', 32): M.uint32, ('u', 64): M.uint64,
       ('u', 128): M.uint128, ('s', 8): M.int8, ('s', 16): M.int16, ('s', 32): M.int32, ('s', 64): M.int64,
       ('s', 128): M.int128}
INV = {v: k for k, v in CLS.items()}
DIRECT = {'add': operator.add, 'sub': operator.sub, 'mul': operator.mul, 'and': operator.and_, 'or': operator.or_,
          'xor': operator.xor, 'shl': operator.lshift, 'shr': operator.rshift, 'mod': operator.mod, 'pow': operator.pow}
CMP = {'eq': operator.eq, 'ne': operator.ne, 'lt': operator.lt, 'le': operator.le, 'gt': operator.gt, 'ge': operator.ge}
def mk(sg, w, v):
    x = CLS[(sg, int(w))](0)
    x.arg = int(v)       # the case states the attribute value directly (in range by construction)
    return x
def operand(toks):
    if toks[0] == 'M': return mk(toks[1], toks[2], toks[3])
    return int(toks[1])
def show(r):
    if isinstance(r, bool): return 'B %d' % r
    if isinstance(r, M.moduint):
        k = INV.get(type(r))
        if k is None: return 'X class'
        if type(r.arg) is not int: return 'X argtype'
        return 'M %s %d %d' % (k[0], k[1], r.arg)
    if type(r) is int: return 'I %d' % r
    return 'X ' + type(r).__name__
def line(toks):
    k = toks[0]
    if k == 'b':
        op = toks[1]; x = mk(*toks[2:5]); y = operand(toks[5:])
        if op in DIRECT: return DIRECT[op](x, y)
        if isinstance(y, int):
            return DIRECT[op[1:]](y, x)          # python dispatches to x.__r<op>__(y)
        return getattr(x, '__%s__' % {'radd': 'radd', 'rsub': 'rsub', 'rmul': 'rmul', 'rand': 'rand', 'ror': 'ror',
               'rxor': 'rxor', 'rshl': 'rlshift', 'rshr': 'rrshift', 'rmod': 'rmod', 'rpow': 'rpow'}[op])(y)
    if k == 'u':
        x = mk(*toks[2:5])
        return {'inv': operator.invert, 'neg': operator.neg, 'abs': abs, 'int': int}[toks[1]](x)
    if k == 'c':
        x = mk(*toks[2:5]); y = operand(toks[5:])
        return CMP[toks[1]](x, y)
    if k == 'n':
        return CLS[(toks[1], int(toks[2]))](int(toks[3]))
    if k == 'h':   # equal values hash equally: x == y  =>  hash(x) == hash(y)
        x = mk(*toks[1:4]); y = operand(toks[4:])
        return (not (x == y)) or hash(x) == hash(y)
    raise SystemExit('bad line')
out = []
for l in sys.stdin:
    toks = l.split()
    if not toks: continue
    try:
        out.append(show(line(toks)))
    except ValueError: out.append('E V')
    except ZeroDivisionError: out.append('E Z')
    except Exception as e: out.append('X ' + type(e).__name__)
sys.stdout.write('\n'.join(out) + '\n')
