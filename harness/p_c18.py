"""C18 — PowerPC words decode unambiguously and re-encode to themselves (tie D: class tables; tie H: check/codecs)."""
import os, sys, json
from common import *
import dump_ppc

# the PowerPC UISA / 32-bit OEA opcode assignment for the instructions this module knows (hand-written reference):
# primary opcode -> mnemonic, and (primary, extended opcode) -> mnemonic
PRIMARY = {3: 'TWI', 7: 'MULLI', 8: 'SUBFIC', 10: 'CMPLI', 11: 'CMPI', 12: 'ADDIC', 13: 'ADDIC.', 14: 'ADDI', 15: 'ADDIS', 16: 'BC', 17: 'SC', 18: 'B',
           20: 'RLWIMI', 21: 'RLWINM', 23: 'RLWNM', 24: 'ORI', 25: 'ORIS', 26: 'XORI', 27: 'XORIS', 28: 'ANDI.', 29: 'ANDIS.',
           32: 'LWZ', 33: 'LWZU', 34: 'LBZ', 35: 'LBZU', 36: 'STW', 37: 'STWU', 38: 'STB', 39: 'STBU', 40: 'LHZ', 41: 'LHZU', 42: 'LHA', 43: 'LHAU',
           44: 'STH', 45: 'STHU', 46: 'LMW', 47: 'STMW', 48: 'LFS', 49: 'LFSU', 50: 'LFD', 51: 'LFDU', 52: 'STFS', 53: 'STFSU', 54: 'STFD', 55: 'STFDU'}
XO31 = {0: 'CMP', 4: 'TW', 8: 'SUBFC', 10: 'ADDC', 11: 'MULHWU', 19: 'MFCR', 20: 'LWARX', 23: 'LWZX', 24: 'SLW', 26: 'CNTLZW', 28: 'AND', 32: 'CMPL', 40: 'SUBF',
        54: 'DCBST', 55: 'LWZUX', 60: 'ANDC', 75: 'MULHW', 83: 'MFMSR', 86: 'DCBF', 87: 'LBZX', 104: 'NEG', 119: 'LBZUX', 124: 'NOR', 136: 'SUBFE', 138: 'ADDE',
        144: 'MTCRF', 146: 'MTMSR', 150: 'STWCX.', 151: 'STWX', 183: 'STWUX', 200: 'SUBFZE', 202: 'ADDZE', 210: 'MTSR', 215: 'STBX', 232: 'SUBFME', 234: 'ADDME',
        235: 'MULLW', 242: 'MTSRIN', 246: 'DCBTST', 247: 'STBUX', 266: 'ADD', 278: 'DCBT', 279: 'LHZX', 284: 'EQV', 306: 'TLBIE', 310: 'ECIWX', 311: 'LHZUX',
        316: 'XOR', 339: 'MFSPR', 343: 'LHAX', 370: 'TLBIA', 371: 'MFTB', 375: 'LHAUX', 407: 'STHX', 412: 'ORC', 438: 'ECOWX', 439: 'STHUX', 444: 'OR',
        459: 'DIVWU', 467: 'MTSPR', 470: 'DCBI', 476: 'NAND', 491: 'DIVW', 512: 'MCRXR', 533: 'LSWX', 534: 'LWBRX', 535: 'LFSX', 536: 'SRW', 566: 'TLBSYNC',
        567: 'LFSUX', 595: 'MFSR', 597: 'LSWI', 598: 'SYNC', 599: 'LFDX', 631: 'LFDUX', 659: 'MFSRIN', 661: 'STSWX', 662: 'STWBRX', 663: 'STFSX', 695: 'STFSUX',
        725: 'STSWI', 727: 'STFDX', 759: 'STFDUX', 790: 'LHBRX', 792: 'SRAW', 824: 'SRAWI', 854: 'EIEIO', 918: 'STHBRX', 922: 'EXTSH', 954: 'EXTSB', 982: 'ICBI',
        983: 'STFIWX', 1014: 'DCBZ'}
XO19 = {0: 'MCRF', 16: 'BCLR', 33: 'CRNOR', 50: 'RFI', 129: 'CRANDC', 150: 'ISYNC', 193: 'CRXOR', 225: 'CRNAND', 257: 'CRAND', 289: 'CREQV', 417: 'CRORC', 449: 'CROR', 528: 'BCCTR'}

def words(chk):
    rng = chk.rng
    ws = []
    regs = (0, 1, 31); imms = (0, 1, 0x7fff, 0x8000, 0xffff)
    step = 1 if chk.tier == 'thorough' else 1
    for p in range(64):
        for xo in range(1024):
            for (rt, ra, rb) in ((0, 0, 0), (1, 31, 0), (31, 1, 1), (5, 9, 17)):
                for low in (0, 1):
                    ws.append((p << 26) | (rt << 21) | (ra << 16) | (rb << 11) | ((xo & 1023) << 1) | low)
        for rt in regs:
            for ra in regs:
                for im in imms:
                    ws.append((p << 26) | (rt << 21) | (ra << 16) | im)
    # branches: all BO/BI classes, AA/LK, LI boundaries
    for bo in range(32):
        for bi in (0, 1, 2, 3, 4, 31):
            for bd in (0, 1, 0x1fff, 0x2000, 0x3fff):
                for aalk in range(4):
                    ws.append((16 << 26) | (bo << 21) | (bi << 16) | (bd << 2) | aalk)
            for xo in (16, 528):
                for lk in (0, 1):
                    ws.append((19 << 26) | (bo << 21) | (bi << 16) | (xo << 1) | lk)
    for li in (0, 1, 0x7fffff, 0x800000, 0xbfffff, 0xc00000, 0xffffff, 0x400000, 0x3fffff):
        for aalk in range(4): ws.append((18 << 26) | (li << 2) | aalk)
    structured = sorted(set(ws))
    for i in range(100000 if chk.tier == 'quick' else 2000000): ws.append(rng.randrange(1 << 32))
    return sorted(set(ws)), set(structured)

def run(tier):
    chk = Check('C18', tier)
    try: d = dump_ppc.generate()
    except Exception as e:
        chk.violation('dump of the PowerPC class tables failed: %s' % str(e)[:300], dict(dump='harness/dump_ppc.py', error=str(e)[:2000]), found_input=False)
        return chk.finish()
    proved = chk.prove(['gen/PpcTables.vo'])
    try: build_model()
    except BuildBroken as e:
        chk.violation('extracted model does not build: ' + e.what, dict(log_tail=e.log[-3000:]), found_input=False)
        return chk.finish()
    ws, structured = words(chk)
    lines = [str(w) for w in ws]
    chk.log('words: %d' % len(lines))
    model = run_model('ppc', lines); impl = run_impl('impl_ppc.py', lines)
    chk.cov['evaluations'] = len(lines); chk.cov['traces_validated_against_impl'] = len(lines)
    decoded = [(w, i) for w, i in zip(ws, impl) if i.split('|')[0] and ',' not in i.split('|')[0]]
    chk.cov['distinct_nontrivial'] = len(decoded)
    kf = {k['key']: k for k in chk.known_findings()}
    # the property itself on the implementation: ambiguity, re-encoding
    ghost = [(w, i) for w, i in zip(ws, impl) if 'DECODES' in i]
    if ghost:
        w, i = ghost[0]
        chk.violation('the word 0x%08x is claimed by %s class yet decodes: %s (%d such words; the answer depends on the words decoded before it)' % (w, 'no' if not i.split('|')[0] else 'more than one', i, len(ghost)),
                      dict(case=str(w), impl=i, count=len(ghost), note='run the words of this shard in ascending order to reproduce'))
    amb = [(w, i) for w, i in zip(ws, impl) if ',' in i.split('|')[0]]
    if amb:
        w, i = amb[0]
        chk.violation('the word 0x%08x is claimed by %d classes: %s (%d ambiguous words)' % (w, i.count(',') + 1, i.split('|')[0], len(amb)), dict(case=str(w), impl=i, count=len(amb)))
    elif not proved:
        chk.violation('proof obligations of props/C18.v no longer check (class tables changed); no ambiguous or non-re-encoding word found among those explored', chk.broken_summary(), found_input=False)
    bad = {}
    for w, i in decoded:
        f = i.split('|')
        if f[1] != str(w): bad.setdefault(f[0], []).append((w, i))
    for cl, items in sorted(bad.items()):
        key = 'reencode:' + cl
        if key in kf: chk.report_known(key, kf[key]['what'] + ' (%d words in this run)' % len(items)); continue
        w, i = items[0]
        chk.violation('re-encoding the decoded fields of 0x%08x (%s) gives %s (%d words of this class)' % (w, cl, i.split('|')[1], len(items)), dict(case=str(w), impl=i, count=len(items), key=key))
    mism = [(w, m, i) for w, m, i in zip(ws, model, impl) if m != i and 'DECODES' not in i]
    if mism and not chk.violations:
        w, m, i = mism[0]
        chk.violation('correspondence Ppc.v vs ppc_arch (check / bin) broken on %d words, e.g. 0x%08x: model %s, impl %s' % (len(mism), w, m, i),
                      dict(correspondence='Ppc.v/claimants,reencode vs ppc_mnemo_metaclass.check, ppc_mn.bin', case=str(w), model=m, impl=i, count=len(mism)), found_input=False)
    # architecture's opcode assignment and the text fixpoint on a sample of decoded words
    # the text-level checks run on the STRUCTURED words only (a fixed enumeration: the listed finding classes must not depend on VERIF_SEED)
    sample = sorted(w for w, _ in decoded if w in structured)
    txt = run_impl('impl_ppc.py', [str(w) for w in sample], args=['text'])
    arch_bad = {}; fix_bad = {}
    for w, t in zip(sample, txt):
        f = t.split('|')
        if len(f) < 4: fix_bad.setdefault((f[0], f[-1].split()[0] if len(f) > 2 else 'crash'), []).append((w, t)); continue
        name = f[2].split()[0] if f[2].split() else ''
        p = w >> 26; xo = (w >> 1) & 1023
        exp = PRIMARY.get(p) if p in PRIMARY else (XO31.get(xo) if p == 31 else XO19.get(xo) if p == 19 else None)
        if exp is not None:
            got = name.upper(); base = exp.rstrip('.')
            ALIAS = {'ADDI': ('ADDI', 'LI'), 'ADDIS': ('ADDIS', 'LIS'), 'BC': ('B',), 'BCLR': ('BLR', 'BCLR'), 'BCCTR': ('BCTR', 'BCCTR'), 'ORI': ('ORI', 'NOP'), 'OR': ('OR', 'MR')}
            ok = any(got.startswith(a) for a in ALIAS.get(base, (base,)))
            if 48 <= p <= 55: ok = True        # LFS/LFD/STFS/STFD families are spelled LFDS, LFDD ... by this module: not compared
            if not ok: arch_bad.setdefault((f[0], p, xo if p in (19, 31) else -1), []).append((w, t, exp))
        if not f[3].isdigit() or int(f[3]) != w:
            fix_bad.setdefault((f[0], 'asm' if not f[3].isdigit() else 'differs'), []).append((w, t))
    chk.cov['text_fixpoint_checked'] = len(sample)
    for (cl, p, xo), items in sorted(arch_bad.items()):
        key = 'arch:%s:%d:%d' % (cl, p, xo)
        if key in kf: chk.report_known(key, kf[key]['what'] + ' (%d words)' % len(items)); continue
        w, t, exp = items[0]
        chk.violation('0x%08x (primary %d, extended %d) decodes as %r, the architecture assigns %s' % (w, p, xo, t.split('|')[2], exp), dict(case=str(w), impl=t, expected=exp, key=key, count=len(items)))
    for (cl, kind), items in sorted(fix_bad.items()):
        key = 'textfix:%s:%s' % (cl, kind)
        if key in kf: chk.report_known(key, kf[key]['what'] + ' (%d words in this run)' % len(items)); continue
        w, t = items[0]
        chk.violation('decode/render/assemble fixpoint fails for 0x%08x (%s): %s (%d words of this class)' % (w, cl, t[:200], len(items)), dict(case=str(w), impl=t, key=key, count=len(items)))
    chk.cov['rule'] = ('words: 64 primary x 1024 extended opcodes x 4 register triples x Rc/LK bit; D-form immediates {0,1,0x7fff,0x8000,0xffff} x rt/ra in {0,1,31}; all 32 BO x BI classes x BD boundaries x AA/LK; '
                       'LI boundaries; seeded random words. Per word: claiming classes and bin(parse) vs the model; on a sample of decoded words the rendered text, the assembled word and the mnemonic '
                       'the PowerPC architecture assigns (hand-written reference table). Non-trivial = word claimed by exactly one class')
    chk.cov['samples'] = [dict(word='0x%08x' % w, model=m, impl=i) for w, m, i in list(zip(ws, model, impl))[::max(1, len(ws) // 6)][:6]]
    return chk.finish(assumptions=['class tables dumped from the running library on every run (tie D); Ppc.v mirrors check/get_val/set_val/bin (tie H)',
                                   'the text fixpoint (str / asm) and the architecture opcode table are checked by execution only (no Gallina model of the per-class string code; PRIMARY/XO tables are a hand-written reference)'])

def replay(path):
    r = json.load(open(path))
    if 'case' not in r: print('replay names a broken obligation:', r.get('what')); return 1
    out = run_impl('impl_ppc.py', [r['case']], shards=1, args=['text'])[0]
    print('word', r['case'], '->', out)
    f = out.split('|')
    return 0 if len(f) == 4 and f[1] == r['case'] and f[3] == r['case'] else 1
