"""C09 — Intel and AT&T renderings denote the same instruction and are valid GNU as input."""
import json, re
from common import *
import asmcheck, gas, objref

def strip_default_seg(t): return re.sub(r'\b(ds|ss):\[', '[', t)
def is_nop_xchg(t): return bool(re.match(r'^(nop|xchg\s+e?ax,\s*e?ax)$', t.strip()))
def same_insn(t1, t2):
    """two objdump texts denote the same instruction (normalised: prefixes, mnemonic, operands)"""
    try: return objref.norm_text(t1) == objref.norm_text(t2)
    except Exception: return t1.split() == t2.split()

def run(tier):
    chk = Check('C09', tier)
    import att_tie
    try:
        ntie, badtie = att_tie.run_tie(chk)
    except Exception as e:
        chk.violation('dump / correspondence of the AT&T mnemonic tables failed: %s' % str(e)[:300], dict(error=str(e)[:2000]), found_input=False)
        ntie, badtie = 0, []
    if badtie:
        l, m, i = badtie[0]
        chk.violation('correspondence Att.v vs mnemo_to_att/mnemo_from_att broken on %d inputs, e.g. %r: model %s, implementation %s' % (len(badtie), l, m, i),
                      dict(correspondence='Att.v vs ia32_arch.mnemo_to_att / mnemo_from_att', case=l, model=m, impl=i, count=len(badtie)), found_input=False)
    if not chk.prove(['gen/AttTables.vo']):
        w = att_tie.roundtrip_witness()
        if w: chk.violation('the AT&T spelling of a mnemonic no longer converts back: %s' % w['why'], dict(chk.broken_summary(), **w))
        else: chk.violation('proof obligations of props/C09.v no longer check', chk.broken_summary(), found_input=False)
    ctx = asmcheck.Ctx(chk, tier)
    bad = {}
    def note(key, case, detail): bad.setdefault(key, []).append((case, detail))
    ri = ctx.asm([('i', x['intel']) for x in ctx.base])
    ra = ctx.asm([('a', x['att']) for x in ctx.base])
    for x, i, a in zip(ctx.base, ri, ra):
        for syn, r, line in (('intel', i, x['intel']), ('att', a, x['att'])):
            if isinstance(r, tuple): note(asmcheck.klass('syn:%s:parser-raises' % syn, x), x['b'], 'the %s rendering %r of %s is rejected by the matching parser with %s' % (syn, line, x['b'], r[1]))
            elif x['b'] not in r: note(asmcheck.klass('syn:%s:original-not-among-candidates' % syn, x), x['b'], 'the %s rendering %r of %s assembles to %s, which does not contain the original encoding' % (syn, line, x['b'], r[:6]))
    # GNU as on both renderings (instructions a compiler emits)
    sel = [x for x in ctx.base + ctx.disagree if not asmcheck.has_branch_or_abs(x)]
    for syn in ('intel', 'att'):
        st = gas.assemble([x[syn] for x in sel], syn, chk.work, 'c09' + syn)
        for x, s in zip(sel, st):
            if s[0] != 'ok':
                note(asmcheck.klass('gas:%s:%s' % (syn, s[0]), x), x['b'], 'GNU as (%s mode) %s the rendering %r of %s: %s' % (syn, 'rejects' if s[0] == 'rejected' else 'warns on', x[syn], x['b'], s[1][:120]))
            elif s[1] != x['b'] and not same_insn(s[2], x['ref']) and not (x['b'][:2] in ('3e', '36') and same_insn(strip_default_seg(s[2]), strip_default_seg(x['ref']))) and not (is_nop_xchg(s[2]) and is_nop_xchg(x['ref'])):      # GNU as drops a redundant ds/ss override
                note(asmcheck.klass('gas:%s:other-instruction' % syn, x), x['b'], 'GNU as (%s mode) assembles the rendering %r of %s to %s = %r, not an encoding of %r' % (syn, x[syn], x['b'], s[1], s[2], x['ref']))
    chk.cov['mnemonic_correspondence_cases'] = ntie
    chk.cov['evaluations'] = ntie + 2 * len(ctx.base) + 2 * len(sel); chk.cov['renderings_reparsed'] = 2 * len(ctx.base); chk.cov['renderings_given_to_gas'] = 2 * len(sel)
    chk.cov['distinct_nontrivial'] = len(ctx.base); chk.cov['traces_validated_against_impl'] = 2 * len(ctx.base)
    asmcheck.report(chk, bad)
    chk.cov['rule'] = ('usable base strings (see C03) rendered in both syntaxes by the working tree: each rendering is re-parsed by the matching miasmX parser (candidates must contain the original bytes) and, '
                       'unless the instruction has a raw relative displacement or an absolute numeric memory operand, assembled by GNU as 2.40 in the matching mode (must be accepted without warning and decode, '
                       'by objdump, to the instruction the original bytes decode to). Non-trivial = base string')
    chk.cov['samples'] = [dict(bytes=x['b'], intel=x['intel'], att=x['att']) for x in ctx.base[::max(1, len(ctx.base) // 5)][:5]]
    return chk.finish(assumptions=['GNU as / objdump 2.40 are the reference for valid input and for instruction identity'])

def replay(path):
    r = json.load(open(path)); print(r.get('detail', r.get('what'))); return 1
