"""impl runner: one AT&T program per line (instructions separated by ';'), emulated on a fresh x86_machine;
prints 'eip | dump_id | dump_mem' (state dumps as the library renders them)."""
import os, sys
REAL = os.fdopen(os.dup(1), 'w')
sys.stdout = open(os.devnull, 'w')      # the PLY lexers print 'Illegal character' to stdout
import sys, os
sys.setrecursionlimit(20000)
from miasmx.arch.ia32_arch import x86mnemo
from miasmx.tools import emul_helper
def run(prog):
    lines = []
    for ins in prog.split(';'):
        ins = ins.strip()
        if not ins: continue
        c = x86mnemo.asm_att(ins)
        if not c: return 'X cannot-assemble ' + ins
        lines.append(x86mnemo.dis(c[0]))
    m = emul_helper.x86_machine()
    ret = emul_helper.emul_lines(m, lines)
    return '%s | %s | %s' % (ret, ' ; '.join(m.dump_id()), ' ; '.join(m.dump_mem()))
out = []
for l in sys.stdin:
    l = l.strip()
    if not l: continue
    try: out.append(run(l))
    except Exception as e: out.append('X %s %s' % (type(e).__name__, str(e)[:80].replace('\n', ' ')))
REAL.write('\n'.join(out) + '\n'); REAL.flush()
