"""impl runner: one hex string per line -> the operand expressions the lifter is called with (instruction.arg_expr as built by
emul_helper.get_instr_expr / dict_to_Expr) as S-expressions '(..) (..)', '-' when there is none to report (not decodable, no
semantics, exception)."""
import os, sys, binascii, logging
REAL = os.fdopen(os.dup(1), 'w'); sys.stdout = open(os.devnull, 'w')
sys.path.insert(0, os.path.dirname(os.path.abspath(__file__)))
sys.setrecursionlimit(20000)
logging.disable(logging.CRITICAL)
from exprlib import obj2s
from miasmx.arch.ia32_arch import x86mnemo
from miasmx.arch.ia32_sem import mnemo_func
from miasmx.tools import emul_helper
from miasmx.expression.expression import ExprInt32
def one(h):
    i = x86mnemo.dis(binascii.unhexlify(h))
    if i is None: return '-'
    if i.m.name not in mnemo_func and '#' not in i.m.name: return '-'
    try:
        emul_helper.get_instr_expr(i, ExprInt32(0x1000 + i.l), [])
        return 'A ' + ' '.join(obj2s(a) for a in i.arg_expr)
    except Exception as e:
        return '-'
out = []
for l in sys.stdin:
    l = l.strip()
    if not l: continue
    try: out.append(one(l))
    except Exception as e: out.append('-')
REAL.write('\n'.join(out) + '\n'); REAL.flush()
