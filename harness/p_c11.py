"""C11 — every decodable instruction lifts to well-typed IR (tie S: the lifted IR of the working tree is regenerated into
Gallina terms on every run; the obligation is a vm_compute reflection of the clause checks of Wf.v over the whole dump)."""
import os, sys, json
from common import *
import dump_lift, dump_x86, x86gen, liftgen

CLAUSE = {1: 'lifting raises', 2: 'an element is not an assignment of a value expression to a register or memory cell', 3: 'a sub-expression has no determinate width',
          4: 'operands of + - * & | ^ == differ in width', 5: 'a slice lies outside its operand (or is empty)', 6: 'concatenation slots do not tile',
          7: 'source and destination widths differ', 8: 'two assignments write the same or overlapping storage'}

def violations_of(hexes):
    """lift with the implementation, judge with the extracted Wf.violated: list of (hex, mnemonic, o16, [clauses]) for liftable forms"""
    out = run_impl('impl_lift.py', hexes)
    lines = []; meta = []
    for h, o in zip(hexes, out):
        if o == 'None' or o.startswith('NOLIFT'): continue
        b = bytes.fromhex(h); o16 = False; i = 0
        while i < len(b) and b[i] in (0x66, 0x67, 0x26, 0x2e, 0x36, 0x3e, 0x64, 0x65, 0xf0, 0xf2, 0xf3):
            if b[i] == 0x66: o16 = True
            i += 1
        if o.startswith('E '):
            f = o.split(); lines.append('ERR'); meta.append((h, dump_lift.class_name(f[2] if len(f) > 2 else '?'), o16, f[1]))
        else:
            mn, L, rest = (o.split(' ', 2) + [''])[:3]
            lines.append(rest); meta.append((h, dump_lift.class_name(mn), o16, None))
    res = run_model('wf', lines)
    return [(h, mn, o16, [int(c) for c in r.split(',') if c and c.isdigit()], err, r) for (h, mn, o16, err), r in zip(meta, res)]

def run(tier):
    chk = Check('C11', tier)
    try:
        cases, files = dump_lift.generate()
    except Exception as e:
        chk.violation('dump of the lifted semantics failed: %s' % str(e)[:300], dict(dump='harness/dump_lift.py', error=str(e)[:2000]), found_input=False)
        return chk.finish()
    proved = chk.prove(['gen/LiftAll.vo'])
    try: build_model()
    except BuildBroken as e:
        chk.violation('extracted model does not build: ' + e.what, dict(log_tail=e.log[-3000:]), found_input=False)
        return chk.finish()
    kf = {k['key']: k for k in chk.known_findings()}
    # exploration beyond the kernel-checked catalogue: more byte strings per signature (payload values, register numbers, prefixes)
    d = dump_x86.load()
    ctl = list(x86gen.control_strings(d, None, 'quick'))
    chk.rng.shuffle(ctl)
    extra = ctl[:60000 if tier == 'quick' else 500000]
    cat = [c[0] for c in cases]
    vs = violations_of(cat + extra)
    chk.cov['evaluations'] = len(cat) + len(extra); chk.cov['catalogue_forms_in_kernel_obligation'] = len(cases)
    chk.cov['lifted_forms_judged'] = len(vs); chk.cov['distinct_nontrivial'] = len(set(v[0] for v in vs))
    seen = {}
    unknown = {}
    for h, mn, o16, cls, err, raw in vs:
        if raw.startswith('X'):
            unknown.setdefault(('model-error', mn, o16), []).append((h, raw)); continue
        for c in cls:
            key = 'lift:%s:%s:%d' % (mn, 'o16' if o16 else 'o32', c)
            if key in kf: seen.setdefault(key, 0); seen[key] += 1
            else: unknown.setdefault((c, mn, o16), []).append((h, err))
    for key in sorted(seen): chk.report_known(key, kf[key]['what'] + ' (%d forms in this run)' % seen[key])
    nrep = 0
    for (c, mn, o16), items in sorted(unknown.items(), key=lambda kv: str(kv[0])):
        items.sort(key=lambda x: (len(x[0]), x[0]))
        if nrep >= 40: break
        nrep += 1
        h, err = items[0]
        if c == 'model-error':
            chk.violation('the lifted IR of bytes %s (%s) cannot be read by the model: %s' % (h, mn, err), dict(case=h, mnemonic=mn, error=err), found_input=False); continue
        chk.violation('bytes %s (%s, %s-bit operand size): %s%s; %d forms of this class' % (h, mn, 16 if o16 else 32, CLAUSE[c], (' (%s)' % err) if err else '', len(items)),
                      dict(case=h, mnemonic=mn, o16=o16, clause=c, count=len(items), key='lift:%s:%s:%d' % (mn, 'o16' if o16 else 'o32', c)))
    if not proved and not chk.violations:
        chk.violation('the reflection obligation all_lifted_wf_except no longer checks although no unlisted violation was found among the forms explored', chk.broken_summary(), found_input=False)
    chk.cov['rule'] = ('catalogue: one representative byte string per (mnemonic, operand size, address size, operand shape) signature of the decoder control space whose mnemonic has lifted semantics '
                       '(or uses the MMX fallback); its lifted IR is dumped into Gallina and judged inside the kernel. Exploration: a seeded sample of further control strings judged with the extracted '
                       'checker. Non-trivial = distinct liftable byte string')
    chk.cov['samples'] = [dict(bytes=v[0], mnemonic=v[1], violated=v[3]) for v in vs[::max(1, len(vs) // 6)][:6]]
    return chk.finish(assumptions=['the dump is produced by executing the lifter of the working tree (tie S); Wf.v states the clauses of C11 as boolean checks (a specification written by hand)',
                                   'parametricity of the lifter in payload values / register numbers inside one signature is sampled (exploration), not proved'])

def replay(path):
    r = json.load(open(path))
    if 'case' not in r: print('replay names a broken obligation:', r.get('what')); return 1
    v = violations_of([r['case']])
    print(v)
    return 1 if v and (r.get('clause') in v[0][3]) else 0
