"""C03 — assemble/disassemble round trip is a fixpoint (see asmcheck.py for the line sources and references)."""
import json
from common import *
import asmcheck

def run(tier):
    chk = Check('C03', tier)
    asmcheck.prove_codec(chk)
    ntie = asmcheck.codec_tie(chk)
    ctx = asmcheck.Ctx(chk, tier)
    canon = ctx.canonical()
    # the round trip is a statement about the BYTES: strings whose rendering differs from objdump's text (C01 decides those) are
    # round-tripped as well — a wrong rendering that no longer assembles back to its bytes is a C03 violation of its own
    extra = [x for x in ctx.disagree if not asmcheck.has_branch_or_abs(x)]
    canon = list(canon) + ctx.canonical_of(extra)
    ctx.base = ctx.base + extra
    res = ctx.asm([('i', x['intel']) for x in ctx.base])
    bad = {}
    def note(key, case, detail): bad.setdefault(key, []).append((case, detail))
    cands = {}      # candidate hex -> (line, base)
    nacc = 0
    for x, cn, r in zip(ctx.base, canon, res):
        if isinstance(r, tuple):
            if cn: note(asmcheck.klass('rt:raises', x), x['b'], 'asm(%r) raises %s; the line is the rendering of the canonical encoding %s' % (x['intel'], r[1], x['b']))
            continue
        nacc += 1
        if cn and x['b'] not in r:
            note(asmcheck.klass('rt:missing', x), x['b'], 'asm(%r) = %s does not contain the canonical encoding %s it was rendered from' % (x['intel'], r[:6], x['b']))
        for c in r: cands.setdefault(c, (x['intel'], x))
    # every candidate: decodable at full length, and a fixpoint of render-then-assemble
    cl = sorted(cands)
    dis = run_impl('impl_x86dis.py', cl)
    rend = run_impl('impl_x86dis.py', ['r ' + c for c in cl])
    again = []; idx = []
    for k, (c, d, rt) in enumerate(zip(cl, dis, rend)):
        line, x = cands[c]
        if '|' not in d:
            note(asmcheck.klass('rt:candidate-undecodable', x), c, 'candidate %s of asm(%r) is not accepted by the disassembler (%s)' % (c, line, d[:60])); continue
        L = int(d.split('|')[0])
        if 2 * L != len(c):
            note(asmcheck.klass('rt:candidate-length', x), c, 'candidate %s of asm(%r): the disassembler consumes %d of %d bytes' % (c, line, L, len(c) // 2)); continue
        it = rt.split(' || ')[0]
        if it.startswith('CRASH') or it == 'None': continue
        again.append(('i', it)); idx.append(k)
    res2 = ctx.asm(again)
    for (kind, it), k, r in zip(again, idx, res2):
        c = cl[k]; line, x = cands[c]
        if isinstance(r, tuple):
            note(asmcheck.klass('rt:rendering-of-candidate-raises', x), c, 'candidate %s of asm(%r) renders as %r, which asm rejects with %s' % (c, line, it, r[1]))
        elif c not in r:
            note(asmcheck.klass('rt:candidate-not-fixpoint', x), c, 'candidate %s of asm(%r) renders as %r, whose candidates %s do not contain it' % (c, line, it, r[:6]))
    chk.cov['evaluations'] = len(ctx.base) + len(cl) + len(again); chk.cov['accepted_lines'] = nacc; chk.cov['canonical_strings'] = sum(canon)
    chk.cov['candidates'] = len(cl); chk.cov['distinct_nontrivial'] = nacc; chk.cov['traces_validated_against_impl'] = len(ctx.base) + len(again)
    chk.cov['codec_correspondence_cases'] = ntie
    asmcheck.report(chk, bad)
    chk.cov['rule'] = ('Intel renderings of the usable base strings (lift catalogue + fixed sample of the decoder control space on which the library decoder and objdump agree, no superfluous prefix) are assembled; '
                       'canonical strings (GNU as on objdump text reproduces them) must be among their candidates; every candidate must decode at full length and be among the candidates of its own rendering. Non-trivial = accepted line')
    chk.cov['samples'] = [dict(bytes=x['b'], line=x['intel']) for x in ctx.base[::max(1, len(ctx.base) // 5)][:5]]
    return chk.finish(assumptions=['GNU as / objdump 2.40 define canonical encodings; decoder/reference disagreements are decided by C01 and excluded here'])

def replay(path):
    r = json.load(open(path)); print(r.get('detail', r.get('what'))); return 1
