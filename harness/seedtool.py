#!/usr/bin/env python3
"""seedtool.py confirm <PID> <k> <srcdir> [--check "<cmd>"]
Confirm a sub-agent's seeded change in a scratch worktree of /repo HEAD (suite passes, demo fails with / passes without),
run the property's check against it with the patch applied to /repo (undone straight afterwards), and keep it under
/verif/seeded/<PID>-<k>/ (patch.diff, demo.py, meta.json)."""
import sys, os, json, subprocess, shutil, re
def sh(cmd, **kw):
    p = subprocess.run(cmd, shell=True, stdout=subprocess.PIPE, stderr=subprocess.STDOUT, text=True, **kw)
    return p.returncode, p.stdout
def main():
    pid, k, src = sys.argv[2], sys.argv[3], sys.argv[4]
    checks = [pid]
    if '--also' in sys.argv: checks += sys.argv[sys.argv.index('--also') + 1].split(',')
    patch = os.path.join(src, 'mut%s.diff' % k); demo = os.path.join(src, 'demo%s.py' % k); meta = os.path.join(src, 'meta%s.json' % k)
    wt = '/tmp/wt/confirm_%s_%s' % (pid, k)
    sh('git -C /repo worktree remove --force %s' % wt)
    rc, out = sh('git -C /repo worktree add -q --detach %s HEAD' % wt); assert rc == 0, out
    res = {}
    try:
        env = 'cd %s && PYTHONPATH=%s PYTHONHASHSEED=0 /venv/bin/python' % (wt, wt)
        shutil.copy(demo, os.path.join(wt, '_demo.py')); demo_wt = os.path.join(wt, '_demo.py')
        rc0, o0 = sh('%s %s' % (env, demo_wt)); res['demo_without_change_rc'] = rc0
        rc, out = sh('git -C %s apply %s' % (wt, patch)); res['patch_applies_to_head'] = (rc == 0)
        if rc != 0:
            rc, out = sh('git -C %s apply -3 %s' % (wt, patch)); res['patch_applies_3way'] = (rc == 0)
            if rc != 0: print('PATCH DOES NOT APPLY', out); return 2
        sh('git -C %s diff > %s/patch_on_head.diff' % (wt, wt))
        rc, out = sh('%s -m pytest -q -p no:cacheprovider 2>&1 | tail -1' % env); res['suite'] = out.strip()
        rc1, o1 = sh('%s %s' % (env, demo_wt)); res['demo_with_change_rc'] = rc1
        res['demo_with_change_tail'] = '\n'.join(o1.strip().split('\n')[-3:])
        confirmed = rc0 == 0 and rc1 != 0 and '278 passed' in res['suite']
        res['confirmed'] = confirmed
        print(json.dumps(res, indent=1))
        if not confirmed: print('NOT CONFIRMED'); return 2
        dst = '/verif/seeded/%s-%s' % (pid, k); os.makedirs(dst, exist_ok=True)
        shutil.copy(os.path.join(wt, 'patch_on_head.diff'), os.path.join(dst, 'patch.diff'))
        shutil.copy(demo, os.path.join(dst, 'demo.py'))
    finally:
        sh('git -C /repo worktree remove --force %s' % wt)
    # run the checks with the patch applied to /repo itself
    st = sh('git -C /repo status --porcelain --untracked-files=no')[1].strip()
    assert st == '', 'repo dirty: ' + st
    ran = {}
    try:
        rc, out = sh('git -C /repo apply %s/patch.diff' % dst); assert rc == 0, out
        for c in checks:
            rc, out = sh('cd /verif && bin/check %s quick' % c)
            lines = [l for l in out.split('\n') if l.startswith('VIOLATION') or '  ->' in l]
            ran[c] = dict(exit=rc, detected=(rc != 0 and any(l.startswith('VIOLATION property=%s' % c) for l in lines)), lines=lines[:6])
            print(c, 'exit', rc); print('\n'.join(lines[:6]))
    finally:
        sh('git -C /repo checkout -- .')
    m = json.load(open(meta)) if os.path.exists(meta) else {}
    m.update(dict(property=pid, confirm=res, checks_run=ran, ran='scratch worktree of /repo HEAD: suite, demo with/without; then bin/check <id> quick with patch applied to /repo, undone afterwards',
                  repo_head=sh('git -C /repo rev-parse --short HEAD')[1].strip()))
    json.dump(m, open(os.path.join(dst, 'meta.json'), 'w'), indent=1)
    return 0
sys.exit(main())
