"""impl runner (C02/C03 codec tie): 'cis <v> <is16> <kind 0..5>' -> 'None' or '<field value> <hex of the struct.pack emission>'
computed with ia32_arch.check_imm_size and the struct formats asm_all_candidate uses."""
import os, sys, struct, binascii
REAL = os.fdopen(os.dup(1), 'w'); sys.stdout = open(os.devnull, 'w')
from miasmx.arch import ia32_arch as A
from miasmx.arch.ia32_reg import x86_afs as X
from miasmx.tools.modint import uint16
KINDS = [A.u08, A.s08, A.u16, A.s16, A.u32, A.s32]
def one(l):
    t = l.split()
    v = int(t[1]); is16 = t[2] == '1'; k = KINDS[int(t[3])]
    imm = uint16(v) if is16 else v
    try: r = A.check_imm_size(imm, k)
    except Exception as e: return 'E %s' % type(e).__name__
    if r is None: return 'None'
    try: b = struct.pack(X.dict_size[k], int(r))
    except Exception as e: return '%d E-pack-%s' % (int(r), type(e).__name__)
    return '%d %s' % (int(r), binascii.hexlify(b).decode())
out = []
for l in sys.stdin:
    l = l.strip()
    if l: out.append(one(l))
REAL.write('\n'.join(out) + '\n'); REAL.flush()
