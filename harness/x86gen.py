"""x86gen.py — the structured control-byte space of the x86 decoder, enumerated from the dumped opcode trie."""
import random
D_RMR = 11
def opcode_paths(d):
    """[(path bytes, mnemonic id, is_digit)] — for digit-afs mnemonics the ModRM byte is the last trie level: one entry per
    (path without modrm, digit)"""
    out = []
    def walk(t, path):
        digits = {}
        for b, x in enumerate(t):
            if x is None: continue
            if isinstance(x, list): walk(x, path + [b])
            else:
                m = d['mnemos'][x]
                if m['afs'] <= 7:
                    digits.setdefault((x, m['afs']), []).append(b)
                else:
                    out.append((path + [b], x, False))
        for (x, dg), bs in digits.items():
            out.append((path, x, True, dg, bs))
    walk(d['trie'], [])
    return out

SIBS_QUICK = [0x00, 0x24, 0x25, 0x65, 0xe5, 0x0c, 0x8d, 0xfc]
PAYLOADS = ['0000000000000000', '7f7f7f7f7f7f7f7f', '8080808080808080', 'ffffffffffffffff', '0102030405060708', 'f1e2d3c4b5a69788']
PREFIX_SETS = [[], [0x66], [0x67], [0xf3], [0xf2], [0x2e], [0x65], [0xf0], [0x66, 0x67], [0x3e], [0x66, 0xf3], [0x67, 0x64]]

def control_strings(d, rng, tier):
    """yield hex strings.  The structured space is a FIXED enumeration per tier (its internal sampling uses a constant seed, not
    VERIF_SEED): the reference-disagreement classes listed in known_findings.json must not depend on the seed."""
    rng = random.Random(20250925)
    paths = opcode_paths(d)
    seen = set()
    full = (tier == 'thorough')
    for ent in paths:
        if ent[2]:
            path, mid, _, dg, modrms = ent
            need_modrm = True
        else:
            path, mid, _ = ent
            need_modrm = D_RMR in d['mnemos'][mid]['rm']
            modrms = list(range(256)) if need_modrm else [None]
        psets = PREFIX_SETS if full else (PREFIX_SETS[:3] + [rng.choice(PREFIX_SETS[3:])])
        for pi, pf in enumerate(psets):
            ms = modrms
            if need_modrm and len(ms) > 24 and ((not full and pi >= 1) or (full and pi >= 3)):
                reps = [m for m in ms if (m & 0xc7) in (0x04, 0x05, 0x44, 0x84, 0xc0, 0x06, 0x46, 0x86, 0x00, 0xc7, 0x45)]
                ms = sorted(set(rng.sample(ms, 16) + reps))
            for m in ms:
                ctl = pf + path + ([m] if m is not None else [])
                sibs = [None]
                if m is not None and (m >> 6) != 3 and (m & 7) == 4 and 0x67 not in pf:
                    if full: sibs = range(256) if pi == 0 else SIBS_QUICK
                    else: sibs = SIBS_QUICK if pi == 0 else SIBS_QUICK[:3]
                for sb in sibs:
                    c2 = ctl + ([sb] if sb is not None else [])
                    if full: pls = PAYLOADS[:4] if (pi == 0 and sb in (None, 0x24, 0x65)) else [PAYLOADS[(len(c2) + (m or 0)) % 4], PAYLOADS[5]]
                    else: pls = PAYLOADS if (pi == 0 and rng.random() < 0.2) else [PAYLOADS[(len(c2) + (m or 0)) % 4], PAYLOADS[4]]
                    for pl in pls[:(4 if full else 2)]:
                        h = ''.join('%02x' % b for b in c2) + pl
                        if h not in seen:
                            seen.add(h); yield h
    # opcode bytes that lead nowhere, 1- and 2-byte
    for b in range(256):
        h = '%02x' % b + PAYLOADS[4]
        if h not in seen: seen.add(h); yield h
        for b2 in (range(256) if full else range(0, 256, 7)):
            for pre in ('0f', '66', 'f3', 'd9', 'db'):
                h = pre + '%02x%02x' % (b, b2) + PAYLOADS[4][:12]
                if h not in seen: seen.add(h); yield h
