"""C05 — expression simplification preserves meaning and terminates (tie H: Simp.v vs expression_helper.py)."""
import os, sys, json
from common import *
import exprlib as X
import exprcheck as XC
import simpgen

def gen(chk):
    rng = chk.rng
    lines = []; hist = {}; tags = []
    def add(tag, t):
        lines.append('(simp %s)' % X.t2s(t)); tags.append(tag); hist[tag] = hist.get(tag, 0) + 1
    for tag, t in simpgen.families():
        add(tag, t)
        add(tag + '/perm', X.permute_assoc(t, rng))
    g = X.Gen(rng, ops_extra=[('fadd', 2), ('umul32_hi', 2)], signed_ints=False)
    n = 6000 if chk.tier == 'quick' else 150000
    for i in range(n):
        w = rng.choice(X.WIDTHS); depth = rng.choice([1, 2, 2, 3, 3, 4, 4, 5, 6])
        t = g.expr(w, depth)
        add('rand', t)
        if i % 3 == 0: add('rand/perm', X.permute_assoc(t, rng))
    # rule instances embedded at depth (the fixpoint loop and visit must reach them)
    fam = list(simpgen.families())
    g.no_shift = True      # an embedded instance must not land in a shift-count position (it could fold to a huge count)
    for i in range(n // 4):
        tag, t = rng.choice(fam)
        w = X.tsize(t)
        if w not in X.WIDTHS: continue
        ctx = g.expr(w, 2)
        subs = [s for s in X.subterms(ctx) if X.tsize(s) == w and s[0] in ('D', 'I')]
        if not subs: continue
        tgt = rng.choice(subs)
        def rep(x):
            if x is tgt: return t
            k = x[0]
            if k == 'M': return ('M', x[1], rep(x[2]), x[3])
            if k == 'O': return ('O', x[1], [rep(a) for a in x[2]])
            if k == 'C': return ('C', rep(x[1]), rep(x[2]), rep(x[3]))
            if k == 'S': return ('S', rep(x[1]), x[2], x[3])
            if k == 'K': return ('K', [(rep(e), lo, hi) for e, lo, hi in x[1]])
            return x
        add('embedded', rep(ctx))
    return lines, tags, hist

def vars_of(t):
    return sorted(set(s[1] for s in X.subterms(t) if s[0] == 'D'))
def has_kind(t, kinds): return any(s[0] in kinds for s in X.subterms(t))

def value_search(e, out):
    """does the simplified expression (text `out`) have the width and value of `e` (text)?  Exhaustive over all 2^16
    valuations for instances over two 8-bit variables without memory; boundary+random valuations otherwise."""
    te = X.s2t(e)
    if out.startswith(('E ', 'X ', 'FUEL')): return 'raises %s' % out
    to = X.s2t(out)
    sz = [int(x) for x in run_model('exprlaws', ['(size %s)' % e, '(size %s)' % out], shards=1)]
    if sz[0] != sz[1]: return 'width %d became %d' % (sz[0], sz[1])
    vs = sorted(set(vars_of(te)) | set(vars_of(to)))
    widths = {s[1]: s[2] for s in X.subterms(te) + X.subterms(to) if s[0] == 'D'}
    if len(vs) <= 2 and all(widths[v] == 8 for v in vs) and not has_kind(te, 'M') and not has_kind(to, 'M'):
        cases = []
        vals = [(a, b) for a in range(256) for b in range(256)] if len(vs) == 2 else [(a, 0) for a in range(256)]
        for a, b in vals:
            ov = dict(zip(vs, (a, b)))
            cases.append((0, e, ov)); cases.append((0, out, ov))
        r = XC.model_eval(cases)
        for i, (a, b) in enumerate(vals):
            if r[2 * i] != r[2 * i + 1]:
                return 'value differs under %s: %d vs %d (exhaustive over %d valuations)' % (dict(zip(vs, (a, b))), r[2 * i], r[2 * i + 1], len(vals))
        return None
    r = XC.values_equal(e, out, nseeds=64)
    if r is not None: return 'value differs under valuation seed %d: %d vs %d' % r
    # cross product of boundary values for up to 3 identifiers (wrap-around of sums of counts, sign bits, all-ones)
    if 1 <= len(vs) <= 3:
        import itertools
        def bset(w):
            return sorted(set(v % (1 << w) for v in [0, 1, 2, w - 1, w, w + 1, 1 << (w - 1), (1 << w) - 1, (1 << (w - 1)) - 1, (1 << (w - 1)) + 1, 0x10, 0x1f, 0x20, 0x80, 0xff]))
        combos = list(itertools.product(*[bset(widths[v]) for v in vs]))
        cases = []
        for c in combos:
            ov = dict(zip(vs, c)); cases.append((1, e, ov)); cases.append((1, out, ov))
        r = XC.model_eval(cases)
        for i, c in enumerate(combos):
            if r[2 * i] != r[2 * i + 1]:
                return 'value differs under %s: %d vs %d' % (dict(zip(vs, c)), r[2 * i], r[2 * i + 1])
    return None

def audit(chk, lines, impl, tags, nseeds):
    """the property itself on the implementation: for every case whose result is an expression different from the input, the
    width of the result and its value under nseeds pseudo-random valuations (one batch through the extracted Expr.eval)"""
    todo = [(l[6:-1], i, t) for l, i, t in zip(lines, impl, tags) if not i.startswith(('E ', 'X ', 'FUEL')) and i != l[6:-1]]
    if not todo: return 0
    sizes = run_model('exprlaws', [x for e, o, t in todo for x in ('(size %s)' % e, '(size %s)' % o)])
    cases = []
    for e, o, t in todo:
        for sd in range(nseeds): cases.append((sd, e, {})); cases.append((sd, o, {}))
    vals = XC.model_eval(cases)
    bad = {}
    for k, (e, o, t) in enumerate(todo):
        why = None
        if sizes[2 * k] != sizes[2 * k + 1]: why = 'width %s became %s' % (sizes[2 * k], sizes[2 * k + 1])
        else:
            for sd in range(nseeds):
                a, b = vals[2 * (k * nseeds + sd)], vals[2 * (k * nseeds + sd) + 1]
                if a is not None and b is not None and a != b: why = 'value %d became %d under valuation seed %d' % (a, b, sd); break
        if why: bad.setdefault(t.split('/')[0], []).append((e, o, why))
    chk.cov['audited_results'] = len(todo); chk.cov['audit_valuations_per_case'] = nseeds
    for tag, items in sorted(bad.items())[:8]:
        items.sort(key=lambda x: len(x[0]))
        e, o, why = items[0]
        chk.violation('expr_simp breaks C05 on %s -> %s: %s; %d audited cases of family %s' % (e[:300], o[:200], why, len(items), tag),
                      dict(case='(simp %s)' % e, impl=o, why=why, family=tag, count=len(items)))
    return len(bad)

def run(tier):
    chk = Check('C05', tier)
    if not chk.prove():
        chk.violation('proof obligations of props/C05.v no longer check', chk.broken_summary(), found_input=False)
    try: build_model()
    except BuildBroken as e:
        chk.violation('extracted model does not build: ' + e.what, dict(log_tail=e.log[-3000:]), found_input=False)
        return chk.finish()
    lines, tags, hist = gen(chk)
    corpus = XC.load_corpus('C05')
    lines = corpus + lines; tags = ['corpus'] * len(corpus) + tags
    chk.log('cases: %d' % len(lines))
    try:
        model, impl = XC.run_both(chk, 'simp', 'impl_simp.py', lines)
    except RuntimeError as e:
        chk.violation('a simplifier run did not complete (non-termination or crash of the runner): %s' % str(e)[:500], dict(error=str(e)[:3000]), found_input=False)
        return chk.finish()
    chk.cov['evaluations'] = len(lines); chk.cov['traces_validated_against_impl'] = len(lines)
    chk.cov['generator_histogram'] = hist
    changed = set(); kinds = {}
    for l, m in zip(lines, model):
        k = m[:2] if m.startswith(('E ', 'FU')) else 'ok'
        kinds[k] = kinds.get(k, 0) + 1
        if m != l[6:-1]: changed.add(l)
    chk.cov['distinct_nontrivial'] = len(changed)
    chk.cov['model_outcomes'] = kinds
    chk.cov['rule'] = ('rule-targeted families (one per rewrite rule / side condition of _expr_simp and merge_sliceto_slice, over 8-bit al,b8,c8 and 32-bit x32,y32,eax), each also '
                       'permuted/re-associated and embedded in random contexts; typed random trees depth<=6 over all node kinds and widths 1..64. Compared: full result trees. '
                       'Non-trivial = distinct input that the model rewrites to something else')
    chk.cov['samples'] = [dict(case=l[:300], model=m[:200], impl=i[:200]) for l, m, i in list(zip(lines, model, impl))[::max(1, len(lines) // 6)][:6]]
    # audit of the implementation's own results, whether or not the model agrees: width and value of every rewritten case
    aud = audit(chk, lines, impl, tags, 6 if tier == 'quick' else 16)
    mism = [(l, m, i, t) for l, m, i, t in zip(lines, model, impl, tags) if m != i]
    bytag = {}
    for x in mism: bytag.setdefault(x[3].split('/')[0], []).append(x)
    nrep = 0
    for tag, items in sorted(bytag.items()):
        items.sort(key=lambda x: len(x[0]))
        found = None
        for l, m, i, t in items[:25]:
            why = value_search(l[6:-1], i)
            if why: found = (l, m, i, why); break
        if nrep >= 8: break
        nrep += 1
        if found:
            l, m, i, why = found
            chk.violation('expr_simp breaks C05 on %s -> %s: %s (model: %s); %d cases of family %s differ from the model' % (l[6:-1][:300], i[:200], why, m[:200], len(items), tag),
                          dict(case=l, impl=i, model=m, why=why, family=tag, count=len(items)))
        else:
            l, m, i, t = items[0]
            chk.violation('correspondence Simp.v vs expression_helper.py broken for family %s (%d cases), e.g. %s: model %s, impl %s; width and value are preserved on every valuation tried' % (tag, len(items), l[:300], m[:200], i[:200]),
                          dict(correspondence='Simp.v/simp vs miasmx.expression.expression_helper.expr_simp', case=l, impl=i, model=m, count=len(items)), found_input=False)
    return chk.finish(assumptions=['Simp.v is a hand transcription of expression_helper.py tied by exact-output correspondence on the cases counted here',
                                   'the per-object simp memo flag is outside this model (C12); every case runs on fresh objects',
                                   'well-typed = unsigned constants, equal operand widths incl. shift counts; narrower counts are compared model-vs-implementation only'])

def replay(path):
    r = json.load(open(path))
    if 'case' not in r: print('replay names a broken obligation:', r.get('what')); return 1
    out = run_impl('impl_simp.py', [r['case']], shards=1)[0]
    why = value_search(r['case'][6:-1], out)
    print('case', r['case'], '\nimpl', out, '\nproperty:', why or 'holds')
    return 1 if why else 0
