"""impl runner for C15/C16: same line syntax as the extracted model's 'exprlaws' suite."""
import sys, os
sys.path.insert(0, os.path.dirname(os.path.abspath(__file__)))
sys.setrecursionlimit(10000)
from exprlib import parse, s2t, to_obj, obj2s, show
from miasmx.expression import expression as E

def nodes(e, acc):
    acc.append(e)
    c = e.__class__
    if c is E.ExprMem:
        nodes(e.arg, acc)
        if isinstance(e.segm, E.Expr): nodes(e.segm, acc)
    elif c is E.ExprOp:
        for a in e.args: nodes(a, acc)
    elif c is E.ExprCond:
        nodes(e.cond, acc); nodes(e.src1, acc); nodes(e.src2, acc)
    elif c is E.ExprSlice: nodes(e.arg, acc)
    elif c is E.ExprCompose:
        for x in e.args: nodes(x[0], acc)
    elif c is E.ExprAff:
        nodes(e.dst, acc); nodes(e.src, acc)
    return acc
def showset(s): return '(' + ' '.join(sorted(obj2s(x) for x in s)) + ')'
def line(x):
    k = x[0]
    if k == 'size': return str(to_obj(s2t(x[1])).get_size())
    if k == 'eq': return '1' if to_obj(s2t(x[1])) == to_obj(s2t(x[2])) else '0'
    if k == 'eqlaws':
        # equality is reflexive, symmetric, consistent with != and implies equal hashes
        a = to_obj(s2t(x[1])); b = to_obj(s2t(x[2]))
        ok = (a == a) and ((a == b) == (b == a)) and ((a != b) == (not (a == b))) and ((not (a == b)) or hash(a) == hash(b))
        return '1' if ok else '0'
    if k == 'copy': return obj2s(to_obj(s2t(x[1])).copy())
    if k == 'copyshare':
        e = to_obj(s2t(x[1])); c = e.copy()
        ids = set(id(n) for n in nodes(e, []))
        return '1' if not any(id(n) in ids for n in nodes(c, [])) else '0'
    if k == 'visitid': return obj2s(to_obj(s2t(x[1])).visit(lambda y: y))
    if k == 'replace':
        d = {}
        for kv in x[1]: d[to_obj(s2t(kv[0]))] = to_obj(s2t(kv[1]))
        e = to_obj(s2t(x[2])); before = obj2s(e)
        r = obj2s(e.replace_expr(d))
        if obj2s(e) != before: return 'X input-mutated'
        return r
    if k == 'canonize': return obj2s(to_obj(s2t(x[1])).canonize())
    if k == 'getr': return showset(to_obj(s2t(x[2])).get_r(mem_read=bool(int(x[1]))))
    if k in ('getr01', 'getr10'):
        # history: the same object (and a wrapper that shares it) is first asked with the other flag
        e = to_obj(s2t(x[1])); first = (k == 'getr10')
        e.get_r(mem_read=first)
        wrapper = E.ExprOp('+', e, e)
        r1 = e.get_r(mem_read=not first); r2 = wrapper.get_r(mem_read=not first)
        if showset(r1) != showset(r2): return 'X wrapper-differs'
        return showset(r1)
    if k == 'getw':
        try: return showset(to_obj(s2t(x[1])).get_w())
        except (ValueError, NameError): return 'E'
    if k == 'ids': return showset(E.get_expr_ids(to_obj(s2t(x[1]))))
    if k == 'match':
        tks = [to_obj(s2t(t)) for t in x[1]]
        r = E.MatchExpr(to_obj(s2t(x[2])), to_obj(s2t(x[3])), tks)
        if r is False: return 'F'
        if r is True: return 'T'
        return '(' + ' '.join('(%s %s)' % (obj2s(a), obj2s(b)) for a, b in r.items()) + ')'
    if k == 'keycmp':
        ka = E.key_expr(to_obj(s2t(x[1]))); kb = E.key_expr(to_obj(s2t(x[2])))
        return str((ka > kb) - (ka < kb))
    raise SystemExit('bad line ' + k)
out = []
for l in sys.stdin:
    l = l.strip()
    if not l: continue
    try:
        out.append(line(parse(l)))
    except SystemExit: raise
    except Exception as e:
        out.append('X ' + type(e).__name__)
sys.stdout.write('\n'.join(out) + '\n')
