"""liftgen.py — the catalogue of instruction forms whose lifted semantics are dumped: one representative byte string per
(mnemonic, operand-size, address-size, operand-shape) signature of the decoder's control space (fixed enumeration)."""
import random
import dump_x86, x86gen
from common import run_impl

def arg_shape(a):
    f = dict(x.split('=', 1) for x in a.split(' ') if '=' in x)
    regs = [rc.split(':') for rc in f.get('regs', '').split(',') if rc]
    if f.get('ad') == 'False':
        cls = ''
        for r, c in regs:
            r = int(r)
            cls = 'hi' if (f.get('size') == 'u08' and 4 <= r < 8) else ('sp' if r == 4 else ('a' if r == 0 else 'r')) if r < 8 else 'x%d' % (r >> 4)
        return ('reg', f.get('size'), cls, f.get('imm') != '-')
    base_sp = any(int(r) == 4 and c == '1' for r, c in regs)
    scaled = any(c != '1' for r, c in regs)
    return ('mem', f.get('size'), 'sp' if base_sp else ('abs' if not regs else 'm'), scaled, f.get('imm') != '-', f.get('segm') != '-')

def catalogue(tier='quick'):
    d = dump_x86.load()
    strings = list(x86gen.control_strings(d, None, 'quick'))
    impl = run_impl('impl_x86dis.py', strings)
    sigs = {}
    for s, i in zip(strings, impl):
        if '|' not in i: continue
        f = i.split('|')
        pf = set(f[1].split(',')) if f[1] else set()
        if pf - {'102', '103'}: continue                 # only operand-size / address-size prefixes (others do not reach the lifter)
        shape = tuple(arg_shape(a) for a in f[5].split(' ; ')) if f[5] else ()
        key = (f[2], f[1], f[3], f[4], shape)
        L = int(f[0]); h = s[:2 * L]
        if key not in sigs or (len(h), h) < (len(sigs[key]), sigs[key]): sigs[key] = h
    return sorted(set(sigs.values()))

def shift_sweep():
    """immediate-count shifts and rotates: every group-2 operation (rol ror rcl rcr shl shr sal sar) on a register operand of
    8 / 16 / 32 bits and shld / shrd, with counts around the masking boundaries (the processor masks the count to 5 bits:
    0x20, 0x40 ... behave as 0)."""
    out = []
    counts = (0, 1, 7, 8, 9, 15, 16, 17, 31, 32, 33, 64, 0x80, 0xe0, 0xff)
    for c in counts:
        for ext in range(8):
            modrm = 0xc0 | (ext << 3) | 3                      # operand ebx / bx / bl
            out.append('c0%02x%02x' % (modrm, c)); out.append('c1%02x%02x' % (modrm, c)); out.append('66c1%02x%02x' % (modrm, c))
        for opc in ('0fa4', '0fac'):                            # shld / shrd ebx, eax, imm8
            out.append('%sc3%02x' % (opc, c)); out.append('66%sc3%02x' % (opc, c))
    return out
