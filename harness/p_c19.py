"""C19 — equivalent spellings of an assembly line assemble identically (candidate sets compared on the implementation)."""
import json, re
from common import *
import asmcheck, objref

REGS = ('eax ecx edx ebx esp ebp esi edi ax cx dx bx sp bp si di al cl dl bl ah ch dh bh es cs ss ds fs gs '
        'mm0 mm1 mm2 mm3 mm4 mm5 mm6 mm7 xmm0 xmm1 xmm2 xmm3 xmm4 xmm5 xmm6 xmm7 cr0 cr2 cr3 cr4 dr0 dr1 dr2 dr3 dr6 dr7 st').split()
REG_RE = re.compile(r'\b(' + '|'.join(REGS) + r')\b')
KW_RE = re.compile(r'\b(BYTE|WORD|DWORD|QWORD|TBYTE|XMMWORD|PTR|OFFSET|FLAT)\b')
NUM_RE = re.compile(r'(?<![\w.])(-?)(0x[0-9a-fA-F]+|\d+)(?![\w(])')

def split_line(it):
    it = it.rstrip()
    m = re.match(r'^((?:(?:lock|rep|repe|repne|repz|repnz)\s+)*\S+)(\s*)(.*)$', it)
    return m.group(1), m.group(3)

def variants(x):
    """presentation-only rewrites of the Intel rendering -> list of (kind, line)"""
    it = x['intel']; head, ops = split_line(it); out = []
    if not ops: return [('spacing', '  ' + it.strip() + '  ')]
    out.append(('register-case', head + ' ' + REG_RE.sub(lambda m: m.group(1).upper(), ops)))
    if REG_RE.search(ops): out.append(('percent-prefix', head + ' ' + REG_RE.sub(lambda m: m.group(1) if m.group(1) in ('es', 'cs', 'ss', 'ds', 'fs', 'gs') else '%' + m.group(1), ops)))      # the Intel grammar takes an optional % before a register
    if KW_RE.search(ops): out.append(('keyword-case', head + ' ' + KW_RE.sub(lambda m: m.group(1).lower(), ops)))
    out.append(('spacing', '  ' + head + '    ' + re.sub(r'\s*,\s*', '  ,   ', re.sub(r'\[\s*', '[ ', re.sub(r'\s*\]', ' ]', re.sub(r'\s*([+*])\s*', r' \1 ', ops)))) + '  '))
    # number base
    def hexed(m, up=False):
        v = int(m.group(2), 0); t = ('0X%X' if up else '0x%x') % v
        return m.group(1) + t
    def dec(m): return m.group(1) + str(int(m.group(2), 0))
    if NUM_RE.search(ops):
        h = NUM_RE.sub(hexed, ops)
        if h != ops: out.append(('number-hex', head + ' ' + h))
        hu = NUM_RE.sub(lambda m: hexed(m, True), ops)
        if hu != ops and hu != h: out.append(('number-hex-upper', head + ' ' + hu))
        d = NUM_RE.sub(dec, ops)
        if d != ops: out.append(('number-decimal', head + ' ' + d))
    # sign convention at 32 bits for a plain trailing immediate of a 32-bit form
    parts = objref.split_ops(ops)
    if parts and re.match(r'^\s*-?(0x[0-9a-fA-F]+|\d+)\s*$', parts[-1]) and re.search(r'\b(e[a-d]x|e[sd]i|e[sb]p|DWORD)\b', ops) and not re.search(r'\b(BYTE|WORD)\b', ops):
        v = int(parts[-1], 0)
        if v < 0: out.append(('sign-convention-32', head + ' ' + ', '.join(parts[:-1] + ['0x%X' % (v % (1 << 32))])))
        elif v >= (1 << 31): out.append(('sign-convention-32', head + ' ' + ', '.join(parts[:-1] + [str(v - (1 << 32))])))
    # memory operand term order / displacement outside the brackets
    for k, p in enumerate(parts):
        m = re.search(r'\[([^\]]+)\]', p)
        if not m: continue
        inner = m.group(1).replace(' ', '')
        terms = re.findall(r'[+-]?[^+-]+', inner)
        regs = [t for t in terms if re.search(r'[a-z]', t)]; nums = [t for t in terms if not re.search(r'[a-z]', t)]
        def rebuild(q): return head + ' ' + ', '.join(parts[:k] + [p[:m.start()] + q + p[m.end():]] + parts[k + 1:])
        if len(regs) == 2 and ('*' in regs[0]) != ('*' in regs[1]) and all(not t.startswith('-') for t in regs):
            sw = [regs[1].lstrip('+'), '+' + regs[0].lstrip('+')] + nums
            out.append(('term-order', rebuild('[' + ''.join(sw) + ']')))
        if len(nums) == 1 and regs and all(not t.startswith('-') for t in regs):
            n = nums[0]
            if not n.startswith('-'):
                out.append(('disp-first', rebuild('[' + n.lstrip('+') + ''.join(t if t[0] in '+-' else '+' + t for t in regs) + ']')))
            out.append(('disp-outside', rebuild(n.lstrip('+') + '[' + ''.join(regs).lstrip('+') + ']')))
        break
    if re.search(r'\bst\b(?!\()', ops): out.append(('st-vs-st0', head + ' ' + re.sub(r'\bst\b(?!\()', 'st(0)', ops)))
    return out

def sign_pairs(x):
    """(syntax, kind, line with the signed spelling, line with the unsigned spelling of the same value modulo the operand width) for the
    trailing immediate of the Intel rendering / the $immediate of the AT&T rendering"""
    out = []
    it = x['intel']; head, ops = split_line(it)
    parts = objref.split_ops(ops) if ops else []
    if not parts or not re.match(r'^\s*-?(0x[0-9a-fA-F]+|\d+)\s*$', parts[-1]) or len(parts) < 2: return out
    if x['name'] not in ('add', 'or', 'adc', 'sbb', 'and', 'sub', 'xor', 'cmp', 'test', 'mov'): return out      # instructions whose immediate has the operand width
    rest = ', '.join(parts[:-1])
    if re.search(r'\bBYTE\b', rest) or re.search(r'\b([a-d][lh])\b', rest): w = 8
    elif re.search(r'\bWORD\b', rest) or re.search(r'\b([a-d]x|[sd]i|[sb]p)\b', rest): w = 16
    elif re.search(r'\bDWORD\b', rest) or re.search(r'\b(e[a-d]x|e[sd]i|e[sb]p)\b', rest): w = 32
    else: return out
    m = re.search(r'\$-?(0x[0-9a-fA-F]+|\d+)', x['att'])
    for sv in (-1, -128):
        uv = sv % (1 << w)
        out.append(('i', 'signpair-%d' % w, '%s %s, %d' % (head, rest, sv), '%s %s, 0x%X' % (head, rest, uv)))
        if m: out.append(('a', 'att-signpair-%d' % w, x['att'][:m.start()] + '$%d' % sv + x['att'][m.end():], x['att'][:m.start()] + '$0x%x' % uv + x['att'][m.end():]))
    return out

def operand_tie(chk):
    """Operand.v (norm32, dict_add, dict_sub, dict_scale) vs parse_ad.py, exact output"""
    try: build_model()
    except BuildBroken as e:
        chk.violation('extracted model does not build: ' + e.what, dict(log_tail=e.log[-3000:]), found_input=False); return 0
    rng = chk.rng
    lines = []
    nums = set(asmcheck.BOUNDARY) | {0, 1, 16, 255, 256, 4096, 65535, 65536, 2**31 - 1, 2**31, 2**31 + 1, 2**32 - 2, 2**32 - 1, 2**32, 2**32 + 1, 2**33 + 5, 2**40 - 1} | {rng.randrange(0, 1 << 34) for _ in range(300)}
    for n in sorted(nums):
        if n >= 0:
            lines.append('num %d' % n); lines.append('num 0x%x' % n); lines.append('num 0X%X' % n)
    def rdict():
        keys = rng.sample([0, 1, 2, 3, 4, 5, 6, 7, 1000], rng.randrange(0, 4))
        return ','.join('%d:%d' % (k, rng.choice([1, 1, 2, 4, 8, -1, 3, 0x10, 0x7fffffff, -4])) for k in keys) or '-'
    for _ in range(1500):
        a, b = rdict(), rdict()
        lines.append('add %s %s' % (a, b)); lines.append('sub %s %s' % (a, b)); lines.append('add %s %s' % (b, a))
        lines.append('mul %d %s' % (rng.choice([1, 2, 4, 8, 3, -1, 0]), b))
    impl = run_impl('impl_operand.py', lines, shards=4)
    model_lines = [('num %d' % int(l.split()[1], 0)) if l.startswith('num') else l for l in lines]
    model = run_model('operand', model_lines)
    bad = [(l, m, i) for l, m, i in zip(lines, model, impl) if m != i]
    if bad:
        l, m, i = bad[0]
        chk.violation('correspondence Operand.v vs parse_ad.py broken on %d inputs, e.g. %r: model %s, implementation %s' % (len(bad), l, m, i),
                      dict(correspondence='Operand.v norm32/dict_add/dict_sub/dict_scale vs miasmx/core/parse_ad.py', case=l, model=m, impl=i, count=len(bad)), found_input=False)
    return len(lines)

def run(tier):
    chk = Check('C19', tier)
    if not chk.prove():
        chk.violation('proof obligations of props/C19.v no longer check', chk.broken_summary(), found_input=False)
    ntie = operand_tie(chk)
    ctx = asmcheck.Ctx(chk, tier)
    bad = {}
    def note(key, case, detail): bad.setdefault(key, []).append((case, detail))
    # one base string per (mnemonic, feature) class in quick, three in thorough
    per = 1 if tier == 'quick' else 3
    cnt = {}; sel = []
    for x in ctx.base:
        k = (x['name'], asmcheck.features(x))
        if cnt.get(k, 0) >= per: continue
        cnt[k] = cnt.get(k, 0) + 1; sel.append(x)
    lines = []; meta = []
    for x in sel:
        lines.append(('i', x['intel'])); meta.append((x, 'original', x['intel']))
        for kind, t in variants(x):
            lines.append(('i', t)); meta.append((x, kind, t))
        lines.append(('a', x['att'])); meta.append((x, 'att-transliteration', x['att']))
        for syn, kind, t1, t2 in sign_pairs(x):
            lines.append((syn, t1)); meta.append((x, 'pair-first', t1))
            lines.append((syn, t2)); meta.append((x, kind, t2))
    hist = []
    res = ctx.asm(lines, history=hist)
    for t, a, b in hist[:50]:
        note('spell:history-dependent', t, 'asm(%r) returns %s in one order of calls and %s in the reverse order' % (t, a[:80], b[:80]))
    orig = {}
    ncmp = 0
    for (x, kind, t), r in zip(meta, res):
        key = x['b']
        cs = ('E',) if isinstance(r, tuple) else tuple(sorted(set(r)))
        if kind == 'original': orig[key] = cs; continue
        if kind == 'pair-first': first = (cs, t); continue
        if kind.startswith('signpair-') or kind.startswith('att-signpair-'):
            ncmp += 1
            if cs != first[0]:
                note(asmcheck.klass('spell:%s' % kind, x), t, '%r assembles to %s but %r, the same value modulo the operand width, to %s' % (first[1], ('an exception' if first[0] == ('E',) else list(first[0])[:4]), t, ('an exception' if cs == ('E',) else list(cs)[:4])))
            continue
        o = orig[key]
        if o == ('E',) or not o:
            # the original spelling is rejected: a variant that is accepted is a difference too
            if cs != ('E',) and cs and kind not in ('att-transliteration',):
                note(asmcheck.klass('spell:%s:accepted-but-original-rejected' % kind, x), t, '%r is rejected but its respelling %r assembles to %s' % (x['intel'], t, list(cs)[:4]))
            continue
        ncmp += 1
        if cs != o:
            note(asmcheck.klass('spell:%s' % kind, x), t, '%r assembles to %s but its %s respelling %r to %s' % (x['intel'], list(o)[:4], kind, t, ('an exception' if cs == ('E',) else list(cs)[:4])))
    # structured Intel / AT&T pairs over the whole base x index x scale x displacement grid of 32-bit memory operands (base = index included:
    # the multiply-by-3/5/9 idiom); the two spellings of one operand must give the same candidate set
    regs = ['eax', 'ebx', 'ecx', 'edx', 'esi', 'edi', 'ebp']
    gp = []
    for b_ in regs:
        for i_ in regs:
            for s_ in (1, 2, 4, 8):
                for d_ in (None, 8, -4, 256):
                    it = '[%s+%s%s%s]' % (b_, i_, ('*%d' % s_ if s_ > 1 else ''), ('' if d_ is None else '%+d' % d_))
                    at = '%s(%%%s,%%%s%s)' % ('' if d_ is None else str(d_), b_, i_, (',%d' % s_ if s_ > 1 else ''))
                    gp.append(('lea edx, %s' % it, 'leal %s, %%edx' % at))
                    if (b_, s_) in (('ebx', 2), ('esi', 4)): gp.append(('add eax, DWORD PTR %s' % it, 'addl %s, %%eax' % at))
    gres = ctx.asm([q for a_, b2 in gp for q in (('i', a_), ('a', b2))])
    for k, (a_, b2) in enumerate(gp):
        x_, y_ = gres[2 * k], gres[2 * k + 1]
        cx = ('E',) if isinstance(x_, tuple) else tuple(sorted(set(x_))); cy = ('E',) if isinstance(y_, tuple) else tuple(sorted(set(y_)))
        ncmp += 1
        if cx != cy:
            same = 'base=index' if re.search(r'\[(\w+)\+\1', a_) else 'base,index'
            note('spell:att-grid:%s' % same, b2, '%r assembles to %s but its AT&T spelling %r to %s' % (a_, ('an exception' if cx == ('E',) else list(cx)[:4]), b2, ('an exception' if cy == ('E',) else list(cy)[:4])))
    chk.cov['att_grid_pairs'] = len(gp)
    # x87: EVERY usable base string (not one per class) in both spellings — operand sizes and the st / st(i) forms live in the mnemonic
    # suffix and in the fsub/fdiv reversal, so each AT&T mnemonic spelling is its own class
    xs = [x for x in ctx.base if x['name'].startswith('f')]
    xres = ctx.asm([q for x in xs for q in (('i', x['intel']), ('a', x['att']))])
    for k, x in enumerate(xs):
        a_, b2 = xres[2 * k], xres[2 * k + 1]
        ca = ('E',) if isinstance(a_, tuple) else tuple(sorted(set(a_))); cb = ('E',) if isinstance(b2, tuple) else tuple(sorted(set(b2)))
        if ca == ('E',) or not ca: continue
        ncmp += 1
        if ca != cb:
            fx = asmcheck.features(x); amn = x['att'].split()[0]
            # three root causes get one class each: a segment-override absolute operand in AT&T syntax yields no candidate; fisttpw is unknown;
            # the suffix-less fnstsw of a 16-bit memory operand yields no candidate
            xkey = 'spell:att-x87:*:segovr' if 'segovr' in fx.split('+') else ('spell:att-x87:%s:*' % amn if amn in ('fisttpw', 'fnstsw') else 'spell:att-x87:%s:%s' % (amn, fx))
            note(xkey, x['att'], '%r assembles to %s but its AT&T spelling %r to %s' % (x['intel'], list(ca)[:4], x['att'], ('an exception' if cb == ('E',) else list(cb)[:4])))
    chk.cov['x87_pairs'] = len(xs)
    # hand-written AT&T x87 register arithmetic (the fsub/fdiv reversal of the AT&T dialect included): the encoding GNU as gives the line must
    # be among the candidates — GNU as is the oracle of what the AT&T spelling denotes, independently of the library's own renderer
    import gas
    gl = []
    for op in ('fadd', 'fsub', 'fsubr', 'fmul', 'fdiv', 'fdivr'):
        for i_ in range(8): gl += ['%s %%st(%d), %%st' % (op, i_), '%s %%st, %%st(%d)' % (op, i_)]
    for op in ('faddp', 'fsubp', 'fsubrp', 'fmulp', 'fdivp', 'fdivrp'):
        for i_ in range(1, 8): gl.append('%s %%st, %%st(%d)' % (op, i_))
    gref = gas.assemble(gl, 'att', chk.work, 'c19x87'); gimp = ctx.asm([('a', l) for l in gl])
    for l, g, r in zip(gl, gref, gimp):
        if g[0] != 'ok': continue
        ncmp += 1
        cs = [] if isinstance(r, tuple) else list(r)
        if g[1] not in cs:
            note('spell:att-x87-gas:%s' % l.split()[0], l, 'GNU as encodes the AT&T line %r as %s; the assembler returns %s' % (l, g[1], ('an exception' if isinstance(r, tuple) else cs[:4])))
    chk.cov['x87_gas_lines'] = len(gl)
    chk.cov['operand_algebra_correspondence_cases'] = ntie
    chk.cov['evaluations'] = len(lines) + ntie; chk.cov['spelling_pairs_compared'] = ncmp; chk.cov['base_lines'] = len(sel)
    chk.cov['distinct_nontrivial'] = ncmp; chk.cov['traces_validated_against_impl'] = len(lines)
    asmcheck.report(chk, bad)
    chk.cov['rule'] = ('%d base string(s) per (mnemonic, feature) class; Intel rendering vs its respellings: register case, keyword case, spacing, hex / HEX / decimal numbers, -1 vs 0xFFFFFFFF at 32 bits, '
                       '[b+i*s] vs [i*s+b], [r+d] vs [d+r] vs d[r], st vs st(0), optional %% before registers, AT&T transliteration (the library rendering), and a grid of Intel / AT&T spellings of [base+index*scale+disp] over 7 x 7 registers (base = index included) x 4 scales x 4 displacements, and every usable x87 base string in both spellings; candidate SETS must be equal; hand-written AT&T x87 register arithmetic must contain the encoding GNU as gives the line; each line also assembled in reverse process order. '
                       'Non-trivial = compared pair') % per
    chk.cov['samples'] = [dict(kind=k, line=t) for (x, k, t) in meta[::max(1, len(meta) // 6)][:6]]
    return chk.finish(assumptions=['the AT&T transliteration of a line is the library AT&T rendering of the same decoded instruction (validated by C09)'])

def replay(path):
    r = json.load(open(path)); print(r.get('detail', r.get('what'))); return 1
