#!/usr/bin/env python3
"""cpucheck.py — validation of the reference semantics harness/x86ref.py against the processor this sandbox runs on.
For register forms of the integer core (8/16/32-bit operands; eax, ecx, edx, ebx and the status flags as state) a C file with one
inline-assembly stub per form is compiled with gcc, executed on boundary x random states, and every register and every flag the
reference calls *defined* is compared.  This is testing of a specification, not proof: it supports the trusted base of C04/C08.
usage: cpucheck.py [n_states]   (exit 0 = reference and processor agree on everything compared)"""
import os, sys, random, subprocess, tempfile, shutil
sys.path.insert(0, os.path.dirname(os.path.abspath(__file__)))
import x86ref

R = {32: ['eax', 'ecx', 'edx', 'ebx'], 16: ['ax', 'cx', 'dx', 'bx'], 8: ['al', 'cl', 'dl', 'bl']}
IDX = {'eax': 0, 'ecx': 1, 'edx': 2, 'ebx': 3}
def reg(i, n): return ('reg', i, n)
FLAGBITS = {'cf': 0, 'pf': 2, 'af': 4, 'zf': 6, 'nf': 7, 'of': 11}

def forms():
    out = []
    for n in (8, 16, 32):
        a, c, d, b = R[n]
        for mn in ('add', 'adc', 'sub', 'sbb', 'cmp', 'and', 'or', 'xor', 'test', 'xchg', 'xadd', 'mov'):
            out.append((mn, n, '%s %s, %s' % (mn, a, b), [reg(0, n), reg(3, n)]))
        for mn in ('inc', 'dec', 'neg', 'not'):
            out.append((mn, n, '%s %s' % (mn, b), [reg(3, n)]))
        for mn in ('shl', 'shr', 'sar', 'rol', 'ror', 'rcl', 'rcr'):
            out.append((mn, n, '%s %s, cl' % (mn, b), [reg(3, n), reg(1, 8)]))
            for k in (1, 3, 9, 31):
                out.append((mn, n, '%s %s, %d' % (mn, b, k), [reg(3, n), ('imm', k, 8)]))
        for mn in ('mul', 'imul', 'div', 'idiv'):
            out.append((mn, n, '%s %s' % (mn, b), [reg(3, n)]))
        for cc in ('o', 'no', 'b', 'ae', 'e', 'ne', 'be', 'a', 's', 'ns', 'p', 'np', 'l', 'ge', 'le', 'g'):
            if n == 8: out.append(('set' + cc, 8, 'set%s bl' % cc, [reg(3, 8)]))
            else: out.append(('cmov' + cc, n, 'cmov%s %s, %s' % (cc, a, b), [reg(0, n), reg(3, n)]))
        if n > 8:
            for mn in ('shld', 'shrd'):
                out.append((mn, n, '%s %s, %s, cl' % (mn, b, a), [reg(3, n), reg(0, n), reg(1, 8)]))
                for k in (1, 5, 17):
                    out.append((mn, n, '%s %s, %s, %d' % (mn, b, a, k), [reg(3, n), reg(0, n), ('imm', k, 8)]))
            out.append(('imul', n, 'imul %s, %s' % (a, b), [reg(0, n), reg(3, n)]))
            out.append(('imul', n, 'imul %s, %s, -7' % (a, b), [reg(0, n), reg(3, n), ('imm', -7 & 0xff, 8)]))
            for mn in ('bt', 'bts', 'btr', 'btc'):
                out.append((mn, n, '%s %s, %s' % (mn, a, b), [reg(0, n), reg(3, n)]))
            for mn in ('bsf', 'bsr'):
                out.append((mn, n, '%s %s, %s' % (mn, a, b), [reg(0, n), reg(3, n)]))
            out.append(('movzx', n, 'movzx %s, bl' % a, [reg(0, n), reg(3, 8)]))
            out.append(('movsx', n, 'movsx %s, bl' % a, [reg(0, n), reg(3, 8)]))
        out.append(('cmpxchg', n, 'cmpxchg %s, %s' % (b, d), [reg(3, n), reg(2, n)]))
    out += [('bswap', 32, 'bswap ebx', [reg(3, 32)]), ('cbw', 16, 'cbw', []), ('cwde', 32, 'cwde', []), ('cwd', 16, 'cwd', []), ('cdq', 32, 'cdq', []),
            ('clc', 32, 'clc', []), ('stc', 32, 'stc', []), ('cmc', 32, 'cmc', []), ('lahf', 32, 'lahf', []), ('sahf', 32, 'sahf', [])]
    return out

def csrc(fs):
    L = ['#include <stdio.h>', '#include <stdint.h>', 'typedef struct { uint32_t a, c, d, b; uint64_t f; } st;']
    for k, (mn, n, asm, ops) in enumerate(fs):
        L.append('static void f%d(st *s) { __asm__ volatile(".intel_syntax noprefix\\n mov eax,[rsi]\\n mov ecx,[rsi+4]\\n mov edx,[rsi+8]\\n mov ebx,[rsi+12]\\n push qword ptr [rsi+16]\\n popf\\n %s\\n pushf\\n pop qword ptr [rsi+16]\\n mov [rsi],eax\\n mov [rsi+4],ecx\\n mov [rsi+8],edx\\n mov [rsi+12],ebx\\n .att_syntax\\n" :: "S"(s) : "eax", "ecx", "edx", "ebx", "cc", "memory"); }' % (k, asm))
    L.append('static void (*tab[])(st *) = {%s};' % ', '.join('f%d' % k for k in range(len(fs))))
    L.append('int main() { unsigned k; st s; unsigned long f; while (scanf("%u %x %x %x %x %lx", &k, &s.a, &s.c, &s.d, &s.b, &f) == 6) { s.f = f | 0x202; tab[k](&s); printf("%x %x %x %x %lx\\n", s.a, s.c, s.d, s.b, (unsigned long)s.f); } return 0; }')
    return '\n'.join(L) + '\n'

def main(nstates=40, seed=20250926, verbose=True):
    fs = forms()
    work = tempfile.mkdtemp(prefix='cpuchk', dir=os.environ.get('VERIF_TMPDIR') or None)
    try:
        open(os.path.join(work, 't.c'), 'w').write(csrc(fs))
        p = subprocess.run(['gcc', '-O0', '-o', os.path.join(work, 't'), os.path.join(work, 't.c')], stdout=subprocess.PIPE, stderr=subprocess.STDOUT, text=True)
        if p.returncode != 0:
            print('cpucheck: gcc failed:\n' + p.stdout[-2000:]); return 2
        rng = random.Random(seed)
        B = [0, 1, 2, 0x7f, 0x80, 0xff, 0x100, 0x7fff, 0x8000, 0xffff, 0x7fffffff, 0x80000000, 0xffffffff, 5, 8, 9, 15, 16, 17, 31, 32, 33]
        cases = []; lines = []
        for k, (mn, n, asm, ops) in enumerate(fs):
            for _ in range(nstates):
                regs = {r: (rng.choice(B) if rng.random() < 0.6 else rng.randrange(1 << 32)) for r in ('eax', 'ecx', 'edx', 'ebx')}
                regs.update(esp=0x7000, ebp=0x7200, esi=0x5000, edi=0x6000)
                flags = {f: rng.randrange(2) for f in FLAGBITS}; flags['df'] = 0
                st = x86ref.State(regs, flags)
                try: ok = x86ref.exec_instr(mn, ops, st, n if n > 8 else 32, 0x1000)
                except Exception: ok = False
                if not ok: continue
                fin = sum(flags[f] << b for f, b in FLAGBITS.items())
                cases.append((k, regs, flags, st)); lines.append('%d %x %x %x %x %x' % (k, regs['eax'], regs['ecx'], regs['edx'], regs['ebx'], fin))
        p = subprocess.run([os.path.join(work, 't')], input='\n'.join(lines) + '\n', stdout=subprocess.PIPE, text=True)
        outs = p.stdout.strip().split('\n')
        if len(outs) != len(cases):
            print('cpucheck: runner produced %d of %d results (rc %s)' % (len(outs), len(cases), p.returncode)); return 2
        bad = {}
        for (k, regs, flags, st), o in zip(cases, outs):
            mn, n, asm, ops = fs[k]
            t = o.split(); got = dict(zip(('eax', 'ecx', 'edx', 'ebx'), (int(x, 16) for x in t[:4]))); gf = int(t[4], 16)
            for r in ('eax', 'ecx', 'edx', 'ebx'):
                if 'dst' in st.undef and r not in st.wregs: continue
                want = st.wregs.get(r, regs[r])
                if 'dst' in st.undef and r in st.wregs: continue
                if got[r] != want: bad.setdefault((asm, r), []).append((regs, flags, got[r], want))
            for f, b in FLAGBITS.items():
                if f in st.undef: continue
                want = st.wflags.get(f, flags[f])
                if (gf >> b) & 1 != want: bad.setdefault((asm, f), []).append((regs, flags, (gf >> b) & 1, want))
        if verbose: print('cpucheck: %d forms, %d states executed on the processor, %d (form, output) disagreements' % (len(fs), len(cases), len(bad)))
        for (asm, what), items in sorted(bad.items())[:40]:
            regs, flags, g, w = items[0]
            print('  %-28s %-4s processor %x, reference %x   eax=%x ecx=%x edx=%x ebx=%x flags=%s  (%d states)' % (asm, what, g, w, regs['eax'], regs['ecx'], regs['edx'], regs['ebx'], ''.join(f for f in FLAGBITS if flags[f]), len(items)))
        return 1 if bad else 0
    finally:
        shutil.rmtree(work, ignore_errors=True)

if __name__ == '__main__':
    sys.exit(main(int(sys.argv[1]) if len(sys.argv) > 1 else 40))
