"""C12 — API results depend only on explicit inputs (no hidden state between calls).
Histories of API calls on shared objects run in one process; every call's answer is compared with the pure answer: the Gallina
models (Simp.v, EvalAbs.v: pure functions by construction) for simp/eval/eval_instr, a fresh process for dis/lift/asm/asm_att."""
import os, sys, json, shutil, subprocess
from common import *
import exprlib as X
import exprcheck as XC

DIS = ['8b00', '658b00', '8a00', '8b0424', '648b0424', '8d36', '8b36', '01d8', '6601d8', '90', 'f390', 'c3', '7f05', 'e800000000', 'a4', 'f3a4', '0fb6c0', '660f6f03', '0f6f03',
       'd8c1', 'dbe9', '8b4508', 'c6450002', '0fa2', 'cd80', '50', '6650', '8f442408', 'ff7508', '0fafc3', 'd3e0', 'c1e005', '0fa4c305', 'f7f3', '99', '98']
ASM = ['mov eax, 5', 'mov eax, DWORD PTR [ebx+4]', 'lea eax, [ebx+ecx*4]', 'push WORD PTR [esi+2]', 'mov bx, WORD PTR [esi+2]', 'prefetchnta BYTE PTR [eax]', 'mov BYTE PTR [eax], 1',
       'add ebx, 65535', 'jmp eax', 'ret 4', 'xchg eax, ebx', 'fadd st, st(1)', 'movq mm0, mm1', 'paddb xmm0, xmm1', 'cmp dx, 0xFFFE', 'shl eax, 1']
ATT = ['movl $5, %eax', 'movl 4(%ebx), %eax', 'leal (%ebx,%ecx,4), %eax', 'call *4(%eax)', 'movb $-1, (%eax)', 'addw $0xFFFF, (%ebx)', 'pushw $-1', 'leal (%eax,%eax,2), %eax', 'ret $4', 'jmp *%eax']
REGS = ['eax', 'ebx', 'ecx', 'esi', 'zf', 'cf']
RW = {'eax': 32, 'ebx': 32, 'ecx': 32, 'esi': 32, 'zf': 1, 'cf': 1}

def gen_history(rng, g):
    h = []; names = []; machines = []
    n = rng.choice([4, 6, 10, 16, 25, 40, 50])
    for step in range(n):
        r = rng.random()
        if r < 0.15 or not names:
            nm = 'o%d' % len(names)
            if rng.random() < 0.4:
                reg = rng.choice(REGS); s = X.t2s(('D', reg, RW[reg], 1, 0))
            else:
                w = rng.choice([8, 32]); s = X.t2s(g.expr(w, rng.choice([1, 2, 3])))
            h.append(['mk', nm, s]); names.append((nm, s))
        elif r < 0.25 or not machines:
            mn = 'm%d' % len(machines); st = []
            for reg in rng.sample(REGS, rng.choice([0, 1, 2, 3])):
                key = X.t2s(('D', reg, RW[reg], 1, 0))
                # sometimes the key is a shared object
                shared = [nm for nm, s in names if s == key]
                k = rng.choice(shared) if shared and rng.random() < 0.6 else key
                v = X.t2s(('I', 0, RW[reg], rng.randrange(1 << min(RW[reg], 16)))) if rng.random() < 0.6 else X.t2s(('D', 'init_' + reg, RW[reg], 1, 1))
                st.append([k, v])
            h.append(['machine', mn, st]); machines.append(mn)
        elif r < 0.40: h.append(['simp', rng.choice(names)[0] if rng.random() < 0.7 else X.t2s(g.expr(rng.choice([8, 32]), 2))])
        elif r < 0.60: h.append(['eval', rng.choice(machines), rng.choice(names)[0] if rng.random() < 0.8 else X.t2s(g.expr(32, 2))])
        elif r < 0.68:
            reg = rng.choice(['eax', 'ebx', 'ecx']); src = rng.choice(names)
            if X.tsize(X.s2t(src[1])) != 32: continue
            h.append(['instr', rng.choice(machines), ['(A %s %s)' % (X.t2s(('D', reg, 32, 1, 0)), src[1])]])
        elif r < 0.80: h.append(['dis', rng.choice(DIS)])
        elif r < 0.86: h.append(['lift', rng.choice(DIS[:30])])
        elif r < 0.92: h.append(['asm', rng.choice(ASM)])
        elif r < 0.96: h.append(['asm_att', rng.choice(ATT)])
        else: h.append(['raise', rng.choice(['asm', 'simp', 'dis', 'lift'])])
    return h

_FRESH = {}
def fresh(op):
    k = json.dumps(op)
    if k not in _FRESH:
        out = run_impl('impl_history.py', [json.dumps([op])], shards=1)[0]
        _FRESH[k] = json.loads(out)[0]['out']
    return _FRESH[k]

def expected(op, rec):
    """the pure answer of one call, or None when no pure oracle applies"""
    k = op[0]
    if k in ('dis', 'lift', 'asm', 'asm_att', 'raise'): return ('fresh', op)
    if k == 'simp': return ('model', 'simp', '(simp %s)' % rec.get('input'))
    if k == 'eval': return ('model', 'evalabs', '(evalexpr %s %s)' % (rec.get('state'), rec.get('input')))
    if k == 'instr': return ('model', 'evalabs', '(run %s (%s) ())' % (rec.get('state'), rec.get('input')))
    return None

def judge(hists, outs):
    """returns list of (history index, op index, got, want, kind)"""
    q = {'simp': [], 'evalabs': []}
    for hi, (h, o) in enumerate(zip(hists, outs)):
        for oi, (op, rec) in enumerate(zip(h, o)):
            e = expected(op, rec)
            if e and e[0] == 'model' and 'input' in rec: q[e[1]].append((hi, oi, e[2]))
    ans = {}
    for suite, items in q.items():
        res = run_model(suite, [x[2] for x in items]) if items else []
        for (hi, oi, _), r in zip(items, res): ans[(hi, oi)] = r
    bad = []
    for hi, (h, o) in enumerate(zip(hists, outs)):
        for oi, (op, rec) in enumerate(zip(h, o)):
            if rec.get('inputs_changed'): bad.append((hi, oi, 'inputs %s changed' % rec['inputs_changed'], 'inputs unchanged', 'inputs')); continue
            if rec.get('state_changed'): bad.append((hi, oi, rec['state_changed'], rec['state'], 'state')); continue
            e = expected(op, rec)
            if not e: continue
            got = rec.get('out', '')
            if e[0] == 'fresh': want = fresh(op)
            else:
                want = ans.get((hi, oi))
                if want is None or want in ('NM', 'FUEL'): continue
                if op[0] == 'instr': want = want.split(' ## ')[0]
                if want.startswith('E ') and got.startswith('E '): continue      # both raise (exception classes are C05/C06 matters)
            if got != want: bad.append((hi, oi, got, want, op[0]))
        if o and o[-1].get('tables_changed'): bad.append((hi, len(h) - 1, 'shared tables changed', 'tables unchanged', 'tables'))
    return bad

def shrink(h, oi, kind):
    """greedy removal of earlier operations while the same call still gives a wrong answer"""
    cur = h[:oi + 1]; target = len(cur) - 1
    changed = True
    while changed and len(cur) > 1:
        changed = False
        cands = []
        for k in range(len(cur) - 1):
            c = cur[:k] + cur[k + 1:]
            # references must stay defined
            defined = set(); ok = True
            for op in c:
                if op[0] in ('mk', 'machine'): defined.add(op[1])
                refs = []
                if op[0] == 'machine': refs = [x for kv in op[2] for x in kv if not x.startswith('(')]
                if op[0] == 'simp': refs = [op[1]] if not op[1].startswith('(') else []
                if op[0] in ('eval', 'instr'): refs = [op[1]] + ([op[2]] if op[0] == 'eval' and not op[2].startswith('(') else [])
                if any(r not in defined for r in refs): ok = False
            if ok: cands.append(c)
        if not cands: break
        outs = [json.loads(o) for o in run_impl('impl_history.py', [json.dumps(c) for c in cands])]
        bad = judge(cands, outs)
        for hi, o2, got, want, k2 in bad:
            if o2 == len(cands[hi]) - 1 or k2 == kind:
                cur = cands[hi]; changed = True; break
    return cur

def classify(h, oi, kind, got):
    op = h[oi]
    if kind == 'eval' and not op[2].startswith('('):
        # the evaluated expression is a SHARED object that an earlier eval / eval_instr already saw (on any machine): eval_expr marks
        # the objects it returns with is_eval=True and later returns marked objects unevaluated, whatever the machine state
        nm = op[2]
        for prev in h[:oi]:
            if (prev[0] == 'eval' and prev[2] == nm) or (prev[0] == 'machine' and any(nm in kv for kv in prev[2])) or (prev[0] == 'instr'):
                return 'is_eval-flag-on-shared-object'
    return '%s' % kind

def cache_check(chk, kf):
    """results must not depend on parser tables cached on disk by earlier processes: empty, warm and stale cache directories"""
    # lines the parsers reject are probed too: HOW a line is rejected must not depend on the cache either
    bad_i = ['mov *', 'BYTE BYTE 0', 'mov eax, [ebx', 'lea eax, ]', 'add eax ebx ecx']; bad_a = ['movl %eax,', 'movl $, %eax', 'leal (%eax,,), %ebx', ')']
    probes = [json.dumps([['asm', a]]) for a in ASM + bad_i] + [json.dumps([['asm_att', a]]) for a in ATT + bad_a]
    base = os.path.join(chk.work, 'cache')
    res = {}
    for mode in ('empty', 'warm', 'stale'):
        d = os.path.join(base, mode); os.makedirs(d, exist_ok=True)
        env = impl_env(); env['TMPDIR'] = d
        def call():
            p = subprocess.run([PY, os.path.join(ROOT, 'harness', 'impl_history.py')], input='\n'.join(probes) + '\n', stdout=subprocess.PIPE, stderr=subprocess.PIPE, env=env, text=True, timeout=300)
            return [json.loads(l)[0]['out'] for l in p.stdout.strip().split('\n')] if p.returncode == 0 and p.stdout.strip() else ['X runner rc=%s' % p.returncode] * len(probes)
        if mode == 'warm': call()
        if mode == 'stale':
            # tables written by ANOTHER REVISION of the grammars under the same file names: a scratch copy of the library with
            # the precedence levels of + - * merged is imported once with TMPDIR = this directory
            src = os.path.join(base, 'stale_src'); shutil.rmtree(src, ignore_errors=True); os.makedirs(src)
            shutil.copytree(os.path.join(REPO, 'miasmx'), os.path.join(src, 'miasmx')); shutil.copytree(os.path.join(REPO, 'ply'), os.path.join(src, 'ply'))
            patched = 0
            for f in ('miasmx/core/parse_ad.py', 'miasmx/arch/ia32_att.py'):
                t = open(os.path.join(src, f)).read()
                t2 = t.replace("    ('left','PLUS','MINUS'),\n    ('left','TIMES'),", "    ('left','PLUS','MINUS','TIMES'),")
                if t2 != t: patched += 1; open(os.path.join(src, f), 'w').write(t2)
            chk.cov['stale_grammars_patched'] = patched
            env2 = dict(env); env2['PYTHONPATH'] = src
            subprocess.run([PY, '-c', "from miasmx.arch.ia32_arch import x86mnemo; x86mnemo.asm('mov eax, 5'); x86mnemo.asm_att('movl $5, %eax')"],
                           env=env2, stdout=subprocess.DEVNULL, stderr=subprocess.DEVNULL, timeout=120)
            shutil.rmtree(src, ignore_errors=True)
            for f in os.listdir(d):
                if f == '__pycache__': shutil.rmtree(os.path.join(d, f), ignore_errors=True)
        res[mode] = call()
    chk.cov['cache_modes'] = {m: len(r) for m, r in res.items()}
    for mode in ('warm', 'stale'):
        diff = [(p, a, b) for p, a, b in zip(probes, res['empty'], res[mode]) if a != b]
        if diff:
            p, a, b = diff[0]
            chk.violation('results depend on the parser-table cache directory: %s gives %s with an empty cache and %s with a %s cache (%d probes differ)' % (p, a[:80], b[:80], mode, len(diff)),
                          dict(case=p, empty=a, other=b, cache=mode, count=len(diff)))

def sweep_check(chk, kf, tier):
    """the decoder and the lifter over the whole catalogue of instruction forms, in one process per shard: every form is decoded,
    rendered and lifted in the given order, again in reverse order, and once more from the instruction objects kept from the first
    pass; the three answers must agree (a result that depends on what was decoded or lifted before is a hidden input)"""
    import liftgen, re
    forms = liftgen.catalogue('quick')
    forms = forms + ['d9f7', 'd9f6', '0401', '0501000000', '66050100', 'd8c1', 'dec1', 'd9f1', 'dae9', 'ddea', 'd8d9']
    out = run_impl('impl_sweep.py', forms)
    chk.cov['sweep_forms'] = len(forms); chk.cov['evaluations'] = chk.cov.get('evaluations', 0) + 3 * len(forms)
    byclass = {}
    for h, o in zip(forms, out):
        if o == 'ok': continue
        m = re.match(r'DIFF (\S+) (\S+) \| (.*) \| (.*)$', o)
        if not m:
            byclass.setdefault('sweep:runner', []).append((h, o, '', '')); continue
        mn = (m.group(3).split() or ['?'])[0] if m.group(2) == 'text' else h[:4]
        byclass.setdefault('sweep:%s:%s' % (m.group(1), m.group(2)), []).append((h, m.group(3), m.group(4), mn))
    for cl, items in sorted(byclass.items()):
        if cl in kf:
            chk.report_known(cl, kf[cl]['what'] + ' (%d forms in this run)' % len(items)); continue
        h, a, b, mn = items[0]
        chk.violation('decoding / lifting %s gives %s the first time and %s %s within one process (%d forms of class %s)' % (h, a[:160], b[:160], 'when the same bytes are decoded again later' if 'second' in cl else 'when the instruction object kept from the first time is used again', len(items), cl),
                      dict(case=h, first=a, other=b, history_class=cl, count=len(items), key=cl, forms=[i[0] for i in items[:20]]))

def run(tier):
    chk = Check('C12', tier)
    if not chk.prove():
        chk.violation('proof obligations of props/C12.v no longer check', chk.broken_summary(), found_input=False)
    try: build_model()
    except BuildBroken as e:
        chk.violation('extracted model does not build: ' + e.what, dict(log_tail=e.log[-3000:]), found_input=False)
        return chk.finish()
    rng = chk.rng
    g = X.Gen(rng, signed_ints=False, allow_segm=False)
    hists = [gen_history(rng, g) for _ in range(400 if tier == 'quick' else 6000)]
    # fixed scenario histories (minimised earlier findings and typical interleavings)
    for p in sorted(glob.glob(os.path.join(ROOT, 'corpus', 'C12', '*.json'))):
        hists.insert(0, json.load(open(p)))
    outs = [json.loads(o) for o in run_impl('impl_history.py', [json.dumps(h) for h in hists])]
    nops = sum(len(h) for h in hists)
    chk.cov['evaluations'] = nops; chk.cov['histories'] = len(hists); chk.cov['traces_validated_against_impl'] = nops
    kinds = {}
    for h in hists:
        for op in h: kinds[op[0]] = kinds.get(op[0], 0) + 1
    chk.cov['operation_histogram'] = kinds
    chk.cov['distinct_nontrivial'] = len(set(json.dumps(h) for h in hists if len(h) > 3))
    kf = {k['key']: k for k in chk.known_findings()}
    bad = judge(hists, outs)
    byclass = {}
    for hi, oi, got, want, kind in bad: byclass.setdefault(classify(hists[hi], oi, kind, got), []).append((hi, oi, got, want, kind))
    for cl, items in sorted(byclass.items()):
        key = 'history:' + cl
        if key in kf:
            chk.report_known(key, kf[key]['what'] + ' (%d calls in this run)' % len(items)); continue
        items.sort(key=lambda x: x[1])
        hi, oi, got, want, kind = items[0]
        small = shrink(hists[hi], oi, kind)
        chk.violation('after the history %s the call %s returns %s; its pure answer is %s (%d calls of class %s)' % (json.dumps(small[:-1])[:400], json.dumps(small[-1])[:200], got[:160], want[:160], len(items), cl),
                      dict(case=json.dumps(small), got=got, want=want, history_class=cl, count=len(items), key=key))
    cache_check(chk, kf)
    sweep_check(chk, kf, tier)
    chk.cov['rule'] = ('histories of 4..50 API calls (mk/machine/simp/eval/eval_instr/dis/lift/asm/asm_att/raising calls) on shared expression objects and machines; every call answer is compared with its pure '
                       'answer (Gallina models for simp/eval/eval_instr; a fresh process for dis/lift/asm/asm_att); inputs re-serialised after every call; digest of the shared x86 tables before/after; '
                       'assembler probes under empty, warm and stale (swapped) parser-table cache directories; catalogue sweep: every instruction form of the lifted catalogue decoded, rendered and lifted three times in one process (given order, reverse order, kept objects) with identical answers required. Non-trivial = distinct history longer than 3 calls')
    chk.cov['samples'] = [dict(history=json.dumps(h)[:400]) for h in hists[:3]]
    return chk.finish(assumptions=['the pure answers of simp/eval/eval_instr are the Gallina models Simp.v / EvalAbs.v (functions of their explicit arguments by construction)',
                                   'on-disk caches and process-global state are runtime facts outside Gallina: exercised by execution only'])

def replay(path):
    r = json.load(open(path))
    if 'case' not in r: print('replay names a broken obligation:', r.get('what')); return 1
    h = json.loads(r['case'])
    if h and isinstance(h[0], str): h = [h]
    out = json.loads(run_impl('impl_history.py', [json.dumps(h)], shards=1)[0])
    bad = judge([h], [out])
    print('history', h, '\n', bad)
    return 1 if bad else 0
