import sys, os
sys.path.insert(0, os.path.dirname(os.path.abspath(__file__)))
from common import *
import gen_all
def main():
    os.makedirs(os.path.join(COQ, 'gen'), exist_ok=True)
    gen_all.generate_all(verbose=True)
    with Lock():
        refresh_coqproject()
        rc, out = sh(['timeout', '3000', 'make', '-j%d' % NPROC], cwd=COQ, timeout=3100)
    print('\n'.join(out.split('\n')[-15:]))
    if rc != 0:
        print('setup: coq build failed (checks will report the broken obligations individually)')
    try:
        print('model runner:', build_model())
    except BuildBroken as e:
        print('setup: model build failed:', e.what, e.log[-2000:]); return 1
    return 0
sys.exit(main())
