import sys, os, importlib
sys.path.insert(0, os.path.dirname(os.path.abspath(__file__)))
def main():
    if len(sys.argv) < 2:
        sys.exit('usage: bin/check <ID> [quick|thorough] [--replay file]')
    pid = sys.argv[1]
    tier = os.environ.get('VERIF_TIER') or 'quick'
    replay = None
    args = sys.argv[2:]
    while args:
        a = args.pop(0)
        if a in ('quick', 'thorough'): tier = a
        elif a == '--replay': replay = args.pop(0)
    mod = importlib.import_module('p_' + pid.lower())
    if replay:
        sys.exit(mod.replay(replay))
    sys.exit(mod.run(tier))
main()
