"""impl runner for C05/C13: (simp e) (simp1 e) (simp2 e) on fresh objects."""
import sys, os
sys.path.insert(0, os.path.dirname(os.path.abspath(__file__)))
sys.setrecursionlimit(20000)
from exprlib import parse, s2t, to_obj, obj2s, from_obj, t2s
from miasmx.expression import expression_helper as H
def line(x):
    k = x[0]
    if k == 'simp':
        e = to_obj(s2t(x[1])); before = obj2s(e)
        r = obj2s(H.expr_simp(e))
        if obj2s(e) != before: return 'X input-mutated'
        return r
    if k == 'simp1': return obj2s(H._expr_simp(to_obj(s2t(x[1]))))
    if k == 'simp2':
        r = H.expr_simp(to_obj(s2t(x[1])))
        r2 = H.expr_simp(to_obj(from_obj(r)))      # a fresh structural copy: no memo flags
        r3 = H.expr_simp(r)                         # the flagged object itself
        if obj2s(r3) != obj2s(r): return 'X memo-changes-result'
        return obj2s(r2)
    raise SystemExit('bad line')
out = []
for l in sys.stdin:
    l = l.strip()
    if not l: continue
    try: out.append(line(parse(l)))
    except SystemExit: raise
    except ValueError: out.append('E V')
    except KeyError: out.append('E K')
    except TypeError: out.append('E T')
    except IndexError: out.append('E I')
    except RecursionError: out.append('X RecursionError')
    except Exception as e: out.append('X ' + type(e).__name__)
sys.stdout.write('\n'.join(out) + '\n')
