"""att_tie.py — correspondence Att.v (extracted) vs ia32_arch.mnemo_to_att / mnemo_from_att over the whole dumped vocabulary."""
from common import *
import dump_att
SIZES = ['u08', 'u16', 'u32', 'f32', 'f64', 'f80', 'xmm', 'other']
def lines(d):
    voc = list(dict.fromkeys(d['none'] + d['ptr']['names'] + d['iflt']['names'] + d['flt']['names'] + [b for a, b in d['corr']] +
                             ['call', 'jmp', 'je', 'jne', 'jecxz', 'seta', 'setb', 'setnb', 'setbe', 'cmova', 'cmovl', 'cmovle', 'fcmovb', 'fcmovnu', 'movsx', 'movzx', 'push', 'movsd', 'cmpsd', 'notamnemonic', 'pushfd', 'cdq']))
    to = []
    for n in voc:
        for s0 in SIZES:
            for s1 in (['u08', 'u16', 'xmm'] if n in ('movsx', 'movzx', 'movsd') else ['u32']):
                for ad0 in '01':
                    for two in '01':
                        to.append('to %s %s %s %s %s' % (n, s0, s1, ad0, two))
    return voc, to
def run_tie(chk):
    d = dump_att.generate()
    build_model()
    voc, to = lines(d)
    impl = run_impl('impl_att.py', to, shards=8); model = run_model('att', to)
    norm = lambda i: 'E' if i.startswith('E ') else i
    bad = [(l, m, norm(i)) for l, m, i in zip(to, model, impl) if m != norm(i)]
    outs = sorted(set(i for i in impl if not i.startswith('E ')))
    extra = ['calll', 'jmpl', 'retl', 'bswapl', 'fucompi', 'fwait', 'setab', 'setbb', 'setnbb', 'cmovaw', 'cmoval', 'cmovll', 'cmovlw', 'cmovl', 'movsbl', 'movzwl', 'movsbw', 'movzbl', 'movsxl',
             'pushl', 'pushw', 'push', 'fisttpll', 'fildll', 'fistpll', 'fisttpw', 'fisttps', 'pushfl', 'popfl', 'cltd', 'cwtl', 'ljmp', 'unknownl']
    for n in voc:
        for c in 'bwlsqt': extra.append(n + c)
    fr = []
    for n in list(dict.fromkeys(outs + extra)):
        for two in '01': fr.append('from %s %s' % (n, two))
    impl2 = run_impl('impl_att.py', fr, shards=8); model2 = run_model('att', fr)
    bad += [(l, m, norm(i)) for l, m, i in zip(fr, model2, impl2) if m != norm(i)]
    return len(to) + len(fr), bad
def roundtrip_witness():
    """search the implementation for a (mnemonic, operand class) whose AT&T spelling does not convert back (outside the known exception)"""
    d = dump_att.load()
    voc, to = lines(d)
    impl = run_impl('impl_att.py', to, shards=8)
    fr = []; meta = []
    for l, o in zip(to, impl):
        if o.startswith('E '): continue
        t = l.split()
        fr.append('from %s %s' % (o, t[5])); meta.append((t, o))
    back = run_impl('impl_att.py', fr, shards=8)
    suffix_sizes = {'ptr': [b for a, b in d['ptr']['map']], 'iflt': [b for a, b in d['iflt']['map']], 'flt': [b for a, b in d['flt']['map']]}
    for (t, o), b in zip(meta, back):
        name, s0, ad0 = t[1], t[2], t[4] == '1'
        if name == 'fisttp' and s0 in ('u16', 'u08'): continue
        tabs = [k for k in ('ptr', 'iflt', 'flt') if name in d[k]['names']]
        if tabs and ad0 and not any(s0 in suffix_sizes[k] for k in tabs): continue      # operand lists that do not exist
        if name == 'notamnemonic': continue
        if b.startswith('E ') or b.split()[0] != name:
            return dict(why='mnemo_to_att(%r, first operand %s%s) = %r but mnemo_from_att(%r) gives %r' % (name, s0, ' memory' if ad0 else '', o, o, b), case=' '.join(t))
    return None

if __name__ == '__main__':
    class C: pass
    n, bad = run_tie(None)
    print(n, len(bad))
    for b in bad[:30]: print(b)
