"""impl runner for C12: one JSON history per line; all operations of a history run in THIS process on shared objects.
ops:  ["mk", name, sexp]                         build an expression object once (later ops may share it)
      ["machine", mname, [[key, val], ...]]      key/val: object names or sexps
      ["simp", ref] ["eval", mname, ref] ["instr", mname, [ref...]] ["reads", mname, [ref...]]
      ["dis", hex] ["render", hex] ["lift", hex] ["asm", text] ["asm_att", text] ["raise", kind]
ref = name of a made object, or a sexp (fresh object).
Output per history: JSON list, one record per op: {"out": canonical result, "inputs_changed": [...], "state": dump for machine ops}"""
import os, sys, json, binascii, logging
REAL = os.fdopen(os.dup(1), 'w'); sys.stdout = open(os.devnull, 'w')
sys.path.insert(0, os.path.dirname(os.path.abspath(__file__)))
sys.setrecursionlimit(20000)
logging.disable(logging.CRITICAL)
from exprlib import s2t, to_obj, obj2s
from miasmx.expression import expression as E
from miasmx.expression.expression_helper import expr_simp
from miasmx.expression.expression_eval_abstract import eval_abs
from miasmx.arch import ia32_arch as A
from miasmx.arch.ia32_arch import x86mnemo
from miasmx.tools import emul_helper
LOG = logging.getLogger('verif-quiet'); LOG.addHandler(logging.NullHandler()); LOG.propagate = False

def digest_tables():
    db = A.x86mndb
    def d(x):
        if isinstance(x, dict): return tuple(sorted((str(k), d(v)) for k, v in x.items()))
        if isinstance(x, (list, tuple)): return tuple(d(i) for i in x)
        if isinstance(x, A.mnemonic): return ('mn', x.name, tuple(x.opc), str(x.afs), d(x.rm), d(x.modifs))
        return str(x)
    import hashlib
    parts = [d(db.db_afs), d(db.db_afs_16), d(db.db_afs_mm), d(db.db_afs_xmm), d(db.sib_rez_u32), d(db.sib_rez_u08_ebp), d(db.sib_rez_u32_ebp),
             d(A.r_cl), d(A.r_dx), d(A.r_eax), d(A.r_ax), d([(k, [m.name for m in v]) for k, v in sorted(db.mnemo_lookup.items())])]
    return hashlib.sha1(repr(parts).encode()).hexdigest()

def dump(m):
    items = ['(%s %s)' % (obj2s(k), obj2s(v)) for k, v in m.pool.pool_id.items()]
    items += ['(%s %s)' % (obj2s(c), obj2s(v)) for c, v in m.pool.pool_mem.values()]
    return '(' + ' '.join(sorted(items)) + ')'
def exc(e): return 'E ' + type(e).__name__

def run(hist):
    objs = {}; machines = {}
    def ref(r):
        return objs[r] if r in objs else to_obj(s2t(r))
    out = []
    t0 = digest_tables()
    for op in hist:
        k = op[0]; rec = {}
        snap = {n: obj2s(o) for n, o in objs.items()}
        try:
            if k == 'mk': objs[op[1]] = to_obj(s2t(op[2])); rec['out'] = 'ok'
            elif k == 'machine':
                m = eval_abs({}, log=LOG)
                for kk, vv in op[2]: m.pool[ref(kk)] = ref(vv)
                machines[op[1]] = m; rec['out'] = 'ok'
            elif k == 'simp':
                e = ref(op[1]); rec['input'] = obj2s(e); rec['out'] = obj2s(expr_simp(e))
            elif k == 'eval':
                m = machines[op[1]]; e = ref(op[2]); rec['state'] = dump(m); rec['input'] = obj2s(e)
                rec['out'] = obj2s(m.eval_expr(e, {}))
                if dump(m) != rec['state']: rec['state_changed'] = dump(m)
            elif k == 'instr':
                m = machines[op[1]]; affs = [ref(a) for a in op[2]]; rec['state'] = dump(m); rec['input'] = '(' + ' '.join(obj2s(a) for a in affs) + ')'
                m.eval_instr(affs)
                for kk in m.pool: m.pool[kk] = expr_simp(m.pool[kk])
                rec['out'] = dump(m)
            elif k == 'dis':
                i = x86mnemo.dis(binascii.unhexlify(op[1]))
                rec['out'] = 'None' if i is None else '%d|%s|%s|%s' % (i.l, i.m.name, str(i), sorted((str(kk), str(vv)) for a in i.arg for kk, vv in a.items()))
            elif k == 'lift':
                i = x86mnemo.dis(binascii.unhexlify(op[1]))
                ex = emul_helper.get_instr_expr(i, E.ExprInt32(0x1000 + i.l), [])
                rec['out'] = '(' + ' '.join(obj2s(a) for a in ex) + ')'
            elif k == 'asm': rec['out'] = ','.join(binascii.hexlify(c).decode() for c in x86mnemo.asm(op[1]))
            elif k == 'asm_att': rec['out'] = ','.join(binascii.hexlify(c).decode() for c in x86mnemo.asm_att(op[1]))
            elif k == 'raise':
                try:
                    if op[1] == 'asm': x86mnemo.asm('mov eax,')
                    elif op[1] == 'simp': expr_simp(to_obj(s2t('(O >> (I 0 32 5) (I 0 8 1))')))
                    elif op[1] == 'dis': x86mnemo.dis(b'\x0f')
                    elif op[1] == 'lift': emul_helper.get_instr_expr(x86mnemo.dis(b'\x60'), E.ExprInt32(0), [])
                    rec['out'] = 'noraise'
                except Exception as e: rec['out'] = exc(e)
            else: rec['out'] = 'X badop'
        except Exception as e:
            rec['out'] = exc(e)
        ch = [n for n, s0 in snap.items() if obj2s(objs[n]) != s0]
        if ch: rec['inputs_changed'] = ch
        out.append(rec)
    out.append({'tables_changed': digest_tables() != t0})
    return out

res = []
for l in sys.stdin:
    l = l.strip()
    if not l: continue
    try: res.append(json.dumps(run(json.loads(l))))
    except Exception as e: res.append(json.dumps([{'out': 'X runner %s' % type(e).__name__}]))
REAL.write('\n'.join(res) + '\n'); REAL.flush()
