#!/usr/bin/env python3
"""mk_known.py <PID> — developer tool (never run by a check): turn the VIOLATION replays of the last run of <PID> that carry a
'key' into known_findings.json entries (class key + witness).  Used once per finding class after triage."""
import sys, json, glob, os
ROOT = os.path.dirname(os.path.dirname(os.path.abspath(__file__)))
pid = sys.argv[1]
kf = json.load(open(os.path.join(ROOT, 'known_findings.json')))
have = set(k['key'] for k in kf['findings'] if k['property'] == pid)
n = 0
for p in sorted(glob.glob(os.path.join(ROOT, 'evidence', 'replays', pid + '-*.json'))):
    r = json.load(open(p))
    if 'key' not in r or r['key'] in have: continue
    kf['findings'].append(dict(property=pid, key=r['key'], what=r['what'].split(';')[0], witness={k: r[k] for k in r if k in ('case', 'rendering', 'exception', 'mnemonic', 'impl', 'expected', 'detail')}))
    have.add(r['key']); n += 1
json.dump(kf, open(os.path.join(ROOT, 'known_findings.json'), 'w'), indent=1)
print('added', n)
