"""C14 — fixed-width integers implement arithmetic modulo 2^n (tie H: ModInt.v vs modint.py)."""
import os, sys, json, itertools
from common import *

WIDTHS = [1, 8, 16, 32, 64, 128]
CLASSES = [('u', w) for w in WIDTHS] + [('s', w) for w in WIDTHS if w != 1]
DIRECT = ['add', 'sub', 'mul', 'and', 'or', 'xor', 'shl', 'shr', 'mod']
REFL = ['radd', 'rsub', 'rmul', 'rand', 'ror', 'rxor', 'rshl', 'rshr', 'rmod']
CMPS = ['eq', 'ne', 'lt', 'le', 'gt', 'ge']
UN = ['inv', 'neg', 'abs', 'int']

def rng_of(c):
    sg, w = c
    return (-(1 << (w - 1)), (1 << (w - 1)) - 1) if sg == 's' else (0, (1 << w) - 1)
def boundary(c):
    sg, w = c
    lo, hi = rng_of(c)
    vals = {0, 1, (1 << (w - 1)) - 1, 1 << (w - 1), (1 << w) - 1, lo, hi, -1, 2, hi - 1, lo + 1}
    if sg == 's':
        vals = {v - (1 << w) if v > hi else v for v in vals}
    return sorted(v for v in vals if lo <= v <= hi)
def count_ok(op, a, b):
    """keep shift counts / exponents where Python (and Z.shiftl) can compute the exact result"""
    if op in ('shl', 'shr'): return b <= 300
    if op in ('rshl', 'rshr'): return a <= 300
    if op == 'pow': return 0 <= b <= 40
    if op == 'rpow': return 0 <= a <= 40
    return True
def mi(c, v): return 'M %s %d %d' % (c[0], c[1], v)

def gen(chk):
    tier, rng = chk.tier, chk.rng
    lines = []
    hist = {}
    def add(tag, l):
        lines.append(l); hist[tag] = hist.get(tag, 0) + 1
    # (1) exhaustive 8-bit pairs
    combos8 = [(('u', 8), ('u', 8)), (('s', 8), ('s', 8))]
    if tier == 'thorough': combos8 += [(('u', 8), ('s', 8)), (('s', 8), ('u', 8))]
    for c1, c2 in combos8:
        r1 = range(rng_of(c1)[0], rng_of(c1)[1] + 1); r2 = range(rng_of(c2)[0], rng_of(c2)[1] + 1)
        for a in r1:
            for b in r2:
                for op in DIRECT:
                    add('exh8', 'b %s %s %d %d %s' % (op, c1[0], c1[1], a, mi(c2, b)))
                for op in CMPS:
                    add('exh8cmp', 'c %s %s %d %d %s' % (op, c1[0], c1[1], a, mi(c2, b)))
    # (1b) exhaustive 8-bit value x plain ints in [-300, 300] for direct and reflected forms (quick: sampled ints)
    ints = range(-300, 301) if tier == 'thorough' else sorted(set(list(range(-20, 21)) + [rng.randrange(-300, 301) for _ in range(24)] + [-300, -257, -256, -255, -129, -128, -127, 127, 128, 129, 255, 256, 257, 300]))
    for c1 in (('u', 8), ('s', 8)):
        for a in range(rng_of(c1)[0], rng_of(c1)[1] + 1):
            for z in ints:
                for op in DIRECT + REFL:
                    if count_ok(op, a, z): add('exh8int', 'b %s %s %d %d P %d' % (op, c1[0], c1[1], a, z))
    # (2) boundary set at every class pair, all operators, direct/reflected, MI and PY operands
    for c1 in CLASSES:
        B1 = boundary(c1)
        for a in B1:
            for op in UN: add('un', 'u %s %s %d %d' % (op, c1[0], c1[1], a))
            add('norm', 'n %s %d %d' % (c1[0], c1[1], a * 3 + 1))
        for c2 in CLASSES:
            for a in B1:
                for b in boundary(c2):
                    for op in DIRECT + REFL + ['pow']:
                        if count_ok(op, a, b): add('bnd', 'b %s %s %d %d %s' % (op, c1[0], c1[1], a, mi(c2, b)))
                    for op in CMPS: add('bndcmp', 'c %s %s %d %d %s' % (op, c1[0], c1[1], a, mi(c2, b)))
                    add('hash', 'h %s %d %d %s' % (c1[0], c1[1], a, mi(c2, b)))
        # plain ints incl. values outside the class range and negative
        w = c1[1]
        Z = sorted(set([0, 1, -1, 2, -2, 7, (1 << w) - 1, 1 << w, (1 << w) + 1, -(1 << w), (1 << (w - 1)), -(1 << (w - 1)), (1 << (w - 1)) - 1,
                        -(1 << (w - 1)) - 1, 3 << w, 255, 256, -129, 127, 128, 32767, 32768, 65535, (1 << 31) - 1, 1 << 31, (1 << 32) - 1]))
        for a in B1:
            for z in Z:
                for op in DIRECT + REFL + ['pow', 'rpow']:
                    if count_ok(op, a, z): add('bndint', 'b %s %s %d %d P %d' % (op, c1[0], c1[1], a, z))
                for op in CMPS: add('bndintcmp', 'c %s %s %d %d P %d' % (op, c1[0], c1[1], a, z))
                add('hash', 'h %s %d %d P %d' % (c1[0], c1[1], a, z))
                add('norm', 'n %s %d %d' % (c1[0], c1[1], z * 5 - a))
    # (3) random
    nrand = 100000 if tier == 'quick' else 3000000
    for _ in range(nrand):
        c1 = rng.choice(CLASSES); lo, hi = rng_of(c1); a = rng.randint(lo, hi)
        if rng.random() < 0.3: a = rng.choice(boundary(c1))
        kind = rng.random()
        if kind < 0.6:
            c2 = rng.choice(CLASSES); lo2, hi2 = rng_of(c2); b = rng.randint(lo2, hi2)
            if rng.random() < 0.3: b = rng.choice(boundary(c2))
            if rng.random() < 0.3: b = rng.randint(-4, 140) if c2[0] == 's' and c2[1] > 8 else min(hi2, rng.randint(0, 140))
            y = mi(c2, b)
        else:
            b = rng.choice([rng.randint(-300, 300), rng.randint(-(1 << 130), 1 << 130), rng.randint(-(1 << 33), 1 << 33)])
            y = 'P %d' % b
        r = rng.random()
        if r < 0.75:
            op = rng.choice(DIRECT + REFL + ['pow'])
            if not count_ok(op, a, b): continue
            add('rand', 'b %s %s %d %d %s' % (op, c1[0], c1[1], a, y))
        elif r < 0.9:
            add('randcmp', 'c %s %s %d %d %s' % (rng.choice(CMPS), c1[0], c1[1], a, y))
        else:
            add('randun', 'u %s %s %d %d' % (rng.choice(UN), c1[0], c1[1], a))
    return lines, hist

# ---- independent statement of the property on the implementation's answer (search oracle) ----
def meets(line, got):
    """does the implementation's canonical answer `got` satisfy what C14 states for this case?
    Written from the property text with Python's unbounded integers; returns (ok, expectation)."""
    t = line.split()
    def rng(c):
        sg, w = c
        return (-(1 << (w - 1)), (1 << (w - 1)) - 1) if sg == 's' else (0, (1 << w) - 1)
    def operand(tt):
        if tt[0] == 'M': return (tt[1], int(tt[2])), int(tt[3])
        return None, int(tt[1])
    def fixed(classes, exact):
        """got must be a fixed-width value of one of `classes`, in range, congruent to exact mod 2^w"""
        exp = 'a value of class %s congruent to %d mod 2^w, in range' % (' or '.join('%s%d' % c for c in classes), exact)
        g = got.split()
        if g[0] != 'M': return False, exp
        c = (g[1], int(g[2])); v = int(g[3])
        lo, hi = rng(c)
        return (c in classes and lo <= v <= hi and (v - exact) % (1 << c[1]) == 0), exp
    if t[0] == 'n':
        return fixed([(t[1], int(t[2]))], int(t[3]))
    if t[0] == 'h': return got == 'B 1', 'B 1 (equal values hash equally)'
    if t[0] == 'u':
        c = (t[2], int(t[3])); v = int(t[4])
        if t[1] == 'int': return got == 'I %d' % v, 'I %d' % v
        return fixed([c], {'inv': ~v, 'neg': -v, 'abs': abs(v)}[t[1]])
    c = (t[2], int(t[3])); v = int(t[4]); c2, b = operand(t[5:])
    if t[0] == 'c':
        e = 'B %d' % {'eq': v == b, 'ne': v != b, 'lt': v < b, 'le': v <= b, 'gt': v > b, 'ge': v >= b}[t[1]]
        return got == e, e
    op = t[1]
    # "mixing two widths yields the wider type, mixing with a plain integer keeps the fixed-width type";
    # for two classes of EQUAL width the statement does not choose: either operand's class is accepted
    if c2 is None: classes = [c]
    elif c[1] > c2[1]: classes = [c]
    elif c2[1] > c[1]: classes = [c2]
    else: classes = [c, c2]
    x, y = (v, b) if not op.startswith('r') else (b, v)
    o = op[1:] if op.startswith('r') else op
    if o in ('shl', 'shr') and y < 0: return got == 'E V', 'E V (negative shift count is rejected)'
    if o == 'mod' and y == 0: return got == 'E Z', 'E Z (zero modulus is rejected)'
    r = {'add': lambda: x + y, 'sub': lambda: x - y, 'mul': lambda: x * y, 'and': lambda: x & y, 'or': lambda: x | y,
         'xor': lambda: x ^ y, 'shl': lambda: x << y, 'shr': lambda: x >> y, 'mod': lambda: x % y, 'pow': lambda: x ** y}[o]()
    return fixed(classes, r)

def kf_match(kf, items):
    """cases covered by a listed finding (class: plain-int ** fixed-width returns a plain int)"""
    if 'rpow-plain-int' not in kf: return None
    return [x for x in items if x[0].split()[0] == 'b' and x[0].split()[1] == 'rpow' and x[0].split()[5] == 'P' and x[2].startswith('I ')]

def run(tier):
    chk = Check('C14', tier)
    proved = chk.prove()
    if not proved:
        chk.violation('proof obligations of props/C14.v no longer check', chk.broken_summary(), found_input=False)
    try:
        build_model()
    except BuildBroken as e:
        chk.violation('extracted model does not build: ' + e.what, dict(log_tail=e.log[-3000:]), found_input=False)
        return chk.finish()
    lines, hist = gen(chk)
    # corpus first
    corpus = []
    for p in sorted(glob.glob(os.path.join(ROOT, 'corpus', 'C14', '*.txt'))):
        corpus += [l.strip() for l in open(p) if l.strip() and not l.startswith('#')]
    lines = corpus + lines
    chk.log('cases: %d (%s)' % (len(lines), hist))
    model = run_model('modint', lines)
    impl = run_impl('impl_modint.py', lines)
    chk.cov['evaluations'] = len(lines)
    chk.cov['traces_validated_against_impl'] = len(lines)
    chk.cov['generator_histogram'] = hist
    nontriv = set(); reskind = {}
    mism = []
    for l, m, i in zip(lines, model, impl):
        reskind[m[:1]] = reskind.get(m[:1], 0) + 1
        if m != i: mism.append((l, m, i))
        t = l.split()
        if t[0] in 'bu' and m.startswith('M'):
            # non-trivial: the exact result needed a reduction or a class change
            nontriv.add(l)
    # known findings
    kf = {k['key']: k for k in chk.known_findings()}
    new = mism
    chk.cov['distinct_nontrivial'] = len(nontriv)
    chk.cov['result_kinds'] = reskind
    chk.cov['rule'] = ('case lines "<kind> <op> <class> <value> <operand>" over all 11 classes; exhaustive 8-bit pairs for 9 binary + 6 '
                       'comparison operators; boundary sets at all 121 class pairs incl. reflected forms and plain ints outside the range; '
                       'seeded random. Non-trivial = binary/unary case whose result is a fixed-width value (a reduction was applied); distinct lines counted')
    chk.cov['samples'] = [dict(case=l, model=m, impl=i) for l, m, i in list(zip(lines, model, impl))[::max(1, len(lines) // 8)][:8]]
    # rpow known finding: confirm witness on the implementation
    for k in kf.values():
        w = k['witness']
        r = run_impl('impl_modint.py', [w['case']], shards=1)[0]
        if r == w['impl_result'] and 'C14_rpow_plain_int_refuted' in chk.cov.get('theorems', []):
            chk.report_known(k['key'], k['what'])
        # a finding that no longer reproduces is simply not reported (fixed upstream)
    # search: for each disagreement, evaluate the property's own statement on the implementation
    shown = 0
    classes = {}
    for l, m, i in new:
        t = l.split()
        cl = (t[0], t[1] if t[0] != 'n' and t[0] != 'h' else '')
        classes.setdefault(cl, []).append((l, m, i))
    for cl, items in sorted(classes.items()):
        # smallest witness of the class
        items.sort(key=lambda x: (len(x[0]), x[0]))
        l, m, i = items[0]
        known_ids = set(id(x) for x in (kf_match(kf, items) or []))
        bad = []
        for x in items[:5000]:
            if id(x) in known_ids: continue
            if not meets(x[0], x[2])[0]:
                bad.append(x)
                if len(bad) >= 6: break
        if not bad and len(known_ids) == len(items):
            continue      # every differing case of this class is a listed known finding (reported above)
        if len(chk.violations) >= 8: break
        if bad:
            l, m, i = bad[0]; s = meets(l, i)[1]
            chk.violation('modint %s: case %r gives %r, C14 requires %s (%d cases of this operator differ from the model)' % (cl, l, i, s, len(items)),
                          dict(case=l, impl=i, model=m, spec=s, count=len(items), more=[x[0] for x in bad[1:6]]))
        else:
            s = meets(l, i)[1]
            chk.violation('correspondence ModInt.v vs modint.py broken on %r (model %r, impl %r) but the implementation meets the property there' % (l, m, i),
                          dict(correspondence='ModInt.v/binop_apply vs miasmx.tools.modint', case=l, impl=i, model=m, spec=s), found_input=False)
    return chk.finish(assumptions=[
        'ModInt.v is a hand transcription of modint.py, tied by exact-output correspondence on the cases counted here',
        'shift counts and exponents are limited to <=300 / <=40 in the correspondence (Python cannot compute larger ones); the theorems have no such bound',
        'OCaml extraction (ExtrOcamlBasic) and the line driver are trusted for the correspondence only'])

def replay(path):
    r = json.load(open(path))
    if 'case' not in r:
        print('replay names a broken obligation, not an input:', r.get('what')); return 1
    out = run_impl('impl_modint.py', [r['case']], shards=1)[0]
    ok, exp = meets(r['case'], out)
    print('case', r['case'], 'impl', out, 'required:', exp, 'OK' if ok else 'FAILS')
    return 0 if ok else 1
