"""impl runner for C06/C07: (evalexpr state e)  and  (run state (instr...) (read...)) on fresh objects."""
import sys, os
sys.path.insert(0, os.path.dirname(os.path.abspath(__file__)))
sys.setrecursionlimit(20000)
import logging
from exprlib import parse, s2t, to_obj, obj2s, show
from miasmx.expression import expression as E
from miasmx.expression.expression_helper import expr_simp
from miasmx.expression.expression_eval_abstract import eval_abs
LOG = logging.getLogger('verif-quiet'); LOG.addHandler(logging.NullHandler()); LOG.propagate = False
def machine(st):
    m = eval_abs({}, log=LOG)
    for k, v in st:
        m.pool[to_obj(s2t(k))] = to_obj(s2t(v))
    return m
def dump(m):
    items = ['(%s %s)' % (obj2s(k), obj2s(v)) for k, v in m.pool.pool_id.items()]
    items += ['(%s %s)' % (obj2s(c), obj2s(v)) for c, v in m.pool.pool_mem.values()]
    return '(' + ' '.join(sorted(items)) + ')'
def line(x):
    k = x[0]
    if k == 'evalexpr':
        m = machine(x[1]); before = dump(m)
        e = to_obj(s2t(x[2])); eb = obj2s(e)
        r = obj2s(m.eval_expr(e, {}))
        if dump(m) != before: return 'X state-mutated'
        if obj2s(e) != eb: return 'X input-mutated'
        return r
    if k == 'run':
        m = machine(x[1])
        for ins in x[2]:
            m.eval_instr([to_obj(s2t(a)) for a in ins])
            for kk in m.pool:
                m.pool[kk] = expr_simp(m.pool[kk])
        out = [dump(m)]
        for r in x[3]:
            try: out.append(obj2s(expr_simp(m.eval_expr(to_obj(s2t(r)), {}))))
            except ValueError: out.append('E V')
            except KeyError: out.append('E K')
            except TypeError: out.append('E T')
            except IndexError: out.append('E I')
        return ' ## '.join(out)
    raise SystemExit('bad line')
out = []
for l in sys.stdin:
    l = l.strip()
    if not l: continue
    try: out.append(line(parse(l)))
    except SystemExit: raise
    except ValueError: out.append('E V')
    except KeyError: out.append('E K')
    except TypeError: out.append('E T')
    except IndexError: out.append('E I')
    except RecursionError: out.append('X RecursionError')
    except Exception as e: out.append('X ' + type(e).__name__)
sys.stdout.write('\n'.join(out) + '\n')
