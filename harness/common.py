"""common.py — shared machinery of bin/check: Coq build under a lock, Print Assumptions capture,
hygiene scan, extracted-model runner, evidence and violation reporting."""
import os, sys, json, time, subprocess, fcntl, re, glob, hashlib, shutil, random

ROOT = os.path.dirname(os.path.dirname(os.path.abspath(__file__)))
REPO = os.environ.get('MIASMX_REPO', '/repo')
COQ = os.path.join(ROOT, 'coq')
PY = '/venv/bin/python'
NPROC = min(16, os.cpu_count() or 4)

ALLOWED_AXIOMS = set()   # none needed so far; stdlib axioms would be named here and in DESIGN.md §5

KERNEL_TB = [
    "Coq 8.16.1 kernel + vm_compute (no native_compute)",
    "no axioms declared; Print Assumptions output recorded per theorem in this file",
    "thorough tier: coqchk -o re-checks props/<id>.vo and every file it depends on with the independent checker and reports the axioms (coverage.coqchk)",
]

def impl_env(hashseed='0'):
    env = dict(os.environ)
    env['PYTHONPATH'] = REPO
    env['PYTHONHASHSEED'] = str(hashseed)
    env['MIASMX_VERIF'] = '1'
    env['PYTHONDONTWRITEBYTECODE'] = '1'
    # the library caches its PLY parser tables in tempfile.gettempdir(): keep them in this run's private directory
    td = os.environ.get('VERIF_TMPDIR') or os.path.join(ROOT, 'work', 'tmp')
    os.makedirs(td, exist_ok=True)
    env['TMPDIR'] = td
    return env

class BuildBroken(Exception):
    def __init__(self, what, log):
        Exception.__init__(self, what); self.what = what; self.log = log

def sh(cmd, timeout=1800, cwd=None, env=None, input=None):
    p = subprocess.run(cmd, shell=isinstance(cmd, str), cwd=cwd, env=env, input=input,
                       stdout=subprocess.PIPE, stderr=subprocess.STDOUT, timeout=timeout, text=True)
    return p.returncode, p.stdout

class Lock:
    def __enter__(self):
        self.f = open(os.path.join(COQ, '.lock'), 'w')
        fcntl.flock(self.f, fcntl.LOCK_EX)
        return self
    def __exit__(self, *a):
        fcntl.flock(self.f, fcntl.LOCK_UN); self.f.close()

def write_if_changed(path, text):
    try:
        if open(path).read() == text:
            return False
    except OSError:
        pass
    os.makedirs(os.path.dirname(path), exist_ok=True)
    tmp = path + '.tmp%d' % os.getpid()
    open(tmp, 'w').write(text)
    os.replace(tmp, path)
    return True

def refresh_coqproject():
    files = []
    for d in ('theories', 'gen', 'props'):
        files += sorted(os.path.relpath(p, COQ) for p in glob.glob(os.path.join(COQ, d, '*.v')))
    text = "-Q theories Mx\n-Q gen MxGen\n-Q props MxProps\n-arg -w -arg -notation-overridden,-deprecated\n" + "\n".join(files) + "\n"
    changed = write_if_changed(os.path.join(COQ, '_CoqProject'), text)
    if changed or not os.path.exists(os.path.join(COQ, 'Makefile')):
        rc, out = sh('coq_makefile -f _CoqProject -o Makefile', cwd=COQ)
        if rc != 0:
            raise BuildBroken('coq_makefile', out)

def coq_make(targets, timeout=3000):
    """make the given .vo targets (relative to coq/).  Caller holds the lock."""
    refresh_coqproject()
    rc, out = sh(['timeout', str(timeout), 'make', '-j%d' % NPROC] + targets, cwd=COQ, timeout=timeout + 60)
    return rc, out

def parse_assumptions(out):
    """returns list of (theorem, 'closed' | [axioms])"""
    res = []
    # coqc prints results in order; we pair them with the Print Assumptions commands of the file
    blocks = re.split(r'\n(?=Closed under the global context|Axioms:)', '\n' + out)
    for b in blocks:
        b = b.strip('\n')
        if b.startswith('Closed under the global context'):
            res.append('closed')
        elif b.startswith('Axioms:'):
            ax = []
            for line in b.split('\n')[1:]:
                m = re.match(r'^([A-Za-z_][\w.\']*)\s*:', line)
                if m: ax.append(m.group(1))
                elif line and not line.startswith(' ') and not line.startswith('\t'):
                    break
            res.append(ax)
    return res

def build_props(pid, extra_targets=(), timeout=3000):
    """Rebuild props/<pid>.vo (always recompiled so that Print Assumptions output is captured).
    Returns dict(theorems=[...], assumptions=[...], log=...) or raises BuildBroken."""
    with Lock():
        pv = os.path.join(COQ, 'props', pid + '.v')
        vo = pv + 'o'
        if os.path.exists(vo): os.remove(vo)
        t0 = time.time()
        rc, out = coq_make(list(extra_targets) + ['props/%s.vo' % pid], timeout)
        if rc != 0:
            raise BuildBroken('coq build of props/%s.v' % pid, out)
    src = open(pv).read()
    thms = re.findall(r'^\s*(?:Theorem|Lemma|Corollary)\s+([\w\']+)', src, re.M)
    printed = re.findall(r'^\s*Print Assumptions\s+([\w\']+)\s*\.', src, re.M)
    ass = parse_assumptions(out)
    if len(ass) != len(printed):
        # make may interleave; recompile the single file to get a clean transcript
        rc2, out2 = sh(['coqc', '-Q', 'theories', 'Mx', '-Q', 'gen', 'MxGen', '-Q', 'props', 'MxProps',
                        '-w', '-notation-overridden,-deprecated', 'props/%s.v' % pid], cwd=COQ, timeout=timeout)
        if rc2 != 0:
            raise BuildBroken('coqc props/%s.v' % pid, out2)
        ass = parse_assumptions(out2)
    if set(thms) - set(printed):
        raise BuildBroken('props/%s.v: theorem without Print Assumptions: %s' % (pid, sorted(set(thms) - set(printed))), '')
    axioms = {}
    for name, a in zip(printed, ass):
        axioms[name] = a
    bad = {n: a for n, a in axioms.items() if a != 'closed' and set(a) - ALLOWED_AXIOMS}
    if len(ass) != len(printed):
        raise BuildBroken('could not pair Print Assumptions output for props/%s.v' % pid, out)
    if bad:
        raise BuildBroken('axioms outside the allow-list: %r' % bad, out)
    return dict(theorems=thms, assumptions=axioms, build_s=round(time.time() - t0, 1))

HYGIENE_RE = re.compile(r'\b(Admitted|admit|Axiom|Axioms|Parameter|Parameters|Conjecture|Hypothesis|Variable|Variables|Hypotheses)\b|Unset\s+Guard|bypass_check|type-in-type|impredicative-set|Admit Obligations')
def hygiene():
    """no Admitted/admit/Axiom/Parameter/Conjecture; Variable/Hypothesis only inside a Section."""
    bad = []
    for d in ('theories', 'props', 'gen', 'extract'):
        for p in sorted(glob.glob(os.path.join(COQ, d, '*.v'))):
            depth = 0
            incomment = 0
            for i, line in enumerate(open(p), 1):
                # strip comments (nesting-aware, line granularity is enough for our style)
                s = ''
                j = 0
                while j < len(line):
                    if line.startswith('(*', j): incomment += 1; j += 2; continue
                    if line.startswith('*)', j) and incomment: incomment -= 1; j += 2; continue
                    if not incomment: s += line[j]
                    j += 1
                if re.match(r'\s*Section\b', s): depth += 1
                if re.match(r'\s*End\b', s) and depth: depth -= 1
                for m in HYGIENE_RE.finditer(s):
                    w = m.group(0)
                    if w in ('Variable', 'Variables', 'Hypothesis', 'Hypotheses') and depth > 0:
                        continue
                    bad.append('%s:%d: %s' % (os.path.relpath(p, ROOT), i, s.strip()))
    return bad

def build_model():
    """(re)build the extracted OCaml model runner coq/extract/mxmodel.  Returns its path."""
    ex = os.path.join(COQ, 'extract')
    with Lock():
        refresh_coqproject()
        # the theories the extraction needs
        src = open(os.path.join(ex, 'Extract.v')).read()
        mods = re.findall(r'From Mx Require (?:Import )?([\w ]+)\.', src)
        tg = ['theories/%s.vo' % m for ms in mods for m in ms.split()]
        gmods = re.findall(r'From MxGen Require (?:Import )?([\w ]+)\.', src)
        tg += ['gen/%s.vo' % m for ms in gmods for m in ms.split()]
        rc, out = coq_make(tg)
        if rc != 0: raise BuildBroken('coq build of model theories', out)
        deps = [os.path.join(COQ, t) for t in tg] + [os.path.join(ex, f) for f in ('Extract.v', 'driver.ml', 'zio.ml', 'sexp.ml')]
        exe = os.path.join(ex, 'mxmodel')
        if os.path.exists(exe) and all(os.path.getmtime(d) <= os.path.getmtime(exe) for d in deps):
            return exe
        rc, out = sh(['coqc', '-Q', '../theories', 'Mx', '-Q', '../gen', 'MxGen', 'Extract.v'], cwd=ex, timeout=600)
        if rc != 0: raise BuildBroken('extraction', out)
        rc, out = sh('ocamlfind ocamlopt -w -a -package str model.mli model.ml zio.ml sexp.ml driver.ml -o mxmodel', cwd=ex, timeout=600)
        if rc != 0 or not os.path.exists(exe): raise BuildBroken('ocaml build', out)
        return exe

def run_model(suite, lines, shards=NPROC):
    """run the extracted model on a list of case lines; returns list of result lines"""
    exe = os.path.join(COQ, 'extract', 'mxmodel')
    return run_sharded([exe, suite], lines, shards, env=None)

_WARMED = set()
def warm_parser_tables(env):
    """the library writes its PLY parser tables into TMPDIR on first import: let ONE process do that before parallel shards start,
    so that no shard reads a table file another shard is still writing (the outcome of a check must not depend on such a race)"""
    td = env.get('TMPDIR')
    if td in _WARMED: return
    _WARMED.add(td)
    if os.path.exists(os.path.join(td, 'ply_ia32_intel_20150429.py')) and os.path.exists(os.path.join(td, 'ply_ia32_att_20150429.py')): return
    try: subprocess.run([PY, '-c', 'import miasmx.arch.ia32_arch, miasmx.arch.ia32_att'], env=env, stdout=subprocess.DEVNULL, stderr=subprocess.DEVNULL, timeout=120)
    except Exception: pass

def run_impl(script, lines, shards=NPROC, hashseed='0', args=()):
    env = impl_env(hashseed)
    if shards != 1: warm_parser_tables(env)
    return run_sharded([PY, os.path.join(ROOT, 'harness', script)] + list(args), lines, shards, env=env)

def _run_chunk(cmd, chunk, env, timeout):
    """returns (list of results, None), or (None, reason) on timeout / crash of the runner"""
    try:
        p = subprocess.run(cmd, input='\n'.join(chunk) + '\n', stdout=subprocess.PIPE, stderr=subprocess.PIPE, env=env, text=True, timeout=timeout)
    except subprocess.TimeoutExpired:
        return None, 'timeout'
    res = p.stdout.split('\n')
    if res and res[-1] == '': res.pop()
    if p.returncode != 0 or len(res) != len(chunk):
        return None, 'rc=%s got %d/%d lines: %s' % (p.returncode, len(res), len(chunk), p.stderr[-500:])
    return res, None

def _run_careful(cmd, chunk, env, timeout):
    """a chunk whose run timed out or crashed: bisect down to the offending lines, which get 'X Timeout' / 'X RunnerCrash'"""
    if len(chunk) == 1:
        res, err = _run_chunk(cmd, chunk, env, min(timeout, 20))
        if res is not None: return res
        return ['X Timeout' if err == 'timeout' else 'X RunnerCrash']
    res, err = _run_chunk(cmd, chunk, env, max(20, min(timeout, 5 + len(chunk) // 20)))
    if res is not None: return res
    mid = len(chunk) // 2
    return _run_careful(cmd, chunk[:mid], env, timeout) + _run_careful(cmd, chunk[mid:], env, timeout)

def run_sharded(cmd, lines, shards, env, timeout=300):
    n = len(lines)
    if n == 0: return []
    shards = max(1, min(shards, (n + 199) // 200))
    size = (n + shards - 1) // shards
    chunks = [lines[k * size:(k + 1) * size] for k in range(shards)]
    chunks = [c for c in chunks if c]
    import threading
    outs = [None] * len(chunks)
    def work(i):
        res, err = _run_chunk(cmd, chunks[i], env, timeout)
        if res is None:
            res = _run_careful(cmd, chunks[i], env, timeout)
        outs[i] = res
    ths = [threading.Thread(target=work, args=(i,)) for i in range(len(chunks))]
    for t in ths: t.start()
    for t in ths: t.join()
    res = []
    for o in outs: res += o
    return res

class Check:
    def __init__(self, pid, tier):
        self.pid = pid
        self.tier = tier
        self.seed = int(os.environ.get('VERIF_SEED', '0') or 0)
        self.rng = random.Random(self.seed * 1000003 + sum(map(ord, pid)))
        self.t0 = time.time()
        self.violations = []
        self.known = []
        self.cov = dict(evaluations=0, distinct_nontrivial=0, rule='', samples=[], obligations=0, discharged=0,
                        checker_cmd='make -C /verif/coq props/%s.vo (coqc 8.16.1, full .vo build) + Print Assumptions per theorem' % pid,
                        trusted_base=list(KERNEL_TB), traces_validated_against_impl=0)
        self.assumptions = []
        self.work = os.path.join(ROOT, 'work', '%s.%d' % (pid, os.getpid()))
        os.makedirs(self.work, exist_ok=True)
        os.environ['VERIF_TMPDIR'] = os.path.join(self.work, 'tmp')
        os.makedirs(os.path.join(ROOT, 'evidence', 'replays'), exist_ok=True)
        # replays are per-run artefacts: drop those of earlier runs of this property (a clean run leaves none)
        for f in os.listdir(os.path.join(ROOT, 'evidence', 'replays')):
            if f.startswith(pid + '-') and f.endswith('.json'):
                try: os.remove(os.path.join(ROOT, 'evidence', 'replays', f))
                except OSError: pass

    def log(self, *a):
        print('[%s %6.1fs]' % (self.pid, time.time() - self.t0), *a, flush=True)

    def known_findings(self):
        kf = json.load(open(os.path.join(ROOT, 'known_findings.json')))
        return [k for k in kf.get('findings', []) if k['property'] == self.pid]

    def report_known(self, key, what):
        self.known.append(key)
        print('KNOWN-FINDING: property=%s %s' % (self.pid, what), flush=True)

    def violation(self, what, replay, found_input=True):
        k = len(self.violations)
        path = os.path.join(ROOT, 'evidence', 'replays', '%s-%d.json' % (self.pid, k))
        replay = dict(replay); replay['property'] = self.pid; replay['what'] = what
        replay['failing_input_found'] = bool(found_input)
        json.dump(replay, open(path, 'w'), indent=1, default=str)
        self.violations.append(path)
        line = 'VIOLATION property=%s replay=%s' % (self.pid, path)
        if not found_input: line += ' no-failing-input-found'
        print(line, flush=True)
        self.log('  ->', what)

    def prove(self, extra_targets=()):
        """hygiene + build props; returns True when all obligations are discharged.
        A broken build is recorded in self.broken for the property-specific search."""
        self.broken = None
        bad = hygiene()
        if bad:
            self.broken = BuildBroken('hygiene: ' + '; '.join(bad[:5]), '\n'.join(bad))
            return False
        try:
            r = build_props(self.pid, extra_targets)
        except BuildBroken as e:
            self.broken = e
            src = open(os.path.join(COQ, 'props', self.pid + '.v')).read()
            n = len(re.findall(r'^\s*(?:Theorem|Lemma|Corollary)\s+([\w\']+)', src, re.M))
            self.cov['obligations'] = n
            self.cov['discharged'] = 0
            return False
        self.cov['obligations'] = len(r['theorems'])
        self.cov['discharged'] = len(r['theorems'])
        self.cov['theorems'] = r['theorems']
        self.cov['print_assumptions'] = r['assumptions']
        self.cov['coq_build_s'] = r['build_s']
        if self.tier == 'thorough':
            # independent re-check of the compiled property file and everything it depends on (coqchk has its own kernel implementation)
            t0 = time.time()
            try:
                with Lock():
                    rc, out = sh(['timeout', '2400', 'coqchk', '-silent', '-o', '-Q', 'theories', 'Mx', '-Q', 'gen', 'MxGen', '-Q', 'props', 'MxProps', 'MxProps.' + self.pid], cwd=COQ, timeout=2500)
            except Exception as e:
                rc, out = 124, 'coqchk not run: %s' % e
            m = re.search(r'\* Axioms:(.*?)\n\s*\n\* Constants', out, re.S)
            axioms = re.sub(r'\s+', ' ', m.group(1)).strip() if m else None
            self.cov['coqchk'] = dict(exit=rc, seconds=round(time.time() - t0, 1), axioms=axioms if axioms is not None else 'not reported', tail=[l for l in out.split('\n') if l.strip() and 'conda' not in l.lower()][-6:])
            self.log('coqchk MxProps.%s: exit %s, axioms %s (%.0fs)' % (self.pid, rc, axioms, time.time() - t0))
            if rc == 124:
                self.log('coqchk timed out: recorded in the evidence, not counted as a broken obligation')
            elif rc != 0 or axioms != '<none>':
                self.broken = BuildBroken('coqchk rejects props/%s.vo or reports axioms: exit %s, axioms %s' % (self.pid, rc, axioms), out[-4000:])
                self.cov['discharged'] = 0
                return False
        return True

    def broken_summary(self):
        e = self.broken
        tail = '\n'.join([l for l in e.log.split('\n') if l.strip()][-25:])
        m = re.search(r'File "([^"]+)", line (\d+)', e.log)
        return dict(broken=e.what, where=(m.group(0) if m else None), log_tail=tail)

    def finish(self, level=None, assumptions=None, extra=None):
        if level is None:
            level = 'proof'
            try:
                for c in json.load(open(os.path.join(ROOT, 'MANIFEST.json')))['checks']:
                    if c['property_id'] == self.pid: level = c['level_claimed']['category']
            except Exception:
                pass
        if level == 'other' and 'explanation' not in self.cov:
            self.cov['explanation'] = ('model-to-code correspondence + property search; kernel-checked obligations counted in obligations/discharged '
                                       'do not yet include the universal theorem for this property')
        ev = dict(property_id=self.pid, tier=self.tier, seed=self.seed, level=level, coverage=self.cov,
                  assumptions=assumptions or [], wall_s=round(time.time() - self.t0, 2),
                  violations=len(self.violations), known_findings_reported=self.known)
        if extra: ev.update(extra)
        if not self.cov['samples']: self.cov['samples'] = ['(none)']
        json.dump(ev, open(os.path.join(ROOT, 'evidence', self.pid + '.json'), 'w'), indent=1, default=str)
        shutil.rmtree(self.work, ignore_errors=True)
        self.log('done: obligations %d/%d, evaluations %d, violations %d, known %d' % (
            self.cov['discharged'], self.cov['obligations'], self.cov['evaluations'], len(self.violations), len(self.known)))
        return 1 if self.violations else 0
