"""simpgen.py — rule-targeted families for the simplifier (two 8-bit variables al, b8; plus 32-bit x32/eax for slices)."""
import exprlib as X
A = ('D', 'al', 8, 1, 0); B = ('D', 'b8', 8, 0, 0); C = ('D', 'c8', 8, 0, 0)
X32 = ('D', 'x32', 32, 0, 0); Y32 = ('D', 'y32', 32, 0, 0); EAX = ('D', 'eax', 32, 1, 0)
def I(w, v): return ('I', 0, w, v % (1 << w))
def O(op, *a): return ('O', op, list(a))
def S(e, lo, hi): return ('S', e, lo, hi)
def K(*sl): return ('K', list(sl))
def M(w, a, seg=None): return ('M', w, a, seg)
def neg(a): return O('-', a)

def families():
    """yields (rule tag, tree)"""
    consts = [0, 1, 2, 3, 4, 5, 7, 8, 0xf, 0x10, 0x1f, 0x7f, 0x80, 0xff]
    for op in X.ASSOC:
        yield 'flatten', O(op, O(op, A, B), C)
        yield 'flatten', O(op, A, O(op, B, O(op, C, A)))
        yield 'sort', O(op, B, A); yield 'sort', O(op, C, B, A)
        for c1 in (0, 1, 3, 0x80, 0xff):
            for c2 in (0, 1, 5, 0x7f, 0xff):
                yield 'constfold', O(op, I(8, c1), I(8, c2))
                yield 'constfold', O(op, A, I(8, c1), I(8, c2))
                yield 'constfold', O(op, I(8, c1), A, I(8, c2))
        yield 'constfold32', O(op, I(32, 0xfffffff0), I(32, 0x20), X32)
        yield 'single', O(op, A)
    for op in ('<<', '>>'):
        for v in (1, 0x10, 0x80, 0xff, 0x55):
            for c in (0, 1, 4, 7, 8, 9, 0xff):
                yield 'constshift', O(op, I(8, v), I(8, c))
        yield 'constshift32', O(op, I(32, 0x80000001), I(32, 31)); yield 'constshift32', O(op, I(32, 1), I(32, 4)); yield 'constshift32', O(op, I(32, 0x10), I(32, 1))
        yield 'constshift-diffsize', O(op, I(32, 5), I(8, 1))
    yield 'negneg', neg(neg(A)); yield 'negneg', neg(neg(neg(A)))
    for c in consts: yield 'negint', neg(I(8, c))
    for op in ('+', '-', '|', '^', '<<', '>>', '<<<', '>>>', '&', '*', 'a>>'):
        yield 'opzero', O(op, A, I(8, 0)); yield 'opzero', O(op, I(8, 0), A); yield 'opzero', O(op, O('+', A, B), I(8, 0))
    yield 'sub', O('-', A, B); yield 'sub', O('-', A, I(8, 3)); yield 'sub', O('-', I(8, 3), A); yield 'sub', O('-', A, A)
    yield 'sub', O('-', O('-', A, B), C); yield 'sub', O('-', A, O('-', B, C)); yield 'sub3', O('-', A, B, C)
    yield 'negsum', neg(O('+', A, B)); yield 'negsum', neg(O('+', A, B, I(8, 3))); yield 'negsum', neg(O('+', A)); yield 'negother', neg(O('*', A, B)); yield 'negother', neg(O('!', A))
    yield 'xorself', O('^', A, A); yield 'xorself', O('^', A, B, A); yield 'xorself', O('^', A, A, A); yield 'xorself', O('^', O('+', A, B), O('+', B, A))
    yield 'addneg', O('+', A, neg(A)); yield 'addneg', O('+', neg(A), A); yield 'addneg', O('+', A, B, neg(A)); yield 'addneg', O('+', neg(B), A, B)
    yield 'addneg', O('+', A, neg(B)); yield 'addneg', O('+', O('*', A, B), neg(O('*', B, A))); yield 'addneg', O('+', A, neg(A), neg(A))
    yield 'orself', O('|', A, A); yield 'orself', O('|', A, B, A); yield 'andself', O('&', A, A); yield 'andself', O('&', B, A, B, A)
    for op in ('<<<', '>>>'):
        yield 'rotsize', O(op, A, I(8, 8)); yield 'rotsize', O(op, X32, I(32, 32)); yield 'rot', O(op, A, I(8, 3)); yield 'rot', O(op, A, I(8, 16)); yield 'rot', O(op, A, B)
        for op2 in ('<<<', '>>>'):
            yield 'rotmerge', O(op, O(op2, A, I(8, 3)), I(8, 2)); yield 'rotmerge', O(op, O(op2, A, B), B); yield 'rotmerge', O(op, O(op2, A, I(8, 5)), I(8, 5))
            yield 'rotmerge', O(op, O(op2, A, B), C); yield 'rotmerge', O(op, O(op2, A, I(8, 0xff)), I(8, 1))
    for m in (0, 1, 0xf, 0x10, 0x11, 0x1f, 0x20, 0x7f, 0x80, 0xff):
        for s in (0, 1, 3, 4, 5, 7, 8, 9):
            yield 'maskshift', O('>>', O('&', A, I(8, m)), I(8, s))
    yield 'maskshift', O('>>', O('&', A, B), I(8, 4)); yield 'maskshift', O('>>', O('&', A, I(8, 0xf)), B); yield 'maskshift', O('>>', O('&', A, B, I(8, 0xf)), I(8, 4))
    yield 'maskshift32', O('>>', O('&', X32, I(32, 0xffff)), I(32, 16)); yield 'maskshift32', O('>>', O('&', X32, I(32, 0x10000)), I(32, 16))
    for a in (0, 3, 0xff):
        for b in (0, 3, 4):
            yield 'eqint', O('==', I(8, a), I(8, b))
    yield 'eqor', O('==', O('|', A, I(8, 1)), I(8, 0)); yield 'eqor', O('==', O('|', A, I(8, 0)), I(8, 0)); yield 'eqor', O('==', O('|', A, B), I(8, 0))
    yield 'eqor', O('==', O('|', A, I(8, 1)), I(8, 1)); yield 'eq', O('==', A, B); yield 'eq', O('==', A, A); yield 'eqor', O('==', O('|', A, B, I(8, 4)), I(8, 0))
    for c in consts: yield 'parity', O('parity', I(8, c))
    yield 'parity', O('parity', A); yield 'parity32', O('parity', I(32, 0x1ff)); yield 'not', O('!', A); yield 'not', O('!', I(8, 5))
    # slices
    yield 'slicefull', S(A, 0, 8); yield 'slicefull', S(X32, 0, 32); yield 'slice', S(X32, 0, 8); yield 'slice', S(X32, 8, 16)
    for lo, hi in ((0, 8), (8, 16), (4, 12), (0, 16), (16, 32), (0, 1), (31, 32), (8, 32), (0, 24)):
        yield 'sliceint', S(I(32, 0x12345678), lo, hi); yield 'sliceint', S(I(32, 0xfedcba98), lo, hi)
    yield 'sliceslice', S(S(X32, 8, 24), 0, 8); yield 'sliceslice', S(S(X32, 8, 24), 8, 16); yield 'sliceslice', S(S(X32, 8, 24), 4, 12); yield 'sliceslice', S(S(S(X32, 4, 28), 4, 20), 4, 12)
    KAB = K((A, 0, 8), (B, 8, 16))
    yield 'slicecompose', S(KAB, 0, 8); yield 'slicecompose', S(KAB, 8, 16); yield 'slicecompose', S(KAB, 4, 12); yield 'slicecompose', S(KAB, 9, 15); yield 'slicecompose', S(KAB, 0, 4)
    K3 = K((A, 0, 8), (S(X32, 0, 8), 8, 16), (S(Y32, 16, 32), 16, 32))
    yield 'slicecompose', S(K3, 16, 32); yield 'slicecompose', S(K3, 20, 28); yield 'slicecompose', S(K3, 8, 16); yield 'slicecompose', S(K3, 0, 16)
    for w in (8, 16):
        yield 'slicemem', S(M(32, X32), 0, w); yield 'slicemem', S(M(32, O('+', X32, I(32, 4))), 0, w); yield 'slicemem', S(M(32, X32, ('D', 'fs', 16, 1, 0)), 0, w)
    yield 'slicemem', S(M(32, X32), 8, 16); yield 'slicemem', S(M(32, X32), 0, 12); yield 'slicemem', S(M(16, X32), 0, 8); yield 'slicemem', S(M(32, X32), 0, 24); yield 'slicemem', S(M(64, X32), 0, 32)
    # concatenations
    yield 'composeint', K((I(8, 1), 0, 8), (I(8, 2), 8, 16)); yield 'composeint', K((I(8, 0xff), 0, 8), (I(8, 0x80), 8, 16), (I(16, 0x1234), 16, 32))
    yield 'composeint', K((A, 0, 8), (I(8, 0), 8, 16), (I(16, 0), 16, 32)); yield 'composeint', K((A, 0, 8), (I(8, 5), 8, 16), (B, 16, 24), (I(8, 7), 24, 32))
    yield 'composeint', K((I(8, 1), 0, 8), (A, 8, 16)); yield 'composeint', K((I(16, 0xffff), 0, 16), (I(16, 1), 16, 32)); yield 'composeint', K((I(32, 5), 0, 32), (I(32, 6), 32, 64))
    yield 'composeint-wide', K((I(32, 5), 0, 8), (A, 8, 16)); yield 'composeint-wide', K((A, 0, 8), (I(32, 0), 8, 32)); yield 'composeint-wide', K((A, 0, 8), (I(32, 0xabcdef12), 8, 32))
    yield 'composeslice', K((S(X32, 0, 8), 0, 8), (S(X32, 8, 16), 8, 16)); yield 'composeslice', K((S(X32, 0, 8), 0, 8), (S(X32, 8, 16), 8, 16), (S(X32, 16, 32), 16, 32))
    yield 'composeslice', K((S(X32, 0, 16), 0, 16), (S(X32, 16, 32), 16, 32)); yield 'composeslice', K((S(X32, 8, 16), 0, 8), (S(X32, 0, 8), 8, 16))
    yield 'composeslice', K((S(X32, 0, 8), 0, 8), (S(Y32, 8, 16), 8, 16)); yield 'composeslice', K((S(X32, 0, 8), 0, 8), (S(X32, 16, 24), 8, 16))
    yield 'composeslice', K((S(X32, 0, 8), 0, 8), (A, 8, 16), (S(X32, 16, 32), 16, 32)); yield 'composeslice', K((S(X32, 0, 8), 0, 8), (S(X32, 8, 16), 8, 16), (I(16, 0), 16, 32))
    yield 'composeslice', K((S(EAX, 0, 8), 0, 8), (S(X32, 8, 16), 8, 16), (S(EAX, 16, 32), 16, 32)); yield 'composeslice', K((S(X32, 8, 16), 0, 8), (S(X32, 16, 24), 8, 16), (S(X32, 0, 16), 16, 32))
    yield 'composeslice', K((S(O('+', X32, Y32), 0, 8), 0, 8), (S(O('+', Y32, X32), 8, 16), 8, 16))
    yield 'composesingle', K((A, 0, 8)); yield 'composesingle', K((X32, 0, 32)); yield 'compose', K((A, 0, 8), (B, 8, 16)); yield 'compose', K((B, 8, 16), (A, 0, 8))
    yield 'compose128', K((S(X32, 0, 8), 0, 64), (I(64, 0), 64, 128))
    # conditions
    yield 'condneg', ('C', neg(A), B, C); yield 'condneg', ('C', neg(neg(A)), B, C); yield 'condint', ('C', I(8, 0), B, C); yield 'condint', ('C', I(8, 5), B, C); yield 'condint', ('C', I(1, 1), B, C)
    yield 'cond', ('C', A, B, C); yield 'cond', ('C', O('+', A, neg(A)), B, C); yield 'cond', ('C', O('==', I(8, 3), I(8, 3)), B, C)
    # nesting that forces several passes
    yield 'nest', O('+', O('-', A, B), O('-', B, A)); yield 'nest', O('^', O('+', A, I(8, 1), I(8, 0xff)), A); yield 'nest', neg(O('+', neg(A), neg(B)))
    yield 'nest', S(K((O('+', A, I(8, 0)), 0, 8), (O('^', B, B), 8, 16)), 0, 8); yield 'nest', O('+', S(I(32, 0x100), 8, 16), A, I(8, 0xff))
    yield 'nest', M(8, O('+', X32, I(32, 1), I(32, 0xffffffff))); yield 'nest', O('>>', O('&', O('+', A, I(8, 0)), I(8, 3)), O('+', I(8, 1), I(8, 1)))
    yield 'nest', ('C', O('-', A, I(8, 0)), O('+', B, I(8, 0)), O('|', C, C))
