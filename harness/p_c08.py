"""C08 — read/write sets of the lifted semantics never omit a real dependency.
Observation point of the property: union of a.get_r(mem_read=True) / a.get_w() over get_instr_expr (harness/impl_rw.py, run on
the working tree).  Reference: (A) integer core — dependency probing on the SDM reference harness/x86ref.py (state pairs differing
in one register, flag or in the bytes the instruction reads; an element whose change changes a result must be reported read) and
write probing (everything the reference writes, and every flag it leaves undefined, must be reported written); (B) MMX/SSE forms —
the operand roles of the instruction (sources read, destination written, address registers read) plus the implicit operands of the
string-compare, compare, masked-store and variable-blend instructions."""
import os, sys, json, re, random
from common import *
import exprlib as X, liftgen, x86ref
from p_c04 import CORE, parse_args, SZ, split_top

FLAGS = ['cf', 'pf', 'af', 'zf', 'nf', 'of', 'df']
STATUS = ['cf', 'pf', 'af', 'zf', 'nf', 'of']
MASKS = [1, 0x80, 0x100, 0x8000, 0x10000, 0x80000000, 0xffffffff, 0x55aa55aa]

def regname(i):
    if i < 8: return x86ref.REG32[i]
    if 64 <= i < 72: return 'mm%d' % (i - 64)
    if 80 <= i < 88: return 'xmm%d' % (i - 80)
    return None

# (B) instructions with implicit operands or whose first operand is not a destination (keys: the decoder's template names)
FLAG_WRITERS = {'comis#s#', 'ucomis#s#', '#p#test', '#p#cmpistri', '#p#cmpestri', '#p#cmpistrm', '#p#cmpestrm'}
IMPL_W = {'#p#cmpistri': ['ecx'], '#p#cmpestri': ['ecx'], '#p#cmpistrm': ['xmm0'], '#p#cmpestrm': ['xmm0']}
IMPL_R = {'#p#cmpestri': ['eax', 'edx'], '#p#cmpestrm': ['eax', 'edx'], 'blendv##PD#': ['xmm0'], 'blendv##PS#': ['xmm0'], '#p#blendvb': ['xmm0'],
          'maskmov#qu#': ['edi']}
FIRST_IS_SOURCE = FLAG_WRITERS | {'maskmov#qu#'}
NO_ROLE = {'prefetchnta', 'prefetcht0', 'prefetcht1', 'prefetcht2', 'prefetchw', 'clflush', 'ldmxcsr', 'stmxcsr', 'movnti', 'lfence', 'mfence', 'sfence'}

RMW_RE = re.compile(r'^(#p#(add|sub|mul|madd|and|or$|xor|cmpeq|cmpgt|unpck|ack|avg|min|max|sad|sign|hadd|hsub|shufb|sll|srl|sra|alignr|blend|insr)|'
                    r'(add|sub|mul|div|min|max|and|andn|or|xor|cmp|shuf|unpckh|unpckl)#ps#$|addsub#pd#$|hadd#pd#$|dp##|blend##|blendv##|mov#hps#$|mov#lps#$)')
def dst_is_read(mn, prefix, g):
    """destination operand that is also a source: two-operand arithmetic, merges, and the scalar forms that keep the upper part"""
    if RMW_RE.match(mn): return g[0]['kind'] == 'reg'
    if mn == 'mov#ups#' and prefix in ('243', '242'): return len(g) == 2 and g[0]['kind'] == 'reg' and g[1]['kind'] == 'reg'   # movss/movsd xmm, xmm
    if mn in ('sqrt#ps#', 'rcp#ps#', 'rsqrt#ps#') and prefix in ('243', '242'): return g[0]['kind'] == 'reg'
    return False

def parse_ops_generic(dump):
    """operands -> list of dict(kind reg/mem/imm, regs=[names], size) for the operand-role rule"""
    ops = []
    if not dump: return ops
    for a in dump.split(' ; '):
        f = dict(x.split('=', 1) for x in a.split(' ') if '=' in x)
        regs = [tuple(int(v) for v in rc.split(':')) for rc in f.get('regs', '').split(',') if rc]
        names = [regname(r) for r, c in regs]
        if any(n is None for n in names): return None
        if f.get('ad') == 'False':
            if names: ops.append(dict(kind='reg', regs=names))
            else: ops.append(dict(kind='imm', regs=[]))
        else: ops.append(dict(kind='mem', regs=names))
    return ops

def run(tier):
    chk = Check('C08', tier)
    if not chk.prove():
        chk.violation('proof obligations of props/C08.v no longer check', chk.broken_summary(), found_input=False)
    try: build_model()
    except BuildBroken as e:
        chk.violation('extracted model does not build: ' + e.what, dict(log_tail=e.log[-3000:]), found_input=False)
        return chk.finish()
    rng = random.Random(20250927)       # fixed: known-finding classes must not depend on VERIF_SEED
    cat = list(liftgen.catalogue())
    # supplement: scalar / F3- and F2-prefixed SSE forms (register-register and memory source), absent from the catalogue's prefix space
    for pfx in ('f3', 'f2'):
        for op2 in range(0x10, 0x100):
            for modrm in ('c1', '08'):
                cat.append('%s0f%02x%s0000000000' % (pfx, op2, modrm))
    have = set(cat)
    for b in liftgen.shift_sweep():                     # immediate shift / rotate counts around the 5-bit masking boundaries
        if b not in have: have.add(b); cat.append(b)
    dis = run_impl('impl_x86dis.py', cat)
    forms = []; sse = []
    for h, d in zip(cat, dis):
        if '|' not in d: continue
        f = d.split('|')
        if f[4] not in ('u32', 'mm', 'xmm') or f[1] not in ('', '102', '243', '242'): continue
        if f[2] in CORE and f[3] in ('u32', 'u16') and f[4] == 'u32' and f[1] in ('', '102'):
            ops = parse_args(f[5], 32)
            if ops is not None and not (f[2] == 'lea' and ops[1][0] != 'mem'): forms.append((h, f[2], int(f[0]), 16 if f[3] == 'u16' else 32, ops))
        elif ('#' in f[2] or f[3] in ('mm', 'xmm')) and f[2] not in NO_ROLE:
            g = parse_ops_generic(f[5])
            if g is not None and g: sse.append((h, f[2], g, f[1]))
    rw = dict(zip([x[0] for x in forms] + [x[0] for x in sse], run_impl('impl_rw.py', [x[0] for x in forms] + [x[0] for x in sse])))
    kf = {k['key']: k for k in chk.known_findings()}
    bad = {}
    def note(key, h, detail): bad.setdefault(key, []).append((h, detail))
    def parse_rw(o):
        m = re.match(r'^(\S+) (\d+) R (.*?) ## RM (.*?) ## W (.*?) ## WM (.*)$', o)
        if not m: return None
        def mems(s):
            out = []; parts = split_top_mixed(s)
            return parts
        return dict(R=set(x for x in m.group(3).split(',') if x), W=set(x for x in m.group(5).split(',') if x), RM=mems(m.group(4)), WM=mems(m.group(6)))
    def split_top_mixed(s):
        """'(sexp) 32 (sexp) 8 ...' or 'atom-less' -> [(sexp, size)]"""
        out = []; s = s.strip()
        while s:
            if s[0] == '(':
                depth = 0
                for i, c in enumerate(s):
                    if c == '(': depth += 1
                    elif c == ')':
                        depth -= 1
                        if depth == 0: break
                e = s[:i + 1]; rest = s[i + 1:].strip()
            else:
                e, _, rest = s.partition(' '); rest = rest.strip()
            size, _, rest = rest.partition(' ')
            out.append((e, int(size))); s = rest.strip()
        return out
    # ---------------- (A) integer core
    nst = 3 if tier == 'quick' else 12
    lines = []; meta = []
    for (h, mn, L, opsize, ops) in forms:
        o = rw[h]; o16 = 'o16' if opsize == 16 else 'o32'
        if o.startswith('E '):
            note('rw:%s:%s:raises' % (mn, o16), h, o); continue
        p = parse_rw(o)
        if p is None: continue
        for k in range(nst):
            regs = {}
            for r in x86ref.REG32:
                regs[r] = rng.choice([0, 1, 2, 0x7f, 0x80, 0xff, 0x7fff, 0x8000, 0xffff, 0x7fffffff, 0x80000000, 0xffffffff, 5, 9, 33]) if rng.random() < 0.5 else rng.randrange(1 << 32)
            regs['esp'] = 0x7000 + 4 * rng.randrange(64); regs['ebp'] = 0x7200 + 4 * rng.randrange(64)
            if k % 2 == 0: regs['ecx'] = rng.choice([1, 2, 3, 5, 7, 9, 17])
            flags = {f: rng.randrange(2) for f in FLAGS}
            env = ' '.join('(%s %d)' % kv for kv in list(regs.items()) + list(flags.items()))
            addrs = [e for e, _ in p['RM']] + [e for e, _ in p['WM']]
            lines.append('(evs (%s) () %s)' % (env, ' '.join(addrs) if addrs else '(I 0 32 0)'))
            meta.append((h, mn, L, opsize, ops, p, regs, flags))
    chk.log('core forms: %d, SSE/MMX forms: %d, states: %d' % (len(forms), len(sse), len(lines)))
    res = run_model('eval', lines)
    def ref(mn, ops, regs, flags, opsize, L, memover=None):
        st = x86ref.State(regs, flags, memover)
        try: ok = x86ref.exec_instr(mn, ops, st, opsize, 0x1000 + L)
        except Exception: ok = False
        return st if ok else None
    def view(st, regs, skip=None, flags0=None, wset=()):
        """what the processor produced: written bits of registers, defined flags, written bytes, eip; and, for every register / flag
        the lifted semantics claim to write (wset) but the processor leaves alone in this state, its initial value (a conditionally
        written output depends on itself: the read set must say so)"""
        v = {}
        for n in wset:
            if n in regs and n not in st.wregs and 'dst' not in st.undef: v['r:' + n] = regs[n]
            elif flags0 is not None and n in flags0 and n not in st.wflags and n not in st.undef: v['f:' + n] = flags0[n]
        for r, val in st.wregs.items():
            m = st.wmask.get(r, 0xffffffff)
            if r in st.wmask and r in st.wregs and st.wmask[r] != 0xffffffff and (val & ~m) != (regs[r] & ~m): m = 0xffffffff
            v['r:' + r] = val & m
        for f, val in st.wflags.items():
            if f not in st.undef: v['f:' + f] = val
        v['m'] = tuple(sorted(st.wmem.items())); v['eip'] = st.eip; v['undef'] = tuple(sorted(st.undef))
        return v
    nprobe = 0; ncmp = 0
    for (h, mn, L, opsize, ops, p, regs, flags), r in zip(meta, res):
        o16 = 'o16' if opsize == 16 else 'o32'
        if r.startswith('X'): continue
        vals = [int(v) for v in r.split()]
        rm = [(vals[i], p['RM'][i][1]) for i in range(len(p['RM']))]
        wm = [(vals[len(p['RM']) + i], p['WM'][i][1]) for i in range(len(p['WM']))]
        st0 = ref(mn, ops, regs, flags, opsize, L)
        if st0 is None: continue
        ncmp += 1
        v0 = view(st0, regs, None, flags, p['W'])
        desc = '%s regs=%s flags=%s' % (h, {r_: hex(v) for r_, v in regs.items()}, flags)
        # write probing
        for r_ in st0.wregs:
            if r_ not in p['W']: note('rw:%s:%s:W:%s' % (mn, o16, r_), h, '%s: the processor writes %s, which is not in the reported write set %s' % (desc, r_, sorted(p['W'])))
        for f in set(st0.wflags) | (st0.undef & set(STATUS)):
            if f not in p['W']:
                kind = 'undefined-flag' if f in st0.undef else f
                note('rw:%s:%s:W:%s' % (mn, o16, kind), h, '%s: the processor %s %s, which is not in the reported write set %s' % (desc, 'leaves undefined (modifies)' if f in st0.undef else 'writes', f, sorted(p['W'])))
        if st0.eip is not None and 'eip' not in p['W']:
            note('rw:%s:%s:W:eip' % (mn, o16), h, '%s: control transfer, eip not in the reported write set' % desc)
        for a_ in st0.wmem:
            if not any(((a_ - base) & 0xffffffff) < sz // 8 for base, sz in wm):
                note('rw:%s:%s:W:mem' % (mn, o16), h, '%s: the processor writes the byte at 0x%x, not covered by the reported memory writes %s' % (desc, a_, [(hex(b), s) for b, s in wm])); break
        # dependency probing
        for r_ in x86ref.REG32:
            if r_ in p['R']: continue
            for mk in MASKS:
                regs2 = dict(regs); regs2[r_] ^= mk
                st1 = ref(mn, ops, regs2, flags, opsize, L); nprobe += 1
                if st1 is None: continue
                v1 = view(st1, regs2, None, flags, p['W'])
                if v1 != v0:
                    diff = [k for k in set(v0) | set(v1) if v0.get(k) != v1.get(k)]
                    note('rw:%s:%s:R:%s' % (mn, o16, r_), h, '%s: changing %s by ^0x%x changes %s, but %s is not in the reported read set %s' % (desc, r_, mk, diff, r_, sorted(p['R']))); break
        for f in FLAGS:
            if f in p['R']: continue
            fl2 = dict(flags); fl2[f] ^= 1
            st1 = ref(mn, ops, regs, fl2, opsize, L); nprobe += 1
            if st1 is None: continue
            v1 = view(st1, regs, None, fl2, p['W'])
            if v1 != v0:
                diff = [k for k in set(v0) | set(v1) if v0.get(k) != v1.get(k)]
                note('rw:%s:%s:R:%s' % (mn, o16, f), h, '%s: flipping %s changes %s, but %s is not in the reported read set %s' % (desc, f, diff, f, sorted(p['R'])))
        if st0.rmem:
            unc = [a_ for a_ in sorted(st0.rmem) if not any(((a_ - base) & 0xffffffff) < sz // 8 for base, sz in rm)]
            if unc:
                over = {a_: (x86ref.default_mem(a_) ^ 0xff) for a_ in unc}
                st1 = ref(mn, ops, regs, flags, opsize, L, over); nprobe += 1
                if st1 is not None and view(st1, regs, None, flags, p['W']) != v0:
                    note('rw:%s:%s:R:mem' % (mn, o16), h, '%s: the bytes at %s influence the result but are not covered by the reported memory reads %s' % (desc, [hex(a_) for a_ in unc[:4]], [(hex(b), s) for b, s in rm]))
    # ---------------- (B) MMX / SSE operand roles
    nsse = 0
    for (h, mn, g, prefix) in sse:
        o = rw[h]
        if o.startswith('E '):
            note('rw:%s:raises' % mn, h, o); continue
        p = parse_rw(o)
        if p is None: continue
        nsse += 1
        def need_r(name, why):
            if name not in p['R']: note('rw:%s:R:%s' % (mn, why), h, '%s %s: %s must be read (%s); reported read set %s' % (h, mn, name, why, sorted(p['R'])))
        def need_w(name, why):
            if name not in p['W']: note('rw:%s:W:%s' % (mn, why), h, '%s %s: %s must be written (%s); reported write set %s' % (h, mn, name, why, sorted(p['W'])))
        for i, op in enumerate(g):
            if op['kind'] == 'mem':
                for n in op['regs']: need_r(n, 'address-register')
                if i >= 1 or mn in FIRST_IS_SOURCE:
                    if not p['RM']: note('rw:%s:R:memory-source' % mn, h, '%s %s: the memory source operand is not in the reported read set' % (h, mn))
                elif not p['WM']: note('rw:%s:W:memory-destination' % mn, h, '%s %s: the memory destination operand is not in the reported write set' % (h, mn))
            elif op['kind'] == 'reg':
                if i >= 1 or mn in FIRST_IS_SOURCE:
                    for n in op['regs']: need_r(n, 'source-operand')
                else:
                    for n in op['regs']: need_w(n, 'destination-operand')
        if dst_is_read(mn, prefix, g):
            for n in g[0]['regs']: need_r(n, 'destination-is-also-source')
        if mn in FLAG_WRITERS:
            for f in STATUS: need_w(f, 'status-flags')
        for n in IMPL_W.get(mn, []): need_w(n, 'implicit-' + n)
        for n in IMPL_R.get(mn, []): need_r(n, 'implicit-' + n)
        if mn == 'maskmov#qu#' and not p['WM']: note('rw:%s:W:implicit-store' % mn, h, '%s %s: the store to [edi] is not in the reported write set' % (h, mn))
    chk.cov['evaluations'] = nprobe + ncmp + nsse; chk.cov['core_forms'] = len(forms); chk.cov['sse_forms'] = nsse; chk.cov['reference_probes'] = nprobe
    chk.cov['distinct_nontrivial'] = len(forms) + nsse; chk.cov['traces_validated_against_impl'] = len(forms) + nsse
    for key, items in sorted(bad.items()):
        if key in kf: chk.report_known(key, kf[key]['what'] + ' (%d occurrences in this run)' % len(items)); continue
        if len(chk.violations) >= 400: break
        items.sort(key=lambda x: len(x[1]))
        h, detail = items[0]
        chk.violation('%s — %s; %d occurrences' % (key, detail[:500], len(items)), dict(case=h, key=key, detail=detail, count=len(items)))
    chk.cov['rule'] = ('(A) integer-core forms of the lift catalogue x %d states: every general register (8 XOR masks), every flag, and the bytes the instruction reads are perturbed one at a time on the SDM reference; '
                       'an element whose change alters a written register (written bits), a defined flag, a written byte or eip must be in get_r(mem_read=True); everything the reference writes, every flag it leaves '
                       'undefined, and eip on control transfers must be in get_w. (B) MMX/SSE forms: operand roles + implicit operands table. Non-trivial = distinct form') % nst
    chk.cov['samples'] = [dict(bytes=m[0], mnemonic=m[1]) for m in (list(forms[::max(1, len(forms) // 3)][:3]) + list(sse[::max(1, len(sse) // 2)][:2]))]
    return chk.finish(assumptions=['x86ref.py (SDM reference) decides the true dependencies of the integer core; the MMX/SSE operand-role rule requires only what every such instruction does (sources and address registers read, destination written) plus a table of implicit operands'])

def replay(path):
    r = json.load(open(path)); print(r.get('detail', r.get('what'))); return 1
