"""gas.py — GNU as (binutils 2.40, --32) as the reference assembler: assemble many single-instruction lines at once, each in its own
32-byte slot.  Returns per line: ('ok', hex of the slot up to the padding as objdump delimits it) / ('rejected', message) /
('warned', message).  A line that triggers a warning (e.g. 'shortened') is NOT taken as a reference."""
import os, re, subprocess
import objref
SLOT = 32
def assemble(lines, syntax, workdir, tag='gas'):
    """syntax: 'intel' or 'att'. returns list of (status, payload)"""
    status = [None] * len(lines)
    live = list(range(len(lines)))
    src = os.path.join(workdir, tag + '.s'); obj = os.path.join(workdir, tag + '.o'); binf = os.path.join(workdir, tag + '.bin')
    for attempt in range(6):
        with open(src, 'w') as f:
            f.write('.intel_syntax noprefix\n' if syntax == 'intel' else '.att_syntax\n')
            f.write('.text\n')
            for k in live:
                f.write(lines[k].replace('\n', ' ') + '\n.balign %d, 0x90\n' % SLOT)
        p = subprocess.run(['as', '--32', src, '-o', obj], stdout=subprocess.PIPE, stderr=subprocess.PIPE, text=True)
        badl = {}
        for m in re.finditer(r'^[^:\n]*:(\d+): (Error|Warning|Fatal error): (.*)$', p.stderr, re.M):
            ln = int(m.group(1)); idx = (ln - 3) // 2
            if (ln - 3) % 2 == 0 and 0 <= idx < len(live):
                badl.setdefault(live[idx], ('rejected' if m.group(2) != 'Warning' else 'warned', m.group(3)))
        if not badl and p.returncode == 0: break
        if not badl:      # an error we cannot attribute: give up on everything still live
            for k in live: status[k] = ('rejected', 'unattributed: ' + p.stderr[:200])
            live = []; break
        for k, v in badl.items(): status[k] = v
        live = [k for k in live if k not in badl]
        if not live: break
    else:
        for k in live: status[k] = ('rejected', 'too many attempts')
        live = []
    if live:
        subprocess.run(['objcopy', '-O', 'binary', '-j', '.text', obj, binf], check=True)
        data = open(binf, 'rb').read()
        # one line may need more than one slot only if it is longer than 32 bytes: never for one instruction
        hexes = []
        for i, k in enumerate(live):
            hexes.append(data[i * SLOT:(i + 1) * SLOT].hex())
        ref = objref.objdump_many([h[:30] for h in hexes], workdir)
        for i, k in enumerate(live):
            r = ref[i]
            if r is None: status[k] = ('rejected', 'objdump could not delimit'); continue
            # prefixes that objdump prints as separate pseudo-instructions are kept: take bytes until the padding nops begin
            h = hexes[i]; n = r[0]
            status[k] = ('ok', h[:2 * n], r[1])
        for f_ in (src, obj, binf):
            try: os.remove(f_)
            except OSError: pass
    return status
