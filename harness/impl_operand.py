"""impl runner (C19 operand algebra tie): 'num <n>' -> the immediate the Intel operand parser builds for the number token <n>;
'add <A> <B>' / 'sub <A> <B>' / 'mul <c> <B>' -> parse_ad.dict_add / dict_sub / dict_mul on integer-keyed dictionaries
(k:v,k:v in insertion order; '-' empty; key codes: 1000 = imm, others = register numbers), printed the same way
without the 'txt' memo."""
import os, sys
REAL = os.fdopen(os.dup(1), 'w'); sys.stdout = open(os.devnull, 'w')
from miasmx.core import parse_ad as P
from miasmx.arch.ia32_reg import x86_afs as X
from miasmx.tools.modint import int32, uint32
CODE = {1000: X.imm}; BACK = {v: k for k, v in CODE.items()}
def rd(t):
    d = {}
    if t != '-':
        for kv in t.split(','):
            k, v = kv.split(':'); k = int(k); d[CODE.get(k, k)] = int(v)
    return d
def show(d):
    items = [(BACK.get(k, k), v) for k, v in d.items() if k != 'txt']
    return ','.join('%d:%d' % kv for kv in items) if items else '-'
def one(l):
    t = l.split()
    try:
        if t[0] == 'num':
            d = P.parse_ad(t[1]); return str(int(d[X.imm]))
        if t[0] == 'add':
            a, b = rd(t[1]), rd(t[2]); a['txt'] = 'a'; b['txt'] = 'b'      # operands always carry their text memo
            return show(P.dict_add(a, b))
        if t[0] == 'sub': return show(P.dict_sub(rd(t[1]), rd(t[2])))
        if t[0] == 'mul': return show(P.dict_mul({X.imm: int(t[1])}, rd(t[2])))
    except Exception as e:
        return 'E %s' % type(e).__name__
out = []
for l in sys.stdin:
    l = l.strip()
    if l: out.append(one(l))
REAL.write('\n'.join(out) + '\n'); REAL.flush()
