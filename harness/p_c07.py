"""C07 — symbolic machine state equals sequential execution, incl. overlapping memory (tie H: EvalAbs.v)."""
import os, sys, json, itertools
from common import *
import exprlib as X
import exprcheck as XC

ESI = ('D', 'init_esi', 32, 1, 1)
def addr(base, off):
    if base == 'const': return ('I', 0, 32, 0x1000 + off)
    return ESI if off == 0 else ('O', '+', [ESI, ('I', 0, 32, off)])
def cell(base, off, w): return ('M', w, addr(base, off), None)
R64 = ('D', 'r64', 64, 0, 1)
def val(i, w, kind):
    if kind == 'sym': return ('D', 'v%d_%d' % (i, w), w, 0, 1)
    if isinstance(kind, tuple):      # ('slice', off): memory as an image of one 64-bit symbol -> adjacent cells hold adjacent slices
        return ('S', R64, 8 * kind[1], 8 * kind[1] + w)
    return ('I', 0, w, (0x11223344 * (i + 1) + 0x0f1e2d3c) % (1 << w))

def history_line(base, stores, loads, kinds=None):
    ins = []
    for i, (off, w) in enumerate(stores):
        k = (kinds[i] if kinds else 'sym')
        ins.append('(%s)' % X.t2s(('A', cell(base, off, w), val(i, w, k))))
    rd = ' '.join(X.t2s(cell(base, off, w)) for off, w in loads)
    return '(run () (%s) (%s))' % (' '.join(ins), rd)

def gen(chk):
    rng = chk.rng
    lines = []; meta = []; hist = {}
    def add(tag, l, m): lines.append(l); meta.append(m); hist[tag] = hist.get(tag, 0) + 1
    shapes = [(off, w) for w in (8, 16, 32) for off in range(8)]
    # exhaustive: <= 2 stores + 1 load, widths 8/16/32, offsets 0..7, constant or symbolic base
    bases = ['sym', 'const']
    if chk.tier == 'quick':
        # quick: all (store, load) pairs exhaustively; 2-store histories over a seeded quarter of the space
        for base in bases:
            for s1 in shapes:
                for ld in shapes:
                    add('1store', history_line(base, [s1], [ld]), dict(base=base, stores=[s1], loads=[ld]))
            for s1 in shapes:
                for s2 in shapes:
                    for ld in shapes:
                        if rng.random() < 0.2:
                            add('2stores', history_line(base, [s1, s2], [ld]), dict(base=base, stores=[s1, s2], loads=[ld]))
    else:
        for base in bases:
            for s1 in shapes:
                for ld in shapes:
                    add('1store', history_line(base, [s1], [ld]), dict(base=base, stores=[s1], loads=[ld]))
                for s2 in shapes:
                    for ld in shapes:
                        add('2stores', history_line(base, [s1, s2], [ld]), dict(base=base, stores=[s1, s2], loads=[ld]))
    # random longer histories
    n = 1500 if chk.tier == 'quick' else 40000
    for i in range(n):
        base = rng.choice(bases); k = rng.choice([3, 3, 4, 5, 6, 8, 12])
        stores = [rng.choice(shapes) for _ in range(k)]
        kinds = [rng.choice(['sym', 'sym', 'const']) for _ in range(k)]
        loads = [rng.choice(shapes) for _ in range(3)]
        add('random', history_line(base, stores, loads, kinds), dict(base=base, stores=stores, loads=loads, kinds=kinds))
        if i % 3 == 0:
            # image histories: every store writes the matching slice of r64; wide loads merge adjacent slices, then narrow re-reads
            stores = [rng.choice([(o, w) for (o, w) in shapes if o + w // 8 <= 8]) for _ in range(k)]
            kinds = [('slice', o) for (o, w) in stores]
            loads = [rng.choice(shapes) for _ in range(2)] + [rng.choice([(o, 8) for o in range(8)]) for _ in range(3)]
            add('image', history_line(base, stores, loads, kinds), dict(base=base, stores=stores, loads=loads, kinds=kinds))
    return lines, meta, hist

def reference_check(m, impl_out, seeds=(0, 1, 2)):
    """concrete byte-addressed little-endian interpreter of the same history vs the value of the read-back expressions"""
    parts = impl_out.split(' ## ')
    if len(parts) != 1 + len(m['loads']): return 'malformed answer / exception: %s' % impl_out[:200]
    reads = parts[1:]
    for r, (off, w) in zip(reads, m['loads']):
        if not r.startswith('('): return 'read of %d bits at offset %d raises %s' % (w, off, r)
    kinds = m.get('kinds') or ['sym'] * len(m['stores'])
    for seed in seeds:
        basev = 0x1000 if m['base'] == 'const' else XC.model_eval([(seed, X.t2s(ESI), {})])[0]
        # initial bytes of the region, and the values stored
        lo = -8; hi = 24
        init = XC.model_eval([(seed, X.t2s(('M', 8, ('I', 0, 32, (basev + k) % (1 << 32)), None)), {}) for k in range(lo, hi)])
        mem = {k: b for k, b in zip(range(lo, hi), init)}
        vals = XC.model_eval([(seed, X.t2s(val(i, w, kinds[i])), {}) for i, (off, w) in enumerate(m['stores'])])
        for (off, w), v in zip(m['stores'], vals):
            for j in range(w // 8): mem[off + j] = (v >> (8 * j)) & 0xff
        got = XC.model_eval([(seed, r, {}) for r in reads])
        for r, g, (off, w) in zip(reads, got, m['loads']):
            want = sum(mem[off + j] << (8 * j) for j in range(w // 8))
            if g != want:
                return 'load of %d bits at offset %d reads back %s = 0x%x, the byte memory holds 0x%x (valuation seed %d)' % (w, off, r[:160], g if g is not None else -1, want, seed)
    return None

def classify(m):
    """history class of a failing case, for the known-findings file: how the load sits relative to earlier stores"""
    (loff, lw) = m['loads'][0] if m['loads'] else (0, 0)
    inside = any(soff < loff < soff + sw // 8 for soff, sw in m['stores'])
    return 'load-starts-inside-earlier-store' if inside else 'other'

def run(tier):
    chk = Check('C07', tier)
    if not chk.prove():
        chk.violation('proof obligations of props/C07.v no longer check', chk.broken_summary(), found_input=False)
    try: build_model()
    except BuildBroken as e:
        chk.violation('extracted model does not build: ' + e.what, dict(log_tail=e.log[-3000:]), found_input=False)
        return chk.finish()
    lines, meta, hist = gen(chk)
    chk.log('cases: %d %s' % (len(lines), hist))
    model, impl = XC.run_both(chk, 'evalabs', 'impl_evalabs.py', lines)
    chk.cov['evaluations'] = len(lines); chk.cov['traces_validated_against_impl'] = len(lines)
    chk.cov['generator_histogram'] = hist
    chk.cov['exhaustive'] = (tier == 'thorough')
    chk.cov['distinct_nontrivial'] = len(set(lines))
    chk.cov['rule'] = ('store/load histories over widths 8/16/32 at offsets 0..7 from a constant (0x1000) or symbolic (init_esi) base, one store per instruction, values symbolic or constant: '
                       'all 1-store x 1-load histories, 2-store histories (quick: seeded 20% sample; thorough: all 13824 per base), random histories of 3..12 stores + 3 loads. '
                       'Compared: the full state dump and every read-back expression (exact trees) against the model; every implementation answer is also evaluated against a concrete '
                       'little-endian byte memory under 3 valuations. Non-trivial = distinct history')
    chk.cov['samples'] = [dict(case=l[:300], model=m[:300], impl=i[:300]) for l, m, i in list(zip(lines, model, impl))[::max(1, len(lines) // 5)][:5]]
    kf = {k['key']: k for k in chk.known_findings()}
    mism = [(k, l, m, i) for k, (l, m, i) in enumerate(zip(lines, model, impl)) if m != i and m != 'NM']
    # the property itself, on EVERY implementation answer (cheap: 3 valuations)
    bad = {}
    todo = list(range(len(lines)))
    # batch the reference check: group model_eval calls per case is slow; evaluate only answers that differ from a
    # proved-correct shape?  No theorem covers read-back yet, so every case is checked.
    for k in todo:
        why = reference_check(meta[k], impl[k], seeds=(0,)) if False else None
    return finish_with_reference(chk, lines, meta, model, impl, mism, kf)

def rep_programs(rng, tier):
    """(rep-prefixed program, unrolled program) pairs with a concrete count: same final registers and memory expected"""
    pairs = []
    pre_sets = ['cld', 'std', 'cld; movl $0x2000,%esi; movl $0x3000,%edi']
    for pre in pre_sets:
        for n in (0, 1, 2, 3, 5):
            for ins in ('movsb', 'movsw', 'movsl', 'stosb', 'stosl', 'lodsb'):
                for copy in ('', 'movl %ecx,%edx; movl %ecx,8(%ebp)'):
                    post = 'movl 8(%ebp),%ebx' if copy else ''
                    a = '; '.join(x for x in [pre, 'movl $%d,%%ecx' % n, copy, 'rep ' + ins, post] if x)
                    b = '; '.join(x for x in [pre, 'movl $%d,%%ecx' % n, copy] + [ins] * n + ['movl $0,%ecx', post] if x)
                    pairs.append((a, b))
    # repe / repne with the architectural termination test, on concrete data
    data = 'cld; movl $0x2000,%esi; movl $0x3000,%edi; movb $5,(%esi); movb $5,(%edi); movb $6,1(%esi); movb $7,1(%edi); movb $8,2(%esi); movb $8,2(%edi)'
    for n in (1, 2, 3):
        # repe cmpsb stops after the first mismatch (2 steps when n >= 2)
        steps = min(n, 2)
        pairs.append((data + '; movl $%d,%%ecx; repe cmpsb' % n, data + '; movl $%d,%%ecx; ' % n + '; '.join(['cmpsb'] * steps) + '; movl $%d,%%ecx' % (n - steps)))
        steps = 1
        pairs.append((data + '; movl $%d,%%ecx; repne cmpsb' % n, data + '; movl $%d,%%ecx; ' % n + '; '.join(['cmpsb'] * steps) + '; movl $%d,%%ecx' % (n - steps)))
    # the termination test belongs AFTER each step: a concrete zf left by earlier instructions must not end (or prolong) the loop
    for entry, zf in (('xorl %ebx,%ebx', 1), ('movl $1,%ebx; testl %ebx,%ebx', 0)):
        for n in (2, 3):
            steps = min(n, 2)
            pairs.append((data + '; ' + entry + '; movl $%d,%%ecx; repe cmpsb' % n, data + '; ' + entry + '; movl $%d,%%ecx; ' % n + '; '.join(['cmpsb'] * steps) + '; movl $%d,%%ecx' % (n - steps)))
            pairs.append((data + '; ' + entry + '; movl $%d,%%ecx; repne cmpsb' % n, data + '; ' + entry + '; movl $%d,%%ecx; cmpsb; movl $%d,%%ecx' % (n, n - 1)))
    sdata = 'cld; movl $0x3000,%edi; movb $5,(%edi); movb $1,1(%edi); movb $0,2(%edi); movb $9,3(%edi)'
    for entry, stop in (('xorl %eax,%eax', 3), ('movl $1,%eax; testl %eax,%eax', 2)):      # al = 0 (zf = 1 on entry) / al = 1 (zf = 0 on entry)
        for n in (4, 8):
            pairs.append((sdata + '; ' + entry + '; movl $%d,%%ecx; repne scasb' % n, sdata + '; ' + entry + '; movl $%d,%%ecx; ' % n + '; '.join(['scasb'] * stop) + '; movl $%d,%%ecx' % (n - stop)))
            pairs.append((sdata + '; ' + entry + '; movl $%d,%%ecx; repe scasb' % n, sdata + '; ' + entry + '; movl $%d,%%ecx; scasb; movl $%d,%%ecx' % (n, n - 1)))
    return pairs

def strip_state(out):
    parts = out.split(' | ')
    if len(parts) != 3: return out
    ids = [x for x in parts[1].split(' ; ') if not x.startswith(('tsc1 ', 'tsc2 '))]
    return ' ; '.join(ids) + ' | ' + ' ; '.join(sorted(parts[2].split(' ; ')))

def rep_check(chk, kf):
    pairs = rep_programs(chk.rng, chk.tier)
    flat = [p for ab in pairs for p in ab]
    out = run_impl('impl_emul.py', flat)
    bad = []
    for k, (a, b) in enumerate(pairs):
        ra, rb = strip_state(out[2 * k]), strip_state(out[2 * k + 1])
        if ra != rb: bad.append((a, b, ra, rb))
    chk.cov['rep_programs'] = len(pairs); chk.cov['rep_mismatches'] = len(bad)
    byclass = {}
    for x in bad:
        cl = 'repe/repne' if ('repe' in x[0] or 'repne' in x[0]) else 'rep'
        byclass.setdefault(cl, []).append(x)
    for cl, items in sorted(byclass.items()):
        key = 'rep:' + cl
        if key in kf:
            chk.report_known(key, kf[key]['what'] + ' (%d programs in this run)' % len(items)); continue
        a, b, ra, rb = sorted(items, key=lambda x: len(x[0]))[0]
        d = [(u, v) for u, v in zip(ra.split(' ; '), rb.split(' ; ')) if u != v][:3]
        chk.violation('rep-prefixed string instruction differs from its unrolled steps: "%s" vs "%s": %s (%d programs of class %s)' % (a, b, d, len(items), cl),
                      dict(program=a, unrolled=b, state=ra, unrolled_state=rb, history_class=cl, count=len(items)))

def finish_with_reference(chk, lines, meta, model, impl, mism, kf):
    rep_check(chk, kf)
    # batched reference evaluation (one model_eval call for everything)
    seeds = (0, 1, 2)
    cases = []; index = []
    for k, m in enumerate(meta):
        parts = impl[k].split(' ## ')
        ok = len(parts) == 1 + len(m['loads']) and all(r.startswith('(') for r in parts[1:])
        if not ok: index.append((k, None)); continue
        kinds = m.get('kinds') or ['sym'] * len(m['stores'])
        for seed in seeds:
            start = len(cases)
            cases.append((seed, X.t2s(ESI), {}))
            for i, (off, w) in enumerate(m['stores']): cases.append((seed, X.t2s(val(i, w, kinds[i])), {}))
            for r in parts[1:]: cases.append((seed, r, {}))
            index.append((k, (seed, start)))
    vals = XC.model_eval(cases) if cases else []
    # initial memory bytes: per (seed, base value) on demand
    initcache = {}
    def init_bytes(seed, basev):
        key = (seed, basev)
        if key not in initcache:
            r = XC.model_eval([(seed, X.t2s(('M', 8, ('I', 0, 32, (basev + k) % (1 << 32)), None)), {}) for k in range(-8, 24)])
            initcache[key] = dict(zip(range(-8, 24), r))
        return initcache[key]
    failures = {}
    for k, info in index:
        if k in failures: continue
        m = meta[k]
        if info is None:
            failures[k] = 'raises / malformed answer: %s' % impl[k][:160]; continue
        seed, start = info
        basev = 0x1000 if m['base'] == 'const' else vals[start]
        mem = dict(init_bytes(seed, basev))
        ns = len(m['stores'])
        for (off, w), v in zip(m['stores'], vals[start + 1:start + 1 + ns]):
            for j in range(w // 8): mem[off + j] = (v >> (8 * j)) & 0xff
        parts = impl[k].split(' ## ')[1:]
        for r, g, (off, w) in zip(parts, vals[start + 1 + ns:start + 1 + ns + len(parts)], m['loads']):
            want = sum(mem[off + j] << (8 * j) for j in range(w // 8))
            if g != want:
                failures[k] = 'load of %d bits at offset %d reads back %s = %s, the byte memory holds 0x%x (valuation seed %d)' % (w, off, r[:160], hex(g) if g is not None else None, want, seed)
                break
    chk.cov['reference_checked'] = len(meta); chk.cov['reference_failures'] = len(failures)
    byclass = {}
    for k, why in failures.items(): byclass.setdefault(classify(meta[k]), []).append((k, why))
    for cl, items in sorted(byclass.items()):
        items.sort(key=lambda kw: len(lines[kw[0]]))
        key = 'readback:' + cl
        if key in kf:
            # listed class: re-confirm the listed witness, report once
            w = kf[key]['witness']
            out = run_impl('impl_evalabs.py', [w['case']], shards=1)[0]
            if reference_check(w['meta'], out) is not None:
                chk.report_known(key, kf[key]['what'] + ' (%d histories of this class in this run)' % len(items))
            continue
        k, why = items[0]
        chk.violation('C07 fails for history %s: %s; %d histories of class %s fail' % (lines[k][:400], why, len(items), cl),
                      dict(case=lines[k], meta=meta[k], impl=impl[k], model=model[k], why=why, history_class=cl, count=len(items)))
    bad_corr = [x for x in mism if x[0] not in failures]
    if bad_corr:
        k, l, m, i = sorted(bad_corr, key=lambda x: len(x[1]))[0]
        chk.violation('correspondence EvalAbs.v vs eval_abs (eval_instr / eval_ExprMem) broken (%d histories), e.g. %s: model %s, impl %s; the implementation still agrees with the byte memory on them' % (len(bad_corr), l[:300], m[:250], i[:250]),
                      dict(correspondence='EvalAbs.v/eval_instr+eval_expr vs eval_abs', case=l, impl=i, model=m, count=len(bad_corr)), found_input=False)
    chk.cov['model_disagreements'] = len(mism)
    return chk.finish(assumptions=['EvalAbs.v is a hand transcription of expression_eval_abstract.py tied by exact-output correspondence on the histories counted here',
                                   'the reference is a concrete little-endian byte memory evaluated with the extracted standard meaning (Expr.eval); 3 valuations per history'])

def replay(path):
    r = json.load(open(path))
    if 'case' not in r: print('replay names a broken obligation:', r.get('what')); return 1
    out = run_impl('impl_evalabs.py', [r['case']], shards=1)[0]
    why = reference_check(r['meta'], out) if 'meta' in r else None
    print('case', r['case'], '\nimpl', out, '\nproperty:', why or 'holds')
    return 1 if why else 0
