"""impl runner for C01/C10/C17: one hex string per line -> canonical dump of x86mnemo.dis(bytes).
line forms:  <hex>            structural dump (same format as the model's x86dis suite)
             r <hex>          renderings: intel || att   (or CRASH <Exception> per rendering)
             f <off> <hex>    flow metadata of the instruction decoded at stream offset <off> (hex is the instruction)
             f16 <off> <hex>  as f, decoded as in a 16-bit code segment (attrib {'opmode': u16}); the length is appended
             s <off> <hex>    decode from a stream positioned at <off> bytes of padding: len, offset, stream position after"""
import sys, binascii, logging
logging.disable(logging.CRITICAL)
from miasmx.arch.ia32_arch import x86mnemo
from miasmx.arch.ia32_reg import x86_afs as X
from miasmx.core.bin_stream import bin_stream
from miasmx.tools.modint import moduint
def show_arg(a):
    ad = a.get('ad', '-'); size = a.get('size', '-')
    regs = ','.join('%d:%d' % (k, v) for k, v in sorted((k, v) for k, v in a.items() if isinstance(k, int)))
    imm = a.get('imm', None)
    if imm is None: imms = '-'
    elif isinstance(imm, moduint): imms = '%d:%d' % (imm.size, int(imm.arg) % (1 << imm.size))
    else: imms = 'raw:%r' % (imm,)
    extra = [k for k in a if not isinstance(k, int) and k not in ('ad', 'size', 'imm', 'segm', 'txt')]
    return 'ad=%s size=%s regs=%s imm=%s segm=%s txt=%s%s' % (ad, size, regs, imms, a.get('segm', '-'), a.get('txt', ''), (' EXTRA=%r' % extra) if extra else '')
def struct_dump(i):
    return '%d|%s|%s|%s|%s|%s' % (i.l, ','.join(str(p) for p in i.prefix), i.m.name, i.opmode, i.admode, ' ; '.join(show_arg(a) for a in i.arg))
def one(l):
    t = l.split()
    if t[0] == 'r':
        b = binascii.unhexlify(t[1]); i = x86mnemo.dis(b)
        if i is None: return 'None'
        out = []
        for fmt in ('intel_syntax noprefix', 'att_syntax'):
            try: out.append(i.__str__(asm_format=fmt))
            except Exception as e: out.append('CRASH %s' % type(e).__name__)
        return ' || '.join(out)
    if t[0] in ('f', 's', 'f16'):
        off = int(t[1]); b = binascii.unhexlify(t[2])
        class S(bin_stream.__class__): pass
        bs = bin_stream(b'\x90' * (off % 64) + b)
        bs.offset = off % 64
        i = x86mnemo.dis(bs, {'opmode': X.u16}) if t[0] == 'f16' else x86mnemo.dis(bs)      # f16: a 16-bit code segment, selected by 'opmode' alone
        if i is None: return 'None'
        if t[0] == 's':
            return '%d|%d|%d|%s' % (i.l, i.offset, bs.offset, binascii.hexlify(i.b).decode())
        i.offset = off      # the instruction's address (any value up to 2^32-1)
        def flag(v): return {None: '-', True: 'T', False: 'F'}.get(v, repr(v))
        try:
            d = i.getdstflow() if i.dstflow() else None
            if d is None: ds = '-'
            else: ds = ','.join((str(int(x)) if not isinstance(x, dict) else 'arg') for x in d)
        except Exception as e: ds = 'CRASH %s' % type(e).__name__
        if t[0] == 'f16': return '%s|%s|%s|%s|%d|%s|%d' % (i.m.name, flag(i.breakflow()), flag(i.splitflow()), flag(i.dstflow()), i.getnextflow(), ds, i.l)
        return '%s|%s|%s|%s|%d|%s' % (i.m.name, flag(i.breakflow()), flag(i.splitflow()), flag(i.dstflow()), i.getnextflow(), ds)
    b = binascii.unhexlify(t[0]); i = x86mnemo.dis(b)
    if i is None: return 'None'
    if i.b != b[:i.l]: return 'BADRAW %s' % binascii.hexlify(i.b).decode()
    return struct_dump(i)
out = []
for l in sys.stdin:
    l = l.strip()
    if not l: continue
    try: out.append(one(l))
    except Exception as e: out.append('CRASH %s' % type(e).__name__)
sys.stdout.write('\n'.join(out) + '\n')
