"""C13 — simplifier output is canonical: idempotent, order-insensitive, seed-independent (tie H: Simp.v)."""
import os, sys, json
from common import *
import exprlib as X
import exprcheck as XC
import simpgen

def gen(chk):
    rng = chk.rng
    groups = []     # each group: list of trees that differ only by order/nesting of + * ^ & | operands
    g = X.Gen(rng, ops_extra=[('fadd', 2)], signed_ints=False)
    n = 1500 if chk.tier == 'quick' else 6000
    for tag, t in simpgen.families():
        groups.append((tag, [t] + [X.permute_assoc(t, rng) for _ in range(2)]))
    for i in range(n):
        w = rng.choice(X.WIDTHS); depth = rng.choice([2, 2, 3, 3, 4, 4, 5])
        t = g.expr(w, depth)
        groups.append(('rand', [t] + [X.permute_assoc(t, rng) for _ in range(3)]))
    # sums / products of several distinct atoms: many orders
    atoms = [g.ident(8), ('D', 'b8', 8, 0, 0), ('D', 'c8', 8, 0, 0), ('I', 0, 8, 3), ('O', '-', [('D', 'al', 8, 1, 0)]), ('S', ('D', 'x32', 32, 0, 0), 0, 8),
             ('M', 8, ('D', 'eax', 32, 1, 0), None), ('O', '*', [('D', 'b8', 8, 0, 0), ('D', 'c8', 8, 0, 0)]), ('C', ('D', 'zf', 1, 1, 0), ('D', 'b8', 8, 0, 0), ('D', 'c8', 8, 0, 0))]
    for i in range(n // 5):
        op = rng.choice(X.ASSOC)
        k = rng.choice([3, 4, 5])
        args = [rng.choice(atoms) for _ in range(k)]
        t = ('O', op, args)
        groups.append(('multiset', [t] + [X.permute_assoc(t, rng) for _ in range(4)]))
    # deep twins: operands that are identical for many nesting levels and differ only in a leaf far down
    # (the sort key has to be compared all the way down; a truncated or hashed key would show here)
    regs = [('D', nme, 32, 1, 0) for nme in ('eax', 'ebx', 'ecx', 'edx', 'esi', 'edi', 'x32', 'y32')]
    def chain(v, k, kind):
        for j in range(k):
            if kind == 0: v = ('O', '^', [('O', '*', [('O', '+', [v, ('I', 0, 32, 1)]), ('I', 0, 32, 3)]), ('I', 0, 32, 5)])
            elif kind == 1: v = ('M', 32, ('O', '+', [v, ('I', 0, 32, 4)]), None)
            elif kind == 2: v = ('C', ('D', 'zf', 1, 1, 0), ('O', '-', [v]), ('O', '!', [v]))
            else: v = ('K', [(('S', v, 0, 16), 0, 16), (('S', ('O', '!', [v]), 16, 32), 16, 32)])
        return v
    for i in range(n // 10 + 24):
        kind = i % 4; k = rng.choice([3, 4, 5, 6, 8])
        m = rng.choice([2, 3, 4, 6])
        args = [chain(r, k, kind) for r in rng.sample(regs, m)]
        t = ('O', rng.choice(['+', '&', '|', '^', '*']), args)
        groups.append(('deeptwins', [t] + [X.permute_assoc(t, rng) for _ in range(3)]))
    # segment twins: memory cells with the same address and width that differ only by their segment selector (or have none)
    segs = [('D', sname, 16, 1, 0) for sname in ('es', 'cs', 'ss', 'ds', 'fs', 'gs')]
    for i in range(n // 50 + 24):
        addr = rng.choice(regs + [('O', '+', [regs[i % len(regs)], ('I', 0, 32, 8)])])
        w = rng.choice([8, 16, 32]); m = rng.choice([2, 3, 4])
        cells = [('M', w, addr, sg) for sg in rng.sample(segs + [None], m)]
        if rng.random() < 0.5: cells.append(('D', 'a%d' % w, w, 0, 0))
        t = ('O', rng.choice(['+', '&', '|', '^', '*']), cells)
        groups.append(('segtwins', [t] + [X.permute_assoc(t, rng) for _ in range(3)]))
    return groups

def run(tier):
    chk = Check('C13', tier)
    if not chk.prove():
        chk.violation('proof obligations of props/C13.v no longer check', chk.broken_summary(), found_input=False)
    try: build_model()
    except BuildBroken as e:
        chk.violation('extracted model does not build: ' + e.what, dict(log_tail=e.log[-3000:]), found_input=False)
        return chk.finish()
    groups = gen(chk)
    lines = []; owner = []
    for gi, (tag, ts) in enumerate(groups):
        seen = set()
        for t in ts:
            s = X.t2s(t)
            if s in seen: continue
            seen.add(s)
            lines.append('(simp %s)' % s); owner.append(gi)
            lines.append('(simp2 %s)' % s); owner.append(gi)
    lines = XC.load_corpus('C13') + lines; owner = [-1] * (len(lines) - len(owner)) + owner
    chk.log('cases: %d in %d groups' % (len(lines), len(groups)))
    seeds = ['0', '1', '2'] if tier == 'quick' else [str(i) for i in range(8)]
    model = run_model('simp', lines)
    impls = {s: run_impl('impl_simp.py', lines, hashseed=s) for s in seeds}
    impl = impls[seeds[0]]
    chk.cov['evaluations'] = len(lines) * len(seeds); chk.cov['traces_validated_against_impl'] = len(lines) * len(seeds)
    chk.cov['hash_seeds'] = seeds
    kf = {k['key']: k for k in chk.known_findings()}
    # (1) model == impl exactly (ties the theorems about Simp.v to the code), under every hash seed
    mism = {}
    for sd in seeds:
        for k, (l, m, i) in enumerate(zip(lines, model, impls[sd])):
            if m != i: mism.setdefault(k, sd)
    corr_broken = None
    if mism:
        ks = sorted(mism, key=lambda k: len(lines[k]))
        seeddep = [k for k in ks if len(set(impls[sd][k] for sd in seeds)) > 1]
        crash = [k for k in ks if impls[mism[k]][k].startswith('X ')]
        if seeddep:
            k = seeddep[0]; outs = {sd: impls[sd][k] for sd in seeds}
            a, b = [sd for sd in seeds if outs[sd] != outs[seeds[0]]][0], seeds[0]
            chk.violation('expr_simp depends on PYTHONHASHSEED (%d cases): %s gives %s under seed %s and %s under seed %s' % (len(seeddep), lines[k][:300], outs[a][:200], a, outs[b][:200], b),
                          dict(case=lines[k], seed_a=a, out_a=outs[a], seed_b=b, out_b=outs[b], count=len(seeddep)))
        if crash:
            k = crash[0]
            chk.violation('expr_simp fails internally on %s: %s (model: %s); %d such cases' % (lines[k][:300], impls[mism[k]][k], model[k][:200], len(crash)),
                          dict(case=lines[k], impl=impls[mism[k]][k], model=model[k], count=len(crash)))
        if not seeddep and not crash:
            corr_broken = (ks[0], len(ks))
    # (2) idempotence and order-insensitivity evaluated on the implementation's own answers
    nontriv = set(); bad_idem = []; bad_order = {}
    bygroup = {}
    pos = {}
    for k, l in enumerate(lines): pos.setdefault(l, k)
    for l, i, gi in zip(lines, impl, owner):
        if l.startswith('(simp2'):
            k1 = pos.get('(simp ' + l[7:])
            first = impl[k1] if k1 is not None else None
            if first is not None and first != i and not i.startswith(('E ', 'X ')): bad_idem.append((l, first, i))
        elif gi >= 0:
            bygroup.setdefault(gi, []).append((l, i))
    for gi, items in bygroup.items():
        outs = set(o for _, o in items)
        if len(items) > 1: nontriv.add(items[0][0])
        if len(outs) > 1: bad_order[gi] = items
    chk.cov['distinct_nontrivial'] = len(nontriv)
    chk.cov['groups'] = len(groups); chk.cov['order_sensitive_groups'] = len(bad_order); chk.cov['non_idempotent'] = len(bad_idem)
    chk.cov['rule'] = ('groups of expressions differing only by permutation / re-association of + * ^ & | operands (rule families, typed random trees, multisets of 3-5 atoms); '
                       'each member is simplified once and twice (fresh copy) under every listed PYTHONHASHSEED; compared: exact trees against the model, across seeds, first vs second pass, '
                       'and across the members of a group. Non-trivial = group with more than one distinct spelling')
    chk.cov['samples'] = [dict(case=l[:300], model=m[:200], impl=i[:200]) for l, m, i in list(zip(lines, model, impl))[::max(1, len(lines) // 6)][:6]]
    for l, first, second in bad_idem[:3]:
        chk.violation('expr_simp is not idempotent: %s -> %s -> %s' % (l[7:-1][:300], first[:200], second[:200]), dict(case=l, first=first, second=second))
    # order sensitivity: classify against known findings
    reported = 0
    for gi, items in sorted(bad_order.items(), key=lambda kv: sum(len(x[0]) for x in kv[1])):
        key = classify_order(items)
        if key in kf:
            if key not in chk.known: chk.report_known(key, kf[key]['what'])
            continue
        if reported < 3:
            reported += 1
            a, b = items[0], [x for x in items if x[1] != items[0][1]][0]
            chk.violation('order of commutative operands changes the simplified form: %s -> %s but %s -> %s' % (a[0][6:-1][:250], a[1][:200], b[0][6:-1][:250], b[1][:200]),
                          dict(case=a[0], other=b[0], out=a[1], other_out=b[1], family=groups[gi][0]))
    if corr_broken and not chk.violations:
        k, cnt = corr_broken
        chk.violation('correspondence Simp.v vs expr_simp broken (%d cases), e.g. %s: model %s impl %s; idempotence, order- and seed-independence hold on every case explored' % (cnt, lines[k][:300], model[k][:200], impl[k][:200]),
                      dict(correspondence='Simp.v/simp vs expr_simp', case=lines[k], model=model[k], impl=impl[k], count=cnt), found_input=False)
    return chk.finish(assumptions=['Simp.v is a hand transcription of expression_helper.py tied by exact-output correspondence on the cases counted here',
                                   'cross-process behaviour (hash seeds) is exercised by running the implementation under each listed PYTHONHASHSEED; the model has no hash-order input at all'])

def classify_order(items):
    return 'order:unclassified'

def replay(path):
    r = json.load(open(path))
    if 'case' not in r: print('replay names a broken obligation:', r.get('what')); return 1
    ls = [r['case']] + ([r['other']] if 'other' in r else [])
    out = run_impl('impl_simp.py', ls, shards=1)
    print(list(zip(ls, out)))
    return 1 if len(set(out)) > 1 else 0
