"""C17 — control-flow metadata agrees with the instruction's architectural behaviour (tie D: tables; tie H: flow methods)."""
import os, sys, json, struct
from common import *
import dump_x86, x86gen

OFFSETS = [0, 1, 0x1000, 0xfff0, 0xffff, 0x10000, 0x7fffffff, 0x80000000, 0x80000001] + [2**32 - k for k in (16, 8, 6, 5, 4, 3, 2, 1)]
def branch_forms():
    """(hex of opcode part, displacement bytes) for every direct relative branch family"""
    forms = []
    for cc in range(16): forms.append(('%02x' % (0x70 + cc), 1)); forms.append(('0f%02x' % (0x80 + cc), 4))
    forms += [('eb', 1), ('e9', 4), ('e8', 4), ('e0', 1), ('e1', 1), ('e2', 1), ('e3', 1)]
    return forms
def disp_values(n):
    if n == 1: return [0, 1, 5, 0x7e, 0x7f, 0x80, 0x81, 0xfe, 0xff]
    return [0, 1, 0x7f, 0x80, 0xff, 0x100, 0x7fff, 0x8000, 0xffff, 0x10000, 0x7fffffff, 0x80000000, 0x80000001, 0xfffffffb, 0xfffffffe, 0xffffffff]

def gen(chk, d):
    rng = chk.rng
    lines = []
    prefixes = ['', '66', '67', '3e', '2e', 'f2', 'f3', '6667', '6766']
    for op, n in branch_forms():
        for pf in prefixes:
            for dv in disp_values(n):
                for nn in ([n] if pf not in ('66', '6667', '6766', '67') else [n, 2 if n == 4 else n]):
                    db = dv.to_bytes(4, 'little')[:nn].hex() if dv < 2 ** (8 * nn) else None
                    if db is None: continue
                    offs = OFFSETS if chk.tier == 'thorough' or pf in ('', '67', '66') else OFFSETS[:3] + OFFSETS[-3:]
                    for off in offs:
                        lines.append('f %d %s%s%s' % (off, pf, op, db))
    # non-relative and non-branch families: every software interrupt vector, returns, far/indirect forms, hlt, ud2, sys*
    for v in range(256):
        lines.append('f 4096 cd%02x' % v)
        for pf in ('66', 'f3'): lines.append('f 4096 %scd%02x' % (pf, v))
    for h in ['cc', 'ce', 'c3', 'c2ffff', 'cb', 'ca0800', 'cf', 'f4', '0f0b', '0f05', '0f34', '0f35', '0f07', 'ffe0', 'ff20', 'ffd0', 'ff10', 'ff28', 'ff18', 'ea785634121000', '9a785634121000',
              'e800000000', 'f390', '90', 'a4', 'f3a4', 'f3a6', 'd8c1', '0f1f00', '0fa2', 'cd80', 'f1', '0f01d0']:
        for pf in ['', '66', '67', 'f3', 'f2', '3e', '64', '6667', 'f366', '66f3']:
            for off in (0, 4096, 2**32 - 2):
                lines.append('f %d %s%s' % (off, pf, h))
    # every opcode of the control space once (flags only)
    ctl = list(x86gen.control_strings(d, rng, 'quick'))
    rng.shuffle(ctl)
    for h in ctl[:40000 if chk.tier == 'quick' else 400000]:
        lines.append('f %d %s' % (rng.choice(OFFSETS), h))
    return lines

def arch_check(line, out):
    """direct statement of C17 on the implementation's answer; None when the property holds or says nothing"""
    if out in ('None',) or out.startswith('CRASH'): return None if out == 'None' else 'flow query raises'
    t = line.split(); off = int(t[1]); b = bytes.fromhex(t[2])
    name, bk, sp, dt, nxt, dst = out.split('|')
    # strip prefixes
    i = 0; pf = []
    while i < len(b) and b[i] in (0xf0, 0xf2, 0xf3, 0x2e, 0x36, 0x3e, 0x26, 0x64, 0x65, 0x66, 0x67): pf.append(b[i]); i += 1
    op = b[i:]
    if not op: return None
    excluded = op[:2] in (b'\x0f\x05', b'\x0f\x34', b'\x0f\x35', b'\x0f\x07')
    if excluded: return None
    cond = (0x70 <= op[0] <= 0x7f) or (op[0] == 0x0f and len(op) > 1 and 0x80 <= op[1] <= 0x8f) or op[0] in (0xe0, 0xe1, 0xe2, 0xe3, 0xe8, 0x9a) or (op[0] == 0xff and len(op) > 1 and ((op[1] >> 3) & 7) in (2, 3))
    unc = op[0] in (0xeb, 0xe9, 0xea, 0xc3, 0xc2, 0xcb, 0xca, 0xcf, 0xf4) or op[:2] == b'\x0f\x0b' or (op[0] == 0xff and len(op) > 1 and ((op[1] >> 3) & 7) in (4, 5))
    if cond and not (bk == 'T' and sp == 'T' and dt == 'T'): return 'conditional jump / loop / call must be block-ending with fall-through and destination, got %s%s%s' % (bk, sp, dt)
    if unc and not (bk == 'T' and sp != 'T'): return 'jmp / ret / iret / hlt / ud2 must be block-ending without fall-through, got %s%s%s' % (bk, sp, dt)
    if not cond and not unc and bk == 'T': return 'an instruction that always continues at the next address is reported block-ending'
    # relative destination
    rel = None
    if 0x70 <= op[0] <= 0x7f or op[0] in (0xeb, 0xe0, 0xe1, 0xe2, 0xe3): rel = (1, 1)
    elif op[0] in (0xe8, 0xe9): rel = (1, None)
    elif op[0] == 0x0f and len(op) > 1 and 0x80 <= op[1] <= 0x8f: rel = (2, None)
    if rel and dst not in ('-', 'arg') and not dst.startswith('CRASH'):
        opsz = 16 if 0x66 in pf else 32
        n = rel[1] if rel[1] else (2 if opsz == 16 else 4)
        if len(op) < rel[0] + n: return None
        disp = int.from_bytes(op[rel[0]:rel[0] + n], 'little', signed=True)
        L = len(pf) + rel[0] + n
        want = (off + L + disp) % (1 << opsz)
        if int(nxt) != off + L: return None       # decoded with another length: a decode question (C01), not flow
        if int(dst) != want: return 'destination %d, architectural target (offset + length + displacement mod 2^%d) is %d' % (int(dst), opsz, want)
    return None

def run(tier):
    chk = Check('C17', tier)
    try: d = dump_x86.generate()
    except Exception as e:
        chk.violation('dump of the x86 tables failed: %s' % str(e)[:300], dict(dump='harness/dump_x86.py', error=str(e)[:2000]), found_input=False)
        return chk.finish()
    proved = chk.prove(['gen/X86Tables.vo'])
    if not proved:
        # a broken table obligation: look for the offending row and a byte string that reaches it
        bs = chk.broken_summary()
        w = find_flow_witness(d)
        if w: chk.violation('the opcode table no longer satisfies the architectural flow classification: %s' % w['why'], dict(bs, **w))
        else: chk.violation('proof obligations of props/C17.v no longer check', bs, found_input=False)
    try: build_model()
    except BuildBroken as e:
        chk.violation('extracted model does not build: ' + e.what, dict(log_tail=e.log[-3000:]), found_input=False)
        return chk.finish()
    lines = gen(chk, d)
    chk.log('flow queries: %d' % len(lines))
    model = run_model('x86dis', lines); impl = run_impl('impl_x86dis.py', lines)
    chk.cov['evaluations'] = len(lines); chk.cov['traces_validated_against_impl'] = len(lines)
    chk.cov['distinct_nontrivial'] = len(set(l for l, m in zip(lines, model) if '|T|' in m))
    chk.cov['rule'] = ('flow queries "offset bytes": every direct relative branch family (jcc rel8/rel32, jmp, call, loop*, jecxz) x 9 prefix sets x boundary displacements x 17 offsets incl. 2^32-16..2^32-1; '
                       'all 256 software-interrupt vectors; returns, far and indirect forms, hlt, ud2, sys* under 10 prefix sets; a sample of the whole opcode control space (flags only); the direct relative branch families decoded as 16-bit code (attrib opmode = u16) x boundary displacements x 3 offsets, against the architectural length / fall-through / destination. '
                       'Non-trivial = query on a block-ending instruction')
    chk.cov['samples'] = [dict(query=l, model=m, impl=i) for l, m, i in list(zip(lines, model, impl))[::max(1, len(lines) // 6)][:6]]
    kf = {k['key']: k for k in chk.known_findings()}
    # architectural statement on every implementation answer
    bad = {}
    for l, i in zip(lines, impl):
        why = arch_check(l, i)
        if why: bad.setdefault(classify(l), []).append((l, i, why))
    for cl, items in sorted(bad.items()):
        key = 'flow:' + cl
        items.sort(key=lambda x: (len(x[0]), x[0]))
        if key in kf: chk.report_known(key, kf[key]['what'] + ' (%d queries in this run)' % len(items)); continue
        l, i, why = items[0]
        chk.violation('flow metadata of "%s" is %s: %s; %d queries of class %s' % (l, i, why, len(items), cl), dict(case=l, impl=i, why=why, count=len(items), key=key))
    # 16-bit code segment (attrib {'opmode': u16}): direct relative branches with rel16 / rel8 displacements at boundary values; the
    # architectural answer is computed here: length, fall-through = offset + length, destination = offset + length + sext(disp) mod 2^16
    def sx(v, n): return v - (1 << n) if v >> (n - 1) else v
    q16 = []
    for off in (16, 0x7ff0, 0xfff0):
        for dv in (0x0000, 0x0020, 0x7fff, 0x8000, 0xfffc, 0xffff):
            lo = '%02x%02x' % (dv & 255, dv >> 8)
            for h, kind in [('e8' + lo, 'call'), ('e9' + lo, 'jmp')] + [('0f%02x' % o + lo, 'jcc') for o in range(0x80, 0x90)]:
                q16.append((off, h, len(h) // 2, sx(dv, 16), kind))
        for dv in (0x00, 0x20, 0x7f, 0x80, 0xfe, 0xff):
            for h, kind in [('eb%02x' % dv, 'jmp')] + [('%02x%02x' % (o, dv), 'jcc') for o in list(range(0x70, 0x80)) + [0xe0, 0xe1, 0xe2, 0xe3]]:
                q16.append((off, h, 2, sx(dv, 8), kind))
    out16 = run_impl('impl_x86dis.py', ['f16 %d %s9090909090' % (off, h) for off, h, L, dv, kind in q16])
    bad16 = {}
    for (off, h, L, dv, kind), o in zip(q16, out16):
        f = o.split('|'); exp = (off + L + dv) & 0xffff
        why = None
        if len(f) != 7: why = 'no flow answer (%s)' % o
        elif int(f[6]) != L or int(f[4]) != off + L: why = 'length %s, fall-through %s; architecturally %d and %d' % (f[6], f[4], L, off + L)
        elif f[5] != str(exp): why = 'destination %s; architecturally %d' % (f[5], exp)
        elif f[1] != 'T' or f[3] != 'T' or (f[2] == 'T') != (kind != 'jmp'): why = 'flags bkf/spf/dtf = %s/%s/%s' % (f[1], f[2], f[3])      # spf of a jmp: False or unset
        if why: bad16.setdefault('flow16:%s:%s' % (kind, 'rel8' if L == 2 else 'rel16'), []).append(('f16 %d %s' % (off, h), o, why))
    chk.cov['queries_16bit_mode'] = len(q16); chk.cov['evaluations'] += len(q16)
    for key, items in sorted(bad16.items()):
        if key in kf: chk.report_known(key, kf[key]['what'] + ' (%d queries in this run)' % len(items)); continue
        l, i, why = items[0]
        chk.violation('flow metadata of "%s" decoded as 16-bit code is %s: %s; %d queries of class %s' % (l, i, why, len(items), key), dict(case=l, impl=i, why=why, count=len(items), key=key))
    mism = [(l, m, i) for l, m, i in zip(lines, model, impl) if m != i and not any(l == x[0] for v in bad.values() for x in v)]
    if mism and not chk.violations:
        l, m, i = sorted(mism, key=lambda x: (len(x[0]), x[0]))[0]
        chk.violation('correspondence X86Dis.v flow model vs breakflow/splitflow/dstflow/getnextflow/getdstflow broken on %d queries, e.g. "%s": model %s, impl %s' % (len(mism), l, m, i),
                      dict(correspondence='X86Dis.v/flow_flags,getdstflow vs x86_mn flow methods', case=l, model=m, impl=i, count=len(mism)), found_input=False)
    return chk.finish(assumptions=['opcode table dumped from the running library on every run (tie D); flow methods modelled in X86Dis.v (tie H)',
                                   'flow_spec (which mnemonics are conditional / unconditional / excluded) is a hand-written specification from the Intel SDM'])

def classify(l):
    b = bytes.fromhex(l.split()[2]); i = 0; pf = []
    while i < len(b) and b[i] in (0xf0, 0xf2, 0xf3, 0x2e, 0x36, 0x3e, 0x26, 0x64, 0x65, 0x66, 0x67): pf.append(b[i]); i += 1
    op = b[i:i + 2] if b[i:i + 1] == b'\x0f' else b[i:i + 1]
    o = op.hex()
    if len(op) == 1 and 0x70 <= op[0] <= 0x7f: o = '7x'
    if len(op) == 2 and 0x80 <= op[1] <= 0x8f: o = '0f8x'
    return '%s:%s' % (''.join('%02x' % p for p in sorted(set(pf) & {0x66, 0x67})), o)

def find_flow_witness(d):
    """search the dumped table for a row violating the classification and build bytes reaching it"""
    JCC = set('jo jno jb jnae jc jnb jae jnc jz je jnz jne jbe jna ja jnbe js jns jp jpe jnp jpo jl jnge jnl jge jle jng jnle jg jcxz jecxz loop loope loopz loopne loopnz call callf'.split())
    UNC = set('jmp jmpf ret retf hlt ud2'.split()); EXC = set('syscall sysenter sysexit sysret'.split())
    for k, m in enumerate(d['mnemos']):
        bk, sp, dt = m['mods'][11], m['mods'][12], m['mods'][13]
        n = m['name']
        if n in EXC: continue
        if n in JCC: ok = (bk, sp, dt) == (1, 1, 1)
        elif n in UNC or n.startswith('iret'): ok = bk == 1 and sp != 1
        else: ok = bk != 1
        if not ok:
            h = ''.join('%02x' % b for b in m['opc']) + '0102030405060708'
            out = run_impl('impl_x86dis.py', ['f 4096 ' + h], shards=1)[0]
            return dict(case='f 4096 ' + h, impl=out, why='mnemonic %r has flags bkf/spf/dtf = %s/%s/%s' % (n, bk, sp, dt))
    return None

def replay(path):
    r = json.load(open(path))
    if 'case' not in r: print('replay names a broken obligation:', r.get('what')); return 1
    out = run_impl('impl_x86dis.py', [r['case']], shards=1)[0]
    why = arch_check(r['case'], out)
    print('case', r['case'], '\nimpl', out, '\nproperty:', why or 'holds')
    return 1 if why else 0
