"""C02 — x86 assembler candidates encode exactly the requested instruction."""
import json, re
from common import *
import asmcheck, objref
from p_c01 import compare as cmp_text, BRANCH

R8 = set('al cl dl bl ah ch dh bh'.split()); R16 = set('ax cx dx bx sp bp si di'.split()); R32 = set('eax ecx edx ebx esp ebp esi edi'.split())
def opwidth(ops):
    for o in ops:
        if o[0] == 'reg':
            if o[1] in R8: return 8
            if o[1] in R16: return 16
            if o[1] in R32: return 32
    for o in ops:
        if o[0] == 'mem' and o[1] in (8, 16, 32): return o[1]
    return 32

NUM = r'-?(?:0x[0-9a-fA-F]+|\d+)'
def boundary_variants(x):
    """Intel line with its immediate (last plain numeric operand) or displacement (number inside brackets) replaced by boundary values.
    -> list of (line, kind, value)"""
    it = x['intel']; out = []
    head, sep, ops = it.partition(' ')
    if not ops.strip(): return out
    parts = asmcheck.objref.split_ops(ops)
    # immediate: last operand that is a bare number
    if parts and re.match(r'^\s*' + NUM + r'\s*$', parts[-1]) and not BRANCH.match(asmcheck.mnem_class(x['ref'])):
        for v in asmcheck.BOUNDARY:
            out.append(('%s %s' % (head, ', '.join(parts[:-1] + [str(v)])), 'imm', v))
    # displacement: [...+N] or [...-N]
    for k, p in enumerate(parts):
        m = re.search(r'\[([^\]]*?)([+-])\s*(0x[0-9a-fA-F]+|\d+)\s*\]', p)
        if m and re.search(r'[a-z]', m.group(1)):
            for v in asmcheck.BOUNDARY:
                q = p[:m.start()] + '[' + m.group(1) + ('+%d' % v if v >= 0 else '%d' % v) + ']' + p[m.end():]
                out.append(('%s %s' % (head, ', '.join(parts[:k] + [q] + parts[k + 1:])), 'disp', v))
            break
    return out

def run(tier):
    chk = Check('C02', tier)
    asmcheck.prove_codec(chk)
    ntie = asmcheck.codec_tie(chk)
    ctx = asmcheck.Ctx(chk, tier)
    bad = {}
    def note(key, case, detail): bad.setdefault(key, []).append((case, detail))
    # S1: both renderings; S2: boundary values on one base string per (mnemonic, feature) class
    lines = []       # (syntax, text, base, kind, value)
    for x in ctx.base:
        lines.append(('i', x['intel'], x, None, None)); lines.append(('a', x['att'], x, None, None))
    seen = set()
    for x in ctx.base:
        k = (x['name'], asmcheck.features(x))
        if k in seen: continue
        bv = boundary_variants(x)
        if bv: seen.add(k)
        for (t, kind, v) in bv: lines.append(('i', t, x, kind, v))
    hist = []
    res = ctx.asm([(s, t) for s, t, _, _, _ in lines], history=hist)
    for t, a, b in hist[:50]:
        note('cand:history-dependent', t, 'asm(%r) returns %s when the lines are assembled in one order and %s in the reverse order (same process): the result depends on earlier calls' % (t, a[:80], b[:80]))
    # all candidates -> reference decoder
    cset = sorted(set(c for r in res if not isinstance(r, tuple) for c in r))
    slot = {c: k for k, c in enumerate(cset)}
    ref = ctx.objdump(cset)
    nacc = 0; ncand = 0
    # reference assembler on the accepted boundary lines
    import gas
    s2 = sorted(set(t for (syn, t, x, kind, v), r in zip(lines, res) if kind is not None and not isinstance(r, tuple) and r))
    gasref = dict(zip(s2, gas.assemble(s2, 'intel', chk.work, 'c02')))
    for (syn, text, x, kind, v), r in zip(lines, res):
        if isinstance(r, tuple) or not r: continue
        nacc += 1
        intel_line = text if syn == 'i' else x['intel']
        tag = 'S1-' + ('intel' if syn == 'i' else 'att') if kind is None else 'S2-' + kind
        for c in r:
            ncand += 1
            rf = ref[slot[c]]
            if rf is None or '(bad)' in rf[1] or rf[1].startswith('.byte'):
                note(asmcheck.klass('cand:%s:not-an-instruction' % tag, x), c, 'candidate %s of %r is not an instruction for the reference decoder (%s)' % (c, text, rf)); continue
            if rf[0] != len(c) // 2:
                note(asmcheck.klass('cand:%s:length' % tag, x), c, 'candidate %s of %r: the reference decoder reads %d of %d bytes (%s)' % (c, text, rf[0], len(c) // 2, rf[1])); continue
            d = cmp_text(c, slot[c] * objref.SLOT, len(c) // 2, intel_line, rf)
            if d == 'skip': continue
            if d is not None:
                note(asmcheck.klass('cand:%s:%s' % (tag, re.sub(r'\d+$', '', d[0])), x), c, 'candidate %s of %r is %r for the reference decoder: %s' % (c, text, rf[1], d[1][:200])); continue
            if kind is not None and gasref.get(text) is not None:
                g = gasref[text]
                if g[0] == 'ok':
                    try: same = objref.norm_text(g[2])[1:] == objref.norm_text(rf[1])[1:]
                    except Exception: same = g[2].split() == rf[1].split()
                    if not same and not BRANCH.match(objref.norm_text(rf[1])[1]):
                        note(asmcheck.klass('cand:S2-%s:value-differs-from-reference-assembler' % kind, x), c, 'candidate %s of %r is %r; GNU as encodes the line as %s = %r' % (c, text, rf[1], g[1], g[2]))
                elif re.search(r'shortened|out of range|overflow|too large|does not fit', g[1]):
                    note(asmcheck.klass('cand:S2-%s:value-does-not-fit' % kind, x), c, 'candidate %s = %r returned for %r although the value %d does not fit the form (GNU as: %s)' % (c, rf[1], text, v, g[1][:100]))
    # S3: relative branches with a numeric operand — the number is the displacement; every candidate's displacement, read by the reference
    # decoder from the candidate's own bytes, must be the written number modulo 2^32 (2^16 under the 66 prefix)
    JCC = ['jo', 'jno', 'jb', 'jae', 'je', 'jne', 'jbe', 'ja', 'js', 'jns', 'jp', 'jnp', 'jl', 'jge', 'jle', 'jg']
    br_lines = [('i', '%s %d' % (mn, v)) for mn in ['jmp', 'call', 'loop', 'loope', 'loopne', 'jecxz'] + JCC for v in asmcheck.BOUNDARY]
    br_res = ctx.asm(br_lines)
    br_c = sorted(set(c for r in br_res if not isinstance(r, tuple) for c in r))
    br_slot = {c: k for k, c in enumerate(br_c)}
    br_ref = ctx.objdump(br_c) if br_c else []
    nbr = 0
    for (syn, text), r in zip(br_lines, br_res):
        if isinstance(r, tuple) or not r: continue
        mn, v = text.split(); v = int(v)
        for c in r:
            nbr += 1
            rf = br_ref[br_slot[c]]
            key = 'cand:S3-rel:%s' % ('jcc' if mn in JCC else mn)
            if rf is None or '(bad)' in rf[1] or rf[0] != len(c) // 2:
                note(key + ':not-one-instruction', c, 'candidate %s of %r: the reference decoder reads %s' % (c, text, rf)); continue
            m = re.search(r'0x([0-9a-f]+)\s*$', rf[1]) or re.search(r'\b([0-9a-f]+)\s*(<[^>]*>)?\s*$', rf[1])
            if not m:
                note(key + ':no-target', c, 'candidate %s of %r decodes as %r: no branch target' % (c, text, rf[1])); continue
            target = int(m.group(1), 16); addr = br_slot[c] * objref.SLOT
            mod = 1 << 16 if c.startswith('66') else 1 << 32
            rel = (target - (addr + rf[0])) % mod
            if rel != v % mod:
                note(key + ':displacement', c, 'candidate %s of %r is %r at 0x%x for the reference decoder: displacement %d (mod 2^%d), the line says %d' % (c, text, rf[1], addr, rel if rel < mod // 2 else rel - mod, mod.bit_length() - 1, v))
    chk.cov['relative_branch_candidates'] = nbr
    chk.cov['evaluations'] = len(lines) + ncand + nbr; chk.cov['lines'] = len(lines); chk.cov['accepted_lines'] = nacc; chk.cov['candidates_checked'] = ncand; chk.cov['distinct_candidates'] = len(cset)
    chk.cov['distinct_nontrivial'] = nacc; chk.cov['traces_validated_against_impl'] = len(lines)
    chk.cov['codec_correspondence_cases'] = ntie
    asmcheck.report(chk, bad)
    chk.cov['rule'] = ('S1: Intel and AT&T renderings of the usable base strings (see C03); S2: one base string per (mnemonic, feature) class with its immediate / displacement replaced by '
                       '-129,-128,-1,0,1,127,128,255,256,32767,32768,65535,2^31-1,2^31,2^32-1; S3: jmp / call / jcc / loop* / jecxz with those numbers as displacement — the displacement the reference decoder reads from each candidate must be the written number modulo 2^32. Every candidate of every accepted line is decoded by GNU objdump: one instruction of the full length, '
                       'same mnemonic/operands/sizes as the line (normalised text comparison of C01), and for S2 GNU as is the oracle of the written value: a line it rejects or warns on as shortened / out of range must have no candidates, otherwise every candidate must decode to the text its encoding decodes to. Non-trivial = accepted line')
    chk.cov['samples'] = [dict(line=t, syntax=s) for s, t, _, _, _ in lines[::max(1, len(lines) // 5)][:5]]
    return chk.finish(assumptions=['GNU objdump 2.40 is the independent reference disassembler; the line of a rendering denotes what the reference decodes from the bytes it was rendered from (C01 excluded strings are not used)'])

def replay(path):
    r = json.load(open(path)); print(r.get('detail', r.get('what'))); return 1
