"""exprlib.py — S-expression codec for miasmX expressions and seeded generators of well-typed trees.
The codec is shared by the harness (which only manipulates text) and by the impl runners (which import
miasmx and build real objects).  Text form, same as coq/extract/sexp.ml:
 (I sg w v) (D name w isreg isterm) (M w addr [segm]) (O op a...) (C c a b) (S e lo hi) (K (e lo hi)...) (A dst src)"""
import random

# ---------------------------------------------------------------- sexp
def parse(s):
    pos = 0; n = len(s)
    def skip():
        nonlocal pos
        while pos < n and s[pos] in ' \t\n': pos += 1
    def one():
        nonlocal pos
        skip()
        if pos >= n: raise ValueError('eof')
        if s[pos] == '(':
            pos += 1; items = []
            skip()
            while pos < n and s[pos] != ')':
                items.append(one()); skip()
            if pos >= n: raise ValueError('unclosed')
            pos += 1
            return items
        st = pos
        while pos < n and s[pos] not in ' ()\t\n': pos += 1
        return s[st:pos]
    r = one(); skip()
    if pos != n: raise ValueError('trailing')
    return r
def show(x):
    if isinstance(x, str): return x
    return '(' + ' '.join(show(i) for i in x) + ')'
def sort_set(text):
    """canonicalise a set-valued answer '(e1 e2 ...)': sort the element texts"""
    if not text.startswith('('): return text
    return '(' + ' '.join(sorted(show(i) for i in parse(text))) + ')'

# ---------------------------------------------------------------- tree form used by the generators: nested tuples
# ('I', sg, w, v) ('D', name, w, isreg, isterm) ('M', w, addr, segm|None) ('O', op, [args]) ('C', c, a, b)
# ('S', e, lo, hi) ('K', [(e, lo, hi)...]) ('A', dst, src)
def t2s(t):
    k = t[0]
    if k == 'I': return '(I %d %d %d)' % (t[1], t[2], t[3])
    if k == 'D': return '(D %s %d %d %d)' % (t[1], t[2], t[3], t[4])
    if k == 'M': return '(M %d %s%s)' % (t[1], t2s(t[2]), '' if t[3] is None else ' ' + t2s(t[3]))
    if k == 'O': return '(O %s%s)' % (t[1], ''.join(' ' + t2s(a) for a in t[2]))
    if k == 'C': return '(C %s %s %s)' % (t2s(t[1]), t2s(t[2]), t2s(t[3]))
    if k == 'S': return '(S %s %d %d)' % (t2s(t[1]), t[2], t[3])
    if k == 'K': return '(K%s)' % ''.join(' (%s %d %d)' % (t2s(e), lo, hi) for e, lo, hi in t[1])
    if k == 'A': return '(A %s %s)' % (t2s(t[1]), t2s(t[2]))
    raise ValueError(k)
def s2t(x):
    if isinstance(x, str): x = parse(x)
    k = x[0]
    if k == 'I': return ('I', int(x[1]), int(x[2]), int(x[3]))
    if k == 'D': return ('D', x[1], int(x[2]), int(x[3]), int(x[4]))
    if k == 'M': return ('M', int(x[1]), s2t(x[2]), s2t(x[3]) if len(x) > 3 else None)
    if k == 'O': return ('O', x[1], [s2t(a) for a in x[2:]])
    if k == 'C': return ('C', s2t(x[1]), s2t(x[2]), s2t(x[3]))
    if k == 'S': return ('S', s2t(x[1]), int(x[2]), int(x[3]))
    if k == 'K': return ('K', [(s2t(e), int(lo), int(hi)) for e, lo, hi in x[1:]])
    if k == 'A': return ('A', s2t(x[1]), s2t(x[2]))
    raise ValueError(k)
def tsize(t):
    k = t[0]
    if k == 'I': return t[2]
    if k == 'D': return t[2]
    if k == 'M': return t[1]
    if k == 'O': return tsize(t[2][0])
    if k == 'C': return tsize(t[2])
    if k == 'S': return t[3] - t[2]
    if k == 'K': return max(h for _, _, h in t[1]) - min(l for _, l, _ in t[1])
    if k == 'A': return tsize(t[1])
def subterms(t, acc=None):
    if acc is None: acc = []
    acc.append(t)
    k = t[0]
    if k == 'M':
        subterms(t[2], acc)
        if t[3] is not None: subterms(t[3], acc)
    elif k == 'O':
        for a in t[2]: subterms(a, acc)
    elif k == 'C':
        for a in t[1:]: subterms(a, acc)
    elif k == 'S': subterms(t[1], acc)
    elif k == 'K':
        for e, _, _ in t[1]: subterms(e, acc)
    elif k == 'A':
        subterms(t[1], acc); subterms(t[2], acc)
    return acc
def tnodes(t): return len(subterms(t))

# ---------------------------------------------------------------- miasmx objects (only in impl runners)
def to_obj(t):
    from miasmx.expression import expression as E
    from miasmx.tools import modint as M
    k = t[0]
    if k == 'I':
        cls = {(0, 1): M.uint1, (0, 8): M.uint8, (0, 16): M.uint16, (0, 32): M.uint32, (0, 64): M.uint64, (0, 128): M.uint128,
               (1, 8): M.int8, (1, 16): M.int16, (1, 32): M.int32, (1, 64): M.int64, (1, 128): M.int128}[(t[1], t[2])]
        return E.ExprInt(cls(t[3]))
    if k == 'D': return E.ExprId(t[1], t[2], is_term=bool(t[4]), is_reg=bool(t[3]))
    if k == 'M': return E.ExprMem(to_obj(t[2]), t[1], None if t[3] is None else to_obj(t[3]))
    if k == 'O': return E.ExprOp(t[1], *[to_obj(a) for a in t[2]])
    if k == 'C': return E.ExprCond(to_obj(t[1]), to_obj(t[2]), to_obj(t[3]))
    if k == 'S': return E.ExprSlice(to_obj(t[1]), t[2], t[3])
    if k == 'K': return E.ExprCompose([(to_obj(e), lo, hi) for e, lo, hi in t[1]])
    if k == 'A':
        a = E.ExprAff.__new__(E.ExprAff); a.dst = to_obj(t[1]); a.src = to_obj(t[2])   # no slice-destination sugar
        return a
    raise ValueError(k)
def from_obj(e):
    from miasmx.expression import expression as E
    from miasmx.tools import modint as M
    c = e.__class__
    if c is E.ExprInt:
        a = e.arg
        return ('I', int(isinstance(a, M.modint)), a.size, int(a.arg))
    if c is E.ExprId: return ('D', e.name, e.size, int(bool(e.is_reg)), int(bool(e.is_term)))
    if c is E.ExprMem: return ('M', e.size, from_obj(e.arg), None if e.segm is None else from_obj(e.segm))
    if c is E.ExprOp: return ('O', e.op, [from_obj(a) for a in e.args])
    if c is E.ExprCond: return ('C', from_obj(e.cond), from_obj(e.src1), from_obj(e.src2))
    if c is E.ExprSlice: return ('S', from_obj(e.arg), e.start, e.stop)
    if c is E.ExprCompose: return ('K', [(from_obj(x[0]), x[1], x[2]) for x in e.args])
    if c is E.ExprAff: return ('A', from_obj(e.dst), from_obj(e.src))
    raise ValueError('unknown node %r' % (c,))
def obj2s(e): return t2s(from_obj(e))
def s2obj(s): return to_obj(s2t(s))

# ---------------------------------------------------------------- generators
WIDTHS = [1, 8, 16, 32, 64]
ASSOC = ['+', '*', '^', '&', '|']
IDS = {1: ['zf', 'cf', 'f1'], 8: ['al', 'b8', 'c8'], 16: ['ax', 'w16', 'v16'], 32: ['eax', 'ebx', 'x32', 'y32'], 64: ['q64', 'p64']}
REGS = {'zf', 'cf', 'al', 'ax', 'eax', 'ebx'}

def consts(w):
    return sorted(set(v % (1 << w) for v in [0, 1, 2, (1 << w) - 1, 1 << (w - 1), (1 << (w - 1)) - 1, 0x10, 3, 0x80, 5]))

class Gen:
    def __init__(self, rng, ops_extra=(), signed_ints=False, allow_mem=True, allow_segm=True, strict_counts=True):
        self.rng = rng; self.ops_extra = list(ops_extra); self.signed_ints = signed_ints
        self.allow_mem = allow_mem; self.allow_segm = allow_segm; self.strict_counts = strict_counts
    def const(self, w):
        r = self.rng
        v = r.choice(consts(w)) if r.random() < 0.7 else r.randrange(1 << w)
        if self.signed_ints and w >= 8 and r.random() < 0.15:
            return ('I', 1, w, v - (1 << w) if v >= (1 << (w - 1)) else v)
        return ('I', 0, w, v)
    def ident(self, w):
        n = self.rng.choice(IDS[w])
        return ('D', n, w, int(n in REGS), 0)
    def leaf(self, w):
        return self.const(w) if self.rng.random() < 0.4 else self.ident(w)
    def count(self, w, depth):
        """shift / rotate count, same width as the value (strict typing); small constants most of the time"""
        r = self.rng
        if r.random() < 0.6: return ('I', 0, w, r.choice([0, 1, 2, 3, 4, 7, 8, w - 1, w, w + 1, 31, 32, 33]) % (1 << w))
        # a count that cannot fold to a huge constant (Python and Z.shiftl both materialise 2^count)
        i = ('D', 'cnt%d' % w, w, 0, 0)        # a dedicated count identifier: states bind it to small values only
        c = r.random()
        if c < 0.4: return i
        if c < 0.7 and w >= 8: return ('O', '&', [i, ('I', 0, w, 0x1f)])
        return ('O', '+', [i, ('I', 0, w, r.choice([1, 2]) % (1 << w))])
    def expr(self, w, depth):
        r = self.rng
        if depth <= 0 or r.random() < 0.15: return self.leaf(w)
        kinds = ['assoc'] * 5 + ['neg', 'sub', 'shift', 'rot', 'eq', 'cond', 'cond', 'slice', 'slice', 'not', 'parity']
        if getattr(self, 'no_shift', False): kinds = [k for k in kinds if k not in ('shift', 'rot')]
        if w >= 16: kinds += ['compose'] * 3
        if w >= 8 and self.allow_mem: kinds += ['mem'] * 2
        if self.ops_extra: kinds += ['extra']
        k = r.choice(kinds)
        if k == 'assoc':
            n = r.choice([2, 2, 2, 3, 3, 4])
            return ('O', r.choice(ASSOC), [self.expr(w, depth - 1) for _ in range(n)])
        if k == 'neg': return ('O', '-', [self.expr(w, depth - 1)])
        if k == 'sub': return ('O', '-', [self.expr(w, depth - 1), self.expr(w, depth - 1)])
        if k == 'shift': return ('O', r.choice(['<<', '>>', 'a>>']), [self.expr(w, depth - 1), self.count(w, depth)])
        if k == 'rot': return ('O', r.choice(['<<<', '>>>']), [self.expr(w, depth - 1), self.count(w, depth)])
        if k == 'eq': return ('O', '==', [self.expr(w, depth - 1), self.expr(w, depth - 1)])
        if k == 'not': return ('O', '!', [self.expr(w, depth - 1)])
        if k == 'parity': return ('O', 'parity', [self.expr(w, depth - 1)])
        if k == 'extra':
            op, ar = r.choice(self.ops_extra)
            return ('O', op, [self.expr(w, depth - 1) for _ in range(ar)])
        if k == 'cond':
            cw = r.choice(WIDTHS)
            return ('C', self.expr(cw, depth - 1), self.expr(w, depth - 1), self.expr(w, depth - 1))
        if k == 'slice':
            bigger = [W for W in WIDTHS if W > w]
            if not bigger or r.random() < 0.1:
                return ('S', self.expr(w, depth - 1), 0, w)           # full slice
            W = r.choice(bigger)
            lo = r.choice([0, 0, W - w] + [x for x in (1, 7, 8, 16, 24) if x + w <= W])
            return ('S', self.expr(W, depth - 1), lo, lo + w)
        if k == 'compose':
            return self.compose(w, depth)
        if k == 'mem':
            seg = None
            if self.allow_segm and r.random() < 0.15: seg = ('D', r.choice(['fs', 'gs']), 16, 1, 0)
            return ('M', w, self.expr(32, depth - 1), seg)
        raise ValueError(k)
    def part(self, pw, depth):
        """an expression of exactly pw bits (pw may be a non-standard width such as 24)"""
        r = self.rng
        if pw in WIDTHS and r.random() < 0.8: return self.expr(pw, depth - 1)
        W = r.choice([X for X in WIDTHS if X >= pw] or [64])
        if W == pw: return self.expr(pw, depth - 1)
        lo = r.choice([0, W - pw])
        src = self.expr(W, depth - 1)
        return ('S', src, lo, lo + pw)
    def compose(self, w, depth):
        r = self.rng
        cuts = {16: [[8, 8]], 32: [[8, 24], [16, 16], [8, 8, 16], [24, 8], [8, 8, 8, 8], [1, 31]], 64: [[32, 32], [8, 56], [16, 16, 32]]}[w]
        widths = r.choice(cuts)
        slots = []; lo = 0
        shared = self.expr(w, depth - 1) if r.random() < 0.4 else None   # adjacent slices of one source: the merge rules
        for pw in widths:
            if shared is not None and r.random() < 0.8:
                e = ('S', shared, lo, lo + pw)
            elif r.random() < 0.25 and pw in WIDTHS:
                e = self.const(pw)
            else:
                e = self.part(pw, depth)
            slots.append((e, lo, lo + pw)); lo += pw
        return ('K', slots)

def mutate(t, rng):
    """a near-copy differing in one feature (for == / hash / match non-instance tests)"""
    subs = subterms(t)
    target = rng.choice(subs)
    def m(x):
        k = x[0]
        if k == 'I':
            c = rng.random()
            if c < 0.4: return ('I', x[1], x[2], (x[3] + 1) % (1 << x[2]) if not x[1] else x[3])
            if c < 0.7 and x[2] != 64: return ('I', x[1], {1: 8, 8: 16, 16: 32, 32: 64}[x[2]], x[3] if not x[1] else x[3])
            return ('I', 0, x[2], x[3] % (1 << x[2]))
        if k == 'D':
            c = rng.random()
            if c < 0.3: return ('D', x[1] + '_', x[2], x[3], x[4])
            if c < 0.5: return ('D', x[1], x[2], 1 - x[3], x[4])
            if c < 0.7: return ('D', x[1], x[2], x[3], 1 - x[4])
            return ('D', x[1], {1: 8, 8: 16, 16: 32, 32: 64, 64: 32}[x[2]], x[3], x[4])
        if k == 'M':
            c = rng.random()
            if c < 0.4: return ('M', {8: 16, 16: 32, 32: 8, 64: 32}.get(x[1], 8), x[2], x[3])
            if c < 0.8: return ('M', x[1], x[2], None if x[3] is not None else ('D', 'fs', 16, 1, 0))
            return ('M', x[1], x[2], ('D', 'gs', 16, 1, 0))
        if k == 'O':
            c = rng.random()
            if c < 0.35: return ('O', rng.choice([o for o in ASSOC + ['-', '<<', '>>'] if o != x[1]]), x[2])
            if c < 0.6 and len(x[2]) > 1: return ('O', x[1], x[2][:-1])
            if c < 0.8: return ('O', x[1], x[2] + [x[2][0]])
            return ('O', x[1], list(reversed(x[2])))
        if k == 'C': return ('C', x[1], x[3], x[2])
        if k == 'S': return ('S', x[1], x[2], x[3] - 1) if x[3] - x[2] > 1 and rng.random() < 0.5 else ('S', x[1], x[2] + 1, x[3] + 1)
        if k == 'K':
            if len(x[1]) > 1 and rng.random() < 0.5: return ('K', x[1][:-1])
            e, lo, hi = x[1][-1]
            return ('K', x[1][:-1] + [(e, lo, hi + 1)])
        if k == 'A': return ('A', x[2], x[1])
        return x
    done = [False]
    def rec(x):
        if x is target and not done[0]:
            done[0] = True
            return m(x)
        k = x[0]
        if k == 'M': return ('M', x[1], rec(x[2]), None if x[3] is None else rec(x[3]))
        if k == 'O': return ('O', x[1], [rec(a) for a in x[2]])
        if k == 'C': return ('C', rec(x[1]), rec(x[2]), rec(x[3]))
        if k == 'S': return ('S', rec(x[1]), x[2], x[3])
        if k == 'K': return ('K', [(rec(e), lo, hi) for e, lo, hi in x[1]])
        if k == 'A': return ('A', rec(x[1]), rec(x[2]))
        return x
    return rec(t)

def permute_assoc(t, rng):
    """same expression with the operands of + * ^ & | permuted / re-associated at random"""
    k = t[0]
    if k == 'O':
        args = [permute_assoc(a, rng) for a in t[2]]
        if t[1] in ASSOC:
            flat = []
            for a in args:
                if a[0] == 'O' and a[1] == t[1]: flat += a[2]
                else: flat.append(a)
            rng.shuffle(flat)
            while len(flat) > 2 and rng.random() < 0.5:
                i = rng.randrange(len(flat) - 1)
                flat[i:i + 2] = [('O', t[1], flat[i:i + 2])]
            return ('O', t[1], flat)
        return ('O', t[1], args)
    if k == 'M': return ('M', t[1], permute_assoc(t[2], rng), t[3])
    if k == 'C': return ('C', permute_assoc(t[1], rng), permute_assoc(t[2], rng), permute_assoc(t[3], rng))
    if k == 'S': return ('S', permute_assoc(t[1], rng), t[2], t[3])
    if k == 'K': return ('K', [(permute_assoc(e, rng), lo, hi) for e, lo, hi in t[1]])
    return t
