"""impl runner: one hex string per line -> the lifted assignment list of the decoded instruction as S-expressions
'(A dst src) (A dst src) ...', or 'None' (not decodable), 'NOLIFT' (mnemonic without semantics), 'E <Exception>'.
The next-instruction address passed to the lifter is 0x1000 + length."""
import os, sys, binascii, logging
REAL = os.fdopen(os.dup(1), 'w'); sys.stdout = open(os.devnull, 'w')
sys.path.insert(0, os.path.dirname(os.path.abspath(__file__)))
sys.setrecursionlimit(20000)
logging.disable(logging.CRITICAL)
from exprlib import obj2s
from miasmx.arch.ia32_arch import x86mnemo
from miasmx.arch.ia32_sem import mnemo_func
from miasmx.tools import emul_helper
from miasmx.expression.expression import ExprInt32
def one(h):
    i = x86mnemo.dis(binascii.unhexlify(h))
    if i is None: return 'None'
    if i.m.name not in mnemo_func and '#' not in i.m.name: return 'NOLIFT %s' % i.m.name
    try:
        ex = emul_helper.get_instr_expr(i, ExprInt32(0x1000 + i.l), [])
    except Exception as e:
        return 'E %s %s' % (type(e).__name__, i.m.name)
    try:
        return '%s %d %s' % (i.m.name, i.l, ' '.join(obj2s(a) for a in ex))
    except Exception as e:
        return 'E serialise-%s %s' % (type(e).__name__, i.m.name)
out = []
for l in sys.stdin:
    l = l.strip()
    if not l: continue
    try: out.append(one(l))
    except Exception as e: out.append('E outer-%s' % type(e).__name__)
REAL.write('\n'.join(out) + '\n'); REAL.flush()
