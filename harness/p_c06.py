"""C06 — symbolic evaluation is sound substitution (tie H: EvalAbs.v vs expression_eval_abstract.py)."""
import os, sys, json
from common import *
import exprlib as X
import exprcheck as XC

FREE = {1: ['i_zf', 'i_cf'], 8: ['i_al', 'i_b8'], 16: ['i_ax', 'i_w16'], 32: ['i_eax', 'i_ebx', 'i_x32'], 64: ['i_q64']}
LIFTER_OPS = [('umul32_hi', 2), ('imul32_lo', 2), ('fadd', 2), ('bsf', 1), ('div32', 3)]

def free_expr(rng, w, depth, g):
    """an expression over FREE symbols only (no memory): what a binding may contain under the init_* discipline"""
    old = X.IDS
    try:
        X.IDS = FREE
        g2 = X.Gen(rng, allow_mem=False, ops_extra=[], signed_ints=False)
        return g2.expr(w, depth)
    finally:
        X.IDS = old

def gen_case(rng, g):
    w = rng.choice(X.WIDTHS[1:]); depth = rng.choice([1, 2, 2, 3, 3, 4])
    e = g.expr(w, depth)
    ids = sorted(set((s[1], s[2], s[3]) for s in X.subterms(e) if s[0] == 'D'))
    mems = []
    for s in X.subterms(e):
        if s[0] == 'M' and s not in mems: mems.append(s)
    st = []
    mode = rng.random()
    for (n, iw, reg) in ids:
        c = rng.random()
        if n.startswith('cnt'):
            if c < 0.7: st.append((('D', n, iw, reg, 0), ('I', 0, iw, rng.choice([0, 1, 2, 3, 7, 8, 15, 16, 31, 32, 33, 63, 64, 65]) % (1 << iw))))
        elif mode < 0.25 or c < 0.45:      # constant
            st.append((('D', n, iw, reg, 0), ('I', 0, iw, rng.choice(X.consts(iw)) if rng.random() < 0.6 else rng.randrange(1 << iw))))
        elif c < 0.75:                    # symbolic over free symbols
            st.append((('D', n, iw, reg, 0), free_expr(rng, iw, rng.choice([0, 1, 2]), g)))
        # else absent
    return e, st, w

def normalise_bindings(cands):
    """states produced by the library hold evaluated, simplified expressions: pass every candidate binding through
    eval_expr in the empty state and expr_simp (computed with the model) and keep the result"""
    texts = sorted(set(cands))
    out = run_model('evalabs', ['(run () () (%s))' % t for t in texts])
    res = {}
    for t, o in zip(texts, out):
        parts = o.split(' ## ')
        res[t] = parts[1] if len(parts) == 2 and parts[1].startswith('(') else None
    return res

def gen(chk):
    rng = chk.rng
    g = X.Gen(rng, ops_extra=LIFTER_OPS, signed_ints=False, allow_segm=False)
    n = 5000 if chk.tier == 'quick' else 120000
    lines = []; hist = {}
    def add(tag, l): lines.append(l); hist[tag] = hist.get(tag, 0) + 1
    pending = []
    for i in range(n):
        e, st, w = gen_case(rng, g)
        # same-address memory cells: bind some of the cells read by e (address given in evaluated form is the
        # generator's job: we bind cells whose address contains no bound identifier)
        bound = set(k[1] for k, _ in st)
        for m in [s for s in X.subterms(e) if s[0] == 'M']:
            aids = set(s[1] for s in X.subterms(m[2]) if s[0] == 'D')
            if aids & bound or any(s[0] == 'M' for s in X.subterms(m[2])): continue
            if rng.random() < 0.5:
                v = ('I', 0, m[1], rng.randrange(1 << m[1])) if rng.random() < 0.5 else free_expr(rng, m[1], 1, g)
                st.append((('M', m[1], m[2], None), v))
        pending.append((st, e))
    norm = normalise_bindings([X.t2s(v) for st, e in pending for k, v in st])
    for st, e in pending:
        vals = [norm[X.t2s(v)] for k, v in st]
        if any(v is None for v in vals): continue
        sts = '(' + ' '.join('(%s %s)' % (X.t2s(k), v) for (k, _), v in zip(st, vals)) + ')'
        add('rand', '(evalexpr %s %s)' % (sts, X.t2s(e)))
    # n-ary / all-constant families: every operator at arity 2..4 with all operands bound to constants
    for op in X.ASSOC:
        for ar in (2, 3, 4, 5):
            for w in (8, 32):
                for rep in range(6 if chk.tier == 'quick' else 40):
                    names = X.IDS[w][:]; args = [('D', rng.choice(names), w, 0, 0) for _ in range(ar)]
                    args = [('D', 'v%d_%d' % (j, w), w, 0, 0) for j in range(ar)]
                    st = [(a, ('I', 0, w, rng.choice(X.consts(w) + [rng.randrange(1 << w)]))) for a in args]
                    sts = '(' + ' '.join('(%s %s)' % (X.t2s(k), X.t2s(v)) for k, v in st) + ')'
                    add('nary-const', '(evalexpr %s %s)' % (sts, X.t2s(('O', op, args))))
    for op, ar in [('-', 1), ('-', 2), ('<<', 2), ('>>', 2), ('a>>', 2), ('<<<', 2), ('>>>', 2), ('==', 2), ('parity', 1), ('!', 1)] + LIFTER_OPS:
        for w in (8, 16, 32, 64):
            for rep in range(8 if chk.tier == 'quick' else 60):
                args = [('D', 'v%d_%d' % (j, w), w, 0, 0) for j in range(ar)]
                vals = [rng.choice(X.consts(w) + [rng.randrange(1 << w)]) for _ in range(ar)]
                if op in ('<<', '>>', 'a>>', '<<<', '>>>'): vals[1] = rng.choice([0, 1, 2, 7, 8, 15, 16, 31, 32, 33, 63, 64, 65, w - 1, w]) % (1 << w)
                st = [(a, ('I', 0, w, v)) for a, v in zip(args, vals)]
                sts = '(' + ' '.join('(%s %s)' % (X.t2s(k), X.t2s(v)) for k, v in st) + ')'
                add('op-const', '(evalexpr %s %s)' % (sts, X.t2s(('O', op, args))))
    # conditions and concatenations whose parts become constants
    for rep in range(150 if chk.tier == 'quick' else 3000):
        w = rng.choice([8, 16, 32])
        c = ('D', 'vc', rng.choice([1, 8, 32]), 0, 0)
        cv = rng.choice([0, 1, 2, 0x80, (1 << c[2]) - 1]) % (1 << c[2])
        a = g.expr(w, 1); b = g.expr(w, 1)
        add('cond-const', '(evalexpr ((%s %s)) %s)' % (X.t2s(c), X.t2s(('I', 0, c[2], cv)), X.t2s(('C', c, a, b))))
        add('cond-const', '(evalexpr ((%s %s)) %s)' % (X.t2s(c), X.t2s(('I', 0, c[2], cv)), X.t2s(('C', ('O', '&', [c, ('I', 0, c[2], 0x10 % (1 << c[2]))]), a, b))))
        lo8 = ('D', 'vl', 8, 0, 0); hi8 = ('D', 'vh', 8, 0, 0); hi16 = ('D', 'vw', 16, 0, 0)
        st = [(lo8, ('I', 0, 8, rng.randrange(256))), (hi8, ('I', 0, 8, rng.randrange(256))), (hi16, ('I', 0, 16, rng.randrange(65536)))]
        if rng.random() < 0.4: st[rng.randrange(3)] = (st[0][0], st[0][1])
        sts = '(' + ' '.join('(%s %s)' % (X.t2s(k), X.t2s(v)) for k, v in st) + ')'
        add('compose-const', '(evalexpr %s %s)' % (sts, X.t2s(('K', [(lo8, 0, 8), (hi8, 8, 16), (hi16, 16, 32)]))))
        add('compose-const', '(evalexpr %s %s)' % (sts, X.t2s(('K', [(lo8, 0, 8), (('C', c, ('I', 0, 8, 1), ('I', 0, 8, 2)), 8, 16)]))))
        add('slice-const', '(evalexpr %s %s)' % (sts, X.t2s(('S', ('O', '+', [hi16, ('I', 0, 16, 1)]), 8, 16))))
    return lines, hist

def subst_value_check(line, out):
    """the property itself: value(result, rho) == value(e, rho[bound ids := value of binding]) — identifiers only;
    cases with bound memory cells are checked with the cell treated through the model's flat memory only when unbound"""
    x = X.parse(line)
    st = [(X.show(k), X.show(v)) for k, v in x[1]]; e = X.show(x[2])
    if out.startswith(('E ', 'X ', 'FUEL')): return 'raises %s' % out
    if any(k.startswith('(M ') for k, _ in st): return None
    sz = [int(v) for v in run_model('exprlaws', ['(size %s)' % e, '(size %s)' % out], shards=1)]
    if sz[0] != sz[1]: return 'width %d became %d' % (sz[0], sz[1])
    for seed in range(24):
        imgs = XC.model_eval([(seed, v, {}) for _, v in st])
        ov = {X.parse(k)[1]: iv for (k, _), iv in zip(st, imgs)}
        v1, v2 = XC.model_eval([(seed, out, {}), (seed, e, ov)])
        if v1 != v2: return 'value of the result %d != value of the expression under the substituted valuation %d (valuation seed %d)' % (v1, v2, seed)
    return None

def audit(chk, compared, nseeds):
    """the property itself on the implementation, whether or not the model agrees: for every (state, expression) whose result is an
    expression, width and value(result) == value(expression under the substituted valuation), batched through the extracted Expr.eval
    (states with bound memory cells are left to the history correspondence of C07)"""
    todo = []
    for l, m, i in compared:
        if i.startswith(('E ', 'X ', 'FUEL')): continue
        x = X.parse(l)
        if x[0] != 'evalexpr': continue
        st = [(X.show(k), X.show(v)) for k, v in x[1]]
        if any(k.startswith('(M ') for k, _ in st): continue
        todo.append((l, X.show(x[2]), st, i))
    if not todo: return
    sizes = run_model('exprlaws', [y for l, e, st, o in todo for y in ('(size %s)' % e, '(size %s)' % o)])
    c1 = []
    for l, e, st, o in todo:
        for sd in range(nseeds):
            for k, v in st: c1.append((sd, v, {}))
    v1 = XC.model_eval(c1); pos = 0
    c2 = []
    for l, e, st, o in todo:
        for sd in range(nseeds):
            ov = {}
            for k, v in st:
                ov[X.parse(k)[1]] = v1[pos]; pos += 1
            c2.append((sd, o, {})); c2.append((sd, e, {n: (0 if val is None else val) for n, val in ov.items()}))
    v2 = XC.model_eval(c2)
    bad = []
    for k, (l, e, st, o) in enumerate(todo):
        why = None
        if sizes[2 * k] != sizes[2 * k + 1]: why = 'width %s became %s' % (sizes[2 * k], sizes[2 * k + 1])
        else:
            for sd in range(nseeds):
                a, b = v2[2 * (k * nseeds + sd)], v2[2 * (k * nseeds + sd) + 1]
                if a is not None and b is not None and a != b: why = 'value of the result %d != value of the expression under the substituted valuation %d (valuation seed %d)' % (a, b, sd); break
        if why: bad.append((l, o, why))
    chk.cov['audited_results'] = len(todo); chk.cov['audit_valuations_per_case'] = nseeds
    if bad:
        bad.sort(key=lambda x: len(x[0]))
        l, o, why = bad[0]
        chk.violation('eval_expr breaks C06 on %s -> %s: %s; %d audited cases' % (l[:400], o[:200], why, len(bad)), dict(case=l, impl=o, why=why, count=len(bad)))

def run(tier):
    chk = Check('C06', tier)
    if not chk.prove():
        chk.violation('proof obligations of props/C06.v no longer check', chk.broken_summary(), found_input=False)
    try: build_model()
    except BuildBroken as e:
        chk.violation('extracted model does not build: ' + e.what, dict(log_tail=e.log[-3000:]), found_input=False)
        return chk.finish()
    lines, hist = gen(chk)
    lines = XC.load_corpus('C06') + lines
    chk.log('cases: %d %s' % (len(lines), hist))
    model, impl = XC.run_both(chk, 'evalabs', 'impl_evalabs.py', lines)
    kinds = {}
    for m in model:
        k = m[:2] if m.startswith(('E ', 'NM', 'FU')) else 'ok'; kinds[k] = kinds.get(k, 0) + 1
    compared = [(l, m, i) for l, m, i in zip(lines, model, impl) if m != 'NM']
    chk.cov['evaluations'] = len(lines); chk.cov['traces_validated_against_impl'] = len(compared)
    chk.cov['generator_histogram'] = hist; chk.cov['model_outcomes'] = kinds
    chk.cov['distinct_nontrivial'] = len(set(l for l, m, i in compared if m != X.show(X.parse(l)[2])))
    chk.cov['rule'] = ('(state, expression) pairs: typed random expressions incl. the lifter\'s named operators; each identifier bound to a constant, to an expression over free symbols, '
                       'or absent; same-address memory cells bound or absent; families with every operator at arity 2..5 and all operands constant, conditions and concatenations whose '
                       'parts become constants. Compared: full result trees. NM = a path the model does not cover (counted, not compared). Non-trivial = result differs from the input expression')
    chk.cov['samples'] = [dict(case=l[:300], model=m[:200], impl=i[:200]) for l, m, i in compared[::max(1, len(compared) // 6)][:6]]
    audit(chk, compared, 4 if tier == 'quick' else 12)
    mism = [(l, m, i) for l, m, i in compared if m != i]
    mism.sort(key=lambda x: len(x[0]))
    found = None
    for l, m, i in mism[:60]:
        why = subst_value_check(l, i)
        if why: found = (l, m, i, why); break
    if found:
        l, m, i, why = found
        chk.violation('eval_expr breaks C06 on %s -> %s: %s (model: %s); %d cases differ from the model' % (l[:400], i[:200], why, m[:200], len(mism)),
                      dict(case=l, impl=i, model=m, why=why, count=len(mism)))
    elif mism:
        l, m, i = mism[0]
        chk.violation('correspondence EvalAbs.v vs eval_abs.eval_expr broken (%d cases), e.g. %s: model %s, impl %s; the substitution property holds on every valuation tried' % (len(mism), l[:300], m[:200], i[:200]),
                      dict(correspondence='EvalAbs.v/eval_expr vs eval_abs.eval_expr', case=l, impl=i, model=m, count=len(mism)), found_input=False)
    return chk.finish(assumptions=['EvalAbs.v is a hand transcription of expression_eval_abstract.py tied by exact-output correspondence on the cases counted here',
                                   'states follow the init_* discipline (binding expressions mention only free symbols); is_eval/is_term flags and eval_cache are outside this model (C12)'])

def replay(path):
    r = json.load(open(path))
    if 'case' not in r: print('replay names a broken obligation:', r.get('what')); return 1
    out = run_impl('impl_evalabs.py', [r['case']], shards=1)[0]
    why = subst_value_check(r['case'], out)
    print('case', r['case'], '\nimpl', out, '\nproperty:', why or 'holds')
    return 1 if why else 0
