"""C10 — decoder (and assembler) are total: reject cleanly, never crash or over-read (decoder half; tie D+H: X86Dis.v)."""
import os, sys, json
from common import *
import dump_x86, x86gen

def run(tier):
    chk = Check('C10', tier)
    try:
        d = dump_x86.generate()
    except Exception as e:
        chk.violation('dump of the x86 tables failed: %s' % str(e)[:300], dict(dump='harness/dump_x86.py', error=str(e)[:2000]), found_input=False)
        return chk.finish()
    if not chk.prove(['gen/X86Tables.vo']):
        chk.violation('proof obligations of props/C10.v no longer check', chk.broken_summary(), found_input=False)
    try: build_model()
    except BuildBroken as e:
        chk.violation('extracted model does not build: ' + e.what, dict(log_tail=e.log[-3000:]), found_input=False)
        return chk.finish()
    rng = chk.rng
    strings = list(x86gen.control_strings(d, rng, tier))
    # random byte strings 1..16 bytes
    for i in range(20000 if tier == 'quick' else 400000):
        n = rng.randint(1, 16); strings.append(''.join('%02x' % rng.randrange(256) for _ in range(n)))
    chk.log('strings: %d' % len(strings))
    model = run_model('x86dis', strings)
    impl = run_impl('impl_x86dis.py', strings)
    chk.cov['evaluations'] = len(strings); chk.cov['traces_validated_against_impl'] = len(strings)
    kinds = {}
    for m in model:
        k = 'None' if m == 'None' else ('CRASH' if m.startswith('CRASH') else 'decoded'); kinds[k] = kinds.get(k, 0) + 1
    chk.cov['model_outcomes'] = kinds
    chk.cov['distinct_nontrivial'] = kinds.get('decoded', 0)
    kf = {k['key']: k for k in chk.known_findings()}
    mism = [(s, m, i) for s, m, i in zip(strings, model, impl) if m != i]
    # crashes: classify by (exception, mnemonic-ish opcode prefix)
    crashes = {}
    for s, m, i in zip(strings, model, impl):
        if i.startswith('CRASH'):
            crashes.setdefault(i, []).append(s)
    for cr, ss in sorted(crashes.items()):
        ss.sort(key=lambda x: (len(x), x))
        # group by leading opcode bytes (without payload)
        groups = {}
        for s in ss: groups.setdefault(crash_class(s), []).append(s)
        for g, items in sorted(groups.items()):
            key = 'dis-crash:%s:%s' % (cr.split()[1], g)
            if key in kf: chk.report_known(key, kf[key]['what'] + ' (%d strings in this run)' % len(items))
            elif len(chk.violations) < 12:
                chk.violation('x86mnemo.dis raises %s on bytes %s (%d strings of opcode class %s)' % (cr.split()[1], items[0], len(items), g),
                              dict(case=items[0], impl=cr, opcode_class=g, count=len(items)))
    # over-read / truncation / offset invariance on the implementation, on a sample of accepted strings
    acc = [(s, i) for s, i in zip(strings, impl) if i not in ('None',) and not i.startswith(('CRASH', 'BADRAW'))]
    rng.shuffle(acc)
    sample = acc[:4000 if tier == 'quick' else 60000]
    lines = []; meta = []
    for s, i in sample:
        L = int(i.split('|')[0]); ins = s[:2 * L]
        lines.append(ins); meta.append(('exact', s, i))
        for k in range(1, L):
            lines.append(s[:2 * k]); meta.append(('trunc', s, i))
        for off in (1, 2, 3):
            lines.append('s %d %s' % (off, ins)); meta.append(('stream', s, i))
    out = run_impl('impl_x86dis.py', lines)
    outm = run_model('x86dis', [l for l in lines if not l.startswith('s ')])
    chk.cov['truncations_checked'] = sum(1 for m in meta if m[0] == 'trunc')
    chk.cov['evaluations'] += len(lines)
    nbad = 0
    mi = iter(outm)
    for l, o, (kind, s, i) in zip(lines, out, meta):
        mo = next(mi) if not l.startswith('s ') else None
        L = int(i.split('|')[0])
        bad = None
        if kind == 'exact' and o != i: bad = 'decoding exactly the %d consumed bytes gives %s instead of %s (over-read)' % (L, o[:120], i[:120])
        if kind == 'trunc' and o != 'None': bad = 'truncated instruction (%d of %d bytes) is not reported absent: %s' % (len(l) // 2, L, o[:120])
        if kind == 'stream':
            off = int(l.split()[1]); exp = '%d|%d|%d|%s' % (L, off, off + L, s[:2 * L])
            if o != exp: bad = 'decoding at stream offset %d gives %s, expected %s' % (off, o[:120], exp)
        if bad and nbad < 4:
            nbad += 1
            chk.violation('%s: %s' % (l, bad), dict(case=l, impl=o, expected_from=s))
        if mo is not None and mo != o and not bad:
            mism.append((l, mo, o))
    if mism:
        mism.sort(key=lambda x: (len(x[0]), x[0]))
        s, m, i = mism[0]
        # is it a totality violation on the implementation?  (crash classes were handled above)
        chk.violation('correspondence X86Dis.v vs x86_mn._dis broken on %d strings, e.g. %s: model %s, impl %s' % (len(mism), s, m[:200], i[:200]),
                      dict(correspondence='X86Dis.v/dis (tables regenerated) vs x86mnemo.dis', case=s, model=m, impl=i, count=len(mism)), found_input=False)
    # rendering totality (both syntaxes): one representative per (mnemonic, prefix list, operand-shape) signature
    sigs = {}
    for s, i in zip(strings, impl):
        if '|' not in i: continue
        f = i.split('|')
        shape = tuple((a.split()[0], a.split()[1], a.split()[3] != 'imm=-', a.split()[4]) for a in f[5].split(' ; ')) if f[5] else ()
        key = (f[2], f[1], f[3], f[4], shape)
        L = int(f[0])
        if key not in sigs or s[:2 * L] < sigs[key]: sigs[key] = s[:2 * L]
    rs = sorted(set(sigs.values()))
    rend = run_impl('impl_x86dis.py', ['r ' + s for s in rs])
    run_mn('', strings, impl)
    rc = {}
    for s, r in zip(rs, rend):
        parts = r.split(' || ')
        for which, p in zip(('intel', 'att'), parts):
            if p.startswith('CRASH'):
                mn = _MN.get(s, '?'); pf = _PF.get(s, '')
                if ('#' in mn or mn in ('pmovmskb', 'movq')) and pf.split(',')[-1] not in ('', '102', '242', '243'):
                    mn = 'mmx/sse with a last prefix other than 66/F2/F3'
                rc.setdefault((which, mn), []).append((s, p.split()[1]))
    chk.cov['renderings_checked'] = len(rs); chk.cov['render_crash_classes'] = len(rc)
    for (which, mn), items in sorted(rc.items()):
        key = 'render-crash:%s:%s' % (which, mn)
        if key in kf:
            chk.report_known(key, kf[key]['what'] + ' (%d signatures in this run)' % len(items))
        elif len(chk.violations) < 400:
            s0, exc = items[0]
            chk.violation('%s rendering of the decoded instruction %s (%s) raises %s; %d operand/prefix signatures of this mnemonic' % (which, s0, mn, exc, len(items)),
                          dict(case='r ' + s0, rendering=which, exception=exc, mnemonic=mn, count=len(items), key=key))
    overconsumption(chk, kf)
    asm_text_totality(chk, kf)
    chk.cov['rule'] = ('control-byte space enumerated from the dumped opcode trie: every opcode path x ModRM byte (all 256) x SIB classes (quick: 8 classes; thorough: all 256) x prefix sets '
                       '(none, 66, 67, one further set per opcode in quick; 12 sets in thorough) x 2..6 payload patterns; 1-2 byte dead opcodes; random 1..16-byte strings. '
                       'For a sample of accepted strings: the exact-length string, every truncation, stream offsets 1..3, both renderings. Over-consumption: every ModRM byte (with a spread of SIB bytes) of 8b / ff / 0f b6, with and without the 67 prefix: reported length <= the length GNU objdump reads, and the exact-length string decodes. Non-trivial = string the model decodes')
    chk.cov['samples'] = [dict(bytes=s, model=m[:160], impl=i[:160]) for s, m, i in list(zip(strings, model, impl))[::max(1, len(strings) // 6)][:6]]
    return chk.finish(assumptions=['the opcode trie, mnemonic records and ModRM/SIB tables are dumped from the running library on every run (tie D); X86Dis.v is a hand transcription of _dis/get_afs/special_opcodes (tie H)',
                                   'the assembler half on arbitrary text (PLY parser) has no Gallina model: not claimed'])

def overconsumption(chk, kf):
    """'nor consumes bytes beyond the instruction': for every ModRM byte (and, where a SIB byte follows, a spread of SIB bytes) of a
    plain r/m instruction, with and without the 67 prefix, the length the decoder reports must not exceed the length GNU objdump reads
    from the same bytes, and the exact-length string must decode (a complete instruction is not reported absent for want of more bytes)"""
    import objref
    forms = []
    for pf in ('', '67'):
        for opc in ('8b', 'ff', '0fb6'):
            for modrm in range(256):
                if opc == 'ff' and ((modrm >> 3) & 7) == 7: continue
                sibs = [0x00, 0x25, 0x65, 0xa5, 0xe5, 0x24, 0x0d, 0xc8] if (pf == '' and (modrm & 7) == 4 and (modrm >> 6) != 3) else [0x11]
                for sib in sibs:
                    forms.append('%s%s%02x%02x' % (pf, opc, modrm, sib) + '2233445566778899')
    ref = objref.objdump_many(forms, chk.work)
    impl = run_impl('impl_x86dis.py', forms)
    exact = []; idx = []
    bad = {}
    for k, (h, r, i) in enumerate(zip(forms, ref, impl)):
        if r is None or '(bad)' in r[1] or r[1].startswith('.byte') or '|' not in i: continue
        il = int(i.split('|')[0]); rl = r[0]
        if il > rl:
            bad.setdefault('overread:%s' % (h[:2] if h.startswith('67') else 'a32'), []).append((h, 'the decoder reports length %d for %s, the reference decoder reads %d bytes (%s)' % (il, h, rl, r[1])))
        exact.append(h[:2 * rl]); idx.append(k)
    ex = run_impl('impl_x86dis.py', exact)
    for h, e in zip(exact, ex):
        if e == 'None':
            bad.setdefault('absent-though-complete:%s' % (h[:2] if h.startswith('67') else 'a32'), []).append((h, 'the complete instruction %s (reference decoder: %d bytes) is reported absent' % (h, len(h) // 2)))
    chk.cov['overconsumption_forms'] = len(forms); chk.cov['evaluations'] = chk.cov.get('evaluations', 0) + len(forms) + len(exact)
    for key, items in sorted(bad.items()):
        if key in kf:
            chk.report_known(key, kf[key]['what'] + ' (%d strings in this run)' % len(items)); continue
        h, what = items[0]
        chk.violation('%s; %d strings of class %s' % (what, len(items), key), dict(case=h, key=key, count=len(items), strings=[x[0] for x in items[:20]]))

def asm_lines():
    """deterministic set of assembler inputs: structured lines with boundary / oversized literals, and token sequences up to 8 tokens"""
    import random
    rng = random.Random(12345)      # fixed: the known-findings classes must not depend on VERIF_SEED
    mns = ['mov', 'add', 'sub', 'xor', 'cmp', 'test', 'lea', 'push', 'pop', 'inc', 'neg', 'imul', 'shl', 'sar', 'ror', 'movzx', 'movsx', 'xchg', 'jmp', 'call', 'jz',
           'ret', 'int', 'in', 'out', 'enter', 'fld', 'fadd', 'fstp', 'movd', 'movq', 'paddb', 'pshufd', 'cvtsi2sd', 'sete', 'cmovz', 'bt', 'bsf', 'shld', 'nop', 'loop', 'rep']
    lits = [0, 1, -1, 127, 128, 255, 256, -128, -129, 32767, 32768, 65535, 65536, 2**31 - 1, 2**31, 2**32 - 1, 2**32, 2**32 + 5, 2**64, -2**31, -2**31 - 1]
    lines = []
    for m in mns:
        for lit in lits:
            for t in ('%s eax, %s', '%s DWORD PTR [ebx+%s], ecx', '%s ecx, DWORD PTR [%s]', '%s %s', '%s al, %s', '%s WORD PTR [esi], %s'):
                for f in ('%d', '0x%x'):
                    if f == '0x%x' and lit < 0: continue
                    lines.append('i ' + t % (m, f % lit))
            for t in ('%s $%s, %%eax', '%s %s(%%ebx), %%ecx', '%s $%s'):
                lines.append('a ' + t % (m + 'l', '%d' % lit))
    toks = ['mov', 'add', 'lea', 'push', 'jmp', 'eax', 'ebx', 'al', 'ax', 'es', 'st(0)', 'st', 'xmm0', 'mm1', 'cr0', 'BYTE', 'WORD', 'DWORD', 'QWORD', 'PTR', 'OFFSET', 'FLAT',
            '[', ']', '+', '-', '*', ',', ':', '(', ')', '0', '1', '4', '8', '0x10', '255', 'foo', '.L1', '@', '$', '%', '%eax', '$5']
    for i in range(4000):
        n = rng.randint(1, 8)
        lines.append(('i ' if i % 2 == 0 else 'a ') + ' '.join(rng.choice(toks) for _ in range(n)))
    return lines

def asm_text_totality(chk, kf):
    lines = asm_lines()
    out = run_impl('impl_asm.py', lines)
    chk.cov['asm_text_lines'] = len(lines)
    kinds = {}
    classes = {}
    for l, o in zip(lines, out):
        k = 'candidates' if not o.startswith(('E ', 'X ')) else o
        kinds[k] = kinds.get(k, 0) + 1
        if o.startswith(('E ', 'X ')) and o != 'E ValueError':
            first = l[2:].split()[0] if l[2:].split() else ''
            cls = (l[0], o.split()[1], first if first.isalpha() else 'tokens')
            classes.setdefault(cls, []).append(l)
    chk.cov['asm_text_outcomes'] = kinds
    for (syn, exc, mn), ls in sorted(classes.items()):
        key = 'asm-error:%s:%s:%s' % (syn, exc, mn)
        ls.sort(key=len)
        if key in kf: chk.report_known(key, kf[key]['what'] + ' (%d lines in this run)' % len(ls))
        elif len(chk.violations) < 400:
            chk.violation('the assembler fails with %s (not its documented ValueError) on the %s-syntax line %r; %d lines of class %s' % (exc, 'Intel' if syn == 'i' else 'AT&T', ls[0][2:], len(ls), mn),
                          dict(case=ls[0], exception=exc, count=len(ls), key=key))

_MN = {}; _PF = {}
def run_mn(s, strings, impl):
    if not _MN:
        for x, y in zip(strings, impl):
            if '|' in y:
                L = int(y.split('|')[0]); _MN.setdefault(x[:2 * L], y.split('|')[2]); _PF.setdefault(x[:2 * L], y.split('|')[1])
    return _MN.get(s, '?')

def crash_class(s):
    """opcode class of a crashing string: prefixes + up to 3 opcode bytes, ModRM reduced to mod/reg"""
    b = [int(s[i:i + 2], 16) for i in range(0, len(s), 2)]
    pf = []
    while b and b[0] in (0xf0, 0xf2, 0xf3, 0x2e, 0x36, 0x3e, 0x26, 0x64, 0x65, 0x66, 0x67): pf.append(b.pop(0))
    op = b[:1]
    if op == [0x0f]: op = b[:2]
    rest = b[len(op):]
    cls = ''.join('%02x' % x for x in sorted(set(pf))) + ':' + ''.join('%02x' % x for x in op)
    GROUPS = {(0x80,), (0x81,), (0x82,), (0x83,), (0xc0,), (0xc1,), (0xd0,), (0xd1,), (0xd2,), (0xd3,), (0xf6,), (0xf7,), (0xfe,), (0xff,), (0x8f,), (0xc6,), (0xc7,),
              (0x0f, 0x00), (0x0f, 0x01), (0x0f, 0xae), (0x0f, 0xba), (0x0f, 0xc7), (0x0f, 0x18), (0x0f, 0x71), (0x0f, 0x72), (0x0f, 0x73)} | {(x,) for x in range(0xd8, 0xe0)}
    if rest:
        if tuple(op) in GROUPS: cls += '/%d' % ((rest[0] >> 3) & 7)
        cls += 'r' if rest[0] >> 6 == 3 else 'm'
    return cls

def replay(path):
    r = json.load(open(path))
    if 'case' not in r: print('replay names a broken obligation:', r.get('what')); return 1
    out = run_impl('impl_x86dis.py', [r['case']], shards=1)[0]
    print('case', r['case'], '\nimpl', out)
    return 1 if 'CRASH' in out else 0
