"""C15 — IR nodes obey structural laws (tie H: Expr.v vs expression.py)."""
import os, sys, json
from common import *
import exprlib as X
import exprcheck as XC

def normkey(t):
    """text of a tree with the fields ignored by == removed (is_term; sign of a non-negative constant)"""
    def n(x):
        k = x[0]
        if k == 'I': return ('I', 0 if x[3] >= 0 else 1, x[2], x[3])
        if k == 'D': return ('D', x[1], x[2], x[3], 0)
        if k == 'M': return ('M', x[1], n(x[2]), None if x[3] is None else n(x[3]))
        if k == 'O': return ('O', x[1], [n(a) for a in x[2]])
        if k == 'C': return ('C', n(x[1]), n(x[2]), n(x[3]))
        if k == 'S': return ('S', n(x[1]), x[2], x[3])
        if k == 'K': return ('K', [(n(e), lo, hi) for e, lo, hi in x[1]])
        if k == 'A': return ('A', n(x[1]), n(x[2]))
    return X.t2s(n(t))

def gen(chk):
    rng = chk.rng
    g = X.Gen(rng, ops_extra=[('fadd', 2), ('umul32_hi', 2), ('bsf', 2)], signed_ints=True)
    n = 2500 if chk.tier == 'quick' else 40000
    lines = []; hist = {}
    def add(tag, l): lines.append(l); hist[tag] = hist.get(tag, 0) + 1
    for i in range(n):
        w = rng.choice(X.WIDTHS[1:]); depth = rng.choice([1, 2, 2, 3, 3, 4, 5])
        t = g.expr(w, depth)
        if rng.random() < 0.15:   # ExprAff wrapper
            dst = g.ident(w) if rng.random() < 0.6 or w < 8 else ('M', w, g.expr(32, 1), None)
            t = ('A', dst, t)
        s = X.t2s(t)
        add('size', '(size %s)' % s)
        add('copy', '(copy %s)' % s); add('copyshare', '(copyshare %s)' % s); add('visitid', '(visitid %s)' % s)
        # equality: itself, near-copies, re-parsed twin
        add('eq', '(eq %s %s)' % (s, s)); add('eqlaws', '(eqlaws %s %s)' % (s, s))
        for _ in range(3):
            m = X.mutate(t, rng); ms = X.t2s(m)
            add('eq', '(eq %s %s)' % (s, ms)); add('eq', '(eq %s %s)' % (ms, s)); add('eqlaws', '(eqlaws %s %s)' % (s, ms))
        if t[0] != 'A':
            add('canonize', '(canonize %s)' % s)
            p = X.permute_assoc(t, rng)
            add('canonize', '(canonize %s)' % X.t2s(p))
            subs = X.subterms(t)
            a, b = rng.choice(subs), rng.choice(subs)
            add('keycmp', '(keycmp %s %s)' % (X.t2s(a), X.t2s(b)))
        # replace_expr with 1-3 keys drawn from the sub-terms (same-width replacements), and id-keyed maps
        subs = [x for x in X.subterms(t) if x[0] != 'A']
        for _ in range(2):
            keys = {}
            for k in rng.sample(subs, min(len(subs), rng.choice([1, 1, 2, 3]))):
                kw = X.tsize(k)
                if kw in X.WIDTHS: v = g.expr(kw, 1)
                else: v = ('S', g.expr(64, 1), 0, kw)
                if t[0] == 'A' and v[0] == 'S':      # ExprAff's slice-destination sugar is outside the model
                    if kw not in X.WIDTHS: continue
                    v = g.leaf(kw)
                keys.setdefault(normkey(k), (k, v))
            if rng.random() < 0.5:
                ids = [x for x in subs if x[0] == 'D']
                keys = {}
                for k in rng.sample(ids, min(len(ids), 2)):
                    v = g.expr(k[2], 1)
                    if t[0] == 'A' and v[0] == 'S': v = g.leaf(k[2])
                    keys.setdefault(normkey(k), (k, v))
            if not keys: continue
            d = ' '.join('(%s %s)' % (X.t2s(k), X.t2s(v)) for k, v in keys.values())
            add('replace', '(replace (%s) %s)' % (d, s))
    return lines, hist

def prop_holds(line, impl_out):
    """direct statement of C15 on the implementation's answer for this case; None = property says nothing"""
    x = X.parse(line); op = x[0]
    if op in ('eqlaws', 'copyshare'): return impl_out == '1', 'equality laws / copy shares no node'
    if impl_out.startswith('X'): return False, 'no exception'
    if op == 'eq':
        a, b = X.show(x[1]), X.show(x[2])
        if a == b: return impl_out == '1', 'e == e (reflexive)'
        if impl_out == '1':
            ta, tb = X.s2t(a), X.s2t(b)
            if ta[0] == 'A' or tb[0] == 'A': return None, ''
            r = XC.values_equal(a, b)
            return r is None, 'equal expressions have equal values (valuation seed, values: %r)' % (r,)
        return None, ''
    if op in ('copy', 'visitid'):
        e = X.show(x[1])
        r = run_impl('impl_exprlaws.py', ['(eq %s %s)' % (impl_out, e)], shards=1)[0]
        return r == '1', 'result == original'
    if op in ('canonize',):
        e = X.show(x[1])
        r = XC.values_equal(e, impl_out)
        return r is None, 'canonize preserves the value (seed, values: %r)' % (r,)
    if op == 'replace':
        e = X.show(x[2]); pairs = [(X.show(k), X.show(v)) for k, v in x[1]]
        if all(k.startswith('(D ') for k, _ in pairs):
            # id-keyed: value of result under rho == value of e under rho[id := value of image]
            for seed in range(12):
                imgs = XC.model_eval([(seed, v, {}) for _, v in pairs])
                ov = {X.parse(k)[1]: iv for (k, _), iv in zip(pairs, imgs)}
                v1, v2 = XC.model_eval([(seed, impl_out, {}), (seed, e, ov)])
                if v1 != v2: return False, 'substitution: value of result %r != value of original under substituted valuation %r (seed %d)' % (v1, v2, seed)
            return True, 'substitution'
        return None, ''
    if op == 'size': return None, ''
    return None, ''

def run(tier):
    chk = Check('C15', tier)
    if not chk.prove():
        chk.violation('proof obligations of props/C15.v no longer check', chk.broken_summary(), found_input=False)
    try: build_model()
    except BuildBroken as e:
        chk.violation('extracted model does not build: ' + e.what, dict(log_tail=e.log[-3000:]), found_input=False)
        return chk.finish()
    lines, hist = gen(chk)
    lines = XC.load_corpus('C15') + lines
    chk.log('cases: %d %s' % (len(lines), hist))
    model, impl = XC.run_both(chk, 'exprlaws', 'impl_exprlaws.py', lines)
    chk.cov['evaluations'] = len(lines); chk.cov['traces_validated_against_impl'] = len(lines)
    chk.cov['generator_histogram'] = hist
    chk.cov['distinct_nontrivial'] = len(set(l for l, m in zip(lines, model) if not (l.startswith('(size') or m in ('1',))))
    chk.cov['rule'] = ('typed random trees (depth<=5, all 8 node kinds incl. segmented memory, ExprAff, signed constants, uninterpreted operators); per tree: size, copy, '
                       'visit(identity), == against itself and 3 single-feature mutants (both orders), canonize of the tree and of a permuted/re-associated twin, key comparison of two '
                       'sub-terms, replace_expr with sub-term-keyed and id-keyed maps. Non-trivial = distinct case whose answer is not the constant 1')
    chk.cov['samples'] = [dict(case=l[:300], model=m[:200], impl=i[:200]) for l, m, i in list(zip(lines, model, impl))[::max(1, len(lines) // 6)][:6]]
    mism = [(l, m, i) for l, m, i in zip(lines, model, impl) if m != i]
    byop = {}
    for l, m, i in mism: byop.setdefault(l[1:].split(' ', 1)[0], []).append((l, m, i))
    for op, items in sorted(byop.items()):
        items.sort(key=lambda x: len(x[0]))
        found = None
        for l, m, i in items[:40]:
            r = prop_holds(l, i)
            if r[0] is False: found = (l, m, i, r[1]); break
        if found:
            l, m, i, why = found
            chk.violation('%s: implementation breaks "%s" on %s -> %s (model: %s); %d cases of this operation differ from the model' % (op, why, l[:400], i[:200], m[:200], len(items)),
                          dict(case=l, impl=i, model=m, law=why, count=len(items)))
        else:
            l, m, i = items[0]
            chk.violation('correspondence Expr.v vs expression.py broken for %s (%d cases), e.g. %s: model %s, impl %s; no input found on which the property itself fails' % (op, len(items), l[:300], m[:200], i[:200]),
                          dict(correspondence='Expr.v/%s vs miasmx.expression.expression' % op, case=l, impl=i, model=m, count=len(items)), found_input=False)
    return chk.finish(assumptions=['Expr.v is a hand transcription of expression.py tied by exact-output correspondence on the cases counted here',
                                   'object identity ("shares no mutable node") is checked on the implementation only (id()-disjointness), not a theorem'])

def replay(path):
    r = json.load(open(path))
    if 'case' not in r: print('replay names a broken obligation:', r.get('what')); return 1
    out = run_impl('impl_exprlaws.py', [r['case']], shards=1)[0]
    out = XC.canon(r['case'], out)
    ok = prop_holds(r['case'], out)
    print('case', r['case'], '\nimpl', out, '\nproperty:', ok)
    return 1 if ok[0] is False else 0
