"""impl runner for the C12 catalogue sweep: hex strings, one per line, all decoded, rendered and lifted in ONE process, three times:
pass 1 in the given order (the instruction objects are kept), pass 2 in reverse order on fresh objects, pass 3 re-rendering and
re-lifting the objects kept from pass 1.  One output line per input line: 'ok' when the three answers agree, otherwise
'DIFF <pass> <what> | <first answer> | <other answer>'."""
import os, sys, binascii, logging
REAL = os.fdopen(os.dup(1), 'w'); sys.stdout = open(os.devnull, 'w')
sys.path.insert(0, os.path.dirname(os.path.abspath(__file__)))
sys.setrecursionlimit(20000)
logging.disable(logging.CRITICAL)
from exprlib import obj2s
from miasmx.arch.ia32_arch import x86mnemo
from miasmx.arch.ia32_sem import mnemo_func
from miasmx.tools import emul_helper
from miasmx.expression.expression import ExprInt32
def render(i):
    if i is None: return 'None'
    try: return str(i)
    except Exception as e: return 'E %s' % type(e).__name__
def lift(i):
    if i is None: return 'None'
    if i.m.name not in mnemo_func and '#' not in i.m.name: return 'NOLIFT'
    try: ex = emul_helper.get_instr_expr(i, ExprInt32(0x1000 + i.l), [])
    except Exception as e: return 'E %s' % type(e).__name__
    try: return ' '.join(obj2s(a) for a in ex)
    except Exception as e: return 'E serialise-%s' % type(e).__name__
def dis(h):
    try: return x86mnemo.dis(binascii.unhexlify(h))
    except Exception as e: return None
forms = [l.strip() for l in sys.stdin if l.strip()]
objs = []; r1 = []
for h in forms:
    i = dis(h); objs.append(i); r1.append((render(i), lift(i)))
r2 = [None] * len(forms)
for k in range(len(forms) - 1, -1, -1):
    i = dis(forms[k]); r2[k] = (render(i), lift(i))
r3 = [(render(i), lift(i)) for i in objs]
out = []
for k in range(len(forms)):
    st = 'ok'
    for name, r in (('second-decode', r2[k]), ('kept-object', r3[k])):
        for what, a, b in (('text', r1[k][0], r[0]), ('lift', r1[k][1], r[1])):
            if st == 'ok' and a != b: st = 'DIFF %s %s | %s | %s' % (name, what, a[:300], b[:300])
    out.append(st)
REAL.write('\n'.join(out) + '\n'); REAL.flush()
