#!/usr/bin/env python3
"""mkmanifest.py — writes /verif/MANIFEST.json from the per-property table below (keeps it schema-valid)."""
import json, os
ROOT = os.path.dirname(os.path.dirname(os.path.abspath(__file__)))
ALL = ['C%02d' % i for i in range(1, 20)]
TB = ("Trusted: Coq 8.16.1 kernel + vm_compute (no native_compute); no axioms declared (Print Assumptions of every theorem is recorded in the evidence); "
      "ExtrOcamlBasic extraction + OCaml line driver and the Python harness (generators, canonicalisers, differ) for the correspondence only. ")
CHECKS = {
 'C14': dict(
   technique='Coq proof (lia over Z) about a hand-written Gallina model of modint.py + exact-output differential correspondence (extracted OCaml vs Python), exhaustive at 8 bits',
   text=("Theorems (props/C14.v, 13, closed under the global context): for every class (any width >= 1, signed or not), every operand value and every "
         "binary operator incl. reflected forms, the model returns the class the property names (wider of two, own class with a plain int) holding the UNIQUE "
         "in-range representative of the exact result mod 2^w; unary ops, comparisons = Z comparisons, eq => equal hash for any host hash; __rpow__ refuted (known finding). "
         "The model is tied to modint.py by exact-output correspondence: all 2^16 pairs at 8 bits x 15 operators, boundary sets at all 121 class pairs, plain ints outside the range, random."),
   note=TB + "Modelled, not verified: ModInt.v is a hand transcription of modint.py (correspondence ~3M cases quick). Shift counts <= 300 and exponents <= 40 in the correspondence only.",
   design='4/C14'),
 'C15': dict(
   technique='Coq proof by induction over the nested expression type (custom induction principle) about a Gallina model of expression.py + exact-output correspondence',
   text=("Theorems (props/C15.v, closed): for ALL trees (8 node kinds, any depth/arity): == is reflexive, symmetric, transitive; == implies equal hashes for every host hash "
         "function (every PYTHONHASHSEED), equal width and equal value under every valuation/memory/operator interpretation; copy() and visit(identity) return the same tree; "
         "visit(cb) preserves width and value whenever cb does; replace_expr with any map whose keys and images have equal width and value preserves width and value (substitution as congruence). "
         "canonize preserves well-formedness, width and value on well-formed trees (the C05 predicate, concatenations included: sorting the slots of a concatenation is a permutation of an OR of fields) (theorem), and is refuted without the one-width condition (the width of an operator node is that of its first operand). Model tied to expression.py by exact-output correspondence (~48k cases quick)."),
   note=TB + "Modelled, not verified: Expr.v (hand transcription of expression.py: __eq__/__hash__/visit/copy/replace_expr/canonize/key_expr). "
        "Object identity ('shares no mutable node') is outside Gallina: checked on the implementation by id()-disjointness. ExprAff's slice-destination constructor sugar is outside the model.",
   design='4/C15'),
 'C16': dict(
   technique='Coq proof by structural induction (coincidence lemma for get_r) about the Gallina model of expression.py + exact-output correspondence incl. call-history cases',
   text=("Theorems (props/C16.v, closed): coincidence — for ALL trees, if two states agree on every identifier and memory cell reported by get_r (both mem_read modes) the value is the same in both; "
         "get_w of an assignment names its destination. MatchExpr soundness (props/C16.v, closed): whenever the model of MatchExpr does not return False the returned dictionary keeps every earlier binding and the matched expression is the pattern with each wildcard replaced by its binding, for ALL expressions, patterns, wildcard lists and initial dictionaries, through the three return conventions. "
         "The model is tied by exact-output correspondence plus substitution of the returned bindings on the implementation (instances, single-feature mutants, patterns whose expression contains wildcards)."),
   note=TB + "Modelled, not verified: Expr.v (get_r/get_w/get_expr_ids/MatchExpr/test_set).",
   design='4/C16'),
 'C05': dict(
   technique='Coq proof by induction over fuel and over the nested expression type of the soundness of the simplifier model on a well-formed fragment (width, value under every valuation, well-formedness preserved) + exact-tree correspondence of the model with expr_simp; exhaustive valuation search outside the fragment',
   text=("Theorem (props/C05.v, closed): for EVERY tree of the well-formedness predicate (constants, identifiers, memory cells with any well-formed address, conditionals, n-ary + * ^ & | on operands of one width, unary/binary minus, slices, the shifts << >> a>> on a value and a count of any widths, == and parity, the rotations <<< >>> on a value of width 8/16/32/64 and an 8-bit count, and concatenations (non-empty, non-overlapping slots inside [0,64] with distinct starts, one of them 0; constant pieces at least as wide as their slot); widths at most 64), every fuel and every result of Simp.simp: "
         "the result is well formed, has the same width and the same value under every valuation of identifiers, every memory and every operator interpretation — through flattening, canonical sorting, constant folding via the modint classes, A op 0, singleton, "
         "duplicate/cancelling-pair removal, all minus rules, the shift rules (constant folds, count 0, (X & m) >> c), the == rules (constant fold, (X | m) == 0), the parity fold, the rotation rules (count 0, count = width, two rotations in a row merged by adding/subtracting their counts modulo 2^8), the concatenation rules (merge_sliceto_slice: classification, masking and merging of adjacent constants, merging of adjacent slices of one source, sorting by start — ComposeProofs.v proves that the OR of the fields, the set of starts, the extent and the per-bit occupancy are preserved; the single-slot rule; a slice of a concatenation), the conditional rules, the four slice rules, the bottom-up visit and the fixpoint loop. Every rewriting rule of _expr_simp and merge_sliceto_slice is covered; not covered: trees outside the predicate (operands of different widths, other rotation count widths, overlapping slots); termination is by explicit fuel (OutOfFuel never observed). "
         "Model Simp.v mirrors _expr_simp rule for rule; tie: exact result trees on rule-targeted families (one per rule and side condition, permuted, embedded) and typed random trees; on any disagreement width and value of input vs output are evaluated "
         "under all 2^16 valuations of two 8-bit variables or boundary cross-products. Independently of the model, every result that differs from its input is audited: width, and value under 6 (quick) / 16 (thorough) valuations, in one batch through the extracted Expr.eval."),
   note=TB + "Modelled, not verified: Simp.v is a hand transcription of expression_helper.py (tied by exact-tree correspondence on every run). Outside the predicate the property is decided by the tie + search, below proof strength.",
   design='4/C05', category='other'),
 'C13': dict(
   technique='Coq theorems on the simplifier model (idempotence on well-formed trees: the result is a deep normal form and a second pass returns the identical tree; root-level fixpoint of the rewriting step for all trees, sort is a permutation, order-independence of the value, fuel independence) + exact-tree correspondence under several PYTHONHASHSEED values; idempotence and order-insensitivity evaluated on groups of permuted/re-associated spellings',
   text=("The model (a pure function: no hash-order input) is compared with expr_simp under PYTHONHASHSEED 0,1,2 (quick) / 0..7 (thorough) on groups of expressions differing only by order/nesting of "
         "+ * ^ & | operands (rule families, random trees, multisets of atoms, deep twins that differ only far down), each simplified once and twice. Theorems (props/C13.v, closed): for ALL trees every result of the simplifier is a fixpoint of its rewriting step at the root (one more _expr_simp returns an == expression); on well-formed trees (the whole C05 predicate, concatenations and rotations included, identifier predicate determining is_term) the result is a DEEP normal form (every node is returned unchanged by the rewriting step) and simplifying it again returns the IDENTICAL tree whatever the fuel — by induction over fuel, the traversal and the loop, using that == is Leibniz equality on well-formed trees; "
         "the canonical operand order is a permutation of the input; on well-formed trees operand order does not change the value of the result; successful runs agree whatever their fuel. "
         "NOT proved: idempotence outside the well-formed fragment (concatenations, rotates, ==, parity, ill-typed trees), syntactic identity of the results for permuted/re-associated operands, hash-seed independence (implementation facts): decided by the runs."),
   note=TB + "Cross-process behaviour (hash seeds) is a runtime fact outside Gallina: exercised by running the implementation under each seed. dump_mem() ordering (ExprMem.__lt__ compares id()) is not covered.",
   design='4/C13', category='other'),
 'C06': dict(
   technique='Coq proof by induction over fuel (through the simplifier theorem of C05) that the model of eval_expr is sound substitution on register-only states and fragment-1 expressions; Gallina model of eval_abs.eval_expr (all seven node kinds) tied by exact-tree correspondence',
   text=("Model EvalAbs.v mirrors eval_expr / eval_ExprOp+deal_op / eval_ExprCond / eval_ExprSlice / eval_ExprCompose / eval_ExprMem. Tie: exact result trees on (state, expression) pairs mixing constant, "
         "symbolic and absent bindings, all operators at arity 2..5 with constant operands, conditions/concatenations whose parts become constants; independently of the model, every result is audited against the property itself (width; value of the result = value of the argument under the substituted valuation, 4/12 valuations per case, states without bound memory cells). "
         "Theorem (props/C06.v, closed): for register-only states whose bindings map non-terminal identifiers to well-formed expressions of their width, every expression of the C05 predicate without concatenations (slices, shifts, rotations, == and parity included, shift constants evaluated through deal_op's saturating count) conforming to a name signature and every result of eval_expr: the result is well formed, "
         "has the argument's width, and in EVERY concrete state, memory and operator interpretation evaluates to the argument's value in the state where each bound identifier takes its binding's value (terminal identifiers untouched, memory read at the substituted address). "
         "Not proved: states with written memory cells, concatenations (the eval_expr theorem is stated for the concatenation-free part of the predicate, ac = false: eval_ExprCompose re-evaluates an already evaluated condition, which the implementation guards with is_eval object marks the model does not have — model and code agree only when binding values do not mention bound identifiers, as in the library's own machine and in the generators) (decided by the tie and the audit)."),
   note=TB + "Modelled, not verified: EvalAbs.v. States follow the init_* discipline (bindings over free symbols, already evaluated); is_eval/is_term flags and eval_cache are outside this model (C12).",
   design='4/C06', category='other'),
 'C07': dict(
   technique='Gallina model of eval_instr / get_mem_overlapping / substract_mems / the four read paths of eval_ExprMem tied by exact-output correspondence on store/load histories; every read-back evaluated against a concrete little-endian byte memory',
   text=("Theorems (props/C07.v, closed): all assignments of one instruction with register destinations evaluate their sources in the pre-state, in order, and only then bind them; pool dictionary laws (a cell read back at the address and width it was written with returns the written value; other cells, registers untouched); "
         "with C06 each evaluated source denotes, in every concrete state, its value under the substituted pre-state. Overlapping read-backs, rep prefixes and composition over sequences are NOT theorems: they are decided by the history correspondence. "
         "All 1-store x 1-load histories, 2-store histories (quick: seeded sample; thorough: exhaustive 13824 per base) over widths 8/16/32 x offsets 0..7 x constant/symbolic base, random 3..12-store histories and "
         "'image' histories (adjacent slices of one symbol): model state dump and read-back trees == implementation, and every implementation read-back == byte-memory interpreter under 3 valuations. "
         "rep-prefixed string instructions with concrete counts are compared with their unrolled steps on the implementation (exploration, no model of the lifter yet). Invariant theorems (disjoint cells, read-back) not yet proved."),
   note=TB + "Modelled, not verified: EvalAbs.v (memory paths). Instruction-sequence composition over lifted x86 semantics is covered only through the rep/unrolled comparison so far.",
   design='4/C07', category='other'),
 'C10': dict(
   technique='Coq proof (stream-discipline lemmas composed over every byte-reading function of the decoder model, for ANY tables) of no over-read and truncation => None; Gallina model interpreting tables regenerated from the running library, tied by exact-output correspondence over the structured control-byte space; exception classes and text totality evaluated on the implementation',
   text=("Decoder half: X86Dis.v mirrors _dis/get_afs/special_opcodes (exceptions other than IOError are explicit CRASH outcomes); the tables are re-dumped from /repo on every run (tie D) and the model "
         "is compared with x86mnemo.dis on ~0.55M (quick) / 6M (thorough) control strings + random strings: None-ness, length, prefixes, mnemonic, every operand field. On the implementation: exact-length "
         "re-decode (no over-read), every truncation reports absence, stream offsets 1..3, both renderings of one representative per (mnemonic, prefixes, operand-shape) signature. Theorems (props/C10.v, closed, for ANY tables, every byte string and continuation): an accepted instruction of length L is determined by its first L bytes (any other bytes may follow), 0 <= L <= bytes supplied, "
         "and every proper prefix of those L bytes gives None (never an exception, never another instruction). Assembler text half: no Gallina model of PLY/asm_candidates — a fixed set of ~14k lines/token sequences is run and exception "
         "types classified (exploration only)."),
   note=TB + "Modelled, not verified: X86Dis.v. AT&T rendering fails for ~200 mnemonics and MMX/SSE forms with an extra prefix cannot be rendered in either syntax: listed in known_findings.json by class with witnesses.",
   design='4/C10', category='other'),
 'C17': dict(
   technique='Coq: vm_compute reflection over the opcode table regenerated from the library (flow classification of all 728 rows) + lia/Z.land lemmas for destination arithmetic; correspondence of the flow methods over branch forms x offsets near 2^32',
   text=("Theorems (props/C17.v, closed): every row of the opcode table miasmx builds (re-dumped on every run) has the architectural flow class of its mnemonic — conditional jumps/loop/jecxz/call: "
         "break+split+dst; jmp/ret/retf/iret/hlt/ud2: break without split; everything else not block-ending; sys* excluded; getnextflow = offset + length; destination of a direct relative branch = "
         "offset + length + displacement mod 2^opsize for ALL offsets/lengths/displacements. The flow methods are tied by correspondence (all branch families x 9 prefix sets x boundary displacements x "
         "offsets incl. 2^32-16..2^32-1, all 256 int vectors, 40k control strings) and every implementation answer is checked against the architectural rule directly."),
   note=TB + "flow_spec (mnemonic -> class) is a hand-written specification from the Intel SDM. Operand-size of 66-prefixed rel16 branches is a decode question handled under C01.",
   design='4/C17'),
 'C01': dict(
   technique='Coq vm_compute reflection: the ModRM/SIB tables regenerated from the library agree with the SDM addressing forms for all 256x256 byte pairs; decoder walk modelled in Gallina and tied by exact-output correspondence; opcode maps validated against GNU objdump (external reference)',
   text=("Theorems (props/C01.v, closed): for ALL ModRM x SIB bytes (32-bit) and all ModRM bytes (16-bit) the table entry miasmx builds has the base/index/scale/displacement kind/register form of "
         "SDM tables 2-1..2-3 (written as formulas in X86Ref.v). The decoder walk (X86Dis.v over the regenerated opcode trie and mnemonic records) equals x86mnemo.dis field by field on the control space "
         "(0.55M quick / 6.1M thorough strings; raw bytes = consumed prefix checked by the runner). Agreement of the opcode maps with IA-32 is NOT proved: every accepted string is decoded by objdump 2.40 "
         "and compared after normalisation (length, mnemonic, registers, memory base/index/scale/disp/segment/size, immediates, branch displacement); ~170 disagreement classes are listed as known findings."),
   note=TB + "X86Ref.v (SDM ModRM/SIB forms) is a hand-written specification; objdump is an external oracle (validation, not proof); the text normaliser and alias table are part of the harness. Control space is a fixed enumeration per tier.",
   design='4/C01'),
 'C18': dict(
   technique='Coq proof: a syntactic disjointness test on class constraints proved sound (bitwise lemmas) and checked by vm_compute for all 82*81/2 class pairs regenerated from the library => at most one class per word for ALL words; re-encoding identity by a field-mask lemma; correspondence on structured + random words',
   text=("Theorems (props/C18.v, closed): for every integer word at most one class of tab_mn (re-dumped on every run) claims it; the fields of every class tile the 32 bits; for every class with plain codecs and "
         "every 32-bit word, bin(parse(w)) = w. Tie: Ppc.v (check, field codecs, bin) vs ppc_arch on 0.63M structured + random words. The text fixpoint (str/asm) and the architecture's opcode assignment "
         "(hand-written UISA table) are checked by execution on all structured decodable words; 30 classes whose text round trip fails are known findings."),
   note=TB + "No executable PowerPC reference is available offline: the opcode table in p_c18.py is hand-written. The per-class string code (str/asm) has no Gallina model.",
   design='4/C18'),
 'C04': dict(
   technique='Coq theorems for the arithmetic/logic group (mirror of the lifter tied to the regenerated IR by syntactic identity, kernel-checked by reflection) and for the condition-code families (semantic check of the regenerated IR under all flag valuations, lifted to all states) + evaluation of the whole integer core with the extracted Coq denotation against an SDM reference',
   text=("Theorems (props/C04.v, closed): (tie) every add/adc/sub/sbb/cmp/and/or/xor/test form (>2000) with operands of equal width and every inc/dec/neg form (>150) of the lifted dump regenerated from /repo — every operand shape and width — is, node for node, "
         "the mirror Sem.v applied to its own operands; (meaning) for ALL operand expressions of equal width n in {8,16,32}, all valuations of registers/flags/memory and all operator interpretations: the value is the n-bit sum/difference/bitwise result "
         "(carry-in for adc/sbb), cf is the carry/borrow out, of the signed overflow, zf/sf/pf those of the result; inc/dec/neg likewise (cf of neg = operand <> 0); an assignment to a sub-register replaces exactly its bits of the register (write-back through ExprAff's slice rewriting, bit-level theorem); the XOR-based carry identities are proved for every width and value. Condition codes: EVERY setcc (>400), cmovcc (>1200) and jcc (>50) form of the regenerated dump — all sixteen conditions in each family — realises in every state the SDM condition its mnemonic names (byte 1/0; destination takes the other operand or keeps its value; eip = other branch or next address), decided by evaluation under the 32 flag valuations and lifted to all states, memories and operator interpretations by a coincidence theorem for flag-only expressions; after a cmp the sixteen conditions are proved to be the unsigned/signed order relations. Data movement (mov xchg movzx movsx lea not push pop nop clc stc cmc cld std; >1100 regenerated forms): each lifted list is, node for node, the mirror SemMov.v applied to the operand expressions the lifter was called with (dumped beside the list by harness/impl_liftargs.py), except the shapes the mirror declines (segment-register push/pop; movzx/movsx/lea between equal or mismatched widths under the 66 prefix: <=120 forms, left to the evaluation); meaning theorems for all operands and states: movzx = source value, movsx = sign extension (bit level), not = one's complement, push/pop move esp by the operand size mod 2^32, pop to memory addressed through esp uses the incremented esp, cmc complements cf. Shifts and rotates, VALUE only (sal=shl shr sar rol ror; >500 regenerated forms): the destination is assigned the mirror SemShift.shift_val of the dumped operands, and for all operands and states that value is the processor's (x*2^c mod 2^n, x/2^c, arithmetic shift of the signed reading, bit rotation; count masked to five bits, counts >= n included); the flags of this group are not theorems. Near control transfers with 32-bit operand size (call ret leave jmp) and string moves (movs stos lods; every operand and address size): each regenerated list is the mirror (SemCtl.v / SemStr.v) of the dumped operands and next-instruction address; stack pointer = esp - 4 / esp + 4 + imm / ebp + 4 modulo 2^32, string pointers step by the element size, down when df is set. af is refuted (known finding). "
         "The rest of the integer core (flags of shifts and rotates, rcl/rcr, double shifts, mul/div, bit ops, cbw/cwd family, lahf/sahf, xadd/cmpxchg, enter/pusha, scas/cmps and rep prefixes, far and 16-bit control transfers) is NOT a theorem: "
         "the regenerated IR of every catalogue form (+ an addressing-mode sweep over every ModRM/SIB byte) is evaluated by the extracted Expr.eval on 6 (quick) / 40 (thorough) boundary x random states and compared with harness/x86ref.py "
         "(registers, defined flags, written bytes, eip). Deviations on the unchanged tree are listed per (mnemonic, operand size, output, shift-count class)."),
   note=TB + "Sem.v is a hand mirror of ia32_sem.py's flag helpers and 12 semantic functions; its tie to the code is the kernel-checked identity with the regenerated IR (SemFacts.v), re-proved on every run. SemCC.cc_holds is the SDM condition table (vol. 2 app. B.1) written in Gallina — a specification, cross-checked by the theorem relating it to the order relations after cmp; the setcc/cmovcc/jcc checkers run on the regenerated IR itself (SemCCFacts.v), no mirror. x86ref.py is a hand-written specification, reviewed against the SDM and validated against the real processor on every run (harness/cpucheck.py: 262 register forms, 0 disagreements on >100k executed states; testing, not proof).",
   design='4/C04', category='other'),
 'C08': dict(
   technique='Coq theorem (coincidence lifted to assignment lists: nothing outside get_r can influence any value of ANY lifted list) + dependency and write probing of the implementation-reported sets against the SDM reference and an SSE operand-role table',
   text=("Theorem (props/C08.v, closed): for every assignment list, valuation, memory and operator interpretation, two states that agree on the union of get_r(mem_read=True) give every assignment the same value; get_w names the destination. "
         "That settles the IR half for all instructions, x87/MMX/SSE included (uninterpreted operators are universally quantified). Whether the lifted list covers what the PROCESSOR reads and writes is decided on the implementation: "
         "(A) integer core — each register (8 XOR masks), flag and read byte is perturbed on the SDM reference; a real dependency must be in the reported read set; everything written, every flag left undefined and eip must be in the reported write set; "
         "(B) MMX/SSE forms (incl. F3/F2 scalar forms) — sources and address registers read, destination written, destination read where it is also a source, implicit operands of pcmp?str?, comis/ucomis/ptest, maskmov, blendv. "
         "The sets are queried in two call histories (fresh, and after a mem_read=False query on the same objects)."),
   note=TB + "The reference dependencies come from harness/x86ref.py and the operand-role table in p_c08.py (specifications, reviewed, not verified). get_r/get_w of the model are tied to expression.py by the C16 correspondence.",
   design='4/C08', category='other'),
 'C02': dict(
   technique='every candidate of every accepted line decoded by GNU objdump and compared with the line; GNU as as oracle for boundary values; order-of-calls independence; Coq codec lemmas (immediate fitting / little-endian emission) on the model side',
   text=("Lines: Intel and AT&T renderings of ~18k (quick) usable base strings (lift catalogue one-per-signature forms + fixed sample of the decoder control space + mandatory-prefix SSE forms, restricted to strings where decoder and objdump agree) and boundary-value substitutions (-129 .. 2^32-1) of immediates/displacements on one string per (mnemonic, feature) class. Every candidate must be ONE instruction of full length for objdump with the line's mnemonic, operands, sizes, displacement, immediate; for boundary lines GNU as decides whether the value fits and what it encodes to. Lines are also assembled in reverse process order (the result must not depend on earlier calls)."),
   note=TB + "The assembler's text layer (PLY grammars, candidate search) is NOT modelled in Gallina: what is proved is the codec / mnemonic / term-algebra layer (see props/<id>.v); the property itself is decided on the implementation against GNU as / objdump 2.40 (external references). Known deviations are listed per (kind, mnemonic template, operand features) in known_findings.json; 16-bit addressing forms share one class per kind.",
   design='4/C02', category='other'),
 'C03': dict(
   technique='render -> assemble -> decode -> render -> assemble fixpoint run on the implementation over the base strings; canonicality decided by GNU as on objdump text',
   text=("For every usable base string b: asm(str(dis(b))) must contain b when b is canonical (GNU as applied to objdump's text of b returns b); every candidate c of every accepted line must decode at exactly len(c) bytes and be among the candidates of its own rendering."),
   note=TB + "The assembler's text layer (PLY grammars, candidate search) is NOT modelled in Gallina: what is proved is the codec / mnemonic / term-algebra layer (see props/<id>.v); the property itself is decided on the implementation against GNU as / objdump 2.40 (external references). Known deviations are listed per (kind, mnemonic template, operand features) in known_findings.json; 16-bit addressing forms share one class per kind.",
   design='4/C03', category='other'),
 'C09': dict(
   technique='both renderings of every base string re-parsed by the matching miasmX parser and assembled by GNU as in the matching syntax mode; instruction identity by objdump',
   text=('For every usable base string: the Intel and the AT&T rendering must each assemble (asm / asm_att) to a candidate set containing the original bytes; unless the instruction has a raw relative displacement or an absolute numeric memory operand, GNU as must accept each rendering without warning and produce an encoding objdump reads as the original instruction (redundant ds/ss overrides and nop = xchg eax,eax tolerated).'),
   note=TB + "The assembler's text layer (PLY grammars, candidate search) is NOT modelled in Gallina: what is proved is the codec / mnemonic / term-algebra layer (see props/<id>.v); the property itself is decided on the implementation against GNU as / objdump 2.40 (external references). Known deviations are listed per (kind, mnemonic template, operand features) in known_findings.json; 16-bit addressing forms share one class per kind.",
   design='4/C09', category='other'),
 'C19': dict(
   technique='candidate-set equality of presentation-only respellings, computed on the implementation',
   text=('One (quick) / three (thorough) base strings per (mnemonic, feature) class; respellings: register case, keyword case, spacing, hex/HEX/decimal, -1 vs 0xFFFFFFFF, signed vs unsigned spelling of the same value modulo the operand width (Intel and AT&T, ALU group), [b+i*s] vs [i*s+b], [r+d] vs [d+r] vs d[r], st vs st(0), optional % before registers, AT&T transliteration. Candidate SETS must be equal; lines also assembled in reverse process order.'),
   note=TB + "The assembler's text layer (PLY grammars, candidate search) is NOT modelled in Gallina: what is proved is the codec / mnemonic / term-algebra layer (see props/<id>.v); the property itself is decided on the implementation against GNU as / objdump 2.40 (external references). Known deviations are listed per (kind, mnemonic template, operand features) in known_findings.json; 16-bit addressing forms share one class per kind.",
   design='4/C19', category='other'),
 'C12': dict(
   technique='call histories on shared objects in one process; every answer compared with its pure answer (Gallina models Simp.v/EvalAbs.v, which are functions by construction; a fresh process for dis/lift/asm); input re-serialisation, table digests, parser-table cache modes',
   text=("The models of expr_simp / eval_expr / eval_instr are Gallina functions of their explicit arguments; theorem (props/C12.v, closed): the one extra parameter, the fuel standing for recursion depth, is not a hidden input — more fuel gives the same result, so successful runs agree. The property is about the implementation, so the check "
         "replays histories of 4..50 API calls on shared expression objects and machines (400 quick / 6000 thorough) and compares each answer with the model (or a fresh process for dis/lift/asm/asm_att), "
         "re-serialises the inputs after each call, digests the shared x86 tables before/after, and runs assembler probes under empty / warm / stale (tables written by a modified grammar revision) cache "
         "directories. Failing histories are shrunk by greedy removal. One known finding: the is_eval flag set on shared objects."),
   note=TB + "Process-global state, object identity and on-disk caches are runtime facts that no Gallina model exhibits: this property is decided by execution against the pure models (category other, not proof).",
   design='4/C12', category='other'),
 'C11': dict(
   technique='translation of the lifted IR of the working tree into Gallina terms on every run (by executing the lifter on a catalogue of 16k instruction forms) + vm_compute reflection of the clause checks of Wf.v over the whole dump, modulo a committed list of known (mnemonic, operand-size, clause) classes',
   text=("Theorem (props/C11.v, closed): every form of the regenerated dump — one representative per (mnemonic, prefixes, operand size, address size, operand shape) signature of the decoder control space whose "
         "mnemonic has lifted semantics or uses the MMX fallback — satisfies each clause of the property (lifts without error; assignments to registers/memory of value expressions; determinate widths; equal "
         "operand widths for + - * & | ^ ==; slices inside; concatenations tile; source/destination widths incl. the 0/1 exception for flags; no overlapping destinations) unless the (mnemonic, o16, clause) class "
         "is in LiftKnown.v (244 classes = the recorded findings). A new clause for a listed mnemonic or any clause for an unlisted one breaks the obligation. Exploration: 60k further strings judged with the extracted checker."),
   note=TB + "The dump observes get_instr_expr by execution (translator = harness/dump_lift.py, fail-closed). Wf.v is a hand-written statement of the clauses; is01 is a syntactic sufficient condition. Parametricity inside a signature is sampled.",
   design='4/C11'),
}
PENDING = {p: 'check under construction in this round (see DESIGN.md section 6 staging); not claimed yet' for p in ALL}
def main():
    checks = []
    for pid in ALL:
        if pid not in CHECKS: continue
        c = CHECKS[pid]
        checks.append(dict(property_id=pid, quick_cmd='bin/check %s quick' % pid, thorough_cmd='bin/check %s thorough' % pid,
                           evidence_file='/verif/evidence/%s.json' % pid, replay_cmd_template='bin/check %s --replay {path}' % pid,
                           engine='coq-model+correspondence',
                           level_claimed=dict(category=c.get('category', 'proof'), text=c['text'], design_ref='DESIGN.md ' + c['design']),
                           level_note=c['note'], technique=c['technique']))
    na = [dict(property_id=p, reason=PENDING[p]) for p in ALL if p not in CHECKS]
    m = dict(version=1, setup_cmd='bin/setup',
             hooks=dict(guard='MIASMX_VERIF', enable='no source hooks: checks import /repo with PYTHONPATH=/repo MIASMX_VERIF=1 (the variable is read by nothing in /repo)',
                        baseline_off_cmd='cd /repo && /venv/bin/python -m pytest -ra -q -p no:cacheprovider', source_commits=[], add_only=True),
             engines=[dict(name='coq-model+correspondence', path='/verif/bin/check', serves_properties=sorted(CHECKS),
                           kind_free_text='Coq 8.16.1 theories (coq/theories, coq/props) + generated tables (coq/gen) + extracted OCaml model runner + Python differential harness')],
             checks=checks, not_applicable=na,
             notes='fix: commits in /repo and recorded findings are listed in known_findings.json; DESIGN.md section 8 records which checks catch which seeded changes')
    json.dump(m, open(os.path.join(ROOT, 'MANIFEST.json'), 'w'), indent=1)
main()
