"""x86ref.py — executable reference semantics of the IA-32 integer core, written from the Intel SDM (vol. 2) independently of
miasmX.  exec_instr(name, operands, state) -> (writes, undefined flags) where operands are structured (kind, ...) tuples.
State: regs {eax..edi: u32}, flags {cf,pf,af,zf,nf,of,df}, mem: function addr -> byte.  Results the architecture leaves undefined
are returned in the 'undef' set and never compared."""

REG32 = ['eax', 'ecx', 'edx', 'ebx', 'esp', 'ebp', 'esi', 'edi']
def default_mem(a): return ((a & 0xffffffff) * 37 + 11) & 255
def mask(n): return (1 << n) - 1
def sx(v, n): v &= mask(n); return v - (1 << n) if v >> (n - 1) else v
def parity(v): return 1 - (bin(v & 0xff).count('1') & 1)

class State:
    def __init__(self, regs, flags, memover=None):
        self.regs = dict(regs); self.flags = dict(flags); self.memover = dict(memover or {})
        self.wregs = {}; self.wflags = {}; self.wmem = {}; self.undef = set(); self.eip = None
        self.wmask = {}; self.rmem = set()      # bits of each register written through wr(); memory bytes read (C08)
    def mem(self, a):
        a &= 0xffffffff
        return self.memover.get(a, default_mem(a))
    def rd(self, op):
        k = op[0]
        if k == 'reg':
            idx, n = op[1], op[2]
            if n == 32: return self.regs[REG32[idx]]
            if n == 16: return self.regs[REG32[idx]] & 0xffff
            if n == 8: return (self.regs[REG32[idx & 3]] >> (8 if idx >= 4 else 0)) & 0xff
        if k == 'imm': return op[1] & mask(op[2])
        if k == 'mem':
            a = self.ea(op); n = op[2]
            for i in range(n // 8): self.rmem.add((a + i) & 0xffffffff)
            return sum(self.mem(a + i) << (8 * i) for i in range(n // 8))
        raise ValueError(op)
    def ea(self, op):
        # ('mem', addr terms [(regidx, coeff)], size, disp, addrsize)
        a = op[3]
        for r, c in op[1]:
            a += self.regs[REG32[r]] * c if op[4] == 32 else (self.regs[REG32[r]] & 0xffff) * c
        return a & mask(op[4])
    def wr(self, op, v):
        k = op[0]
        if k == 'reg':
            idx, n = op[1], op[2]; v &= mask(n)
            rr = REG32[idx] if n != 8 else REG32[idx & 3]
            self.wmask[rr] = self.wmask.get(rr, 0) | (mask(n) << (8 if n == 8 and idx >= 4 else 0))
            if n == 32: self.wregs[REG32[idx]] = v
            elif n == 16: r = REG32[idx]; self.wregs[r] = (self.wregs.get(r, self.regs[r]) & 0xffff0000) | v
            else:
                r = REG32[idx & 3]; cur = self.wregs.get(r, self.regs[r])
                self.wregs[r] = (cur & 0xffff00ff) | (v << 8) if idx >= 4 else (cur & 0xffffff00) | v
        elif k == 'mem':
            a = self.ea(op); n = op[2]
            for i in range(n // 8): self.wmem[(a + i) & 0xffffffff] = (v >> (8 * i)) & 0xff
        else: raise ValueError(op)
    def setf(self, **kw):
        for k, v in kw.items():
            if v is None: self.undef.add(k)
            else: self.wflags[k] = v & 1
    def szp(self, r, n): self.setf(zf=int(r & mask(n) == 0), nf=(r >> (n - 1)) & 1, pf=parity(r))

CC = {'o': lambda f: f['of'], 'no': lambda f: 1 - f['of'], 'b': lambda f: f['cf'], 'c': lambda f: f['cf'], 'nae': lambda f: f['cf'],
      'nb': lambda f: 1 - f['cf'], 'nc': lambda f: 1 - f['cf'], 'ae': lambda f: 1 - f['cf'], 'z': lambda f: f['zf'], 'e': lambda f: f['zf'],
      'nz': lambda f: 1 - f['zf'], 'ne': lambda f: 1 - f['zf'], 'be': lambda f: f['cf'] | f['zf'], 'na': lambda f: f['cf'] | f['zf'],
      'a': lambda f: 1 - (f['cf'] | f['zf']), 'nbe': lambda f: 1 - (f['cf'] | f['zf']), 's': lambda f: f['nf'], 'ns': lambda f: 1 - f['nf'],
      'p': lambda f: f['pf'], 'pe': lambda f: f['pf'], 'np': lambda f: 1 - f['pf'], 'po': lambda f: 1 - f['pf'],
      'l': lambda f: f['nf'] ^ f['of'], 'nge': lambda f: f['nf'] ^ f['of'], 'nl': lambda f: 1 - (f['nf'] ^ f['of']), 'ge': lambda f: 1 - (f['nf'] ^ f['of']),
      'le': lambda f: f['zf'] | (f['nf'] ^ f['of']), 'ng': lambda f: f['zf'] | (f['nf'] ^ f['of']),
      'nle': lambda f: 1 - (f['zf'] | (f['nf'] ^ f['of'])), 'g': lambda f: 1 - (f['zf'] | (f['nf'] ^ f['of']))}

def add_flags(s, a, b, cin, n):
    r = a + b + cin
    s.setf(cf=int(r >> n != 0), of=int(((a ^ r) & (b ^ r)) >> (n - 1) & 1), af=((a ^ b ^ r) >> 4) & 1); s.szp(r, n)
    return r & mask(n)
def sub_flags(s, a, b, cin, n):
    r = a - b - cin
    s.setf(cf=int(r < 0), of=int(((a ^ b) & (a ^ r)) >> (n - 1) & 1), af=((a ^ b ^ r) >> 4) & 1); s.szp(r, n)
    return r & mask(n)

def exec_instr(name, ops, s, opsize, next_eip, adsize=32, stack=32):
    """returns False when the reference does not cover the form.
    Direct branches: the lifter is given the branch operand as the destination (the library resolves relative displacements
    before lifting), so the reference target of a direct branch is the operand value itself; what is compared is taken / not taken."""
    if opsize == 16 and name in ('call', 'ret', 'leave', 'jmp', 'loop', 'loope', 'loopne', 'jecxz') or (opsize == 16 and name.startswith('j') and name[1:] in CC):
        return False        # 16-bit control transfers (IP truncation, 16-bit stack slots) are outside this reference
    f = s.flags; n = ops[0][2] if ops and ops[0][0] in ('reg', 'mem') else opsize
    if name in ('add', 'adc', 'sub', 'sbb', 'cmp', 'and', 'or', 'xor', 'test'):
        a = s.rd(ops[0]); b = s.rd(ops[1]) & mask(n)
        if ops[1][0] == 'imm' and ops[1][2] < n: b = sx(ops[1][1], ops[1][2]) & mask(n)
        if name == 'add': r = add_flags(s, a, b, 0, n)
        elif name == 'adc': r = add_flags(s, a, b, f['cf'], n)
        elif name in ('sub', 'cmp'): r = sub_flags(s, a, b, 0, n)
        elif name == 'sbb': r = sub_flags(s, a, b, f['cf'], n)
        else:
            r = {'and': a & b, 'test': a & b, 'or': a | b, 'xor': a ^ b}[name]
            s.setf(cf=0, of=0, af=None); s.szp(r, n)
        if name not in ('cmp', 'test'): s.wr(ops[0], r)
    elif name in ('inc', 'dec'):
        a = s.rd(ops[0]); cf = f['cf']
        r = add_flags(s, a, 1, 0, n) if name == 'inc' else sub_flags(s, a, 1, 0, n)
        s.wflags.pop('cf', None); s.wr(ops[0], r)
    elif name == 'neg':
        a = s.rd(ops[0]); r = sub_flags(s, 0, a, 0, n); s.wr(ops[0], r)
    elif name == 'not': s.wr(ops[0], ~s.rd(ops[0]))
    elif name == 'mov': s.wr(ops[0], s.rd(ops[1]))
    elif name == 'movzx': s.wr(ops[0], s.rd(ops[1]))
    elif name == 'movsx': s.wr(ops[0], sx(s.rd(ops[1]), ops[1][2]))
    elif name == 'lea':
        if ops[1][0] != 'mem': return False      # lea with a register source is #UD
        s.wr(ops[0], s.ea(ops[1]))
    elif name == 'xchg':
        a, b = s.rd(ops[0]), s.rd(ops[1]); s.wr(ops[0], b); s.wr(ops[1], a)
    elif name == 'xadd':
        a, b = s.rd(ops[0]), s.rd(ops[1]); r = add_flags(s, a, b, 0, n); s.wr(ops[1], a); s.wr(ops[0], r)
    elif name == 'cmpxchg':
        acc = ('reg', 0, n); a = s.rd(acc); d = s.rd(ops[0]); sub_flags(s, a, d, 0, n)
        if a == d: s.wr(ops[0], s.rd(ops[1]))
        else: s.wr(acc, d)
    elif name in ('shl', 'sal', 'shr', 'sar', 'rol', 'ror', 'rcl', 'rcr'):
        a = s.rd(ops[0]); c = (s.rd(ops[1]) if len(ops) > 1 else 1) & 31
        if name in ('rcl', 'rcr'):
            if c == 0: return True
            c %= (n + 1)
            if c == 0: s.setf(of=None); return True      # masked count 9/17/18/27: value and cf unchanged, of undefined (count != 1)
            x = (f['cf'] << n) | a
            x = ((x << c) | (x >> (n + 1 - c))) & mask(n + 1) if name == 'rcl' else ((x >> c) | (x << (n + 1 - c))) & mask(n + 1)
            r = x & mask(n); cf = x >> n
            of = ((r >> (n - 1)) ^ cf) & 1 if name == 'rcl' else ((r >> (n - 1)) ^ (r >> (n - 2))) & 1
            s.setf(cf=cf, of=of if (s.rd(ops[1]) & 31 if len(ops) > 1 else 1) == 1 else None); s.wr(ops[0], r); return True
        if c == 0: return True
        if name in ('rol', 'ror'):
            k = c % n
            r = ((a << k) | (a >> (n - k))) & mask(n) if name == 'rol' else ((a >> k) | (a << (n - k))) & mask(n)
            cf = r & 1 if name == 'rol' else (r >> (n - 1)) & 1
            of = ((r >> (n - 1)) ^ cf) & 1 if name == 'rol' else ((r >> (n - 1)) ^ (r >> (n - 2))) & 1
            s.setf(cf=cf, of=of if c == 1 else None); s.wr(ops[0], r); return True
        if name in ('shl', 'sal'):
            r = (a << c) & mask(n); cf = (a >> (n - c)) & 1 if c < n else None      # cf undefined when count >= operand size
            of = ((r >> (n - 1)) ^ (cf or 0)) & 1
        elif name == 'shr':
            r = a >> c; cf = (a >> (c - 1)) & 1 if c < n else None; of = (a >> (n - 1)) & 1
        else:
            r = (sx(a, n) >> c) & mask(n); cf = (sx(a, n) >> (c - 1)) & 1; of = 0
        s.setf(cf=cf, of=of if c == 1 else None, af=None); s.szp(r, n); s.wr(ops[0], r)
    elif name in ('shld', 'shrd', 'shld_cl', 'shrd_cl'):
        a = s.rd(ops[0]); b = s.rd(ops[1]); c = s.rd(ops[2]) & 31 if len(ops) > 2 else s.regs['ecx'] & 31
        if c == 0: return True
        if c > n:
            for k in ('cf', 'of', 'zf', 'nf', 'pf', 'af'): s.undef.add(k)
            s.undef.add('dst'); return True
        if name.startswith('shld'):
            r = ((a << c) | (b >> (n - c))) & mask(n); cf = (a >> (n - c)) & 1
        else:
            r = ((a >> c) | (b << (n - c))) & mask(n); cf = (a >> (c - 1)) & 1
        s.setf(cf=cf, of=(((a ^ r) >> (n - 1)) & 1) if c == 1 else None, af=None); s.szp(r, n); s.wr(ops[0], r)
    elif name in ('mul', 'imul', 'div', 'idiv') and len(ops) == 1:
        a = s.rd(('reg', 0, n)); b = s.rd(ops[0])
        hi_reg = ('reg', 4, 8) if n == 8 else ('reg', 2, n)
        if name in ('mul', 'imul'):
            p = a * b if name == 'mul' else sx(a, n) * sx(b, n)
            lo = p & mask(n); hi = (p >> n) & mask(n)
            over = int(hi != 0) if name == 'mul' else int(sx(lo, n) != p)
            s.wr(('reg', 0, n), lo); s.wr(hi_reg, hi); s.setf(cf=over, of=over, zf=None, nf=None, pf=None, af=None)
        else:
            if b == 0: return False
            hi = s.rd(hi_reg); big = (hi << n) | a
            if name == 'div':
                q, r = divmod(big, b)
                if q > mask(n): return False
            else:
                big = sx(big, 2 * n); bb = sx(b, n); q = abs(big) // abs(bb)
                if (big < 0) != (bb < 0): q = -q
                r = big - q * bb
                if not (-(1 << (n - 1)) <= q < (1 << (n - 1))): return False
            s.wr(('reg', 0, n), q); s.wr(hi_reg, r)
            for k in ('cf', 'of', 'zf', 'nf', 'pf', 'af'): s.undef.add(k)
    elif name == 'imul':
        a = s.rd(ops[1]); b = s.rd(ops[2]) if len(ops) > 2 else s.rd(ops[0])
        if len(ops) > 2 and ops[2][0] == 'imm': b = sx(ops[2][1], ops[2][2]) & mask(n)
        p = sx(a, n) * sx(b, n); r = p & mask(n); over = int(sx(r, n) != p)
        s.wr(ops[0], r); s.setf(cf=over, of=over, zf=None, nf=None, pf=None, af=None)
    elif name in ('bt', 'bts', 'btr', 'btc'):
        if ops[0][0] == 'mem' and ops[1][0] == 'reg': return False       # bit string addressing beyond the operand: not covered
        a = s.rd(ops[0]); i = s.rd(ops[1]) % n
        s.setf(cf=(a >> i) & 1, of=None, nf=None, af=None, pf=None)
        if name == 'bts': s.wr(ops[0], a | (1 << i))
        if name == 'btr': s.wr(ops[0], a & ~(1 << i))
        if name == 'btc': s.wr(ops[0], a ^ (1 << i))
    elif name in ('bsf', 'bsr'):
        b = s.rd(ops[1])
        for k in ('cf', 'of', 'nf', 'af', 'pf'): s.undef.add(k)
        if b == 0: s.setf(zf=1); s.undef.add('dst')
        else:
            s.setf(zf=0); s.wr(ops[0], (b & -b).bit_length() - 1 if name == 'bsf' else b.bit_length() - 1)
    elif name == 'bswap':
        a = s.rd(ops[0]); s.wr(ops[0], int.from_bytes(a.to_bytes(4, 'little'), 'big'))
    elif name == 'cbw': s.wr(('reg', 0, 16), sx(s.regs['eax'], 8))
    elif name == 'cwde': s.wr(('reg', 0, 32), sx(s.regs['eax'], 16))
    elif name == 'cwd': s.wr(('reg', 2, 16), 0xffff if s.regs['eax'] & 0x8000 else 0)
    elif name == 'cdq': s.wr(('reg', 2, 32), 0xffffffff if s.regs['eax'] >> 31 else 0)
    elif name in ('clc', 'stc', 'cmc', 'cld', 'std'):
        s.setf(**{'clc': dict(cf=0), 'stc': dict(cf=1), 'cmc': dict(cf=1 - f['cf']), 'cld': dict(df=0), 'std': dict(df=1)}[name])
    elif name == 'lahf': s.wr(('reg', 4, 8), (f['nf'] << 7) | (f['zf'] << 6) | (f['af'] << 4) | (f['pf'] << 2) | 2 | f['cf'])
    elif name == 'sahf':
        ah = (s.regs['eax'] >> 8) & 0xff; s.setf(nf=ah >> 7, zf=ah >> 6, af=ah >> 4, pf=ah >> 2, cf=ah)
    elif name.startswith('set') and name[3:] in CC: s.wr(ops[0], CC[name[3:]](f))
    elif name.startswith('cmov') and name[4:] in CC:
        if CC[name[4:]](f): s.wr(ops[0], s.rd(ops[1]))
    elif name == 'push':
        v = s.rd(ops[0]); w = opsize
        if ops[0][0] == 'imm': v = sx(ops[0][1], ops[0][2]) & mask(w)
        sp = (s.regs['esp'] - w // 8) & 0xffffffff
        s.wr(('mem', [], w, sp, 32), v); s.wregs['esp'] = sp
    elif name == 'pop':
        w = opsize; v = s.rd(('mem', [], w, s.regs['esp'], 32)); sp = (s.regs['esp'] + w // 8) & 0xffffffff
        # the stack pointer is incremented first; a memory destination is addressed with the new esp and a pop into (e)sp overwrites it
        s.wregs['esp'] = sp
        if ops[0][0] == 'mem':
            s.regs = dict(s.regs); old = s.regs['esp']; s.regs['esp'] = sp; s.wr(ops[0], v); s.regs['esp'] = old
        else: s.wr(ops[0], v)
    elif name == 'leave':
        bp = s.regs['ebp']; s.wregs['ebp'] = s.rd(('mem', [], 32, bp, 32)); s.wregs['esp'] = (bp + 4) & 0xffffffff
    elif name == 'call':
        sp = (s.regs['esp'] - 4) & 0xffffffff
        tgt = ops[0][1] & 0xffffffff if ops[0][0] == 'imm' else s.rd(ops[0])
        s.wr(('mem', [], 32, sp, 32), next_eip); s.wregs['esp'] = sp; s.eip = tgt
    elif name == 'ret':
        s.eip = s.rd(('mem', [], 32, s.regs['esp'], 32)); s.wregs['esp'] = (s.regs['esp'] + 4 + (ops[0][1] if ops else 0)) & 0xffffffff
    elif name == 'jmp':
        s.eip = ops[0][1] & 0xffffffff if ops[0][0] == 'imm' else s.rd(ops[0])
    elif name.startswith('j') and name[1:] in CC:
        s.eip = ops[0][1] & 0xffffffff if CC[name[1:]](f) else next_eip
    elif name in ('loop', 'loope', 'loopne', 'jecxz'):
        if name == 'jecxz': take = s.regs['ecx'] == 0
        else:
            c = (s.regs['ecx'] - 1) & 0xffffffff; s.wregs['ecx'] = c
            take = c != 0 and (name == 'loop' or (name == 'loope' and f['zf']) or (name == 'loopne' and not f['zf']))
        s.eip = ops[0][1] & 0xffffffff if take else next_eip
    elif name[:4] in ('movs', 'stos', 'lods', 'cmps', 'scas') and name[4:] in ('b', 'w', 'd') and name != 'movsx':
        w = {'b': 8, 'w': 16, 'd': 32}[name[4]]; step = (-(w // 8) if f['df'] else w // 8)
        si, di = s.regs['esi'], s.regs['edi']
        if name[:4] == 'movs': s.wr(('mem', [], w, di, 32), s.rd(('mem', [], w, si, 32)))
        if name[:4] == 'stos': s.wr(('mem', [], w, di, 32), s.rd(('reg', 0, w)))
        if name[:4] == 'lods': s.wr(('reg', 0, w), s.rd(('mem', [], w, si, 32)))
        if name[:4] == 'cmps': sub_flags(s, s.rd(('mem', [], w, si, 32)), s.rd(('mem', [], w, di, 32)), 0, w)
        if name[:4] == 'scas': sub_flags(s, s.rd(('reg', 0, w)), s.rd(('mem', [], w, di, 32)), 0, w)
        if name[:4] in ('movs', 'lods', 'cmps'): s.wregs['esi'] = (si + step) & 0xffffffff
        if name[:4] in ('movs', 'stos', 'cmps', 'scas'): s.wregs['edi'] = (di + step) & 0xffffffff
    elif name == 'nop': pass
    else:
        return False
    return True
