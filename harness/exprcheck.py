"""exprcheck.py — shared driver for the expression-level properties (C15, C16, C05, C13, C06):
run model and implementation on the same case lines, canonicalise, diff, group disagreements."""
import os, glob
from common import *
import exprlib as X

SET_OPS = ('getr', 'getw', 'ids', 'getr01', 'getr10')
def canon(line, out):
    op = line[1:].split(' ', 1)[0]
    if op in SET_OPS and out.startswith('('): return X.sort_set(out)
    return out

def run_both(chk, suite, impl_script, lines, hashseed='0', impl_args=()):
    model = [canon(l, o) for l, o in zip(lines, run_model(suite, lines))]
    impl = [canon(l, o) for l, o in zip(lines, run_impl(impl_script, lines, hashseed=hashseed, args=impl_args))]
    return model, impl

def model_eval(cases):
    """cases: list of (seed, sexp-text, overrides dict) -> list of ints"""
    lines = ['(ev %d %s (%s))' % (s, e, ' '.join('(%s %d)' % kv for kv in sorted(ov.items()))) for s, e, ov in cases]
    out = run_model('eval', lines)
    return [int(o) if not o.startswith('X') else None for o in out]

def load_corpus(pid):
    lines = []
    for p in sorted(glob.glob(os.path.join(ROOT, 'corpus', pid, '*.txt'))):
        lines += [l.strip() for l in open(p) if l.strip() and not l.startswith('#')]
    return lines

def values_equal(e1, e2, nseeds=24, overrides=None):
    """compare the standard meaning of two expressions (texts) under nseeds pseudo-random valuations;
    returns None when equal everywhere, else (seed, v1, v2)"""
    cases = []
    for s in range(nseeds):
        cases.append((s, e1, overrides or {})); cases.append((s, e2, overrides or {}))
    vals = model_eval(cases)
    for s in range(nseeds):
        if vals[2 * s] != vals[2 * s + 1]:
            return (s, vals[2 * s], vals[2 * s + 1])
    return None
