(** SemSysFacts.v — reflection obligation: every setalc / bsf / bsr / xlat / pushfd / pushfw / popfd / popfw / enter form of the lifted dump
    regenerated from /repo is, node for node, the mirror SemSys.mirror_sys of its dumped operands and operand-size flag. *)
From Coq Require Import ZArith List Bool String.
From Mx Require Import Expr Wf Sem SemProofs SemSys.
From MxGen Require Import LiftAll.
Import ListNotations.
Definition sys_tie_ok (c : lcase) : bool :=
  match sys_of (lc_mnemo c), lc_lift c with
  | Some k, Some l => match mirror_sys k (lc_o16 c) (lc_args c) with Some m => list_expr_eqb l m | None => false end
  | _, _ => true
  end.
Lemma sys_forms_are_mirrors : forallb (forallb sys_tie_ok) shards = true.
Proof. vm_compute. reflexivity. Qed.
Lemma sys_forms_lifted : forall sh c k l, In sh shards -> In c sh -> sys_of (lc_mnemo c) = Some k -> lc_lift c = Some l ->
  exists m, mirror_sys k (lc_o16 c) (lc_args c) = Some m /\ forall rho mu iota, map (eval rho mu iota) l = map (eval rho mu iota) m.
Proof.
  intros sh c k l Hs Hc Hk Hl. pose proof sys_forms_are_mirrors as H. rewrite forallb_forall in H. specialize (H _ Hs). rewrite forallb_forall in H.
  specialize (H _ Hc). unfold sys_tie_ok in H. rewrite Hk, Hl in H. destruct (mirror_sys k (lc_o16 c) (lc_args c)) as [m|]; [|discriminate].
  exists m. split; [reflexivity|]. intros rho mu iota. apply list_expr_eqb_eval. exact H.
Qed.
Definition n_sys : nat :=
  fold_left (fun acc sh => fold_left (fun acc c => match sys_of (lc_mnemo c), lc_lift c with Some k, Some l => S acc | _, _ => acc end) sh acc) shards O.
Lemma many_sys_forms : (170 <= n_sys)%nat.
Proof. vm_compute. repeat constructor. Qed.
