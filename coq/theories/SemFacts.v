(** SemFacts.v — reflection obligation: every inc/dec/neg form and every add/adc/sub/sbb/cmp/and/or/xor/test form of the lifted dump regenerated from
    /repo whose operands have equal width is syntactically the mirror of Sem.v applied to its own operands. *)
From Coq Require Import ZArith List Bool String.
From Mx Require Import Expr Wf Sem.
From MxGen Require Import LiftAll.
Import ListNotations.
Definition tie_ok (c : lcase) : bool :=
  match alu_of (lc_mnemo c), lc_lift c with
  | Some k, Some l => match operands_of k l with
                      | Some (a, b) => if (size a =? size b)%Z then is_mirror k l else true     (* unequal widths: C11 class, known *)
                      | None => false end
  | _, _ =>
      match una_of (lc_mnemo c), lc_lift c with
      | Some k, Some l => is_mirror_u k l          (* inc / dec / neg: every regenerated form *)
      | _, _ => true
      end
  end.
Definition n_tied : nat := fold_left (fun acc sh => fold_left (fun acc c => match alu_of (lc_mnemo c), lc_lift c with Some k, Some l => if is_mirror k l then S acc else acc | _, _ => acc end) sh acc) shards O.
Lemma alu_forms_are_mirrors : forallb (forallb tie_ok) shards = true.
Proof. vm_compute. reflexivity. Qed.
Lemma alu_forms_tied_lifted : forall sh c, In sh shards -> In c sh -> tie_ok c = true.
Proof. intros sh c Hs Hc. pose proof alu_forms_are_mirrors as H. rewrite forallb_forall in H. specialize (H _ Hs). rewrite forallb_forall in H. apply H. assumption. Qed.
Lemma many_forms_tied : (2000 <= n_tied)%nat.
Proof. vm_compute. repeat constructor. Qed.
Definition n_tied_u : nat := fold_left (fun acc sh => fold_left (fun acc c => match una_of (lc_mnemo c), lc_lift c with Some k, Some l => if is_mirror_u k l then S acc else acc | _, _ => acc end) sh acc) shards O.
Lemma many_unary_forms_tied : (150 <= n_tied_u)%nat.
Proof. vm_compute. repeat constructor. Qed.
