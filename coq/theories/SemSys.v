(** SemSys.v — mirror of further integer-core instructions of the x86 lifter (miasmx/arch/ia32_sem.py: setalc, bsf, bsr, xlat, pushfd,
    pushfw, popfd, popfw, enter) on the operand expressions the lifter was called with and the operand-size flag.  No proofs here. *)
From Coq Require Import ZArith List Bool String.
From Mx Require Import Expr Sem SemStr SemMov SemCtl SemMisc.
Import ListNotations.
Open Scope string_scope.
Open Scope list_scope.
Open Scope Z_scope.

Inductive sys := Setalc | Bsf | Bsr | Xlat | Pushf | Popfd | Popfw | Enter.
Definition sys_of (mn : string) : option sys :=
  let is x := (mn =? x)%string in
  if is "setalc" then Some Setalc else if is "bsf" then Some Bsf else if is "bsr" then Some Bsr else if is "xlat" then Some Xlat
  else if is "pushfd" || is "pushfw" then Some Pushf else if is "popfd" then Some Popfd else if is "popfw" then Some Popfw
  else if is "enter" then Some Enter else None.
Definition ebx : expr := EId "ebx" 32 true false.
Definition al : expr := ESlice eax 0 8.
Definition i32 (v : Z) : expr := EInt false 32 v.
(** the bits of EFLAGS as the lifter lays them out: (expression, first bit, bit after the last) *)
Definition eflag_low : list slot :=
  [(flag "cf", 0, 1); (i32 1, 1, 2); (flag "pf", 2, 3); (i32 0, 3, 4); (flag "af", 4, 5); (i32 0, 5, 6); (flag "zf", 6, 7); (flag "nf", 7, 8);
   (flag "tf", 8, 9); (flag "i_f", 9, 10); (flag "df", 10, 11); (flag "of", 11, 12); (EId "iopl_f" 2 true false, 12, 14); (flag "nt", 14, 15); (i32 0, 15, 16)].
Definition eflag_high : list slot :=
  [(flag "rf", 16, 17); (flag "vm", 17, 18); (flag "ac", 18, 19); (flag "vif", 19, 20); (flag "vip", 20, 21); (flag "i_d", 21, 22); (i32 0, 22, 32)].
Definition compose_eflag (w : Z) : expr := ECompose (if w =? 32 then eflag_low ++ eflag_high else eflag_low).
(** popf: every flag expression of the layout that is not a constant receives its bits of the popped cell *)
Definition popf_affs (l : list slot) (cell : expr) : list expr :=
  flat_map (fun s => match slot_e s with EInt _ _ _ => [] | f => [EAff f (ESlice cell (slot_lo s) (slot_hi s))] end) l.
Definition xlat_addr : expr := EOp "+" [ebx; ECompose [(i32 0, 8, 32); (al, 0, 8)]].
Definition mirror_sys (k : sys) (o16 : bool) (args : list expr) : option (list expr) :=
  match k, args with
  | Setalc, [] => Some [mk_aff al (ECond (flag "cf") (int_from al 255) (int_from al 0))]
  | Bsf, [a; b] => Some [mk_aff a (EOp "bsf" [b]); EAff (flag "zf") (ECond b (i1 0) (i1 1))]
  | Bsr, [a; b] => Some [mk_aff a (EOp "bsr" [b]); EAff (flag "zf") (ECond b (i1 0) (i1 1))]
  | Xlat, [] => Some [mk_aff al (EMem xlat_addr 8 None)]
  | Pushf, [] => mirror_mv Push [compose_eflag (if o16 then 16 else 32)]
  | Popfd, [] => Some (popf_affs (eflag_low ++ eflag_high) (EMem esp 32 None) ++ [EAff esp (EOp "+" [esp; i32 4])])
  | Popfw, [] => Some (popf_affs eflag_low (EMem esp 32 None) ++ [EAff esp (EOp "+" [esp; i32 2])])
  | Enter, [a; b] =>
      let s := if o16 then 16 else 32 in
      let sp := if o16 then ESlice esp 0 16 else esp in let bp := if o16 then ESlice ebp 0 16 else ebp in
      let tmp := EOp "-" [sp; EInt false s (s / 8)] in
      Some [EAff (EMem tmp s None) bp; mk_aff bp tmp; mk_aff sp (EOp "-" [sp; EOp "+" [a; EInt false s (s / 8)]])]
  | _, _ => None
  end.
