(** SemDShiftFacts.v — reflection obligation: in every shld / shrd form (immediate and cl counts) of the lifted dump regenerated from /repo
    the assignment of the destination is the mirror SemDShift.dshift_val applied to the operand expressions the lifter was called with. *)
From Coq Require Import ZArith List Bool String.
From Mx Require Import Expr Wf Sem SemShift SemDShift SemDShiftProofs.
From MxGen Require Import LiftAll.
Import ListNotations.
Definition dsh_tie_ok (c : lcase) : bool :=
  match dsh_of (lc_mnemo c), lc_lift c with
  | Some k, Some l => is_dshift_mirror k (lc_args c) l
  | _, _ => true
  end.
Lemma dshift_forms_are_mirrors : forallb (forallb dsh_tie_ok) shards = true.
Proof. vm_compute. reflexivity. Qed.
Lemma dshift_forms_lifted : forall sh c k l, In sh shards -> In c sh -> dsh_of (lc_mnemo c) = Some k -> lc_lift c = Some l -> is_dshift_mirror k (lc_args c) l = true.
Proof.
  intros sh c k l Hs Hc Hk Hl. pose proof dshift_forms_are_mirrors as H. rewrite forallb_forall in H. specialize (H _ Hs). rewrite forallb_forall in H.
  specialize (H _ Hc). unfold dsh_tie_ok in H. rewrite Hk, Hl in H. exact H.
Qed.
Definition n_dsh : nat :=
  fold_left (fun acc sh => fold_left (fun acc c => match dsh_of (lc_mnemo c), lc_lift c with Some k, Some l => if is_dshift_mirror k (lc_args c) l then S acc else acc | _, _ => acc end) sh acc) shards O.
Lemma many_dshift_forms : (300 <= n_dsh)%nat.
Proof. vm_compute. repeat constructor. Qed.
