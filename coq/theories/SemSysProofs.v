(** SemSysProofs.v — what the mirror of SemSys.v means, for all states. *)
From Coq Require Import ZArith List Bool String Lia.
From Mx Require Import Expr ExprProofs Sem SemProofs SemStr SemMov SemCtl SemMisc SemSys ComposeProofs SemMulDivProofs.
Import ListNotations.
Open Scope Z_scope.

(** * bit scans *)
Definition scan (v : Z) := fix go (n : nat) (i : Z) : Z := match n with O => 0 | S k => if Z.testbit v i then i else go k (i + 1) end.
Lemma bsf_scan v : bit_scan_fwd v = scan v 64%nat 0.
Proof. reflexivity. Qed.
Lemma scan_spec v : forall n i, 0 <= i -> (exists j, i <= j < i + Z.of_nat n /\ Z.testbit v j = true) ->
  let r := scan v n i in Z.testbit v r = true /\ i <= r < i + Z.of_nat n /\ forall t, i <= t < r -> Z.testbit v t = false.
Proof.
  induction n as [|n IH]; intros i Hi [j [Hj Tj]]; [lia|]. cbn [scan]. destruct (Z.testbit v i) eqn:T.
  - split; [exact T|]. split; [lia|]. intros t Ht. lia.
  - assert (J : i + 1 <= j < i + 1 + Z.of_nat n). { destruct (Z.eq_dec j i) as [->|N]; [congruence | lia]. }
    destruct (IH (i + 1) ltac:(lia) (ex_intro _ j (conj J Tj))) as (A & B & C). fold (scan v n (i + 1)). split; [exact A|]. split; [lia|].
    intros t Ht. destruct (Z.eq_dec t i) as [->|N]; [exact T | apply C; lia].
Qed.
(** bsf: the index of the lowest set bit; bsr: the index of the highest set bit *)
Theorem bsf_lowest v : 0 < v < 2 ^ 64 -> let k := bit_scan_fwd v in 0 <= k < 64 /\ Z.testbit v k = true /\ forall t, 0 <= t < k -> Z.testbit v t = false.
Proof.
  intros Hv k. unfold k. rewrite bsf_scan.
  assert (E : exists j, 0 <= j < 0 + Z.of_nat 64 /\ Z.testbit v j = true).
  { exists (Z.log2 v). split; [split; [apply Z.log2_nonneg | apply Z.log2_lt_pow2; lia] | apply Z.bit_log2; lia]. }
  destruct (scan_spec v 64%nat 0 ltac:(lia) E) as (A & B & C). split; [lia|]. split; assumption.
Qed.
Theorem bsr_highest v : 0 < v -> let k := bit_scan_rev v in Z.testbit v k = true /\ forall t, k < t -> Z.testbit v t = false.
Proof.
  intros Hv k. unfold k, bit_scan_rev. replace (v <=? 0) with false by (symmetry; apply Z.leb_gt; lia). split; [apply Z.bit_log2; lia | intros t Ht; apply Z.bits_above_log2; lia].
Qed.
Lemma named_bsf a : named_op "bsf" [a] = Some (bit_scan_fwd a). Proof. reflexivity. Qed.
Lemma named_bsr a : named_op "bsr" [a] = Some (bit_scan_rev a). Proof. reflexivity. Qed.

Section Meaning.
  Variable rho : string -> Z.
  Variable mu : Z -> Z.
  Variable iota : string -> list Z -> Z.
  Notation ev := (eval rho mu iota).

  Lemma size_op1 op p : size (EOp op [p]) = size p.
  Proof. cbn [size]. destruct (size p =? 0); reflexivity. Qed.
  Lemma ev_named1 nm p v : opk_of nm = OOther -> named_op nm [ev p] = Some v -> ev (EOp nm [p]) = wrap (size p) v.
  Proof. intros K N. rewrite eval_op_node, size_op1. cbn [map]. unfold eval_op. rewrite K. cbn [rc_op]. rewrite N. reflexivity. Qed.
  (** bsf / bsr on a non-zero operand of at most 64 bits: the destination receives the index of the lowest / highest set bit *)
  Theorem bsf_value b : operand_ok b = true -> size b <= 64 -> ev b <> 0 ->
    let k := ev (EOp "bsf" [b]) in 0 <= k < size b /\ Z.testbit (ev b) k = true /\ forall t, 0 <= t < k -> Z.testbit (ev b) t = false.
  Proof.
    intros Ob Sb Nz. destruct (operand_range rho mu iota b Ob) as [Pb Rb]. cbv zeta. rewrite (ev_named1 "bsf" b _ eq_refl (named_bsf _)).
    assert (R64 : 0 < ev b < 2 ^ 64) by (split; [lia|]; apply Z.lt_le_trans with (2 ^ size b); [lia | apply Z.pow_le_mono_r; lia]).
    destruct (bsf_lowest (ev b) R64) as (A & B & C). cbv zeta in A, B, C.
    assert (K : bit_scan_fwd (ev b) < size b).
    { destruct (Z_lt_le_dec (bit_scan_fwd (ev b)) (size b)) as [L|L]; [exact L|]. exfalso.
      assert (G : forall t, size b <= t -> Z.testbit (ev b) t = false) by (intros t Ht; rewrite <- (Z.mod_small (ev b) (2 ^ size b)) by lia; apply Z.mod_pow2_bits_high; lia).
      rewrite (G _ L) in B. discriminate. }
    assert (W : wrap (size b) (bit_scan_fwd (ev b)) = bit_scan_fwd (ev b)).
    { apply Z.mod_small. split; [lia|]. apply Z.lt_trans with (size b); [lia | apply Z.pow_gt_lin_r; lia]. }
    rewrite W. split; [lia|]. split; assumption.
  Qed.
  Theorem bsr_value b : operand_ok b = true -> ev b <> 0 ->
    let k := ev (EOp "bsr" [b]) in 0 <= k < size b /\ Z.testbit (ev b) k = true /\ forall t, k < t -> Z.testbit (ev b) t = false.
  Proof.
    intros Ob Nz. destruct (operand_range rho mu iota b Ob) as [Pb Rb]. cbv zeta. rewrite (ev_named1 "bsr" b _ eq_refl (named_bsr _)).
    destruct (bsr_highest (ev b) ltac:(lia)) as (A & B). cbv zeta in A, B.
    assert (K : 0 <= bit_scan_rev (ev b) < size b).
    { unfold bit_scan_rev. replace (ev b <=? 0) with false by (symmetry; apply Z.leb_gt; lia). split; [apply Z.log2_nonneg | apply Z.log2_lt_pow2; lia]. }
    assert (W : wrap (size b) (bit_scan_rev (ev b)) = bit_scan_rev (ev b)).
    { apply Z.mod_small. split; [lia|]. apply Z.lt_trans with (size b); [lia | apply Z.pow_gt_lin_r; lia]. }
    rewrite W. split; [exact K|]. split; assumption.
  Qed.
  (** setalc: al is all ones when cf is set, zero otherwise *)
  Theorem setalc_value : ev (ECond (flag "cf") (int_from al 255) (int_from al 0)) = if Z.odd (rho "cf") then 255 else 0.
  Proof.
    change (ev (ECond (flag "cf") (int_from al 255) (int_from al 0))) with (if ev (flag "cf") =? 0 then 0 mod 2 ^ 8 else 255 mod 2 ^ 8).
    assert (E : ev (flag "cf") = if Z.odd (rho "cf") then 1 else 0) by (unfold flag; cbn [eval]; unfold wrap; change (2 ^ 1) with 2; apply Zmod_odd).
    rewrite E. destruct (Z.odd (rho "cf")); reflexivity.
  Qed.
  (** xlat: the byte at ebx + zero-extended al, modulo 2^32 *)
  Theorem xlat_address : ev xlat_addr = (rho "ebx" + rho "eax" mod 2 ^ 8) mod 2 ^ 32.
  Proof.
    unfold xlat_addr. rewrite (ev_add rho mu iota ebx) by (cbn; lia). change (size ebx) with 32.
    assert (Z0 : ev (ECompose [(i32 0, 8, 32); (al, 0, 8)]) = rho "eax" mod 2 ^ 8).
    { rewrite eval_compose. cbn [map fold_left]. unfold slot_val, slot_hi, slot_lo, slot_e. cbn [fst snd]. replace (32 - 8) with 24 by lia. replace (8 - 0) with 8 by lia.
      change (ev (i32 0)) with 0. change (wrap 24 0) with 0. change (Z.shiftl 0 8) with 0. change (Z.lor 0 0) with 0. rewrite Z.lor_0_l, Z.shiftl_0_r.
      unfold al. cbn [eval]. rewrite Z.shiftr_0_r. replace (8 - 0) with 8 by lia. change (ev eax) with (wrap 32 (rho "eax")).
      rewrite wrap_idem. apply wrap_wrap_ge. lia. }
    rewrite Z0. cbn [eval ebx]. unfold wrap. rewrite Zplus_mod_idemp_l. reflexivity.
  Qed.

  (** pushf / popf: the EFLAGS image — bit j of the pushed value is the bit of the flag the layout places there *)
  Lemma layout_geom w : forall a, In a (if w =? 32 then eflag_low ++ eflag_high else eflag_low) -> 0 <= slot_lo a /\ slot_lo a <= slot_hi a.
  Proof.
    intros a Ha. assert (F : forallb (fun s => (0 <=? slot_lo s) && (slot_lo s <=? slot_hi s)) (eflag_low ++ eflag_high) = true) by (vm_compute; reflexivity).
    rewrite forallb_forall in F. assert (I : In a (eflag_low ++ eflag_high)) by (destruct (w =? 32); [exact Ha | apply in_or_app; left; exact Ha]).
    specialize (F a I). apply andb_true_iff in F as [A B]. apply Z.leb_le in A, B. split; assumption.
  Qed.
  Theorem eflags_image w s j : In s (if w =? 32 then eflag_low ++ eflag_high else eflag_low) -> slot_lo s <= j < slot_hi s ->
    Z.testbit (ev (compose_eflag w)) j = Z.testbit (ev (slot_e s)) (j - slot_lo s).
  Proof.
    intros Hs Hj. unfold compose_eflag. rewrite eval_compose_V. destruct (layout_geom w s Hs) as [G1 G2].
    assert (Oc : forall i, occ (if w =? 32 then eflag_low ++ eflag_high else eflag_low) i <= 1) by (apply pdisj_occ; destruct (w =? 32); vm_compute; reflexivity).
    pose proof (V_bit_unique rho mu iota _ s j ltac:(lia) (layout_geom w) Hs Oc Hj) as U. etransitivity; [exact U|]. unfold sval. rewrite fld_bits by lia.
    replace (slot_lo s <=? j) with true by (symmetry; apply Z.leb_le; lia). replace (j <? slot_hi s) with true by (symmetry; apply Z.ltb_lt; lia). reflexivity.
  Qed.
  (** popf assigns every flag of the layout its bits of the popped cell *)
  Theorem popf_assigns l cell f lo hi : In (f, lo, hi) l -> (forall sg w v, f <> EInt sg w v) -> In (EAff f (ESlice cell lo hi)) (popf_affs l cell).
  Proof.
    intros Hi Nc. unfold popf_affs. apply in_flat_map. exists (f, lo, hi). split; [exact Hi|]. unfold slot_e, slot_lo, slot_hi. cbn [fst snd].
    destruct f; try (left; reflexivity). exfalso. eapply Nc. reflexivity.
  Qed.
  Theorem slice_value c lo hi : ev (ESlice c lo hi) = (Z.shiftr (ev c) lo) mod 2 ^ (hi - lo).
  Proof. reflexivity. Qed.

  (** enter (nesting level 0): ebp is saved at esp - 4, becomes the frame pointer, and esp drops by the frame size plus 4, modulo 2^32 *)
  Theorem enter32_value a : operand_ok a = true -> size a = 32 ->
    ev (EOp "-" [esp; EInt false 32 4]) = (rho "esp" - 4) mod 2 ^ 32 /\
    ev (EOp "-" [esp; EOp "+" [a; EInt false 32 4]]) = (rho "esp" - (ev a + 4)) mod 2 ^ 32.
  Proof.
    intros Oa Sa. split.
    - rewrite (ev_sub rho mu iota esp) by (cbn; lia). cbn [size esp eval]. unfold wrap. rewrite (Z.mod_small 4) by (change (2 ^ 32) with 4294967296; lia). rewrite Zminus_mod_idemp_l. reflexivity.
    - rewrite (ev_sub rho mu iota esp) by (cbn; lia). rewrite (ev_add rho mu iota a) by lia. rewrite Sa. cbn [size esp eval]. unfold wrap.
      rewrite (Z.mod_small 4) by (change (2 ^ 32) with 4294967296; lia). rewrite Zminus_mod_idemp_l, Zminus_mod_idemp_r. reflexivity.
  Qed.
End Meaning.
