(** Operand.v — the term algebra of the Intel operand parser (miasmx/core/parse_ad.py): number normalisation
    int(int32(uint32(n))) and the numeric part of dict_add / dict_sub / dict_mul (register coefficients, the immediate and the
    size/scale key are all integer-valued entries of one dictionary; keys are coded as integers).  Hand transcription (tie H),
    tied by exact-output correspondence (harness/impl_operand.py).  The 'txt' memo and symbol sub-dictionaries are outside. *)
From Coq Require Import ZArith List Bool.
Import ListNotations.
Open Scope Z_scope.

Definition norm32 (n : Z) : Z := let u := n mod 2 ^ 32 in if u <? 2 ^ 31 then u else u - 2 ^ 32.

Definition odict := list (Z * Z).       (* insertion-ordered dictionary: key, value *)
Fixpoint lookup (d : odict) (k : Z) : option Z :=
  match d with [] => None | (k', v) :: r => if k' =? k then Some v else lookup r k end.
Definition coef (d : odict) (k : Z) : Z := match lookup d k with Some v => v | None => 0 end.
Fixpoint remove (d : odict) (k : Z) : odict :=
  match d with [] => [] | (k', v) :: r => if k' =? k then remove r k else (k', v) :: remove r k end.
Fixpoint set (d : odict) (k v : Z) : odict :=
  match d with [] => [(k, v)] | (k', v') :: r => if k' =? k then (k, v) :: r else (k', v') :: set r k v end.
(** tmp[k] = new value; del tmp[k] if it is 0 *)
Definition upd (d : odict) (k v : Z) : odict := if v =? 0 then remove d k else set d k v.
Definition dict_add (a b : odict) : odict := fold_left (fun tmp kv => upd tmp (fst kv) (coef tmp (fst kv) + snd kv)) b a.
Definition dict_sub (a b : odict) : odict := fold_left (fun tmp kv => upd tmp (fst kv) (coef tmp (fst kv) - snd kv)) b a.
(** dict_mul with a pure immediate on one side *)
Definition dict_scale (c : Z) (b : odict) : odict := map (fun kv => (fst kv, c * snd kv)) b.
