(** SemMulDivProofs.v — what the multiply / divide mirror of SemMulDiv.v means under Expr.eval, whose interpretation of the lifter's
    named wide operators is Expr.named_op: the double-width product, the truncated product, quotient and remainder. *)
From Coq Require Import ZArith List Bool String Lia.
From Mx Require Import Expr ExprProofs Sem SemProofs SemStr SemMisc SemMulDiv.
Import ListNotations.
Open Scope Z_scope.

(** * arithmetic *)
Lemma hi_lo_split n P : 0 <= n -> wrap n (Z.shiftr P n) * 2 ^ n + wrap n P = P mod 2 ^ (2 * n).
Proof.
  intros Hn. unfold wrap. rewrite Z.shiftr_div_pow2 by lia. assert (P2 : 0 < 2 ^ n) by (apply Z.pow_pos_nonneg; lia).
  replace (2 ^ (2 * n)) with (2 ^ n * 2 ^ n) by (rewrite <- Z.pow_add_r by lia; f_equal; lia). rewrite Z.rem_mul_r by lia. lia.
Qed.
Lemma umul_split n x y : 0 <= n -> 0 <= x < 2 ^ n -> 0 <= y < 2 ^ n -> wrap n (Z.shiftr (x * y) n) * 2 ^ n + wrap n (x * y) = x * y.
Proof.
  intros Hn Hx Hy. rewrite hi_lo_split by exact Hn. apply Z.mod_small. replace (2 ^ (2 * n)) with (2 ^ n * 2 ^ n) by (rewrite <- Z.pow_add_r by lia; f_equal; lia). nia.
Qed.
Lemma wrap_idem n v : wrap n (wrap n v) = wrap n v.
Proof. unfold wrap. destruct (Z.eq_dec (2 ^ n) 0) as [E|E]; [rewrite E, !Zmod_0_r; reflexivity | apply Z.mod_mod; exact E]. Qed.
Lemma wrap_small n v : 0 <= v < 2 ^ n -> wrap n v = v.
Proof. apply Z.mod_small. Qed.
Lemma sgn_wrap_signed n v : 0 < n -> - 2 ^ (n - 1) <= v < 2 ^ (n - 1) -> sgn n (wrap n v) = v.
Proof.
  intros Hn Hv. destruct (pow_split n Hn) as [E P]. unfold sgn. cbv zeta. rewrite wrap_idem. unfold wrap.
  destruct (Z_lt_le_dec v 0) as [N|N].
  - rewrite <- (Z.mod_unique_pos v (2 ^ n) (-1) (v + 2 ^ n)) by lia. destruct (Z.geb_spec (2 * (v + 2 ^ n)) (2 ^ n)); lia.
  - rewrite Z.mod_small by lia. destruct (Z.geb_spec (2 * v) (2 ^ n)); lia.
Qed.
Lemma sgn_congr n v : 0 < n -> (sgn n v) mod 2 ^ n = v mod 2 ^ n.
Proof.
  intros Hn. unfold sgn. cbv zeta. unfold wrap. assert (P : 0 < 2 ^ n) by (apply Z.pow_pos_nonneg; lia).
  destruct (2 * (v mod 2 ^ n) >=? 2 ^ n); [|apply Z.mod_mod; lia].
  replace (v mod 2 ^ n - 2 ^ n) with (v mod 2 ^ n + (-1) * 2 ^ n) by lia. rewrite Z.mod_add by lia. apply Z.mod_mod. lia.
Qed.

Lemma wrap_wrap_ge m n v : 0 <= n <= m -> wrap n (wrap m v) = wrap n v.
Proof.
  intros H. unfold wrap. replace (2 ^ m) with (2 ^ n * 2 ^ (m - n)) by (rewrite <- Z.pow_add_r by lia; f_equal; lia).
  assert (P1 : 0 < 2 ^ n) by (apply Z.pow_pos_nonneg; lia). assert (P2 : 0 < 2 ^ (m - n)) by (apply Z.pow_pos_nonneg; lia).
  rewrite Z.rem_mul_r by lia. rewrite (Z.mul_comm (2 ^ n)), Z.mod_add by lia. apply Z.mod_mod. lia.
Qed.

(** * the named operators *)
Lemma named_umul32_hi a b : named_op "umul32_hi" [a; b] = Some (Z.shiftr (wrap 32 a * wrap 32 b) 32). Proof. reflexivity. Qed.
Lemma named_umul32_lo a b : named_op "umul32_lo" [a; b] = Some (wrap 32 (wrap 32 a * wrap 32 b)). Proof. reflexivity. Qed.
Lemma named_umul16_hi a b : named_op "umul16_hi" [a; b] = Some (Z.shiftr (wrap 16 a * wrap 16 b) 16). Proof. reflexivity. Qed.
Lemma named_umul16_lo a b : named_op "umul16_lo" [a; b] = Some (wrap 16 (wrap 16 a * wrap 16 b)). Proof. reflexivity. Qed.
Lemma named_umul08 a b : named_op "umul08" [a; b] = Some (wrap 8 a * wrap 8 b). Proof. reflexivity. Qed.
Lemma named_imul32_hi a b : named_op "imul32_hi" [a; b] = Some (wrap 32 (Z.shiftr (sgn 32 a * sgn 32 b) 32)). Proof. reflexivity. Qed.
Lemma named_imul32_lo a b : named_op "imul32_lo" [a; b] = Some (wrap 32 (sgn 32 a * sgn 32 b)). Proof. reflexivity. Qed.
Lemma named_imul16_hi a b : named_op "imul16_hi" [a; b] = Some (wrap 16 (Z.shiftr (sgn 16 a * sgn 16 b) 16)). Proof. reflexivity. Qed.
Lemma named_imul16_lo a b : named_op "imul16_lo" [a; b] = Some (wrap 16 (sgn 16 a * sgn 16 b)). Proof. reflexivity. Qed.
Lemma named_imul08 a b : named_op "imul08" [a; b] = Some (wrap 16 (sgn 8 a * sgn 8 b)). Proof. reflexivity. Qed.


(** * division *)
Definition big (n hi lo : Z) : Z := wrap n hi * 2 ^ n + wrap n lo.
Definition udiv (n hi lo d : Z) : Z := if wrap n d =? 0 then 0 else wrap n (big n hi lo / wrap n d).
Definition urem (n hi lo d : Z) : Z := if wrap n d =? 0 then 0 else wrap n (big n hi lo mod wrap n d).
Definition sdiv (n hi lo d : Z) : Z := if wrap n d =? 0 then 0 else wrap n (Z.quot (sgn (2 * n) (big n hi lo)) (sgn n d)).
Definition srem (n hi lo d : Z) : Z := if wrap n d =? 0 then 0 else wrap n (Z.rem (sgn (2 * n) (big n hi lo)) (sgn n d)).
Lemma named_div8 hi lo d : named_op "div8" [hi; lo; d] = Some (udiv 8 hi lo d). Proof. reflexivity. Qed.
Lemma named_div16 hi lo d : named_op "div16" [hi; lo; d] = Some (udiv 16 hi lo d). Proof. reflexivity. Qed.
Lemma named_div32 hi lo d : named_op "div32" [hi; lo; d] = Some (udiv 32 hi lo d). Proof. reflexivity. Qed.
Lemma named_rem8 hi lo d : named_op "rem8" [hi; lo; d] = Some (urem 8 hi lo d). Proof. reflexivity. Qed.
Lemma named_rem16 hi lo d : named_op "rem16" [hi; lo; d] = Some (urem 16 hi lo d). Proof. reflexivity. Qed.
Lemma named_rem32 hi lo d : named_op "rem32" [hi; lo; d] = Some (urem 32 hi lo d). Proof. reflexivity. Qed.
Lemma named_idiv8 hi lo d : named_op "idiv8" [hi; lo; d] = Some (sdiv 8 hi lo d). Proof. reflexivity. Qed.
Lemma named_idiv16 hi lo d : named_op "idiv16" [hi; lo; d] = Some (sdiv 16 hi lo d). Proof. reflexivity. Qed.
Lemma named_idiv32 hi lo d : named_op "idiv32" [hi; lo; d] = Some (sdiv 32 hi lo d). Proof. reflexivity. Qed.
Lemma named_irem8 hi lo d : named_op "irem8" [hi; lo; d] = Some (srem 8 hi lo d). Proof. reflexivity. Qed.
Lemma named_irem16 hi lo d : named_op "irem16" [hi; lo; d] = Some (srem 16 hi lo d). Proof. reflexivity. Qed.
Lemma named_irem32 hi lo d : named_op "irem32" [hi; lo; d] = Some (srem 32 hi lo d). Proof. reflexivity. Qed.

(** unsigned: when the divisor is not zero and the quotient fits (no #DE), quotient and remainder are those of the double-width dividend *)
Lemma udiv_spec n hi lo d : 0 < n -> 0 <= hi < 2 ^ n -> 0 <= lo < 2 ^ n -> 0 < d < 2 ^ n ->
  let D := hi * 2 ^ n + lo in D / d < 2 ^ n -> udiv n hi lo d = D / d /\ urem n hi lo d = D mod d.
Proof.
  intros Hn Hh Hl Hd D Q. unfold udiv, urem, big. rewrite (wrap_small n hi Hh), (wrap_small n lo Hl), (wrap_small n d) by lia. fold D.
  replace (d =? 0) with false by (symmetry; apply Z.eqb_neq; lia). assert (D0 : 0 <= D) by (unfold D; nia).
  split; apply wrap_small.
  - split; [apply Z.div_pos; lia | exact Q].
  - pose proof (Z.mod_pos_bound D d ltac:(lia)). lia.
Qed.
Lemma sgn_of_wrap n v : sgn n (wrap n v) = sgn n v.
Proof. unfold sgn. cbv zeta. rewrite wrap_idem. reflexivity. Qed.
Lemma sgn_range n v : 0 < n -> - 2 ^ (n - 1) <= sgn n v < 2 ^ (n - 1).
Proof.
  intros Hn. destruct (pow_split n Hn) as [E P]. unfold sgn. cbv zeta. pose proof (wrap_range n v ltac:(lia)) as R.
  destruct (Z.geb_spec (2 * wrap n v) (2 ^ n)); lia.
Qed.
Lemma sgn_zero n v : 0 < n -> sgn n v = 0 -> wrap n v = 0.
Proof.
  intros Hn. unfold sgn. cbv zeta. pose proof (wrap_range n v ltac:(lia)) as R. destruct (Z.geb_spec (2 * wrap n v) (2 ^ n)); lia.
Qed.
(** signed: when the divisor is not zero and the truncated quotient fits the signed range (no #DE), the signed readings of the results
    are the truncated quotient and remainder of the signed double-width dividend by the signed divisor *)
Lemma sdiv_spec n hi lo d : 0 < n -> wrap n d <> 0 ->
  let D := sgn (2 * n) (big n hi lo) in let dv := sgn n d in
  - 2 ^ (n - 1) <= Z.quot D dv < 2 ^ (n - 1) -> sgn n (sdiv n hi lo d) = Z.quot D dv /\ sgn n (srem n hi lo d) = Z.rem D dv.
Proof.
  intros Hn Hd D dv Q. unfold sdiv, srem. replace (wrap n d =? 0) with false by (symmetry; apply Z.eqb_neq; exact Hd). fold D dv.
  split; [apply sgn_wrap_signed; assumption|]. apply sgn_wrap_signed; [exact Hn|].
  assert (Nz : dv <> 0) by (intros Z0; apply Hd; apply sgn_zero; assumption).
  pose proof (Z.rem_bound_abs D dv Nz) as B. pose proof (sgn_range n d Hn) as R. fold dv in R. lia.
Qed.

Section Meaning.
  Variable rho : string -> Z.
  Variable mu : Z -> Z.
  Variable iota : string -> list Z -> Z.
  Notation ev := (eval rho mu iota).

  (** an operator node whose name is one of the lifter's named operators evaluates to that operator's value, reduced to the node's width *)
  Lemma ev_named2 nm p q v : opk_of nm = OOther -> named_op nm [ev p; ev q] = Some v -> size p <> 0 -> ev (EOp nm [p; q]) = wrap (size p) v.
  Proof. intros K N S. rewrite eval_op_node, size_op2 by exact S. cbn [map]. unfold eval_op. rewrite K. cbn [rc_op]. rewrite N. reflexivity. Qed.

  Definition acc32 : Z := wrap 32 (rho "eax").
  Definition acc16 : Z := wrap 16 (rho "eax").
  Definition acc8 : Z := wrap 8 (rho "eax").
  Lemma ev_eax : ev eax = acc32. Proof. reflexivity. Qed.
  Lemma ev_ax : ev r_ax = acc16.
  Proof. unfold r_ax, acc16. cbn [eval]. rewrite Z.shiftr_0_r. replace (16 - 0) with 16 by lia. apply wrap_wrap_ge. lia. Qed.

  (** mul: edx:eax (dx:ax, ax) is the unsigned product of the accumulator and the operand *)
  Theorem mul32_value a : operand_ok a = true -> size a = 32 ->
    ev (EOp "umul32_hi" [eax; a]) * 2 ^ 32 + ev (EOp "umul32_lo" [eax; a]) = acc32 * ev a.
  Proof.
    intros Oa Sa. destruct (operand_range rho mu iota a Oa) as [_ Ra]. rewrite Sa in Ra.
    rewrite (ev_named2 "umul32_hi" _ _ _ eq_refl (named_umul32_hi _ _)) by (cbn; lia). rewrite (ev_named2 "umul32_lo" _ _ _ eq_refl (named_umul32_lo _ _)) by (cbn; lia).
    rewrite ev_eax. change (size eax) with 32. assert (Rx : 0 <= acc32 < 2 ^ 32) by (apply wrap_range; lia).
    rewrite (wrap_small 32 acc32 Rx), (wrap_small 32 (ev a) Ra), wrap_idem. apply umul_split; [lia | exact Rx | exact Ra].
  Qed.
  Theorem mul16_value a : operand_ok a = true -> size a = 16 ->
    ev (EOp "umul16_hi" [r_ax; a]) * 2 ^ 16 + ev (EOp "umul16_lo" [r_ax; a]) = acc16 * ev a.
  Proof.
    intros Oa Sa. destruct (operand_range rho mu iota a Oa) as [_ Ra]. rewrite Sa in Ra.
    rewrite (ev_named2 "umul16_hi" _ _ _ eq_refl (named_umul16_hi _ _)) by (cbn; lia). rewrite (ev_named2 "umul16_lo" _ _ _ eq_refl (named_umul16_lo _ _)) by (cbn; lia).
    rewrite ev_ax. change (size r_ax) with 16. assert (Rx : 0 <= acc16 < 2 ^ 16) by (apply wrap_range; lia).
    rewrite (wrap_small 16 acc16 Rx), (wrap_small 16 (ev a) Ra), wrap_idem. apply umul_split; [lia | exact Rx | exact Ra].
  Qed.
  Theorem mul8_value a : operand_ok a = true -> size a = 8 -> wrap 16 (ev (EOp "umul08" [eax; a])) = acc8 * ev a.
  Proof.
    intros Oa Sa. destruct (operand_range rho mu iota a Oa) as [_ Ra]. rewrite Sa in Ra.
    rewrite (ev_named2 "umul08" _ _ _ eq_refl (named_umul08 _ _)) by (cbn; lia). rewrite ev_eax. change (size eax) with 32.
    assert (E : wrap 8 acc32 = acc8) by (apply wrap_wrap_ge; lia).
    rewrite E, (wrap_small 8 (ev a) Ra). assert (Rx : 0 <= acc8 < 2 ^ 8) by (apply wrap_range; lia).
    assert (B : 0 <= acc8 * ev a < 2 ^ 16) by (change (2 ^ 16) with (2 ^ 8 * 2 ^ 8); nia).
    rewrite (wrap_small 32) by (split; [lia | apply Z.lt_trans with (2 ^ 16); [lia | reflexivity]]). apply wrap_small. exact B.
  Qed.

  (** imul, one operand: edx:eax (dx:ax) is the two's-complement double-width product of the signed readings *)
  Theorem imul32_value a : operand_ok a = true -> size a = 32 ->
    ev (EOp "imul32_hi" [eax; a]) * 2 ^ 32 + ev (EOp "imul32_lo" [eax; a]) = (sgn 32 acc32 * sgn 32 (ev a)) mod 2 ^ 64.
  Proof.
    intros Oa Sa. rewrite (ev_named2 "imul32_hi" _ _ _ eq_refl (named_imul32_hi _ _)) by (cbn; lia). rewrite (ev_named2 "imul32_lo" _ _ _ eq_refl (named_imul32_lo _ _)) by (cbn; lia).
    rewrite ev_eax. change (size eax) with 32. rewrite !wrap_idem. apply (hi_lo_split 32). lia.
  Qed.
  Theorem imul16_value a : operand_ok a = true -> size a = 16 ->
    ev (EOp "imul16_hi" [r_ax; a]) * 2 ^ 16 + ev (EOp "imul16_lo" [r_ax; a]) = (sgn 16 acc16 * sgn 16 (ev a)) mod 2 ^ 32.
  Proof.
    intros Oa Sa. rewrite (ev_named2 "imul16_hi" _ _ _ eq_refl (named_imul16_hi _ _)) by (cbn; lia). rewrite (ev_named2 "imul16_lo" _ _ _ eq_refl (named_imul16_lo _ _)) by (cbn; lia).
    rewrite ev_ax. change (size r_ax) with 16. rewrite !wrap_idem. apply (hi_lo_split 16). lia.
  Qed.
  (** imul, two / three operands: the truncated product, the same for the signed and the unsigned readings *)
  Theorem imul_trunc_value b c : operand_ok b = true -> operand_ok c = true -> size b = size c ->
    let n := size b in ev (EOp "*" [b; c]) = (ev b * ev c) mod 2 ^ n /\ ev (EOp "*" [b; c]) = (sgn n (ev b) * sgn n (ev c)) mod 2 ^ n.
  Proof.
    intros Ob Oc S n. destruct (operand_range rho mu iota b Ob) as [Pb Rb]. fold n in Pb.
    assert (E : ev (EOp "*" [b; c]) = (ev b * ev c) mod 2 ^ n).
    { rewrite eval_op_node, size_op2 by lia. cbn [map]. unfold eval_op. change (opk_of "*") with OMul. cbn [fold_left]. fold n. unfold wrap. f_equal. lia. }
    split; [exact E|]. rewrite E. rewrite (Z.mul_mod (sgn n (ev b))) by (apply Z.pow_nonzero; lia). rewrite !sgn_congr by lia. rewrite <- Z.mul_mod by (apply Z.pow_nonzero; lia). reflexivity.
  Qed.

  (** div / idiv: the named quotient / remainder nodes on the accumulator pair hi:lo and the divisor *)
  Lemma size_op3 op p q r : size p <> 0 -> size (EOp op [p; q; r]) = size p.
  Proof. intros H. cbn [size]. destruct (size p =? 0) eqn:E; [apply Z.eqb_eq in E; contradiction | reflexivity]. Qed.
  Lemma ev_named3 nm p q r v : opk_of nm = OOther -> (forall w vs, rc_op nm w vs = None) -> named_op nm [ev p; ev q; ev r] = Some v -> size p <> 0 ->
    ev (EOp nm [p; q; r]) = wrap (size p) v.
  Proof. intros K R N S. rewrite eval_op_node, size_op3 by exact S. cbn [map]. unfold eval_op. rewrite K, R, N. reflexivity. Qed.
  Ltac no_rc := let w := fresh in let vs := fresh in intros w vs; destruct vs as [|? [|? [|? [|? ?]]]]; reflexivity.

  Section Div.
    Variables hi lo a : expr.
    Variable n : Z.
    Hypothesis Oh : operand_ok hi = true.
    Hypothesis Ol : operand_ok lo = true.
    Hypothesis Oa : operand_ok a = true.
    Hypothesis Sh : size hi = n.
    Hypothesis Sl : size lo = n.
    Hypothesis Sa : size a = n.
    Let D := ev hi * 2 ^ n + ev lo.
    Variables nmq nmr nmsq nmsr : string.
    Hypothesis Kq : opk_of nmq = OOther.
    Hypothesis Kr : opk_of nmr = OOther.
    Hypothesis Ksq : opk_of nmsq = OOther.
    Hypothesis Ksr : opk_of nmsr = OOther.
    Hypothesis Rq : forall w vs, rc_op nmq w vs = None.
    Hypothesis Rr : forall w vs, rc_op nmr w vs = None.
    Hypothesis Rsq : forall w vs, rc_op nmsq w vs = None.
    Hypothesis Rsr : forall w vs, rc_op nmsr w vs = None.
    Hypothesis Nq : forall x y z, named_op nmq [x; y; z] = Some (udiv n x y z).
    Hypothesis Nr : forall x y z, named_op nmr [x; y; z] = Some (urem n x y z).
    Hypothesis Nsq : forall x y z, named_op nmsq [x; y; z] = Some (sdiv n x y z).
    Hypothesis Nsr : forall x y z, named_op nmsr [x; y; z] = Some (srem n x y z).
    Lemma div_generic : ev a <> 0 -> D / ev a < 2 ^ n ->
      ev (EOp nmq [hi; lo; a]) = D / ev a /\ ev (EOp nmr [hi; lo; a]) = D mod ev a.
    Proof.
      intros Nz Q. destruct (operand_range rho mu iota hi Oh) as [Pn Rh]. destruct (operand_range rho mu iota lo Ol) as [_ Rl]. destruct (operand_range rho mu iota a Oa) as [_ Ra].
      rewrite Sh in *. rewrite Sl in Rl. rewrite Sa in Ra.
      rewrite (ev_named3 nmq hi lo a _ Kq Rq (Nq _ _ _)) by lia. rewrite (ev_named3 nmr hi lo a _ Kr Rr (Nr _ _ _)) by lia. rewrite Sh.
      destruct (udiv_spec n (ev hi) (ev lo) (ev a) Pn Rh Rl ltac:(lia) Q) as [E1 E2]. rewrite E1, E2. fold D.
      assert (D0 : 0 <= D) by (unfold D; nia). split; apply wrap_small.
      - split; [apply Z.div_pos; lia | exact Q].
      - pose proof (Z.mod_pos_bound D (ev a) ltac:(lia)). lia.
    Qed.
    Lemma idiv_generic : ev a <> 0 -> let Ds := sgn (2 * n) D in let dv := sgn n (ev a) in - 2 ^ (n - 1) <= Z.quot Ds dv < 2 ^ (n - 1) ->
      sgn n (ev (EOp nmsq [hi; lo; a])) = Z.quot Ds dv /\ sgn n (ev (EOp nmsr [hi; lo; a])) = Z.rem Ds dv.
    Proof.
      intros Nz Ds dv Q. destruct (operand_range rho mu iota hi Oh) as [Pn Rh]. destruct (operand_range rho mu iota lo Ol) as [_ Rl]. destruct (operand_range rho mu iota a Oa) as [_ Ra].
      rewrite Sh in *. rewrite Sl in Rl. rewrite Sa in Ra.
      rewrite (ev_named3 nmsq hi lo a _ Ksq Rsq (Nsq _ _ _)) by lia. rewrite (ev_named3 nmsr hi lo a _ Ksr Rsr (Nsr _ _ _)) by lia. rewrite Sh.
      assert (B : big n (ev hi) (ev lo) = D) by (unfold big, D; rewrite (wrap_small n (ev hi) Rh), (wrap_small n (ev lo) Rl); reflexivity).
      assert (Wd : wrap n (ev a) <> 0) by (rewrite (wrap_small n (ev a) Ra); exact Nz).
      pose proof (sdiv_spec n (ev hi) (ev lo) (ev a) Pn Wd) as S. cbv zeta in S. rewrite B in S. fold Ds dv in S. destruct (S Q) as [E1 E2].
      rewrite !sgn_of_wrap. split; assumption.
    Qed.
  End Div.
  Definition acc_pair (w : Z) : expr * expr := if w =? 8 then (r_ah, r_al) else if w =? 16 then (r_dx, r_ax) else (edx, eax).
  (** the three widths *)
  Theorem div_value a : operand_ok a = true -> ev a <> 0 ->
    (size a = 8 -> let D := ev r_ah * 2 ^ 8 + ev r_al in D / ev a < 2 ^ 8 -> ev (EOp "div8" [r_ah; r_al; a]) = D / ev a /\ ev (EOp "rem8" [r_ah; r_al; a]) = D mod ev a) /\
    (size a = 16 -> let D := ev r_dx * 2 ^ 16 + ev r_ax in D / ev a < 2 ^ 16 -> ev (EOp "div16" [r_dx; r_ax; a]) = D / ev a /\ ev (EOp "rem16" [r_dx; r_ax; a]) = D mod ev a) /\
    (size a = 32 -> let D := ev edx * 2 ^ 32 + ev eax in D / ev a < 2 ^ 32 -> ev (EOp "div32" [edx; eax; a]) = D / ev a /\ ev (EOp "rem32" [edx; eax; a]) = D mod ev a).
  Proof.
    intros Oa Nz. split; [|split]; intros Sa D Q.
    - apply (div_generic r_ah r_al a 8 eq_refl eq_refl Oa eq_refl eq_refl Sa "div8" "rem8" eq_refl eq_refl ltac:(no_rc) ltac:(no_rc) named_div8 named_rem8 Nz Q).
    - apply (div_generic r_dx r_ax a 16 eq_refl eq_refl Oa eq_refl eq_refl Sa "div16" "rem16" eq_refl eq_refl ltac:(no_rc) ltac:(no_rc) named_div16 named_rem16 Nz Q).
    - apply (div_generic edx eax a 32 eq_refl eq_refl Oa eq_refl eq_refl Sa "div32" "rem32" eq_refl eq_refl ltac:(no_rc) ltac:(no_rc) named_div32 named_rem32 Nz Q).
  Qed.
  Theorem idiv_value a : operand_ok a = true -> ev a <> 0 ->
    (size a = 8 -> let Ds := sgn 16 (ev r_ah * 2 ^ 8 + ev r_al) in let dv := sgn 8 (ev a) in - 2 ^ 7 <= Z.quot Ds dv < 2 ^ 7 ->
       sgn 8 (ev (EOp "idiv8" [r_ah; r_al; a])) = Z.quot Ds dv /\ sgn 8 (ev (EOp "irem8" [r_ah; r_al; a])) = Z.rem Ds dv) /\
    (size a = 16 -> let Ds := sgn 32 (ev r_dx * 2 ^ 16 + ev r_ax) in let dv := sgn 16 (ev a) in - 2 ^ 15 <= Z.quot Ds dv < 2 ^ 15 ->
       sgn 16 (ev (EOp "idiv16" [r_dx; r_ax; a])) = Z.quot Ds dv /\ sgn 16 (ev (EOp "irem16" [r_dx; r_ax; a])) = Z.rem Ds dv) /\
    (size a = 32 -> let Ds := sgn 64 (ev edx * 2 ^ 32 + ev eax) in let dv := sgn 32 (ev a) in - 2 ^ 31 <= Z.quot Ds dv < 2 ^ 31 ->
       sgn 32 (ev (EOp "idiv32" [edx; eax; a])) = Z.quot Ds dv /\ sgn 32 (ev (EOp "irem32" [edx; eax; a])) = Z.rem Ds dv).
  Proof.
    intros Oa Nz. split; [|split]; intros Sa Ds dv Q.
    - apply (idiv_generic r_ah r_al a 8 eq_refl eq_refl Oa eq_refl eq_refl Sa "idiv8" "irem8" eq_refl eq_refl ltac:(no_rc) ltac:(no_rc) named_idiv8 named_irem8 Nz Q).
    - apply (idiv_generic r_dx r_ax a 16 eq_refl eq_refl Oa eq_refl eq_refl Sa "idiv16" "irem16" eq_refl eq_refl ltac:(no_rc) ltac:(no_rc) named_idiv16 named_irem16 Nz Q).
    - apply (idiv_generic edx eax a 32 eq_refl eq_refl Oa eq_refl eq_refl Sa "idiv32" "irem32" eq_refl eq_refl ltac:(no_rc) ltac:(no_rc) named_idiv32 named_irem32 Nz Q).
  Qed.

  (** mul, 16 and 32 bits: cf = of = 1 exactly when the upper half of the product is not zero, i.e. when the product does not fit n bits *)
  Theorem mul_flags_value hi : ev (nonzero32 hi) = if ev hi =? 0 then 0 else 1.
  Proof. unfold nonzero32. cbn [eval]. destruct (ev hi =? 0); reflexivity. Qed.
  Theorem mul32_overflow a : operand_ok a = true -> size a = 32 -> (ev (EOp "umul32_hi" [eax; a]) =? 0) = (acc32 * ev a <? 2 ^ 32).
  Proof.
    intros Oa Sa. pose proof (mul32_value a Oa Sa) as V. destruct (operand_range rho mu iota a Oa) as [_ Ra]. rewrite Sa in Ra.
    assert (Rx : 0 <= acc32 < 2 ^ 32) by (apply wrap_range; lia).
    assert (Rh : 0 <= ev (EOp "umul32_hi" [eax; a])) by (rewrite (ev_named2 "umul32_hi" _ _ _ eq_refl (named_umul32_hi _ _)) by (cbn; lia); apply wrap_range; cbn; lia).
    assert (Rl : 0 <= ev (EOp "umul32_lo" [eax; a]) < 2 ^ 32) by (rewrite (ev_named2 "umul32_lo" _ _ _ eq_refl (named_umul32_lo _ _)) by (cbn; lia); apply wrap_range; cbn; lia).
    destruct (Z.eqb_spec (ev (EOp "umul32_hi" [eax; a])) 0) as [E|E]; destruct (Z.ltb_spec (acc32 * ev a) (2 ^ 32)) as [L|L]; try reflexivity; nia.
  Qed.
  Theorem mul16_overflow a : operand_ok a = true -> size a = 16 -> (ev (EOp "umul16_hi" [r_ax; a]) =? 0) = (acc16 * ev a <? 2 ^ 16).
  Proof.
    intros Oa Sa. pose proof (mul16_value a Oa Sa) as V. destruct (operand_range rho mu iota a Oa) as [_ Ra]. rewrite Sa in Ra.
    assert (Rx : 0 <= acc16 < 2 ^ 16) by (apply wrap_range; lia).
    assert (Rh : 0 <= ev (EOp "umul16_hi" [r_ax; a])) by (rewrite (ev_named2 "umul16_hi" _ _ _ eq_refl (named_umul16_hi _ _)) by (cbn; lia); apply wrap_range; cbn; lia).
    assert (Rl : 0 <= ev (EOp "umul16_lo" [r_ax; a]) < 2 ^ 16) by (rewrite (ev_named2 "umul16_lo" _ _ _ eq_refl (named_umul16_lo _ _)) by (cbn; lia); apply wrap_range; cbn; lia).
    destruct (Z.eqb_spec (ev (EOp "umul16_hi" [r_ax; a])) 0) as [E|E]; destruct (Z.ltb_spec (acc16 * ev a) (2 ^ 16)) as [L|L]; try reflexivity; nia.
  Qed.
End Meaning.
