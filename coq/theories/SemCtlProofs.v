(** SemCtlProofs.v — what the near control-transfer mirror of SemCtl.v means: stack-pointer arithmetic modulo 2^32. *)
From Coq Require Import ZArith List Bool String Lia.
From Mx Require Import Expr ExprProofs Sem SemProofs SemMov SemCtl.
Import ListNotations.
Open Scope Z_scope.

Section Meaning.
  Variable rho : string -> Z.
  Variable mu : Z -> Z.
  Variable iota : string -> list Z -> Z.
  Notation ev := (eval rho mu iota).

  (** call: the return address goes to esp - 4, which becomes the stack pointer *)
  Theorem call_esp : ev (EOp "+" [esp; EInt false 32 4294967292]) = (rho "esp" - 4) mod 2 ^ 32.
  Proof.
    rewrite (ev_add rho mu iota esp) by (cbn; lia). cbn [size esp eval]. unfold wrap. rewrite <- Zplus_mod.
    replace (rho "esp" + 4294967292) with (rho "esp" - 4 + 1 * 2 ^ 32) by (change (2 ^ 32) with 4294967296; lia). apply Z.mod_add. lia.
  Qed.
  (** ret imm: the stack pointer moves past the return address and imm bytes of arguments *)
  Theorem ret_esp a : 0 < size a -> ev (EOp "+" [esp; EOp "+" [EInt false 32 4; a]]) = (rho "esp" + 4 + ev a) mod 2 ^ 32.
  Proof.
    intros Ha. rewrite (ev_add rho mu iota esp) by (cbn; lia). rewrite (ev_add rho mu iota (EInt false 32 4)) by (cbn; lia). cbn [size esp eval].
    unfold wrap. rewrite (Z.mod_small 4 (2 ^ 32)) by (change (2 ^ 32) with 4294967296; lia). rewrite Zplus_mod_idemp_r, Zplus_mod_idemp_l. f_equal. lia.
  Qed.
  (** leave: esp := ebp + 4 *)
  Theorem leave_esp : ev (EOp "+" [EInt false 32 4; ebp]) = (rho "ebp" + 4) mod 2 ^ 32.
  Proof.
    rewrite (ev_add rho mu iota (EInt false 32 4)) by (cbn; lia). cbn [size ebp eval]. unfold wrap. rewrite (Z.mod_small 4 (2 ^ 32)) by (change (2 ^ 32) with 4294967296; lia).
    rewrite Zplus_mod_idemp_r. f_equal. lia.
  Qed.
End Meaning.
