(** ModInt.v — executable model of miasmx/tools/modint.py (hand transcription, tie H).
    A fixed-width integer class is (signed?, width); a value is the Python attribute [.arg]. *)
From Coq Require Import ZArith List Bool.
Import ListNotations.
Open Scope Z_scope.

Record cls := Cls { c_sg : bool; c_w : Z }.          (* c_w in {1,8,16,32,64,128} *)

Definition limit (c : cls) : Z := 2 ^ c_w c.

(** constructor reduction: moduint.__init__ / modint.__init__ *)
Definition norm (c : cls) (z : Z) : Z :=
  let a := z mod limit c in
  if c_sg c then (if 2 * a >=? limit c then a - limit c else a) else a.

Definition in_range (c : cls) (v : Z) : Prop :=
  if c_sg c then - limit c <= 2 * v < limit c else 0 <= v < limit c.

Definition in_rangeb (c : cls) (v : Z) : bool :=
  if c_sg c then (- limit c <=? 2 * v) && (2 * v <? limit c) else (0 <=? v) && (v <? limit c).

(** maxcast(c1, c2): strictly wider left operand wins, otherwise the right operand's class *)
Definition maxcast (c1 c2 : cls) : cls := if c_w c1 >? c_w c2 then c1 else c2.

Inductive operand := MI (c : cls) (v : Z) | PY (z : Z).
Inductive err := EValue | EZeroDiv.
Inductive result := RMI (c : cls) (v : Z) | RInt (z : Z) | RBool (b : bool) | RErr (e : err).

Inductive binop := Add | Sub | Mul | And | Or | Xor | Shl | Shr | Mod
                 | RAdd | RSub | RMul | RAnd | ROr | RXor | RShl | RShr | RMod | Pow | RPow.
Inductive unop := Inv | Neg | Abs | ToInt.
Inductive cmpop := CEq | CNe | CLt | CLe | CGt | CGe.

(** the exact (unbounded) operation Python performs on the two [.arg] values;
    None = Python raises (negative shift count: ValueError; zero modulus: ZeroDivisionError) *)
Definition exact (op : binop) (a b : Z) : option Z + err :=
  match op with
  | Add | RAdd => inl (Some (a + b))
  | Mul | RMul => inl (Some (a * b))
  | And | RAnd => inl (Some (Z.land a b))
  | Or  | ROr  => inl (Some (Z.lor a b))
  | Xor | RXor => inl (Some (Z.lxor a b))
  | Sub => inl (Some (a - b))
  | RSub => inl (Some (b - a))
  | Shl => if b <? 0 then inr EValue else inl (Some (Z.shiftl a b))
  | RShl => if a <? 0 then inr EValue else inl (Some (Z.shiftl b a))
  | Shr => if b <? 0 then inr EValue else inl (Some (Z.shiftr a b))
  | RShr => if a <? 0 then inr EValue else inl (Some (Z.shiftr b a))
  | Mod => if b =? 0 then inr EZeroDiv else inl (Some (a mod b))
  | RMod => if a =? 0 then inr EZeroDiv else inl (Some (b mod a))
  | Pow => if b <? 0 then inl None else inl (Some (a ^ b))
  | RPow => if a <? 0 then inl None else inl (Some (b ^ a))
  end.

(** [x op y] with x = cls(v): the method body.  [__rpow__] returns a plain int (as in the code);
    a negative exponent (float result in Python) is outside the model: RErr EValue is never compared. *)
Definition binop_apply (op : binop) (c : cls) (v : Z) (y : operand) : result :=
  let '(rc, b) := match y with MI c2 v2 => (maxcast c c2, v2) | PY z => (c, z) end in
  match exact op v b with
  | inr e => RErr e
  | inl None => RErr EValue
  | inl (Some r) =>
      match op with
      | RPow => RInt r
      | _ => RMI rc (norm rc r)
      end
  end.

Definition unop_apply (op : unop) (c : cls) (v : Z) : result :=
  match op with
  | Inv => RMI c (norm c (Z.lnot v))
  | Neg => RMI c (norm c (- v))
  | Abs => RMI c (norm c (Z.abs v))
  | ToInt => RInt v
  end.

Definition operand_val (y : operand) : Z := match y with MI _ v => v | PY z => z end.

Definition cmp_apply (op : cmpop) (c : cls) (v : Z) (y : operand) : result :=
  let b := operand_val y in
  RBool (match op with
         | CEq => v =? b | CNe => negb (v =? b)
         | CLt => v <? b | CLe => (v =? b) || (v <? b)
         | CGt => negb ((v =? b) || (v <? b)) | CGe => negb (v <? b)
         end).

(** __hash__: hash(self.arg), for an arbitrary host hash function *)
Definition hash_apply (h : Z -> Z) (v : Z) : Z := h v.
