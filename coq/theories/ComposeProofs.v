(** ComposeProofs.v — the concatenation rules of the simplifier (merge_sliceto_slice of expression_helper.py, model Simp.v):
    the value of a concatenation is the OR of its fields, and classification, sorting by start, merging of adjacent constants
    and merging of adjacent slices of one source preserve that OR, the set of starts, and the extent.  Pure facts about slot
    lists; the well-formedness bookkeeping is in SimpProofs.v. *)
From Coq Require Import ZArith List Bool String Lia Permutation.
From Mx Require Import ModInt Expr ExprProofs Simp SliceLemmas.
Import ListNotations.
Open Scope list_scope.
Open Scope Z_scope.

(** * bit fields *)
Definition fld (v lo hi : Z) : Z := Z.shiftl (wrap (hi - lo) v) lo.
Lemma fld_bits v lo hi i : 0 <= lo -> lo <= hi -> 0 <= i ->
  Z.testbit (fld v lo hi) i = (lo <=? i) && (i <? hi) && Z.testbit v (i - lo).
Proof.
  intros Hlo Hlh Hi. unfold fld. destruct (Z_lt_le_dec i lo) as [L|L].
  - rewrite Z.shiftl_spec_low by lia. replace (lo <=? i) with false by (symmetry; apply Z.leb_gt; lia). reflexivity.
  - rewrite Z.shiftl_spec by lia. replace (lo <=? i) with true by (symmetry; apply Z.leb_le; lia). cbn [andb].
    rewrite wrap_bits by lia. f_equal. destruct (Z.ltb_spec (i - lo) (hi - lo)), (Z.ltb_spec i hi); try reflexivity; exfalso; lia.
Qed.
Lemma fld_nonneg v lo hi : 0 <= lo -> lo <= hi -> 0 <= fld v lo hi.
Proof. intros H1 H2. unfold fld. apply Z.shiftl_nonneg. unfold wrap. apply Z.mod_pos_bound. apply Z.pow_pos_nonneg; lia. Qed.
Lemma fld_lt v lo hi n : 0 <= lo -> lo <= hi -> hi <= n -> fld v lo hi < 2 ^ n.
Proof.
  intros Hlo Hlh Hn. unfold fld. rewrite Z.shiftl_mul_pow2 by lia.
  assert (B : 0 <= wrap (hi - lo) v < 2 ^ (hi - lo)) by (apply Z.mod_pos_bound; apply Z.pow_pos_nonneg; lia).
  assert (E : 2 ^ hi = 2 ^ (hi - lo) * 2 ^ lo) by (rewrite <- Z.pow_add_r by lia; f_equal; lia).
  assert (P : 0 < 2 ^ lo) by (apply Z.pow_pos_nonneg; lia).
  assert (L : 2 ^ hi <= 2 ^ n) by (apply Z.pow_le_mono_r; lia). nia.
Qed.

(** two adjacent fields of small values are one field of their sum *)
Lemma fld_join hi_v lo_v lo mid hi : 0 <= lo -> lo <= mid -> mid <= hi -> 0 <= lo_v < 2 ^ (mid - lo) -> 0 <= hi_v < 2 ^ (hi - mid) ->
  Z.lor (fld hi_v mid hi) (fld lo_v lo mid) = fld (Z.shiftl hi_v (mid - lo) + lo_v) lo hi /\ 0 <= Z.shiftl hi_v (mid - lo) + lo_v < 2 ^ (hi - lo).
Proof.
  intros H1 H2 H3 Hl Hh.
  assert (S : Z.shiftl hi_v (mid - lo) + lo_v = Z.lor (Z.shiftl hi_v (mid - lo)) lo_v).
  { assert (D : Z.land (Z.shiftl hi_v (mid - lo)) lo_v = 0).
    { apply Z.bits_inj'. intros i Hi. rewrite Z.land_spec, Z.bits_0. destruct (Z_lt_le_dec i (mid - lo)) as [L|L].
      - rewrite Z.shiftl_spec_low by lia. reflexivity.
      - replace (Z.testbit lo_v i) with false; [apply andb_false_r|]. symmetry. rewrite <- (Z.mod_small lo_v (2 ^ (mid - lo))) by lia. apply Z.mod_pow2_bits_high. lia. }
    rewrite (Z.add_nocarry_lxor _ _ D), (Z.lxor_lor _ _ D). reflexivity. }
  assert (R : 0 <= Z.shiftl hi_v (mid - lo) + lo_v < 2 ^ (hi - lo)).
  { rewrite Z.shiftl_mul_pow2 by lia. assert (E : 2 ^ (hi - lo) = 2 ^ (hi - mid) * 2 ^ (mid - lo)) by (rewrite <- Z.pow_add_r by lia; f_equal; lia).
    assert (P : 0 < 2 ^ (mid - lo)) by (apply Z.pow_pos_nonneg; lia). nia. }
  split; [|exact R]. apply Z.bits_inj'. intros i Hi. rewrite Z.lor_spec, !fld_bits by lia. rewrite S, Z.lor_spec.
  destruct (Z_lt_le_dec i lo) as [A|A].
  { replace (lo <=? i) with false by (symmetry; apply Z.leb_gt; lia). replace (mid <=? i) with false by (symmetry; apply Z.leb_gt; lia). reflexivity. }
  replace (lo <=? i) with true by (symmetry; apply Z.leb_le; lia). cbn [andb].
  destruct (Z_lt_le_dec i mid) as [B|B].
  - replace (mid <=? i) with false by (symmetry; apply Z.leb_gt; lia). replace (i <? mid) with true by (symmetry; apply Z.ltb_lt; lia).
    replace (i <? hi) with true by (symmetry; apply Z.ltb_lt; lia). cbn [andb orb]. rewrite Z.shiftl_spec_low by lia. reflexivity.
  - replace (mid <=? i) with true by (symmetry; apply Z.leb_le; lia). replace (i <? mid) with false by (symmetry; apply Z.ltb_ge; lia). cbn [andb]. rewrite orb_false_r.
    rewrite Z.shiftl_spec by lia. replace (i - lo - (mid - lo)) with (i - mid) by lia.
    replace (Z.testbit lo_v (i - lo)) with false; [rewrite orb_false_r; reflexivity|]. symmetry.
    rewrite <- (Z.mod_small lo_v (2 ^ (mid - lo))) by lia. apply Z.mod_pow2_bits_high. lia.
Qed.

(** * occupancy: how many slots cover bit position i.  Merging adjacent intervals preserves it pointwise, so "no two slots overlap"
    (occupancy at most 1 everywhere) is preserved *)
Definition ind (lo hi i : Z) : Z := if (lo <=? i) && (i <? hi) then 1 else 0.
Lemma ind_join lo mid hi i : lo <= mid -> mid <= hi -> ind mid hi i + ind lo mid i = ind lo hi i.
Proof.
  intros H1 H2. unfold ind. destruct (Z.leb_spec lo i), (Z.ltb_spec i mid), (Z.leb_spec mid i), (Z.ltb_spec i hi); cbn [andb]; lia.
Qed.
Lemma ind_range lo hi i : 0 <= ind lo hi i <= 1.
Proof. unfold ind. destruct ((lo <=? i) && (i <? hi)); lia. Qed.
Definition occ (l : list slot) (i : Z) : Z := fold_right (fun s acc => ind (slot_lo s) (slot_hi s) i + acc) 0 l.
Lemma occ_app l1 l2 i : occ (l1 ++ l2) i = occ l1 i + occ l2 i.
Proof. induction l1 as [|s l IH]; simpl; [reflexivity|]. rewrite IH. lia. Qed.
Lemma occ_perm l l' i : Permutation l l' -> occ l i = occ l' i.
Proof. induction 1 as [|x l l' _ IH|x y l|l l' l'' _ IH1 _ IH2]; simpl; lia. Qed.
Lemma occ_nonneg l i : 0 <= occ l i.
Proof. induction l as [|s l IH]; simpl; [lia|]. pose proof (ind_range (slot_lo s) (slot_hi s) i). lia. Qed.

(** * the value of a slot list *)
Section Fields.
  Variable rho : string -> Z.
  Variable mu : Z -> Z.
  Variable iota : string -> list Z -> Z.
  Notation ev := (eval rho mu iota).
  Definition sval (s : slot) : Z := fld (ev (slot_e s)) (slot_lo s) (slot_hi s).
  Definition V (l : list slot) : Z := fold_right (fun s acc => Z.lor (sval s) acc) 0 l.

  Lemma fold_lor_acc l acc : fold_left Z.lor l acc = Z.lor acc (fold_right Z.lor 0 l).
  Proof.
    revert acc. induction l as [|x l IH]; intros acc; simpl; [rewrite Z.lor_0_r; reflexivity|]. rewrite IH, Z.lor_assoc. reflexivity.
  Qed.
  Lemma eval_compose_V l : ev (ECompose l) = V l.
  Proof.
    rewrite eval_compose. rewrite fold_lor_acc, Z.lor_0_l. unfold V. induction l as [|s l IH]; simpl; [reflexivity|]. rewrite IH. reflexivity.
  Qed.
  Lemma V_app l1 l2 : V (l1 ++ l2) = Z.lor (V l1) (V l2).
  Proof. induction l1 as [|s l IH]; simpl; [reflexivity|]. rewrite IH, Z.lor_assoc. reflexivity. Qed.
  Lemma V_perm l l' : Permutation l l' -> V l = V l'.
  Proof.
    induction 1 as [|x l l' _ IH|x y l|l l' l'' _ IH1 _ IH2]; simpl; try congruence.
    rewrite !Z.lor_assoc, (Z.lor_comm (sval y) (sval x)). reflexivity.
  Qed.
End Fields.

(** * sort by start *)
Lemma insert_start_perm {A} (x : Z * A) : forall l l', insert_start x l = Ok l' -> Permutation (x :: l) l'.
Proof.
  induction l as [|y r IH]; intros l' H; simpl in H; [inversion H; apply Permutation_refl|].
  destruct (fst x <? fst y); [inversion H; apply Permutation_refl|]. destruct (fst x =? fst y); [discriminate|].
  destruct (insert_start x r) as [r'| |] eqn:E; try discriminate. cbn [bind] in H. inversion H; subst.
  eapply Permutation_trans; [apply perm_swap|]. apply perm_skip. apply IH. reflexivity.
Qed.
Lemma sort_start_perm {A} : forall (l l' : list (Z * A)), sort_start l = Ok l' -> Permutation l l'.
Proof.
  induction l as [|x r IH]; intros l' H; simpl in H; [inversion H; constructor|].
  destruct (sort_start r) as [r'| |] eqn:E; try discriminate. cbn [bind] in H.
  eapply Permutation_trans; [apply perm_skip; apply IH; reflexivity|]. apply insert_start_perm. exact H.
Qed.
(** the result is sorted by strictly ascending start *)
Fixpoint asc {A} (l : list (Z * A)) : Prop := match l with [] => True | x :: r => (match r with y :: _ => fst x < fst y | [] => True end) /\ asc r end.
Lemma insert_start_asc {A} (x : Z * A) : forall l l', asc l -> insert_start x l = Ok l' -> asc l'.
Proof.
  induction l as [|y r IH]; intros l' As H; simpl in H; [inversion H; simpl; auto|].
  destruct (Z.ltb_spec (fst x) (fst y)) as [L|L]; [inversion H; subst; simpl; simpl in As; tauto|].
  destruct (Z.eqb_spec (fst x) (fst y)) as [Q|Q]; [discriminate|].
  destruct (insert_start x r) as [r'| |] eqn:E; try discriminate. cbn [bind] in H. inversion H; subst. clear H.
  simpl in As. destruct As as [A1 A2]. specialize (IH r' A2 eq_refl). simpl. split; [|exact IH].
  destruct r as [|z r0]; simpl in E.
  - inversion E; subst. lia.
  - destruct (fst x <? fst z) eqn:Lz; [inversion E; subst; lia|]. destruct (fst x =? fst z); [discriminate|].
    destruct (insert_start x r0); try discriminate. cbn [bind] in E. inversion E; subst. exact A1.
Qed.
Lemma sort_start_asc {A} : forall (l l' : list (Z * A)), sort_start l = Ok l' -> asc l'.
Proof.
  induction l as [|x r IH]; intros l' H; simpl in H; [inversion H; exact I|].
  destruct (sort_start r) as [r'| |] eqn:E; try discriminate. cbn [bind] in H. apply (insert_start_asc x r' l' (IH r' eq_refl) H).
Qed.

Lemma nodup_app {A} (l1 l2 : list A) : NoDup (l1 ++ l2) -> NoDup l1 /\ NoDup l2 /\ forall x, In x l1 -> ~ In x l2.
Proof.
  induction l1 as [|a l IH]; simpl; intros H; [split; [constructor|split; [exact H|intros x []]]|].
  inversion H as [|? ? Na Nl]; subst. destruct (IH Nl) as (A1 & A2 & A3). split; [constructor; [intros I; apply Na; apply in_or_app; left; exact I | exact A1]|].
  split; [exact A2|]. intros x [<-|I] I2; [apply Na; apply in_or_app; right; exact I2 | exact (A3 x I I2)].
Qed.

Lemma fold_sum_acc {A} (g : A -> Z) : forall l z, fold_right (fun t acc => g t + acc) z l = fold_right (fun t acc => g t + acc) 0 l + z.
Proof. induction l as [|t l IH]; intros z; simpl; [lia | rewrite IH; lia]. Qed.
Lemma fold_sum_app {A} (g : A -> Z) l1 l2 : fold_right (fun t acc => g t + acc) 0 (l1 ++ l2) = fold_right (fun t acc => g t + acc) 0 l1 + fold_right (fun t acc => g t + acc) 0 l2.
Proof. rewrite fold_right_app, fold_sum_acc. reflexivity. Qed.
Lemma fold_sum_map {A B} (f : A -> B) (g : B -> Z) l : fold_right (fun t acc => g (f t) + acc) 0 l = fold_right (fun t acc => g t + acc) 0 (map f l).
Proof. induction l as [|t l IH]; simpl; [reflexivity | rewrite IH; reflexivity]. Qed.

Lemma fold_sum_perm {A} (g : A -> Z) l l' : Permutation l l' -> fold_right (fun t acc => g t + acc) 0 l = fold_right (fun t acc => g t + acc) 0 l'.
Proof. induction 1 as [|x l l' _ IH|x y l|l l' l'' _ IH1 _ IH2]; simpl; lia. Qed.
Lemma fold_sum_ext_in {A} (g h : A -> Z) l : (forall t, In t l -> g t = h t) -> fold_right (fun t acc => g t + acc) 0 l = fold_right (fun t acc => h t + acc) 0 l.
Proof. induction l as [|t l IH]; intros E; simpl; [reflexivity|]. rewrite E by (left; reflexivity). rewrite IH by (intros u Hu; apply E; right; exact Hu). reflexivity. Qed.
Lemma occ_as_sum l i : occ l i = fold_right (fun s acc => ind (slot_lo s) (slot_hi s) i + acc) 0 l.
Proof. reflexivity. Qed.

(** * merging adjacent constants *)
Definition t_v (t : Z * Z * Z) : Z := fst (fst t).
Definition t_lo (t : Z * Z * Z) : Z := snd (fst t).
Definition t_hi (t : Z * Z * Z) : Z := snd t.
Definition tfld (t : Z * Z * Z) : Z := fld (t_v t) (t_lo t) (t_hi t).
Definition TV (l : list (Z * Z * Z)) : Z := fold_right (fun t acc => Z.lor (tfld t) acc) 0 l.
Definition ok3 (n : Z) (t : Z * Z * Z) : Prop := 0 <= t_lo t /\ t_lo t < t_hi t /\ t_hi t <= n /\ 0 <= t_v t < 2 ^ (t_hi t - t_lo t).
Lemma TV_app l1 l2 : TV (l1 ++ l2) = Z.lor (TV l1) (TV l2).
Proof. induction l1 as [|s l IH]; simpl; [reflexivity|]. rewrite IH, Z.lor_assoc. reflexivity. Qed.

Lemma merge_ints_run_spec n : n <= 64 -> forall fuel desc cv cl ch, 0 <= cl -> cl < ch -> ch <= n -> 0 <= cv < 2 ^ (ch - cl) -> Forall (ok3 n) desc ->
  forall v' lo' hi' rest, merge_ints_run cv cl ch desc fuel = ((v', lo', hi'), rest) ->
  exists absorbed, desc = absorbed ++ rest /\ Z.lor (fld cv cl ch) (TV absorbed) = fld v' lo' hi' /\ hi' = ch /\ 0 <= lo' /\ lo' < hi' /\
                   0 <= v' < 2 ^ (hi' - lo') /\ (lo' = cl \/ In lo' (map t_lo absorbed)) /\
                   lo' <= cl /\ Forall (fun t => lo' <= t_lo t /\ t_hi t <= ch) absorbed /\
                   forall i, ind cl ch i + fold_right (fun t acc => ind (t_lo t) (t_hi t) i + acc) 0 absorbed = ind lo' hi' i.
Proof.
  intros Hn. induction fuel as [|f IH]; intros desc cv cl ch H1 H2 H3 H4 F v' lo' hi' rest H; cbn [merge_ints_run] in H.
  - destruct desc; cbn [merge_ints_run] in H; inversion H; subst; exists []; simpl; rewrite Z.lor_0_r; repeat split; auto; try lia; try constructor; intros; lia.
  - destruct desc as [|[[v lo] hi] r]; cbn [merge_ints_run] in H.
    + inversion H; subst. exists []. simpl. rewrite Z.lor_0_r. repeat split; auto; try lia; try constructor; intros; lia.
    + destruct (Z.eqb_spec hi cl) as [Q|Q].
      * subst hi. inversion F as [|? ? Ft Fr]; subst. destruct Ft as (A1 & A2 & A3 & A4). unfold t_lo, t_hi, t_v in *. cbn [fst snd] in *.
        destruct (fld_join cv v lo cl ch A1 ltac:(lia) ltac:(lia) A4 H4) as [J R].
        assert (W : wrap 64 (Z.shiftl cv (cl - lo) + v) = Z.shiftl cv (cl - lo) + v).
        { apply Z.mod_small. split; [lia|]. apply Z.lt_le_trans with (2 ^ (ch - lo)); [lia | apply Z.pow_le_mono_r; lia]. }
        rewrite W in H.
        destruct (IH r _ lo ch A1 ltac:(lia) H3 R Fr v' lo' hi' rest H) as (ab & E & L & Hh & P1 & P2 & P3 & P4 & P5 & P6 & P7).
        exists ((v, lo, cl) :: ab). split; [simpl; rewrite E; reflexivity|]. split.
        { cbn [TV fold_right]. fold (TV ab). unfold tfld at 1, t_v, t_lo, t_hi. cbn [fst snd]. rewrite Z.lor_assoc, J. exact L. }
        split; [exact Hh|]. split; [exact P1|]. split; [exact P2|]. split; [exact P3|]. split; [destruct P4 as [P4|P4]; right; [left; symmetry; exact P4 | right; exact P4]|].
        split; [lia|]. split; [constructor; [unfold t_lo, t_hi; cbn [fst snd]; lia | exact P6]|].
        intros i. specialize (P7 i). cbn [fold_right]. unfold t_lo, t_hi in *. cbn [fst snd] in *. pose proof (ind_join lo cl ch i ltac:(lia) ltac:(lia)). lia.
      * inversion H; subst. exists []. simpl. rewrite Z.lor_0_r. repeat split; auto; try lia; try constructor; intros; lia.
Qed.
Lemma merge_ints_run_len : forall fuel desc cv cl ch t rest, merge_ints_run cv cl ch desc fuel = (t, rest) -> (List.length rest <= List.length desc)%nat.
Proof.
  induction fuel as [|f IH]; intros desc cv cl ch t rest H; [destruct desc; cbn [merge_ints_run] in H; inversion H; lia|]; cbn [merge_ints_run] in H.
  destruct desc as [|[[v lo] hi] r]; cbn [merge_ints_run] in H; [inversion H; simpl; lia|]. destruct (hi =? cl); [|inversion H; lia].
  apply IH in H. simpl. lia.
Qed.

Section Ints.
  Variable rho : string -> Z.
  Variable mu : Z -> Z.
  Variable iota : string -> list Z -> Z.
  Notation ev := (eval rho mu iota).

  (** what the merged constants look like *)
  Definition int_slot_ok (n : Z) (s : slot) : Prop :=
    exists v, slot_e s = EInt false n v /\ 0 <= v < 2 ^ (slot_hi s - slot_lo s) /\ 0 <= slot_lo s /\ slot_lo s < slot_hi s /\ slot_hi s <= n.

  Lemma merge_ints_spec n : 0 < n -> n <= 64 -> forall fuel desc out, (List.length desc <= fuel)%nat -> Forall (ok3 n) desc -> NoDup (map t_lo desc) ->
    merge_ints n desc fuel = Ok out ->
    V rho mu iota (map snd out) = TV desc /\ Forall (int_slot_ok n) (map snd out) /\ Forall (fun p => fst p = slot_lo (snd p)) out /\
    NoDup (map fst out) /\ incl (map fst out) (map t_lo desc) /\
    Forall (fun t => exists p, In p out /\ slot_lo (snd p) <= t_lo t /\ t_hi t <= slot_hi (snd p)) desc /\
    forall i, occ (map snd out) i = fold_right (fun t acc => ind (t_lo t) (t_hi t) i + acc) 0 desc.
  Proof.
    intros Hn0 Hn. induction fuel as [|f IH]; intros desc out Len F ND H.
    - destruct desc; [|simpl in Len; lia]. simpl in H. inversion H; subst. cbn [map V TV fold_right]. split; [reflexivity|]. split; [constructor|]. split; [constructor|]. split; [constructor|]. split; [intros x Hx; exact Hx|]. split; [constructor | reflexivity].
    - simpl in H. destruct desc as [|[[v lo] hi] r]; [inversion H; subst; cbn [map V TV fold_right]; split; [reflexivity|]; split; [constructor|]; split; [constructor|]; split; [constructor|]; split; [intros x Hx; exact Hx|]; split; [constructor | reflexivity]|].
      destruct (merge_ints_run v lo hi r (List.length r)) as [[[v' lo'] hi'] rest] eqn:Run.
      inversion F as [|? ? Ft Fr]; subst. destruct Ft as (A1 & A2 & A3 & A4). unfold t_lo, t_hi, t_v in A1, A2, A3, A4. cbn [fst snd] in *.
      destruct (merge_ints_run_spec n Hn _ r v lo hi A1 A2 A3 A4 Fr v' lo' hi' rest Run) as (ab & E & L & Hh & P1 & P2 & P3 & P4 & P5 & P6 & P7). subst r.
      pose proof (merge_ints_run_len _ _ _ _ _ _ _ Run) as Lr.
      destruct (mk_int n v') as [i| |] eqn:Mi; try discriminate. cbn [bind] in H.
      destruct (merge_ints n rest f) as [tl| |] eqn:Mt; try discriminate. cbn [bind] in H. inversion H; subst out. clear H.
      assert (Fr' : Forall (ok3 n) rest) by (apply Forall_app in Fr; apply Fr).
      simpl in ND. apply NoDup_cons_iff in ND as [Nlo NDr]. rewrite map_app in Nlo, NDr.
      assert (NDrest : NoDup (map t_lo rest)) by (apply nodup_app in NDr; apply NDr).
      destruct (IH rest tl ltac:(simpl in Len; rewrite app_length in Len; lia) Fr' NDrest Mt) as (I1 & I2 & I3 & I4 & I5 & I6 & I7).
      unfold mk_int in Mi. destruct (std_width n); [|discriminate]. inversion Mi; subst i. clear Mi.
      assert (Wv : wrap n v' = v') by (apply Z.mod_small; split; [lia|]; apply Z.lt_le_trans with (2 ^ (hi' - lo')); [lia | apply Z.pow_le_mono_r; lia]).
      cbn [map snd fst]. split; [|split; [|split; [|split; [|split; [|split]]]]].
      + cbn [V fold_right]. fold (V rho mu iota (map snd tl)). rewrite I1. unfold sval, slot_e, slot_lo, slot_hi. cbn [fst snd eval].
        rewrite Wv, Wv. rewrite <- L. change (TV ((v, lo, hi) :: ab ++ rest)) with (Z.lor (fld v lo hi) (TV (ab ++ rest))). rewrite TV_app, Z.lor_assoc. reflexivity.
      + constructor; [|exact I2]. exists v'. unfold slot_e, slot_lo, slot_hi. cbn [fst snd]. rewrite Wv. repeat split; try lia.
      + constructor; [reflexivity | exact I3].
      + constructor; [|exact I4]. intros In'. apply I5 in In'.
        (* lo' is lo or the start of an absorbed constant, both different from every start in rest *)
        destruct P4 as [->|P4].
        * apply Nlo. apply in_or_app. right. exact In'.
        * clear - NDr P4 In'. induction (map t_lo ab) as [|x l IHl]; [contradiction|].
          simpl in NDr. inversion NDr as [|? ? Nx NDl]; subst. destruct P4 as [->|P4]; [apply Nx; apply in_or_app; right; exact In' | exact (IHl NDl P4)].
      + intros x Hx. destruct Hx as [<-|Hx].
        * destruct P4 as [->|P4]; [left; reflexivity | right; rewrite map_app; apply in_or_app; left; exact P4].
        * right. rewrite map_app. apply in_or_app. right. apply I5. exact Hx.
      + set (p0 := (lo', (EInt false n (wrap n v'), lo', hi'))).
        assert (C0 : forall t, lo' <= t_lo t /\ t_hi t <= hi -> exists p, In p (p0 :: tl) /\ slot_lo (snd p) <= t_lo t /\ t_hi t <= slot_hi (snd p)).
        { intros t [T1 T2]. exists p0. split; [left; reflexivity|]. unfold p0, slot_lo, slot_hi. cbn [fst snd]. lia. }
        constructor; [apply C0; unfold t_lo, t_hi; cbn [fst snd]; lia|]. apply Forall_app. split.
        * eapply Forall_impl; [|exact P6]. intros t Ht. apply C0. exact Ht.
        * eapply Forall_impl; [|exact I6]. intros t (p & Ip & R). exists p. split; [right; exact Ip | exact R].
      + intros i. specialize (P7 i). specialize (I7 i). cbn [occ fold_right map snd] in *. fold (occ (map snd tl) i). rewrite I7.
        rewrite (fold_sum_app (fun t => ind (t_lo t) (t_hi t) i) ab rest). unfold slot_lo, slot_hi, t_lo, t_hi in *. cbn [fst snd] in *. subst hi'. lia.
  Qed.
End Ints.

(** * merging adjacent slices of one source *)
Definition q_slo (q : Z * Z * Z * Z) : Z := fst (fst (fst q)).
Definition q_shi (q : Z * Z * Z * Z) : Z := snd (fst (fst q)).
Definition q_lo (q : Z * Z * Z * Z) : Z := snd (fst q).
Definition q_hi (q : Z * Z * Z * Z) : Z := snd q.
(** bits [q_slo, q_shi) of x placed at [q_lo, q_hi) *)
Definition qfld (x : Z) (q : Z * Z * Z * Z) : Z := fld (Z.shiftr x (q_slo q)) (q_lo q) (q_hi q).
Definition QV (x : Z) (l : list (Z * Z * Z * Z)) : Z := fold_right (fun q acc => Z.lor (qfld x q) acc) 0 l.
Definition ok4 (n : Z) (q : Z * Z * Z * Z) : Prop := 0 <= q_slo q /\ 0 <= q_lo q /\ q_lo q < q_hi q /\ q_hi q <= n /\ q_shi q - q_slo q = q_hi q - q_lo q.
Lemma QV_app x l1 l2 : QV x (l1 ++ l2) = Z.lor (QV x l1) (QV x l2).
Proof. induction l1 as [|s l IH]; simpl; [reflexivity|]. rewrite IH, Z.lor_assoc. reflexivity. Qed.
Lemma qfld_bits x q i : 0 <= q_slo q -> 0 <= q_lo q -> q_lo q <= q_hi q -> 0 <= i ->
  Z.testbit (qfld x q) i = (q_lo q <=? i) && (i <? q_hi q) && Z.testbit x (i - q_lo q + q_slo q).
Proof.
  intros H1 H2 H3 Hi. unfold qfld. rewrite fld_bits by lia. destruct ((q_lo q <=? i) && (i <? q_hi q)) eqn:C; [|reflexivity].
  apply andb_true_iff in C as [C1 C2]. apply Z.leb_le in C1. cbn [andb]. rewrite Z.shiftr_spec by lia. reflexivity.
Qed.
Lemma qfld_join x slo shi lo hi cshi chi : 0 <= slo -> 0 <= lo -> lo < hi -> hi < chi -> shi - slo = hi - lo -> cshi - shi = chi - hi ->
  Z.lor (qfld x (shi, cshi, hi, chi)) (qfld x (slo, shi, lo, hi)) = qfld x (slo, cshi, lo, chi).
Proof.
  intros H1 H2 H3 H4 H5 H6. apply Z.bits_inj'. intros i Hi. rewrite Z.lor_spec, !qfld_bits by (unfold q_slo, q_shi, q_lo, q_hi; cbn [fst snd]; lia).
  unfold q_slo, q_shi, q_lo, q_hi. cbn [fst snd].
  destruct (Z_lt_le_dec i lo) as [A|A].
  { replace (lo <=? i) with false by (symmetry; apply Z.leb_gt; lia). replace (hi <=? i) with false by (symmetry; apply Z.leb_gt; lia). reflexivity. }
  replace (lo <=? i) with true by (symmetry; apply Z.leb_le; lia). cbn [andb].
  destruct (Z_lt_le_dec i hi) as [B|B].
  - replace (hi <=? i) with false by (symmetry; apply Z.leb_gt; lia). replace (i <? hi) with true by (symmetry; apply Z.ltb_lt; lia).
    replace (i <? chi) with true by (symmetry; apply Z.ltb_lt; lia). reflexivity.
  - replace (hi <=? i) with true by (symmetry; apply Z.leb_le; lia). replace (i <? hi) with false by (symmetry; apply Z.ltb_ge; lia). cbn [andb]. rewrite orb_false_r.
    f_equal. f_equal. lia.
Qed.

Lemma merge_slices_run_spec x n : forall fuel desc cslo cshi clo chi, ok4 n (cslo, cshi, clo, chi) -> Forall (ok4 n) desc ->
  forall a b lo' hi' rest, merge_slices_run cslo cshi clo chi desc fuel = ((a, b, lo', hi'), rest) ->
  exists absorbed, desc = absorbed ++ rest /\ Z.lor (qfld x (cslo, cshi, clo, chi)) (QV x absorbed) = qfld x (a, b, lo', hi') /\
                   ok4 n (a, b, lo', hi') /\ hi' = chi /\ b = cshi /\ (lo' = clo \/ In lo' (map q_lo absorbed)) /\
                   lo' <= clo /\ Forall (fun q => lo' <= q_lo q /\ q_hi q <= chi) absorbed /\
                   forall i, ind clo chi i + fold_right (fun q acc => ind (q_lo q) (q_hi q) i + acc) 0 absorbed = ind lo' hi' i.
Proof.
  induction fuel as [|f IH]; intros desc cslo cshi clo chi Oc F a b lo' hi' rest H.
  - destruct desc; cbn [merge_slices_run] in H; inversion H; subst; exists []; simpl; rewrite Z.lor_0_r; repeat split; auto; try apply Oc; try lia; try constructor; intros; lia.
  - destruct desc as [|[[[slo shi] lo] hi] r]; cbn [merge_slices_run] in H.
    + inversion H; subst. exists []. simpl. rewrite Z.lor_0_r. repeat split; auto; try apply Oc; try lia; try constructor; intros; lia.
    + destruct ((hi =? clo) && (shi =? cslo)) eqn:Q.
      * apply andb_true_iff in Q as [Q1 Q2]. apply Z.eqb_eq in Q1, Q2. subst hi shi.
        inversion F as [|? ? Ft Fr]; subst. destruct Ft as (A1 & A2 & A3 & A4 & A5). destruct Oc as (B1 & B2 & B3 & B4 & B5).
        unfold q_slo, q_shi, q_lo, q_hi in *. cbn [fst snd] in *.
        assert (On : ok4 n (slo, cshi, lo, chi)) by (unfold ok4, q_slo, q_shi, q_lo, q_hi; cbn [fst snd]; repeat split; lia).
        destruct (IH r slo cshi lo chi On Fr a b lo' hi' rest H) as (ab & E & L & O' & Hh & Hb & P4 & P5 & P6 & P7).
        exists ((slo, cslo, lo, clo) :: ab). split; [simpl; rewrite E; reflexivity|]. split.
        { cbn [QV fold_right]. fold (QV x ab). rewrite Z.lor_assoc. rewrite (qfld_join x slo cslo lo clo cshi chi) by lia. exact L. }
        split; [exact O'|]. split; [exact Hh|]. split; [exact Hb|].
        split; [destruct P4 as [P4|P4]; right; [left; symmetry; exact P4 | right; exact P4]|].
        split; [lia|]. split; [constructor; [unfold q_lo, q_hi; cbn [fst snd]; lia | exact P6]|].
        intros i. specialize (P7 i). cbn [fold_right]. unfold q_lo, q_hi in *. cbn [fst snd] in *. pose proof (ind_join lo clo chi i ltac:(lia) ltac:(lia)). lia.
      * inversion H; subst. exists []. simpl. rewrite Z.lor_0_r. repeat split; auto; try apply Oc; try lia; try constructor; intros; lia.
Qed.
Lemma merge_slices_run_len : forall fuel desc cslo cshi clo chi t rest, merge_slices_run cslo cshi clo chi desc fuel = (t, rest) -> (List.length rest <= List.length desc)%nat.
Proof.
  induction fuel as [|f IH]; intros desc cslo cshi clo chi t rest H; [destruct desc; cbn [merge_slices_run] in H; inversion H; lia|].
  destruct desc as [|[[[slo shi] lo] hi] r]; cbn [merge_slices_run] in H; [inversion H; simpl; lia|]. destruct ((hi =? clo) && (shi =? cslo)); [|inversion H; lia].
  apply IH in H. simpl. lia.
Qed.

Lemma in_skipn {A} (x : A) : forall k l, In x (skipn k l) -> In x l.
Proof. induction k as [|k IH]; intros l H; [exact H|]. destruct l as [|y l]; [exact H|]. right. apply IH. exact H. Qed.
Lemma skipn_map {A B} (f : A -> B) : forall k l, map f (skipn k l) = skipn k (map f l).
Proof. induction k as [|k IH]; intros l; [reflexivity|]. destruct l; [reflexivity|]. simpl. apply IH. Qed.
Lemma skipn_app_exact {A} (l1 l2 : list A) : skipn (List.length l1) (l1 ++ l2) = l2.
Proof. induction l1; [reflexivity|]. simpl. assumption. Qed.

Section Slices.
  Variable rho : string -> Z.
  Variable mu : Z -> Z.
  Variable iota : string -> list Z -> Z.
  Notation ev := (eval rho mu iota).
  Notation item := (expr * (Z * Z * Z * Z))%type.
  Definition it_lo (it : item) : Z := q_lo (snd it).

  Lemma sval_slice src q n : ok4 n q -> sval rho mu iota (ESlice src (q_slo q) (q_shi q), q_lo q, q_hi q) = qfld (ev src) q.
  Proof.
    intros (A1 & A2 & A3 & A4 & A5). unfold sval, qfld, slot_e, slot_lo, slot_hi. cbn [fst snd eval]. unfold fld. rewrite A5.
    f_equal. unfold wrap. apply Z.mod_mod. apply Z.pow_nonzero; lia.
  Qed.

  Definition slice_slot_ok (n : Z) (desc : list item) (s : slot) : Prop :=
    exists src q a, In (src, q) desc /\ slot_e s = ESlice src a (q_shi q) /\ 0 <= a /\ q_shi q - a = slot_hi s - slot_lo s /\
                    0 <= slot_lo s /\ slot_lo s < slot_hi s /\ slot_hi s <= n.

  Lemma merge_slices_spec x n : forall fuel (desc : list item) out, (List.length desc <= fuel)%nat ->
    Forall (fun it => ok4 n (snd it) /\ ev (fst it) = x) desc -> NoDup (map it_lo desc) -> merge_slices desc fuel = out ->
    V rho mu iota (map snd out) = QV x (map snd desc) /\ Forall (fun p => fst p = slot_lo (snd p)) out /\ NoDup (map fst out) /\
    incl (map fst out) (map it_lo desc) /\ Forall (slice_slot_ok n desc) (map snd out) /\
    Forall (fun it => exists p, In p out /\ slot_lo (snd p) <= q_lo (snd it) /\ q_hi (snd it) <= slot_hi (snd p)) desc /\
    forall i, occ (map snd out) i = fold_right (fun it acc => ind (q_lo (snd it)) (q_hi (snd it)) i + acc) 0 desc.
  Proof.
    induction fuel as [|f IH]; intros desc out Len F ND H.
    - destruct desc; [|simpl in Len; lia]. simpl in H. subst out. cbn [map V QV fold_right]. split; [reflexivity|]. split; [constructor|]. split; [constructor|]. split; [intros y Hy; exact Hy|]. split; [constructor|]. split; [constructor | reflexivity].
    - destruct desc as [|[src [[[slo shi] lo] hi]] r]; cbn [merge_slices] in H.
      { subst out. cbn [map V QV fold_right]. split; [reflexivity|]. split; [constructor|]. split; [constructor|]. split; [intros y Hy; exact Hy|]. split; [constructor|]. split; [constructor | reflexivity]. }
      subst out.
      destruct (merge_slices_run slo shi lo hi (map snd r) (List.length r)) as [[[[a b] lo'] hi'] rest] eqn:Run.
      inversion F as [|? ? Ft Fr]; subst. destruct Ft as [Ot Et]. cbn [fst snd] in Ot, Et.
      assert (Fq : Forall (ok4 n) (map snd r)) by (apply Forall_forall; intros q Hq; apply in_map_iff in Hq as (it & <- & Hit); rewrite Forall_forall in Fr; apply (Fr it Hit)).
      destruct (merge_slices_run_spec x n _ (map snd r) slo shi lo hi Ot Fq a b lo' hi' rest Run) as (ab & E & L & O' & Hh & Hb & P4 & P5 & P6 & P7).
      pose proof (merge_slices_run_len _ _ _ _ _ _ _ _ Run) as Lr. rewrite map_length in Lr.
      assert (Lab : (List.length r - List.length rest = List.length ab)%nat).
      { assert (Q : List.length (map snd r) = List.length (ab ++ rest)) by (rewrite E; reflexivity). rewrite map_length, app_length in Q. lia. }
      rewrite Lab. set (r2 := skipn (List.length ab) r) in *.
      assert (M2 : map snd r2 = rest) by (unfold r2; rewrite skipn_map, E; apply skipn_app_exact).
      assert (F2 : Forall (fun it => ok4 n (snd it) /\ ev (fst it) = x) r2) by (apply Forall_forall; intros it Hit; rewrite Forall_forall in Fr; apply Fr; apply (in_skipn it _ _ Hit)).
      cbn [map] in ND. apply NoDup_cons_iff in ND as [Nlo NDr].
      assert (Elo : map it_lo r = map q_lo ab ++ map q_lo rest).
      { rewrite <- map_app, <- E, map_map. reflexivity. }
      rewrite Elo in Nlo, NDr.
      assert (Elo2 : map it_lo r2 = map q_lo rest) by (rewrite <- M2, map_map; reflexivity).
      assert (ND2 : NoDup (map it_lo r2)) by (rewrite Elo2; apply nodup_app in NDr; apply NDr).
      assert (Len2 : (List.length r2 <= f)%nat).
      { assert (Q : List.length (map snd r2) = List.length rest) by (rewrite M2; reflexivity). rewrite map_length in Q. simpl in Len. lia. }
      destruct (IH r2 (merge_slices r2 f) Len2 F2 ND2 eq_refl) as (I1 & I2 & I3 & I4 & I5 & I6 & I7).
      cbn [map snd fst]. split; [|split; [|split; [|split; [|split; [|split]]]]].
      + cbn [V fold_right]. fold (V rho mu iota (map snd (merge_slices r2 f))). rewrite I1, M2.
        assert (Sv : sval rho mu iota (ESlice src a b, lo', hi') = qfld x (a, b, lo', hi')) by (rewrite <- Et; apply (sval_slice src (a, b, lo', hi') n O')).
        rewrite Sv, <- L. change (QV x (map snd ((src, (slo, shi, lo, hi)) :: r))) with (Z.lor (qfld x (slo, shi, lo, hi)) (QV x (map snd r))).
        change (QV x ((slo, shi, lo, hi) :: map snd r)) with (Z.lor (qfld x (slo, shi, lo, hi)) (QV x (map snd r))). rewrite E, QV_app, Z.lor_assoc. reflexivity.
      + constructor; [reflexivity | exact I2].
      + constructor; [|exact I3]. intros In'. apply I4 in In'. rewrite Elo2 in In'. unfold it_lo in Nlo. cbn [snd] in Nlo. unfold q_lo at 1 in Nlo. cbn [fst snd] in Nlo.
        destruct P4 as [->|P4].
        * apply Nlo. apply in_or_app. right. exact In'.
        * clear - NDr P4 In'. induction (map q_lo ab) as [|y l IHl]; [contradiction|].
          simpl in NDr. apply NoDup_cons_iff in NDr as [Ny NDl]. destruct P4 as [->|P4]; [apply Ny; apply in_or_app; right; exact In' | exact (IHl NDl P4)].
      + intros y Hy. destruct Hy as [<-|Hy].
        * destruct P4 as [->|P4]; [left; reflexivity | right; rewrite Elo; apply in_or_app; left; exact P4].
        * right. rewrite Elo. apply in_or_app. right. rewrite <- Elo2. apply I4. exact Hy.
      + constructor.
        * exists src, (slo, shi, lo, hi), a. destruct O' as (B1 & B2 & B3 & B4 & B5). unfold q_slo, q_shi, q_lo, q_hi, slot_e, slot_lo, slot_hi in *. cbn [fst snd] in *.
          subst b. repeat split; try lia. left; reflexivity.
        * eapply Forall_impl; [|exact I5]. intros s (src' & q' & a' & In' & R). exists src', q', a'. split; [right; apply (in_skipn _ _ _ In') | exact R].
      + set (p0 := (lo', (ESlice src a b, lo', hi'))).
        assert (C0 : forall q, lo' <= q_lo q /\ q_hi q <= hi -> exists p, In p (p0 :: merge_slices r2 f) /\ slot_lo (snd p) <= q_lo q /\ q_hi q <= slot_hi (snd p)).
        { intros q [T1 T2]. exists p0. split; [left; reflexivity|]. unfold p0, slot_lo, slot_hi. cbn [fst snd]. lia. }
        constructor; [apply C0; unfold q_lo, q_hi; cbn [fst snd]; lia|].
        (* every item of r is absorbed (covered by the head) or lies in r2 (covered by the tail) *)
        apply Forall_forall. intros it Hit.
        assert (Sp : r = firstn (List.length ab) r ++ r2) by (unfold r2; symmetry; apply firstn_skipn). rewrite Sp in Hit. apply in_app_or in Hit as [Hit|Hit].
        * assert (Hq : In (snd it) ab).
          { assert (Mf : map snd (firstn (List.length ab) r) = ab) by (rewrite <- firstn_map, E; rewrite firstn_app, Nat.sub_diag, firstn_all; simpl; apply app_nil_r).
            rewrite <- Mf. apply in_map. exact Hit. }
          rewrite Forall_forall in P6. apply C0. exact (P6 _ Hq).
        * rewrite Forall_forall in I6. destruct (I6 it Hit) as (p & Ip & R). exists p. split; [right; exact Ip | exact R].
      + intros i. specialize (P7 i). specialize (I7 i). cbn [occ fold_right map snd] in *. fold (occ (map snd (merge_slices r2 f)) i). rewrite I7.
        assert (Sp : r = firstn (List.length ab) r ++ r2) by (unfold r2; symmetry; apply firstn_skipn).
        assert (Mf : map snd (firstn (List.length ab) r) = ab) by (rewrite <- firstn_map, E; rewrite firstn_app, Nat.sub_diag, firstn_all; simpl; apply app_nil_r).
        rewrite Sp at 1. rewrite (fold_sum_app (fun it => ind (q_lo (snd it)) (q_hi (snd it)) i)).
        rewrite (fold_sum_map snd (fun q => ind (q_lo q) (q_hi q) i) (firstn (List.length ab) r)), Mf.
        unfold slot_lo, slot_hi, q_lo, q_hi in *. cbn [fst snd] in *. subst hi'. lia.
  Qed.
End Slices.

(** * classification of the slots *)
Lemma zdict_set_fresh {A} (d : list (Z * A)) k v : ~ In k (map fst d) -> zdict_set d k v = d ++ [(k, v)].
Proof.
  induction d as [|[k' v'] r IH]; intros N; [reflexivity|]. simpl. destruct (Z.eqb_spec k' k) as [Q|Q]; [exfalso; apply N; left; exact Q|].
  rewrite IH; [reflexivity|]. intros I. apply N. right. exact I.
Qed.
Definition groups_flat (d : list (expr * list slot)) : list slot := List.concat (map snd d).
Lemma edict_append_flat d k a : Permutation (groups_flat (edict_append d k a)) (a :: groups_flat d).
Proof.
  unfold groups_flat. induction d as [|[k' vs] r IH]; simpl; [apply Permutation_refl|].
  destruct (expr_eqb k' k); simpl.
  - rewrite <- app_assoc. simpl. apply Permutation_sym, Permutation_middle.
  - eapply Permutation_trans; [apply Permutation_app_head; exact IH|]. apply Permutation_sym, Permutation_middle.
Qed.
(** every member of a group is a slice whose source is == the group's key *)
Definition group_ok (g : expr * list slot) : Prop :=
  Forall (fun a => exists own slo shi, slot_e a = ESlice own slo shi /\ expr_eqb (fst g) own = true) (snd g).
Lemma edict_append_ok d src slo shi (a : slot) : slot_e a = ESlice src slo shi -> Forall group_ok d -> Forall group_ok (edict_append d src a).
Proof.
  intros Ea. induction d as [|[k' vs] r IH]; intros F; simpl.
  - constructor; [|constructor]. unfold group_ok. cbn [fst snd]. constructor; [|constructor]. exists src, slo, shi. split; [exact Ea | apply eqb_refl].
  - inversion F as [|? ? G Fr]; subst. destruct (expr_eqb k' src) eqn:Q.
    + constructor; [|exact Fr]. unfold group_ok in *. cbn [fst snd] in *. apply Forall_app. split; [exact G|]. constructor; [|constructor].
      exists src, slo, shi. split; [exact Ea | exact Q].
    + constructor; [exact G | apply IH; exact Fr].
Qed.

Lemma perm_insert {A} (l1 l2 l3 : list A) x : Permutation (l1 ++ (l2 ++ [x]) ++ l3) (x :: l1 ++ l2 ++ l3).
Proof.
  rewrite <- app_assoc. cbn [app]. rewrite (app_assoc l1 l2 (x :: l3)). eapply Permutation_trans; [apply Permutation_sym, Permutation_middle|].
  rewrite <- app_assoc. apply Permutation_refl.
Qed.
Lemma perm_snoc {A} (l l' : list A) x : Permutation l l' -> Permutation (x :: l) (l' ++ [x]).
Proof. intros P. eapply Permutation_trans; [apply perm_skip; exact P | apply Permutation_cons_append]. Qed.

Definition int_slot_of (t : bool * Z * Z * Z * Z) : slot := let '(sg, w, v, lo, hi) := t in (EInt sg w v, lo, hi).
Definition classify (acc : list (expr * list slot) * list (Z * slot) * list (Z * (bool * Z * Z * Z * Z))) (a : slot) :=
  let '(sources, non_slice, sources_int) := acc in
  match slot_e a with
  | EInt sg w v => (sources, non_slice, zdict_set sources_int (slot_lo a) (sg, w, v, slot_lo a, slot_hi a))
  | ESlice src s_lo s_hi => (edict_append sources src a, non_slice, sources_int)
  | _ => (sources, zdict_set non_slice (slot_lo a) a, sources_int)
  end.
Definition is_other (a : slot) : Prop := match slot_e a with EInt _ _ _ | ESlice _ _ _ => False | _ => True end.
Definition acc_flat (acc : list (expr * list slot) * list (Z * slot) * list (Z * (bool * Z * Z * Z * Z))) : list slot :=
  let '(sources, non_slice, sources_int) := acc in groups_flat sources ++ map snd non_slice ++ map (fun p => int_slot_of (snd p)) sources_int.
Definition acc_inv (acc : list (expr * list slot) * list (Z * slot) * list (Z * (bool * Z * Z * Z * Z))) (done : list slot) : Prop :=
  let '(sources, non_slice, sources_int) := acc in
  Permutation (acc_flat acc) done /\ Forall group_ok sources /\
  Forall (fun p => fst p = slot_lo (snd p) /\ is_other (snd p)) non_slice /\
  Forall (fun p => fst p = slot_lo (int_slot_of (snd p)) /\ (let '(sg, w, v, lo, hi) := snd p in True)) sources_int.
Lemma classify_inv acc done a : acc_inv acc done -> ~ In (slot_lo a) (map slot_lo done) -> acc_inv (classify acc a) (done ++ [a]).
Proof.
  destruct acc as [[sources non_slice] sources_int]. intros (P & G & Fo & Fi) N.
  assert (Keys_o : forall k, In k (map fst non_slice) -> In k (map slot_lo done)).
  { intros k Hk. apply in_map_iff in Hk as (p & <- & Hp). rewrite Forall_forall in Fo. destruct (Fo p Hp) as [E _]. rewrite E.
    apply in_map. apply (Permutation_in _ P). unfold acc_flat. apply in_or_app. right. apply in_or_app. left. apply in_map. exact Hp. }
  assert (Keys_i : forall k, In k (map fst sources_int) -> In k (map slot_lo done)).
  { intros k Hk. apply in_map_iff in Hk as (p & <- & Hp). rewrite Forall_forall in Fi. destruct (Fi p Hp) as [E _]. rewrite E.
    apply in_map. apply (Permutation_in _ P). unfold acc_flat. apply in_or_app. right. apply in_or_app. right. apply (in_map (fun p => int_slot_of (snd p))). exact Hp. }
  unfold classify. destruct a as [[e lo] hi]. unfold slot_e, slot_lo, slot_hi in *. cbn [fst snd] in *.
  assert (Other : forall (X : Prop), is_other (e, lo, hi) -> acc_inv (sources, zdict_set non_slice lo (e, lo, hi), sources_int) (done ++ [(e, lo, hi)])).
  { intros _ Io. rewrite zdict_set_fresh by (intros I; apply N; apply Keys_o; exact I). unfold acc_inv, acc_flat. split; [|split; [exact G|split; [|exact Fi]]].
    - rewrite map_app. cbn [map snd]. eapply Permutation_trans; [apply perm_insert|]. apply perm_snoc. exact P.
    - apply Forall_app. split; [exact Fo|]. constructor; [|constructor]. cbn [fst snd]. split; [reflexivity | exact Io]. }
  destruct e as [sg w v| | | | |src slo shi| |]; try (apply (Other True); exact I).
  - rewrite zdict_set_fresh by (intros I; apply N; apply Keys_i; exact I). unfold acc_inv, acc_flat. split; [|split; [exact G|split; [exact Fo|]]].
    + rewrite map_app. cbn [map snd int_slot_of]. rewrite !app_assoc. apply Permutation_app_tail. rewrite <- !app_assoc. exact P.
    + apply Forall_app. split; [exact Fi|]. constructor; [|constructor]. cbn [fst snd int_slot_of]. split; [reflexivity | exact I].
  - unfold acc_inv, acc_flat. split; [|split; [|split; [exact Fo | exact Fi]]].
    + eapply Permutation_trans; [apply Permutation_app_tail; apply edict_append_flat|]. cbn [app]. apply perm_snoc. exact P.
    + apply (edict_append_ok sources src slo shi (ESlice src slo shi, lo, hi)); [reflexivity | exact G].
Qed.
Lemma classify_all : forall args acc done, acc_inv acc done -> NoDup (map slot_lo (done ++ args)) -> acc_inv (fold_left classify args acc) (done ++ args).
Proof.
  induction args as [|a r IH]; intros acc done Inv ND; [rewrite app_nil_r; exact Inv|]. cbn [fold_left].
  replace (done ++ a :: r) with ((done ++ [a]) ++ r) by (rewrite <- app_assoc; reflexivity). apply IH.
  - apply classify_inv; [exact Inv|]. rewrite map_app in ND. cbn [map] in ND. apply nodup_app in ND as (_ & _ & D). intros I. apply (D _ I). left. reflexivity.
  - rewrite <- app_assoc. exact ND.
Qed.

(** * the whole of merge_sliceto_slice *)
Lemma TV_perm l l' : Permutation l l' -> TV l = TV l'.
Proof.
  induction 1 as [|x l l' _ IH|x y l|l l' l'' _ IH1 _ IH2]; simpl; try congruence.
  rewrite !Z.lor_assoc, (Z.lor_comm (tfld y) (tfld x)). reflexivity.
Qed.
Lemma QV_perm x l l' : Permutation l l' -> QV x l = QV x l'.
Proof.
  induction 1 as [|q l l' _ IH|q y l|l l' l'' _ IH1 _ IH2]; simpl; try congruence.
  rewrite !Z.lor_assoc, (Z.lor_comm (qfld x y) (qfld x q)). reflexivity.
Qed.

Definition mask_int (t : bool * Z * Z * Z * Z) : Z * (Z * Z * Z) :=
  let '(sg, w, v, lo, hi) := t in
  (lo, (match binop_apply And (cls_of sg w) v (PY (2 ^ (hi - lo) - 1)) with RMI _ v' => v' | _ => v end, lo, hi)).
Fixpoint simp_groups (l : list (expr * list slot)) : res (list (Z * slot)) :=
  match l with
  | [] => Ok []
  | (src, sl) :: r =>
      do sorted_s <- sort_start (map (fun a => (slot_lo a, a)) sl);
      let items := map (fun '(_, a) => match slot_e a with
                                       | ESlice own s_lo s_hi => (own, (s_lo, s_hi, slot_lo a, slot_hi a))
                                       | _ => (src, (0, 0, slot_lo a, slot_hi a)) end) sorted_s in
      let merged := merge_slices (rev items) (List.length items) in
      do tl <- simp_groups r; Ok (merged ++ tl)
  end.
Lemma fold_left_ext {A B} (f g : A -> B -> A) : (forall acc a, f acc a = g acc a) -> forall l acc, fold_left f l acc = fold_left g l acc.
Proof. intros E. induction l as [|a l IH]; intros acc; [reflexivity|]. simpl. rewrite E. apply IH. Qed.
Lemma merge_unfold args : merge_sliceto_slice args =
  let '(sources, non_slice, sources_int) := fold_left classify args ([], [], []) in
  let max_size := fold_left (fun m a => Z.max m (slot_hi a)) args 0 in
  do sorted_i <- sort_start (map (fun p => mask_int (snd p)) sources_int);
  do fin_ints <- merge_ints max_size (rev (map snd sorted_i)) (List.length sorted_i);
  do simp_sources <- simp_groups sources;
  do sorted <- sort_start (simp_sources ++ fin_ints ++ non_slice);
  Ok (map snd sorted).
Proof.
  unfold merge_sliceto_slice.
  match goal with |- context [fold_left ?f args ([], [], [])] => rewrite (fold_left_ext f classify) by (intros [[? ?] ?] ?; reflexivity) end.
  destruct (fold_left classify args ([], [], [])) as [[sources non_slice] sources_int].
  assert (E1 : map (fun '(_, (sg, w, v, lo, hi)) => (lo, (match binop_apply And (cls_of sg w) v (PY (2 ^ (hi - lo) - 1)) with RMI _ v' => v' | _ => v end, lo, hi))) sources_int
               = map (fun p => mask_int (snd p)) sources_int) by (apply map_ext; intros [k [[[[sg w] v] lo] hi]]; reflexivity).
  rewrite E1. assert (E2 : map (fun '(i, v) => (i, v)) non_slice = non_slice) by (rewrite <- (map_id non_slice) at 2; apply map_ext; intros [i v]; reflexivity).
  rewrite E2. reflexivity.
Qed.

(** conditions on the slots of the argument *)
Definition in_piece_ok (n : Z) (a : slot) : Prop :=
  0 <= slot_lo a /\ slot_lo a < slot_hi a /\ slot_hi a <= n /\
  match slot_e a with
  | EInt sg w v => sg = false /\ slot_hi a - slot_lo a <= w /\ 0 <= v < 2 ^ w
  | ESlice src slo shi => 0 <= slo /\ shi - slo = slot_hi a - slot_lo a
  | _ => True
  end.

Lemma mask_value w v k : 0 <= k -> k <= w -> 0 <= v < 2 ^ w ->
  match binop_apply And (cls_of false w) v (PY (2 ^ k - 1)) with RMI _ v' => v' | _ => v end = wrap k v.
Proof.
  intros Hk Hw Hv. unfold binop_apply, exact, cls_of, norm, limit. cbn [c_sg c_w].
  replace (2 ^ k - 1) with (Z.ones k) by (rewrite Z.ones_equiv; lia). rewrite Z.land_ones by lia. unfold wrap.
  apply Z.mod_small. pose proof (Z.mod_pos_bound v (2 ^ k) ltac:(apply Z.pow_pos_nonneg; lia)) as B.
  split; [lia|]. apply Z.lt_le_trans with (2 ^ k); [lia | apply Z.pow_le_mono_r; lia].
Qed.

Section Whole.
  Variable rho : string -> Z.
  Variable mu : Z -> Z.
  Variable iota : string -> list Z -> Z.
  Notation ev := (eval rho mu iota).
  Notation VV := (V rho mu iota).

  Definition item_of (src : expr) (a : slot) : expr * (Z * Z * Z * Z) :=
    match slot_e a with
    | ESlice own s_lo s_hi => (own, (s_lo, s_hi, slot_lo a, slot_hi a))
    | _ => (src, (0, 0, slot_lo a, slot_hi a))
    end.
  (** a merged slice in the result: a slice of the source of one of the argument's slices, ending where that one ends *)
  Definition out_slice_ok (n : Z) (L : list slot) (s : slot) : Prop :=
    exists src slo0 shi a', slot_e s = ESlice src a' shi /\ 0 <= a' /\ shi - a' = slot_hi s - slot_lo s /\
      0 <= slot_lo s /\ slot_lo s < slot_hi s /\ slot_hi s <= n /\ exists a0, In a0 L /\ slot_e a0 = ESlice src slo0 shi.
  Definition covered (out : list (Z * slot)) (a : slot) : Prop :=
    exists p, In p out /\ slot_lo (snd p) <= slot_lo a /\ slot_hi a <= slot_hi (snd p).

  Lemma QV_items n src : forall L : list slot,
    (forall a, In a L -> exists own slo shi, slot_e a = ESlice own slo shi /\ ev own = ev src /\ ok4 n (slo, shi, slot_lo a, slot_hi a)) ->
    QV (ev src) (map (fun a => snd (item_of src a)) L) = VV L.
  Proof.
    induction L as [|a L IH]; intros H; [reflexivity|]. cbn [map]. change (QV (ev src) (?q :: ?l)) with (Z.lor (qfld (ev src) q) (QV (ev src) l)).
    change (VV (a :: L)) with (Z.lor (sval rho mu iota a) (VV L)). rewrite IH by (intros b Hb; apply H; right; exact Hb). f_equal.
    destruct (H a (or_introl eq_refl)) as (own & slo & shi & Ea & Ev & O). unfold item_of. rewrite Ea. cbn [snd].
    destruct a as [[e lo] hi]. unfold slot_e, slot_lo, slot_hi in *. cbn [fst snd] in *. subst e. rewrite <- Ev. symmetry. apply (sval_slice rho mu iota own (slo, shi, lo, hi) n O).
  Qed.

  Lemma group_spec n src sl merged sorted_s : group_ok (src, sl) -> Forall (in_piece_ok n) sl -> NoDup (map slot_lo sl) ->
    sort_start (map (fun a => (slot_lo a, a)) sl) = Ok sorted_s ->
    merged = merge_slices (rev (map (fun p => item_of src (snd p)) sorted_s)) (List.length (map (fun p => item_of src (snd p)) sorted_s)) ->
    VV (map snd merged) = VV sl /\ Forall (fun p => fst p = slot_lo (snd p)) merged /\ Forall (out_slice_ok n sl) (map snd merged) /\
    Forall (covered merged) sl /\ incl (map fst merged) (map slot_lo sl) /\ forall i, occ (map snd merged) i = occ sl i.
  Proof.
    intros G F ND Hs Hm. pose proof (sort_start_perm _ _ Hs) as P.
    set (items := map (fun p => item_of src (snd p)) sorted_s) in *.
    assert (Psl : Permutation sl (map snd sorted_s)).
    { apply (Permutation_map snd) in P. rewrite map_map in P. cbn [snd] in P. rewrite map_id in P. exact P. }
    assert (Hsl : forall a, In a sl -> exists own slo shi, slot_e a = ESlice own slo shi /\ ev own = ev src /\ ok4 n (slo, shi, slot_lo a, slot_hi a) /\ item_of src a = (own, (slo, shi, slot_lo a, slot_hi a))).
    { intros a Ha. unfold group_ok in G. cbn [fst snd] in G. rewrite Forall_forall in G, F. destruct (G a Ha) as (own & slo & shi & Ea & Q).
      destruct (F a Ha) as (B1 & B2 & B3 & B4). rewrite Ea in B4. destruct B4 as [B4 B5].
      exists own, slo, shi. split; [exact Ea|]. split; [symmetry; apply eval_eqb; exact Q|]. split.
      - unfold ok4, q_slo, q_shi, q_lo, q_hi. cbn [fst snd]. repeat split; lia.
      - unfold item_of. rewrite Ea. reflexivity. }
    assert (Hit : forall it, In it (rev items) -> exists a, In a sl /\ it = item_of src a).
    { intros it Hi. apply in_rev in Hi. unfold items in Hi. apply in_map_iff in Hi as (p & <- & Hp). exists (snd p). split; [|reflexivity].
      apply (Permutation_in _ (Permutation_sym Psl)). apply in_map. exact Hp. }
    assert (Fd : Forall (fun it => ok4 n (snd it) /\ ev (fst it) = ev src) (rev items)).
    { apply Forall_forall. intros it Hi. destruct (Hit it Hi) as (a & Ha & ->). destruct (Hsl a Ha) as (own & slo & shi & _ & Ev & O & ->). cbn [fst snd]. split; assumption. }
    assert (Elo : map (it_lo) (rev items) = rev (map slot_lo (map snd sorted_s))).
    { unfold items. rewrite <- !map_rev. rewrite !map_map. apply map_ext_in. intros p Hp. apply in_rev in Hp.
      assert (Ha : In (snd p) sl) by (apply (Permutation_in _ (Permutation_sym Psl)); apply in_map; exact Hp).
      destruct (Hsl _ Ha) as (own & slo & shi & _ & _ & _ & ->). reflexivity. }
    assert (NDd : NoDup (map it_lo (rev items))).
    { rewrite Elo. apply NoDup_rev. apply (Permutation_NoDup (Permutation_map slot_lo Psl)). exact ND. }
    assert (Len : (List.length (rev items) <= List.length items)%nat) by (rewrite rev_length; lia).
    destruct (merge_slices_spec rho mu iota (ev src) n _ (rev items) merged Len Fd NDd (eq_sym Hm)) as (I1 & I2 & I3 & I4 & I5 & I6 & I7).
    split; [|split; [exact I2|split; [|split; [|split]]]].
    - rewrite I1. rewrite (V_perm rho mu iota _ _ Psl). rewrite (QV_perm _ _ _ (Permutation_map snd (Permutation_sym (Permutation_rev items)))).
      unfold items. rewrite map_map. rewrite <- (map_map snd (fun a => snd (item_of src a))). apply (QV_items n src).
      intros a Ha. apply (Permutation_in _ (Permutation_sym Psl)) in Ha. destruct (Hsl a Ha) as (own & slo & shi & Ea & Ev & O & _). exists own, slo, shi. auto.
    - eapply Forall_impl; [|exact I5]. intros s (srcq & q & a' & Iq & Es & A1 & A2 & A3 & A4 & A5).
      destruct (Hit _ Iq) as (a0 & Ha0 & Eit). destruct (Hsl a0 Ha0) as (own & slo & shi & Ea0 & _ & _ & Ei). rewrite Ei in Eit. inversion Eit; subst srcq q.
      unfold q_shi in *. cbn [fst snd] in *. exists own, slo, shi, a'. repeat split; try assumption. exists a0. split; assumption.
    - apply Forall_forall. intros a Ha. rewrite Forall_forall in I6.
        assert (Hi : In (item_of src a) (rev items)).
        { apply in_rev. rewrite rev_involutive. unfold items. apply (Permutation_in _ Psl) in Ha. apply in_map_iff in Ha as (p & <- & Hp). apply in_map_iff. exists p. split; [reflexivity | exact Hp]. }
        destruct (I6 _ Hi) as (p & Ip & R1 & R2). destruct (Hsl a Ha) as (own & slo & shi & _ & _ & _ & Ei). rewrite Ei in R1, R2. unfold q_lo, q_hi in R1, R2. cbn [fst snd] in R1, R2.
        exists p. split; [exact Ip | split; assumption].
    - intros y Hy. apply I4 in Hy. rewrite Elo in Hy. apply in_rev in Hy. apply (Permutation_in _ (Permutation_sym (Permutation_map slot_lo Psl))). exact Hy.
    - intros i. rewrite I7. rewrite (fold_sum_perm (fun it => ind (q_lo (snd it)) (q_hi (snd it)) i) _ _ (Permutation_sym (Permutation_rev items))).
      unfold items. rewrite <- (fold_sum_map (fun p => item_of src (snd p)) (fun it => ind (q_lo (snd it)) (q_hi (snd it)) i) sorted_s).
      rewrite (occ_perm _ _ i Psl). rewrite occ_as_sum. rewrite <- (fold_sum_map snd (fun s0 => ind (slot_lo s0) (slot_hi s0) i) sorted_s).
      apply fold_sum_ext_in. intros p Hp. assert (Ha : In (snd p) sl) by (apply (Permutation_in _ (Permutation_sym Psl)); apply in_map; exact Hp).
      destruct (Hsl _ Ha) as (own & slo & shi & _ & _ & _ & ->). reflexivity.
  Qed.

  Lemma covered_app_l out1 out2 a : covered out1 a -> covered (out1 ++ out2) a.
  Proof. intros (p & I & R). exists p. split; [apply in_or_app; left; exact I | exact R]. Qed.
  Lemma covered_app_r out1 out2 a : covered out2 a -> covered (out1 ++ out2) a.
  Proof. intros (p & I & R). exists p. split; [apply in_or_app; right; exact I | exact R]. Qed.
  Lemma out_slice_mono n L L' s : incl L L' -> out_slice_ok n L s -> out_slice_ok n L' s.
  Proof. intros I (src & slo0 & shi & a' & A1 & A2 & A3 & A4 & A5 & A6 & a0 & Ia & Ea). exists src, slo0, shi, a'. repeat split; try assumption. exists a0. split; [apply I; exact Ia | exact Ea]. Qed.

  Lemma groups_spec n : forall S out, Forall group_ok S -> Forall (in_piece_ok n) (groups_flat S) -> NoDup (map slot_lo (groups_flat S)) ->
    simp_groups S = Ok out ->
    VV (map snd out) = VV (groups_flat S) /\ Forall (fun p => fst p = slot_lo (snd p)) out /\ Forall (out_slice_ok n (groups_flat S)) (map snd out) /\
    Forall (covered out) (groups_flat S) /\ forall i, occ (map snd out) i = occ (groups_flat S) i.
  Proof.
    induction S as [|[src sl] r IH]; intros out G F ND H.
    - simpl in H. inversion H; subst. cbn [groups_flat map List.concat]. split; [reflexivity|]. split; [constructor|]. split; [constructor|]. split; [constructor | reflexivity].
    - cbn [simp_groups] in H. destruct (sort_start (map (fun a => (slot_lo a, a)) sl)) as [sorted_s| |] eqn:Hs; try discriminate. cbn [bind] in H.
      destruct (simp_groups r) as [tl| |] eqn:Ht; try discriminate. cbn [bind] in H. inversion H; subst out. clear H.
      inversion G as [|? ? G1 Gr]; subst. unfold groups_flat in *. cbn [map snd List.concat] in *. fold (groups_flat r) in *.
      apply Forall_app in F as [F1 Fr]. rewrite map_app in ND. apply nodup_app in ND as (ND1 & NDr & _).
      assert (Ei : map (fun '(_, a) => match slot_e a with ESlice own s_lo s_hi => (own, (s_lo, s_hi, slot_lo a, slot_hi a)) | _ => (src, (0, 0, slot_lo a, slot_hi a)) end) sorted_s
                   = map (fun p => item_of src (snd p)) sorted_s) by (apply map_ext; intros [k a]; reflexivity).
      rewrite Ei.
      destruct (group_spec n src sl _ sorted_s G1 F1 ND1 Hs eq_refl) as (A1 & A2 & A3 & A4 & _ & A6).
      destruct (IH tl Gr Fr NDr eq_refl) as (B1 & B2 & B3 & B4 & B5).
      split; [|split; [|split; [|split]]].
      + rewrite map_app, !V_app, A1, B1. reflexivity.
      + apply Forall_app. split; assumption.
      + rewrite map_app. apply Forall_app. split.
        * eapply Forall_impl; [|exact A3]. intros s0. apply out_slice_mono. intros y Hy. apply in_or_app. left. exact Hy.
        * eapply Forall_impl; [|exact B3]. intros s0. apply out_slice_mono. intros y Hy. apply in_or_app. right. exact Hy.
      + apply Forall_app. split.
        * eapply Forall_impl; [|exact A4]. intros a. apply covered_app_l.
        * eapply Forall_impl; [|exact B4]. intros a. apply covered_app_r.
      + intros i. rewrite map_app, !occ_app, A6, B5. reflexivity.
  Qed.

  Lemma asc_head {A} (x : Z * A) r : asc (x :: r) -> Forall (fun y => fst x < fst y) r.
  Proof.
    revert x. induction r as [|y r IH]; intros x H; [constructor|]. simpl in H. destruct H as [H1 H2]. constructor; [exact H1|].
    eapply Forall_impl; [|apply (IH y H2)]. intros z Hz. cbv beta in Hz. lia.
  Qed.
  Lemma asc_nodup {A} (l : list (Z * A)) : asc l -> NoDup (map fst l).
  Proof.
    induction l as [|x r IH]; intros H; [constructor|]. simpl. constructor; [|apply IH; simpl in H; apply H].
    intros I. apply in_map_iff in I as (y & E & Iy). pose proof (asc_head x r H) as F. rewrite Forall_forall in F. specialize (F y Iy). lia.
  Qed.

  Definition out_ok (n : Z) (args : list slot) (s : slot) : Prop :=
    (In s args /\ is_other s) \/ int_slot_ok n s \/ out_slice_ok n args s.

  Lemma TV_ints n : forall IS : list (Z * (bool * Z * Z * Z * Z)), Forall (in_piece_ok n) (map (fun p => int_slot_of (snd p)) IS) ->
    TV (map (fun p => snd (mask_int (snd p))) IS) = VV (map (fun p => int_slot_of (snd p)) IS) /\
    Forall (ok3 n) (map (fun p => snd (mask_int (snd p))) IS) /\
    map t_lo (map (fun p => snd (mask_int (snd p))) IS) = map slot_lo (map (fun p => int_slot_of (snd p)) IS) /\
    forall i, fold_right (fun t acc => ind (t_lo t) (t_hi t) i + acc) 0 (map (fun p => snd (mask_int (snd p))) IS) = occ (map (fun p => int_slot_of (snd p)) IS) i.
  Proof.
    induction IS as [|[k [[[[sg w] v] lo] hi]] r IH]; intros F; [split; [reflexivity|split; [constructor|split; reflexivity]]|].
    cbn [map snd] in F. inversion F as [|? ? Fa Fr]; subst. destruct (IH Fr) as (I1 & I2 & I3 & I4).
    destruct Fa as (B1 & B2 & B3 & B4). unfold int_slot_of, slot_e, slot_lo, slot_hi in B1, B2, B3, B4. cbn [fst snd] in B1, B2, B3, B4. destruct B4 as (-> & B5 & B6).
    assert (M : snd (mask_int (false, w, v, lo, hi)) = (wrap (hi - lo) v, lo, hi)) by (unfold mask_int; cbn [snd]; rewrite (mask_value w v (hi - lo)) by lia; reflexivity).
    cbn [map snd]. rewrite M. split; [|split; [|split]].
    - change (TV ((wrap (hi - lo) v, lo, hi) :: ?l)) with (Z.lor (tfld (wrap (hi - lo) v, lo, hi)) (TV l)).
      change (VV (int_slot_of (false, w, v, lo, hi) :: ?l)) with (Z.lor (sval rho mu iota (int_slot_of (false, w, v, lo, hi))) (VV l)). rewrite I1. f_equal.
      unfold tfld, t_v, t_lo, t_hi, sval, int_slot_of, slot_e, slot_lo, slot_hi, fld. cbn [fst snd eval]. f_equal. unfold wrap. rewrite Z.mod_mod by (apply Z.pow_nonzero; lia).
      rewrite (Z.mod_small v (2 ^ w)) by lia. reflexivity.
    - constructor; [|exact I2]. unfold ok3, t_v, t_lo, t_hi. cbn [fst snd]. repeat split; try lia; apply Z.mod_pos_bound; apply Z.pow_pos_nonneg; lia.
    - cbn [map]. rewrite I3. reflexivity.
    - intros i. cbn [fold_right occ]. rewrite I4. reflexivity.
  Qed.

  Theorem merge_spec args out n : n = fold_left (fun m a => Z.max m (slot_hi a)) args 0 -> 0 < n -> n <= 64 ->
    NoDup (map slot_lo args) -> Forall (in_piece_ok n) args -> merge_sliceto_slice args = Ok out ->
    VV out = VV args /\ NoDup (map slot_lo out) /\ Forall (out_ok n args) out /\
    Forall (fun a => exists s, In s out /\ slot_lo s <= slot_lo a /\ slot_hi a <= slot_hi s) args /\
    forall i, occ out i = occ args i.
  Proof.
    intros En Hn0 Hn ND F H. rewrite merge_unfold in H. rewrite <- En in H.
    assert (Inv0 : acc_inv ([], [], []) []) by (unfold acc_inv, acc_flat, groups_flat; cbn; repeat split; constructor).
    pose proof (classify_all args ([], [], []) [] Inv0 ND) as Inv. cbn [app] in Inv.
    destruct (fold_left classify args ([], [], [])) as [[S NS] IS]. destruct Inv as (PA & G & Fo & Fi). unfold acc_flat in PA.
    set (ints := map (fun p => int_slot_of (snd p)) IS) in *.
    assert (Fall : Forall (in_piece_ok n) (groups_flat S ++ map snd NS ++ ints)) by (apply (Permutation_Forall (Permutation_sym PA)); exact F).
    assert (NDall : NoDup (map slot_lo (groups_flat S ++ map snd NS ++ ints))) by (apply (Permutation_NoDup (Permutation_map slot_lo (Permutation_sym PA))); exact ND).
    apply Forall_app in Fall as [FS Fall]. apply Forall_app in Fall as [FN FI].
    rewrite !map_app in NDall. apply nodup_app in NDall as (NDS & NDall & _). apply nodup_app in NDall as (NDN & NDI & _).
    destruct (TV_ints n IS FI) as (T1 & T2 & T3 & T4).
    destruct (sort_start (map (fun p => mask_int (snd p)) IS)) as [sorted_i| |] eqn:Hsi; try discriminate. cbn [bind] in H.
    destruct (merge_ints n (rev (map snd sorted_i)) (List.length sorted_i)) as [fin| |] eqn:Hmi; try discriminate. cbn [bind] in H.
    destruct (simp_groups S) as [simp| |] eqn:Hg; try discriminate. cbn [bind] in H.
    destruct (sort_start (simp ++ fin ++ NS)) as [sorted| |] eqn:Hso; try discriminate. cbn [bind] in H. inversion H; subst out. clear H.
    pose proof (sort_start_perm _ _ Hsi) as Pi. apply (Permutation_map snd) in Pi. rewrite map_map in Pi.
    assert (Pd : Permutation (map (fun p => snd (mask_int (snd p))) IS) (rev (map snd sorted_i))) by (eapply Permutation_trans; [exact Pi | apply Permutation_rev]).
    assert (Ld : (List.length (rev (map snd sorted_i)) <= List.length sorted_i)%nat) by (rewrite rev_length, map_length; lia).
    assert (Fd : Forall (ok3 n) (rev (map snd sorted_i))) by (apply (Permutation_Forall Pd); exact T2).
    assert (NDd : NoDup (map t_lo (rev (map snd sorted_i)))) by (apply (Permutation_NoDup (Permutation_map t_lo Pd)); rewrite T3; exact NDI).
    destruct (merge_ints_spec rho mu iota n Hn0 Hn _ _ fin Ld Fd NDd Hmi) as (J1 & J2 & J3 & J4 & J5 & J6 & J7).
    destruct (groups_spec n S simp G FS NDS Hg) as (K1 & K2 & K3 & K4 & K5).
    pose proof (sort_start_perm _ _ Hso) as Ps. pose proof (sort_start_asc _ _ Hso) as As.
    assert (Keys : Forall (fun p => fst p = slot_lo (snd p)) sorted).
    { apply (Permutation_Forall Ps). apply Forall_app. split; [exact K2|]. apply Forall_app. split; [exact J3|]. eapply Forall_impl; [|exact Fo]. intros p Hp. apply Hp. }
    assert (InclS : incl (groups_flat S) args) by (intros y Hy; apply (Permutation_in _ PA); apply in_or_app; left; exact Hy).
    split; [|split; [|split; [|split]]].
    - rewrite (V_perm rho mu iota _ _ (Permutation_map snd (Permutation_sym Ps))). rewrite !map_app, !V_app, K1, J1.
      rewrite <- (TV_perm _ _ Pd), T1. rewrite <- (V_perm rho mu iota _ _ PA), !V_app. fold ints. f_equal. apply Z.lor_comm.
    - assert (E : map slot_lo (map snd sorted) = map fst sorted).
      { rewrite map_map. apply map_ext_in. intros p Hp. rewrite Forall_forall in Keys. symmetry. apply Keys. exact Hp. }
      rewrite E. apply asc_nodup. exact As.
    - apply Forall_forall. intros s Hs. apply in_map_iff in Hs as (p & <- & Hp). apply (Permutation_in _ (Permutation_sym Ps)) in Hp.
      apply in_app_or in Hp as [Hp|Hp]; [|apply in_app_or in Hp as [Hp|Hp]].
      + right. right. rewrite Forall_forall in K3. apply (out_slice_mono n _ _ _ InclS). apply K3. apply in_map. exact Hp.
      + right. left. rewrite Forall_forall in J2. apply J2. apply in_map. exact Hp.
      + left. rewrite Forall_forall in Fo. split; [|apply (Fo p Hp)]. apply (Permutation_in _ PA). apply in_or_app. right. apply in_or_app. left. apply in_map. exact Hp.
    - apply Forall_forall. intros a Ha. apply (Permutation_in _ (Permutation_sym PA)) in Ha.
      assert (Out : forall p, In p (simp ++ fin ++ NS) -> In (snd p) (map snd sorted)) by (intros p Hp; apply in_map; apply (Permutation_in _ Ps); exact Hp).
      apply in_app_or in Ha as [Ha|Ha]; [|apply in_app_or in Ha as [Ha|Ha]].
      + rewrite Forall_forall in K4. destruct (K4 a Ha) as (p & Ip & R). exists (snd p). split; [apply Out; apply in_or_app; left; exact Ip | exact R].
      + apply in_map_iff in Ha as (p & <- & Hp). exists (snd p). split; [apply Out; apply in_or_app; right; apply in_or_app; right; exact Hp | lia].
      + unfold ints in Ha. apply in_map_iff in Ha as (q & <- & Hq).
        assert (Hd : In (snd (mask_int (snd q))) (rev (map snd sorted_i))) by (apply (Permutation_in _ Pd); apply (in_map (fun p => snd (mask_int (snd p)))); exact Hq).
        rewrite Forall_forall in J6. destruct (J6 _ Hd) as (p & Ip & R1 & R2).
        destruct q as [k [[[[sg w] v] lo] hi]]. unfold mask_int, t_lo, t_hi in R1, R2. cbn [fst snd] in R1, R2.
        exists (snd p). split; [apply Out; apply in_or_app; right; apply in_or_app; left; exact Ip|]. unfold int_slot_of, slot_lo, slot_hi. cbn [fst snd]. unfold slot_lo, slot_hi in R1, R2. lia.
    - intros i. rewrite (occ_perm _ _ i (Permutation_map snd (Permutation_sym Ps))). rewrite !map_app, !occ_app, K5, J7.
      rewrite <- (fold_sum_perm (fun t => ind (t_lo t) (t_hi t) i) _ _ Pd), T4. rewrite <- (occ_perm _ _ i PA), !occ_app. fold ints. lia.
  Qed.
End Whole.

(** * extent of a slot list *)
Definition maxhi (l : list slot) : Z := fold_left (fun m a => Z.max m (slot_hi a)) l 0.
Lemma fold_max_ge : forall l m, m <= fold_left (fun m a => Z.max m (slot_hi a)) l m /\ forall a, In a l -> slot_hi a <= fold_left (fun m a => Z.max m (slot_hi a)) l m.
Proof.
  induction l as [|x l IH]; intros m; simpl; [split; [lia | intros a []]|].
  destruct (IH (Z.max m (slot_hi x))) as [A B]. split; [lia|]. intros a [<-|Ha]; [lia | apply B; exact Ha].
Qed.
Lemma fold_max_in : forall l m, fold_left (fun m a => Z.max m (slot_hi a)) l m = m \/ exists a, In a l /\ fold_left (fun m a => Z.max m (slot_hi a)) l m = slot_hi a.
Proof.
  induction l as [|x l IH]; intros m; simpl; [left; reflexivity|].
  destruct (IH (Z.max m (slot_hi x))) as [E|(a & Ha & E)].
  - rewrite E. destruct (Z.max_spec m (slot_hi x)) as [[_ Q]|[_ Q]]; rewrite Q; [right; exists x; split; [left; reflexivity | reflexivity] | left; reflexivity].
  - right. exists a. split; [right; exact Ha | exact E].
Qed.
Lemma fold_min_le : forall l m, fold_left (fun m a => Z.min m (slot_lo a)) l m <= m /\ forall a, In a l -> fold_left (fun m a => Z.min m (slot_lo a)) l m <= slot_lo a.
Proof.
  induction l as [|x l IH]; intros m; simpl; [split; [lia | intros a []]|].
  destruct (IH (Z.min m (slot_lo x))) as [A B]. split; [lia|]. intros a [<-|Ha]; [lia | apply B; exact Ha].
Qed.
Lemma fold_min_ge : forall l m k, k <= m -> (forall a, In a l -> k <= slot_lo a) -> k <= fold_left (fun m a => Z.min m (slot_lo a)) l m.
Proof.
  induction l as [|x l IH]; intros m k Hm H; simpl; [exact Hm|]. apply IH; [|intros a Ha; apply H; right; exact Ha].
  pose proof (H x (or_introl eq_refl)). lia.
Qed.
(** slots starting at 0 somewhere, none below 0, all non-empty: the width of the concatenation is the highest end *)
Lemma compose_size s0 r : (forall a, In a (s0 :: r) -> 0 <= slot_lo a /\ slot_lo a < slot_hi a) -> (exists a, In a (s0 :: r) /\ slot_lo a = 0) ->
  size (ECompose (s0 :: r)) = maxhi (s0 :: r) /\ 0 < maxhi (s0 :: r).
Proof.
  intros H (a0 & Ha0 & Z0). cbn [size]. unfold maxhi. cbn [fold_left]. destruct (H s0 (or_introl eq_refl)) as [L0 L1].
  rewrite (Z.max_r 0 (slot_hi s0)) by lia.
  assert (Mn : fold_left (fun m a => Z.min m (slot_lo a)) r (slot_lo s0) = 0).
  { apply Z.le_antisymm.
    - destruct (fold_min_le r (slot_lo s0)) as [M1 M2]. destruct Ha0 as [E0|Ha0]; [subst a0; lia | specialize (M2 a0 Ha0); lia].
    - apply fold_min_ge; [lia|]. intros a Ha. apply H. right. exact Ha. }
  rewrite Mn. split; [lia|]. pose proof (proj1 (fold_max_ge r (slot_hi s0))). lia.
Qed.

Section Range.
  Variable rho : string -> Z.
  Variable mu : Z -> Z.
  Variable iota : string -> list Z -> Z.
  Lemma lor_lt_pow2 a b n : 0 <= n -> 0 <= a < 2 ^ n -> 0 <= b < 2 ^ n -> 0 <= Z.lor a b < 2 ^ n.
  Proof.
    intros Hn Ha Hb. split; [apply Z.lor_nonneg; lia|].
    assert (E : Z.lor a b = Z.lor a b mod 2 ^ n) by (rewrite <- !Z.land_ones by lia; rewrite Z.land_lor_distr_l; rewrite !Z.land_ones by lia; rewrite !Z.mod_small by lia; reflexivity).
    rewrite E. apply Z.mod_pos_bound. apply Z.pow_pos_nonneg; lia.
  Qed.
  Lemma V_range n l : 0 <= n -> (forall a, In a l -> 0 <= slot_lo a /\ slot_lo a <= slot_hi a /\ slot_hi a <= n) -> 0 <= V rho mu iota l < 2 ^ n.
  Proof.
    intros Hn. induction l as [|s l IH]; intros H; [simpl; split; [lia | apply Z.pow_pos_nonneg; lia]|].
    cbn [V fold_right]. fold (V rho mu iota l). destruct (H s (or_introl eq_refl)) as (A1 & A2 & A3).
    apply lor_lt_pow2; [lia | | apply IH; intros a Ha; apply H; right; exact Ha].
    unfold sval. split; [apply fld_nonneg; lia | apply fld_lt; lia].
  Qed.
End Range.

(** * no two slots overlap *)
Definition disj2 (a b : slot) : bool := (slot_hi a <=? slot_lo b) || (slot_hi b <=? slot_lo a).
Fixpoint pdisj (l : list slot) : bool := match l with [] => true | s :: r => forallb (disj2 s) r && pdisj r end.
Lemma occ_ge_ind t r i : In t r -> ind (slot_lo t) (slot_hi t) i <= occ r i.
Proof.
  induction r as [|x r IH]; intros H; [contradiction|]. simpl. destruct H as [->|H].
  - pose proof (occ_nonneg r i). lia.
  - specialize (IH H). pose proof (ind_range (slot_lo x) (slot_hi x) i). lia.
Qed.
Lemma pdisj_occ l : pdisj l = true -> forall i, occ l i <= 1.
Proof.
  induction l as [|s r IH]; intros H i; simpl; [lia|]. simpl in H. apply andb_true_iff in H as [D P]. specialize (IH P i).
  unfold ind at 1. destruct ((slot_lo s <=? i) && (i <? slot_hi s)) eqn:C; [|lia]. apply andb_true_iff in C as [C1 C2]. apply Z.leb_le in C1. apply Z.ltb_lt in C2.
  assert (Z0 : occ r i = 0).
  { clear IH P. induction r as [|t r IHr]; [reflexivity|]. simpl in D. apply andb_true_iff in D as [Dt Dr]. simpl. rewrite (IHr Dr).
    unfold disj2 in Dt. apply orb_true_iff in Dt as [Q|Q]; apply Z.leb_le in Q; unfold ind;
      destruct (Z.leb_spec (slot_lo t) i), (Z.ltb_spec i (slot_hi t)); cbn [andb]; lia. }
  lia.
Qed.
Lemma occ_pdisj l : (forall a, In a l -> slot_lo a < slot_hi a) -> (forall i, occ l i <= 1) -> pdisj l = true.
Proof.
  induction l as [|s r IH]; intros Ne H; [reflexivity|]. simpl. apply andb_true_iff. split.
  - apply forallb_forall. intros t Ht. unfold disj2. destruct (Z.leb_spec (slot_hi s) (slot_lo t)) as [A|A]; [reflexivity|].
    destruct (Z.leb_spec (slot_hi t) (slot_lo s)) as [B|B]; [reflexivity|]. exfalso.
    pose proof (Ne s (or_introl eq_refl)) as Ns. pose proof (Ne t (or_intror Ht)) as Nt.
    set (m := Z.max (slot_lo s) (slot_lo t)). specialize (H m). simpl in H. pose proof (occ_ge_ind t r m Ht) as G.
    assert (I1 : ind (slot_lo s) (slot_hi s) m = 1) by (unfold ind, m; destruct (Z.leb_spec (slot_lo s) (Z.max (slot_lo s) (slot_lo t))), (Z.ltb_spec (Z.max (slot_lo s) (slot_lo t)) (slot_hi s)); cbn [andb]; lia).
    assert (I2 : ind (slot_lo t) (slot_hi t) m = 1) by (unfold ind, m; destruct (Z.leb_spec (slot_lo t) (Z.max (slot_lo s) (slot_lo t))), (Z.ltb_spec (Z.max (slot_lo s) (slot_lo t)) (slot_hi t)); cbn [andb]; lia).
    lia.
  - apply IH; [intros a Ha; apply Ne; right; exact Ha|]. intros i. specialize (H i). simpl in H. pose proof (ind_range (slot_lo s) (slot_hi s) i). lia.
Qed.

Section Unique.
  Variable rho : string -> Z.
  Variable mu : Z -> Z.
  Variable iota : string -> list Z -> Z.
  Lemma V_bit_zero l j : 0 <= j -> (forall a, In a l -> 0 <= slot_lo a /\ slot_lo a <= slot_hi a) -> occ l j = 0 -> Z.testbit (V rho mu iota l) j = false.
  Proof.
    intros Hj. induction l as [|t r IH]; intros G H; [apply Z.bits_0|]. cbn [V fold_right]. fold (V rho mu iota r). simpl in H.
    pose proof (ind_range (slot_lo t) (slot_hi t) j) as R1. pose proof (occ_nonneg r j) as R2.
    rewrite Z.lor_spec, IH by (try (intros a Ha; apply G; right; exact Ha); lia). rewrite orb_false_r. unfold sval.
    destruct (G t (or_introl eq_refl)) as [G1 G2]. rewrite fld_bits by lia. unfold ind in H.
    destruct ((slot_lo t <=? j) && (j <? slot_hi t)); [lia | reflexivity].
  Qed.
  Lemma V_bit_unique l s j : 0 <= j -> (forall a, In a l -> 0 <= slot_lo a /\ slot_lo a <= slot_hi a) -> In s l -> (forall i, occ l i <= 1) -> slot_lo s <= j < slot_hi s ->
    Z.testbit (V rho mu iota l) j = Z.testbit (sval rho mu iota s) j.
  Proof.
    intros Hj. induction l as [|t r IH]; intros G Hs H Rj; [contradiction|]. cbn [V fold_right]. fold (V rho mu iota r). rewrite Z.lor_spec.
    assert (Is : ind (slot_lo s) (slot_hi s) j = 1) by (unfold ind; destruct (Z.leb_spec (slot_lo s) j), (Z.ltb_spec j (slot_hi s)); cbn [andb]; lia).
    pose proof (H j) as Hj1. simpl in Hj1. pose proof (ind_range (slot_lo t) (slot_hi t) j) as R1. pose proof (occ_nonneg r j) as R2.
    destruct Hs as [->|Hs].
    - rewrite (V_bit_zero r j Hj) by (try (intros a Ha; apply G; right; exact Ha); lia). apply orb_false_r.
    - pose proof (occ_ge_ind s r j Hs) as Gs. assert (It : ind (slot_lo t) (slot_hi t) j = 0) by lia.
      assert (Bt : Z.testbit (sval rho mu iota t) j = false).
      { unfold sval. destruct (G t (or_introl eq_refl)) as [G1 G2]. rewrite fld_bits by lia. unfold ind in It. destruct ((slot_lo t <=? j) && (j <? slot_hi t)); [lia | reflexivity]. }
      rewrite Bt. cbn [orb]. apply IH; [intros a Ha; apply G; right; exact Ha | exact Hs | | exact Rj]. intros i. specialize (H i). simpl in H. pose proof (ind_range (slot_lo t) (slot_hi t) i). lia.
  Qed.
End Unique.
