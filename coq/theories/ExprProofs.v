(** ExprProofs.v — structural laws of the IR model (C15, C16).  No model definitions here. *)
From Coq Require Import ZArith List Bool String Lia.
From Mx Require Import Expr.
Import ListNotations.
Open Scope Z_scope.

(** * Induction principle for the nested inductive [expr] *)
Section ExprInd.
  Variable P : expr -> Prop.
  Hypothesis HInt : forall sg w v, P (EInt sg w v).
  Hypothesis HId : forall n w r t, P (EId n w r t).
  Definition Popt (s : option expr) : Prop := match s with Some u => P u | None => True end.
  Hypothesis HMem : forall a w s, P a -> Popt s -> P (EMem a w s).
  Hypothesis HOp : forall op args, Forall P args -> P (EOp op args).
  Hypothesis HCond : forall c a b, P c -> P a -> P b -> P (ECond c a b).
  Hypothesis HSlice : forall e lo hi, P e -> P (ESlice e lo hi).
  Hypothesis HCompose : forall args, Forall (fun s => P (slot_e s)) args -> P (ECompose args).
  Hypothesis HAff : forall d s, P d -> P s -> P (EAff d s).
  Fixpoint expr_ind' (e : expr) : P e :=
    match e with
    | EInt sg w v => HInt sg w v
    | EId n w r t => HId n w r t
    | EMem a w s => HMem a w s (expr_ind' a)
        (match s as s0 return Popt s0 with
         | Some u => expr_ind' u | None => I end)
    | EOp op args => HOp op args
        ((fix go (l : list expr) : Forall P l :=
            match l with [] => Forall_nil _ | x :: r => Forall_cons _ (expr_ind' x) (go r) end) args)
    | ECond c a b => HCond c a b (expr_ind' c) (expr_ind' a) (expr_ind' b)
    | ESlice e1 lo hi => HSlice e1 lo hi (expr_ind' e1)
    | ECompose args => HCompose args
        ((fix go (l : list slot) : Forall (fun s => P (slot_e s)) l :=
            match l with
            | [] => Forall_nil _
            | s :: r => Forall_cons _
                (match s as s0 return P (slot_e s0) with (e0, lo, hi) => expr_ind' e0 end) (go r)
            end) args)
    | EAff d s => HAff d s (expr_ind' d) (expr_ind' s)
    end.
End ExprInd.

(** * [all2] toolkit *)
Lemma all2_refl {A} (f : A -> A -> bool) l : Forall (fun a => f a a = true) l -> all2 f l l = true.
Proof. induction 1; simpl; auto. rewrite H, IHForall. reflexivity. Qed.

Lemma all2_sym {A} (f : A -> A -> bool) l : Forall (fun a => forall b, f a b = f b a) l ->
  forall l', all2 f l l' = all2 f l' l.
Proof.
  induction 1 as [|a l Ha Hl IH]; intros [|b l']; simpl; auto. rewrite Ha, IH. reflexivity.
Qed.

Lemma all2_trans {A} (f : A -> A -> bool) l :
  Forall (fun a => forall b c, f a b = true -> f b c = true -> f a c = true) l ->
  forall l' l'', all2 f l l' = true -> all2 f l' l'' = true -> all2 f l l'' = true.
Proof.
  induction 1 as [|a l Ha Hl IH]; intros [|b l'] [|c l'']; simpl; auto; try discriminate.
  intros H1 H2. apply andb_true_iff in H1 as [H1 H1']. apply andb_true_iff in H2 as [H2 H2'].
  rewrite (Ha b c H1 H2), (IH l' l'' H1' H2'). reflexivity.
Qed.

Lemma all2_length {A} (f : A -> A -> bool) l l' : all2 f l l' = true -> List.length l = List.length l'.
Proof.
  revert l'; induction l as [|a l IH]; intros [|b l']; simpl; auto; try discriminate.
  intros H. apply andb_true_iff in H as [_ H]. f_equal. auto.
Qed.

Lemma all2_map_eq {A B} (f : A -> A -> bool) (g : A -> B) l :
  Forall (fun a => forall b, f a b = true -> g a = g b) l ->
  forall l', all2 f l l' = true -> map g l = map g l'.
Proof.
  induction 1 as [|a l Ha Hl IH]; intros [|b l']; simpl; auto; try discriminate.
  intros H. apply andb_true_iff in H as [H1 H2]. f_equal; auto.
Qed.

(** * Unfolding lemmas for the inner fixpoints of [expr_eqb] *)
Definition slot_eqb (s s' : slot) : bool :=
  expr_eqb (slot_e s) (slot_e s') && (slot_lo s =? slot_lo s') && (slot_hi s =? slot_hi s').

Lemma eqb_op op l op' l' :
  expr_eqb (EOp op l) (EOp op' l') = (op =? op')%string && all2 expr_eqb l l'.
Proof.
  simpl. f_equal. revert l'. induction l as [|a l IH]; intros [|b l']; simpl; auto. rewrite IH. reflexivity.
Qed.

Lemma eqb_compose l l' : expr_eqb (ECompose l) (ECompose l') = all2 slot_eqb l l'.
Proof.
  simpl. revert l'. induction l as [|[[a lo] hi] l IH]; intros [|[[b lo'] hi'] l']; simpl; auto.
  rewrite IH. unfold slot_eqb; simpl. reflexivity.
Qed.

Opaque expr_eqb.
Lemma eqb_int sg w v sg' w' v' : expr_eqb (EInt sg w v) (EInt sg' w' v') = (v =? v') && (w =? w').
Proof. Transparent expr_eqb. reflexivity. Opaque expr_eqb. Qed.
Lemma eqb_id n w r t n' w' r' t' :
  expr_eqb (EId n w r t) (EId n' w' r' t') = (n =? n')%string && (w =? w') && Bool.eqb r r'.
Proof. Transparent expr_eqb. reflexivity. Opaque expr_eqb. Qed.
Lemma eqb_mem a w s a' w' s' :
  expr_eqb (EMem a w s) (EMem a' w' s') = expr_eqb a a' && (w =? w') && opt_eqb expr_eqb s s'.
Proof. Transparent expr_eqb. simpl. destruct s, s'; reflexivity. Opaque expr_eqb. Qed.
Lemma eqb_cond c a b c' a' b' :
  expr_eqb (ECond c a b) (ECond c' a' b') = expr_eqb c c' && expr_eqb a a' && expr_eqb b b'.
Proof. Transparent expr_eqb. reflexivity. Opaque expr_eqb. Qed.
Lemma eqb_slice e lo hi e' lo' hi' :
  expr_eqb (ESlice e lo hi) (ESlice e' lo' hi') = expr_eqb e e' && (lo =? lo') && (hi =? hi').
Proof. Transparent expr_eqb. reflexivity. Opaque expr_eqb. Qed.
Lemma eqb_aff d s d' s' : expr_eqb (EAff d s) (EAff d' s') = expr_eqb s s' && expr_eqb d d'.
Proof. Transparent expr_eqb. reflexivity. Opaque expr_eqb. Qed.
Lemma eqb_diff x y :
  match x, y with
  | EInt _ _ _, EInt _ _ _ | EId _ _ _ _, EId _ _ _ _ | EMem _ _ _, EMem _ _ _ | EOp _ _, EOp _ _
  | ECond _ _ _, ECond _ _ _ | ESlice _ _ _, ESlice _ _ _ | ECompose _, ECompose _ | EAff _ _, EAff _ _ => True
  | _, _ => expr_eqb x y = false
  end.
Proof. Transparent expr_eqb. destruct x, y; simpl; auto. Opaque expr_eqb. Qed.

Ltac eqb_norm :=
  repeat first [ rewrite eqb_int | rewrite eqb_id | rewrite eqb_mem | rewrite eqb_op | rewrite eqb_cond
               | rewrite eqb_slice | rewrite eqb_compose | rewrite eqb_aff ].
Ltac eqb_norm_in H :=
  repeat first [ rewrite eqb_int in H | rewrite eqb_id in H | rewrite eqb_mem in H | rewrite eqb_op in H
               | rewrite eqb_cond in H | rewrite eqb_slice in H | rewrite eqb_compose in H | rewrite eqb_aff in H ].
Ltac split_andb H :=
  repeat match type of H with
         | (_ && _ = true) => let H1 := fresh H in apply andb_true_iff in H as [H H1]; try split_andb H1
         end.

(** * Equality is an equivalence *)
Lemma eqb_refl : forall e, expr_eqb e e = true.
Proof.
  induction e using expr_ind'; eqb_norm.
  - rewrite !Z.eqb_refl. reflexivity.
  - rewrite String.eqb_refl, Z.eqb_refl, Bool.eqb_reflx. reflexivity.
  - rewrite IHe, Z.eqb_refl. destruct s; simpl; auto.
  - rewrite String.eqb_refl. simpl. apply all2_refl. assumption.
  - rewrite IHe1, IHe2, IHe3. reflexivity.
  - rewrite IHe, !Z.eqb_refl. reflexivity.
  - apply all2_refl. eapply Forall_impl; [|exact H]. intros s Hs. unfold slot_eqb.
    rewrite Hs, !Z.eqb_refl. reflexivity.
  - rewrite IHe1, IHe2. reflexivity.
Qed.

Lemma eqb_sym : forall x y, expr_eqb x y = expr_eqb y x.
Proof.
  induction x using expr_ind'; intros y; destruct y;
    try (pose proof (eqb_diff (EInt sg w v) (EId name w0 is_reg is_term)); fail);
    try match goal with |- expr_eqb ?a ?b = expr_eqb ?b ?a =>
          first [ pose proof (eqb_diff a b) as D1; pose proof (eqb_diff b a) as D2; simpl in D1, D2;
                  rewrite D1, D2; reflexivity | idtac ] end;
    eqb_norm.
  - rewrite (Z.eqb_sym v), (Z.eqb_sym w). reflexivity.
  - rewrite (String.eqb_sym n), (Z.eqb_sym w). f_equal. destruct r, is_reg; reflexivity.
  - rewrite IHx, (Z.eqb_sym w). f_equal. destruct s, segm; simpl; auto.
  - rewrite (String.eqb_sym op). f_equal. apply all2_sym. assumption.
  - rewrite IHx1, IHx2, IHx3. reflexivity.
  - rewrite IHx, (Z.eqb_sym lo), (Z.eqb_sym hi). reflexivity.
  - apply all2_sym. eapply Forall_impl; [|exact H]. intros s Hs b. unfold slot_eqb.
    rewrite Hs, (Z.eqb_sym (slot_lo s)), (Z.eqb_sym (slot_hi s)). reflexivity.
  - rewrite IHx1, IHx2. reflexivity.
Qed.

Ltac bool_hyps :=
  repeat match goal with
  | H : _ && _ = true |- _ => apply andb_true_iff in H; destruct H
  | H : (_ =? _)%Z = true |- _ => apply Z.eqb_eq in H
  | H : (_ =? _)%string = true |- _ => apply String.eqb_eq in H
  | H : Bool.eqb _ _ = true |- _ => apply Bool.eqb_prop in H
  end.

Lemma eqb_trans : forall x y z, expr_eqb x y = true -> expr_eqb y z = true -> expr_eqb x z = true.
Proof.
  induction x using expr_ind'; intros y z Hxy Hyz; destruct y;
    try (match type of Hxy with expr_eqb ?a ?b = true => pose proof (eqb_diff a b) as D; simpl in D; congruence end);
    destruct z;
    try (match type of Hyz with expr_eqb ?a ?b = true => pose proof (eqb_diff a b) as D; simpl in D; congruence end);
    eqb_norm_in Hxy; eqb_norm_in Hyz; eqb_norm; bool_hyps; subst;
    rewrite ?Z.eqb_refl, ?String.eqb_refl, ?Bool.eqb_reflx; simpl.
  - reflexivity.
  - reflexivity.
  - match goal with H1 : expr_eqb x ?y = true, H2 : expr_eqb ?y ?z = true |- _ => rewrite (IHx _ _ H1 H2) end. simpl.
    destruct s, segm, segm0; simpl in *; auto; try discriminate.
    match goal with H1 : expr_eqb e ?y = true, H2 : expr_eqb ?y ?z = true |- _ => exact (H _ _ H1 H2) end.
  - eapply all2_trans; eauto.
  - repeat match goal with
           | IH : forall y z, expr_eqb ?x y = true -> _, H1 : expr_eqb ?x ?y = true, H2 : expr_eqb ?y ?z = true |- _ =>
               rewrite (IH _ _ H1 H2); clear H1 end. reflexivity.
  - match goal with H1 : expr_eqb x ?y = true, H2 : expr_eqb ?y ?z = true |- _ => rewrite (IHx _ _ H1 H2) end. reflexivity.
  - eapply all2_trans; [|eassumption|eassumption].
    eapply Forall_impl; [|exact H]. intros s Hs b c H1 H2. unfold slot_eqb in *. bool_hyps.
    match goal with H1 : expr_eqb (slot_e s) ?y = true, H2 : expr_eqb ?y ?z = true |- _ => rewrite (Hs _ _ H1 H2) end.
    repeat match goal with E : slot_lo _ = slot_lo _ |- _ => rewrite E; clear E | E : slot_hi _ = slot_hi _ |- _ => rewrite E; clear E end.
    rewrite !Z.eqb_refl. reflexivity.
  - repeat match goal with
           | IH : forall y z, expr_eqb ?x y = true -> _, H1 : expr_eqb ?x ?y = true, H2 : expr_eqb ?y ?z = true |- _ =>
               rewrite (IH _ _ H1 H2); clear H1 end. reflexivity.
Qed.

(** * Equal expressions have equal sizes, values and hashes *)
Ltac use_ih :=
  repeat match goal with
         | IH : forall y, expr_eqb ?x y = true -> _, H : expr_eqb ?x _ = true |- _ => rewrite (IH _ H); clear IH
         end.
Lemma fold_max_map (r : list slot) x :
  fold_left (fun m s => Z.max m (slot_hi s)) r x = fold_left Z.max (map slot_hi r) x.
Proof. revert x; induction r; simpl; auto. Qed.
Lemma fold_min_map (r : list slot) x :
  fold_left (fun m s => Z.min m (slot_lo s)) r x = fold_left Z.min (map slot_lo r) x.
Proof. revert x; induction r; simpl; auto. Qed.

Lemma size_compose_maps l l' :
  map slot_lo l = map slot_lo l' -> map slot_hi l = map slot_hi l' -> size (ECompose l) = size (ECompose l').
Proof.
  destruct l as [|s r], l' as [|s' r']; simpl; try discriminate; auto.
  intros H1 H2. injection H1 as A1 B1. injection H2 as A2 B2.
  rewrite !fold_max_map, !fold_min_map, A1, A2, B1, B2. reflexivity.
Qed.

Lemma size_op_heads op l op' l' :
  map size l = map size l' -> size (EOp op l) = size (EOp op' l').
Proof.
  destruct l as [|a [|b r]], l' as [|a' [|b' r']]; simpl; try discriminate; auto;
    intros H; injection H; intros; subst; repeat match goal with E : size _ = size _ |- _ => rewrite E; clear E end; reflexivity.
Qed.

Lemma size_eqb : forall x y, expr_eqb x y = true -> size x = size y.
Proof.
  induction x using expr_ind'; intros y Hxy; destruct y;
    try (match type of Hxy with expr_eqb ?a ?b = true => pose proof (eqb_diff a b) as D; simpl in D; congruence end);
    eqb_norm_in Hxy; bool_hyps; subst; simpl; auto.
  - apply (size_op_heads op0 args op0 args0). eapply all2_map_eq; eauto.
  - apply (size_compose_maps args args0).
    + eapply all2_map_eq; [|eassumption]. apply Forall_forall. intros s _ b Hb. unfold slot_eqb in Hb. bool_hyps. assumption.
    + eapply all2_map_eq; [|eassumption]. apply Forall_forall. intros s _ b Hb. unfold slot_eqb in Hb. bool_hyps. assumption.
Qed.

Section EvalLaws.
  Variable rho : string -> Z.
  Variable mu : Z -> Z.
  Variable iota : string -> list Z -> Z.
  Notation ev := (eval rho mu iota).

  Definition slot_val (s : slot) : Z := Z.shiftl (wrap (slot_hi s - slot_lo s) (ev (slot_e s))) (slot_lo s).
  Lemma eval_compose l : ev (ECompose l) = fold_left Z.lor (map slot_val l) 0.
  Proof.
    simpl. generalize 0. induction l as [|s l IH]; intros acc; simpl; auto.
  Qed.
  Lemma eval_op_node op l : ev (EOp op l) = eval_op iota op (size (EOp op l)) (map ev l).
  Proof. reflexivity. Qed.

  Lemma eval_eqb : forall x y, expr_eqb x y = true -> ev x = ev y.
  Proof.
    induction x using expr_ind'; intros y Hxy; destruct y;
      try (match type of Hxy with expr_eqb ?a ?b = true => pose proof (eqb_diff a b) as D; simpl in D; congruence end).
    - eqb_norm_in Hxy; bool_hyps; subst; reflexivity.
    - eqb_norm_in Hxy; bool_hyps; subst; reflexivity.
    - eqb_norm_in Hxy; bool_hyps; subst. simpl. use_ih. reflexivity.
    - rewrite !eval_op_node. rewrite (size_eqb _ _ Hxy). eqb_norm_in Hxy; bool_hyps; subst.
      f_equal. eapply all2_map_eq; eauto.
    - eqb_norm_in Hxy; bool_hyps. simpl. use_ih. reflexivity.
    - eqb_norm_in Hxy; bool_hyps; subst. simpl. use_ih. reflexivity.
    - rewrite !eval_compose. eqb_norm_in Hxy. f_equal.
      eapply all2_map_eq; [|eassumption]. eapply Forall_impl; [|exact H]. intros s Hs b Hb.
      unfold slot_eqb in Hb; bool_hyps. unfold slot_val.
      match goal with E : expr_eqb (slot_e s) _ = true |- _ => rewrite (Hs _ E) end.
      repeat match goal with E : slot_lo _ = slot_lo _ |- _ => rewrite E; clear E | E : slot_hi _ = slot_hi _ |- _ => rewrite E; clear E end. reflexivity.
    - eqb_norm_in Hxy; bool_hyps. simpl. use_ih. reflexivity.
  Qed.
End EvalLaws.

Section HashLaws.
  Variable hs : string -> Z.
  Variable hi : Z -> Z.
  Variable hnone : Z.
  Notation hh := (hash hs hi hnone).
  Lemma hash_op op l : hh (EOp op l) = fold_left Z.lxor (map hh l) (hs op).
  Proof. simpl. generalize (hs op). induction l; intros; simpl; auto. Qed.
  Definition slot_hash (s : slot) : Z := Z.lxor (Z.lxor (hh (slot_e s)) (hi (slot_lo s))) (hi (slot_hi s)).
  Lemma hash_compose l : hh (ECompose l) = fold_left Z.lxor (map slot_hash l) 0.
  Proof. simpl. generalize 0. induction l; intros; simpl; auto. Qed.

  Lemma hash_eqb : forall x y, expr_eqb x y = true -> hh x = hh y.
  Proof.
    induction x using expr_ind'; intros y Hxy; destruct y;
      try (match type of Hxy with expr_eqb ?a ?b = true => pose proof (eqb_diff a b) as D; simpl in D; congruence end).
    - eqb_norm_in Hxy; bool_hyps; subst; reflexivity.
    - eqb_norm_in Hxy; bool_hyps; subst; reflexivity.
    - eqb_norm_in Hxy; bool_hyps; subst. simpl. use_ih. f_equal.
      destruct s, segm; simpl in *; try discriminate; auto.
    - rewrite !hash_op. eqb_norm_in Hxy; bool_hyps; subst. f_equal. eapply all2_map_eq; eauto.
    - eqb_norm_in Hxy; bool_hyps. simpl. use_ih. reflexivity.
    - eqb_norm_in Hxy; bool_hyps; subst. simpl. use_ih. reflexivity.
    - rewrite !hash_compose. eqb_norm_in Hxy. f_equal.
      eapply all2_map_eq; [|eassumption]. eapply Forall_impl; [|exact H]. intros s Hs b Hb.
      unfold slot_eqb in Hb; bool_hyps. unfold slot_hash.
      match goal with E : expr_eqb (slot_e s) _ = true |- _ => rewrite (Hs _ E) end.
      repeat match goal with E : slot_lo _ = slot_lo _ |- _ => rewrite E; clear E | E : slot_hi _ = slot_hi _ |- _ => rewrite E; clear E end. reflexivity.
    - eqb_norm_in Hxy; bool_hyps. simpl. use_ih. reflexivity.
  Qed.
End HashLaws.

(** * copy and visit(identity) return the very same tree *)
Lemma map_id_Forall {A} (f : A -> A) l : Forall (fun a => f a = a) l -> map f l = l.
Proof. induction 1; simpl; congruence. Qed.

Ltac slots := unfold slot_e, slot_lo, slot_hi in *; simpl in *.
Ltac destr_if := match goal with |- context[if ?c then _ else _] => destruct c end.

Lemma copy_id : forall e, copy e = e.
Proof.
  induction e using expr_ind'; simpl; try congruence.
  - rewrite IHe. destruct s; simpl in *; congruence.
  - rewrite map_id_Forall; auto.
  - f_equal. apply map_id_Forall. eapply Forall_impl; [|exact H].
    intros [[a lo] hi] Ha; slots. congruence.
Qed.

Lemma visit_id : forall e, visit (fun x => x) e = e.
Proof.
  induction e using expr_ind'; simpl; auto.
  - rewrite IHe. destruct s; simpl in *.
    + rewrite H. destr_if; reflexivity.
    + destr_if; reflexivity.
  - rewrite (map_id_Forall _ _ H). destr_if; reflexivity.
  - rewrite IHe1, IHe2, IHe3. destr_if; reflexivity.
  - rewrite IHe. destr_if; reflexivity.
  - assert (map (fun s => (visit (fun x => x) (slot_e s), slot_lo s, slot_hi s)) args = args) as E.
    { apply map_id_Forall. eapply Forall_impl; [|exact H]. intros [[a lo] hi] Ha; slots. congruence. }
    rewrite E. destr_if; reflexivity.
  - rewrite IHe1, IHe2. destr_if; reflexivity.
Qed.

(** * visit(cb) preserves size and value whenever cb does (replace_expr, and the skeleton of expr_simp) *)
Section VisitPreserves.
  Variable rho : string -> Z.
  Variable mu : Z -> Z.
  Variable iota : string -> list Z -> Z.
  Notation ev := (eval rho mu iota).
  Variable cb : expr -> expr.
  Hypothesis cb_ok : forall x, size (cb x) = size x /\ ev (cb x) = ev x.

  Definition same (x y : expr) : Prop := size x = size y /\ ev x = ev y.

  Lemma map_same l : Forall (fun a => same (visit cb a) a) l ->
    map size (map (visit cb) l) = map size l /\ map ev (map (visit cb) l) = map ev l.
  Proof. induction 1 as [|a l [Ha1 Ha2] _ [IH1 IH2]]; simpl; split; congruence. Qed.

  Lemma visit_preserves : forall e, same (visit cb e) e.
  Proof.
    assert (K : forall n e, same n e -> same (cb n) e).
    { intros n e [A B]. destruct (cb_ok n) as [C D]. split; congruence. }
    induction e using expr_ind'; simpl; apply K; try (split; reflexivity).
    - (* EMem *)
      destruct IHe as [A B].
      destr_if; [split; reflexivity|]. split; simpl; [reflexivity|]. rewrite B. reflexivity.
    - (* EOp *)
      destruct (map_same _ H) as [A B].
      destr_if; [split; reflexivity|]. split.
      + apply size_op_heads. assumption.
      + rewrite !eval_op_node. rewrite (size_op_heads op _ op args A), B. reflexivity.
    - (* ECond *)
      destruct IHe1 as [A1 B1], IHe2 as [A2 B2], IHe3 as [A3 B3].
      destr_if; [split; reflexivity|]. split; simpl; [congruence | rewrite B1, B2, B3; reflexivity].
    - (* ESlice *)
      destruct IHe as [A B]. destr_if; [split; reflexivity|]. split; simpl; [congruence | rewrite B; reflexivity].
    - (* ECompose *)
      set (args' := map (fun s => (visit cb (slot_e s), slot_lo s, slot_hi s)) args).
      assert (map slot_lo args' = map slot_lo args /\ map slot_hi args' = map slot_hi args /\
              map (slot_val rho mu iota) args' = map (slot_val rho mu iota) args) as [L [Hh V]].
      { subst args'. induction H as [|[[a lo] hi] l [Ha1 Ha2] _ [IH1 [IH2 IH3]]]; simpl; auto.
        repeat split; try (f_equal; assumption). unfold slot_val in *. slots. rewrite Ha2, IH3. reflexivity. }
      destr_if; [split; reflexivity|]. split.
      + apply size_compose_maps; assumption.
      + rewrite !eval_compose. rewrite V. reflexivity.
    - (* EAff *)
      destruct IHe1 as [A1 B1], IHe2 as [A2 B2].
      destr_if; [split; reflexivity|]. split; simpl; [congruence | rewrite ?B1, ?B2; reflexivity].
  Qed.
End VisitPreserves.

(** replace_expr: congruence form — every key and its image have equal size and value *)
Section Replace.
  Variable rho : string -> Z.
  Variable mu : Z -> Z.
  Variable iota : string -> list Z -> Z.
  Notation ev := (eval rho mu iota).

  Lemma dict_get_in d e v : dict_get d e = Some v -> exists k, In (k, v) d /\ expr_eqb k e = true.
  Proof.
    induction d as [|[k0 v0] d IH]; simpl; try discriminate.
    destruct (expr_eqb k0 e) eqn:E.
    - intros H; inversion H; subst. exists k0. auto.
    - intros H. destruct (IH H) as [k [A B]]. exists k. auto.
  Qed.

  Theorem replace_congruence d :
    (forall k v, In (k, v) d -> size k = size v /\ ev k = ev v) ->
    forall e, size (replace_expr d e) = size e /\ ev (replace_expr d e) = ev e.
  Proof.
    intros Hd e. apply visit_preserves. intros x. unfold replace_cb.
    destruct (dict_get d x) eqn:G; [|split; reflexivity].
    destruct (dict_get_in _ _ _ G) as [k [I E]]. destruct (Hd _ _ I) as [A B].
    rewrite <- A, <- B. split; [apply size_eqb | apply eval_eqb]; assumption.
  Qed.
End Replace.

(** * Read sets: the value depends only on what get_r reports (C16) *)
Definition InR (x : expr) (l : list expr) : Prop := mem_eqb x l = true.

Lemma mem_eqb_app x l l' : mem_eqb x (l ++ l') = mem_eqb x l || mem_eqb x l'.
Proof. induction l; simpl; auto. rewrite IHl, orb_assoc. reflexivity. Qed.

Lemma InR_set_add_l x e l : InR x l -> InR x (set_add e l).
Proof. unfold InR, set_add. intros H. destruct (mem_eqb e l); auto. rewrite mem_eqb_app, H. reflexivity. Qed.
Lemma InR_set_add_self e l : InR e (set_add e l).
Proof.
  unfold InR, set_add. destruct (mem_eqb e l) eqn:E; auto.
  rewrite mem_eqb_app. simpl. rewrite eqb_refl, orb_true_r. reflexivity.
Qed.
Lemma InR_union_l x a b : InR x a -> InR x (set_union a b).
Proof. unfold set_union. revert a. induction b; simpl; auto. intros a0 H. apply IHb. apply InR_set_add_l. assumption. Qed.
Lemma InR_union_r x a b : InR x b -> InR x (set_union a b).
Proof.
  unfold set_union. revert a. induction b as [|y b IH]; simpl; intros a H; [discriminate|].
  unfold InR in H; simpl in H. apply orb_true_iff in H as [H|H].
  - assert (InR x (set_add y a)) as K.
    { unfold InR, set_add. destruct (mem_eqb y a) eqn:E.
      - clear IH. induction a as [|z a IHa]; simpl in *; try discriminate.
        apply orb_true_iff in E as [E|E].
        + rewrite (eqb_trans z y x E H). reflexivity.
        + rewrite (IHa E), orb_true_r. reflexivity.
      - rewrite mem_eqb_app. simpl. rewrite H, orb_true_r. reflexivity. }
    clear IH. revert K. generalize (set_add y a). induction b; simpl; auto. intros l K. apply IHb. apply InR_set_add_l; assumption.
  - apply IH. assumption.
Qed.
Lemma InR_fold_init {A} (f : A -> list expr) x l init :
  InR x init -> InR x (fold_left (fun acc a => set_union acc (f a)) l init).
Proof. revert init. induction l; simpl; auto. intros init H. apply IHl. apply InR_union_l. assumption. Qed.
Lemma InR_fold_in {A} (f : A -> list expr) x l init a :
  In a l -> InR x (f a) -> InR x (fold_left (fun acc a => set_union acc (f a)) l init).
Proof.
  revert init. induction l as [|b l IH]; simpl; intros init I H; [contradiction|]. destruct I as [E|I].
  - subst. apply InR_fold_init. apply InR_union_r. assumption.
  - apply IH; assumption.
Qed.

Section Coincidence.
  Variables rho rho' : string -> Z.
  Variables mu mu' : Z -> Z.
  Variable iota : string -> list Z -> Z.
  Notation ev := (eval rho mu iota).
  Notation ev' := (eval rho' mu' iota).

  (** what it means for the two states to agree on a reported atom.  With memory reads requested a
      cell is the bytes at its (already agreed) address; without, the whole cell is an opaque atom. *)
  Definition agree (f : bool) (x : expr) : Prop :=
    match x with
    | EId n _ _ _ => rho n = rho' n
    | EMem a w _ => if f then mem_read mu (ev a) w = mem_read mu' (ev a) w else ev x = ev' x
    | _ => True
    end.

  Theorem get_r_coincidence f : forall e,
    (forall x, InR x (get_r f e) -> agree f x) -> ev e = ev' e.
  Proof.
    induction e using expr_ind'; intros Hag.
    - reflexivity.
    - simpl. assert (A := Hag (EId n w r t)). simpl in A. rewrite A; [reflexivity|].
      unfold InR. simpl. rewrite eqb_refl. reflexivity.
    - destruct f.
      + assert (ev e = ev' e) as Ea.
        { apply IHe. intros x Hx. apply Hag. simpl. apply InR_set_add_l. assumption. }
        assert (A := Hag (EMem e w s)). simpl in A.
        simpl. rewrite <- Ea. apply A. apply InR_set_add_self.
      + assert (A := Hag (EMem e w s)). apply A. unfold InR. simpl. rewrite eqb_refl. reflexivity.
    - rewrite !eval_op_node. f_equal.
      simpl in Hag. revert Hag. generalize (@nil expr) as init.
      induction H as [|a l Ha Hl IH]; intros init Hag; simpl; auto. f_equal.
      + apply Ha. intros x Hx. apply Hag. simpl. apply InR_fold_init. apply InR_union_r. assumption.
      + apply (IH (set_union init (get_r f a))). intros x Hx. apply Hag. assumption.
    - simpl in *. rewrite IHe1, IHe2, IHe3; auto; intros x Hx; apply Hag.
      + apply InR_union_r; assumption.
      + apply InR_union_l, InR_union_r; assumption.
      + apply InR_union_l, InR_union_l; assumption.
    - simpl in *. rewrite IHe; auto.
    - rewrite !eval_compose. f_equal.
      simpl in Hag. revert Hag. generalize (@nil expr) as init.
      induction H as [|s l Hs Hl IH]; intros init Hag; simpl; auto. f_equal.
      + unfold slot_val. rewrite Hs; [reflexivity|]. intros x Hx. apply Hag. simpl. apply InR_fold_init. apply InR_union_r. assumption.
      + apply (IH (set_union init (get_r f (slot_e s)))). intros x Hx. apply Hag. assumption.
    - simpl. apply IHe2. intros x Hx. apply Hag. simpl. destruct e1; try assumption. apply InR_union_l. assumption.
  Qed.
End Coincidence.

(** get_expr_ids is complete: every identifier occurring in the tree is reported *)
Fixpoint occurs_id (n : string) (e : expr) : bool :=
  match e with
  | EInt _ _ _ => false
  | EId n' _ _ _ => (n =? n')%string
  | EMem a _ s => occurs_id n a || match s with Some u => occurs_id n u | None => false end
  | EOp _ args => existsb (occurs_id n) args
  | ECond c a b => occurs_id n c || occurs_id n a || occurs_id n b
  | ESlice e1 _ _ => occurs_id n e1
  | ECompose args => existsb (fun s => occurs_id n (slot_e s)) args
  | EAff d s => occurs_id n d || occurs_id n s
  end.

(** * Read set of an assignment list (C08) *)
Definition reads (l : list expr) : list expr := fold_left (fun acc a => set_union acc (get_r true a)) l [].
Lemma InR_reads_in a l x : In a l -> InR x (get_r true a) -> InR x (reads l).
Proof. intros I H. unfold reads. exact (InR_fold_in (get_r true) x l [] a I H). Qed.
Lemma reads_coincidence rho rho' mu mu' iota l :
  (forall x, InR x (reads l) -> agree rho rho' mu mu' iota true x) ->
  map (eval rho mu iota) l = map (eval rho' mu' iota) l.
Proof.
  intros H. apply map_ext_in. intros a Ia.
  apply (get_r_coincidence rho rho' mu mu' iota true). intros x Hx. apply H. exact (InR_reads_in a l x Ia Hx).
Qed.
