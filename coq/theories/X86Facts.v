(** X86Facts.v — reflection obligations over the tables regenerated from /repo (MxGen.X86Tables).
    Recompiled by make only when the dumped tables (or this file) change. *)
From Coq Require Import ZArith List Bool String.
From Mx Require Import X86Types X86Dis X86Ref.
From MxGen Require Import X86Tables.
Import ListNotations.
Open Scope Z_scope.

Lemma modrm32_agree : modrm32_ok x86_tables = true.
Proof. vm_compute. reflexivity. Qed.
Lemma modrm16_agree : modrm16_ok x86_tables = true.
Proof. vm_compute. reflexivity. Qed.
Lemma flow_class_agree : forallb flow_ok (t_mnemos x86_tables) = true.
Proof. vm_compute. reflexivity. Qed.

Lemma modrm32_agree_forall : forall m s, In m bytes256 -> In s bytes256 ->
  exists a, lookup32 x86_tables m s = Some a /\ afs_agrees a (sdm_modrm32 m s) = true.
Proof.
  intros m s Hm Hs. pose proof modrm32_agree as H. unfold modrm32_ok in H.
  rewrite forallb_forall in H. specialize (H m Hm). rewrite forallb_forall in H. specialize (H s Hs).
  destruct (lookup32 x86_tables m s) as [a|]; [exists a; auto | discriminate].
Qed.
