(** SemProofs.v — the XOR-based carry / overflow identities of the lifter's flag helpers are the processor's flags, for every
    operand width and every value (C04), stated on the mirror of Sem.v under the standard meaning Expr.eval. *)
From Coq Require Import ZArith List Bool String Lia ZifyBool.
From Mx Require Import Expr ExprProofs Sem.
Import ListNotations.
Open Scope Z_scope.

(** * Arithmetic: the processor's flags *)
Definition sgnv (n v : Z) : Z := if 2 ^ (n - 1) <=? v then v - 2 ^ n else v.            (* two's complement reading of 0 <= v < 2^n *)
Definition cf_add (n x y ci : Z) : bool := 2 ^ n <=? x + y + ci.
Definition of_add (n x y ci : Z) : bool := let s := sgnv n x + sgnv n y + ci in (s <? - 2 ^ (n - 1)) || (2 ^ (n - 1) <=? s).
Definition cf_sub (n x y ci : Z) : bool := x <? y + ci.
Definition of_sub (n x y ci : Z) : bool := let s := sgnv n x - sgnv n y - ci in (s <? - 2 ^ (n - 1)) || (2 ^ (n - 1) <=? s).

Lemma pow_split n : 0 < n -> 2 ^ n = 2 * 2 ^ (n - 1) /\ 0 < 2 ^ (n - 1).
Proof. intros H. split; [replace n with (1 + (n - 1)) at 1 by lia; rewrite Z.pow_add_r by lia; reflexivity | apply Z.pow_pos_nonneg; lia]. Qed.

Lemma msb_ge n x : 0 < n -> 0 <= x < 2 ^ n -> Z.testbit x (n - 1) = (2 ^ (n - 1) <=? x).
Proof.
  intros Hn Hx. destruct (pow_split n Hn) as [E P]. set (p := 2 ^ (n - 1)) in *.
  assert (B : Z.b2z (Z.testbit x (n - 1)) = (x / p) mod 2) by (apply Z.testbit_spec'; lia).
  destruct (Z_lt_le_dec x p) as [L|L].
  - rewrite Z.div_small in B by lia. replace (p <=? x) with false by (symmetry; apply Z.leb_gt; lia).
    destruct (Z.testbit x (n - 1)); simpl in B; [discriminate | reflexivity].
  - assert (x / p = 1) as Q by (symmetry; apply (Z.div_unique x p 1 (x - p)); lia). rewrite Q in B.
    replace (p <=? x) with true by (symmetry; apply Z.leb_le; lia).
    destruct (Z.testbit x (n - 1)); simpl in B; [reflexivity | discriminate].
Qed.

Section Carry.
  Variables n x y ci : Z.
  Hypothesis Hn : 0 < n.
  Hypothesis Hx : 0 <= x < 2 ^ n.
  Hypothesis Hy : 0 <= y < 2 ^ n.
  Hypothesis Hc : 0 <= ci <= 1.
  Let bx := Z.testbit x (n - 1).
  Let by_ := Z.testbit y (n - 1).

  Lemma add_identities : let z := (x + y + ci) mod 2 ^ n in let bz := Z.testbit z (n - 1) in
    xorb (xorb (xorb bx by_) bz) (andb (xorb bx bz) (negb (xorb bx by_))) = cf_add n x y ci /\
    andb (xorb bx bz) (negb (xorb bx by_)) = of_add n x y ci.
  Proof.
    destruct (pow_split n Hn) as [E P]. intros z bz.
    assert (Hz : 0 <= z < 2 ^ n) by (apply Z.mod_pos_bound; lia).
    unfold bx, by_, bz. rewrite !msb_ge by assumption. unfold cf_add, of_add, sgnv.
    set (p := 2 ^ (n - 1)) in *. rewrite E in *.
    destruct (Z_lt_le_dec (x + y + ci) (2 * p)) as [L|L].
    - assert (z = x + y + ci) as -> by (unfold z; rewrite E; apply Z.mod_small; lia).
      split; [destruct (p <=? x) eqn:A, (p <=? y) eqn:B; lia | destruct (p <=? x) eqn:A, (p <=? y) eqn:B; lia].
    - assert (z = x + y + ci - 2 * p) as ->.
      { unfold z. rewrite E. replace (x + y + ci) with ((x + y + ci - 2 * p) + 1 * (2 * p)) at 1 by lia. rewrite Z.mod_add by lia. apply Z.mod_small. lia. }
      split; [destruct (p <=? x) eqn:A, (p <=? y) eqn:B; lia | destruct (p <=? x) eqn:A, (p <=? y) eqn:B; lia].
  Qed.

  Lemma sub_identities : let z := (x - y - ci) mod 2 ^ n in let bz := Z.testbit z (n - 1) in
    xorb (xorb (xorb bx by_) bz) (andb (xorb bx bz) (xorb bx by_)) = cf_sub n x y ci /\
    andb (xorb bx bz) (xorb bx by_) = of_sub n x y ci.
  Proof.
    destruct (pow_split n Hn) as [E P]. intros z bz.
    assert (Hz : 0 <= z < 2 ^ n) by (apply Z.mod_pos_bound; lia).
    unfold bx, by_, bz. rewrite !msb_ge by assumption. unfold cf_sub, of_sub, sgnv.
    set (p := 2 ^ (n - 1)) in *. rewrite E in *.
    destruct (Z_lt_le_dec (x - y - ci) 0) as [L|L].
    - assert (z = x - y - ci + 2 * p) as ->.
      { unfold z. rewrite E. replace (x - y - ci) with ((x - y - ci + 2 * p) + (-1) * (2 * p)) at 1 by lia. rewrite Z.mod_add by lia. apply Z.mod_small. lia. }
      split; [destruct (p <=? x) eqn:A, (p <=? y) eqn:B; lia | destruct (p <=? x) eqn:A, (p <=? y) eqn:B; lia].
    - assert (z = x - y - ci) as -> by (unfold z; rewrite E; apply Z.mod_small; lia).
      split; [destruct (p <=? x) eqn:A, (p <=? y) eqn:B; lia | destruct (p <=? x) eqn:A, (p <=? y) eqn:B; lia].
  Qed.
End Carry.

(** * The mirror under the standard meaning *)
Section Meaning.
  Variable rho : string -> Z.
  Variable mu : Z -> Z.
  Variable iota : string -> list Z -> Z.
  Notation ev := (eval rho mu iota).

  Lemma wrap_range w v : 0 <= w -> 0 <= wrap w v < 2 ^ w.
  Proof. intros H. unfold wrap. apply Z.mod_pos_bound. apply Z.pow_pos_nonneg; lia. Qed.

  Lemma operand_range a : operand_ok a = true -> 0 < size a /\ 0 <= ev a < 2 ^ size a.
  Proof.
    destruct a as [sg w v|nm w r t|ad w sg| | |e lo hi| |]; simpl; try discriminate.
    - intros H. apply Z.ltb_lt in H. split; [assumption | apply wrap_range; lia].
    - intros H. apply Z.ltb_lt in H. split; [assumption | apply wrap_range; lia].
    - intros H. apply Z.ltb_lt in H. split; [assumption | unfold mem_read; apply wrap_range; lia].
    - destruct e; try discriminate. intros H. apply andb_true_iff in H as [H H3]. apply andb_true_iff in H as [H1 H2].
      apply Z.leb_le in H1, H3. apply Z.ltb_lt in H2. split; [lia | apply wrap_range; lia].
  Qed.

  Lemma size_op2 op a b : size a <> 0 -> size (EOp op [a; b]) = size a.
  Proof. intros H. simpl. destruct (size a =? 0) eqn:E; [apply Z.eqb_eq in E; contradiction | reflexivity]. Qed.

  Lemma ev_xor a b : size a <> 0 -> ev (e_xor a b) = wrap (size a) (Z.lxor (ev a) (ev b)).
  Proof. intros H. unfold e_xor. rewrite eval_op_node, size_op2 by assumption. reflexivity. Qed.
  Lemma ev_and a b : size a <> 0 -> ev (e_and a b) = wrap (size a) (Z.land (ev a) (ev b)).
  Proof. intros H. unfold e_and. rewrite eval_op_node, size_op2 by assumption. reflexivity. Qed.
  Lemma ev_or a b : size a <> 0 -> ev (EOp "|" [a; b]) = wrap (size a) (Z.lor (ev a) (ev b)).
  Proof. intros H. rewrite eval_op_node, size_op2 by assumption. reflexivity. Qed.
  Lemma ev_add a b : size a <> 0 -> ev (EOp "+" [a; b]) = wrap (size a) (ev a + ev b).
  Proof. intros H. rewrite eval_op_node, size_op2 by assumption. reflexivity. Qed.
  Lemma ev_sub a b : size a <> 0 -> ev (EOp "-" [a; b]) = wrap (size a) (ev a - ev b).
  Proof. intros H. rewrite eval_op_node, size_op2 by assumption. reflexivity. Qed.

  Lemma testbit_wrap n v i : 0 <= i < n -> Z.testbit (wrap n v) i = Z.testbit v i.
  Proof. intros H. unfold wrap. apply Z.mod_pow2_bits_low. lia. Qed.

  Lemma ev_msb e : 0 < size e -> ev (msb e) = Z.b2z (Z.testbit (ev e) (size e - 1)).
  Proof.
    intros H. unfold msb. simpl. replace (size e - (size e - 1)) with 1 by lia.
    unfold wrap. change (2 ^ 1) with 2. rewrite <- Z.bit0_mod. rewrite Z.shiftr_spec by lia. reflexivity.
  Qed.
  Lemma size_msb e : size (msb e) = 1.
  Proof. unfold msb. simpl. lia. Qed.

  Lemma xor_bits p q : wrap 1 (Z.lxor (Z.b2z p) (Z.b2z q)) = Z.b2z (xorb p q).
  Proof. destruct p, q; reflexivity. Qed.

  Lemma ev_not_msb e : 0 < size e -> Z.testbit (ev (e_not e)) (size e - 1) = negb (Z.testbit (ev e) (size e - 1)).
  Proof.
    intros H. unfold e_not. fold (e_xor e (int_from e (2 ^ size e - 1))). rewrite ev_xor by lia.
    rewrite testbit_wrap by lia. rewrite Z.lxor_spec. unfold int_from. simpl.
    replace (2 ^ size e - 1) with (Z.ones (size e)) by (rewrite Z.ones_equiv; lia).
    rewrite testbit_wrap by lia. rewrite Z.ones_spec_low by lia. apply xorb_true_r.
  Qed.
  Lemma size_not e : size e <> 0 -> size (e_not e) = size e.
  Proof. intros H. unfold e_not. apply size_op2. assumption. Qed.
  Lemma size_xor a b : size a <> 0 -> size (e_xor a b) = size a.
  Proof. apply size_op2. Qed.
  Lemma size_and a b : size a <> 0 -> size (e_and a b) = size a.
  Proof. apply size_op2. Qed.

  (** the two flag formulas, for any value expression c of the operands' width *)
  Section Formulas.
    Variables a b c : expr.
    Variable n : Z.
    Hypothesis Hn : 0 < n.
    Hypothesis Sa : size a = n.
    Hypothesis Sc : size c = n.
    Let bx := Z.testbit (ev a) (n - 1).
    Let by_ := Z.testbit (ev b) (n - 1).
    Let bz := Z.testbit (ev c) (n - 1).

    Lemma msb_xor3 : Z.testbit (ev (e_xor (e_xor a b) c)) (n - 1) = xorb (xorb bx by_) bz.
    Proof.
      assert (S2' : size (e_xor a b) = n) by (rewrite size_xor; lia).
      rewrite ev_xor by lia. rewrite S2', testbit_wrap by lia.
      rewrite Z.lxor_spec, ev_xor by lia. rewrite Sa, testbit_wrap by lia. rewrite Z.lxor_spec. reflexivity.
    Qed.
    Lemma msb_axc : Z.testbit (ev (e_xor a c)) (n - 1) = xorb bx bz.
    Proof. rewrite ev_xor by lia. rewrite Sa, testbit_wrap by lia. rewrite Z.lxor_spec. reflexivity. Qed.
    Lemma msb_axb : Z.testbit (ev (e_xor a b)) (n - 1) = xorb bx by_.
    Proof. rewrite ev_xor by lia. rewrite Sa, testbit_wrap by lia. rewrite Z.lxor_spec. reflexivity. Qed.

    Let S1 : size (e_xor a c) = n. Proof. rewrite size_xor; lia. Qed.
    Let S2 : size (e_xor a b) = n. Proof. rewrite size_xor; lia. Qed.
    Let S3 : size (e_xor (e_xor a b) c) = n. Proof. rewrite size_xor; lia. Qed.

    Lemma ev_add_of : ev (add_of_src a b c) = Z.b2z (andb (xorb bx bz) (negb (xorb bx by_))).
    Proof.
      unfold add_of_src.
      assert (S4 : size (e_and (e_xor a c) (e_not (e_xor a b))) = n) by (rewrite size_and; lia).
      rewrite ev_msb by lia. rewrite S4. rewrite ev_and by lia. rewrite S1, testbit_wrap by lia. rewrite Z.land_spec, msb_axc.
      pose proof (ev_not_msb (e_xor a b)) as N. rewrite S2 in N. rewrite N by lia. rewrite msb_axb. reflexivity.
    Qed.
    Lemma ev_add_cf : ev (add_cf_src a b c) = Z.b2z (xorb (xorb (xorb bx by_) bz) (andb (xorb bx bz) (negb (xorb bx by_)))).
    Proof.
      unfold add_cf_src. rewrite ev_xor by (rewrite size_msb; lia). rewrite size_msb.
      fold (add_of_src a b c). rewrite ev_add_of. rewrite ev_msb by lia. rewrite S3, msb_xor3. apply xor_bits.
    Qed.
    Lemma ev_sub_of : ev (sub_of_src a b c) = Z.b2z (andb (xorb bx bz) (xorb bx by_)).
    Proof.
      unfold sub_of_src.
      assert (S4 : size (e_and (e_xor a c) (e_xor a b)) = n) by (rewrite size_and; lia).
      rewrite ev_msb by lia. rewrite S4. rewrite ev_and by lia. rewrite S1, testbit_wrap by lia. rewrite Z.land_spec, msb_axc, msb_axb. reflexivity.
    Qed.
    Lemma ev_sub_cf : ev (sub_cf_src a b c) = Z.b2z (xorb (xorb (xorb bx by_) bz) (andb (xorb bx bz) (xorb bx by_))).
    Proof.
      unfold sub_cf_src. rewrite ev_xor by (rewrite size_msb; lia). rewrite size_msb.
      fold (sub_of_src a b c). rewrite ev_sub_of. rewrite ev_msb by lia. rewrite S3, msb_xor3. apply xor_bits.
    Qed.
  End Formulas.

  (** zf / nf / pf of a value expression *)
  Lemma ev_zf c : ev (ECond c (i1 0) (i1 1)) = if ev c =? 0 then 1 else 0.
  Proof. simpl. destruct (ev c =? 0); reflexivity. Qed.
  Lemma ev_pf c : 0 < size c -> ev (EOp "parity" [c]) = parity8 (ev c).
  Proof.
    intros H. rewrite eval_op_node. simpl (size _). cbn [map]. unfold eval_op. cbn [opk_of]. simpl.
    replace (if size c =? 0 then size c else size c) with (size c) by (destruct (size c =? 0); reflexivity).
    unfold wrap. apply Z.mod_small.
    assert (P : 2 <= 2 ^ size c) by (change 2 with (2 ^ 1) at 1; apply Z.pow_le_mono_r; lia).
    unfold parity8. set (m := (_ + _) mod 2). assert (0 <= m < 2) by (apply Z.mod_pos_bound; lia). lia.
  Qed.

  (** the carry-in operand of adc / sbb *)
  Lemma ev_cin a : 0 < size a -> ev (cin a) = wrap 1 (rho "cf") /\ size (cin a) = size a.
  Proof.
    intros H. split.
    - unfold cin. rewrite eval_compose. cbn [map fold_left]. unfold slot_val, slot_hi, slot_lo, slot_e. cbn [fst snd].
      simpl (ev (EInt false 32 0)). simpl (ev (flag "cf")).
      replace (wrap 32 0) with 0 by reflexivity. replace (wrap (size a - 1) 0) with 0 by (unfold wrap; rewrite Z.mod_0_l; [reflexivity | apply Z.pow_nonzero; lia]).
      rewrite Z.shiftl_0_l, Z.lor_0_l, Z.shiftl_0_r. replace (1 - 0) with 1 by lia. unfold wrap. change (2 ^ 1) with 2. rewrite Z.mod_mod by lia. reflexivity.
    - unfold cin. simpl. unfold slot_hi, slot_lo. cbn [fst snd]. lia.
  Qed.

  Definition ci : Z := wrap 1 (rho "cf").
  Lemma ci_range : 0 <= ci <= 1.
  Proof. unfold ci, wrap. change (2 ^ 1) with 2. pose proof (Z.mod_pos_bound (rho "cf") 2 ltac:(lia)). lia. Qed.

  (** * The arithmetic / logic group: value and flags are the processor's, for every operand pair of equal width *)
  Section Alu.
    Variables a b : expr.
    Hypothesis Oa : operand_ok a = true.
    Hypothesis Ob : operand_ok b = true.
    Hypothesis Sab : size a = size b.
    Let n := size a.
    Let x := ev a.
    Let y := ev b.
    Let Hn : 0 < n. Proof. apply operand_range; assumption. Qed.
    Let Hx : 0 <= x < 2 ^ n. Proof. apply operand_range; assumption. Qed.
    Let Hy : 0 <= y < 2 ^ n. Proof. unfold n. rewrite Sab. apply operand_range; assumption. Qed.

    Lemma val_add : ev (alu_val Add a b) = (x + y + 0) mod 2 ^ n.
    Proof. cbn [alu_val]. rewrite ev_add by (fold n; lia). rewrite Z.add_0_r. reflexivity. Qed.
    Lemma val_adc : ev (alu_val Adc a b) = (x + y + ci) mod 2 ^ n.
    Proof.
      cbn [alu_val]. destruct (ev_cin a Hn) as [E S]. rewrite ev_add by (fold n; lia). rewrite ev_add by (rewrite <- Sab; fold n; lia). rewrite E, <- Sab. fold n x y ci.
      unfold wrap. rewrite Z.add_mod_idemp_r by (apply Z.pow_nonzero; lia). f_equal. lia.
    Qed.
    Lemma val_sub : ev (alu_val Sub a b) = (x - y - 0) mod 2 ^ n.
    Proof. cbn [alu_val]. rewrite ev_sub by (fold n; lia). rewrite Z.sub_0_r. reflexivity. Qed.
    Lemma val_sbb : ev (alu_val Sbb a b) = (x - y - ci) mod 2 ^ n.
    Proof.
      cbn [alu_val]. destruct (ev_cin a Hn) as [E S]. rewrite ev_sub by (fold n; lia). rewrite ev_add by (rewrite <- Sab; fold n; lia). rewrite E, <- Sab. fold n x y ci.
      unfold wrap. rewrite Zminus_mod_idemp_r. f_equal. lia.
    Qed.
    Lemma size_val k : size (alu_val k a b) = n.
    Proof. destruct k; simpl; destruct (size a =? 0) eqn:E; try reflexivity; apply Z.eqb_eq in E; fold n in E; lia. Qed.

    (** add / adc *)
    Theorem add_flags k (cin_ : Z) : (k = Add /\ cin_ = 0) \/ (k = Adc /\ cin_ = ci) ->
      let c := alu_val k a b in
      ev c = (x + y + cin_) mod 2 ^ n /\
      ev (add_cf_src a b c) = Z.b2z (cf_add n x y cin_) /\
      ev (add_of_src a b c) = Z.b2z (of_add n x y cin_).
    Proof.
      intros K c.
      assert (V : ev c = (x + y + cin_) mod 2 ^ n) by (destruct K as [[-> ->]|[-> ->]]; [apply val_add | apply val_adc]).
      assert (C : 0 <= cin_ <= 1) by (destruct K as [[_ ->]|[_ ->]]; [lia | apply ci_range]).
      split; [exact V|].
      pose proof (add_identities n x y cin_ Hn Hx Hy C) as [I1 I2]. cbv zeta in I1, I2.
      rewrite (ev_add_cf a b c n Hn eq_refl), (ev_add_of a b c n Hn eq_refl).
      fold x y. rewrite V. rewrite I1, I2. split; reflexivity.
    Qed.
    (** sub / cmp / sbb *)
    Theorem sub_flags k (cin_ : Z) : ((k = Sub \/ k = Cmp) /\ cin_ = 0) \/ (k = Sbb /\ cin_ = ci) ->
      let c := alu_val k a b in
      ev c = (x - y - cin_) mod 2 ^ n /\
      ev (sub_cf_src a b c) = Z.b2z (cf_sub n x y cin_) /\
      ev (sub_of_src a b c) = Z.b2z (of_sub n x y cin_).
    Proof.
      intros K c.
      assert (V : ev c = (x - y - cin_) mod 2 ^ n) by (destruct K as [[[->| ->] ->]|[-> ->]]; [apply val_sub | apply val_sub | apply val_sbb]).
      assert (C : 0 <= cin_ <= 1) by (destruct K as [[_ ->]|[_ ->]]; [lia | apply ci_range]).
      split; [exact V|].
      pose proof (sub_identities n x y cin_ Hn Hx Hy C) as [I1 I2]. cbv zeta in I1, I2.
      rewrite (ev_sub_cf a b c n Hn eq_refl), (ev_sub_of a b c n Hn eq_refl).
      fold x y. rewrite V. rewrite I1, I2. split; reflexivity.
    Qed.
    (** and / test / or / xor *)
    Theorem logic_vals : ev (alu_val And a b) = Z.land x y /\ ev (alu_val Test a b) = Z.land x y /\ ev (alu_val Or a b) = Z.lor x y /\ ev (alu_val Xor a b) = Z.lxor x y.
    Proof.
      assert (W : forall v, 0 <= v < 2 ^ n -> wrap n v = v) by (intros; apply Z.mod_small; assumption).
      assert (Bd : forall f, (forall i, 0 <= i -> Z.testbit (f x y) i = Z.testbit (f x y) i) -> True) by trivial.
      assert (R : forall v, 0 <= v -> (forall i, n <= i -> Z.testbit v i = false) -> 0 <= v < 2 ^ n).
      { intros v V0 Hi. split; [assumption|]. destruct (Z.eq_dec v 0) as [->|NZ]; [apply Z.pow_pos_nonneg; lia|].
        apply Z.log2_lt_pow2; [lia|]. destruct (Z_lt_le_dec (Z.log2 v) n) as [L|L]; [assumption|]. exfalso.
        specialize (Hi (Z.log2 v) L). rewrite Z.bit_log2 in Hi by lia. discriminate. }
      assert (Hi : forall v i, 0 <= v < 2 ^ n -> n <= i -> Z.testbit v i = false).
      { intros v i Hv Li. destruct (Z.eq_dec v 0) as [->|NZ]; [apply Z.bits_0|]. apply Z.bits_above_log2; [lia|].
        apply Z.lt_le_trans with n; [|assumption]. apply Z.log2_lt_pow2; lia. }
      repeat split; cbn [alu_val].
      - fold (e_and a b). rewrite ev_and by (fold n; lia). fold n x y. apply W, R; [apply Z.land_nonneg; lia | intros i Li; rewrite Z.land_spec, (Hi x), andb_false_l by assumption; reflexivity].
      - fold (e_and a b). rewrite ev_and by (fold n; lia). fold n x y. apply W, R; [apply Z.land_nonneg; lia | intros i Li; rewrite Z.land_spec, (Hi x), andb_false_l by assumption; reflexivity].
      - rewrite ev_or by (fold n; lia). fold n x y. apply W, R; [apply Z.lor_nonneg; lia | intros i Li; rewrite Z.lor_spec, (Hi x), (Hi y) by assumption; reflexivity].
      - fold (e_xor a b). rewrite ev_xor by (fold n; lia). fold n x y. apply W, R; [apply Z.lxor_nonneg; lia | intros i Li; rewrite Z.lxor_spec, (Hi x), (Hi y) by assumption; reflexivity].
    Qed.
    (** zf, sf, pf are those of the result, whatever the instruction *)
    Theorem znp_flags k : let c := alu_val k a b in
      ev (ECond c (i1 0) (i1 1)) = (if ev c =? 0 then 1 else 0) /\
      ev (msb c) = Z.b2z (Z.testbit (ev c) (n - 1)) /\
      ev (EOp "parity" [c]) = parity8 (ev c).
    Proof.
      intros c. split; [apply ev_zf|]. split.
      - rewrite ev_msb by (unfold c; rewrite size_val; exact Hn). unfold c. rewrite size_val. reflexivity.
      - apply ev_pf. unfold c. rewrite size_val. exact Hn.
    Qed.
  End Alu.
End Meaning.

(** * From the recogniser to the mirror *)
Lemma list_expr_eqb_eval rho mu iota : forall l l', list_expr_eqb l l' = true -> map (eval rho mu iota) l = map (eval rho mu iota) l'.
Proof.
  induction l as [|x l IH]; destruct l' as [|y l']; simpl; intros H; try discriminate; [reflexivity|].
  apply andb_true_iff in H as [E R]. rewrite (eval_eqb rho mu iota x y E), (IH l' R). reflexivity.
Qed.
Lemma is_mirror_sound k l : is_mirror k l = true ->
  exists a b, operand_ok a = true /\ operand_ok b = true /\ size a = size b /\ (size a = 8 \/ size a = 16 \/ size a = 32) /\
              forall rho mu iota, map (eval rho mu iota) l = map (eval rho mu iota) (mirror k a b).
Proof.
  unfold is_mirror. destruct (operands_of k l) as [[a b]|]; [|discriminate]. intros H.
  apply andb_true_iff in H as [H L]. apply andb_true_iff in H as [H W]. apply andb_true_iff in H as [H S]. apply andb_true_iff in H as [A B].
  exists a, b. repeat split; try assumption.
  - apply Z.eqb_eq. assumption.
  - apply orb_true_iff in W as [W|W]; [apply orb_true_iff in W as [W|W]|]; apply Z.eqb_eq in W; auto.
  - intros. apply list_expr_eqb_eval. assumption.
Qed.

(** the auxiliary-carry formula is NOT the processor's (kept by tests/test_emul.py, listed as a known finding): 0x10 + 0 *)
Example af_formula_refuted : exists rho, let a := EId "eax" 32 true false in let b := EId "ebx" 32 true false in
  eval rho (fun _ => 0) (fun _ _ => 0) (ECond (e_and (alu_val Add a b) (int_from (alu_val Add a b) 16)) (i1 1) (i1 0)) = 1 /\
  (rho "eax" mod 16 + rho "ebx" mod 16) / 16 = 0.
Proof. exists (fun n => if (n =? "eax")%string then 16 else 0). vm_compute. split; reflexivity. Qed.

(** * inc / dec / neg as instances *)
Lemma is_mirror_u_sound k l : is_mirror_u k l = true ->
  exists a, operand_ok a = true /\ (size a = 8 \/ size a = 16 \/ size a = 32) /\
            forall rho mu iota, map (eval rho mu iota) l = map (eval rho mu iota) (mirror_u k a).
Proof.
  unfold is_mirror_u. destruct (operand_of_u k l) as [a|]; [|discriminate]. intros H.
  apply andb_true_iff in H as [H L]. apply andb_true_iff in H as [A W].
  exists a. split; [exact A|]. split.
  - apply orb_true_iff in W as [W|W]; [apply orb_true_iff in W as [W|W]|]; apply Z.eqb_eq in W; auto.
  - intros. apply list_expr_eqb_eval. assumption.
Qed.

Section Una.
  Variable rho : string -> Z.
  Variable mu : Z -> Z.
  Variable iota : string -> list Z -> Z.
  Notation ev := (eval rho mu iota).
  Variable a : expr.
  Hypothesis Oa : operand_ok a = true.
  Hypothesis Wa : size a = 8 \/ size a = 16 \/ size a = 32.
  Let n := size a.
  Let x := ev a.

  Lemma const_ok k : operand_ok (una_const k a) = true /\ size (una_const k a) = n.
  Proof. destruct k; simpl; (split; [apply Z.ltb_lt; fold n; unfold n; lia | reflexivity]). Qed.
  Lemma pow_n_big : 2 < 2 ^ n.
  Proof. unfold n. destruct Wa as [-> |[-> | ->]]; reflexivity. Qed.

  Theorem inc_correct : let c := alu_val Add a (una_const Inc a) in
    ev c = (x + 1) mod 2 ^ n /\ ev (add_of_src a (una_const Inc a) c) = Z.b2z (of_add n x 1 0).
  Proof.
    destruct (const_ok Inc) as [Ob Sb]. intros c.
    destruct (add_flags rho mu iota a (una_const Inc a) Oa Ob (eq_sym Sb) Add 0 (or_introl (conj eq_refl eq_refl))) as (V & _ & O).
    assert (E1 : ev (una_const Inc a) = 1) by (simpl; fold n; apply Z.mod_small; pose proof pow_n_big; lia).
    fold n x in V, O. rewrite E1 in V, O. subst c. split; [rewrite V; f_equal; lia | exact O].
  Qed.
  Theorem dec_correct : let c := alu_val Add a (una_const Dec a) in
    ev c = (x - 1) mod 2 ^ n /\ ev (add_of_src a (una_const Dec a) c) = Z.b2z (of_sub n x 1 0).
  Proof.
    destruct (const_ok Dec) as [Ob Sb]. intros c. pose proof pow_n_big as Pn.
    destruct (add_flags rho mu iota a (una_const Dec a) Oa Ob (eq_sym Sb) Add 0 (or_introl (conj eq_refl eq_refl))) as (V & _ & O).
    assert (E1 : ev (una_const Dec a) = 2 ^ n - 1) by (simpl; fold n; apply Z.mod_small; lia).
    fold n x in V, O. rewrite E1 in V, O. subst c. split.
    - rewrite V. replace (x + (2 ^ n - 1) + 0) with ((x - 1) + 1 * 2 ^ n) by lia. apply Z.mod_add. lia.
    - rewrite O. f_equal. unfold of_add, of_sub, sgnv.
      assert (Hn : 0 < n) by (unfold n; destruct Wa as [-> |[-> | ->]]; lia). destruct (pow_split n Hn) as [E P].
      replace (2 ^ (n - 1) <=? 2 ^ n - 1) with true by (symmetry; apply Z.leb_le; lia).
      replace (2 ^ (n - 1) <=? 1) with false by (symmetry; apply Z.leb_gt; unfold n; destruct Wa as [-> |[-> | ->]]; reflexivity).
      replace (2 ^ n - 1 - 2 ^ n) with (-1) by lia. reflexivity.
  Qed.
  Theorem neg_correct : let c := alu_val Sub (una_const Neg a) a in
    ev c = (- x) mod 2 ^ n /\ ev (sub_cf_src (una_const Neg a) a c) = Z.b2z (negb (x =? 0)) /\ ev (sub_of_src (una_const Neg a) a c) = Z.b2z (of_sub n 0 x 0).
  Proof.
    destruct (const_ok Neg) as [Ob Sb]. intros c.
    destruct (sub_flags rho mu iota (una_const Neg a) a Ob Oa Sb Sub 0 (or_introl (conj (or_introl eq_refl) eq_refl))) as (V & C & O).
    assert (E0 : ev (una_const Neg a) = 0) by (simpl; apply Z.mod_0_l; pose proof pow_n_big as Pn; unfold n in Pn; lia).
    change (size (una_const Neg a)) with n in V, C, O. fold x in V, C, O. rewrite E0 in V, C, O. subst c.
    split; [rewrite V; f_equal; lia|]. split; [|exact O].
    rewrite C. f_equal. unfold cf_sub.
    assert (R : 0 <= x) by (destruct (operand_range rho mu iota a Oa) as [_ [R _]]; exact R).
    destruct (x =? 0) eqn:Z0; [apply Z.eqb_eq in Z0; rewrite Z0; reflexivity | apply Z.eqb_neq in Z0; apply Z.ltb_lt; lia].
  Qed.
End Una.

(** * The destination write-back: assigning to a sub-register replaces exactly its bits *)
Section WriteBack.
  Variable rho : string -> Z.
  Variable mu : Z -> Z.
  Variable iota : string -> list Z -> Z.
  Notation ev := (eval rho mu iota).

  Lemma testbit_slot w x off i : 0 <= w -> 0 <= off -> 0 <= i ->
    Z.testbit (Z.shiftl (wrap w x) off) i = (off <=? i) && (i <? off + w) && Z.testbit x (i - off).
  Proof.
    intros Hw Ho Hi. destruct (Z_lt_le_dec i off) as [L|L].
    - rewrite Z.shiftl_spec_low by lia. replace (off <=? i) with false by (symmetry; apply Z.leb_gt; lia). reflexivity.
    - rewrite Z.shiftl_spec by lia. replace (off <=? i) with true by (symmetry; apply Z.leb_le; lia). cbn [andb].
      unfold wrap. destruct (Z_lt_le_dec (i - off) w) as [M|M].
      + rewrite Z.mod_pow2_bits_low by lia. replace (i <? off + w) with true by (symmetry; apply Z.ltb_lt; lia). reflexivity.
      + rewrite Z.mod_pow2_bits_high by lia. replace (i <? off + w) with false by (symmetry; apply Z.ltb_ge; lia). reflexivity.
  Qed.

  Theorem mk_aff_slice_bits nm w rg tm lo hi src : 0 <= lo -> lo < hi -> hi <= w ->
    match mk_aff (ESlice (EId nm w rg tm) lo hi) src with
    | EAff d s => d = EId nm w rg tm /\
        forall i, 0 <= i ->
          Z.testbit (ev s) i = if (lo <=? i) && (i <? hi) then Z.testbit (ev src) (i - lo)
                               else (i <? w) && Z.testbit (rho nm) i
    | _ => False
    end.
  Proof.
    intros Hlo Hlh Hhw. unfold mk_aff. cbn [size]. split; [reflexivity|]. intros i Hi.
    assert (Sl : forall a b, 0 <= a -> a <= b -> b <= w -> forall j, 0 <= j ->
                 Z.testbit (Z.shiftl (wrap (b - a) (ev (ESlice (EId nm w rg tm) a b))) a) j = (a <=? j) && (j <? b) && Z.testbit (rho nm) j).
    { intros a b Ha Hab Hbw j Hj. rewrite testbit_slot by lia. replace (a + (b - a)) with b by lia.
      destruct ((a <=? j) && (j <? b)) eqn:C; [|reflexivity]. apply andb_true_iff in C as [C1 C2]. apply Z.leb_le in C1. apply Z.ltb_lt in C2.
      cbn [andb]. simpl. unfold wrap. rewrite Z.mod_pow2_bits_low by lia. rewrite Z.shiftr_spec by lia. replace (j - a + a) with j by lia.
      rewrite Z.mod_pow2_bits_low by lia. reflexivity. }
    assert (Sr : Z.testbit (Z.shiftl (wrap (hi - lo) (ev src)) lo) i = (lo <=? i) && (i <? hi) && Z.testbit (ev src) (i - lo))
      by (rewrite testbit_slot by lia; replace (lo + (hi - lo)) with hi by lia; reflexivity).
    destruct (Z.eqb_spec lo 0) as [L0|L0]; destruct (Z.ltb_spec hi w) as [Hw|Hw]; cbn [app]; rewrite eval_compose; cbn [map fold_left]; unfold slot_val, slot_e, slot_lo, slot_hi; cbn [fst snd];
      rewrite ?Z.lor_0_l, ?Z.lor_spec, ?Sr, ?(Sl 0 lo), ?(Sl hi w) by lia;
      destruct (Z_lt_le_dec i lo), (Z_lt_le_dec i hi), (Z_lt_le_dec i w);
      repeat match goal with
             | |- context [?a <=? ?b] => first [replace (a <=? b) with true by (symmetry; apply Z.leb_le; lia) | replace (a <=? b) with false by (symmetry; apply Z.leb_gt; lia)]
             | |- context [?a <? ?b] => first [replace (a <? b) with true by (symmetry; apply Z.ltb_lt; lia) | replace (a <? b) with false by (symmetry; apply Z.ltb_ge; lia)]
             end; cbn [andb orb]; rewrite ?orb_false_r, ?orb_false_l; try reflexivity; try lia.
  Qed.
End WriteBack.
