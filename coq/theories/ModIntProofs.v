(** ModIntProofs.v — lemmas about the modint model (no model definitions here). *)
From Coq Require Import ZArith List Bool Lia ZifyBool.
From Mx Require Import ModInt.
Open Scope Z_scope.

Definition wf_cls (c : cls) : Prop := 1 <= c_w c.

Lemma limit_even c : wf_cls c -> exists h, limit c = 2 * h /\ 0 < h.
Proof.
  unfold wf_cls, limit. intros H. exists (2 ^ (c_w c - 1)). split.
  - replace (c_w c) with (1 + (c_w c - 1)) at 1 by lia.
    rewrite Z.pow_add_r by lia. reflexivity.
  - apply Z.pow_pos_nonneg; lia.
Qed.

Lemma limit_pos c : wf_cls c -> 0 < limit c.
Proof. intros H. destruct (limit_even c H) as [h [E P]]. lia. Qed.

(** the constructor always lands in the class's range *)
Lemma norm_in_range c z : wf_cls c -> in_range c (norm c z).
Proof.
  intros H. destruct (limit_even c H) as [h [E P]].
  unfold norm, in_range. pose proof (Z.mod_pos_bound z (limit c) ltac:(lia)) as B.
  destruct (c_sg c); [destruct (2 * (z mod limit c) >=? limit c) eqn:G|]; lia.
Qed.

(** ... on a representative of the same residue class modulo 2^w *)
Lemma norm_congr c z : wf_cls c -> exists k, norm c z = z + k * limit c.
Proof.
  intros H. pose proof (limit_pos c H) as P. unfold norm.
  pose proof (Z.div_mod z (limit c) ltac:(lia)) as D.
  destruct (c_sg c); [destruct (2 * (z mod limit c) >=? limit c)|].
  - exists (- (z / limit c) - 1). lia.
  - exists (- (z / limit c)). lia.
  - exists (- (z / limit c)). lia.
Qed.

Lemma norm_mod c z : wf_cls c -> (norm c z) mod limit c = z mod limit c.
Proof.
  intros H. destruct (norm_congr c z H) as [k E]. rewrite E.
  apply Z.mod_add. pose proof (limit_pos c H). lia.
Qed.

(** and that representative is unique: [norm] is THE reduction modulo 2^w into the range *)
Lemma range_unique c a b : wf_cls c -> in_range c a -> in_range c b ->
  a mod limit c = b mod limit c -> a = b.
Proof.
  intros H Ha Hb E. pose proof (limit_pos c H) as P.
  destruct (limit_even c H) as [h [Eh Ph]].
  unfold in_range in *.
  assert (exists k, a = b + k * limit c) as [k Ek].
  { exists (a / limit c - b / limit c).
    pose proof (Z.div_mod a (limit c) ltac:(lia)). pose proof (Z.div_mod b (limit c) ltac:(lia)). lia. }
  assert (k = 0) as K.
  { destruct (c_sg c).
    - assert (- limit c < k * limit c < limit c) by lia.
      assert (-1 < k < 1) by nia. lia.
    - assert (- limit c < k * limit c < limit c) by lia.
      assert (-1 < k < 1) by nia. lia. }
  subst k. lia.
Qed.

Lemma norm_unique c a z : wf_cls c -> in_range c a -> a mod limit c = z mod limit c -> a = norm c z.
Proof.
  intros H Ha E. apply (range_unique c); auto using norm_in_range.
  rewrite norm_mod; auto.
Qed.

Lemma norm_idem c v : wf_cls c -> in_range c v -> norm c v = v.
Proof. intros H Hv. symmetry. apply norm_unique; auto. Qed.

Lemma in_rangeb_spec c v : in_rangeb c v = true <-> in_range c v.
Proof. unfold in_rangeb, in_range. generalize (limit c); intros L.
  destruct (c_sg c); rewrite andb_true_iff, Z.leb_le, Z.ltb_lt; tauto. Qed.

(** maxcast: the wider class; on equal widths the right operand's class *)
Lemma maxcast_wider c1 c2 :
  c_w (maxcast c1 c2) = Z.max (c_w c1) (c_w c2) /\
  (c_w c1 > c_w c2 -> maxcast c1 c2 = c1) /\ (c_w c1 <= c_w c2 -> maxcast c1 c2 = c2).
Proof.
  unfold maxcast. destruct (c_w c1 >? c_w c2) eqn:E; repeat split; intros; try reflexivity;
    try (exfalso; lia); lia.
Qed.

Lemma maxcast_wf c1 c2 : wf_cls c1 -> wf_cls c2 -> wf_cls (maxcast c1 c2).
Proof. unfold maxcast. destruct (c_w c1 >? c_w c2); auto. Qed.

Definition result_class (c : cls) (y : operand) : cls :=
  match y with MI c2 _ => maxcast c c2 | PY _ => c end.

Definition operand_wf (y : operand) : Prop :=
  match y with MI c2 v2 => wf_cls c2 /\ in_range c2 v2 | PY _ => True end.

Lemma result_class_wf c y : wf_cls c -> operand_wf y -> wf_cls (result_class c y).
Proof. destruct y; simpl; intros; auto. apply maxcast_wf; tauto. Qed.

(** C14, main statement: every binary operator (direct or reflected, except the plain-int
    valued __rpow__) returns the class [result_class] holding THE representative of the exact
    result modulo 2^w *)
Lemma binop_exact op c v y r :
  wf_cls c -> operand_wf y -> op <> RPow ->
  exact op v (operand_val y) = inl (Some r) ->
  exists v', binop_apply op c v y = RMI (result_class c y) v' /\
             in_range (result_class c y) v' /\
             v' mod limit (result_class c y) = r mod limit (result_class c y) /\
             (forall u, in_range (result_class c y) u ->
                        u mod limit (result_class c y) = r mod limit (result_class c y) -> u = v').
Proof.
  intros Hc Hy Hop Hex.
  pose proof (result_class_wf c y Hc Hy) as Hrc.
  exists (norm (result_class c y) r).
  split; [|split; [apply norm_in_range; auto | split; [apply norm_mod; auto|]]].
  - unfold binop_apply.
    replace (match y with MI c2 v2 => (maxcast c c2, v2) | PY z => (c, z) end)
      with (result_class c y, operand_val y) by (destruct y; reflexivity).
    rewrite Hex. destruct op; try reflexivity. congruence.
  - intros u Hu Eu. apply norm_unique; auto.
Qed.

Lemma rpow_exact c v y r : exact RPow v (operand_val y) = inl (Some r) ->
  binop_apply RPow c v y = RInt r.
Proof.
  intros H. unfold binop_apply.
  replace (match y with MI c2 v2 => (maxcast c c2, v2) | PY z => (c, z) end)
      with (result_class c y, operand_val y) by (destruct y; reflexivity).
  rewrite H. reflexivity.
Qed.

(** errors are exactly Python's: negative shift count, zero modulus *)
Lemma binop_error op c v y e : exact op v (operand_val y) = inr e -> binop_apply op c v y = RErr e.
Proof.
  intros H. unfold binop_apply.
  replace (match y with MI c2 v2 => (maxcast c c2, v2) | PY z => (c, z) end)
      with (result_class c y, operand_val y) by (destruct y; reflexivity).
  rewrite H. reflexivity.
Qed.

(** mixing with a plain integer keeps the class; mixing two classes gives the wider *)
Lemma mixed_int_keeps_class c z : result_class c (PY z) = c.
Proof. reflexivity. Qed.
Lemma mixed_widths_wider c c2 v2 : c_w (result_class c (MI c2 v2)) = Z.max (c_w c) (c_w c2).
Proof. simpl. apply maxcast_wider. Qed.

(** reflected operators: [y rop x] performs the direct exact operation with swapped operands *)
Definition reflect (op : binop) : option binop :=
  match op with
  | Add => Some RAdd | Sub => Some RSub | Mul => Some RMul | And => Some RAnd | Or => Some ROr
  | Xor => Some RXor | Shl => Some RShl | Shr => Some RShr | Mod => Some RMod | Pow => Some RPow
  | _ => None
  end.

Lemma reflected_exact op rop a b : reflect op = Some rop ->
  exact rop a b = exact op b a.
Proof.
  destruct op; simpl; intros H; inversion H; subst; simpl; try reflexivity;
  f_equal; f_equal; try lia; try apply Z.land_comm; try apply Z.lor_comm; try apply Z.lxor_comm.
Qed.

(** for the ring operators, the reflected form with a plain integer agrees with first converting
    the integer to the class and then using the direct operator *)
Lemma mod_eq_norm c a b : wf_cls c -> a mod limit c = b mod limit c -> norm c a = norm c b.
Proof.
  intros H E. apply norm_unique; auto using norm_in_range. rewrite norm_mod; auto.
Qed.

Lemma reflected_ring_agree op rop c v z : wf_cls c ->
  (op = Add \/ op = Sub \/ op = Mul) -> reflect op = Some rop ->
  binop_apply rop c v (PY z) = binop_apply op c (norm c z) (MI c v).
Proof.
  intros H Hop Hr. pose proof (limit_pos c H) as P.
  assert (maxcast c c = c) as Mc by (unfold maxcast; destruct (c_w c >? c_w c); reflexivity).
  destruct (norm_congr c z H) as [k Ek].
  destruct Hop as [Hop|[Hop|Hop]]; subst op; simpl in Hr; inversion Hr; subst rop;
    unfold binop_apply; simpl; rewrite Mc; f_equal; apply mod_eq_norm; auto; rewrite Ek.
  - replace (z + k * limit c + v) with (v + z + k * limit c) by lia. rewrite Z.mod_add by lia. reflexivity.
  - replace (z + k * limit c - v) with (z - v + k * limit c) by lia. rewrite Z.mod_add by lia. reflexivity.
  - replace ((z + k * limit c) * v) with (v * z + (k * v) * limit c) by lia. rewrite Z.mod_add by lia. reflexivity.
Qed.

(** unary operators *)
Lemma unop_exact op c v : wf_cls c -> op <> ToInt ->
  let r := match op with Inv => Z.lnot v | Neg => - v | Abs => Z.abs v | ToInt => v end in
  exists v', unop_apply op c v = RMI c v' /\ in_range c v' /\ v' mod limit c = r mod limit c.
Proof.
  intros H Hop. destruct op; simpl; try congruence;
  eexists; (split; [reflexivity | split; [apply norm_in_range; auto | apply norm_mod; auto]]).
Qed.

Lemma toint_exact c v : unop_apply ToInt c v = RInt v.
Proof. reflexivity. Qed.

(** comparisons are the comparisons of the represented values *)
Lemma cmp_is_Z_cmp op c v y :
  cmp_apply op c v y = RBool (match op with
    | CEq => v =? operand_val y | CNe => negb (v =? operand_val y)
    | CLt => v <? operand_val y | CLe => v <=? operand_val y
    | CGt => v >? operand_val y | CGe => v >=? operand_val y end).
Proof. unfold cmp_apply. destruct op; f_equal; lia. Qed.

(** equal values hash equally, whatever the host hash function *)
Lemma eq_hash (h : Z -> Z) c v y :
  cmp_apply CEq c v y = RBool true -> hash_apply h v = hash_apply h (operand_val y).
Proof. unfold cmp_apply, hash_apply. intros H. inversion H. f_equal. lia. Qed.

(** non-vacuity: a concrete class and values meeting all hypotheses *)
Example binop_exact_nonvacuous :
  wf_cls (Cls true 8) /\ operand_wf (MI (Cls false 16) 65535) /\
  binop_apply Add (Cls true 8) (-128) (MI (Cls false 16) 65535) = RMI (Cls false 16) 65407.
Proof. unfold wf_cls, operand_wf, in_range; simpl. repeat split; try lia; vm_compute; congruence. Qed.
