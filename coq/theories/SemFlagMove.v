(** SemFlagMove.v — lahf / sahf of the x86 lifter: the mirror and its bit-level meaning (ah = SF:ZF:0:AF:0:PF:1:CF and back). *)
From Coq Require Import ZArith List Bool String Lia.
From Mx Require Import Expr ExprProofs Sem SemProofs SemCC SemCCProofs SemStr.
Import ListNotations.
Open Scope string_scope.
Open Scope list_scope.
Open Scope Z_scope.

Definition ah : expr := ESlice eax 8 16.
Definition lahf_src : expr :=
  ECompose [(flag "cf", 0, 1); (EInt false 32 1, 1, 2); (flag "pf", 2, 3); (EInt false 32 0, 3, 4); (flag "af", 4, 5); (EInt false 32 0, 5, 6); (flag "zf", 6, 7); (flag "nf", 7, 8)].
Definition mirror_lahf : list expr := [mk_aff ah lahf_src].
Definition mirror_sahf : list expr :=
  [EAff (flag "cf") (ESlice ah 0 1); EAff (flag "pf") (ESlice ah 2 3); EAff (flag "af") (ESlice ah 4 5); EAff (flag "zf") (ESlice ah 6 7); EAff (flag "nf") (ESlice ah 7 8)].
Definition flagmove_mirror (mn : string) : option (list expr) :=
  if (mn =? "lahf")%string then Some mirror_lahf else if (mn =? "sahf")%string then Some mirror_sahf else None.

Section Meaning.
  Variable rho : string -> Z.
  Variable mu : Z -> Z.
  Variable iota : string -> list Z -> Z.
  Notation ev := (eval rho mu iota).
  Definition fbit (n : string) : Z := Z.b2z (Z.odd (rho n)).
  (** lahf: the byte written to ah *)
  Theorem lahf_value : ev lahf_src = fbit "cf" + 2 + 4 * fbit "pf" + 16 * fbit "af" + 64 * fbit "zf" + 128 * fbit "nf".
  Proof.
    unfold lahf_src, fbit. rewrite eval_compose. cbn [map fold_left]. unfold slot_val, slot_e, slot_lo, slot_hi, flag. cbn [fst snd eval].
    rewrite !wrap1_odd. destruct (Z.odd (rho "cf")), (Z.odd (rho "pf")), (Z.odd (rho "af")), (Z.odd (rho "zf")), (Z.odd (rho "nf")); vm_compute; reflexivity.
  Qed.
  (** sahf: each flag receives its bit of ah, i.e. bit 8 + k of eax *)
  Theorem sahf_bit k : 0 <= k < 8 -> ev (ESlice ah k (k + 1)) = Z.b2z (Z.testbit (rho "eax") (8 + k)).
  Proof.
    intros Hk. unfold ah, eax. cbn [eval]. replace (k + 1 - k) with 1 by lia. unfold wrap. change (2 ^ 1) with 2. rewrite <- Z.bit0_mod.
    rewrite Z.shiftr_spec by lia. rewrite Z.mod_pow2_bits_low by lia. rewrite Z.shiftr_spec by lia. rewrite Z.mod_pow2_bits_low by lia. f_equal. f_equal. lia.
  Qed.
End Meaning.
