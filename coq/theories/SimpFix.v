(** SimpFix.v — the result of the simplifier is a fixpoint of its own rewriting step (C13, root level): one more application of
    _expr_simp to a simplified expression returns an == expression.  For ALL trees (no well-formedness needed). *)
From Coq Require Import ZArith List Bool String Lia Permutation.
From Mx Require Import Expr ExprProofs Simp SimpProofs.
Import ListNotations.

Definition step_fixpoint (r : expr) : Prop := exists r1, simp1 r = Ok r1 /\ expr_eqb r1 r = true.

Lemma loop_fixpoint rec_simp : forall n e r, simp_loop rec_simp n e = Ok r -> step_fixpoint r.
Proof.
  induction n as [|n IH]; intros e r H; simpl in H; [discriminate|].
  destruct (simp1 e) as [e1| |] eqn:E1; try discriminate. cbn [bind] in H.
  destruct (expr_eqb e1 e) eqn:Q.
  - inversion H; subst. exists e1. split; assumption.
  - destruct (rec_simp e1) as [e2| |]; try discriminate. cbn [bind] in H. apply (IH e2 r H).
Qed.

(** the traversal always ends by applying the callback to the rebuilt root *)
Lemma visitM_ends_with_cb cb : forall e r, visitM cb e = Ok r -> exists x, cb x = Ok r.
Proof.
  destruct e; intros r H; simpl in H;
    repeat match type of H with
           | bind ?m _ = _ => destruct m; try discriminate; cbn [bind] in H
           end; eauto.
Qed.

Theorem simp_result_is_step_fixpoint : forall fuel e r, simp fuel e = Ok r -> step_fixpoint r.
Proof.
  destruct fuel as [|f]; intros e r H; [simpl in H; discriminate|].
  simpl in H. destruct (visitM_ends_with_cb _ _ _ H) as [x Hx]. apply (loop_fixpoint (simp f) (S f) x r Hx).
Qed.

Open Scope Z_scope.
(** on well-formed trees the order of the operands of a commutative-associative operator does not influence the value of the result *)
Lemma operand_order_value : forall (ac : bool) (Q : string -> Z -> bool -> bool -> bool) op k args args' fuel r r',
  aop_of op = Some k -> Permutation args args' -> wf ac Q (EOp op args) = true -> wf ac Q (EOp op args') = true ->
  simp fuel (EOp op args) = Ok r -> simp fuel (EOp op args') = Ok r' ->
  size r = size r' /\ forall rho mu iota, eval rho mu iota r = eval rho mu iota r'.
Proof.
  intros ac Q op k args args' fuel r r' K P W W' H H'.
  destruct (simp_sound_frag1 ac Q fuel _ _ W H) as (_ & S1 & E1). destruct (simp_sound_frag1 ac Q fuel _ _ W' H') as (_ & S2 & E2).
  destruct (wf_op_inv ac Q _ _ W (aop_noshift _ _ K)) as (Wl & a & l & -> & _ & Sl). destruct (wf_op_inv ac Q _ _ W' (aop_noshift _ _ K)) as (Wl' & a' & l' & -> & _ & Sl').
  assert (Pa : 0 < size a) by (inversion Wl; subst; apply (wf_range ac Q (fun _ => 0) (fun _ => 0) (fun _ _ => 0)); assumption).
  assert (Sa : size a' = size a).
  { assert (I : In a' (a :: l)) by (apply (Permutation_in a' (Permutation_sym P)); left; reflexivity).
    unfold all_size in Sl. rewrite Forall_forall in Sl. apply Sl. exact I. }
  assert (Pa' : 0 < size a') by (rewrite Sa; exact Pa).
  split.
  - rewrite S1, S2. rewrite (size_node op a l), (size_node op a' l'); lia.
  - intros rho mu iota. rewrite E1, E2.
    rewrite (ev_assoc rho mu iota op k a l K Pa), (ev_assoc rho mu iota op k a' l' K Pa'). rewrite Sa.
    rewrite (afold_perm k _ _ (Permutation_map (eval rho mu iota) P)). reflexivity.
Qed.
