(** SemCC.v — the condition-code families of the x86 lifter (setcc / cmovcc / jcc of miasmx/arch/ia32_sem.py): the sixteen
    condition codes of the SDM (vol. 2, appendix B.1 "Condition test field"), the class of flag-only expressions, and the checkers that
    decide — by evaluation under the 32 valuations of (cf, zf, nf, of, pf) — whether a lifted assignment list regenerated from
    /repo (tie S) realises the condition its mnemonic names.  No proofs in this file. *)
From Coq Require Import ZArith List Bool String.
From Mx Require Import Expr Sem.
Import ListNotations.
Open Scope string_scope.
Open Scope list_scope.
Open Scope Z_scope.

Inductive cc := CO | CNO | CB | CAE | CE | CNE | CBE | CA | CS | CNS | CP | CNP | CL | CGE | CLE | CG.
(** the flag valuation: (cf, zf, sf, of, pf); miasm names the sign flag nf *)
Definition fl5 := (bool * bool * bool * bool * bool)%type.
Definition cc_holds (c : cc) (v : fl5) : bool :=
  let '(cf, zf, sf, of, pf) := v in
  match c with
  | CO => of | CNO => negb of | CB => cf | CAE => negb cf | CE => zf | CNE => negb zf
  | CBE => cf || zf | CA => negb (cf || zf) | CS => sf | CNS => negb sf | CP => pf | CNP => negb pf
  | CL => xorb sf of | CGE => negb (xorb sf of) | CLE => zf || xorb sf of | CG => negb (zf || xorb sf of)
  end.
(** mnemonic suffixes, with the SDM aliases *)
Definition cc_of_suffix (s : string) : option cc :=
  let is x := (s =? x)%string in
  if is "o" then Some CO else if is "no" then Some CNO
  else if is "b" || is "c" || is "nae" then Some CB else if is "ae" || is "nb" || is "nc" then Some CAE
  else if is "e" || is "z" then Some CE else if is "ne" || is "nz" then Some CNE
  else if is "be" || is "na" then Some CBE else if is "a" || is "nbe" then Some CA
  else if is "s" then Some CS else if is "ns" then Some CNS
  else if is "p" || is "pe" then Some CP else if is "np" || is "po" then Some CNP
  else if is "l" || is "nge" then Some CL else if is "ge" || is "nl" then Some CGE
  else if is "le" || is "ng" then Some CLE else if is "g" || is "nle" then Some CG else None.
Inductive ccfam := FSet | FCmov | FJcc.
Definition drop (n : nat) (s : string) : string := String.substring n (String.length s - n) s.
Definition cc_family (mn : string) : option (ccfam * cc) :=
  if String.prefix "set" mn then option_map (fun c => (FSet, c)) (cc_of_suffix (drop 3 mn))
  else if String.prefix "cmov" mn then option_map (fun c => (FCmov, c)) (cc_of_suffix (drop 4 mn))
  else if String.prefix "j" mn then option_map (fun c => (FJcc, c)) (cc_of_suffix (drop 1 mn))
  else None.

(** flag-only expressions: 1-bit flag identifiers, constants, interpreted operators at a supported arity, conditionals, slices,
    concatenations; no memory, no other identifier, no uninterpreted operator *)
Definition is_flag (n : string) : bool :=
  (n =? "cf")%string || (n =? "zf")%string || (n =? "nf")%string || (n =? "of")%string || (n =? "pf")%string.
Definition op_interp (op : string) (n : nat) : bool :=
  match opk_of op, n with
  | (OAdd | OMul | OXor | OOr), _ => true
  | OAnd, S _ => true
  | OSub, (1 | 2)%nat => true
  | _, _ => false
  end.
Fixpoint flagexp (e : expr) : bool :=
  match e with
  | EInt _ _ _ => true
  | EId n w _ _ => (w =? 1) && is_flag n
  | EMem _ _ _ => false
  | EOp op args => op_interp op (List.length args) && forallb flagexp args
  | ECond c a b => flagexp c && flagexp a && flagexp b
  | ESlice a _ _ => flagexp a
  | ECompose slots => forallb (fun s => flagexp (slot_e s)) slots
  | EAff _ _ => false
  end.

Definition b2z (b : bool) : Z := if b then 1 else 0.
Definition frho (v : fl5) (n : string) : Z :=
  let '(cf, zf, sf, of, pf) := v in
  if (n =? "cf")%string then b2z cf else if (n =? "zf")%string then b2z zf else if (n =? "nf")%string then b2z sf
  else if (n =? "of")%string then b2z of else if (n =? "pf")%string then b2z pf else 0.
Definition fl_of (rho : string -> Z) : fl5 := (Z.odd (rho "cf"), Z.odd (rho "zf"), Z.odd (rho "nf"), Z.odd (rho "of"), Z.odd (rho "pf")).
Definition bools : list bool := [false; true].
Definition all32 : list fl5 :=
  flat_map (fun a => flat_map (fun b => flat_map (fun c => flat_map (fun d => map (fun e => (a, b, c, d, e)) bools) bools) bools) bools) bools.
Definition mu0 : Z -> Z := fun _ => 0.
Definition iota0 : string -> list Z -> Z := fun _ _ => 0.
Definition feval (v : fl5) (e : expr) : Z := eval (frho v) mu0 iota0 e.

(** [c] is non-zero exactly when [p] holds *)
Definition cond_spec (c : expr) (p : fl5 -> bool) : bool :=
  flagexp c && forallb (fun v => Bool.eqb (negb (feval v c =? 0)) (p v)) all32.
(** [s] evaluates to [f] *)
Definition val_spec (s : expr) (f : fl5 -> Z) : bool :=
  flagexp s && forallb (fun v => feval v s =? f v) all32.

(** the operand an assignment addresses: ExprAff.__init__ turns an assignment to a slice of a register into an assignment of
    the whole register by a concatenation (Sem.mk_aff); find the (operand, source) pair that rebuilds the assignment *)
Definition split_aff (a : expr) : option (expr * expr) :=
  match a with
  | EAff d s0 =>
      let plain := match d with ESlice _ _ _ => None | _ => Some (d, s0) end in
      match s0 with
      | ECompose slots =>
          match find (fun s => expr_eqb (mk_aff (ESlice d (slot_lo s) (slot_hi s)) (slot_e s)) a) slots with
          | Some s => Some (ESlice d (slot_lo s) (slot_hi s), slot_e s)
          | None => plain
          end
      | _ => plain
      end
  | _ => None
  end.

Definition set_ok (c : cc) (l : list expr) : bool :=
  match l with
  | [a] => match split_aff a with
           | Some (x, s) => (size x =? 8) && (size s =? 8) && val_spec s (fun v => b2z (cc_holds c v))
           | None => false end
  | _ => false
  end.
(** cmovcc: the new value of the destination operand x is ECond c p q with one branch x itself *)
Definition cmov_ok (c : cc) (l : list expr) : bool :=
  match l with
  | [a] => match split_aff a with
           | Some (x, ECond k p q) =>
               if expr_eqb q x && expr_eqb p x then true                     (* cmovcc r, r: the value is x whatever the condition *)
               else if expr_eqb q x then cond_spec k (cc_holds c)
               else if expr_eqb p x then cond_spec k (fun v => negb (cc_holds c v))
               else false
           | _ => false end
  | _ => false
  end.
(** jcc: eip := ECond c p q with one branch the next-instruction address *)
Definition is_eip (d : expr) : bool := match d with EId n w _ _ => (n =? "eip")%string && (w =? 32) | _ => false end.
Definition jcc_ok (c : cc) (next : Z) (l : list expr) : bool :=
  match l with
  | [EAff d (ECond k p q)] =>
      is_eip d && (0 <=? next) && (next <? 2 ^ 32) &&
      (if expr_eqb q (EInt false 32 next) then cond_spec k (cc_holds c)
       else if expr_eqb p (EInt false 32 next) then cond_spec k (fun v => negb (cc_holds c v))
       else false)
  | _ => false
  end.
Definition cc_ok (f : ccfam) (c : cc) (next : Z) (l : list expr) : bool :=
  match f with FSet => set_ok c l | FCmov => cmov_ok c l | FJcc => jcc_ok c next l end.
