(** SemMisc.v — mirror of further integer-core instructions of the x86 lifter (miasmx/arch/ia32_sem.py: xadd, cmps, scas, loop, loope,
    loopne, jecxz, cdq, bt, btc, bts, btr, bswap, cmpxchg) on the operand expressions the lifter was called with and the
    next-instruction address (both dumped beside the lifted list).  No proofs in this file. *)
From Coq Require Import ZArith List Bool String.
From Mx Require Import Expr Sem SemStr SemCtl.
Import ListNotations.
Open Scope string_scope.
Open Scope list_scope.
Open Scope Z_scope.

Inductive misc := Xadd | Cmps | Scas | Loop | Loope | Loopne | Jecxz | Cdq | Bt | Btc | Bts | Btr | Bswap | Cmpxchg.
Definition misc_of (mn : string) : option misc :=
  let is x := (mn =? x)%string in
  if is "xadd" then Some Xadd else if is "cmpsb" || is "cmpsw" || is "cmpsd" then Some Cmps
  else if is "scasb" || is "scasw" || is "scasd" then Some Scas else if is "loop" then Some Loop else if is "loope" then Some Loope
  else if is "loopne" then Some Loopne else if is "jecxz" then Some Jecxz else if is "cdq" then Some Cdq else if is "bt" then Some Bt
  else if is "btc" then Some Btc else if is "bts" then Some Bts else if is "btr" then Some Btr else if is "bswap" then Some Bswap
  else if is "cmpxchg" then Some Cmpxchg else None.

Definition ecx : expr := EId "ecx" 32 true false.
Definition edx : expr := EId "edx" 32 true false.
Definition zf : expr := flag "zf".

(** the pointer register of the second string operand moves by a constant of the FIRST pointer's width (as written in cmps) *)
Definition ptr_next2 (p q : expr) (off : Z) : expr := ECond df (EOp "-" [q; int_from p off]) (EOp "+" [q; int_from p off]).
(** ecx - 1 and the exit conditions of the loop family *)
Definition ecx_dec : expr := EOp "-" [ecx; EInt false 32 1].
Definition is_zero (c : expr) : expr := ECond c (int_from c 0) (int_from c 1).
Definition loopne_exit : expr := EOp "|" [is_zero ecx_dec; ECond zf (int_from ecx_dec 1) (int_from ecx_dec 0)].
Definition loope_exit : expr := EOp "|" [is_zero ecx_dec; ECond zf (int_from ecx_dec 0) (int_from ecx_dec 1)].
(** bittest_get: the cell holding the selected bit and the bit index inside it *)
Definition bit_index (a b : expr) : expr := EOp "&" [b; int_from a (size a - 1)].
Definition bit_cell (a b : expr) : expr :=
  match a with
  | EMem pa w _ => EMem (EOp "+" [pa; EOp "&" [EOp ">>" [b; int_from a 3]; EOp "!" [int_from a (w / 8 - 1)]]]) w None
  | _ => a
  end.
Definition bit_cf (a b : expr) : expr := EAff (flag "cf") (EOp "&" [EOp ">>" [bit_cell a b; bit_index a b]; int_from a 1]).
Definition bit_mask (a b : expr) : expr := EOp "<<" [int_from a 1; bit_index a b].
(** bswap: the four bytes in reverse order *)
Definition bswap_val (a : expr) : expr :=
  ECompose [(EOp "&" [int_from a 255; a], 24, 32);
            (EOp ">>" [EOp "&" [int_from a 65280; a]; EInt false 32 8], 16, 24);
            (EOp ">>" [EOp "&" [int_from a 16711680; a]; EInt false 32 16], 8, 16);
            (EOp ">>" [EOp "&" [int_from a 4278190080; a]; EInt false 32 24], 0, 8)].
(** cdq / cwd: the sign of the accumulator fills edx / dx *)
Definition sign_fill (a : expr) : expr := ECond (msb a) (int_from a (2 ^ size a - 1)) (int_from a 0).

Fixpoint drop_last (l : list expr) : list expr := match l with [] => [] | [x] => [] | x :: r => x :: drop_last r end.

Definition mirror_misc (k : misc) (o16 : bool) (next : Z) (args : list expr) : option (list expr) :=
  let nx := EInt false 32 next in
  match k, args with
  | Xadd, [a; b] => let c := alu_val Add b a in Some (drop_last (mirror Add b a) ++ [mk_aff b a; mk_aff a c])
  | Cmps, [EMem pa w sa; EMem pb w' sb] =>
      Some (mirror Cmp (EMem pb w' sb) (EMem pa w sa) ++ [mk_aff pa (ptr_next pa (w / 8)); mk_aff pb (ptr_next2 pa pb (w / 8))])
  | Scas, [EMem pa w sa] => Some (mirror Cmp (ESlice eax 0 w) (EMem pa w sa) ++ [mk_aff pa (ptr_next pa (w / 8))])
  | Loop, [b] => Some [EAff ecx ecx_dec; EAff eip (ECond ecx_dec b nx)]
  | Loopne, [b] => Some [EAff ecx ecx_dec; EAff eip (ECond loopne_exit nx b)]
  | Loope, [b] => Some [EAff ecx ecx_dec; EAff eip (ECond loope_exit nx b)]
  | Jecxz, [b] => Some [EAff eip (ECond ecx nx b)]
  | Cdq, [] => if o16 then Some [mk_aff (ESlice edx 0 16) (sign_fill (ESlice eax 0 16))] else Some [EAff edx (sign_fill eax)]
  | Bt, [a; b] => Some [bit_cf a b]
  | Btc, [a; b] => let d := bit_cell a b in Some [bit_cf a b; mk_aff d (EOp "^" [d; bit_mask a b])]
  | Bts, [a; b] => let d := bit_cell a b in Some [bit_cf a b; mk_aff d (EOp "|" [d; bit_mask a b])]
  | Btr, [a; b] => let d := bit_cell a b in Some [bit_cf a b; mk_aff d (EOp "&" [d; e_not (bit_mask a b)])]
  | Bswap, [a] => if size a =? 32 then Some [EAff a (bswap_val a)] else None
  | Cmpxchg, [a; b] =>
      let c := match b with ESlice _ lo hi => ESlice eax lo hi | _ => eax end in
      let cond := EOp "+" [a; EOp "-" [c]] in   (* a - c as Expr.__sub__ builds it *)
      Some [EAff zf (ECond cond (i1 0) (i1 1)); mk_aff c (ECond cond a c); mk_aff a (ECond cond a b)]
  | _, _ => None
  end.
