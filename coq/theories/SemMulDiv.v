(** SemMulDiv.v — mirror of the multiply / divide group of the x86 lifter (miasmx/arch/ia32_sem.py: mul, imul in its one-, two- and
    three-operand forms, div, idiv) on the operand expressions the lifter was called with.  The wide products and quotients are
    the named operators umulN_hi / umulN_lo / umul08 / imulN_hi / imulN_lo / imul08 / divN / remN / idivN / iremN, whose
    interpretation is Expr.named_op.  No proofs in this file. *)
From Coq Require Import ZArith List Bool String.
From Mx Require Import Expr Sem SemStr SemMisc.
Import ListNotations.
Open Scope string_scope.
Open Scope list_scope.
Open Scope Z_scope.

Inductive muldiv := Mul | Imul | Div | Idiv.
Definition muldiv_of (mn : string) : option muldiv :=
  let is x := (mn =? x)%string in
  if is "mul" then Some Mul else if is "imul" then Some Imul else if is "div" then Some Div else if is "idiv" then Some Idiv else None.
Definition r_al : expr := ESlice eax 0 8.
Definition r_ah : expr := ESlice eax 8 16.
Definition r_ax : expr := ESlice eax 0 16.
Definition r_dx : expr := ESlice edx 0 16.
Definition nonzero32 (c : expr) : expr := ECond c (EInt false 32 1) (EInt false 32 0).
Definition cf_of (c : expr) : list expr := [EAff (flag "cf") (nonzero32 c); EAff (flag "of") (nonzero32 c)].
Definition of_cf (c : expr) : list expr := [EAff (flag "of") (nonzero32 c); EAff (flag "cf") (nonzero32 c)].
Definition e_sub (a b : expr) : expr := EOp "+" [a; EOp "-" [b]].      (* Expr.__sub__ *)
Definition mirror_muldiv (k : muldiv) (args : list expr) : option (list expr) :=
  match k, args with
  | Mul, [a] =>
      if size a =? 32 then let hi := EOp "umul32_hi" [eax; a] in let lo := EOp "umul32_lo" [eax; a] in Some ([EAff edx hi; EAff eax lo] ++ of_cf hi)
      else if size a =? 16 then let hi := EOp "umul16_hi" [r_ax; a] in let lo := EOp "umul16_lo" [r_ax; a] in Some ([mk_aff r_dx hi; mk_aff r_ax lo] ++ of_cf hi)
      else if size a =? 8 then Some (mk_aff r_ax (EOp "umul08" [eax; a]) :: of_cf r_ah)
      else None
  | Imul, [a] =>
      if size a =? 32 then let hi := EOp "imul32_hi" [eax; a] in let lo := EOp "imul32_lo" [eax; a] in Some ([EAff edx hi; EAff eax lo] ++ cf_of hi)
      else if size a =? 16 then let hi := EOp "imul16_hi" [r_ax; a] in let lo := EOp "imul16_lo" [r_ax; a] in Some ([mk_aff r_dx hi; mk_aff r_ax lo] ++ cf_of hi)
      else if size a =? 8 then let c := EOp "imul08" [eax; a] in Some (mk_aff r_ax c :: cf_of (e_sub c r_ax))
      else None
  | Imul, [a; b] => let c := EOp "*" [a; b] in Some (mk_aff a c :: cf_of (ESlice c 16 (size c)))
  | Imul, [a; b; c0] => let c := EOp "*" [b; c0] in Some (mk_aff a c :: cf_of (ESlice c 16 (size c)))
  | Div, [a] =>
      if size a =? 8 then Some [mk_aff r_ax (ECompose [(EOp "div8" [r_ah; r_al; a], 0, 8); (EOp "rem8" [r_ah; r_al; a], 8, 16)])]
      else if size a =? 16 then Some [mk_aff r_dx (EOp "rem16" [r_dx; r_ax; a]); mk_aff r_ax (EOp "div16" [r_dx; r_ax; a])]
      else if size a =? 32 then Some [EAff edx (EOp "rem32" [edx; eax; a]); EAff eax (EOp "div32" [edx; eax; a])]
      else None
  | Idiv, [a] =>
      if size a =? 8 then Some [mk_aff r_ah (EOp "irem8" [r_ah; r_al; a]); mk_aff r_al (EOp "idiv8" [r_ah; r_al; a])]
      else if size a =? 16 then Some [mk_aff r_dx (EOp "irem16" [r_dx; r_ax; a]); mk_aff r_ax (EOp "idiv16" [r_dx; r_ax; a])]
      else if size a =? 32 then Some [EAff edx (EOp "irem32" [edx; eax; a]); EAff eax (EOp "idiv32" [edx; eax; a])]
      else None
  | _, _ => None
  end.
