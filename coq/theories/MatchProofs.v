(** MatchProofs.v — MatchExpr is sound (C16): whenever it succeeds, the matched expression IS the pattern with every wildcard
    replaced by the expression bound to it in the returned dictionary (up to ==), and bindings made earlier are never lost. *)
From Coq Require Import ZArith List Bool String Lia.
From Mx Require Import Expr ExprProofs.
Import ListNotations.
Open Scope list_scope.
Open Scope Z_scope.

Section Match.
  Variable tks : list expr.

  (** e is an instance of the pattern m under the bindings res: wildcards stand for the expression bound to them, everything
      else is matched constructor by constructor, leaves up to == *)
  Fixpoint inst (res : binds) (m e : expr) {struct m} : Prop :=
    if mem_eqb m tks then match dict_get res m with Some v => expr_eqb v e = true | None => False end else
    match m, e with
    | EOp op' args', EOp op args =>
        op = op' /\ (fix go (l' l : list expr) : Prop :=
                       match l', l with [], [] => True | a' :: r', a :: r => inst res a' a /\ go r' r | _, _ => False end) args' args
    | EMem a' w' s', EMem a w s => w = w' /\ opt_eqb expr_eqb s s' = true /\ inst res a' a
    | ESlice a' lo' hi', ESlice a lo hi => lo = lo' /\ hi = hi' /\ inst res a' a
    | ECond c' a' b', ECond c a b => inst res c' c /\ inst res a' a /\ inst res b' b
    | ECompose args', ECompose args =>
        (fix go (l' l : list slot) : Prop :=
           match l', l with
           | [], [] => True
           | s' :: r', s0 :: r => slot_lo s0 = slot_lo s' /\ slot_hi s0 = slot_hi s' /\ inst res (slot_e s') (slot_e s0) /\ go r' r
           | _, _ => False end) args' args
    | _, _ => expr_eqb e m = true
    end.

  (** res' keeps every binding of res (possibly replaced by an == value) *)
  Definition extends (res res' : binds) : Prop :=
    forall k v, dict_get res k = Some v -> exists v', dict_get res' k = Some v' /\ expr_eqb v' v = true.
  Lemma extends_refl res : extends res res.
  Proof. intros k v H. exists v. split; [exact H | apply eqb_refl]. Qed.
  Lemma extends_trans r1 r2 r3 : extends r1 r2 -> extends r2 r3 -> extends r1 r3.
  Proof.
    intros A B k v H. destruct (A k v H) as (v2 & H2 & E2). destruct (B k v2 H2) as (v3 & H3 & E3).
    exists v3. split; [exact H3 | apply (eqb_trans v3 v2 v); assumption].
  Qed.

  Lemma inst_extends res res' : extends res res' -> forall m e, inst res m e -> inst res' m e.
  Proof.
    intros X. induction m using expr_ind'; intros e0 H0; simpl in *;
      (destruct (mem_eqb _ tks) eqn:J;
       [ match type of H0 with match ?d with _ => _ end => destruct d as [bv|] eqn:G; [|contradiction] end;
         destruct (X _ _ G) as (bv' & G' & E'); rewrite G'; apply (eqb_trans bv' bv e0); assumption |]).
    - exact H0.
    - exact H0.
    - destruct e0; try exact H0. destruct H0 as (A & B & C). repeat split; auto.
    - destruct e0 as [| | |op0 args0| | | |]; try exact H0. destruct H0 as [A B]. split; [exact A|].
      clear J. revert args0 B. induction H as [|x l Hx _ IHl]; intros [|y l0] B; try exact B. destruct B as [B1 B2]. split; [apply Hx; exact B1 | apply IHl; exact B2].
    - destruct e0; try exact H0. destruct H0 as (A & B & C). repeat split; auto.
    - destruct e0; try exact H0. destruct H0 as (A & B & C). repeat split; auto.
    - destruct e0 as [| | | | | |args0|]; try exact H0.
      clear J. revert args0 H0. induction H as [|x l Hx _ IHl]; intros [|y l0] B; try exact B. destruct B as (B1 & B2 & B3 & B4).
      split; [exact B1|]. split; [exact B2|]. split; [apply Hx; exact B3 | apply IHl; exact B4].
    - exact H0.
  Qed.

  (** the dictionary *)
  Lemma dict_get_app_none (d : binds) k v k2 : dict_get d k = None -> dict_get (d ++ [(k, v)]) k2 = match dict_get d k2 with Some x => Some x | None => if expr_eqb k k2 then Some v else None end.
  Proof. intros _. induction d as [|[k' v'] d IH]; simpl; [reflexivity|]. destruct (expr_eqb k' k2); [reflexivity | exact IH]. Qed.
  Lemma dict_get_set_same (d : binds) k v v0 : dict_get d k = Some v0 -> dict_get (dict_set d k v) k = Some v.
  Proof.
    induction d as [|[k' v'] d IH]; simpl; [discriminate|]. destruct (expr_eqb k' k) eqn:E; simpl; rewrite E; [reflexivity | exact IH].
  Qed.
  Lemma dict_get_set_other (d : binds) k v k2 : dict_get (dict_set d k v) k2 = Some v \/ dict_get (dict_set d k v) k2 = dict_get d k2.
  Proof.
    induction d as [|[k' v'] d IH]; simpl.
    - destruct (expr_eqb k k2); [left; reflexivity | right; reflexivity].
    - destruct (expr_eqb k' k) eqn:E; simpl.
      + destruct (expr_eqb k' k2); [left; reflexivity | right; reflexivity].
      + destruct (expr_eqb k' k2); [right; reflexivity | exact IH].
  Qed.
  Lemma dict_get_set_cases (d : binds) k v v0 k2 : dict_get d k = Some v0 ->
    dict_get (dict_set d k v) k2 = dict_get d k2 \/ (dict_get (dict_set d k v) k2 = Some v /\ dict_get d k2 = Some v0).
  Proof.
    induction d as [|[k' v'] d IH]; simpl; [discriminate|]. destruct (expr_eqb k' k) eqn:E; simpl; intros H.
    - inversion H; subst. destruct (expr_eqb k' k2); [right; split; reflexivity | left; reflexivity].
    - destruct (expr_eqb k' k2); [left; reflexivity | apply IH; exact H].
  Qed.

  Lemma test_set_joker e v res r res' : mem_eqb v tks = true -> test_set e v tks res = (r, res') -> r <> RFalse ->
    extends res res' /\ inst res' v e.
  Proof.
    intros J H NR. unfold test_set in H. rewrite J in H. cbn [negb] in H.
    assert (Iv : forall res0, (exists bv, dict_get res0 v = Some bv /\ expr_eqb bv e = true) -> inst res0 v e).
    { intros res0 (bv & G & E). destruct v; simpl; simpl in J; rewrite J; rewrite G; exact E. }
    destruct (dict_get res v) as [e'|] eqn:G.
    - destruct (expr_eqb e' e) eqn:E; inversion H; subst; [|contradiction]. split.
      + intros k val Hk. destruct (dict_get_set_cases res v e e' k G) as [U|[N O]].
        * exists val. split; [rewrite U; exact Hk | apply eqb_refl].
        * exists e. split; [exact N|]. rewrite Hk in O. inversion O; subst. rewrite eqb_sym. exact E.
      + apply Iv. exists e. split; [apply (dict_get_set_same res v e e' G) | apply eqb_refl].
    - inversion H; subst. split.
      + intros k val Hk. exists val. split; [rewrite (dict_get_app_none res v e k G), Hk; reflexivity | apply eqb_refl].
      + apply Iv. exists e. split; [rewrite (dict_get_app_none res v e v G), G, eqb_refl; reflexivity | apply eqb_refl].
  Qed.

  Lemma test_set_leaf e v res r res' : mem_eqb v tks = false -> test_set e v tks res = (r, res') -> r <> RFalse ->
    res' = res /\ expr_eqb e v = true.
  Proof.
    intros J H NR. unfold test_set in H. rewrite J in H. cbn [negb] in H. destruct (expr_eqb e v); inversion H; subst; [auto | contradiction].
  Qed.
  Lemma inst_leaf res m e : mem_eqb m tks = false -> (match e with EInt _ _ _ | EId _ _ _ _ => True | _ => False end) -> expr_eqb e m = true -> inst res m e.
  Proof. intros J L E. destruct m; simpl; simpl in J; rewrite J; destruct e; try contradiction; exact E. Qed.

  Lemma falsy_not_false r res : falsy r res = false -> r <> RFalse.
  Proof. destruct r; simpl; congruence. Qed.

  (** * Soundness *)
  Theorem match_sound : forall e m res r res', match_expr tks e m res = (r, res') -> r <> RFalse -> extends res res' /\ inst res' m e.
  Proof.
    induction e using expr_ind'; intros m res0 r0 res' HM NR;
      (destruct (mem_eqb m tks) eqn:J; [simpl in HM; rewrite J in HM; apply (test_set_joker _ _ _ _ _ J HM NR)|]).
    - simpl in HM. rewrite J in HM. destruct (test_set_leaf _ _ _ _ _ J HM NR) as [-> E]. split; [apply extends_refl | apply inst_leaf; [exact J | exact I | exact E]].
    - simpl in HM. rewrite J in HM. destruct (test_set_leaf _ _ _ _ _ J HM NR) as [-> E]. split; [apply extends_refl | apply inst_leaf; [exact J | exact I | exact E]].
    - (* EMem *)
      simpl in HM. rewrite J in HM. destruct m as [| |a' w' s'| | | | |]; try (inversion HM; subst; contradiction).
      destruct (negb (w =? w') || negb (opt_eqb expr_eqb s s')) eqn:C; [inversion HM; subst; contradiction|].
      apply orb_false_iff in C as [C1 C2]. apply negb_false_iff in C1, C2. apply Z.eqb_eq in C1.
      destruct (IHe _ _ _ _ HM NR) as [X Y]. split; [exact X|]. simpl. simpl in J. rewrite J. repeat split; assumption.
    - (* EOp *)
      simpl in HM. rewrite J in HM. destruct m as [| | |op' args'| | | |]; try (inversion HM; subst; contradiction).
      destruct (negb (op =? op')%string || negb (Nat.eqb (List.length args) (List.length args'))) eqn:C; [inversion HM; subst; contradiction|].
      apply orb_false_iff in C as [C1 C2]. apply negb_false_iff in C1, C2. apply String.eqb_eq in C1. subst op'. apply Nat.eqb_eq in C2.
      assert (G : forall l l' res1 r1 res2,
                 Forall (fun a => forall m res r res', match_expr tks a m res = (r, res') -> r <> RFalse -> extends res res' /\ inst res' m a) l ->
                 (fix go (l l' : list expr) (res : binds) {struct l} : mret * binds :=
                    match l, l' with
                    | a :: r, a' :: r' => let '(rr, res') := match_expr tks a a' res in match rr with RFalse => (RFalse, res') | _ => go r r' res' end
                    | _, _ => (RDict, res) end) l l' res1 = (r1, res2) -> r1 <> RFalse -> List.length l = List.length l' ->
                 extends res1 res2 /\
                 (fix go (l' l : list expr) : Prop := match l', l with [], [] => True | a' :: r', a :: r => inst res2 a' a /\ go r' r | _, _ => False end) l' l).
      { induction l as [|a l IHl]; intros [|a' l'] res1 r1 res2 F Hg N1 Ln; simpl in Ln; try discriminate.
        - inversion Hg; subst. split; [apply extends_refl | exact I].
        - inversion F as [|? ? Fa Fl]; subst. destruct (match_expr tks a a' res1) as [rr resa] eqn:Ea.
          assert (NRa : rr <> RFalse) by (intros ->; inversion Hg; subst; contradiction).
          destruct (Fa _ _ _ _ Ea NRa) as [Xa Ia].
          assert (Hg' : (fix go (l l' : list expr) (res : binds) {struct l} : mret * binds :=
                    match l, l' with
                    | a :: r, a' :: r' => let '(rr, res') := match_expr tks a a' res in match rr with RFalse => (RFalse, res') | _ => go r r' res' end
                    | _, _ => (RDict, res) end) l l' resa = (r1, res2)) by (destruct rr; [contradiction | exact Hg | exact Hg]).
          destruct (IHl l' resa r1 res2 Fl Hg' N1 ltac:(lia)) as [Xr Ir].
          split; [apply (extends_trans res1 resa res2); assumption|]. split; [apply (inst_extends resa res2 Xr); exact Ia | exact Ir]. }
      destruct (G args args' res0 r0 res' H HM NR C2) as [X Y]. split; [exact X|]. simpl. simpl in J. rewrite J. split; [reflexivity | exact Y].
    - (* ECond *)
      simpl in HM. rewrite J in HM. destruct m as [| | | |c' a' b'| | |]; try (inversion HM; subst; contradiction).
      destruct (match_expr tks e1 c' res0) as [r1 res1] eqn:E1. destruct (falsy r1 res1) eqn:F1; [inversion HM; subst; contradiction|].
      destruct (match_expr tks e2 a' res1) as [r2 res2] eqn:E2. destruct (falsy r2 res2) eqn:F2; [inversion HM; subst; contradiction|].
      destruct (match_expr tks e3 b' res2) as [r3 res3] eqn:E3. destruct (falsy r3 res3) eqn:F3; inversion HM; subst; [contradiction|].
      destruct (IHe1 _ _ _ _ E1 (falsy_not_false _ _ F1)) as [X1 I1]. destruct (IHe2 _ _ _ _ E2 (falsy_not_false _ _ F2)) as [X2 I2].
      destruct (IHe3 _ _ _ _ E3 (falsy_not_false _ _ F3)) as [X3 I3].
      split; [apply (extends_trans res0 res1 res'); [exact X1 | apply (extends_trans res1 res2 res'); assumption]|].
      simpl. simpl in J. rewrite J. split; [apply (inst_extends res1 res'); [apply (extends_trans res1 res2 res'); assumption | exact I1]|].
      split; [apply (inst_extends res2 res' X3); exact I2 | exact I3].
    - (* ESlice *)
      simpl in HM. rewrite J in HM. destruct m as [| | | | |e1' lo' hi'| |]; try (inversion HM; subst; contradiction).
      destruct (negb (lo =? lo') || negb (hi =? hi')) eqn:C; [inversion HM; subst; contradiction|].
      apply orb_false_iff in C as [C1 C2]. apply negb_false_iff in C1, C2. apply Z.eqb_eq in C1, C2.
      destruct (IHe _ _ _ _ HM NR) as [X Y]. split; [exact X|]. simpl. simpl in J. rewrite J. repeat split; assumption.
    - (* ECompose *)
      simpl in HM. rewrite J in HM. destruct m as [| | | | | |args'|]; try (inversion HM; subst; contradiction).
      match type of HM with (if ?c then _ else _) = _ => destruct c eqn:Ln; [inversion HM; subst; contradiction|] end.
      apply negb_false_iff, Nat.eqb_eq in Ln.
      assert (G : forall l l' res1 r1 res2,
                 Forall (fun s => forall m res r res', match_expr tks (slot_e s) m res = (r, res') -> r <> RFalse -> extends res res' /\ inst res' m (slot_e s)) l ->
                 (fix go (l l' : list slot) (res : binds) {struct l} : mret * binds :=
                    match l, l' with
                    | (a, lo, hi) :: r, (a', lo', hi') :: r' =>
                        if negb (lo =? lo') || negb (hi =? hi') then (RFalse, res) else
                        let '(rr, res') := match_expr tks a a' res in if falsy rr res' then (RFalse, res') else go r r' res'
                    | _, _ => (RDict, res) end) l l' res1 = (r1, res2) -> r1 <> RFalse -> List.length l = List.length l' ->
                 extends res1 res2 /\
                 (fix go (l' l : list slot) : Prop :=
                    match l', l with
                    | [], [] => True
                    | s' :: r', s0 :: r => slot_lo s0 = slot_lo s' /\ slot_hi s0 = slot_hi s' /\ inst res2 (slot_e s') (slot_e s0) /\ go r' r
                    | _, _ => False end) l' l).
      { induction l as [|[[a lo] hi] l IHl]; intros [|[[a' lo'] hi'] l'] res1 r1 res2 F Hg N1 Ln'; simpl in Ln'; try discriminate.
        - inversion Hg; subst. split; [apply extends_refl | exact I].
        - inversion F as [|? ? Fa Fl]; subst.
          destruct (negb (lo =? lo') || negb (hi =? hi')) eqn:C; [inversion Hg; subst; contradiction|].
          apply orb_false_iff in C as [C1 C2]. apply negb_false_iff in C1, C2. apply Z.eqb_eq in C1, C2.
          destruct (match_expr tks a a' res1) as [rr resa] eqn:Ea. destruct (falsy rr resa) eqn:Fy; [inversion Hg; subst; contradiction|].
          destruct (Fa _ _ _ _ Ea (falsy_not_false _ _ Fy)) as [Xa Ia].
          destruct (IHl l' resa r1 res2 Fl Hg N1 ltac:(lia)) as [Xr Ir].
          split; [apply (extends_trans res1 resa res2); assumption|].
          split; [exact C1|]. split; [exact C2|]. split; [apply (inst_extends resa res2 Xr); exact Ia | exact Ir]. }
      destruct (G args args' res0 r0 res' H HM NR Ln) as [X Y]. split; [exact X|]. simpl. simpl in J. rewrite J. exact Y.
    - simpl in HM. rewrite J in HM. inversion HM; subst. contradiction.
  Qed.
End Match.
