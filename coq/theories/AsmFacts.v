(** AsmFacts.v — reflection obligations over the assembler's reverse ModRM/SIB table regenerated from /repo (MxGen.AsmTables)
    against the decode tables regenerated from /repo (MxGen.X86Tables). *)
From Coq Require Import ZArith List Bool String.
From Mx Require Import X86Types Asm.
From MxGen Require Import X86Tables AsmTables.
Import ListNotations.
Lemma fd_afs_sound : rev_sound x86_tables fd_afs = true.
Proof. vm_compute. reflexivity. Qed.
Lemma fd_afs_complete : rev_complete x86_tables fd_afs = true.
Proof. vm_compute. reflexivity. Qed.

(** lifted forms *)
Lemma fd_afs_entry_sound : forall key has_txt l m s, In (key, has_txt, l) fd_afs -> In (m, s) l ->
  0 <= m < 256 /\ Z.land m 56 = 0 /\
  exists a, decode_ms x86_tables (key_table x86_tables key) m s = Some a /\ afs_key_eqb a key = true /\ (has_txt = true -> af_txt a = af_txt key).
Proof.
  intros key has_txt l m s Hrow Hin.
  pose proof fd_afs_sound as S. unfold rev_sound in S. rewrite forallb_forall in S. specialize (S _ Hrow).
  unfold row_sound in S. rewrite forallb_forall in S. specialize (S _ Hin). unfold entry_sound in S.
  apply andb_true_iff in S as [S D]. apply andb_true_iff in S as [S Sb]. apply andb_true_iff in S as [S M0]. apply andb_true_iff in S as [L U].
  destruct (decode_ms x86_tables (key_table x86_tables key) m s) as [a|]; [|discriminate].
  apply andb_true_iff in D as [K Tx].
  apply Z.leb_le in L. apply Z.ltb_lt in U. apply Z.eqb_eq in M0.
  split; [split; assumption|]. split; [assumption|]. exists a. split; [reflexivity|]. split; [assumption|].
  intros ->. apply String.eqb_eq. assumption.
Qed.
Lemma fd_afs_lists_every_modrm : forall m, In m modrm_bytes -> complete_at x86_tables fd_afs m = true.
Proof. intros m H. pose proof fd_afs_complete as C. unfold rev_complete in C. rewrite forallb_forall in C. apply C. assumption. Qed.
