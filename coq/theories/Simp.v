(** Simp.v — executable model of miasmx/expression/expression_helper.py (expr_simp, _expr_simp_w,
    _expr_simp, merge_sliceto_slice).  Hand transcription (tie H); no proofs in this file.
    The per-object [simp] memo flag is not part of this model (it is the subject of C12). *)
From Coq Require Import ZArith List Bool String.
From Mx Require Import ModInt Expr.
Import ListNotations.
Open Scope string_scope.
Open Scope Z_scope.

Inductive perr := EValueError | EKeyError | ETypeError | EIndexError.
Inductive res (A : Type) := Ok (a : A) | Err (e : perr) | OutOfFuel.
Arguments Ok {A} _. Arguments Err {A} _. Arguments OutOfFuel {A}.
Definition bind {A B} (x : res A) (f : A -> res B) : res B :=
  match x with Ok a => f a | Err e => Err e | OutOfFuel => OutOfFuel end.
Notation "'do' x <- a ; b" := (bind a (fun x => b)) (at level 200, x name, a at level 100, b at level 200).

Section MapM.
  Context {A B : Type}.
  Variable f : A -> res B.     (* a section variable, not a fix argument: lets the guard checker see through nested uses *)
  Fixpoint mapM (l : list A) : res (list B) :=
    match l with
    | [] => Ok []
    | a :: r => do b <- f a; do r' <- mapM r; Ok (b :: r')
    end.
End MapM.

(** tab_size_int[n](v): KeyError unless n in {1,8,16,32,64} *)
Definition std_width (w : Z) : bool := (w =? 1) || (w =? 8) || (w =? 16) || (w =? 32) || (w =? 64).
Definition mk_int (w v : Z) : res expr := if std_width w then Ok (EInt false w (wrap w v)) else Err EKeyError.

Definition cls_of (sg : bool) (w : Z) : cls := Cls sg w.

(** int OP int with the modint operators (result class by maxcast, then re-cast to uintN) *)
Definition fold2 (op : string) (sg1 : bool) (w1 v1 : Z) (sg2 : bool) (w2 v2 : Z) : res expr :=
  (* i1 = (sg1,w1,v1) was popped first (last operand), i2 second *)
  if negb (w1 =? w2) then Err EValueError else
  let r := match opk_of op with
           | OAdd => binop_apply Add (cls_of sg1 w1) v1 (MI (cls_of sg2 w2) v2)
           | OMul => binop_apply Mul (cls_of sg1 w1) v1 (MI (cls_of sg2 w2) v2)
           | OXor => binop_apply Xor (cls_of sg1 w1) v1 (MI (cls_of sg2 w2) v2)
           | OAnd => binop_apply And (cls_of sg1 w1) v1 (MI (cls_of sg2 w2) v2)
           | OOr => binop_apply Or (cls_of sg1 w1) v1 (MI (cls_of sg2 w2) v2)
           | OShr => binop_apply Shr (cls_of sg2 w2) v2 (MI (cls_of sg1 w1) v1)
           | OShl => binop_apply Shl (cls_of sg2 w2) v2 (MI (cls_of sg1 w1) v1)
           | _ => RErr EValue
           end in
  match r with
  | RMI _ v => mk_int w1 v
  | _ => Err EValueError
  end.

(** the constant-folding loop on the END of the operand list (kept reversed for convenience) *)
Fixpoint fold_consts (op : string) (fuel : nat) (rev_args : list expr) : res (list expr) :=
  match fuel with
  | O => Ok rev_args
  | S f =>
      match rev_args with
      | EInt sg1 w1 v1 :: EInt sg2 w2 v2 :: rest =>
          do o <- fold2 op sg1 w1 v1 sg2 w2 v2; fold_consts op f (o :: rest)
      | _ => Ok rev_args
      end
  end.

Definition neg (e : expr) : expr := EOp "-" [e].
Definition is_neg_of (x a : expr) : bool :=       (* x is ExprOp('-', y) with a == y *)
  match x with
  | EOp op [y] => (op =? "-")%string && expr_eqb a y
  | _ => false
  end.

(** the i/j double loop removing duplicates / cancelling pairs *)
Inductive dedup_act := DKeep | DDel | DZeroDel.
Definition dedup_rule (op : string) (ai aj : expr) : dedup_act :=
  match opk_of op with
  | OXor => if expr_eqb ai aj then DZeroDel else DKeep
  | OAdd => if is_neg_of aj ai then DZeroDel else if is_neg_of ai aj then DZeroDel else DKeep
  | OOr | OAnd => if expr_eqb ai aj then DDel else DKeep
  | _ => DKeep
  end.
Fixpoint dedup_inner (op : string) (ai : expr) (rest : list expr) : res (expr * list expr) :=
  match rest with
  | [] => Ok (ai, [])
  | x :: r =>
      match dedup_rule op ai x with
      | DKeep => do p <- dedup_inner op ai r; Ok (fst p, x :: snd p)
      | DDel => dedup_inner op ai r
      | DZeroDel => do z <- mk_int (size ai) 0; dedup_inner op z r
      end
  end.
Fixpoint dedup_outer (op : string) (fuel : nat) (args : list expr) : res (list expr) :=
  match fuel with
  | O => Ok args
  | S f =>
      match args with
      | [] => Ok []
      | [a] => Ok [a]
      | a :: rest => do p <- dedup_inner op a rest; do r' <- dedup_outer op f (snd p); Ok (fst p :: r')
      end
  end.

Definition is_int_val (e : expr) (z : Z) : bool := match e with EInt _ _ v => v =? z | _ => false end.
Definition is_int (e : expr) : bool := match e with EInt _ _ _ => true | _ => false end.
Definition is_rot (op : string) : bool := match opk_of op with ORol | ORor => true | _ => false end.
Definition last_opt {A} (l : list A) : option A := match rev l with x :: _ => Some x | [] => None end.

Definition flatten (op : string) (args : list expr) : list expr :=
  flat_map (fun a => match a with
                     | EOp op' xs => if is_assoc op && (op =? op')%string then xs else [a]
                     | _ => [a] end) args.

(** parity(a) of expression_helper: 1 xor the bits of the low byte *)
Definition parity_val (v : Z) : Z := parity8 v.

Definition simp_op (op : string) (eargs : list expr) : res expr :=
  let args := flatten op eargs in
  let args := if is_assoc op then canonize_expr_list args else args in
  do args <- (match opk_of op with
              | OAdd | OMul | OXor | OAnd | OOr | OShr | OShl =>
                  do r <- fold_consts op (List.length args) (rev args); Ok (rev r)
              | _ => Ok args end);
  let k := opk_of op in
  (* --(A) => A ;  -(int) => -int *)
  match k, args with
  | OSub, [EOp op' [x]] => if (op' =? "-")%string then Ok x else
        (* - (A + B + ...) => -A + -B ... *)
        if (op' =? "+")%string then Ok (EOp "+" [neg x]) else Ok (EOp op args)
  | OSub, [EInt sg w v] => Ok (EInt sg w (norm (cls_of sg w) (- v)))
  | _, _ =>
  (* A op 0 => A *)
  let zero_drop := match k with OAdd | OSub | OOr | OXor | OShl | OShr | ORol | ORor => true | _ => false end in
  let args1 := if zero_drop && (1 <? Z.of_nat (List.length args)) &&
                  match last_opt args with Some l => is_int_val l 0 | None => false end
               then removelast args else args in
  let dropped := negb (Nat.eqb (List.length args1) (List.length args)) in
  match k, args1 with
  | OSub, [a] => if dropped then Ok a else
        match a with
        | EOp op' xs => if (op' =? "+")%string then Ok (EOp "+" (map neg xs)) else Ok (EOp op args1)
        | _ => Ok (EOp op args1)
        end
  | OSub, [a; b] => Ok (EOp "+" [a; neg b])
  | OSub, _ :: _ :: _ :: _ => Err EValueError
  | (OAdd | OMul | OXor | OAnd | OOr | OShr | OShl | ORol | ORor), [a] => Ok a
  | _, _ =>
  do args2 <- dedup_outer op (List.length args1) args1;
  (* rotations *)
  match k, args2 with
  | (ORol | ORor), a0 :: a1 :: rest =>
      if is_int a1 && is_int_val a1 (size a0) then Ok a0 else
      match a0 with
      | EOp op2 (x :: c :: _) =>
          if is_rot op2 then
            if (op =? op2)%string then Ok (EOp op [x; EOp "+" [c; a1]])
            else Ok (EOp op2 [x; EOp "+" [c; neg a1]])
          else Ok (EOp op args2)
      | EOp op2 _ => if is_rot op2 then Err EIndexError else Ok (EOp op args2)
      | _ => Ok (EOp op args2)
      end
  | (ORol | ORor), _ => Err EIndexError
  | OShr, a0 :: EInt sgc wc vc :: rest =>
      match a0 with
      | EOp op2 ys =>
          if (op2 =? "&")%string then
            match ys with
            | _ :: EInt sgm wm vm :: _ =>
                if vm <? 2 ^ vc then mk_int (size a0) 0 else Ok (EOp op args2)
            | _ :: _ :: _ => Ok (EOp op args2)
            | _ => Err EIndexError
            end
          else Ok (EOp op args2)
      | _ => Ok (EOp op args2)
      end
  | OShr, [_] => Err EIndexError
  | OEq, a0 :: a1 :: rest =>
      match a0, a1 with
      | EInt _ _ v0, EInt _ _ v1 => mk_int (size a0) (if v0 =? v1 then 1 else 0)
      | _, EInt _ _ v1 =>
          if v1 =? 0 then
            match a0 with
            | EOp op2 ys =>
                if (op2 =? "|")%string then
                  match ys with
                  | _ :: EInt _ _ vm :: _ => if negb (vm =? 0) then mk_int (size a0) 0 else Ok (EOp op args2)
                  | _ :: _ :: _ => Ok (EOp op args2)
                  | _ => Err EIndexError
                  end
                else Ok (EOp op args2)
            | _ => Ok (EOp op args2)
            end
          else Ok (EOp op args2)
      | _, _ => Ok (EOp op args2)
      end
  | OEq, _ => Err EIndexError
  | OParity, EInt _ _ v :: _ => mk_int (size (EOp op args2)) (parity_val v)
  | OParity, [] => Err EIndexError
  | _, _ => Ok (EOp op args2)
  end
  end
  end.

(** Expr.__getitem__(slice(a, b)): slice.indices clips to [0, size] *)
Definition clip (x n : Z) : Z := if x <? 0 then Z.max 0 (x + n) else Z.min x n.
Definition getitem (e : expr) (a b : Z) : expr := let n := size e in ESlice e (clip a n) (clip b n).

Definition simp_slice (e : expr) (a : expr) (lo hi : Z) : res expr :=
  if (lo =? 0) && (hi =? size a) then Ok a else
  match a with
  | EInt sg w v =>
      let total := hi - lo in
      if std_width total then
        (* uint64(arg >> start) & mask, cast to uintN *)
        Ok (EInt false total (wrap total (Z.land (wrap 64 (Z.shiftr v lo)) (wrap 64 (2 ^ total - 1)))))
      else Ok e
  | ESlice a2 lo2 hi2 =>
      if hi - lo >? hi2 - lo2 then Err EValueError
      else Ok (ESlice a2 (lo + lo2) (lo + lo2 + (hi - lo)))
  | ECompose slots =>
      match find (fun s => (slot_lo s <=? lo) && (slot_hi s >=? hi)) slots with
      | Some s => Ok (getitem (slot_e s) (lo - slot_lo s) (hi - slot_lo s))
      | None => Ok e
      end
  | EMem addr w _ =>
      if (lo =? 0) && (w >? hi) && (hi mod 8 =? 0) then Ok (EMem addr hi None) else Ok e
  | _ => Ok e
  end.

(** ** merge_sliceto_slice *)
(* dict keyed by ints: insertion order, overwrite keeps position *)
Fixpoint zdict_set {A} (d : list (Z * A)) (k : Z) (v : A) : list (Z * A) :=
  match d with
  | [] => [(k, v)]
  | (k', v') :: r => if k' =? k then (k', v) :: r else (k', v') :: zdict_set r k v
  end.
(* dict keyed by expressions (== on keys) holding lists *)
Fixpoint edict_append (d : list (expr * list slot)) (k : expr) (v : slot) : list (expr * list slot) :=
  match d with
  | [] => [(k, [v])]
  | (k', vs) :: r => if expr_eqb k' k then (k', vs ++ [v])%list :: r else (k', vs) :: edict_append r k v
  end.

(* list.sort() of (start, item) pairs: a tie on start would compare the items -> TypeError *)
Fixpoint insert_start {A} (x : Z * A) (l : list (Z * A)) : res (list (Z * A)) :=
  match l with
  | [] => Ok [x]
  | y :: r => if fst x <? fst y then Ok (x :: l)
              else if fst x =? fst y then Err ETypeError
              else do r' <- insert_start x r; Ok (y :: r')
  end.
Fixpoint sort_start {A} (l : list (Z * A)) : res (list (Z * A)) :=
  match l with
  | [] => Ok []
  | x :: r => do r' <- sort_start r; insert_start x r'
  end.

(* integers: [desc] is the list sorted by DESCENDING start (we pop from the end of the ascending list) *)
Fixpoint merge_ints_run (cur_v cur_lo cur_hi : Z) (desc : list (Z * Z * Z)) (fuel : nat)
  : (Z * Z * Z) * list (Z * Z * Z) :=
  match fuel with
  | O => ((cur_v, cur_lo, cur_hi), desc)
  | S f =>
      match desc with
      | (v, lo, hi) :: r =>
          if hi =? cur_lo
          then merge_ints_run (wrap 64 (Z.shiftl cur_v (cur_lo - lo) + v)) lo cur_hi r f
          else ((cur_v, cur_lo, cur_hi), desc)
      | [] => ((cur_v, cur_lo, cur_hi), desc)
      end
  end.
Fixpoint merge_ints (max_size : Z) (desc : list (Z * Z * Z)) (fuel : nat) : res (list (Z * slot)) :=
  match fuel with
  | O => Ok []
  | S f =>
      match desc with
      | [] => Ok []
      | (v, lo, hi) :: r =>
          let '((v', lo', hi'), rest) := merge_ints_run v lo hi r (List.length r) in
          do i <- mk_int max_size v';
          do tl <- merge_ints max_size rest f;
          Ok ((lo', (i, lo', hi')) :: tl)
      end
  end.

(* slices of one source: items are (own source, slice_lo, slice_hi, slot_lo, slot_hi), descending slot_lo *)
Fixpoint merge_slices_run (cs_lo cs_hi c_lo c_hi : Z) (desc : list (Z * Z * Z * Z)) (fuel : nat)
  : (Z * Z * Z * Z) * list (Z * Z * Z * Z) :=
  match fuel with
  | O => ((cs_lo, cs_hi, c_lo, c_hi), desc)
  | S f =>
      match desc with
      | (s_lo, s_hi, lo, hi) :: r =>
          if (hi =? c_lo) && (s_hi =? cs_lo)
          then merge_slices_run s_lo cs_hi lo c_hi r f
          else ((cs_lo, cs_hi, c_lo, c_hi), desc)
      | [] => ((cs_lo, cs_hi, c_lo, c_hi), desc)
      end
  end.
Fixpoint merge_slices (desc : list (expr * (Z * Z * Z * Z))) (fuel : nat) : list (Z * slot) :=
  match fuel with
  | O => []
  | S f =>
      match desc with
      | [] => []
      | (src, (s_lo, s_hi, lo, hi)) :: r =>
          let '((a, b, lo', hi'), rest) := merge_slices_run s_lo s_hi lo hi (map snd r) (List.length r) in
          (lo', (ESlice src a b, lo', hi')) :: merge_slices (skipn (List.length r - List.length rest) r) f
      end
  end.

Definition merge_sliceto_slice (args : list slot) : res (list slot) :=
  (* classification *)
  let '(sources, non_slice, sources_int) :=
    fold_left (fun '(sources, non_slice, sources_int) (a : slot) =>
      match slot_e a with
      | EInt sg w v => (sources, non_slice, zdict_set sources_int (slot_lo a) (sg, w, v, slot_lo a, slot_hi a))
      | ESlice src s_lo s_hi => (edict_append sources src a, non_slice, sources_int)
      | _ => (sources, zdict_set non_slice (slot_lo a) a, sources_int)
      end) args ([], [], []) in
  let max_size := fold_left (fun m a => Z.max m (slot_hi a)) args 0 in
  (* integers: mask each to its slot, sort by start, merge adjacent runs from the top *)
  let ints := map (fun '(_, (sg, w, v, lo, hi)) =>
                     (lo, (match binop_apply And (cls_of sg w) v (PY (2 ^ (hi - lo) - 1)) with RMI _ v' => v' | _ => v end, lo, hi)))
                  sources_int in
  do sorted_i <- sort_start ints;
  do fin_ints <- merge_ints max_size (rev (map snd sorted_i)) (List.length sorted_i);
  (* slices, per source in insertion order *)
  do simp_sources <-
    (fix go (l : list (expr * list slot)) : res (list (Z * slot)) :=
       match l with
       | [] => Ok []
       | (src, sl) :: r =>
           do sorted_s <- sort_start (map (fun a => (slot_lo a, a)) sl);
           let items := map (fun '(_, a) => match slot_e a with
                                            | ESlice own s_lo s_hi => (own, (s_lo, s_hi, slot_lo a, slot_hi a))
                                            | _ => (src, (0, 0, slot_lo a, slot_hi a)) end) sorted_s in
           let merged := merge_slices (rev items) (List.length items) in
           do tl <- go r; Ok (merged ++ tl)%list
       end) sources;
  let all := (simp_sources ++ fin_ints ++ map (fun '(i, v) => (i, v)) non_slice)%list in
  do sorted <- sort_start all;
  Ok (map snd sorted).

Definition simp_compose (e : expr) (args : list slot) : res expr :=
  do m <- merge_sliceto_slice args;
  match m with
  | [s] => if (slot_lo s =? 0) && (slot_hi s =? size e) then Ok (slot_e s) else Ok (ECompose m)
  | _ => Ok (ECompose m)
  end.

Definition simp_cond (e c a b : expr) : expr :=
  match c with
  | EOp op [x] => if (op =? "-")%string then ECond x a b else e
  | EInt _ _ v => if v =? 0 then b else a
  | _ => e
  end.

(** _expr_simp *)
Definition simp1 (e : expr) : res expr :=
  match e with
  | EOp op args => simp_op op args
  | ESlice a lo hi => simp_slice e a lo hi
  | ECompose args => simp_compose e args
  | ECond c a b => Ok (simp_cond e c a b)
  | _ => Ok e
  end.

(** monadic visit *)
Section VisitM.
  Variable cb : expr -> res expr.
  Fixpoint visitM (e : expr) : res expr :=
    match e with
    | EInt _ _ _ | EId _ _ _ _ => cb e
    | EAff d s =>
        do d' <- visitM d; do s' <- visitM s;
        cb (if expr_eqb d' d && expr_eqb s' s then e else EAff d' s')
    | ECond c a b =>
        do c' <- visitM c; do a' <- visitM a; do b' <- visitM b;
        cb (if expr_eqb c' c && expr_eqb a' a && expr_eqb b' b then e else ECond c' a' b')
    | EMem a w s =>
        do s' <- (match s with Some u => do u' <- visitM u; Ok (Some u') | None => Ok None end);
        do a' <- visitM a;
        cb (if opt_eqb expr_eqb s' s && expr_eqb a' a then e else EMem a' w s')
    | EOp op args =>
        do args' <- mapM visitM args;
        cb (if all2 expr_eqb args args' then e else EOp op args')
    | ESlice e1 lo hi =>
        do e1' <- visitM e1;
        cb (if expr_eqb e1' e1 then e else ESlice e1' lo hi)
    | ECompose args =>
        do args' <- mapM (fun s => do x <- visitM (slot_e s); Ok (x, slot_lo s, slot_hi s)) args;
        cb (if all2 (fun s s' => expr_eqb (slot_e s) (slot_e s') && (slot_lo s =? slot_lo s') && (slot_hi s =? slot_hi s')) args args'
            then e else ECompose args')
    end.
End VisitM.

(** expr_simp / _expr_simp_w with explicit fuel (nesting depth of expr_simp calls and loop iterations) *)
Section Loop.
  Variable rec_simp : expr -> res expr.       (* expr_simp at the next lower nesting level *)
  Fixpoint simp_loop (n : nat) (e : expr) {struct n} : res expr :=
    match n with
    | O => OutOfFuel
    | S n' =>
        do e' <- simp1 e;
        if expr_eqb e' e then Ok e else (do e2 <- rec_simp e'; simp_loop n' e2)
    end.
End Loop.

Fixpoint simp (fuel : nat) : expr -> res expr :=
  match fuel with
  | O => fun _ => OutOfFuel
  | S f => visitM (simp_loop (simp f) (S f))
  end.
