(** SemRcProofs.v — rcl / rcr: the value and the new carry the lifter writes (the named operators <<<c_rez, <<<c_cf, >>>c_rez, >>>c_cf, read
    by Expr.rc_op) are the upper n bits and the low bit of the (n+1)-bit ring  operand : cf  (operand in bits 1..n, carry in bit 0)
    rotated by (count & 31) — the processor's rotate-through-carry — stated bit by bit for all operands and states. *)
From Coq Require Import ZArith List Bool String Lia.
From Mx Require Import Expr ExprProofs Sem SemProofs SemShift SemShiftFlags SemDShiftProofs RotLemmas.
Import ListNotations.
Open Scope Z_scope.

Definition ring (w a f : Z) : Z := Z.lor (Z.shiftl (wrap w a) 1) (wrap 1 f).
Lemma rc_ring_left w a c f : rc_ring true w a c f = rol (w + 1) (ring w a f) (Z.land c 31).
Proof. reflexivity. Qed.
Lemma rc_ring_right w a c f : rc_ring false w a c f = ror (w + 1) (ring w a f) (Z.land c 31).
Proof. reflexivity. Qed.
Lemma ring_range w a f : 0 < w -> 0 <= ring w a f < 2 ^ (w + 1).
Proof.
  intros Hw. unfold ring. assert (R1 : 0 <= wrap w a < 2 ^ w) by (apply Z.mod_pos_bound; apply Z.pow_pos_nonneg; lia).
  assert (R2 : 0 <= wrap 1 f < 2) by (apply (Z.mod_pos_bound f (2 ^ 1)); reflexivity).
  assert (P : 2 ^ (w + 1) = 2 * 2 ^ w) by (rewrite Z.pow_add_r by lia; change (2 ^ 1) with 2; lia).
  apply lor_lt_pow2; [lia | rewrite Z.shiftl_mul_pow2 by lia; change (2 ^ 1) with 2; lia | lia].
Qed.
(** bit 0 of the ring is the carry, bit i + 1 is bit i of the operand *)
Lemma ring_bit0 w a f : Z.testbit (ring w a f) 0 = Z.odd f.
Proof.
  unfold ring. rewrite Z.lor_spec. rewrite Z.shiftl_spec_low by lia. cbn [orb]. unfold wrap. change (2 ^ 1) with 2. rewrite <- Z.bit0_odd.
  rewrite Z.mod_pow2_bits_low with (n := 1) by lia. reflexivity.
Qed.
Lemma ring_bit_succ w a f i : 0 <= i -> Z.testbit (ring w a f) (i + 1) = Z.testbit (wrap w a) i.
Proof.
  intros Hi. unfold ring. rewrite Z.lor_spec. rewrite Z.shiftl_spec by lia. replace (i + 1 - 1) with i by lia.
  replace (Z.testbit (wrap 1 f) (i + 1)) with false; [apply orb_false_r|]. symmetry. unfold wrap. apply Z.mod_pow2_bits_high. lia.
Qed.

Section Meaning.
  Variable rho : string -> Z.
  Variable mu : Z -> Z.
  Variable iota : string -> list Z -> Z.
  Notation ev := (eval rho mu iota).
  Variables a b : expr.
  Hypothesis Oa : operand_ok a = true.
  Let n := size a.
  Let Pa := proj1 (operand_range rho mu iota a Oa).
  Definition rc_count : Z := Z.land (ev b) 31.
  Definition the_ring : Z := ring n (ev a) (ev cf).

  Lemma size_op3 op p q r : size p <> 0 -> size (EOp op [p; q; r]) = size p.
  Proof. intros H. cbn [size]. destruct (size p =? 0) eqn:E; [apply Z.eqb_eq in E; contradiction | reflexivity]. Qed.
  Lemma ev_rc op v : opk_of op = OOther -> rc_op op n [ev a; ev b; ev cf] = Some v -> ev (EOp op [a; b; cf]) = wrap n v.
  Proof. intros K R. fold n in Pa. rewrite eval_op_node, size_op3 by (fold n; lia). cbn [map]. unfold eval_op. rewrite K. fold n. rewrite R. reflexivity. Qed.

  (** rcl *)
  Theorem rcl_bits : let R := rol (n + 1) the_ring rc_count in
    ev (EOp "<<<c_cf" [a; b; cf]) = Z.b2z (Z.testbit R 0) /\
    (forall i, 0 <= i < n -> Z.testbit (ev (EOp "<<<c_rez" [a; b; cf])) i = Z.testbit R (i + 1)) /\
    (forall j, 0 <= j < n + 1 -> Z.testbit R j = Z.testbit the_ring ((j - rc_count) mod (n + 1))).
  Proof.
    intros R. fold n in Pa. pose proof (ring_range n (ev a) (ev cf) Pa) as Rr. fold the_ring in Rr.
    assert (RR : 0 <= R < 2 ^ (n + 1)) by (apply rol_range; lia).
    split; [|split].
    - rewrite (ev_rc "<<<c_cf" (Z.land (rc_ring true n (ev a) (ev b) (ev cf)) 1) eq_refl eq_refl). rewrite rc_ring_left. fold the_ring rc_count R.
      change 1 with (Z.ones 1) at 1. rewrite Z.land_ones by lia. change (2 ^ 1) with 2. rewrite <- Z.bit0_mod. apply Z.mod_small.
      assert (1 < 2 ^ n) by (change 1 with (2 ^ 0); apply Z.pow_lt_mono_r; lia). destruct (Z.testbit R 0); cbn; lia.
    - intros i Hi. rewrite (ev_rc "<<<c_rez" (Z.shiftr (rc_ring true n (ev a) (ev b) (ev cf)) 1) eq_refl eq_refl). rewrite rc_ring_left. fold the_ring rc_count R.
      unfold wrap. rewrite Z.mod_pow2_bits_low by lia. rewrite Z.shiftr_spec by lia. reflexivity.
    - intros j Hj. apply rol_bits; lia.
  Qed.
  (** rcr *)
  Theorem rcr_bits : let R := ror (n + 1) the_ring rc_count in
    ev (EOp ">>>c_cf" [a; b; cf]) = Z.b2z (Z.testbit R 0) /\
    (forall i, 0 <= i < n -> Z.testbit (ev (EOp ">>>c_rez" [a; b; cf])) i = Z.testbit R (i + 1)) /\
    (forall j, 0 <= j < n + 1 -> Z.testbit R j = Z.testbit the_ring ((j + rc_count) mod (n + 1))).
  Proof.
    intros R. fold n in Pa. pose proof (ring_range n (ev a) (ev cf) Pa) as Rr. fold the_ring in Rr.
    assert (RR : 0 <= R < 2 ^ (n + 1)) by (apply ror_range; lia).
    split; [|split].
    - rewrite (ev_rc ">>>c_cf" (Z.land (rc_ring false n (ev a) (ev b) (ev cf)) 1) eq_refl eq_refl). rewrite rc_ring_right. fold the_ring rc_count R.
      change 1 with (Z.ones 1) at 1. rewrite Z.land_ones by lia. change (2 ^ 1) with 2. rewrite <- Z.bit0_mod. apply Z.mod_small.
      assert (1 < 2 ^ n) by (change 1 with (2 ^ 0); apply Z.pow_lt_mono_r; lia). destruct (Z.testbit R 0); cbn; lia.
    - intros i Hi. rewrite (ev_rc ">>>c_rez" (Z.shiftr (rc_ring false n (ev a) (ev b) (ev cf)) 1) eq_refl eq_refl). rewrite rc_ring_right. fold the_ring rc_count R.
      unfold wrap. rewrite Z.mod_pow2_bits_low by lia. rewrite Z.shiftr_spec by lia. reflexivity.
    - intros j Hj. apply ror_bits; lia.
  Qed.
  (** and the ring itself: bit 0 is the carry flag, bit i + 1 is bit i of the operand *)
  Theorem ring_layout : Z.testbit the_ring 0 = Z.odd (rho "cf") /\ forall i, 0 <= i < n -> Z.testbit the_ring (i + 1) = Z.testbit (ev a) i.
  Proof.
    split.
    - unfold the_ring. rewrite ring_bit0. unfold cf, flag. cbn [eval]. unfold wrap. change (2 ^ 1) with 2. rewrite <- Z.bit0_odd, <- Z.bit0_odd.
      rewrite Z.mod_pow2_bits_low with (n := 1) by lia. reflexivity.
    - intros i Hi. unfold the_ring. rewrite ring_bit_succ by lia. unfold wrap. apply Z.mod_pow2_bits_low. lia.
  Qed.
End Meaning.
