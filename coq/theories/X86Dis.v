(** X86Dis.v — executable model of x86_mn._dis / x86allmncs.get_afs / special_opcodes
    (miasmx/arch/ia32_arch.py), interpreting the tables dumped into MxGen.X86Tables (tie D + H).
    No proofs in this file. *)
From Coq Require Import ZArith List Bool String Ascii.
From Mx Require Import X86Types.
Import ListNotations.
Open Scope string_scope.
Open Scope Z_scope.

Inductive dres (A : Type) := DOk (a : A) | DNone | DCrash (k : crash).
Arguments DOk {A} _. Arguments DNone {A}. Arguments DCrash {A} _.
Definition dbind {A B} (x : dres A) (f : A -> dres B) : dres B :=
  match x with DOk a => f a | DNone => DNone | DCrash k => DCrash k end.
Notation "'dod' x <- a ; b" := (dbind a (fun x => b)) (at level 200, x name, a at level 100, b at level 200).
Notation "'dod' ' p <- a ; b" := (dbind a (fun p => b)) (at level 200, p pattern, a at level 100, b at level 200).

Definition nthZ {A} (l : list A) (i : Z) : option A := nth_error l (Z.to_nat i).
Definition memZ (x : Z) (l : list Z) : bool := existsb (Z.eqb x) l.

(** substring test (Python's  s in name) *)
Fixpoint prefixb (p s : string) : bool :=
  match p, s with
  | EmptyString, _ => true
  | String a p', String b s' => Ascii.eqb a b && prefixb p' s'
  | _, EmptyString => false
  end.
Fixpoint contains (p s : string) : bool :=
  prefixb p s || match s with EmptyString => false | String _ s' => contains p s' end.
Definition name_in (n : string) (l : list string) : bool := existsb (String.eqb n) l.
Fixpoint last_char (s : string) : option ascii :=
  match s with EmptyString => None | String c EmptyString => Some c | String _ r => last_char r end.

(** modifiers (tri-state: 0 None, 1 True, 2 False, 3 'fp80') *)
Definition modif (m : mnem) (i : nat) : Z := nth i (mn_mods m) 0.
Definition m_w8 m := modif m 0. Definition m_se m := modif m 1. Definition m_sw m := modif m 2.
Definition m_sg m := modif m 4. Definition m_dr m := modif m 5. Definition m_cr m := modif m 6.
Definition m_sd m := modif m 9. Definition m_wd m := modif m 10. Definition m_bkf m := modif m 11.
Definition m_spf m := modif m 12. Definition m_dtf m := modif m 13. Definition m_mmx m := modif m 14.
Definition truthy (v : Z) : bool := (v =? 1) || (v =? 3).

(** stream reads: IOError (-> dis returns None) when the bytes run out *)
Definition read1 (bs : list Z) : dres (Z * list Z) := match bs with b :: r => DOk (b, r) | [] => DNone end.
Fixpoint readn (n : nat) (bs : list Z) : dres (list Z * list Z) :=
  match n with
  | O => DOk ([], bs)
  | S k => dod '(b, r) <- read1 bs; dod '(l, r') <- readn k r; DOk (b :: l, r')
  end.
Fixpoint le_val (l : list Z) : Z := match l with [] => 0 | b :: r => b + 256 * le_val r end.
Definition sext (bits v : Z) : Z := if v >=? 2 ^ (bits - 1) then v - 2 ^ bits else v.
Definition wrapn (bits v : Z) : Z := v mod 2 ^ bits.

(** get_afs(bin, m, size_m) *)
Definition afs_to_arg (a : afs) (imm : option (Z * Z)) : arg :=
  mkarg (Some (if af_ad a then AdT else AdF)) None (af_regs a) imm None (af_txt a).

Definition get_afs (T : tables) (bs : list Z) (mb : Z) (size_m : mode) : dres (Z * arg * list Z) :=
  let tab := match size_m with
             | Mu16 => Some (t_db_afs_16 T, 16) | Mu32 => Some (t_db_afs T, 32) | Mmm => Some (t_db_afs_mm T, 32)
             | Mxmm => Some (t_db_afs_xmm T, 32) | Mf64 => Some (t_db_afs T, 32) | _ => None end in
  match tab with
  | None => DCrash CUnbound
  | Some (db, ubits) =>
      let re := Z.land (Z.shiftr mb 3) 7 in
      dod '(a, bs1) <- match nthZ db mb with
                       | Some (MAfs a) => DOk (a, bs)
                       | Some (MSib k) =>
                           dod '(sb, r) <- read1 bs;
                           match nthZ (t_sib T) k with
                           | Some st => match nthZ st sb with Some a => DOk (a, r) | None => DCrash CIndex end
                           | None => DCrash CIndex end
                       | None => DCrash CIndex end;
      match af_imm a with
      | None => DOk (re, afs_to_arg a None, bs1)
      | Some 0 => dod '(l, r) <- readn 1 bs1; DOk (re, afs_to_arg a (Some (ubits, wrapn ubits (le_val l))), r)
      | Some 1 => dod '(l, r) <- readn 1 bs1; DOk (re, afs_to_arg a (Some (ubits, wrapn ubits (sext 8 (le_val l)))), r)
      | Some 4 => dod '(l, r) <- readn 4 bs1; DOk (re, afs_to_arg a (Some (ubits, wrapn ubits (le_val l))), r)
      | Some 2 => dod '(l, r) <- readn 2 bs1; DOk (re, afs_to_arg a (Some (ubits, wrapn ubits (le_val l))), r)
      | Some _ => DCrash CValue
      end
  end.

Definition get_afs_re (re : Z) : arg := mkarg (Some AdF) None [(re, 1)] None None "".
Definition set_size (a : arg) (s : mode) : arg := mkarg (a_ad a) (Some s) (a_regs a) (a_imm a) (a_segm a) (a_txt a).
Definition set_ad (a : arg) (k : adk) : arg := mkarg (Some k) (a_size a) (a_regs a) (a_imm a) (a_segm a) (a_txt a).
Definition set_segm (a : arg) (s : Z) : arg := mkarg (a_ad a) (a_size a) (a_regs a) (a_imm a) (Some s) (a_txt a).
Definition imm_arg (w v : Z) : arg := mkarg None None [] (Some (w, v)) None "".

(** intsize(im, ext) *)
Definition intsize (m : mnem) (opmode : mode) (v : Z) (ext : bool) : dres (Z * Z) :=
  if ext then DOk (if mode_eqb opmode Mu32 then (32, wrapn 32 v) else (16, wrapn 16 v)) else
  if truthy (m_w8 m) then DOk (8, wrapn 8 v) else
  match opmode with
  | Mu32 => DOk (32, wrapn 32 v)
  | Mu16 => DOk (16, wrapn 16 v)
  | _ => DCrash CValue
  end.

(** walking the opcode trie, prefixes first *)
Fixpoint retry_walk (fuel : nat) (l : list trie) (pending : list Z) (bs : list Z) (lastc : Z)
  : dres (option Z * Z * list Z) :=
  (* pending: bytes already read, oldest first *)
  match fuel with
  | O => DCrash CNever
  | S f =>
      match pending with
      | [] => DOk (None, lastc, bs)
      | c :: rest =>
          match nthZ l c with
          | Some TNone | None => DOk (None, c, bs)
          | Some (TM m) => DOk (Some m, c, bs)
          | Some (TN ch) =>
              match rest with
              | [] => dod '(b, r) <- read1 bs; retry_walk f ch [b] r c
              | _ => retry_walk f ch rest bs c
              end
          end
      end
  end.

Fixpoint walk (T : tables) (fuel : nat) (l : list trie) (prefix_done : bool) (read_prefix read_bytes : list Z) (bs : list Z)
  : dres (option Z * Z * list Z * list Z) :=     (* mnemonic id, last opcode byte c, prefixes, remaining bytes *)
  match fuel with
  | O => DCrash CNever
  | S f =>
      dod '(c, r) <- read1 bs;
      let read_bytes' := (read_bytes ++ [c])%list in
      if negb prefix_done && memZ c (t_prefixes T) then walk T f l false (read_prefix ++ [c])%list read_bytes' r
      else
        match nthZ l c with
        | Some TNone | None =>
            dod '(m, c', r') <- retry_walk 32 (t_trie T) read_bytes' r c;
            DOk (m, c', [], r')
        | Some (TM m) => DOk (Some m, c, read_prefix, r)
        | Some (TN ch) => walk T f ch true read_prefix read_bytes' r
        end
  end.

Definition toggle (m : mode) : mode := match m with Mu16 => Mu32 | _ => Mu16 end.
Definition list_eqb (a b : list Z) : bool := (Nat.eqb (List.length a) (List.length b)) && forallb (fun p => fst p =? snd p) (combine a b).

Definition seg_index (d : Z) : option Z :=    (* dib 20..25 = es ss cs ds fs gs -> reg_dict[...] - via reg_sg = es cs ss ds fs gs *)
  match d with 20 => Some 0 | 21 => Some 2 | 22 => Some 1 | 23 => Some 3 | 24 => Some 4 | 25 => Some 5 | _ => None end.

(** the MMX/SSE operand-class selection of _dis: returns (opmode, admode, swap_args) *)
Definition mmx_modes (name : string) (rp : list Z) (swap : bool) (opmode admode : mode) : dres (mode * mode * bool) :=
  let none := list_eqb rp [] in let p66 := list_eqb rp [102] in let pf2 := list_eqb rp [242] in let pf3 := list_eqb rp [243] in
  if contains "#S#" name then DOk (Mu32, Mxmm, swap)
  else if name_in name ["#p#extrb"; "#p#extrd"; "#p#extrw"] && swap then DOk (Mxmm, Mu32, swap)
  else if name_in name ["#p#insrb"; "#p#insrd"; "#p#insrw"; "extract##PS#"] then DOk ((if none then Mmm else Mxmm), Mu32, swap)
  else if name_in name ["pmovmskb"; "#p#extrw"] then DOk (Mu32, (if none then Mmm else Mxmm), swap)
  else if contains "##" name then DOk (Mxmm, Mxmm, swap)
  else if contains "#ps2pi" name then
    DOk ((if none || p66 then Mmm else if pf2 || pf3 then Mu32 else opmode), Mxmm, swap)
  else if contains "#pi2ps" name then
    DOk (Mxmm, (if none || p66 then Mmm else if pf2 || pf3 then Mu32 else admode), swap)
  else if contains "#p#" name || contains "#w#" name || contains "#qa#" name || contains "#qu#" name then
    let o := if none then Mmm else Mxmm in DOk (o, o, swap)
  else if contains "#s#" name || contains "#ps#" name || contains "#pd#" name || contains "#ups#" name || contains "#lps#" name
          || contains "#hps#" name || contains "#ps2pd" name || contains "#dq2ps" name || contains "#pd2dq" name then DOk (Mxmm, Mxmm, swap)
  else if String.eqb name "movq" then
    DOk (Mxmm, (if none || p66 then Mf64 else if pf2 || pf3 then Mxmm else admode), swap)
  else if contains "#q#" name then
    DOk ((if none then Mmm else if p66 then Mxmm else opmode), Mxmm, swap)
  else if contains "#d#" name then
    if none then DOk (Mmm, Mu32, swap) else if p66 then DOk (Mxmm, Mu32, swap)
    else if pf3 then (if swap then DOk (Mxmm, Mxmm, false) else DNone)
    else DOk (opmode, admode, swap)
  else DCrash CValue.

(** memory operand size refinements for SSE forms *)
Definition mmx_mem_size (name : string) (rp : list Z) (cur : option mode) : dres (option mode) :=
  let none := list_eqb rp [] in let p66 := list_eqb rp [102] in let pf2 := list_eqb rp [242] in let pf3 := list_eqb rp [243] in
  if String.eqb name "mov#d#" then
    (if p66 then DOk (Some Mf32) else if pf2 then DNone else if pf3 then DOk (Some Mf64) else DOk cur)
  else if contains "#ps#" name || String.eqb name "mov#ups#" then
    (if pf2 then DOk (Some Mf64) else if pf3 then DOk (Some Mf32) else DOk cur)
  else if contains "#s#" name then
    (if none then DOk (Some Mf32) else if p66 then DOk (Some Mf64) else if pf2 || pf3 then DNone else DOk cur)
  else if contains "#ps2pi" name || contains "#ps2pd" name then
    (if none || pf2 then DOk (Some Mf64) else if pf3 then DOk (Some Mf32) else DOk cur)
  else if contains "#pi2ps" name then
    (if none || p66 then DOk (Some Mf64) else if pf2 || pf3 then DOk (Some Mf32) else DOk cur)
  else if contains "#pd2dq" name then (if pf3 then DOk (Some Mf64) else DOk cur)
  else if contains "#lps#" name || contains "#hps#" name then (if none || p66 then DOk (Some Mf64) else DOk cur)
  else DOk cur.

Definition opt_set_size (a : arg) (s : option mode) : arg := mkarg (a_ad a) s (a_regs a) (a_imm a) (a_segm a) (a_txt a).
Definition is_address (a : arg) : bool := match a_ad a with Some AdT | Some (AdS _) => true | _ => false end.

Definition fmt_size (d : Z) : option (nat * bool * Z) :=    (* bytes, signed, bits *)
  match d with
  | 0 => Some (1%nat, false, 8) | 1 => Some (1%nat, true, 8) | 2 => Some (2%nat, false, 16) | 3 => Some (2%nat, true, 16)
  | 4 => Some (4%nat, false, 32) | 5 => Some (4%nat, true, 32) | _ => None end.

Definition rcl_arg : arg := mkarg (Some AdF) (Some Mu08) [(1, 1)] None None "".
Definition rdx_arg : arg := mkarg (Some AdF) (Some Mu16) [(2, 1)] None None "".

(** the operand descriptors after the ModRM part *)
Fixpoint do_dibs (T : tables) (m : mnem) (opmode admode : mode) (dibs : list Z) (bs : list Z) (margs dib_out : list arg)
  : dres (list arg * list arg * list Z) :=
  match dibs with
  | [] => DOk (margs, dib_out, bs)
  | dib :: rest =>
      if (0 <=? dib) && (dib <=? 5) then
        let dib' := if negb (mode_eqb admode Mu32) then (if dib =? 4 then 2 else if dib =? 5 then 3 else dib) else dib in
        match fmt_size dib' with
        | Some (n, sg, bits) =>
            dod '(l, r) <- readn n bs;
            let v := if sg then sext bits (le_val l) else le_val l in
            dod '(w, v') <- intsize m opmode v false;
            do_dibs T m opmode admode rest r margs (dib_out ++ [imm_arg w v'])%list
        | None => DCrash CValue
        end
      else if (dib =? D_imm) || (dib =? D_ims) then
        (* get_im_fmt *)
        let sgn := dib =? D_ims in
        dod '(n, sg, bits) <-
          (if truthy (m_se m) then DOk (1%nat, true, 8)
           else if truthy (m_w8 m) then DOk (1%nat, sgn, 8)
           else if mode_eqb opmode Mu32 then DOk (4%nat, sgn, 32) else DOk (2%nat, sgn, 16));
        dod '(l, r) <- readn n bs;
        let v := if sg then sext bits (le_val l) else le_val l in
        dod '(w, v') <- intsize m opmode v sgn;
        do_dibs T m opmode admode rest r margs (dib_out ++ [imm_arg w v'])%list
      else if (dib =? D_im1) || (dib =? D_im3) then
        dod '(w, v') <- intsize m opmode (if dib =? D_im1 then 1 else 3) false;
        do_dibs T m opmode admode rest bs margs (dib_out ++ [imm_arg w v'])%list
      else if dib =? D_rmr then do_dibs T m opmode admode rest bs margs dib_out
      else if dib =? D_r_eax then
        let r := set_size (get_afs_re 0) (if truthy (m_w8 m) then Mu08 else opmode) in
        match margs with
        | [] => do_dibs T m opmode admode rest bs margs (dib_out ++ [r])%list
        | _ => if truthy (m_sw m) then do_dibs T m opmode admode rest bs (margs ++ [r])%list dib_out
               else do_dibs T m opmode admode rest bs (r :: margs) dib_out
        end
      else if dib =? D_mim then
        dod '(n, bits) <- (match admode with Mu32 => DOk (4%nat, 32) | Mu16 => DOk (2%nat, 16) | Mu08 => DOk (1%nat, 8) | _ => DCrash CKey end);
        dod '(l, r) <- readn n bs;
        if m_w8 m =? 0 then DCrash CType else      (* [opmode, u08][None] *)
        let a := mkarg (Some AdT) (Some (if truthy (m_w8 m) then Mu08 else opmode)) [] (Some (32, wrapn 32 (le_val l))) None "" in
        do_dibs T m opmode admode rest r margs (dib_out ++ [a])%list
      else if dib =? D_r_cl then do_dibs T m opmode admode rest bs margs (dib_out ++ [rcl_arg])%list
      else if dib =? D_r_dx then do_dibs T m opmode admode rest bs margs (dib_out ++ [rdx_arg])%list
      else match seg_index dib with
           | Some si => do_dibs T m opmode admode rest bs margs
                          (dib_out ++ [mkarg (Some AdF) (Some opmode) [(si + 1024, 1)] None None ""])%list
           | None => DCrash CValue
           end
  end.

(** the per-operand post-processing loop (segment override, immediate sizes, ad := size) *)
Definition post_arg (T : tables) (m : mnem) (rp : list Z) (a : arg) : dres arg :=
  let a1 := fold_left (fun a p => if is_address a then
                                    match find (fun kv => snd kv =? p) (t_prefix_seg T) with
                                    | Some (k, _) => set_segm a k | None => a end
                                  else a) rp a in
  dod a2 <- (match a_ad a1 with
             | None => match a_imm a1 with
                       | Some (w, _) =>
                           dod s <- (match w with 8 => DOk Mu08 | 16 => DOk Mu16 | 32 => DOk Mu32 | _ => DCrash CKey end);
                           DOk (set_ad (set_size a1 s) AdF)
                       | None => DCrash CKey        (* a[x86_afs.ad] below raises KeyError *)
                       end
             | Some _ => DOk a1 end);
  match a_ad a2 with
  | Some AdT =>
      if name_in (mn_name m) ("lea" :: t_prefetch T) then DOk (set_size a2 Mtrue)
      else match a_size a2 with Some s => DOk (set_ad a2 (AdS s)) | None => DCrash CKey end
  | _ => DOk a2
  end.

Section MapD.
  Context {A B : Type}.
  Variable f : A -> dres B.
  Fixpoint mapD (l : list A) : dres (list B) :=
    match l with [] => DOk [] | a :: r => dod b <- f a; dod r' <- mapD r; DOk (b :: r') end.
End MapD.

Definition string_arg (reg : Z) (s : mode) (seg : Z) : arg := mkarg (Some AdT) (Some s) [(reg, 1)] None (Some seg) "".

(** special_opcodes() *)
Definition special_opcodes (T : tables) (mid : Z) (m : mnem) (opmode : mode) (args : list arg) (prefix : list Z)
  : dres (Z * list arg * list Z) :=
  let sp := t_special T in
  let nm := mn_name m in
  (* 0F AE register forms *)
  dod '(mid1, args1) <-
    (let sub := if String.eqb nm "xrstor" then Some (sp_lfence sp) else if String.eqb nm "xsaveopt" then Some (sp_mfence sp)
                else if String.eqb nm "clflush" then Some (sp_sfence sp) else None in
     match sub with
     | Some s => match args with
                 | [] => DOk (s, [])
                 | a :: _ => match a_ad a with Some AdF => DOk (s, []) | None => DCrash CKey | _ => DOk (mid, args) end
                 end
     | None => DOk (mid, args) end);
  let name_of id := match nthZ (t_mnemos T) id with Some x => mn_name x | None => "" end in
  let nm1 := name_of mid1 in
  let mid2 := if mode_eqb opmode Mu16 && String.eqb nm1 "pushfd" then sp_pushfw sp else mid1 in
  let nm2 := name_of mid2 in
  let mid3 := if mode_eqb opmode Mu16 && String.eqb nm2 "popfd" then sp_popfw sp else mid2 in
  let no66 := filter (fun p => negb (p =? 102)) prefix in
  let is_b (n : string) := match last_char n with Some c => Ascii.eqb c "b"%char | None => false end in
  let step (pfx : string) (guard : string -> list arg -> bool) (wid : Z) (mk : mode -> list arg) (st : Z * list arg * list Z) :=
    let '(id, ar, px) := st in
    let n := name_of id in
    if prefixb pfx n && guard n ar then
      if is_b n then (id, mk Mu08, px)
      else if mode_eqb opmode Mu16 then (wid, mk Mu16, no66)
      else (id, mk Mu32, px)
    else st in
  let st0 := (mid3, args1, prefix) in
  let st1 := step "lods" (fun _ _ => true) (sp_lodsw sp) (fun s => [string_arg 6 s 3]) st0 in
  let st2 := step "stos" (fun _ _ => true) (sp_stosw sp) (fun s => [string_arg 7 s 0]) st1 in
  let st3 := step "movs" (fun n ar => negb (String.eqb n "movsx") && match ar with [] => true | _ => false end) (sp_movsw sp)
                  (fun s => [string_arg 7 s 0; string_arg 6 s 3]) st2 in
  let st4 := step "cmps" (fun _ _ => true) (sp_cmpsw sp) (fun s => [string_arg 7 s 0; string_arg 6 s 3]) st3 in
  let st5 := step "scas" (fun _ _ => true) (sp_scasw sp) (fun s => [string_arg 7 s 0]) st4 in
  let '(idf, arf, pxf) := st5 in
  match nthZ (t_mnemos T) idf with
  | None => DCrash CIndex
  | Some mf =>
      if m_sd mf =? 1 then
        dod ar' <- mapD (fun a => match a_size a with
                                  | Some Mu32 => DOk (set_size a Mf32)
                                  | Some _ => DOk a
                                  | None => DCrash CKey end) arf;
        DOk (idf, ar', pxf)
      else DOk (idf, arf, pxf)
  end.

(** the ModRM-dependent operands of _dis: reads the ModRM byte (when the opcode does not carry it), SIB and displacement *)
Definition dis_modrm (T : tables) (m : mnem) (c : Z) (rp1 : list Z) (opmode1 admode1 : mode) (bs1 : list Z)
  : dres (list arg * mode * mode * bool * list Z) :=
  let swap0 := truthy (m_sw m) in
  let afs := mn_afs m in let dibs := mn_rm m in
  (if (0 <=? afs) && (afs <=? 7) then
           let admode' := if truthy (m_mmx m) then (if list_eqb rp1 [] then Mmm else if list_eqb rp1 [102] then Mxmm else admode1) else admode1 in
           dod '(re, modr, r) <- get_afs T bs1 c admode';
           let a := set_size modr opmode1 in
           dod a1 <- (let sd := m_sd m in
                      if sd =? 0 then DOk a else if sd =? 1 then DOk (set_size a Mf32) else if sd =? 2 then DOk (set_size a Mf64)
                      else if sd =? 3 then (match a_ad modr with Some AdF => DNone | _ => DOk (set_size a Mf80) end) else DCrash CNever);
           let a2 := if truthy (m_w8 m) && negb (truthy (m_mmx m)) then set_size a1 Mu08 else a1 in
           let a3 := if truthy (m_wd m) then set_size a2 Mu16 else a2 in
           if memZ D_rmr dibs && (match a_imm modr with None => true | Some _ => false end)
                              && (match a_ad modr with Some AdF => true | _ => false end)
           then DNone
           else DOk ([a3], opmode1, admode', swap0, r)
         else if afs =? 8 then
           let mafs := set_size (get_afs_re (Z.land c 7)) (if truthy (m_w8 m) then Mu08 else opmode1) in
           DOk ([mafs], opmode1, admode1, swap0, bs1)
         else if (afs =? 9) || (afs =? 10) then
           if memZ D_rmr dibs then
             let reg_cat0 := (if truthy (m_dr m) then 8 else 0) + (if truthy (m_cr m) then 16 else 0) + (if truthy (m_sg m) then 32 else 0) in
             dod '(opm, adm, swap, reg_cat) <-
               (if truthy (m_mmx m) then
                  dod '(o, a, s) <- mmx_modes (mn_name m) rp1 swap0 opmode1 admode1;
                  dod rc <- (match o with Mxmm => DOk 80 | Mmm => DOk 64 | Mu32 => DOk 0 | _ => DNone end);
                  DOk (o, a, s, rc)
                else DOk (opmode1, admode1, swap0, reg_cat0));
             dod '(c2, r0) <- read1 bs1;
             dod '(re, modr, r) <- get_afs T r0 c2 adm;
             let mafs := get_afs_re (re + reg_cat) in
             let '(modr1, mafs1) := if truthy (m_w8 m) then (set_size modr Mu08, set_size mafs Mu08) else (set_size modr opm, set_size mafs opm) in
             let modr2 := if negb (m_se m =? 0) && negb (memZ D_imm dibs || memZ D_ims dibs)
                          then set_size modr1 (if m_se m =? 1 then Mu16 else Mu08) else modr1 in
             let '(modr3, mafs3) := if truthy (m_wd m) then (set_size modr2 Mu16, set_size mafs1 Mu16) else (modr2, mafs1) in
             let '(modr4, mafs4) := if truthy (m_mmx m) then (set_size modr3 adm, set_size mafs3 opm) else (modr3, mafs3) in
             if truthy (m_sg m) && (re >=? 6) then DNone else
             let mafs5 := if truthy (m_sg m) then set_size mafs4 Mseg else mafs4 in
             dod modr5 <- (match a_ad modr4 with
                           | Some AdT => dod s <- mmx_mem_size (mn_name m) rp1 (a_size modr4); DOk (opt_set_size modr4 s)
                           | _ => DOk modr4 end);
             let l := [mafs5; modr5] in
             let l' := if (afs =? 10) && prefixb "set" (mn_name m) then [modr5] else l in
             DOk (l', opm, adm, swap, r)
           else DOk ([], opmode1, admode1, swap0, bs1)
         else DCrash CValue).

(** _dis *)
Definition dis_body (T : tables) (opmode0 : mode) (bytes : list Z) : dres ((Z -> dres instr) * list Z) :=
  dod '(mo, c, rp, bs1) <- walk T 32 (t_trie T) false [] [] bytes;
  match mo with
  | None => DNone
  | Some mid0 =>
    match nthZ (t_mnemos T) mid0 with
    | None => DCrash CIndex
    | Some m0 =>
      let has66 := memZ 102 rp in
      let opmode1 := if has66 then toggle opmode0 else opmode0 in
      (* cwde / cdq under 0x66 *)
      dod '(mid, m, rp1) <-
        (if has66 && name_in (mn_name m0) ["cwde"; "cdq"] then
           match nthZ (t_trie T) 102, mn_opc m0 with
           | Some (TN ch), o0 :: _ =>
               match nthZ ch o0 with
               | Some (TM id) => match nthZ (t_mnemos T) id with
                                 | Some m' => DOk (id, m', filter (fun p => negb (p =? 102)) rp)
                                 | None => DCrash CIndex end
               | Some TNone => DCrash CAttr      (* None has no attribute afs *)
               | _ => DCrash CAttr
               end
           | _, _ => DCrash CType
           end
         else DOk (mid0, m0, rp));
      let admode1 := if memZ 103 rp1 then toggle opmode0 else opmode0 in
      let swap0 := truthy (m_sw m) in
      let afs := mn_afs m in let dibs := mn_rm m in
      dod '(margs, opmode2, admode2, swap, bs2) <- dis_modrm T m c rp1 opmode1 admode1 bs1;
      let margs1 := if swap then rev margs else margs in
      dod '(margs2, dib_out, bs3) <- do_dibs T m opmode2 admode2 dibs bs2 margs1 [];
      (* everything below is independent of the stream; the length is supplied by dis_core *)
      DOk ((fun len : Z =>
              dod args <- mapD (post_arg T m rp1) (margs2 ++ dib_out)%list;
              dod '(midf, argsf, pxf) <- special_opcodes T mid m opmode2 args rp1;
              match nthZ (t_mnemos T) midf with
              | Some mf => DOk (mkinstr pxf midf (mn_name mf) argsf len opmode2 admode2)
              | None => DCrash CIndex
              end), bs3)
    end
  end.
Definition dis_core (T : tables) (opmode0 : mode) (bytes : list Z) : dres instr :=
  dod '(k, bs3) <- dis_body T opmode0 bytes;
  k (Z.of_nat (List.length bytes) - Z.of_nat (List.length bs3)).

Definition dis (T : tables) (bytes : list Z) : outcome :=
  match dis_core T Mu32 bytes with
  | DOk i => OSome i
  | DNone => ONone
  | DCrash k => OCrash k
  end.

(** * Control-flow metadata: breakflow / splitflow / dstflow / getnextflow / getdstflow *)
Definition flow_flags (T : tables) (i : instr) : Z * Z * Z :=
  match nthZ (t_mnemos T) (i_m i) with
  | Some m => (m_bkf m, m_spf m, m_dtf m)
  | None => (0, 0, 0)
  end.
Definition getnextflow (offset : Z) (i : instr) : Z := offset + i_len i.

Definition is_imm_arg (a : arg) : bool :=
  negb (is_address a) && (match a_imm a with Some _ => true | None => false end)
  && (match a_regs a with [] => true | _ => false end) && (match a_segm a with None => true | Some _ => false end).

Definition max_uint_bits (m : mode) : option Z :=
  match m with Mu08 => Some 8 | Mu16 => Some 16 | Mu32 => Some 32 | Mu64 => Some 64 | _ => None end.

Inductive dstres := DstVal (v : Z) | DstArg | DstErr (k : crash).
(** (self.offset + self.l + a[imm]) & tab_max_uint[self.opmode], the sum being taken in the immediate's uintN class *)
Definition getdstflow (offset : Z) (i : instr) : dstres :=
  if String.eqb (i_name i) "jmpf" then DstArg else
  match i_args i with
  | [a] =>
      if is_imm_arg a then
        match a_imm a, max_uint_bits (i_opmode i) with
        | Some (w, v), Some ob => DstVal (Z.land (wrapn w (offset + i_len i + v)) (2 ^ ob - 1))
        | _, None => DstErr CKey
        | None, _ => DstErr CKey
        end
      else DstArg
  | _ => DstErr CValue
  end.

(** the architectural classification of mnemonics (Intel SDM vol. 2), independent of the dumped tables *)
Definition jcc_names : list string :=
  ["jo"; "jno"; "jb"; "jnae"; "jc"; "jnb"; "jae"; "jnc"; "jz"; "je"; "jnz"; "jne"; "jbe"; "jna"; "ja"; "jnbe"; "js"; "jns";
   "jp"; "jpe"; "jnp"; "jpo"; "jl"; "jnge"; "jnl"; "jge"; "jle"; "jng"; "jnle"; "jg"; "jcxz"; "jecxz";
   "loop"; "loope"; "loopz"; "loopne"; "loopnz"; "call"; "callf"].
Definition uncond_names : list string := ["jmp"; "jmpf"; "ret"; "retf"; "hlt"; "ud2"].
Definition excluded_names : list string := ["syscall"; "sysenter"; "sysexit"; "sysret"].
Inductive flow_class := FCond | FUncond | FExcluded | FNext.
Definition flow_spec (name : string) : flow_class :=
  if name_in name excluded_names then FExcluded
  else if name_in name jcc_names then FCond
  else if name_in name uncond_names || prefixb "iret" name then FUncond
  else FNext.
Definition flow_ok (m : mnem) : bool :=
  match flow_spec (mn_name m) with
  | FExcluded => true
  | FCond => (m_bkf m =? 1) && (m_spf m =? 1) && (m_dtf m =? 1)
  | FUncond => (m_bkf m =? 1) && negb (m_spf m =? 1)
  | FNext => negb (m_bkf m =? 1)
  end.
