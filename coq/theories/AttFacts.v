(** AttFacts.v — the AT&T spelling of a mnemonic converts back to the Intel mnemonic and to the operand size it was chosen for:
    reflection over the tables regenerated from /repo (MxGen.AttTables) x every operand-size class x memory / register first operand
    x the st(0)-destination flag (the historical fsub/fdiv reversal). *)
From Coq Require Import List String Bool.
From Mx Require Import Att.
From MxGen Require Import AttTables.
Import ListNotations.
Open Scope string_scope.

Definition sizes := [Su08; Su16; Su32; Sf32; Sf64; Sf80; Sxmm; Sother].
Definition infos_full : list ainfo := flat_map (fun s0 => flat_map (fun s1 => flat_map (fun ad => map (fun two => mkai s0 s1 ad two) [true; false]) [true; false]) [Su08; Su16; Su32; Sxmm]) sizes.
Definition infos_small : list ainfo := flat_map (fun s0 => map (fun ad => mkai s0 Su32 ad false) [true; false]) sizes.
(** the second operand's size is inspected for movsd / movsx / movzx only, the st(0) flag for the fsub / fdiv family only *)
Definition infos (name : string) : list ainfo :=
  if mem name ["movsd"; "movsx"; "movzx"] || mem (prefix4 name) ["fsub"; "fdiv"] then infos_full else infos_small.
Definition vocab (T : atables) : list string :=
  at_none T ++ st_names (at_ptr T) ++ st_names (at_iflt T) ++ st_names (at_flt T) ++ map snd (at_corr T) ++ ["call"; "jmp"; "movsx"; "movzx"; "push"].
Definition tab_sizes (t : stab) : list szk := map snd (st_map t).
Definition in_sz (s : szk) (l : list szk) : bool := existsb (szk_eqb s) l.
(** operand lists that exist: a memory first operand of a suffix-taking mnemonic has one of the sizes a suffix stands for *)
Definition valid (T : atables) (name : string) (a : ainfo) : bool :=
  let tabs := filter (fun t => mem name (st_names t)) [at_ptr T; at_iflt T; at_flt T] in
  match tabs with
  | [] => true
  | _ => if ai_ad0 a then existsb (fun t => in_sz (ai_size0 a) (tab_sizes t)) tabs else true
  end.
Definition takes_suffix (T : atables) (name : string) (a : ainfo) : bool :=
  ai_ad0 a && existsb (fun t => mem name (st_names t) && in_sz (ai_size0 a) (tab_sizes t)) [at_ptr T; at_iflt T; at_flt T].
(** known exception (C09 finding): fisttp with a 16-bit (or the non-existent 8-bit) memory operand is spelled with the suffix of
    the general-purpose table, which the integer-float table of the reverse direction does not know *)
Definition att_known (name : string) (a : ainfo) : bool := String.eqb name "fisttp" && (szk_eqb (ai_size0 a) Su16 || szk_eqb (ai_size0 a) Su08).
Definition rt_ok (T : atables) (name : string) (a : ainfo) : bool :=
  match mnemo_to_att T name a with
  | None => true      (* no AT&T spelling is produced (the renderer raises: C10) *)
  | Some s =>
      match mnemo_from_att T s (ai_two_no_st0 a) with
      | FOk n sz => String.eqb n name &&
                    (if takes_suffix T name a && negb (mem name (at_fopt T) && negb (ai_ad0 a))
                     then match sz with Some k => szk_eqb k (ai_size0 a) | None => false end else true)
      | FRaise => false
      end
  end.
Definition all_rt (T : atables) : bool :=
  forallb (fun name => forallb (fun a => negb (valid T name a) || att_known name a || rt_ok T name a) (infos name)) (vocab T).
Lemma att_roundtrip_reflected : all_rt att_tables = true.
Proof. vm_compute. reflexivity. Qed.
Lemma att_roundtrip : forall name a, In name (vocab att_tables) -> In a (infos name) -> valid att_tables name a = true -> att_known name a = false -> rt_ok att_tables name a = true.
Proof.
  intros name a Hn Ha V K. pose proof att_roundtrip_reflected as R. unfold all_rt in R.
  rewrite forallb_forall in R. specialize (R _ Hn). rewrite forallb_forall in R. specialize (R _ Ha).
  rewrite V, K in R. simpl in R. exact R.
Qed.
(** the exception is real: the reverse direction raises on the spelling the forward direction produces *)
Lemma fisttp_word_refuted : mnemo_to_att att_tables "fisttp" (mkai Su16 Su32 true false) = Some "fisttpw" /\ mnemo_from_att att_tables "fisttpw" false = FRaise.
Proof. vm_compute. split; reflexivity. Qed.
(** the historical reversal is applied in both directions: fsub st(i), st <-> fsubr *)
Lemma fsub_reversal : mnemo_to_att att_tables "fsub" (mkai Sother Sother false true) = Some "fsubr" /\ mnemo_from_att att_tables "fsubr" true = FOk "fsub" None /\
                      mnemo_to_att att_tables "fsub" (mkai Sother Sother false false) = Some "fsub".
Proof. vm_compute. repeat split; reflexivity. Qed.
