(** RotLemmas.v — bit-vector facts behind the rotation rules of the simplifier (C05): a rotation moves bit i to bit i + c modulo the
    width; rotations compose by adding their counts; a count may be reduced modulo any multiple of the width. *)
From Coq Require Import ZArith List Bool Lia.
From Mx Require Import Expr SliceLemmas.
Open Scope Z_scope.

Lemma bits_above x n i : 0 <= x < 2 ^ n -> n <= i -> Z.testbit x i = false.
Proof.
  intros Hx Hi. destruct (Z_lt_le_dec n 0) as [N|N]; [rewrite Z.pow_neg_r in Hx by lia; lia|].
  rewrite <- (Z.mod_small x (2 ^ n)) by lia. apply Z.mod_pow2_bits_high. lia.
Qed.
Lemma rol_range w x c : 0 < w -> 0 <= rol w x c < 2 ^ w.
Proof. intros Hw. unfold rol. apply Z.mod_pos_bound. apply Z.pow_pos_nonneg; lia. Qed.
Lemma ror_range w x c : 0 < w -> 0 <= ror w x c < 2 ^ w.
Proof. intros Hw. unfold ror. apply Z.mod_pos_bound. apply Z.pow_pos_nonneg; lia. Qed.
Lemma rol_bits w x c i : 0 < w -> 0 <= x < 2 ^ w -> 0 <= i < w -> Z.testbit (rol w x c) i = Z.testbit x ((i - c) mod w).
Proof.
  intros Hw Hx Hi. unfold rol. cbv zeta. set (r := c mod w). assert (Rr : 0 <= r < w) by (apply Z.mod_pos_bound; lia).
  assert (E : (i - c) mod w = (i - r) mod w) by (unfold r; rewrite Zminus_mod_idemp_r; reflexivity). rewrite E.
  unfold wrap. rewrite Z.mod_pow2_bits_low by lia. rewrite Z.lor_spec, Z.shiftr_spec by lia.
  destruct (Z_lt_le_dec i r) as [L|L].
  - rewrite Z.shiftl_spec_low by lia. cbn [orb]. f_equal. apply (Z.mod_unique_pos _ _ (-1)); lia.
  - rewrite Z.shiftl_spec by lia. rewrite (bits_above x w (i + (w - r))) by lia. rewrite orb_false_r. f_equal. symmetry. apply Z.mod_small. lia.
Qed.
Lemma ror_bits w x c i : 0 < w -> 0 <= x < 2 ^ w -> 0 <= i < w -> Z.testbit (ror w x c) i = Z.testbit x ((i + c) mod w).
Proof.
  intros Hw Hx Hi. unfold ror. cbv zeta. set (r := c mod w). assert (Rr : 0 <= r < w) by (apply Z.mod_pos_bound; lia).
  assert (E : (i + c) mod w = (i + r) mod w) by (unfold r; rewrite Zplus_mod_idemp_r; reflexivity). rewrite E.
  unfold wrap. rewrite Z.mod_pow2_bits_low by lia. rewrite Z.lor_spec, Z.shiftr_spec by lia.
  destruct (Z_lt_le_dec (i + r) w) as [L|L].
  - rewrite (Z.mod_small (i + r) w) by lia. destruct (Z_lt_le_dec i (w - r)) as [M|M]; [|lia]. rewrite Z.shiftl_spec_low by lia. apply orb_false_r.
  - rewrite (bits_above x w (i + r)) by lia. cbn [orb]. rewrite Z.shiftl_spec by lia. f_equal. apply (Z.mod_unique_pos _ _ 1); lia.
Qed.
(** two w-bit values with the same low w bits are equal *)
Lemma eq_by_bits w a b : 0 < w -> 0 <= a < 2 ^ w -> 0 <= b < 2 ^ w -> (forall i, 0 <= i < w -> Z.testbit a i = Z.testbit b i) -> a = b.
Proof.
  intros Hw Ha Hb H. apply Z.bits_inj'. intros i Hi. destruct (Z_lt_le_dec i w) as [L|L]; [apply H; lia|].
  rewrite (bits_above a w i), (bits_above b w i) by lia. reflexivity.
Qed.
Lemma rol_0 w x : 0 < w -> 0 <= x < 2 ^ w -> rol w x 0 = x.
Proof.
  intros Hw Hx. apply (eq_by_bits w); [lia | apply rol_range; lia | exact Hx|]. intros i Hi. rewrite rol_bits by lia. f_equal. rewrite Z.sub_0_r. apply Z.mod_small. lia.
Qed.
Lemma ror_0 w x : 0 < w -> 0 <= x < 2 ^ w -> ror w x 0 = x.
Proof.
  intros Hw Hx. apply (eq_by_bits w); [lia | apply ror_range; lia | exact Hx|]. intros i Hi. rewrite ror_bits by lia. f_equal. rewrite Z.add_0_r. apply Z.mod_small. lia.
Qed.
Lemma rol_mod w x c : 0 < w -> rol w x (c mod w) = rol w x c.
Proof. intros Hw. unfold rol. cbv zeta. rewrite Z.mod_mod by lia. reflexivity. Qed.
Lemma ror_mod w x c : 0 < w -> ror w x (c mod w) = ror w x c.
Proof. intros Hw. unfold ror. cbv zeta. rewrite Z.mod_mod by lia. reflexivity. Qed.
Lemma rol_rol w x c d : 0 < w -> 0 <= x < 2 ^ w -> rol w (rol w x c) d = rol w x (c + d).
Proof.
  intros Hw Hx. apply (eq_by_bits w); [lia | apply rol_range; lia | apply rol_range; lia|]. intros i Hi.
  rewrite rol_bits by (try apply rol_range; lia). rewrite rol_bits by (try apply Z.mod_pos_bound; lia). rewrite rol_bits by lia.
  f_equal. rewrite Zminus_mod_idemp_l. f_equal. lia.
Qed.
Lemma ror_ror w x c d : 0 < w -> 0 <= x < 2 ^ w -> ror w (ror w x c) d = ror w x (c + d).
Proof.
  intros Hw Hx. apply (eq_by_bits w); [lia | apply ror_range; lia | apply ror_range; lia|]. intros i Hi.
  rewrite ror_bits by (try apply ror_range; lia). rewrite ror_bits by (try apply Z.mod_pos_bound; lia). rewrite ror_bits by lia.
  f_equal. rewrite Zplus_mod_idemp_l. f_equal. lia.
Qed.
Lemma ror_rol w x c d : 0 < w -> 0 <= x < 2 ^ w -> ror w (rol w x c) d = rol w x (c - d).
Proof.
  intros Hw Hx. apply (eq_by_bits w); [lia | apply ror_range; lia | apply rol_range; lia|]. intros i Hi.
  rewrite ror_bits by (try apply rol_range; lia). rewrite rol_bits by (try apply Z.mod_pos_bound; lia). rewrite rol_bits by lia.
  f_equal. rewrite Zminus_mod_idemp_l. f_equal. lia.
Qed.
Lemma rol_ror w x c d : 0 < w -> 0 <= x < 2 ^ w -> rol w (ror w x c) d = ror w x (c - d).
Proof.
  intros Hw Hx. apply (eq_by_bits w); [lia | apply rol_range; lia | apply ror_range; lia|]. intros i Hi.
  rewrite rol_bits by (try apply ror_range; lia). rewrite ror_bits by (try apply Z.mod_pos_bound; lia). rewrite ror_bits by lia.
  f_equal. rewrite Zplus_mod_idemp_l. f_equal. lia.
Qed.
(** counts that agree modulo the width *)
Lemma rol_cong w x c c' : 0 < w -> c mod w = c' mod w -> rol w x c = rol w x c'.
Proof. intros Hw E. unfold rol. cbv zeta. rewrite E. reflexivity. Qed.
Lemma ror_cong w x c c' : 0 < w -> c mod w = c' mod w -> ror w x c = ror w x c'.
Proof. intros Hw E. unfold ror. cbv zeta. rewrite E. reflexivity. Qed.
(** reduction of a count modulo 2^8 when the width divides 2^8 *)
Lemma mod_mod_divides a m w : 0 < w -> 0 < m -> (w | m) -> (a mod m) mod w = a mod w.
Proof. intros Hw Hm D. symmetry. apply Znumtheory.Zmod_div_mod; assumption. Qed.
(** 8-bit counts under a width that divides 2^8 *)
Lemma count_sum_mod n a b : 0 < n -> (n | 2 ^ 8) -> (wrap 8 (a + b)) mod n = (a + b) mod n.
Proof. intros Hn D. unfold wrap. apply mod_mod_divides; [exact Hn | reflexivity | exact D]. Qed.
Lemma count_diff_mod n a b : 0 < n -> (n | 2 ^ 8) -> (wrap 8 (a + wrap 8 (- b))) mod n = (a - b) mod n.
Proof.
  intros Hn D. unfold wrap. rewrite Zplus_mod_idemp_r. rewrite (mod_mod_divides _ (2 ^ 8) n Hn eq_refl D). reflexivity.
Qed.
