(** Wf.v — well-formedness of lifted IR as stated by C11, clause by clause, as boolean checks.
    A clause id identifies the violated clause in known-finding keys:
    1 lifts without error   2 element is an assignment to a register or memory cell whose source contains no assignment
    3 every sub-expression has a determinate (positive) width   4 equal operand widths for + - * & | ^ ==
    5 slices lie inside their operand   6 concatenation slots tile without gap or overlap
    7 source as wide as destination (a 1-bit flag may receive a wider 0/1-valued expression)
    8 no two assignments of one instruction write the same or overlapping storage *)
From Coq Require Import ZArith List Bool String.
From Mx Require Import Expr.
Import ListNotations.
Open Scope Z_scope.

Fixpoint no_aff (e : expr) : bool :=
  match e with
  | EInt _ _ _ | EId _ _ _ _ => true
  | EMem a _ s => no_aff a && match s with Some u => no_aff u | None => true end
  | EOp _ args => forallb no_aff args
  | ECond c a b => no_aff c && no_aff a && no_aff b
  | ESlice e1 _ _ => no_aff e1
  | ECompose args => forallb (fun s => no_aff (slot_e s)) args
  | EAff _ _ => false
  end.

(** all sub-expressions satisfy p (assignments nested inside are traversed too) *)
Fixpoint all_sub (p : expr -> bool) (e : expr) : bool :=
  p e &&
  match e with
  | EInt _ _ _ | EId _ _ _ _ => true
  | EMem a _ s => all_sub p a && match s with Some u => all_sub p u | None => true end
  | EOp _ args => forallb (all_sub p) args
  | ECond c a b => all_sub p c && all_sub p a && all_sub p b
  | ESlice e1 _ _ => all_sub p e1
  | ECompose args => forallb (fun s => all_sub p (slot_e s)) args
  | EAff d s => all_sub p d && all_sub p s
  end.

Definition width_ok (e : expr) : bool :=
  match e with
  | EOp _ [] => false
  | ECompose [] => false
  | _ => 0 <? size e
  end.

Definition eqw_op (op : string) : bool :=
  match opk_of op with OAdd | OSub | OMul | OAnd | OOr | OXor | OEq => true | _ => false end.
Definition operands_ok (e : expr) : bool :=
  match e with
  | EOp op (a :: r) => if eqw_op op then forallb (fun x => size x =? size a) r else true
  | _ => true
  end.
Definition slice_ok (e : expr) : bool :=
  match e with ESlice a lo hi => (0 <=? lo) && (lo <? hi) && (hi <=? size a) | _ => true end.

Fixpoint insert_slot_lo (x : slot) (l : list slot) : list slot :=
  match l with [] => [x] | y :: r => if slot_lo x <? slot_lo y then x :: l else y :: insert_slot_lo x r end.
Fixpoint tiles_from (pos : Z) (l : list slot) : bool :=
  match l with [] => true | s :: r => (slot_lo s =? pos) && (slot_lo s <? slot_hi s) && tiles_from (slot_hi s) r end.
Definition compose_ok (e : expr) : bool :=
  match e with
  | ECompose args => tiles_from 0 (fold_left (fun acc s => insert_slot_lo s acc) args [])
  | _ => true
  end.

(** a syntactic sufficient condition for "the value is always 0 or 1" *)
Fixpoint is01 (e : expr) : bool :=
  match e with
  | EInt _ _ v => (v =? 0) || (v =? 1)
  | EId _ w _ _ => w =? 1
  | ECond _ a b => is01 a && is01 b
  | ESlice _ lo hi => hi - lo =? 1
  | EOp op args =>
      match opk_of op with
      | OEq | OParity => true
      | OAnd => existsb is01 args
      | OOr | OXor => forallb is01 args
      | _ => size e =? 1
      end
  | _ => size e =? 1
  end.

Definition is_flag_dst (d : expr) : bool := match d with EId _ w _ _ => w =? 1 | _ => false end.

Definition clause2 (a : expr) : bool :=
  match a with
  | EAff (EId _ _ _ _) s => no_aff s
  | EAff (EMem ad _ sg) s => no_aff s && no_aff ad && match sg with Some u => no_aff u | None => true end
  | _ => false
  end.
Definition clause7 (a : expr) : bool :=
  match a with
  | EAff d s => (size s =? size d) || (is_flag_dst d && (size d <? size s) && is01 s)
  | _ => true
  end.

(** destinations: same identifier name, or memory cells at the same base (syntactically equal modulo a constant
    offset) whose byte ranges intersect *)
Definition split_addr (a : expr) : expr * Z :=
  match a with
  | EOp op [b; EInt _ w v] => if (op =? "+")%string then (b, sgn w v) else (a, 0)
  | EOp op [EInt _ w v; b] => if (op =? "+")%string then (b, sgn w v) else (a, 0)
  | EOp op [b; EOp op2 [EInt _ w v]] => if (op =? "+")%string && (op2 =? "-")%string then (b, - sgn w v) else (a, 0)
  | _ => (a, 0)
  end.
Definition dst_overlap (d1 d2 : expr) : bool :=
  match d1, d2 with
  | EId n1 _ _ _, EId n2 _ _ _ => (n1 =? n2)%string
  | EMem a1 w1 _, EMem a2 w2 _ =>
      let '(b1, o1) := split_addr a1 in let '(b2, o2) := split_addr a2 in
      expr_eqb b1 b2 && (o1 <? o2 + w2 / 8) && (o2 <? o1 + w1 / 8)
  | _, _ => false
  end.
Fixpoint clause8 (affs : list expr) : bool :=
  match affs with
  | [] => true
  | EAff d _ :: r => forallb (fun a => match a with EAff d' _ => negb (dst_overlap d d') | _ => true end) r && clause8 r
  | _ :: r => clause8 r
  end.

(** the clauses violated by a lifted assignment list (None = the lifter raised) *)
Definition violated (l : option (list expr)) : list Z :=
  match l with
  | None => [1]
  | Some affs =>
      (if forallb clause2 affs then [] else [2]) ++
      (if forallb (all_sub width_ok) affs then [] else [3]) ++
      (if forallb (all_sub operands_ok) affs then [] else [4]) ++
      (if forallb (all_sub slice_ok) affs then [] else [5]) ++
      (if forallb (all_sub compose_ok) affs then [] else [6]) ++
      (if forallb clause7 affs then [] else [7]) ++
      (if clause8 affs then [] else [8])
  end.

(** a dumped case: mnemonic, 16-bit operand size?, the lifted list *)
(* lc_next: the address of the next instruction handed to the lifter (0x1000 + length of the encoding) *)
(* lc_args: the operand expressions the lifter was called with (instruction.arg_expr) *)
Record lcase := mklcase { lc_mnemo : string; lc_o16 : bool; lc_next : Z; lc_args : list expr; lc_lift : option (list expr) }.
Definition known_t := list (string * bool * Z).
Definition in_known (k : known_t) (mn : string) (o16 : bool) (cl : Z) : bool :=
  existsb (fun '(m, o, c) => (m =? mn)%string && Bool.eqb o o16 && (c =? cl)) k.
Definition case_ok (k : known_t) (c : lcase) : bool :=
  forallb (fun cl => in_known k (lc_mnemo c) (lc_o16 c) cl) (violated (lc_lift c)).
Definition all_ok (k : known_t) (cs : list lcase) : bool := forallb (case_ok k) cs.
