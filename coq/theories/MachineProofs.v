(** MachineProofs.v — facts about the symbolic machine state model (C07, C12): memory cells of the pool, and independence of
    the results from the fuel parameter that stands for Python's recursion depth. *)
From Coq Require Import ZArith List Bool String Lia.
From Mx Require Import Expr ExprProofs Simp EvalAbs.
Import ListNotations.
Open Scope list_scope.
Open Scope Z_scope.

(** * The pool as a dictionary keyed by == *)
Lemma adict_get_set_same {V} (d : list (expr * V)) k v : adict_get (adict_set d k v) k = Some v.
Proof.
  induction d as [|[k' v'] d IH]; simpl.
  - rewrite eqb_refl. reflexivity.
  - destruct (expr_eqb k' k) eqn:E; simpl; rewrite E; [reflexivity | exact IH].
Qed.
Lemma adict_get_set_other {V} (d : list (expr * V)) k k2 v : expr_eqb k k2 = false -> adict_get (adict_set d k v) k2 = adict_get d k2.
Proof.
  intros N. induction d as [|[k' v'] d IH]; simpl.
  - rewrite N. reflexivity.
  - destruct (expr_eqb k' k) eqn:E; simpl.
    + destruct (expr_eqb k' k2) eqn:E2; [|reflexivity].
      exfalso. rewrite eqb_sym in E. rewrite (eqb_trans k k' k2 E E2) in N. discriminate.
    + destruct (expr_eqb k' k2); [reflexivity | exact IH].
Qed.

(** a cell written at an address and read back at the same address and width returns the written value; cells at other
    (syntactically different) addresses and all register bindings are untouched *)
Theorem write_then_read_same_cell s a w sg v : pool_get_mem (pool_set s (EMem a w sg) v) a w = Some v.
Proof. unfold pool_get_mem, pool_set. cbn [pool_mem]. rewrite adict_get_set_same. cbn [size]. rewrite Z.eqb_refl. reflexivity. Qed.
Theorem write_keeps_other_cells s a w sg v a2 w2 : expr_eqb a a2 = false ->
  pool_get_mem (pool_set s (EMem a w sg) v) a2 w2 = pool_get_mem s a2 w2.
Proof. intros N. unfold pool_get_mem, pool_set. cbn [pool_mem]. rewrite adict_get_set_other by exact N. reflexivity. Qed.
Theorem write_keeps_registers s a w sg v : pool_id (pool_set s (EMem a w sg) v) = pool_id s.
Proof. reflexivity. Qed.
Theorem register_write_keeps_memory s n w r t v : pool_mem (pool_set s (EId n w r t) v) = pool_mem s.
Proof. reflexivity. Qed.
Theorem register_write_then_read s n w r t v : adict_get (pool_id (pool_set s (EId n w r t) v)) (EId n w r t) = Some v.
Proof. unfold pool_set. cbn [pool_id]. apply adict_get_set_same. Qed.

(** * The result does not depend on the fuel (the model's stand-in for recursion depth): more fuel, same answer *)
Lemma mapM_mono {A B} (f g : A -> res B) l : Forall (fun x => forall y, f x = Ok y -> g x = Ok y) l ->
  forall r, mapM f l = Ok r -> mapM g l = Ok r.
Proof.
  induction 1 as [|a l Ha _ IH]; intros r H; simpl in *; [exact H|].
  destruct (f a) as [b| |] eqn:Ea; try discriminate. cbn [bind] in H. rewrite (Ha b eq_refl). cbn [bind].
  destruct (mapM f l) as [r'| |] eqn:Er; try discriminate. cbn [bind] in H. rewrite (IH r' eq_refl). exact H.
Qed.

Ltac use X E := first [rewrite (X _ E) | rewrite (X _ eq_refl)].

Section Mono.
  Variables cb cb' : expr -> res expr.
  Hypothesis cb_le : forall x y, cb x = Ok y -> cb' x = Ok y.

  Lemma visitM_mono : forall e r, visitM cb e = Ok r -> visitM cb' e = Ok r.
  Proof.
    induction e using expr_ind'; intros r0 HV; simpl in *.
    - apply cb_le; exact HV.
    - apply cb_le; exact HV.
    - destruct s as [u|].
      + destruct (visitM cb u) as [u'| |] eqn:Eu; try discriminate. cbn [bind] in HV. use H Eu. cbn [bind].
        destruct (visitM cb e) as [a'| |] eqn:Ea; try discriminate. cbn [bind] in HV. use IHe Ea. cbn [bind]. apply cb_le; exact HV.
      + cbn [bind] in *. destruct (visitM cb e) as [a'| |] eqn:Ea; try discriminate. cbn [bind] in HV. use IHe Ea. cbn [bind]. apply cb_le; exact HV.
    - destruct (mapM (visitM cb) args) as [args'| |] eqn:Em; try discriminate. cbn [bind] in HV.
      rewrite (mapM_mono (visitM cb) (visitM cb') args H args' Em). cbn [bind]. apply cb_le; exact HV.
    - destruct (visitM cb e1) as [c'| |] eqn:E1; try discriminate. cbn [bind] in HV. use IHe1 E1. cbn [bind].
      destruct (visitM cb e2) as [a'| |] eqn:E2; try discriminate. cbn [bind] in HV. use IHe2 E2. cbn [bind].
      destruct (visitM cb e3) as [b'| |] eqn:E3; try discriminate. cbn [bind] in HV. use IHe3 E3. cbn [bind]. apply cb_le; exact HV.
    - destruct (visitM cb e) as [a'| |] eqn:Ea; try discriminate. cbn [bind] in HV. use IHe Ea. cbn [bind]. apply cb_le; exact HV.
    - match type of HV with bind ?m _ = _ => destruct m as [args'| |] eqn:Em; try discriminate end. cbn [bind] in HV.
      erewrite (mapM_mono (fun s => do x <- visitM cb (slot_e s); Ok (x, slot_lo s, slot_hi s)) (fun s => do x <- visitM cb' (slot_e s); Ok (x, slot_lo s, slot_hi s)) args _ args' Em).
      cbn [bind]. apply cb_le; exact HV.
    - destruct (visitM cb e1) as [d'| |] eqn:E1; try discriminate. cbn [bind] in HV. use IHe1 E1. cbn [bind].
      destruct (visitM cb e2) as [s'| |] eqn:E2; try discriminate. cbn [bind] in HV. use IHe2 E2. cbn [bind]. apply cb_le; exact HV.
    Unshelve.
    eapply Forall_impl; [|exact H]. intros sl Hs y Hy. cbn beta in *.
    destruct (visitM cb (slot_e sl)) as [x| |] eqn:Ex; try discriminate. cbn [bind] in Hy. rewrite (Hs x eq_refl). exact Hy.
  Qed.
End Mono.

Lemma loop_mono (rec rec' : expr -> res expr) : (forall x y, rec x = Ok y -> rec' x = Ok y) ->
  forall n e r, simp_loop rec n e = Ok r -> simp_loop rec' (S n) e = Ok r /\ simp_loop rec' n e = Ok r.
Proof.
  intros R. induction n as [|n IH]; intros e r H; [simpl in H; discriminate|].
  assert (G : forall m, (forall e0 r0, simp_loop rec n e0 = Ok r0 -> simp_loop rec' m e0 = Ok r0) -> simp_loop rec' (S m) e = Ok r).
  { intros m Hm. simpl in H |- *. destruct (simp1 e) as [e1| |]; try discriminate. cbn [bind] in *.
    destruct (expr_eqb e1 e); [exact H|]. destruct (rec e1) as [e2| |] eqn:E2; try discriminate. cbn [bind] in H.
    rewrite (R e1 e2 E2). cbn [bind]. apply Hm. exact H. }
  split; [apply G; intros e0 r0 H0; apply (IH e0 r0 H0) | apply G; intros e0 r0 H0; apply (IH e0 r0 H0)].
Qed.

Theorem simp_fuel_mono : forall f e r, simp f e = Ok r -> simp (S f) e = Ok r.
Proof.
  induction f as [|f IH]; intros e r H; [simpl in H; discriminate|].
  change (simp (S (S f)) e) with (visitM (simp_loop (simp (S f)) (S (S f))) e).
  change (simp (S f) e) with (visitM (simp_loop (simp f) (S f)) e) in H.
  apply (visitM_mono (simp_loop (simp f) (S f)) (simp_loop (simp (S f)) (S (S f)))); [|exact H].
  intros x y Hx. apply (loop_mono (simp f) (simp (S f)) IH (S f) x y Hx).
Qed.
Corollary simp_fuel_irrelevant : forall f f' e r, (f <= f')%nat -> simp f e = Ok r -> simp f' e = Ok r.
Proof. intros f f' e r L H. induction L as [|m _ IH]; [exact H | apply simp_fuel_mono; exact IH]. Qed.
(** hence two successful runs agree, whatever their fuel *)
Corollary simp_deterministic_in_fuel : forall f f' e r r', simp f e = Ok r -> simp f' e = Ok r' -> r = r'.
Proof.
  intros f f' e r r' H H'. destruct (Nat.le_ge_cases f f') as [L|L].
  - rewrite (simp_fuel_irrelevant f f' e r L H) in H'. inversion H'. reflexivity.
  - rewrite (simp_fuel_irrelevant f' f e r' L H') in H. inversion H. reflexivity.
Qed.

(** * All assignments of one instruction read the pre-state *)
Definition aff_dst (a : expr) : expr := match a with EAff d _ => d | _ => a end.
Definition aff_src (a : expr) : expr := match a with EAff _ s => s | _ => a end.
Definition reg_aff (a : expr) : bool := match a with EAff (EId _ _ _ _) _ => true | _ => false end.
Definition step_mod (fuel : nat) (s : pool) (acc : res (list (expr * expr)) + xerr) (aff : expr) : res (list (expr * expr)) + xerr :=
  dox out <- acc;
  match aff with
  | EAff dst src =>
      dox v <- eval_expr fuel s src;
      match dst with
      | EMem addr w _ => dox a <- (dox y <- eval_expr fuel s addr; lift (simpF y)); okx (adict_set out (EMem a w None) v)
      | EId _ _ _ _ => okx (adict_set out dst v)
      | _ => inl (Err EValueError)
      end
  | _ => inl (Err ETypeError)
  end.
Lemma get_instr_mod_fold fuel s affs : get_instr_mod fuel s affs = fold_left (step_mod fuel s) affs (okx []).
Proof. reflexivity. Qed.

Lemma fold_err {A} (f : res (list (expr * expr)) + xerr -> A -> res (list (expr * expr)) + xerr) (l : list A) x :
  (forall a, f x a = x) -> fold_left f l x = x.
Proof. intros H. induction l as [|a l IH]; simpl; [reflexivity | rewrite H; exact IH]. Qed.

(** for register destinations: the sources are evaluated one after the other in the SAME state s — the state the instruction
    started in — and only then bound, in order; no source sees a value assigned by the same instruction *)
Theorem assignments_read_pre_state fuel s : forall affs acc0, forallb reg_aff affs = true ->
  fold_left (step_mod fuel s) affs (okx acc0) =
  (dox vs <- mapX (fun a => eval_expr fuel s (aff_src a)) affs;
   okx (fold_left (fun out dv => adict_set out (fst dv) (snd dv)) (combine (map aff_dst affs) vs) acc0)).
Proof.
  induction affs as [|a affs IH]; intros acc0 R; [reflexivity|].
  simpl in R. apply andb_true_iff in R as [Ra Rr].
  destruct a as [| | | | | | |d src]; try discriminate. destruct d as [|n w r t| | | | | |]; try discriminate.
  cbn [fold_left mapX aff_src aff_dst map]. unfold step_mod at 2. cbn [bindx okx].
  destruct (eval_expr fuel s src) as [[v| |]|e] eqn:E; cbn [bindx okx].
  - rewrite (IH _ Rr). destruct (mapX (fun a => eval_expr fuel s (aff_src a)) affs) as [[vs| |]|]; reflexivity.
  - apply fold_err. intros a0. reflexivity.
  - apply fold_err. intros a0. reflexivity.
  - apply fold_err. intros a0. reflexivity.
Qed.
