(** SubMem.v — the geometry of substract_mems (miasmx/expression/expression_eval_abstract.py), the routine that decides what remains
    of a stored memory cell a = [a, a + aw) once an overlapping cell b = [b, b + bw) is written (C07, overlapping memory):
    (1) the pieces the model EvalAbs.substract_mems returns are, in order, the slices cellv[lo:hi] for the bit ranges computed by
        sub_geom from the two widths and the byte distance d = b - a alone;
    (2) for every overlapping placement those ranges are pairwise disjoint, lie inside the old cell, and cover exactly the bits of
        the old cell that the new cell does not overwrite. *)
From Coq Require Import ZArith List Bool String Lia.
From Mx Require Import Expr Simp EvalAbs.
Import ListNotations.
Open Scope Z_scope.

(** bit ranges [lo, hi) of the old cell that survive, as substract_mems computes them *)
Definition sub_geom (aw bw d : Z) : list (Z * Z) :=
  if d <? 0 then let ss := bw + d * 8 in if ss >=? aw then [] else [(ss, aw)]
  else (if d >? 0 then [(0, d * 8)] else []) ++ (if d * 8 + bw <? aw then [(d * 8 + bw, aw)] else []).

Definition covered (l : list (Z * Z)) (i : Z) : Prop := exists p, In p l /\ fst p <= i < snd p.

(** (2) the partition property; the cells overlap when -bw < 8 d < aw *)
Theorem sub_geom_partition aw bw d : 0 < aw -> 0 < bw -> - bw < d * 8 < aw ->
  (forall p, In p (sub_geom aw bw d) -> 0 <= fst p < snd p /\ snd p <= aw) /\
  (forall i, 0 <= i < aw -> (covered (sub_geom aw bw d) i <-> ~ (d * 8 <= i < d * 8 + bw))) /\
  (forall p q, In p (sub_geom aw bw d) -> In q (sub_geom aw bw d) -> p <> q -> snd p <= fst q \/ snd q <= fst p).
Proof.
  intros Ha Hb Ho. unfold sub_geom. destruct (Z.ltb_spec d 0) as [N|N].
  - cbv zeta. destruct (Z.geb_spec (bw + d * 8) aw) as [G|G].
    + split; [intros p []|]. split; [|intros p q []]. intros i Hi. split; [intros [p [[] _]] | intros H; exfalso; apply H; lia].
    + split; [intros p [<-|[]]; cbn; lia|]. split; [|intros p q [<-|[]] [<-|[]] Hn; congruence].
      intros i Hi. split.
      * intros [p [[<-|[]] Hp]]. cbn in Hp. lia.
      * intros H. exists (bw + d * 8, aw). split; [left; reflexivity | cbn; lia].
  - destruct (Z.gtb_spec d 0) as [P|P]; destruct (Z.ltb_spec (d * 8 + bw) aw) as [T|T]; cbn [app].
    + split; [intros p [<-|[<-|[]]]; cbn; lia|]. split.
      * intros i Hi. split.
        -- intros [p [[<-|[<-|[]]] Hp]]; cbn in Hp; lia.
        -- intros H. destruct (Z_lt_le_dec i (d * 8)) as [L|L]; [exists (0, d * 8) | exists (d * 8 + bw, aw)]; (split; [cbn; tauto | cbn; lia]).
      * intros p q [<-|[<-|[]]] [<-|[<-|[]]] Hn; cbn; try congruence; lia.
    + split; [intros p [<-|[]]; cbn; lia|]. split; [|intros p q [<-|[]] [<-|[]] Hn; congruence].
      intros i Hi. split.
      * intros [p [[<-|[]] Hp]]. cbn in Hp. lia.
      * intros H. exists (0, d * 8). split; [left; reflexivity | cbn; lia].
    + split; [intros p [<-|[]]; cbn; lia|]. split; [|intros p q [<-|[]] [<-|[]] Hn; congruence].
      intros i Hi. split.
      * intros [p [[<-|[]] Hp]]. cbn in Hp. lia.
      * intros H. exists (d * 8 + bw, aw). split; [left; reflexivity | cbn; lia].
    + split; [intros p []|]. split; [|intros p q []]. intros i Hi. split; [intros [p [[] _]] | intros H; exfalso; apply H; lia].
Qed.

(** (1) the model returns the slices of those ranges *)
Lemma bindx_ok {A B} (x : res A + xerr) (f : A -> res B + xerr) r : bindx x f = okx r -> exists a, x = okx a /\ f a = okx r.
Proof. unfold bindx, okx. destruct x as [[a|e|]|e]; intros H; try discriminate. exists a. split; [reflexivity | exact H]. Qed.

Theorem substract_mems_geometry fuel s aaddr aw sg cellv baddr bw pieces :
  substract_mems fuel s (EMem aaddr aw sg) cellv baddr bw = okx pieces ->
  exists dv sgd wd, (dox y <- eval_expr fuel s (EOp "-" [baddr; aaddr]); lift (simpF y)) = okx (EInt sgd wd dv) /\
    map snd pieces = map (fun p => getitem cellv (fst p) (snd p)) (sub_geom aw bw (int32_of dv)).
Proof.
  unfold substract_mems. intros H. apply bindx_ok in H as [d [Ed H]]. destruct d as [sgd wd dv| | | | | | |]; try discriminate.
  exists dv, sgd, wd. split; [exact Ed|]. unfold sub_geom. set (pd := int32_of dv) in *. destruct (pd <? 0).
  - cbv zeta. destruct (bw + pd * 8 >=? aw); [injection H as <-; reflexivity|]. apply bindx_ok in H as [rp [_ H]]. injection H as <-. reflexivity.
  - apply bindx_ok in H as [py [Epy H]]. injection H as <-. rewrite !map_app. f_equal.
    + destruct (pd >? 0); reflexivity.
    + destruct (pd * 8 + bw <? aw); [|injection Epy as <-; reflexivity]. apply bindx_ok in Epy as [ex [_ Epy]]. injection Epy as <-. reflexivity.
Qed.

(** the widths of the returned cells are the lengths of the ranges, when the stored value has the width of its cell *)
Lemma clip_id a n : 0 <= a <= n -> clip a n = a.
Proof. unfold clip. intros H. destruct (a <? 0) eqn:E1; [apply Z.ltb_lt in E1; lia|]. cbv zeta. repeat match goal with |- context [if ?c then _ else _] => destruct c eqn:? end; lia. Qed.
Theorem substract_mems_widths fuel s aaddr aw sg cellv baddr bw pieces dv sgd wd :
  substract_mems fuel s (EMem aaddr aw sg) cellv baddr bw = okx pieces ->
  (dox y <- eval_expr fuel s (EOp "-" [baddr; aaddr]); lift (simpF y)) = okx (EInt sgd wd dv) ->
  size cellv = aw -> 0 < aw -> 0 < bw -> - bw < int32_of dv * 8 < aw ->
  map (fun p => size (fst p)) pieces = map (fun p => snd p - fst p) (sub_geom aw bw (int32_of dv)).
Proof.
  unfold substract_mems. intros H Ed Sc Ha Hb Ho. rewrite Ed in H. cbn [bindx okx] in H. unfold sub_geom. set (pd := int32_of dv) in *. destruct (Z.ltb_spec pd 0) as [N|N].
  - cbv zeta in *. destruct (bw + pd * 8 >=? aw); [injection H as <-; reflexivity|]. apply bindx_ok in H as [rp [_ H]]. injection H as <-. reflexivity.
  - apply bindx_ok in H as [py [Epy H]]. injection H as <-. rewrite !map_app. f_equal.
    + destruct (pd >? 0); cbn; [f_equal; lia | reflexivity].
    + destruct (Z.ltb_spec (pd * 8 + bw) aw) as [T|T]; [|injection Epy as <-; reflexivity]. apply bindx_ok in Epy as [ex [_ Epy]]. injection Epy as <-. cbn [map fst snd size].
      f_equal. unfold getitem. cbv zeta. cbn [size]. rewrite Sc. rewrite !clip_id by lia. reflexivity.
Qed.
(** and the value of a returned slice is that bit range of the stored value *)
Theorem getitem_value rho mu iota cellv lo hi : 0 <= lo <= hi -> hi <= size cellv ->
  eval rho mu iota (getitem cellv lo hi) = (Z.shiftr (eval rho mu iota cellv) lo) mod 2 ^ (hi - lo).
Proof. intros H1 H2. unfold getitem. cbv zeta. rewrite !clip_id by lia. reflexivity. Qed.

(** the window get_mem_overlapping scans (byte offsets -7 .. w/8 - 1 from the written address) together with its filter
    (a cell starting before the written address is dropped when 8 * distance >= its width) finds exactly the overlapping cells,
    for stored cells of at most 64 bits *)
Lemma In_range_from i : forall n lo, In i (range_from lo n) <-> lo <= i < lo + Z.of_nat n.
Proof.
  induction n as [|n IH]; intros lo; cbn [range_from]; [split; [intros [] | lia]|]. split.
  - intros [<-|H]; [lia|]. apply IH in H. lia.
  - intros H. destruct (Z.eq_dec i lo) as [->|N]; [left; reflexivity | right; apply IH; lia].
Qed.
Theorem overlap_window_exact w cw i : 0 < w -> w mod 8 = 0 -> 0 < cw <= 64 ->
  (In i (range_from (-7) (Z.to_nat (7 + w / 8))) /\ (8 * (- i) >=? cw) = false) <-> (i * 8 < w /\ 0 < i * 8 + cw).
Proof.
  intros Hw H8 Hc. rewrite In_range_from. assert (E : w = 8 * (w / 8)) by (apply Z.div_exact; lia). assert (Q : 0 < w / 8) by lia.
  rewrite Z2Nat.id by lia. destruct (Z.geb_spec (8 * - i) cw) as [G|G]; split; intros H; try lia.
Qed.

(** what get_mem_overlapping reports: every reported (offset, cell) comes from the scanned window, is the cell stored at the address
    the offset evaluates to, and passed the distance filter; conversely every stored cell met in the window that passes the filter
    is reported *)
Lemma mapX_ok {A B} (f : A -> res B + xerr) : forall l r, mapX f l = okx r -> Forall2 (fun a b => f a = okx b) l r.
Proof.
  induction l as [|a l IH]; intros r H; cbn [mapX] in H; [injection H as <-; constructor|].
  apply bindx_ok in H as [b [Eb H]]. apply bindx_ok in H as [r' [Er H]]. injection H as <-. constructor; [exact Eb | apply IH; exact Er].
Qed.
Section Overlap.
  Variables (fuel : nat) (s : pool) (a_val : expr) (w : Z).
  Let evs x := (dox y <- eval_expr fuel s x; lift (simpF y)).
  Definition reported (i : Z) (x cell v : expr) : Prop :=
    evs (mk_add a_val i) = okx x /\ adict_get (pool_mem s) x = Some (cell, v) /\
    exists sg wd dv, evs (mk_sub a_val x) = okx (EInt sg wd dv) /\ (8 * int32_of dv >=? size v) = false.
  Theorem mem_overlapping_exact ov : mem_overlapping fuel s a_val w = okx ov ->
    forall i cell v, In (i, (cell, v)) ov <-> (In i (range_from (-7) (Z.to_nat (7 + w / 8))) /\ exists x, reported i x cell v).
  Proof.
    unfold mem_overlapping. fold evs. intros H. apply bindx_ok in H as [tests [Et H]]. apply mapX_ok in Et.
    set (go := fix go (l : list (Z * expr)) : res (list (Z * (expr * expr))) + xerr :=
       match l with
       | [] => okx []
       | (i, x) :: r =>
           match adict_get (pool_mem s) x with
           | None => go r
           | Some (cell, v) =>
               dox d <- evs (mk_sub a_val x);
               match d with
               | EInt _ _ dv => dox tl <- go r; if 8 * int32_of dv >=? size v then okx tl else okx ((i, (cell, v)) :: tl)
               | _ => inl (Err EValueError)
               end
           end
       end) in H.
    revert ov H Et. generalize (range_from (-7) (Z.to_nat (7 + w / 8))) as rng. intros rng ov H Et. revert rng Et ov H.
    induction tests as [|[j x] tests IH]; intros rng Et ov H i cell v.
    - inversion Et; subst. cbn in H. injection H as <-. split; [intros HF; cbn in HF; contradiction | intros [HF _]; cbn in HF; contradiction].
    - inversion Et as [|j0 ? rng' ? Ej Et']; subst. apply bindx_ok in Ej as [x0 [Ex Ej]]. injection Ej as <- <-. cbn [go] in H. fold go in H.
      destruct (adict_get (pool_mem s) x0) as [[c0 v0]|] eqn:Ea.
      + apply bindx_ok in H as [d [Ed H]]. destruct d as [sg wd dv| | | | | | |]; try discriminate. apply bindx_ok in H as [tl [Etl H]].
        specialize (IH rng' Et' tl Etl i cell v). destruct (8 * int32_of dv >=? size v0) eqn:F; injection H as <-.
        * rewrite IH. split.
          -- intros [Hi R]. split; [right; exact Hi | exact R].
          -- intros [[<-|Hi] [x [R1 [R2 [sg' [wd' [dv' [R3 R4]]]]]]]]; [|split; [exact Hi | exists x; repeat split; try assumption; exists sg', wd', dv'; split; assumption]].
             exfalso. unfold evs in *. rewrite Ex in R1. injection R1 as <-. rewrite Ea in R2. injection R2 as <- <-. rewrite Ed in R3. injection R3 as <- <- <-. congruence.
        * split.
          -- intros [E|Hin]; [injection E as <- <- <-; split; [left; reflexivity|]; exists x0; repeat split; try assumption; exists sg, wd, dv; split; assumption|].
             apply IH in Hin as [Hi R]. split; [right; exact Hi | exact R].
          -- intros [[<-|Hi] [x [R1 [R2 [sg' [wd' [dv' [R3 R4]]]]]]]].
             ++ left. unfold evs in *. rewrite Ex in R1. injection R1 as <-. rewrite Ea in R2. injection R2 as <- <-. reflexivity.
             ++ right. apply IH. split; [exact Hi | exists x; repeat split; try assumption; exists sg', wd', dv'; split; assumption].
      + specialize (IH rng' Et' ov H i cell v). rewrite IH. split.
        * intros [Hi R]. split; [right; exact Hi | exact R].
        * intros [[<-|Hi] [x [R1 [R2 R3]]]]; [|split; [exact Hi | exists x; repeat split; assumption]].
          exfalso. unfold evs in *. rewrite Ex in R1. injection R1 as <-. rewrite Ea in R2. discriminate.
  Qed.
End Overlap.
