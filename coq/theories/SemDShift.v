(** SemDShift.v — the value half of the double shifts of the x86 lifter (miasmx/arch/ia32_sem.py: shld, shld_cl, shrd, shrd_cl): the
    expression assigned to the destination, as a Gallina function of the operand expressions the lifter was called with, and the
    recogniser comparing the LAST assignment of the regenerated list with it.  The flag assignments of this group are not mirrored;
    they are judged by the evaluation against the SDM reference.  No proofs in this file. *)
From Coq Require Import ZArith List Bool String.
From Mx Require Import Expr Sem SemShift.
Import ListNotations.
Open Scope string_scope.
Open Scope list_scope.
Open Scope Z_scope.

Inductive dsh := Shld | Shrd.
Definition dsh_of (mn : string) : option dsh := if (mn =? "shld")%string then Some Shld else if (mn =? "shrd")%string then Some Shrd else None.
(** shrd: the count is used as given *)
Definition shrd_val (a b c : expr) : expr := EOp "|" [EOp ">>" [a; c]; EOp "<<" [b; EOp "-" [int_from a (size a); c]]].
(** shld: the count is masked to five bits, and a zero count keeps the destination *)
Definition shld_count (a c : expr) : expr := EOp "&" [c; int_from a 31].
Definition shld_or (a b c : expr) : expr :=
  let s := shld_count a c in EOp "|" [EOp "<<" [a; s]; EOp ">>" [b; EOp "-" [int_from a (size a); s]]].
Definition shld_val (a b c : expr) : expr := ECond (shld_count a c) (shld_or a b c) a.
Definition dshift_val (k : dsh) (a b c : expr) : expr := match k with Shld => shld_val a b c | Shrd => shrd_val a b c end.
Definition is_dshift_mirror (k : dsh) (args l : list expr) : bool :=
  match args, last_expr l with
  | [a; b; c], Some x =>
      operand_ok a && operand_ok b && operand_ok c && (size a =? size b) && ((size a =? 16) || (size a =? 32)) && expr_eqb x (mk_aff a (dshift_val k a b c))
  | _, _ => false
  end.
