(** SemMov.v — mirror of the data-movement / flag-setting group of the x86 lifter (miasmx/arch/ia32_sem.py: mov xchg movzx movsx lea
    not push pop nop clc stc cmc cld std) as Gallina functions from the OPERAND expressions the lifter was called with (tie S: they
    are dumped beside the lifted list) to assignment lists, and the recogniser comparing the regenerated list with it.
    No proofs in this file. *)
From Coq Require Import ZArith List Bool String.
From Mx Require Import Expr Sem.
Import ListNotations.
Open Scope string_scope.
Open Scope list_scope.
Open Scope Z_scope.

Inductive mv := Mov | Xchg | Movzx | Movsx | Lea | Not | Push | Pop | Nop | Clc | Stc | Cmc | Cld | Std.
Definition mv_of (mn : string) : option mv :=
  let is x := (mn =? x)%string in
  if is "mov" then Some Mov else if is "xchg" then Some Xchg else if is "movzx" then Some Movzx else if is "movsx" then Some Movsx
  else if is "lea" then Some Lea else if is "not" then Some Not else if is "push" then Some Push else if is "pop" then Some Pop
  else if is "nop" then Some Nop else if is "clc" then Some Clc else if is "stc" then Some Stc else if is "cmc" then Some Cmc
  else if is "cld" then Some Cld else if is "std" then Some Std else None.

Definition esp : expr := EId "esp" 32 true false.
Definition is_segreg (a : expr) : bool :=
  match a with
  | EId n _ _ _ => (n =? "es")%string || (n =? "cs")%string || (n =? "ss")%string || (n =? "ds")%string || (n =? "fs")%string || (n =? "gs")%string
  | _ => false
  end.
Definition zext_src (a b : expr) : expr := ECompose [(EInt false 32 0, size b, size a); (b, 0, size b)].
Definition sext_src (a b : expr) : expr :=
  ECompose [(b, 0, size b); (ECond (msb b) (EInt false 32 4294967295) (EInt false 32 0), size b, size a)].
(** replace_expr({esp: new_esp}) inside the address of a memory destination (pop [esp+...]) *)
Fixpoint subst_esp (new_esp : expr) (e : expr) : expr :=
  match e with
  | EId n w r t => if expr_eqb e esp then new_esp else e
  | EOp op args => EOp op (map (subst_esp new_esp) args)
  | _ => e
  end.

(** the mirror; None = a shape this group does not cover (segment-register push/pop, lea with an address of another width, ...) *)
Definition mirror_mv (k : mv) (args : list expr) : option (list expr) :=
  match k, args with
  | Mov, [a; b] => Some [mk_aff a b]
  | Xchg, [a; b] => Some [mk_aff a b; mk_aff b a]
  | Movzx, [a; b] => if size b <? size a then Some [mk_aff a (zext_src a b)] else None
  | Movsx, [a; b] => if size b <? size a then Some [mk_aff a (sext_src a b)] else None
  | Lea, [a; EMem addr _ _] => if size addr =? size a then Some [mk_aff a addr] else None
  | Not, [b] => Some [mk_aff b (e_not b)]
  | Push, [a] =>
      if is_segreg a || negb ((size a =? 16) || (size a =? 32)) then None else
      let c := EOp "-" [esp; EInt false 32 (size a / 8)] in
      Some [EAff esp c; EAff (EMem c (size a) None) a]
  | Pop, [a] =>
      if is_segreg a || negb ((size a =? 16) || (size a =? 32)) then None else
      let new_esp := EOp "+" [esp; EInt false 32 (size a / 8)] in
      let a' := match a with EMem addr w s => EMem (subst_esp new_esp addr) w s | _ => a end in
      Some [EAff esp new_esp; mk_aff a' (EMem esp (size a) None)]
  | Nop, _ => Some []
  | Clc, [] => Some [EAff (flag "cf") (EInt false 32 0)]
  | Stc, [] => Some [EAff (flag "cf") (EInt false 32 1)]
  | Cmc, [] => Some [EAff (flag "cf") (ECond (flag "cf") (i1 0) (i1 1))]
  | Cld, [] => Some [EAff (flag "df") (EInt false 32 0)]
  | Std, [] => Some [EAff (flag "df") (EInt false 32 1)]
  | _, _ => None
  end.
Definition is_mirror_mv (k : mv) (args l : list expr) : bool :=
  match mirror_mv k args with Some m => list_expr_eqb l m | None => false end.
