(** Expr.v — the miasmX expression IR (miasmx/expression/expression.py) as an executable model,
    and its standard bit-vector meaning.  Hand transcription (tie H); no proofs in this file. *)
From Coq Require Import ZArith List Bool String Ascii.
Import ListNotations.
Open Scope string_scope.
Open Scope Z_scope.

(** * Syntax *)
Inductive expr :=
| EInt (sg : bool) (w : Z) (v : Z)                    (* ExprInt(cls(v)); v is the [.arg] of the modint *)
| EId (name : string) (w : Z) (is_reg is_term : bool) (* ExprId *)
| EMem (a : expr) (w : Z) (segm : option expr)        (* ExprMem *)
| EOp (op : string) (args : list expr)                (* ExprOp *)
| ECond (c a b : expr)                                (* ExprCond *)
| ESlice (e : expr) (lo hi : Z)                       (* ExprSlice *)
| ECompose (args : list (expr * Z * Z))               (* ExprCompose; slots (e, start, stop) *)
| EAff (dst src : expr).                              (* ExprAff (an Expr subclass in the code) *)

Definition slot := (expr * Z * Z)%type.
Definition slot_e (s : slot) : expr := fst (fst s).
Definition slot_lo (s : slot) : Z := snd (fst s).
Definition slot_hi (s : slot) : Z := snd s.

(** * get_size (first-argument rule for operators; max stop - min start for concatenations) *)
Fixpoint size (e : expr) : Z :=
  match e with
  | EInt _ w _ => w
  | EId _ w _ _ => w
  | EMem _ w _ => w
  | EOp _ args =>
      match args with
      | [] => 0
      | a :: r => let s := size a in
                  if s =? 0 then match r with b :: _ => size b | [] => s end else s
      end
  | ECond _ a _ => size a
  | ESlice _ lo hi => hi - lo
  | ECompose args =>
      match args with
      | [] => 0
      | s0 :: r => fold_left (fun m s => Z.max m (slot_hi s)) r (slot_hi s0)
                   - fold_left (fun m s => Z.min m (slot_lo s)) r (slot_lo s0)
      end
  | EAff d _ => size d
  end.

(** * Standard bit-vector meaning *)
Definition wrap (w z : Z) : Z := z mod 2 ^ w.
Definition sgn (w z : Z) : Z := let u := wrap w z in if 2 * u >=? 2 ^ w then u - 2 ^ w else u.

Inductive opk := OAdd | OMul | OXor | OAnd | OOr | OSub | OShl | OShr | OSar | ORol | ORor | OEq | OParity | ONot | OOther.
Definition opk_of (op : string) : opk :=
  if (op =? "+")%string then OAdd else if (op =? "*")%string then OMul else if (op =? "^")%string then OXor else
  if (op =? "&")%string then OAnd else if (op =? "|")%string then OOr else if (op =? "-")%string then OSub else
  if (op =? "<<")%string then OShl else if (op =? ">>")%string then OShr else if (op =? "a>>")%string then OSar else
  if (op =? "<<<")%string then ORol else if (op =? ">>>")%string then ORor else if (op =? "==")%string then OEq else
  if (op =? "parity")%string then OParity else if (op =? "!")%string then ONot else OOther.
Definition is_assoc (op : string) : bool :=
  match opk_of op with OAdd | OMul | OXor | OAnd | OOr => true | _ => false end.

Definition parity8 (z : Z) : Z :=
  let b i := Z.b2z (Z.testbit z i) in
  1 - ((b 0 + b 1 + b 2 + b 3 + b 4 + b 5 + b 6 + b 7) mod 2).

Definition rol (w a c : Z) : Z :=
  let r := c mod w in wrap w (Z.lor (Z.shiftl a r) (Z.shiftr a (w - r))).
Definition ror (w a c : Z) : Z :=
  let r := c mod w in wrap w (Z.lor (Z.shiftr a r) (Z.shiftl a (w - r))).

(** the lifter's named integer operators (never evaluated by the library itself): their arithmetic meaning.
    N-bit operands are taken from the low N bits of the arguments. *)
Definition bit_scan_fwd (v : Z) : Z :=
  (fix go (n : nat) (i : Z) : Z := match n with O => 0 | S k => if Z.testbit v i then i else go k (i + 1) end) 64%nat 0.
Definition bit_scan_rev (v : Z) : Z := if v <=? 0 then 0 else Z.log2 v.
Definition quot_trunc (a b : Z) : Z := Z.quot a b.
Definition named_op (op : string) (vs : list Z) : option Z :=
  let mulu n a b := (wrap n a) * (wrap n b) in
  let muls n a b := (sgn n a) * (sgn n b) in
  let big n hi lo := wrap n hi * 2 ^ n + wrap n lo in
  let sbig n hi lo := sgn (2 * n) (big n hi lo) in
  let is n := (op =? n)%string in
  match vs with
  | [a; b] =>
      if is "umul32_lo" then Some (wrap 32 (mulu 32 a b)) else if is "umul32_hi" then Some (Z.shiftr (mulu 32 a b) 32)
      else if is "umul16_lo" then Some (wrap 16 (mulu 16 a b)) else if is "umul16_hi" then Some (Z.shiftr (mulu 16 a b) 16)
      else if is "umul08" then Some (mulu 8 a b)
      else if is "imul32_lo" then Some (wrap 32 (muls 32 a b)) else if is "imul32_hi" then Some (wrap 32 (Z.shiftr (muls 32 a b) 32))
      else if is "imul16_lo" then Some (wrap 16 (muls 16 a b)) else if is "imul16_hi" then Some (wrap 16 (Z.shiftr (muls 16 a b) 16))
      else if is "imul08" then Some (wrap 16 (muls 8 a b))
      else None
  | [hi; lo; d] =>
      let udiv n := if wrap n d =? 0 then 0 else wrap n (big n hi lo / wrap n d) in
      let urem n := if wrap n d =? 0 then 0 else wrap n (big n hi lo mod wrap n d) in
      let sdiv n := if wrap n d =? 0 then 0 else wrap n (Z.quot (sbig n hi lo) (sgn n d)) in
      let srem n := if wrap n d =? 0 then 0 else wrap n (Z.rem (sbig n hi lo) (sgn n d)) in
      if is "div8" then Some (udiv 8) else if is "div16" then Some (udiv 16) else if is "div32" then Some (udiv 32)
      else if is "rem8" then Some (urem 8) else if is "rem16" then Some (urem 16) else if is "rem32" then Some (urem 32)
      else if is "idiv8" then Some (sdiv 8) else if is "idiv16" then Some (sdiv 16) else if is "idiv32" then Some (sdiv 32)
      else if is "irem8" then Some (srem 8) else if is "irem16" then Some (srem 16) else if is "irem32" then Some (srem 32)
      else None
  | [a] => if is "bsf" then Some (bit_scan_fwd a) else if is "bsr" then Some (bit_scan_rev a) else None
  | _ => None
  end.

Definition rc_ring (left : bool) (w a c f : Z) : Z :=
  let n := w + 1 in
  let r := (Z.land c 31) mod n in
  let t := Z.lor (Z.shiftl (wrap w a) 1) (wrap 1 f) in
  wrap n (if left then Z.lor (Z.shiftl t r) (Z.shiftr t (n - r)) else Z.lor (Z.shiftr t r) (Z.shiftl t (n - r))).
Definition rc_op (op : string) (w : Z) (vs : list Z) : option Z :=
  match vs with
  | [a; c; f] =>
      if (op =? "<<<c_rez")%string then Some (Z.shiftr (rc_ring true w a c f) 1)
      else if (op =? "<<<c_cf")%string then Some (Z.land (rc_ring true w a c f) 1)
      else if (op =? ">>>c_rez")%string then Some (Z.shiftr (rc_ring false w a c f) 1)
      else if (op =? ">>>c_cf")%string then Some (Z.land (rc_ring false w a c f) 1)
      else None
  | _ => None
  end.

(** value of an operator node of width w (= width of its first operand) on operand values that are
    already reduced to their own widths; [iota] interprets every operator not listed in the property *)
Definition eval_op (iota : string -> list Z -> Z) (op : string) (w : Z) (vs : list Z) : Z :=
  match opk_of op, vs with
  | OAdd, _ => wrap w (fold_left Z.add vs 0)
  | OMul, _ => wrap w (fold_left Z.mul vs 1)
  | OXor, _ => wrap w (fold_left Z.lxor vs 0)
  | OOr, _ => wrap w (fold_left Z.lor vs 0)
  | OAnd, v :: r => wrap w (fold_left Z.land r v)
  | OSub, [a] => wrap w (- a)
  | OSub, [a; b] => wrap w (a - b)
  (* counts are saturated at w: the same function as the unsaturated shift on w-bit operands, but computable
     for huge counts (a 2^64-fold iteration otherwise) *)
  | OShl, [a; c] => wrap w (Z.shiftl a (Z.min c w))
  | OShr, [a; c] => wrap w (Z.shiftr (wrap w a) (Z.min c w))
  | OSar, [a; c] => wrap w (Z.shiftr (sgn w a) (Z.min c w))
  | ORol, [a; c] => if w =? 0 then 0 else rol w (wrap w a) c
  | ORor, [a; c] => if w =? 0 then 0 else ror w (wrap w a) c
  | OEq, [a; b] => if a =? b then wrap w 1 else 0
  | OParity, [a] => wrap w (parity8 a)
  | ONot, [a] => wrap w (Z.lnot a)
  | _, _ => match rc_op op w vs with Some v => wrap w v | None =>
            match named_op op vs with Some v => wrap w v | None => wrap w (iota op vs) end end
  end.

Section Eval.
  Variable rho : string -> Z.            (* valuation of identifiers (by name) *)
  Variable mu : Z -> Z.                  (* flat byte memory, segment ignored, addresses mod 2^32 *)
  Variable iota : string -> list Z -> Z. (* uninterpreted operators *)

  Fixpoint le_read (a : Z) (n : nat) : Z :=
    match n with
    | O => 0
    | S k => (mu (wrap 32 a)) mod 256 + 256 * le_read (a + 1) k
    end.
  Definition mem_read (a w : Z) : Z := wrap w (le_read a (Z.to_nat ((w + 7) / 8))).

  Fixpoint eval (e : expr) : Z :=
    match e with
    | EInt _ w v => wrap w v
    | EId n w _ _ => wrap w (rho n)
    | EMem a w _ => mem_read (eval a) w
    | EOp op args => eval_op iota op (size e) (map eval args)
    | ECond c a b => if eval c =? 0 then eval b else eval a
    | ESlice e1 lo hi => wrap (hi - lo) (Z.shiftr (eval e1) lo)
    | ECompose args =>
        fold_left (fun acc s => Z.lor acc (Z.shiftl (wrap (slot_hi s - slot_lo s) (eval (slot_e s))) (slot_lo s)))
                  args 0
    | EAff _ s => eval s
    end.
End Eval.

(** * Equality as written in the per-class __eq__ methods *)
Definition opt_eqb {A} (f : A -> A -> bool) (x y : option A) : bool :=
  match x, y with None, None => true | Some a, Some b => f a b | _, _ => false end.

Fixpoint expr_eqb (x y : expr) {struct x} : bool :=
  match x, y with
  | EInt _ w v, EInt _ w' v' => (v =? v') && (w =? w')
  | EId n w r _, EId n' w' r' _ => (n =? n')%string && (w =? w') && Bool.eqb r r'
  | EMem a w s, EMem a' w' s' =>
      expr_eqb a a' && (w =? w') &&
      match s, s' with None, None => true | Some u, Some u' => expr_eqb u u' | _, _ => false end
  | EOp op args, EOp op' args' =>
      (op =? op')%string &&
      (fix go (l l' : list expr) {struct l} : bool :=
         match l, l' with
         | [], [] => true
         | a :: r, a' :: r' => expr_eqb a a' && go r r'
         | _, _ => false
         end) args args'
  | ECond c a b, ECond c' a' b' => expr_eqb c c' && expr_eqb a a' && expr_eqb b b'
  | ESlice e lo hi, ESlice e' lo' hi' => expr_eqb e e' && (lo =? lo') && (hi =? hi')
  | ECompose args, ECompose args' =>
      (fix go (l l' : list slot) {struct l} : bool :=
         match l, l' with
         | [], [] => true
         | (a, lo, hi) :: r, (a', lo', hi') :: r' => expr_eqb a a' && (lo =? lo') && (hi =? hi') && go r r'
         | _, _ => false
         end) args args'
  | EAff d s, EAff d' s' => expr_eqb s s' && expr_eqb d d'
  | _, _ => false
  end.

(** * __hash__ (XOR formulas) over an arbitrary host hash for strings, ints and None *)
Section Hash.
  Variable hs : string -> Z.
  Variable hi : Z -> Z.
  Variable hnone : Z.
  Fixpoint hash (e : expr) : Z :=
    match e with
    | EInt _ _ v => hi v
    | EId n _ _ _ => hs n
    | EMem a w s => Z.lxor (Z.lxor (hash a) (hi w)) (match s with None => hnone | Some u => hash u end)
    | EOp op args => fold_left (fun h a => Z.lxor h (hash a)) args (hs op)
    | ECond c a b => Z.lxor (Z.lxor (hash c) (hash a)) (hash b)
    | ESlice e1 lo hi' => Z.lxor (Z.lxor (hash e1) (hi lo)) (hi hi')
    | ECompose args =>
        fold_left (fun h s => Z.lxor h (Z.lxor (Z.lxor (hash (slot_e s)) (hi (slot_lo s))) (hi (slot_hi s)))) args 0
    | EAff d s => Z.lxor (hash d) (hash s)
    end.
End Hash.

(** * key_expr and the stable sort of canonize_expr_list *)
Inductive key := KI (z : Z) | KS (s : string) | KL (l : list key).

Fixpoint key_cmp (a b : key) {struct a} : comparison :=
  match a, b with
  | KI x, KI y => Z.compare x y
  | KS x, KS y => String.compare x y
  | KL la, KL lb =>
      (fix go (la lb : list key) {struct la} : comparison :=
         match la, lb with
         | [], [] => Eq
         | [], _ :: _ => Lt
         | _ :: _, [] => Gt
         | x :: xs, y :: ys => match key_cmp x y with Eq => go xs ys | c => c end
         end) la lb
  | KI _, _ => Lt          (* mixed kinds never meet at one position for keys of expressions *)
  | KS _, KI _ => Gt
  | KS _, KL _ => Lt
  | KL _, _ => Gt
  end.

Fixpoint key_expr (e : expr) : key :=
  match e with
  | EId n w _ _ => KL [KI 1; KS n; KI w]
  | ECond c a b => KL [KI 2; key_expr c; key_expr a; key_expr b]
  | EMem a w s => KL (KI 3 :: key_expr a :: KI w :: match s with Some u => [key_expr u] | None => [] end)   (* the selector's key last (fix of C13) *)
  | EOp op args => KL (KI 4 :: KS op :: map key_expr args)
  | ESlice e1 lo hi => KL [KI 5; key_expr e1; KI lo; KI hi]
  | EAff _ _ => KL [KI 6]                (* the code raises NameError here; never reached on value expressions *)
  | ECompose args => KL (KI 7 :: map (fun s => KL [KI (slot_lo s); key_expr (slot_e s); KI (slot_hi s)]) args)
  | EInt _ _ v => KL [KI 8; KI v]
  end.
Definition key_slot (s : slot) : key := KL [KI (slot_lo s); key_expr (slot_e s); KI (slot_hi s)].

(** stable insertion sort: x goes after every element whose key is <= key x (what sorted() does) *)
Fixpoint insert_by {A} (k : A -> key) (x : A) (l : list A) : list A :=
  match l with
  | [] => [x]
  | y :: r => match key_cmp (k x) (k y) with Lt => x :: l | _ => y :: insert_by k x r end
  end.
Definition sort_by {A} (k : A -> key) (l : list A) : list A :=
  fold_left (fun acc x => insert_by k x acc) l [].

Definition canonize_expr_list (l : list expr) : list expr := sort_by key_expr l.
Definition canonize_expr_list_compose (l : list slot) : list slot := sort_by key_slot l.

(** * visit(cb): bottom-up rebuild, keeping the old node when no child changed under == *)
Fixpoint all2 {A} (f : A -> A -> bool) (l l' : list A) : bool :=
  match l, l' with
  | [], [] => true
  | a :: r, a' :: r' => f a a' && all2 f r r'
  | _, _ => false
  end.

Section Visit.
  Variable cb : expr -> expr.
  Fixpoint visit (e : expr) : expr :=
    cb (match e with
        | EInt _ _ _ | EId _ _ _ _ => e
        | EAff d s =>
            let d' := visit d in let s' := visit s in
            if expr_eqb d' d && expr_eqb s' s then e else EAff d' s'
        | ECond c a b =>
            let c' := visit c in let a' := visit a in let b' := visit b in
            if expr_eqb c' c && expr_eqb a' a && expr_eqb b' b then e else ECond c' a' b'
        | EMem a w s =>
            let s' := match s with Some u => Some (visit u) | None => None end in
            let a' := visit a in
            if opt_eqb expr_eqb s' s && expr_eqb a' a then e else EMem a' w s'
        | EOp op args =>
            let args' := map visit args in
            if all2 expr_eqb args args' then e else EOp op args'
        | ESlice e1 lo hi =>
            let e1' := visit e1 in
            if expr_eqb e1' e1 then e else ESlice e1' lo hi
        | ECompose args =>
            let args' := map (fun s => (visit (slot_e s), slot_lo s, slot_hi s)) args in
            if all2 (fun s s' => expr_eqb (slot_e s) (slot_e s') && (slot_lo s =? slot_lo s') && (slot_hi s =? slot_hi s')) args args'
            then e else ECompose args'
        end).
End Visit.

(** copy(): per-class deep copy (ExprInt/ExprId/... each rebuild themselves) *)
Fixpoint copy (e : expr) : expr :=
  match e with
  | EInt sg w v => EInt sg w v
  | EId n w r t => EId n w r t
  | EMem a w s => EMem (copy a) w (match s with Some u => Some (copy u) | None => None end)
  | EOp op args => EOp op (map copy args)
  | ECond c a b => ECond (copy c) (copy a) (copy b)
  | ESlice e1 lo hi => ESlice (copy e1) lo hi
  | ECompose args => ECompose (map (fun s => (copy (slot_e s), slot_lo s, slot_hi s)) args)
  | EAff d s => EAff (copy d) (copy s)
  end.

(** replace_expr(dct): dct is a Python dict keyed by expressions (hash + ==): first key == e wins *)
Fixpoint dict_get (d : list (expr * expr)) (e : expr) : option expr :=
  match d with
  | [] => None
  | (k, v) :: r => if expr_eqb k e then Some v else dict_get r e
  end.
Definition replace_cb (d : list (expr * expr)) (e : expr) : expr :=
  match dict_get d e with Some v => v | None => e end.
Definition replace_expr (d : list (expr * expr)) (e : expr) : expr := visit (replace_cb d) e.

(** canonize(): sort operands of commutative-associative operators and the slots of concatenations *)
Definition canon_cb (e : expr) : expr :=
  match e with
  | EOp op args => if is_assoc op then EOp op (canonize_expr_list args) else e
  | ECompose args => ECompose (canonize_expr_list_compose args)
  | _ => e
  end.
Definition canonize (e : expr) : expr := visit canon_cb e.

(** * get_r / get_w: sets of identifiers and memory cells (as duplicate-free lists under ==) *)
Fixpoint mem_eqb (e : expr) (l : list expr) : bool :=
  match l with [] => false | x :: r => expr_eqb x e || mem_eqb e r end.
Definition set_add (e : expr) (l : list expr) : list expr := if mem_eqb e l then l else (l ++ [e])%list.
Definition set_union (a b : list expr) : list expr := fold_left (fun acc e => set_add e acc) b a.

Fixpoint get_r (mem_read : bool) (e : expr) : list expr :=
  match e with
  | EInt _ _ _ => []
  | EId _ _ _ _ => [e]
  | EMem a _ _ => if mem_read then set_add e (get_r mem_read a) else [e]
  | EOp _ args => fold_left (fun acc a => set_union acc (get_r mem_read a)) args []
  | ECond c a b => set_union (set_union (get_r mem_read c) (get_r mem_read a)) (get_r mem_read b)
  | ESlice e1 _ _ => get_r mem_read e1
  | ECompose args => fold_left (fun acc s => set_union acc (get_r mem_read (slot_e s))) args []
  | EAff d s => match d with EMem a _ _ => set_union (get_r mem_read s) (get_r mem_read a) | _ => get_r mem_read s end
  end.

(** get_w: None where the code raises (operators, concatenations) *)
Fixpoint get_w (e : expr) : option (list expr) :=
  match e with
  | EInt _ _ _ => Some []
  | EId _ _ _ _ => Some [e]
  | EMem _ _ _ => Some [e]
  | EOp _ _ => None
  | ECond _ _ _ => Some []
  | ESlice e1 _ _ => get_w e1
  | ECompose _ => None
  | EAff d _ => match d with EMem _ _ _ => Some [d] | _ => get_w d end
  end.

(** get_expr_ids: every identifier occurring anywhere (incl. inside addresses and segments) *)
Fixpoint get_expr_ids (e : expr) : list expr :=
  match e with
  | EInt _ _ _ => []
  | EId _ _ _ _ => [e]
  | EMem a _ s => set_union (match s with Some u => get_expr_ids u | None => [] end) (get_expr_ids a)
  | EOp _ args => fold_left (fun acc a => set_union acc (get_expr_ids a)) args []
  | ECond c a b => set_union (set_union (get_expr_ids c) (get_expr_ids a)) (get_expr_ids b)
  | ESlice e1 _ _ => get_expr_ids e1
  | ECompose args => fold_left (fun acc s => set_union acc (get_expr_ids (slot_e s))) args []
  | EAff d s => set_union (get_expr_ids d) (get_expr_ids s)
  end.

(** * MatchExpr(e, m, tks, result): returns False, True, or the (shared, mutated) result dict.
    The model threads the dict explicitly and mirrors the three return conventions, including
    [if not r: return False] treating an EMPTY dict as failure inside ExprCond / ExprCompose. *)
Definition binds := list (expr * expr).
Inductive mret := RFalse | RTrue | RDict.
Definition falsy (r : mret) (res : binds) : bool :=
  match r with RFalse => true | RTrue => false | RDict => match res with [] => true | _ => false end end.

Fixpoint dict_set (d : binds) (k v : expr) : binds :=
  match d with
  | [] => [(k, v)]
  | (k', v') :: r => if expr_eqb k' k then (k', v) :: r else (k', v') :: dict_set r k v
  end.
Definition test_set (e v : expr) (tks : list expr) (res : binds) : mret * binds :=
  if negb (mem_eqb v tks) then ((if expr_eqb e v then RTrue else RFalse), res)
  else match dict_get res v with
       | Some e' => if expr_eqb e' e then (RDict, dict_set res v e) else (RFalse, res)
       | None => (RDict, (res ++ [(v, e)])%list)
       end.

Fixpoint match_expr (tks : list expr) (e m : expr) (res : binds) {struct e} : mret * binds :=
  if mem_eqb m tks then test_set e m tks res else
  match e with
  | EInt _ _ _ | EId _ _ _ _ => test_set e m tks res
  | EOp op args =>
      match m with
      | EOp op' args' =>
          if negb (op =? op')%string || negb (Nat.eqb (List.length args) (List.length args')) then (RFalse, res) else
          (fix go (l l' : list expr) (res : binds) {struct l} : mret * binds :=
             match l, l' with
             | a :: r, a' :: r' =>
                 let '(rr, res') := match_expr tks a a' res in
                 match rr with RFalse => (RFalse, res') | _ => go r r' res' end
             | _, _ => (RDict, res)
             end) args args' res
      | _ => (RFalse, res)
      end
  | EMem a w s =>
      match m with
      | EMem a' w' s' => if negb (w =? w') || negb (opt_eqb expr_eqb s s') then (RFalse, res) else match_expr tks a a' res
      | _ => (RFalse, res)
      end
  | ESlice e1 lo hi =>
      match m with
      | ESlice e1' lo' hi' => if negb (lo =? lo') || negb (hi =? hi') then (RFalse, res) else match_expr tks e1 e1' res
      | _ => (RFalse, res)
      end
  | ECond c a b =>
      match m with
      | ECond c' a' b' =>
          let '(r1, res1) := match_expr tks c c' res in
          if falsy r1 res1 then (RFalse, res1) else
          let '(r2, res2) := match_expr tks a a' res1 in
          if falsy r2 res2 then (RFalse, res2) else
          let '(r3, res3) := match_expr tks b b' res2 in
          if falsy r3 res3 then (RFalse, res3) else (RDict, res3)
      | _ => (RFalse, res)
      end
  | ECompose args =>
      match m with
      | ECompose args' =>
          if negb (Nat.eqb (List.length args) (List.length args')) then (RFalse, res) else
          (fix go (l l' : list slot) (res : binds) {struct l} : mret * binds :=
             match l, l' with
             | (a, lo, hi) :: r, (a', lo', hi') :: r' =>
                 if negb (lo =? lo') || negb (hi =? hi') then (RFalse, res) else
                 let '(rr, res') := match_expr tks a a' res in
                 if falsy rr res' then (RFalse, res') else go r r' res'
             | _, _ => (RDict, res)
             end) args args' res
      | _ => (RFalse, res)
      end
  | EAff _ _ => (RFalse, res)
  end.
