(** EvalAbs.v — executable model of miasmx/expression/expression_eval_abstract.py (class eval_abs):
    eval_expr and its per-class cases, the memory look-up paths of eval_ExprMem, get_mem_overlapping,
    substract_mems, get_instr_mod / eval_instr.  Hand transcription (tie H); no proofs in this file.
    NOT in this model (they are the subject of C12): the per-object flags is_eval / is_term-on-ExprMem,
    the eval_cache dictionaries.  The model is exact for states whose binding expressions mention only
    symbols the state leaves free (the init_* discipline of x86_machine). *)
From Coq Require Import ZArith List Bool String.
From Mx Require Import ModInt Expr Simp.
Import ListNotations.
Open Scope string_scope.
Open Scope Z_scope.

Definition simpF : expr -> res expr := simp 40.

(** mpool: pool_id keyed by ExprId, pool_mem keyed by the address expression, holding (cell, value) *)
Record pool := Pool { pool_id : list (expr * expr); pool_mem : list (expr * (expr * expr)) }.

Fixpoint adict_get {V} (d : list (expr * V)) (k : expr) : option V :=
  match d with [] => None | (k', v) :: r => if expr_eqb k' k then Some v else adict_get r k end.
Fixpoint adict_set {V} (d : list (expr * V)) (k : expr) (v : V) : list (expr * V) :=
  match d with
  | [] => [(k, v)]
  | (k', v') :: r => if expr_eqb k' k then (k', v) :: r else (k', v') :: adict_set r k v
  end.
Fixpoint adict_del {V} (d : list (expr * V)) (k : expr) : list (expr * V) :=
  match d with [] => [] | (k', v') :: r => if expr_eqb k' k then r else (k', v') :: adict_del r k end.

(** mpool.__contains__ / __getitem__ for a memory cell: same address AND same size as the stored cell *)
Definition pool_get_mem (s : pool) (addr : expr) (w : Z) : option expr :=
  match adict_get (pool_mem s) addr with
  | Some (cell, v) => if size cell =? w then Some v else None
  | None => None
  end.
Definition pool_set (s : pool) (k v : expr) : pool :=
  match k with
  | EMem a _ _ => Pool (pool_id s) (adict_set (pool_mem s) a (k, v))
  | _ => Pool (adict_set (pool_id s) k v) (pool_mem s)
  end.
Definition pool_del (s : pool) (k : expr) : pool :=
  match k with
  | EMem a _ _ => Pool (pool_id s) (adict_del (pool_mem s) a)
  | _ => Pool (adict_del (pool_id s) k) (pool_mem s)
  end.

Definition is_term (e : expr) : bool := match e with EId _ _ _ t => t | _ => false end.

(** tab_int_size: only uint1..uint64 *)
Definition uint_class_ok (sg : bool) (w : Z) : bool := negb sg && std_width w.
Definition mymaxuint_ok (w : Z) : bool := (w =? 8) || (w =? 16) || (w =? 32) || (w =? 64).

(** deal_op[op](args, op_size, cast_int) on constants, then ExprInt(cast_int(ret)) *)
Definition in_deal_op (op : string) : bool :=
  existsb (fun o => (o =? op)%string)
    ["+"; "-"; "*"; "/div"; "/rem"; "/idiv"; "/irem"; "*hi"; "*lo"; "=="; "<"; "&"; "|"; "^"; "!"; "<<<"; ">>>";
     "<<<c_rez"; "<<<c_cf"; "<<"; ">>"; "a>>"; "bsf"; "bsr"; "parity"; "int_32_to_double"; "objbyid_default0"].
Definition op_size_no_check (op : string) : bool :=
  existsb (fun o => (o =? op)%string) ["<<<"; ">>>"; "a<<"; ">>"; "<<"; "<<<c_rez"; "<<<c_cf"; ">>>c_rez"; ">>>c_cf"].

Inductive xerr : Set := XNotModelled.   (* a path of the code that this model does not cover (reported, never compared) *)

Definition eval_const_op (op : string) (w : Z) (vs : list Z) : res Z :=
  match opk_of op, vs with
  | OAdd, v :: r => Ok (fold_left Z.add r v)
  | OMul, v :: r => Ok (fold_left Z.mul r v)
  | OAnd, v :: r => Ok (fold_left Z.land r v)
  | OOr, v :: r => Ok (fold_left Z.lor r v)
  | OXor, v :: r => Ok (fold_left Z.lxor r v)
  | OSub, [a] => Ok (- a)
  | OSub, [a; b] => Ok (a - b)
  | OSub, _ => Err EValueError
  | OEq, a :: b :: _ => Ok (if a =? b then 1 else 0)
  | ONot, a :: _ => if mymaxuint_ok w then Ok (Z.lxor a (2 ^ w - 1)) else Err EKeyError
  | ORol, a :: c :: _ =>
      if mymaxuint_ok w then
        let r := c mod w   (* fix 64-bit rotates: count modulo the size *) in
        Ok (Z.lor (Z.land (Z.shiftl a r) (2 ^ w - 1)) (Z.shiftr (Z.land a (2 ^ w - 1)) (w - r)))
      else Err EKeyError
  | ORor, a :: c :: _ =>
      if mymaxuint_ok w then
        let r := c mod w in
        Ok (Z.lor (Z.shiftr (Z.land a (2 ^ w - 1)) r) (Z.land (Z.shiftl a (w - r)) (2 ^ w - 1)))
      else Err EKeyError
  | OShl, a :: c :: _ => if mymaxuint_ok w then Ok (Z.shiftl (Z.land a (2 ^ w - 1)) (Z.min c (w + 64))) else Err EKeyError
  | OShr, a :: c :: _ => if mymaxuint_ok w then Ok (Z.shiftr (Z.land a (2 ^ w - 1)) (Z.min c (w + 64))) else Err EKeyError
  | OSar, a :: c :: _ => if mymaxuint_ok w then Ok (Z.shiftr (sgn w a) (Z.min c (w + 64))) else Err EKeyError
  | OParity, a :: _ => Ok (parity8 a)
  | _, _ => Err EIndexError
  end.

Definition ints_of (args : list expr) : option (list (bool * Z * Z)) :=
  fold_right (fun a acc => match a, acc with EInt sg w v, Some l => Some ((sg, w, v) :: l) | _, _ => None end) (Some []) args.

Definition eval_op_consts (op : string) (args : list expr) : res expr + xerr :=
  match ints_of args with
  | None => inl (Ok (EOp op args))
  | Some ints =>
      if negb (in_deal_op op) then inl (Ok (EOp op args)) else
      match ints with
      | [] => inl (Err EIndexError)
      | (sg0, w0, _) :: _ =>
          if negb (forallb (fun '(sg, w, _) => Bool.eqb sg sg0 && (w =? w0)) ints) && negb (op_size_no_check op)
          then inl (Err EValueError) else
          if negb (uint_class_ok sg0 w0) then inl (Err EKeyError) else
          match opk_of op with
          | OOther => inr XNotModelled     (* /div, *hi, <, bsf, through-carry rotates, ...: in deal_op but not modelled *)
          | _ =>
              if negb (forallb (fun '(sg, _, _) => negb sg) ints) then inr XNotModelled else
              inl (do r <- eval_const_op op w0 (map (fun '(_, _, v) => v) ints); Ok (EInt false w0 (wrap w0 r)))
          end
      end
  end.

Definition lift {A} (x : res A) : res A + xerr := inl x.
Definition bindx {A B} (x : res A + xerr) (f : A -> res B + xerr) : res B + xerr :=
  match x with
  | inl (Ok a) => f a
  | inl (Err e) => inl (Err e)
  | inl OutOfFuel => inl OutOfFuel
  | inr e => inr e
  end.
Notation "'dox' x <- a ; b" := (bindx a (fun x => b)) (at level 200, x name, a at level 100, b at level 200).
Definition okx {A} (a : A) : res A + xerr := inl (Ok a).

Section MapX.
  Context {A B : Type}.
  Variable f : A -> res B + xerr.
  Fixpoint mapX (l : list A) : res (list B) + xerr :=
    match l with
    | [] => okx []
    | a :: r => dox b <- f a; dox r' <- mapX r; okx (b :: r')
    end.
End MapX.

Definition int32_of (v : Z) : Z := sgn 32 v.
Definition mk_add (a : expr) (i : Z) : expr := EOp "+" [a; EInt false 32 (wrap 32 i)].
Definition mk_sub (a b : expr) : expr := EOp "+" [a; EOp "-" [b]].      (* Expr.__sub__ *)

(** rest_slice(slices, start, stop) — in the order the slices were appended *)
Fixpoint rest_slice_go (sl : list slot) (last : Z) (lastb : Z) (acc : list (Z * Z)) : list (Z * Z) * Z * Z :=
  match sl with
  | [] => (acc, last, lastb)
  | s :: r => if slot_lo s =? last then rest_slice_go r (slot_hi s) (slot_hi s) acc
              else rest_slice_go r (slot_hi s) (slot_hi s) (acc ++ [(last, slot_lo s)])%list
  end.
Definition rest_slice (sl : list slot) (start stop : Z) : list (Z * Z) :=
  let '(acc, last, lastb) := rest_slice_go sl start start [] in
  if last =? stop then acc else (acc ++ [(lastb, stop)])%list.

Fixpoint insert_slot (x : slot) (l : list slot) : list slot :=
  match l with [] => [x] | y :: r => if slot_lo x <? slot_lo y then x :: l else y :: insert_slot x r end.
Definition sort_slots (l : list slot) : list slot := fold_left (fun acc x => insert_slot x acc) l [].

Fixpoint range_from (lo : Z) (n : nat) : list Z := match n with O => [] | S k => lo :: range_from (lo + 1) k end.

Fixpoint eval_expr (fuel : nat) (s : pool) (e : expr) {struct fuel} : res expr + xerr :=
  match fuel with
  | O => inl OutOfFuel
  | S f =>
    if is_term e then okx e else
    dox e1 <- lift (visitM simpF e);
    let ev := eval_expr f s in
    let evs x := (dox y <- ev x; lift (simpF y)) in
    match e1 with
    | EId _ _ _ _ => okx (match adict_get (pool_id s) e1 with Some v => v | None => e1 end)
    | EInt _ _ _ => okx e1
    | EOp op args =>
        dox args' <- mapX evs args;
        eval_op_consts op args'
    | ECond c a b =>
        dox c' <- ev c; dox a' <- ev a; dox b' <- ev b;
        match c' with
        | EInt _ _ v => okx (if v =? 0 then b' else a')
        | _ => okx (ECond c' a' b')
        end
    | ESlice a lo hi =>
        dox a' <- evs a;
        match a' with
        | EMem _ w _ => okx (if (lo =? 0) && (hi =? w) then a' else ESlice a' lo hi)
        | EInt _ _ _ => lift (simpF (ESlice a' lo hi))
        | _ => okx (ESlice a' lo hi)
        end
    | ECompose slots =>
        dox slots' <- mapX (fun sl => dox x <- ev (slot_e sl); okx (x, slot_lo sl, slot_hi sl)) slots;
        let all_int := forallb (fun sl => is_int (slot_e sl)) slots' in
        let cond_score := fold_left (fun n sl => match slot_e sl with
                                                 | EInt _ _ _ => n
                                                 | ECond _ (EInt _ _ _) (EInt _ _ _) => n + 1
                                                 | _ => n + 3 end) slots' 0 in
        if negb all_int && negb (cond_score =? 1) then okx (ECompose slots') else
        let total := fold_left (fun n sl => n + (slot_hi sl - slot_lo sl)) slots' 0 in
        let rez := fold_left (fun r sl => match slot_e sl with
                                          | EInt _ _ v => Z.lor r (Z.shiftl (Z.land v (2 ^ (slot_hi sl - slot_lo sl) - 1)) (slot_lo sl))
                                          | _ => r end) slots' 0 in
        if all_int then
          (if std_width total then okx (EInt false total (wrap total rez)) else inl (Err ETypeError))
        else
          match find (fun sl => negb (is_int (slot_e sl))) slots' with
          | Some (ECond c (EInt _ _ v1) (EInt _ _ v2), lo, hi) =>
              if std_width total then
                let m := 2 ^ (hi - lo) - 1 in
                ev (ECond c (EInt false total (wrap total (Z.lor (Z.shiftl (Z.land v1 m) lo) rez)))
                            (EInt false total (wrap total (Z.lor (Z.shiftl (Z.land v2 m) lo) rez))))
              else inl (Err ETypeError)
          | _ => inl (Err ETypeError)
          end
    | EAff _ _ => inl (Err EKeyError)
    | EMem addr w _ =>
        dox a_val <- evs addr;
        match pool_get_mem s a_val w with
        | Some v => okx v
        | None =>
          match adict_get (pool_mem s) a_val with
          | Some (cell, cellv) =>
              let cw := size cell in
              if w >? cw then
                (* bigger lookup: walk consecutive cells *)
                (fix walk (n : nat) (rest : Z) (ptr : expr) (idx : Z) (out : list slot) {struct n} : res expr + xerr :=
                   match n with
                   | O => inl OutOfFuel
                   | S n' =>
                       if rest =? 0 then lift (simpF (ECompose out)) else
                       let found := adict_get (pool_mem s) ptr in
                       let '(val, dsz, vsz) :=
                         match found with
                         | None => (EMem ptr 8 None, 8, 8)
                         | Some (c, v) => if rest >=? size c then (v, size c, size c) else (getitem v 0 rest, rest, size c)
                         end in
                       dox ptr' <- evs (EOp "+" [ptr; EInt false 32 (wrap 32 (vsz / 8))]);
                       walk n' (rest - dsz) ptr' (idx + dsz) (out ++ [(val, idx, idx + dsz)])%list
                   end) (Z.to_nat (w / 8 + 2)) w a_val 0 []
              else
                (* part lookup *)
                lift (simpF (ESlice cellv 0 w))
          | None =>
              (* get_mem_overlapping *)
              dox tests <- mapX (fun i => dox x <- evs (mk_add a_val i); okx (i, x)) (range_from (-7) (Z.to_nat (7 + w / 8)));
              dox ov <- (fix go (l : list (Z * expr)) : res (list (Z * (expr * expr))) + xerr :=
                           match l with
                           | [] => okx []
                           | (i, x) :: r =>
                               match adict_get (pool_mem s) x with
                               | None => go r
                               | Some (cell, v) =>
                                   dox d <- evs (mk_sub a_val x);
                                   match d with
                                   | EInt _ _ dv =>
                                       dox tl <- go r;
                                       if 8 * int32_of dv >=? size v then okx tl else okx ((i, (cell, v)) :: tl)
                                   | _ => inl (Err EValueError)
                                   end
                               end
                           end) tests;
              (* ov.sort(): ascending offset (tests are generated in ascending i, hence ov already is) *)
              let ovd := ov in
              dox out <- (fix go (l : list (Z * (expr * expr))) (out : list slot) : res (list slot) + xerr :=
                            match l with
                            | [] => okx out
                            | (off, (cell, v)) :: r =>
                                let off_base := off * 8 in
                                if off >=? 0 then
                                  let m := Z.min (w - off_base) (size cell) in
                                  dox ee <- lift (simpF (ESlice v 0 m));
                                  go r (out ++ [(ee, off_base, off_base + size ee)])%list
                                else
                                  let m := Z.min (w - off * 8) (size cell) in
                                  dox ee <- lift (simpF (ESlice v (- off * 8) m));
                                  go r (out ++ [(ee, 0, size ee)])%list
                            end) ovd [];
              match out with
              | [] => okx (EMem a_val w None)
              | _ =>
                  dox missing <- mapX (fun '(sa, sb) => dox ptr <- lift (simpF (EOp "+" [a_val; EInt false 32 (wrap 32 (sa / 8))]));
                                                        okx (EMem ptr (sb - sa) None, sa, sb)) (rest_slice out 0 w);
                  lift (simpF (ESlice (ECompose (sort_slots (out ++ missing))) 0 w))
              end
          end
        end
    end
  end.

(** substract_mems(a, b): what remains of the stored cell a = (cell, value) once b = EMem baddr bw is written *)
Definition substract_mems (fuel : nat) (s : pool) (cell cellv : expr) (baddr : expr) (bw : Z) : res (list (expr * expr)) + xerr :=
  match cell with
  | EMem aaddr aw _ =>
      dox d <- (dox y <- eval_expr fuel s (EOp "-" [baddr; aaddr]); lift (simpF y));
      match d with
      | EInt _ _ dv =>
          let ptr_diff := int32_of dv in
          if ptr_diff <? 0 then
            let sub_size := bw + ptr_diff * 8 in
            if sub_size >=? aw then okx []
            else
              dox rest_ptr <- (dox y <- eval_expr fuel s (EOp "+" [aaddr; EInt false 32 (wrap 32 (sub_size / 8))]); lift (simpF y));
              okx [(EMem rest_ptr (aw - sub_size) None, getitem cellv sub_size aw)]
          else
            dox part_y <-
              (if ptr_diff * 8 + bw <? aw then
                 dox ex <- (dox y <- eval_expr fuel s (EOp "+" [baddr; EInt false 32 (wrap 32 (bw / 8))]); lift (simpF y));
                 let val := getitem cellv (ptr_diff * 8 + bw) aw in
                 okx [(EMem ex (size val) None, val)]
               else okx []);
            okx ((if ptr_diff >? 0 then [(EMem aaddr (ptr_diff * 8) None, getitem cellv 0 (ptr_diff * 8))] else []) ++ part_y)%list
      | _ => inl (Err ETypeError)      (* returns None; the caller iterates over it *)
      end
  | _ => inl (Err EValueError)
  end.

(** get_mem_overlapping(op) as called by eval_instr: offsets and cells overlapping the written cell *)
Definition mem_overlapping (fuel : nat) (s : pool) (a_val : expr) (w : Z) : res (list (Z * (expr * expr))) + xerr :=
  let evs x := (dox y <- eval_expr fuel s x; lift (simpF y)) in
  dox tests <- mapX (fun i => dox x <- evs (mk_add a_val i); okx (i, x)) (range_from (-7) (Z.to_nat (7 + w / 8)));
  (fix go (l : list (Z * expr)) : res (list (Z * (expr * expr))) + xerr :=
     match l with
     | [] => okx []
     | (i, x) :: r =>
         match adict_get (pool_mem s) x with
         | None => go r
         | Some (cell, v) =>
             dox d <- evs (mk_sub a_val x);
             match d with
             | EInt _ _ dv =>
                 dox tl <- go r;
                 if 8 * int32_of dv >=? size v then okx tl else okx ((i, (cell, v)) :: tl)
             | _ => inl (Err EValueError)
             end
         end
     end) tests.

(** get_instr_mod: all sources and destination addresses are evaluated in the PRE-state *)
Definition flag_names : list string := ["zf"; "nf"; "pf"; "of"; "cf"; "df"].
Definition get_instr_mod (fuel : nat) (s : pool) (affs : list expr) : res (list (expr * expr)) + xerr :=
  fold_left (fun acc aff =>
    dox out <- acc;
    match aff with
    | EAff dst src =>
        dox v <- eval_expr fuel s src;
        match dst with
        | EMem addr w _ =>
            dox a <- (dox y <- eval_expr fuel s addr; lift (simpF y));
            okx (adict_set out (EMem a w None) v)
        | EId _ _ _ _ => okx (adict_set out dst v)
        | _ => inl (Err EValueError)
        end
    | _ => inl (Err ETypeError)
    end) affs (okx []).

Definition eval_instr (fuel : nat) (s : pool) (affs : list expr) : res pool + xerr :=
  dox ops <- get_instr_mod fuel s affs;
  fold_left (fun acc kv =>
    dox st <- acc;
    let '(op, v) := kv in
    match op with
    | EMem a w _ =>
        dox ov <- mem_overlapping fuel st a w;
        dox st' <- fold_left (fun acc2 item =>
                      dox st2 <- acc2;
                      let '(off, (cell, cellv)) := item in
                      (* self.pool[x]: the CURRENT value of the cell *)
                      match adict_get (pool_mem st2) (match cell with EMem ca _ _ => ca | _ => cell end) with
                      | Some (cell2, cellv2) =>
                          dox diff <- substract_mems fuel st2 cell2 cellv2 a w;
                          let st3 := pool_del st2 cell in
                          okx (fold_left (fun p xy => pool_set p (fst xy) (snd xy)) diff st3)
                      | None => inl (Err EKeyError)
                      end) ov (okx st);
        dox tmp <- lift (simpF v);
        okx (pool_set st' op tmp)
    | EId n _ _ _ =>
        dox tmp <- lift (simpF v);
        let tmp' := match tmp with
                    | EInt sg w' iv => if existsb (fun f => (f =? n)%string) flag_names then EInt false 32 (wrap 32 iv) else tmp
                    | _ => tmp end in
        okx (pool_set st op tmp')
    | _ => inl (Err EValueError)
    end) ops (okx s).
