(** X86Types.v — types of the x86 tables dumped from miasmx (tie D) and of decoded instructions. *)
From Coq Require Import ZArith List Bool String.
Import ListNotations.
Open Scope Z_scope.

(** a mnemonic record (class mnemonic): afs = 0..7 digit, 8 reg, 9 noafs, 10 cond;
    rm = list of operand descriptors (dib codes below); mods = the 15 modifiers, tri-state
    0 None, 1 True, 2 False, 3 'fp80' in the order w8 se sw ww sg dr cr ft w64 sd wd bkf spf dtf mmx *)
Record mnem := mkmn { mn_name : string; mn_opc : list Z; mn_afs : Z; mn_rm : list Z; mn_mods : list Z }.

Inductive trie := TNone | TM (m : Z) | TN (children : list trie).

(** an entry of the ModRM / SIB tables: {ad, imm kind (0 u08, 1 s08, 2 u16, 4 u32), register coefficients, 'txt'} *)
Record afs := mkafs { af_ad : bool; af_imm : option Z; af_regs : list (Z * Z); af_txt : string }.
Inductive modrm_entry := MSib (k : Z) | MAfs (a : afs).

Record specials := mkspecials { sp_lfence : Z; sp_mfence : Z; sp_sfence : Z; sp_pushfw : Z; sp_popfw : Z;
                                sp_lodsw : Z; sp_stosw : Z; sp_movsw : Z; sp_cmpsw : Z; sp_scasw : Z }.

Record tables := mktables {
  t_mnemos : list mnem; t_trie : list trie; t_sib : list (list afs);
  t_db_afs : list modrm_entry; t_db_afs_16 : list modrm_entry; t_db_afs_mm : list modrm_entry; t_db_afs_xmm : list modrm_entry;
  t_special : specials; t_prefixes : list Z; t_prefix_seg : list (Z * Z); t_prefetch : list string }.

(** dib codes *)
Definition D_u08 := 0. Definition D_s08 := 1. Definition D_u16 := 2. Definition D_s16 := 3. Definition D_u32 := 4.
Definition D_s32 := 5. Definition D_imm := 6. Definition D_ims := 7. Definition D_mim := 8. Definition D_im1 := 9.
Definition D_im3 := 10. Definition D_rmr := 11. Definition D_r_eax := 12. Definition D_r_cl := 13. Definition D_r_dx := 14.
(* 20..25: es ss cs ds fs gs *)

(** operand-size / address-size / operand 'size' values *)
Inductive mode := Mu08 | Mu16 | Mu32 | Mu64 | Mf32 | Mf64 | Mf80 | Mmm | Mxmm | Mseg | Mtrue.
Definition mode_eqb (a b : mode) : bool :=
  match a, b with
  | Mu08, Mu08 | Mu16, Mu16 | Mu32, Mu32 | Mu64, Mu64 | Mf32, Mf32 | Mf64, Mf64 | Mf80, Mf80
  | Mmm, Mmm | Mxmm, Mxmm | Mseg, Mseg | Mtrue, Mtrue => true
  | _, _ => false
  end.

(** the 'ad' field of an operand dict: False, True, or (after post-processing) the size *)
Inductive adk := AdF | AdT | AdS (m : mode).

(** an operand dict *)
Record arg := mkarg {
  a_ad : option adk; a_size : option mode; a_regs : list (Z * Z);
  a_imm : option (Z * Z);      (* (width of the uintN class, value) *)
  a_segm : option Z; a_txt : string }.

Record instr := mkinstr {
  i_prefix : list Z; i_m : Z; i_name : string; i_args : list arg; i_len : Z; i_opmode : mode; i_admode : mode }.

(** outcome of dis(): None, an instruction, or an exception other than IOError escaping _dis *)
Inductive crash := CNever | CValue | CKey | CUnbound | CIndex | CType | CAttr.
Inductive outcome := ONone | OCrash (k : crash) | OSome (i : instr).
