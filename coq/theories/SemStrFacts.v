(** SemStrFacts.v — reflection obligation: every movs / stos / lods form (byte, word, dword; 16- and 32-bit addressing) of the lifted dump
    regenerated from /repo is, node for node, the mirror SemStr.mirror_str of its dumped operands. *)
From Coq Require Import ZArith List Bool String.
From Mx Require Import Expr Wf Sem SemProofs SemStr.
From MxGen Require Import LiftAll.
Import ListNotations.
Definition str_tie_ok (c : lcase) : bool :=
  match str_of (lc_mnemo c), lc_lift c with
  | Some k, Some l => match mirror_str k (lc_args c) with Some m => list_expr_eqb l m | None => false end
  | _, _ => true
  end.
Lemma str_forms_are_mirrors : forallb (forallb str_tie_ok) shards = true.
Proof. vm_compute. reflexivity. Qed.
Lemma str_forms_lifted : forall sh c k l, In sh shards -> In c sh -> str_of (lc_mnemo c) = Some k -> lc_lift c = Some l ->
  exists m, mirror_str k (lc_args c) = Some m /\ forall rho mu iota, map (eval rho mu iota) l = map (eval rho mu iota) m.
Proof.
  intros sh c k l Hs Hc Hk Hl. pose proof str_forms_are_mirrors as H. rewrite forallb_forall in H. specialize (H _ Hs). rewrite forallb_forall in H.
  specialize (H _ Hc). unfold str_tie_ok in H. rewrite Hk, Hl in H. destruct (mirror_str k (lc_args c)) as [m|]; [|discriminate].
  exists m. split; [reflexivity|]. intros rho mu iota. apply list_expr_eqb_eval. exact H.
Qed.
Definition n_str : nat :=
  fold_left (fun acc sh => fold_left (fun acc c => match str_of (lc_mnemo c), lc_lift c with Some k, Some l => S acc | _, _ => acc end) sh acc) shards O.
Lemma many_str_forms : (12 <= n_str)%nat.
Proof. vm_compute. repeat constructor. Qed.
