(** Asm.v — the arithmetic / table-inversion layer of the x86 assembler (miasmx/arch/ia32_arch.py): check_imm_size,
    the struct.pack emission of immediates and displacements, and the reverse ModRM/SIB table fd_afs.  Hand transcription
    (tie H) of check_imm_size; the tables are dumped (tie D: gen/X86Tables.v, gen/AsmTables.v).  No proofs in this file. *)
From Coq Require Import ZArith List Bool String.
From Mx Require Import X86Types.
Import ListNotations.
Open Scope Z_scope.

Inductive ikind := U08 | S08 | U16 | S16 | U32 | S32.
Definition bits (k : ikind) : Z := match k with U08 | S08 => 8 | U16 | S16 => 16 | U32 | S32 => 32 end.
Definition is_signed (k : ikind) : bool := match k with S08 | S16 | S32 => true | _ => false end.

(** two's complement reading of the low w bits *)
Definition sgnw (w v : Z) : Z := let u := v mod 2 ^ w in if u <? 2 ^ (w - 1) then u else u - 2 ^ w.

(** check_imm_size(imm, size): imm an integer value [v]; [is16] tells that it is a 16-bit modint (third branch of the code).
    i = int(imm), j = int32(uint32(imm)), k = int16(uint16(imm)) *)
Definition check_imm_size (v : Z) (is16 : bool) (k : ikind) : option Z :=
  let i := v in let j := sgnw 32 v in let k16 := sgnw 16 v in
  match k with
  | U08 => if (-128 <=? i) && (i <? 256) then Some (v mod 256) else None
  | S08 => if (-128 <=? j) && (j <? 128) then Some (sgnw 8 v)
           else if (-128 <=? k16) && (k16 <? 128) && is16 then Some (sgnw 8 (sgnw 16 v)) else None
  | U16 => if (0 <=? i) && (i <? 65536) then Some (v mod 65536) else None
  | S16 => if (-32768 <=? j) && (j <? 32768) then Some (sgnw 16 v) else None
  | U32 => if (- 2 ^ 32 <=? i) && (i <? 2 ^ 32) then Some (v mod 2 ^ 32) else None
  | S32 => if (- 2 ^ 31 <=? j) && (j <? 2 ^ 31) then Some (sgnw 32 v) else None
  end.

(** struct.pack('<B/b/H/h/I/i', r): little-endian bytes of the value's low bits *)
Fixpoint le_bytes (n : nat) (v : Z) : list Z :=
  match n with O => [] | S m => v mod 256 :: le_bytes m (v / 256) end.
Fixpoint le_value (bs : list Z) : Z :=
  match bs with [] => 0 | b :: r => b + 256 * le_value r end.
Definition emit (k : ikind) (r : Z) : list Z := le_bytes (Z.to_nat (bits k / 8)) (r mod 2 ^ bits k).
(** what a decoder reads back from the field: unsigned kinds as is, signed kinds sign-extended *)
Definition read (k : ikind) (bs : list Z) : Z := if is_signed k then sgnw (bits k) (le_value bs) else le_value bs.

(** * The reverse ModRM/SIB table *)
Definition zz_eqb (a b : Z * Z) : bool := (fst a =? fst b) && (snd a =? snd b).
Fixpoint list_eqb {A} (f : A -> A -> bool) (l l' : list A) : bool :=
  match l, l' with [], [] => true | a :: r, b :: r' => f a b && list_eqb f r r' | _, _ => false end.
Definition optz_eqb (a b : option Z) : bool := match a, b with None, None => true | Some x, Some y => x =? y | _, _ => false end.
(** equality of address forms: ad flag, displacement kind, register coefficients (the txt memo apart) *)
Definition afs_key_eqb (a b : afs) : bool :=
  Bool.eqb (af_ad a) (af_ad b) && optz_eqb (af_imm a) (af_imm b) && list_eqb zz_eqb (af_regs a) (af_regs b).

Definition key_table (T : tables) (key : afs) : list modrm_entry :=
  match af_regs key with
  | [(r, _)] => if (64 <=? r) && (r <? 72) then t_db_afs_mm T else if (80 <=? r) && (r <? 88) then t_db_afs_xmm T else t_db_afs T
  | _ => t_db_afs T
  end.
(** the address form the decode tables give for a ModRM byte (reg field empty) and an optional SIB byte *)
Definition decode_ms (T : tables) (tbl : list modrm_entry) (m : Z) (s : option Z) : option afs :=
  match nth_error tbl (Z.to_nat m), s with
  | Some (MAfs a), None => Some a
  | Some (MSib k), Some sb => match nth_error (t_sib T) (Z.to_nat k) with Some l => nth_error l (Z.to_nat sb) | None => None end
  | _, _ => None
  end.

Definition fd_row := (afs * bool * list (Z * option Z))%type.
Definition entry_sound (T : tables) (key : afs) (has_txt : bool) (ms : Z * option Z) : bool :=
  let '(m, s) := ms in
  (0 <=? m) && (m <? 256) && (Z.land m 56 =? 0) &&
  match s with None => true | Some sb => (0 <=? sb) && (sb <? 256) end &&
  match decode_ms T (key_table T key) m s with
  | Some a => afs_key_eqb a key && (if has_txt then (af_txt a =? af_txt key)%string else true)
  | None => false
  end.
Definition row_sound (T : tables) (row : fd_row) : bool :=
  let '(key, has_txt, l) := row in forallb (entry_sound T key has_txt) l.
Definition rev_sound (T : tables) (fd : list fd_row) : bool := forallb (row_sound T) fd.

(** completeness: every ModRM byte with an empty reg field (and every SIB byte where one follows) is listed under the key of
    the form it decodes to, with and without the txt memo *)
Definition ms_eqb (a b : Z * option Z) : bool := (fst a =? fst b) && optz_eqb (snd a) (snd b).
Definition listed (fd : list fd_row) (a : afs) (with_txt : bool) (ms : Z * option Z) : bool :=
  existsb (fun row : fd_row => let '(key, has_txt, l) := row in
             Bool.eqb has_txt with_txt && afs_key_eqb a key && (if with_txt then (af_txt a =? af_txt key)%string else true) && existsb (ms_eqb ms) l) fd.
Definition seqZ (n : nat) : list Z := map Z.of_nat (seq 0 n).
Definition modrm_bytes : list Z := filter (fun m => Z.land m 56 =? 0) (seqZ 256).
Definition complete_at (T : tables) (fd : list fd_row) (m : Z) : bool :=
  match nth_error (t_db_afs T) (Z.to_nat m) with
  | Some (MAfs a) => listed fd a false (m, None) && (listed fd a true (m, None) || (af_txt a =? "")%string)      (* register forms carry no txt memo *)
  | Some (MSib k) => forallb (fun sb => match decode_ms T (t_db_afs T) m (Some sb) with
                                        | Some a => listed fd a false (m, Some sb) && listed fd a true (m, Some sb)
                                        | None => false end) (seqZ 256)
  | None => false
  end.
Definition rev_complete (T : tables) (fd : list fd_row) : bool := forallb (complete_at T fd) modrm_bytes.
