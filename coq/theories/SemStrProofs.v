(** SemStrProofs.v — the pointer update of the string moves: by the element size, down when the direction flag is set, modulo the
    width of the pointer. *)
From Coq Require Import ZArith List Bool String Lia.
From Mx Require Import Expr ExprProofs Sem SemProofs SemStr.
Import ListNotations.
Open Scope Z_scope.

Section Meaning.
  Variable rho : string -> Z.
  Variable mu : Z -> Z.
  Variable iota : string -> list Z -> Z.
  Notation ev := (eval rho mu iota).
  Theorem ptr_next_value p off : operand_ok p = true -> 0 <= off < 2 ^ size p ->
    ev (ptr_next p off) = if Z.odd (rho "df") then (ev p - off) mod 2 ^ size p else (ev p + off) mod 2 ^ size p.
  Proof.
    intros Op Ho. destruct (operand_range rho mu iota p Op) as [Pp Rp]. unfold ptr_next.
    change (ev (ECond df (EOp "-" [p; int_from p off]) (EOp "+" [p; int_from p off])))
      with (if ev df =? 0 then ev (EOp "+" [p; int_from p off]) else ev (EOp "-" [p; int_from p off])).
    assert (Ei : ev (int_from p off) = off) by (unfold int_from; cbn [eval]; apply Z.mod_small; exact Ho).
    rewrite (ev_add rho mu iota p) by lia. rewrite (ev_sub rho mu iota p) by lia. rewrite Ei.
    assert (Ed : ev df = if Z.odd (rho "df") then 1 else 0) by (unfold df, flag; cbn [eval]; unfold wrap; change (2 ^ 1) with 2; apply Zmod_odd).
    rewrite Ed. destruct (Z.odd (rho "df")); reflexivity.
  Qed.
End Meaning.
