(** PreState.v — all assignments of one instruction, memory destinations included, are evaluated in the state the instruction started in:
    get_instr_mod is "evaluate every (destination address, source) in the pre-state, one after the other, then bind them in order". *)
From Coq Require Import ZArith List Bool String Lia.
From Mx Require Import Expr Simp EvalAbs MachineProofs.
Import ListNotations.
Open Scope list_scope.

Definition aff_ok (a : expr) : bool := match a with EAff (EId _ _ _ _) _ | EAff (EMem _ _ _) _ => true | _ => false end.
(** one assignment evaluated in state s: the key it will be bound under and its value *)
Definition eval_aff (fuel : nat) (s : pool) (a : expr) : res (expr * expr) + xerr :=
  match a with
  | EAff dst src =>
      dox v <- eval_expr fuel s src;
      match dst with
      | EMem addr w _ => dox a' <- (dox y <- eval_expr fuel s addr; lift (simpF y)); okx (EMem a' w None, v)
      | EId _ _ _ _ => okx (dst, v)
      | _ => inl (Err EValueError)
      end
  | _ => inl (Err ETypeError)
  end.
Theorem all_assignments_read_pre_state fuel s : forall affs acc0, forallb aff_ok affs = true ->
  fold_left (step_mod fuel s) affs (okx acc0) =
  (dox kvs <- mapX (eval_aff fuel s) affs; okx (fold_left (fun out kv => adict_set out (fst kv) (snd kv)) kvs acc0)).
Proof.
  induction affs as [|a affs IH]; intros acc0 R; [reflexivity|].
  simpl in R. apply andb_true_iff in R as [Ra Rr].
  destruct a as [| | | | | | |d src]; try discriminate. destruct d as [|n w r t|addr w sg| | | | |]; try discriminate.
  - cbn [fold_left mapX eval_aff]. unfold step_mod at 2. cbn [bindx okx].
    destruct (eval_expr fuel s src) as [[v| |]|e] eqn:E; cbn [bindx okx]; try (apply fold_err; intros a0; reflexivity).
    rewrite (IH _ Rr). destruct (mapX (eval_aff fuel s) affs) as [[kvs| |]|]; reflexivity.
  - cbn [fold_left mapX eval_aff]. unfold step_mod at 2. cbn [bindx okx].
    destruct (eval_expr fuel s src) as [[v| |]|e] eqn:E; cbn [bindx okx]; try (apply fold_err; intros a0; reflexivity).
    destruct (eval_expr fuel s addr) as [[y| |]|e] eqn:Ea; cbn [bindx okx lift]; try (apply fold_err; intros a0; reflexivity).
    destruct (simpF y) as [a'| |] eqn:Es; cbn [bindx okx]; try (apply fold_err; intros a0; reflexivity).
    rewrite (IH _ Rr). destruct (mapX (eval_aff fuel s) affs) as [[kvs| |]|]; reflexivity.
Qed.
Corollary get_instr_mod_reads_pre_state fuel s affs : forallb aff_ok affs = true ->
  get_instr_mod fuel s affs = (dox kvs <- mapX (eval_aff fuel s) affs; okx (fold_left (fun out kv => adict_set out (fst kv) (snd kv)) kvs [])).
Proof. intros R. rewrite get_instr_mod_fold. apply all_assignments_read_pre_state. exact R. Qed.
