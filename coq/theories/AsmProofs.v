(** AsmProofs.v — immediates and displacements are never silently truncated or sign-changed (C02), and what is emitted reads back (C03). *)
From Coq Require Import ZArith List Bool Lia ZifyBool.
From Mx Require Import Asm.
Import ListNotations.
Open Scope Z_scope.
Ltac Zify.zify_post_hook ::= Z.to_euclidean_division_equations.

Lemma pow_vals : 2 ^ 7 = 128 /\ 2 ^ 8 = 256 /\ 2 ^ 15 = 32768 /\ 2 ^ 16 = 65536 /\ 2 ^ 31 = 2147483648 /\ 2 ^ 32 = 4294967296.
Proof. repeat split; reflexivity. Qed.

Lemma sgnw_range w v : 0 < w -> - 2 ^ (w - 1) <= sgnw w v < 2 ^ (w - 1).
Proof.
  intros Hw. unfold sgnw. assert (P : 2 ^ w = 2 * 2 ^ (w - 1)) by (replace w with (1 + (w - 1)) at 1 by lia; rewrite Z.pow_add_r by lia; reflexivity).
  assert (Q : 0 < 2 ^ (w - 1)) by (apply Z.pow_pos_nonneg; lia).
  pose proof (Z.mod_pos_bound v (2 ^ w) ltac:(lia)) as B.
  destruct (v mod 2 ^ w <? 2 ^ (w - 1)) eqn:E; lia.
Qed.
Lemma sgnw_congr w v : 0 < w -> (sgnw w v) mod 2 ^ w = v mod 2 ^ w.
Proof.
  intros Hw. unfold sgnw. assert (Q : 0 < 2 ^ w) by (apply Z.pow_pos_nonneg; lia).
  destruct (v mod 2 ^ w <? 2 ^ (w - 1)).
  - apply Z.mod_mod. lia.
  - replace (v mod 2 ^ w - 2 ^ w) with (v mod 2 ^ w + (-1) * 2 ^ w) by lia. rewrite Z.mod_add by lia. apply Z.mod_mod. lia.
Qed.
Lemma sgnw_id w v : 0 < w -> - 2 ^ (w - 1) <= v < 2 ^ (w - 1) -> sgnw w v = v.
Proof.
  intros Hw R. unfold sgnw. assert (P : 2 ^ w = 2 * 2 ^ (w - 1)) by (replace w with (1 + (w - 1)) at 1 by lia; rewrite Z.pow_add_r by lia; reflexivity).
  assert (Q : 0 < 2 ^ (w - 1)) by (apply Z.pow_pos_nonneg; lia).
  destruct (Z_lt_le_dec v 0) as [N|N].
  - replace (v mod 2 ^ w) with (v + 2 ^ w).
    + destruct (v + 2 ^ w <? 2 ^ (w - 1)) eqn:E; lia.
    + symmetry. rewrite <- (Z.mod_add v 1 (2 ^ w)) by lia. rewrite Z.mul_1_l. apply Z.mod_small. lia.
  - rewrite Z.mod_small by lia. destruct (v <? 2 ^ (w - 1)) eqn:E; lia.
Qed.

Definition in_range (k : ikind) (r : Z) : Prop :=
  if is_signed k then - 2 ^ (bits k - 1) <= r < 2 ^ (bits k - 1) else 0 <= r < 2 ^ bits k.

(** A form is offered only for a value that it represents: the returned field value is in the range of the form and is
    congruent to the requested value modulo the width of the field. *)
Theorem check_imm_fits v is16 k r : check_imm_size v is16 k = Some r -> in_range k r /\ r mod 2 ^ bits k = v mod 2 ^ bits k.
Proof.
  destruct pow_vals as (P7 & P8 & P15 & P16 & P31 & P32).
  unfold check_imm_size, in_range. destruct k; cbn [is_signed bits].
  - destruct ((-128 <=? v) && (v <? 256)) eqn:E; intros H; inversion H; subst; clear H. rewrite P8.
    split; [apply Z.mod_pos_bound; lia | apply Z.mod_mod; lia].
  - destruct ((-128 <=? sgnw 32 v) && (sgnw 32 v <? 128)) eqn:E.
    + intros H; inversion H; subst; clear H. split; [apply (sgnw_range 8); lia | apply (sgnw_congr 8); lia].
    + destruct ((-128 <=? sgnw 16 v) && (sgnw 16 v <? 128) && is16) eqn:E2; intros H; inversion H; subst; clear H.
      split; [apply (sgnw_range 8); lia|]. rewrite (sgnw_congr 8) by lia.
      pose proof (sgnw_congr 16 v ltac:(lia)) as C. rewrite P16 in C. rewrite P8.
      replace (sgnw 16 v mod 256) with ((sgnw 16 v mod 65536) mod 256) by (rewrite <- Znumtheory.Zmod_div_mod; try lia; exists 256; lia).
      rewrite C. rewrite <- Znumtheory.Zmod_div_mod; try lia. exists 256; lia.
  - destruct ((0 <=? v) && (v <? 65536)) eqn:E; intros H; inversion H; subst; clear H. rewrite P16.
    split; [apply Z.mod_pos_bound; lia | apply Z.mod_mod; lia].
  - destruct ((-32768 <=? sgnw 32 v) && (sgnw 32 v <? 32768)) eqn:E; intros H; inversion H; subst; clear H.
    split; [apply (sgnw_range 16); lia | apply (sgnw_congr 16); lia].
  - destruct ((- 2 ^ 32 <=? v) && (v <? 2 ^ 32)) eqn:E; intros H; inversion H; subst; clear H.
    split; [apply Z.mod_pos_bound; lia | apply Z.mod_mod; lia].
  - destruct ((- 2 ^ 31 <=? sgnw 32 v) && (sgnw 32 v <? 2 ^ 31)) eqn:E; intros H; inversion H; subst; clear H.
    split; [apply (sgnw_range 32); lia | apply (sgnw_congr 32); lia].
Qed.

(** No sign change at the operand width: for the sign-extended short forms and the full-width forms the field, extended the way
    the processor extends it, is the requested value modulo 2^32 (plain integer immediates). *)
Theorem check_imm_no_sign_change v k r : k <> U08 -> check_imm_size v false k = Some r -> r mod 2 ^ 32 = v mod 2 ^ 32.
Proof.
  destruct pow_vals as (P7 & P8 & P15 & P16 & P31 & P32).
  intros NU. unfold check_imm_size. destruct k; try congruence.
  - rewrite andb_false_r. destruct ((-128 <=? sgnw 32 v) && (sgnw 32 v <? 128)) eqn:E; intros H; inversion H; subst; clear H.
    pose proof (sgnw_congr 32 v ltac:(lia)) as C.
    assert (S8 : sgnw 8 v = sgnw 32 v).
    { pose proof (sgnw_congr 32 v ltac:(lia)) as C32.
      assert (sgnw 8 v = sgnw 8 (sgnw 32 v)) as ->.
      { unfold sgnw at 1 3. replace (v mod 2 ^ 8) with (sgnw 32 v mod 2 ^ 8); [reflexivity|].
        rewrite P8. replace (sgnw 32 v mod 256) with ((sgnw 32 v mod 2 ^ 32) mod 256) by (rewrite P32; rewrite <- Znumtheory.Zmod_div_mod; try lia; exists 16777216; lia).
        rewrite C32, P32. rewrite <- Znumtheory.Zmod_div_mod; try lia. exists 16777216; lia. }
      apply sgnw_id; lia. }
    rewrite S8. exact C.
  - destruct ((0 <=? v) && (v <? 65536)) eqn:E; intros H; inversion H; subst; clear H. rewrite (Z.mod_small v 65536) by lia. reflexivity.
  - destruct ((-32768 <=? sgnw 32 v) && (sgnw 32 v <? 32768)) eqn:E; intros H; inversion H; subst; clear H.
    pose proof (sgnw_congr 32 v ltac:(lia)) as C.
    assert (S16 : sgnw 16 v = sgnw 32 v).
    { assert (sgnw 16 v = sgnw 16 (sgnw 32 v)) as ->.
      { unfold sgnw at 1 3. replace (v mod 2 ^ 16) with (sgnw 32 v mod 2 ^ 16); [reflexivity|].
        rewrite P16. replace (sgnw 32 v mod 65536) with ((sgnw 32 v mod 2 ^ 32) mod 65536) by (rewrite P32; rewrite <- Znumtheory.Zmod_div_mod; try lia; exists 65536; lia).
        rewrite C, P32. rewrite <- Znumtheory.Zmod_div_mod; try lia. exists 65536; lia. }
      apply sgnw_id; lia. }
    rewrite S16. exact C.
  - destruct ((- 2 ^ 32 <=? v) && (v <? 2 ^ 32)) eqn:E; intros H; inversion H; subst; clear H. apply Z.mod_mod. lia.
  - destruct ((- 2 ^ 31 <=? sgnw 32 v) && (sgnw 32 v <? 2 ^ 31)) eqn:E; intros H; inversion H; subst; clear H. apply (sgnw_congr 32). lia.
Qed.

(** the unsigned byte form: exact on 0..255, and the two's-complement byte of -128..-1 *)
Theorem check_imm_u08 v is16 r : check_imm_size v is16 U08 = Some r -> -128 <= v < 256 /\ (0 <= v -> r = v) /\ (v < 0 -> r = v + 256).
Proof.
  unfold check_imm_size. destruct ((-128 <=? v) && (v <? 256)) eqn:E; intros H; inversion H; subst; clear H.
  split; [lia|]. split; intros; [apply Z.mod_small; lia|].
  rewrite <- (Z.mod_add v 1 256) by lia. apply Z.mod_small. lia.
Qed.
(** a value outside the range of a form excludes the form *)
Theorem check_imm_excludes v : (v < -128 \/ 256 <= v -> check_imm_size v false U08 = None) /\
                               (v < 0 \/ 65536 <= v -> check_imm_size v false U16 = None) /\
                               (v < - 2 ^ 32 \/ 2 ^ 32 <= v -> check_imm_size v false U32 = None) /\
                               (128 <= v < 2 ^ 32 - 128 -> check_imm_size v false S08 = None).
Proof.
  destruct pow_vals as (P7 & P8 & P15 & P16 & P31 & P32).
  unfold check_imm_size. repeat split; intros H.
  - destruct ((-128 <=? v) && (v <? 256)) eqn:E; [lia | reflexivity].
  - destruct ((0 <=? v) && (v <? 65536)) eqn:E; [lia | reflexivity].
  - destruct ((- 2 ^ 32 <=? v) && (v <? 2 ^ 32)) eqn:E; [lia | reflexivity].
  - rewrite andb_false_r. destruct ((-128 <=? sgnw 32 v) && (sgnw 32 v <? 128)) eqn:E; [|reflexivity]. exfalso.
    unfold sgnw in E. rewrite P32 in *. replace (2 ^ (32 - 1)) with 2147483648 in E by reflexivity.
    rewrite (Z.mod_small v 4294967296) in E by lia. destruct (v <? 2147483648) eqn:E2; lia.
Qed.

(** little-endian emission reads back *)
Lemma le_roundtrip n v : 0 <= v < 256 ^ Z.of_nat n -> le_value (le_bytes n v) = v.
Proof.
  revert v. induction n as [|n IH]; intros v R.
  - simpl in *. lia.
  - cbn [le_bytes le_value]. rewrite IH.
    + pose proof (Z.div_mod v 256 ltac:(lia)). lia.
    + rewrite Nat2Z.inj_succ, Z.pow_succ_r in R by lia. split; [apply Z.div_pos; lia | apply Z.div_lt_upper_bound; lia].
Qed.
Lemma le_bytes_length n v : List.length (le_bytes n v) = n.
Proof. revert v. induction n; intros; simpl; auto. Qed.
Lemma le_bytes_are_bytes n v : Forall (fun b => 0 <= b < 256) (le_bytes n v).
Proof. revert v. induction n; intros; simpl; constructor; auto. apply Z.mod_pos_bound. lia. Qed.

Theorem emit_read k r : in_range k r -> read k (emit k r) = r.
Proof.
  destruct pow_vals as (P7 & P8 & P15 & P16 & P31 & P32).
  unfold in_range, read, emit. intros R.
  assert (B : 0 < bits k) by (destruct k; simpl; lia).
  assert (E : 256 ^ Z.of_nat (Z.to_nat (bits k / 8)) = 2 ^ bits k) by (destruct k; reflexivity).
  rewrite le_roundtrip by (rewrite E; apply Z.mod_pos_bound; apply Z.pow_pos_nonneg; lia).
  destruct (is_signed k) eqn:S.
  - assert (sgnw (bits k) (r mod 2 ^ bits k) = sgnw (bits k) r) as ->.
    { unfold sgnw. rewrite Z.mod_mod by (apply Z.pow_nonzero; lia). reflexivity. }
    apply sgnw_id; assumption.
  - apply Z.mod_small. assumption.
Qed.
Theorem emit_length k r : List.length (emit k r) = Z.to_nat (bits k / 8).
Proof. apply le_bytes_length. Qed.

(** a value accepted for a form is emitted and read back as the field value that represents it *)
Corollary check_emit_read v is16 k r : check_imm_size v is16 k = Some r -> read k (emit k r) = r /\ r mod 2 ^ bits k = v mod 2 ^ bits k.
Proof. intros H. destruct (check_imm_fits v is16 k r H) as [R C]. split; [apply emit_read; exact R | exact C]. Qed.
