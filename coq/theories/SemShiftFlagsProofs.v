(** SemShiftFlagsProofs.v — the carry flag of shl / shr / sar as written by the lifter: count 0 keeps cf, otherwise cf receives the last bit
    shifted out — for all operand expressions and all states. *)
From Coq Require Import ZArith List Bool String Lia.
From Mx Require Import Expr ExprProofs Sem SemProofs SemShift SemShiftProofs SemShiftFlags.
Import ListNotations.
Open Scope Z_scope.

Lemma is_shf_mirror_sound k args l : is_shf_mirror k args l = true ->
  exists a b, args = [a; b] /\ operand_ok a = true /\ operand_ok b = true /\ (size a = 8 \/ size a = 16 \/ size a = 32) /\
    forall rho mu iota, map (eval rho mu iota) l = map (eval rho mu iota) (mirror_shf k a b).
Proof.
  unfold is_shf_mirror. destruct args as [|a [|b [|? ?]]]; try discriminate. intros H.
  apply andb_true_iff in H as [H E]. apply andb_true_iff in H as [H S]. apply andb_true_iff in H as [Oa Ob].
  exists a, b. repeat split; try assumption.
  - apply orb_true_iff in S as [S|S]; [apply orb_true_iff in S as [S|S]|]; apply Z.eqb_eq in S; auto.
  - intros rho mu iota. apply list_expr_eqb_eval. exact E.
Qed.

(** a signed value of n bits has its sign at every index from n - 1 on *)
Lemma sign_bits n s i : 0 < n -> - 2 ^ (n - 1) <= s < 2 ^ (n - 1) -> n - 1 <= i -> Z.testbit s i = (s <? 0).
Proof.
  intros Hn Hs Hi. assert (P : 2 ^ (n - 1) <= 2 ^ i) by (apply Z.pow_le_mono_r; lia).
  assert (B : Z.b2z (Z.testbit s i) = (s / 2 ^ i) mod 2) by (apply Z.testbit_spec'; lia).
  destruct (Z.ltb_spec s 0) as [N|N].
  - assert (Q : s / 2 ^ i = -1) by (symmetry; apply (Z.div_unique s (2 ^ i) (-1) (s + 2 ^ i)); lia). rewrite Q in B. destruct (Z.testbit s i); [reflexivity | discriminate].
  - rewrite Z.div_small in B by lia. destruct (Z.testbit s i); [discriminate | reflexivity].
Qed.

Section Meaning.
  Variable rho : string -> Z.
  Variable mu : Z -> Z.
  Variable iota : string -> list Z -> Z.
  Notation ev := (eval rho mu iota).
  Variables a b : expr.
  Hypothesis Oa : operand_ok a = true.
  Hypothesis Ob : operand_ok b = true.
  Hypothesis Sa : size a = 8 \/ size a = 16 \/ size a = 32.
  Hypothesis Sb : size b = 8 \/ size b = 16 \/ size b = 32.
  Let n := size a.
  Let x := ev a.
  Let k := ev b mod 32.
  Let Pa := proj1 (operand_range rho mu iota a Oa).
  Let Ra := proj2 (operand_range rho mu iota a Oa).
  Lemma k_value : ev (masked_count b) = k.
  Proof. exact (count_value rho mu iota a b Oa Ob Sb). Qed.
  Lemma k_range : 0 <= k < 32.
  Proof. unfold k. apply Z.mod_pos_bound. lia. Qed.
  Lemma size_mc : size (masked_count b) = size b.
  Proof. destruct (operand_range rho mu iota b Ob) as [Pb _]. unfold masked_count. apply size_op2. lia. Qed.
  Lemma sb_big : 32 < 2 ^ size b.
  Proof. destruct Sb as [E|[E|E]]; rewrite E; reflexivity. Qed.
  Lemma bit0 v : 0 <= v -> wrap n (Z.land 1 v) = Z.b2z (Z.testbit v 0).
  Proof.
    intros Hv. rewrite Z.land_comm. change 1 with (Z.ones 1). rewrite Z.land_ones by lia. change (2 ^ 1) with 2. rewrite <- Z.bit0_mod.
    apply Z.mod_small. assert (1 < 2 ^ n) by (fold n in Pa; change 1 with (2 ^ 0); apply Z.pow_lt_mono_r; lia). destruct (Z.testbit v 0); cbn; lia.
  Qed.

  (** count 0 keeps cf *)
  Theorem cf_kept_or_new new_cf : ev (keep_if_zero b new_cf) = if k =? 0 then rho "cf" mod 2 else ev new_cf.
  Proof.
    unfold keep_if_zero. change (ev (ECond (masked_count b) new_cf cf)) with (if ev (masked_count b) =? 0 then ev cf else ev new_cf). rewrite k_value. reflexivity.
  Qed.
  (** shl: the last bit shifted out is bit n - k of the operand, for 0 < k <= n *)
  Theorem shl_cf_value : 0 < k <= n -> ev (shl_cf a b) = Z.b2z (Z.testbit x (n - k)).
  Proof.
    intros Hk. pose proof sb_big as B32. destruct (operand_range rho mu iota b Ob) as [Pb _]. fold n in Pa. fold n in Sa.
    assert (D : ev (EOp "-" [int_from b (size a); masked_count b]) = n - k).
    { assert (Si : size (int_from b (size a)) = size b) by reflexivity. rewrite (ev_sub rho mu iota) by lia. rewrite Si, k_value. unfold int_from. cbn [eval]. fold n.
      unfold wrap. rewrite (Z.mod_small n) by lia. apply Z.mod_small. lia. }
    unfold shl_cf. change (ev (ESlice (EOp ">>" [a; EOp "-" [int_from b (size a); masked_count b]]) 0 1))
      with (wrap (1 - 0) (Z.shiftr (ev (EOp ">>" [a; EOp "-" [int_from b (size a); masked_count b]])) 0)).
    assert (Sh : ev (EOp ">>" [a; EOp "-" [int_from b (size a); masked_count b]]) = Z.shiftr x (n - k)).
    { rewrite eval_op_node, size_op2 by lia. cbn [map]. rewrite D. unfold eval_op. change (opk_of ">>") with OShr. fold n x. fold n x in Ra.
      replace (wrap n x) with x by (symmetry; apply Z.mod_small; exact Ra). rewrite Z.min_l by lia. apply Z.mod_small. rewrite Z.shiftr_div_pow2 by lia.
      assert (P1 : 0 < 2 ^ (n - k)) by (apply Z.pow_pos_nonneg; lia). split; [apply Z.div_pos; lia|]. apply Z.le_lt_trans with x; [|lia]. apply Z.div_le_upper_bound; [exact P1|]. nia. }
    rewrite Sh. rewrite Z.shiftr_0_r. replace (1 - 0) with 1 by lia. unfold wrap. change (2 ^ 1) with 2. rewrite <- Z.bit0_mod. rewrite Z.shiftr_spec by lia. f_equal; f_equal; lia.
  Qed.
  Lemma count_minus_one : 0 < k -> ev (EOp "-" [masked_count b; int_from b 1]) = k - 1.
  Proof.
    intros Hk. pose proof sb_big as B32. pose proof k_range as Kr. destruct (operand_range rho mu iota b Ob) as [Pb _]. pose proof size_mc as Sm.
    rewrite (ev_sub rho mu iota) by lia. rewrite Sm, k_value. unfold int_from. cbn [eval]. unfold wrap. rewrite (Z.mod_small 1) by lia. apply Z.mod_small. lia.
  Qed.
  (** shr: the last bit shifted out is bit k - 1 of the operand, for every k > 0 (counts above the width give 0) *)
  Theorem shr_cf_value : 0 < k -> ev (shr_cf ">>" a b) = Z.b2z (Z.testbit x (k - 1)).
  Proof.
    intros Hk. fold n in Pa. unfold shr_cf. fold (e_and (int_from a 1) (EOp ">>" [a; EOp "-" [masked_count b; int_from b 1]])).
    assert (Si : size (int_from a 1) = n) by reflexivity. rewrite (ev_and rho mu iota) by lia. rewrite Si.
    rewrite eval_op_node, size_op2 by lia. cbn [map]. rewrite (count_minus_one Hk). unfold eval_op. change (opk_of ">>") with OShr. fold n x. fold n x in Ra.
    replace (wrap n x) with x by (symmetry; apply Z.mod_small; exact Ra).
    assert (W1 : ev (int_from a 1) = 1) by (unfold int_from; cbn [eval]; fold n; apply Z.mod_small; split; [lia|]; change 1 with (2 ^ 0); apply Z.pow_lt_mono_r; lia).
    rewrite W1. set (m := Z.min (k - 1) n). assert (Hm : 0 <= m <= n) by (unfold m; lia).
    assert (R : 0 <= Z.shiftr x m < 2 ^ n).
    { rewrite Z.shiftr_div_pow2 by lia. assert (P1 : 0 < 2 ^ m) by (apply Z.pow_pos_nonneg; lia). split; [apply Z.div_pos; lia|]. apply Z.le_lt_trans with x; [|lia]. apply Z.div_le_upper_bound; [exact P1|]. nia. }
    replace (wrap n (Z.shiftr x m)) with (Z.shiftr x m) by (symmetry; apply Z.mod_small; exact R). rewrite bit0 by lia. rewrite Z.shiftr_spec by lia. replace (0 + m) with m by lia. f_equal.
    unfold m. destruct (Z_le_gt_dec (k - 1) n) as [L|L]; [rewrite Z.min_l by lia; reflexivity|]. rewrite Z.min_r by lia.
    assert (H1 : Z.testbit x n = false) by (rewrite <- (Z.mod_small x (2 ^ n)) by lia; apply Z.mod_pow2_bits_high; lia).
    assert (H2 : Z.testbit x (k - 1) = false) by (rewrite <- (Z.mod_small x (2 ^ n)) by lia; apply Z.mod_pow2_bits_high; lia). congruence.
  Qed.
  (** sar: the last bit shifted out of the sign-extended operand *)
  Theorem sar_cf_value : 0 < k -> ev (shr_cf "a>>" a b) = Z.b2z (Z.testbit (sgnv n x) (k - 1)).
  Proof.
    intros Hk. fold n in Pa. unfold shr_cf. fold (e_and (int_from a 1) (EOp "a>>" [a; EOp "-" [masked_count b; int_from b 1]])).
    assert (Si : size (int_from a 1) = n) by reflexivity. rewrite (ev_and rho mu iota) by lia. rewrite Si.
    rewrite eval_op_node, size_op2 by lia. cbn [map]. rewrite (count_minus_one Hk). unfold eval_op. change (opk_of "a>>") with OSar. fold n x. fold n x in Ra.
    assert (Sg : sgn n x = sgnv n x).
    { unfold sgn, sgnv. cbv zeta. unfold wrap. rewrite (Z.mod_small x (2 ^ n)) by lia. destruct (pow_split n Pa) as [E P].
      destruct (Z.geb_spec (2 * x) (2 ^ n)), (Z.leb_spec (2 ^ (n - 1)) x); try reflexivity; lia. }
    rewrite Sg. set (s := sgnv n x). assert (Bs : - 2 ^ (n - 1) <= s < 2 ^ (n - 1)) by (unfold s, sgnv; destruct (pow_split n Pa) as [E P]; destruct (Z.leb_spec (2 ^ (n - 1)) x); lia).
    assert (W1 : ev (int_from a 1) = 1) by (unfold int_from; cbn [eval]; fold n; apply Z.mod_small; split; [lia|]; change 1 with (2 ^ 0); apply Z.pow_lt_mono_r; lia).
    rewrite W1. set (m := Z.min (k - 1) n). assert (Hm : 0 <= m <= n) by (unfold m; lia).
    assert (P2 : 0 < 2 ^ n) by (apply Z.pow_pos_nonneg; lia).
    rewrite bit0 by (apply Z.mod_pos_bound; exact P2). unfold wrap. rewrite Z.mod_pow2_bits_low by lia. rewrite Z.shiftr_spec by lia. replace (0 + m) with m by lia. f_equal.
    unfold m. destruct (Z_le_gt_dec (k - 1) n) as [L|L]; [rewrite Z.min_l by lia; reflexivity|]. rewrite Z.min_r by lia.
    rewrite (sign_bits n s n Pa Bs) by lia. rewrite (sign_bits n s (k - 1) Pa Bs) by lia. reflexivity.
  Qed.

  (** rol / ror: cf is written as the low bit of the rotated value (rol) and as its top bit (ror) — the processor's rule for a non-zero count *)
  Lemma size_rot op : size (EOp op [a; b]) = n.
  Proof. apply size_op2. fold n in Pa. lia. Qed.
  Theorem rol_cf_value : ev (EOp "&" [shift_val Rol a b; int_from a 1]) = Z.b2z (Z.testbit (ev (shift_val Rol a b)) 0).
  Proof.
    fold n in Pa. unfold shift_val. fold (e_and (EOp "<<<" [a; b]) (int_from a 1)). pose proof (size_rot "<<<") as Sz. rewrite (ev_and rho mu iota) by lia. rewrite Sz.
    assert (W1 : ev (int_from a 1) = 1) by (unfold int_from; cbn [eval]; fold n; apply Z.mod_small; split; [lia|]; change 1 with (2 ^ 0); apply Z.pow_lt_mono_r; lia).
    rewrite W1, Z.land_comm. apply bit0.
    rewrite eval_op_node, Sz. cbn [map]. unfold eval_op. change (opk_of "<<<") with ORol. replace (n =? 0) with false by (symmetry; apply Z.eqb_neq; lia).
    assert (P2 : 0 < 2 ^ n) by (apply Z.pow_pos_nonneg; lia). unfold rol, wrap. cbv zeta. exact (proj1 (Z.mod_pos_bound _ _ P2)).
  Qed.
  Theorem ror_cf_value : ev (msb (shift_val Ror a b)) = Z.b2z (Z.testbit (ev (shift_val Ror a b)) (n - 1)).
  Proof. fold n in Pa. unfold shift_val. rewrite (ev_msb rho mu iota) by (rewrite size_rot; lia). rewrite size_rot. reflexivity. Qed.
End Meaning.
