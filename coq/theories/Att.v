(** Att.v — the mnemonic half of the AT&T <-> Intel conversion (miasmx/arch/ia32_arch.py: mnemo_to_att, mnemo_from_att,
    att_bug_fsub_fdiv) on the tables dumped from the working tree (tie D, gen/AttTables.v).  Hand transcription (tie H) over an
    abstraction of the operand list: only what the two functions inspect.  asm_format = 'att_syntax' (the non-objdump branch).
    No proofs in this file. *)
From Coq Require Import List String Bool Ascii Arith.
Import ListNotations.
Open Scope string_scope.

Inductive szk := Su08 | Su16 | Su32 | Sf32 | Sf64 | Sf80 | Sxmm | Sother.
Definition szk_eqb (a b : szk) : bool :=
  match a, b with Su08, Su08 | Su16, Su16 | Su32, Su32 | Sf32, Sf32 | Sf64, Sf64 | Sf80, Sf80 | Sxmm, Sxmm | Sother, Sother => true | _, _ => false end.
Record stab := mktab { st_map : list (string * szk); st_names : list string }.
Record atables := mkat { at_none : list string; at_ptr : stab; at_iflt : stab; at_flt : stab; at_corr : list (string * string); at_fopt : list string }.

(** what mnemo_to_att looks at in the operand list *)
Record ainfo := mkai {
  ai_size0 : szk;          (* size of args[0] (for an immediate: the width of its integer class) *)
  ai_size1 : szk;          (* size of args[1] (movsx / movzx, movsd) *)
  ai_ad0 : bool;           (* args[0] is a memory operand *)
  ai_two_no_st0 : bool }.  (* len(args) == 2 and not (0 in args[0]): the destination is not st(0) *)

Definition mem (x : string) (l : list string) : bool := existsb (String.eqb x) l.
Definition len := String.length.
Definition prefix4 (s : string) : string := substring 0 4 s.
Definition drop4 (s : string) : string := substring 4 (len s - 4) s.
Definition last1 (s : string) : string := substring (len s - 1) 1 s.
Definition butlast (s : string) : string := substring 0 (len s - 1) s.
Definition last2 (s : string) : string := substring (len s - 2) 2 s.
Definition butlast2 (s : string) : string := substring 0 (len s - 2) s.
Definition starts (p s : string) : bool := String.eqb (substring 0 (len p) s) p.

(** att_bug_fsub_fdiv; None where the code reaches NEVER *)
Definition att_bug (name : string) (two_no_st0 : bool) : option string :=
  if String.eqb (last1 name) "p" then
    if String.eqb (drop4 name) "p" then Some (prefix4 name ++ "rp")
    else if String.eqb (drop4 name) "rp" then Some (prefix4 name ++ "p") else None
  else if two_no_st0 then
    if String.eqb (drop4 name) "" then Some (name ++ "r")
    else if String.eqb (drop4 name) "r" then Some (prefix4 name) else None
  else Some name.

Definition suffix_for (t : stab) (sz : szk) : option string :=
  match find (fun p => szk_eqb (snd p) sz) (st_map t) with Some p => Some (fst p) | None => None end.
Definition size_for (t : stab) (sfx : string) : option szk :=
  match find (fun p => String.eqb (fst p) sfx) (st_map t) with Some p => Some (snd p) | None => None end.

Fixpoint insert_sorted (x : string) (l : list string) : list string :=
  match l with [] => [x] | y :: r => if String.leb x y then x :: l else y :: insert_sorted x r end.
Definition sort_strings (l : list string) : list string := fold_right insert_sorted [] l.

Definition mnemo_to_att (T : atables) (name : string) (a : ainfo) : option string :=
  if String.eqb name "movsd" && negb (szk_eqb (ai_size0 a) Sxmm) && negb (szk_eqb (ai_size1 a) Sxmm) then Some "movsl"
  else if mem name (at_fopt T) && negb (ai_ad0 a) then
    (if mem (prefix4 name) ["fsub"; "fdiv"] then att_bug name (ai_two_no_st0 a) else Some name)
  else
  let try_tab (t : stab) : option string := if mem name (st_names t) then match suffix_for t (ai_size0 a) with Some s => Some (name ++ s) | None => None end else None in
  match try_tab (at_ptr T) with Some r => Some r | None =>
  match try_tab (at_iflt T) with Some r => Some r | None =>
  match try_tab (at_flt T) with Some r => Some r | None =>
  if String.eqb name "call" || starts "j" name then Some name
  else if starts "set" name then Some name
  else if starts "cmov" name then Some name
  else if starts "fcmov" name then Some name
  else if mem name (at_none T) then Some name
  else match sort_strings (map fst (filter (fun p => String.eqb (snd p) name) (at_corr T))) with
       | k :: _ => Some k
       | [] =>
         if String.eqb name "movsx" || String.eqb name "movzx" then
           match ai_size0 a, ai_size1 a with
           | Su32, Su08 => Some (prefix4 name ++ "bl")
           | Su32, Su16 => Some (prefix4 name ++ "wl")
           | Su16, Su08 => Some (prefix4 name ++ "bw")
           | _, _ => None      (* falls off the elif chain: ValueError *)
           end
         else if String.eqb name "push" then Some "pushl" else None
       end
  end end end.

(** mnemo_from_att: the Intel name and the size it imposes on memory operands (None: leaves sizes alone);
    outer None: the code raises *)
Inductive fres := FOk (name : string) (size : option szk) | FRaise.
Definition mnemo_from_att (T : atables) (name : string) (two_no_st0 : bool) : fres :=
  if mem name ["call"; "jmp"] then FOk name None
  else if mem name ["calll"; "jmpl"; "retl"; "bswapl"] then FOk (butlast name) None
  else if String.eqb name "fucompi" then FOk "fucomip" None
  else if String.eqb name "fwait" then FOk "wait" None
  else if starts "j" name then FOk name None
  else if starts "set" name then
    FOk (if String.eqb (last1 name) "b" && negb (mem name ["setb"; "setnb"]) then butlast name else name) (Some Su08)
  else if starts "cmov" name then
    (if String.eqb (last1 name) "w" then FOk (butlast name) (Some Su16)
     else if Nat.ltb 5 (len name) && String.eqb (last1 name) "l" then FOk (butlast name) (Some Su32)
     else FOk name (Some Su32))
  else if starts "fcmov" name then FOk name None
  else match find (fun p => String.eqb (fst p) name) (at_corr T) with Some p => FOk (snd p) None | None =>
  if mem name (at_none T) then
    (if mem (prefix4 name) ["fsub"; "fdiv"] then match att_bug name two_no_st0 with Some n => FOk n None | None => FRaise end
     else if mem name ["fldcw"; "fnstcw"] then FOk name (Some Su16) else FOk name None)
  else
  (* for table in [flt, iflt, ptr]: if name[:-1] in table: size = map[name[-1]] (KeyError if absent) *)
  let tab_step (t : stab) : option fres :=
    if mem (butlast name) (st_names t) then
      match size_for t (last1 name) with Some sz => Some (FOk (butlast name) (Some sz)) | None => Some FRaise end
    else None in
  match tab_step (at_flt T) with Some r => r | None =>
  match tab_step (at_iflt T) with Some r => r | None =>
  match tab_step (at_ptr T) with Some r => r | None =>
  if String.eqb (last2 name) "ll" && mem (butlast2 name) (st_names (at_iflt T)) then FOk (butlast2 name) (Some Sf64)
  else if starts "movs" name || starts "movz" name then
    match size_for (at_ptr T) (substring (len name - 2) 1 name) with Some sz => FOk (prefix4 name ++ "x") (Some sz) | None => FRaise end
  else if String.eqb name "push" then FOk "push" None else FRaise
  end end end end.
