(** ReadPaths.v — two of the read paths of eval_ExprMem in the model EvalAbs.eval_expr (C07): a read that hits a stored cell at its own
    address and width returns the stored value; a read of a NARROWER width at the address of a stored cell returns an expression that
    denotes, in every concrete state, the low bits of the stored value (through the soundness theorem of the simplifier, C05). *)
From Coq Require Import ZArith List Bool String Lia.
From Mx Require Import Expr Simp SimpProofs EvalAbs.
Import ListNotations.
Open Scope Z_scope.

Section Reads.
  Variable ac : bool.
  Variable IdQ : string -> Z -> bool -> bool -> bool.
  Variables (f : nat) (s : pool).
  Definition evs (x : expr) : res expr + xerr := (dox y <- eval_expr f s x; lift (simpF y)).
  Variables (addr : expr) (w : Z) (sg : option expr) (addr1 : expr) (w1 : Z) (sg1 : option expr) (a_val : expr).
  Hypothesis Hvisit : visitM simpF (EMem addr w sg) = Ok (EMem addr1 w1 sg1).      (* the operand after the simplifier's pass *)
  Hypothesis Haddr : evs addr1 = okx a_val.                                        (* its address in the current state *)

  Theorem read_exact_hit v : pool_get_mem s a_val w1 = Some v -> eval_expr (S f) s (EMem addr w sg) = okx v.
  Proof.
    intros Hit. cbn [eval_expr]. change (is_term (EMem addr w sg)) with false. cbv iota. rewrite Hvisit. cbn [lift bindx].
    fold (evs addr1). rewrite Haddr. cbn [bindx okx]. rewrite Hit. reflexivity.
  Qed.

  Theorem read_low_part cell cellv r : pool_get_mem s a_val w1 = None -> adict_get (pool_mem s) a_val = Some (cell, cellv) -> (w1 >? size cell) = false ->
    wf ac IdQ cellv = true -> 0 < w1 <= size cellv ->
    eval_expr (S f) s (EMem addr w sg) = okx r ->
    wf ac IdQ r = true /\ size r = w1 /\ forall rho mu iota, eval rho mu iota r = (eval rho mu iota cellv) mod 2 ^ w1.
  Proof.
    intros Miss Cell Narrow Wv Hw H. cbn [eval_expr] in H. change (is_term (EMem addr w sg)) with false in H. cbv iota in H. rewrite Hvisit in H. cbn [lift bindx] in H.
    fold (evs addr1) in H. rewrite Haddr in H. cbn [bindx okx] in H. rewrite Miss, Cell, Narrow in H. unfold lift, okx in H.
    assert (Hs : simpF (ESlice cellv 0 w1) = Ok r) by (destruct (simpF (ESlice cellv 0 w1)); congruence).
    assert (Ws : wf ac IdQ (ESlice cellv 0 w1) = true).
    { cbn [wf]. rewrite Wv. cbn [andb]. replace (0 <=? 0) with true by reflexivity. replace (0 <? w1) with true by (symmetry; apply Z.ltb_lt; lia).
      replace (w1 <=? size cellv) with true by (symmetry; apply Z.leb_le; lia). reflexivity. }
    destruct (simp_sound_frag1 ac IdQ 40 _ _ Ws Hs) as (A & B & C). split; [exact A|]. split; [rewrite B; cbn [size]; lia|].
    intros rho mu iota. rewrite C. cbn [eval]. rewrite Z.shiftr_0_r. replace (w1 - 0) with w1 by lia. reflexivity.
  Qed.
End Reads.
