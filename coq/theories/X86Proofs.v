(** X86Proofs.v — lemmas about the decoder model that do not depend on the dumped tables. *)
From Coq Require Import ZArith List Bool String Lia.
From Mx Require Import X86Types X86Dis.
Import ListNotations.
Open Scope Z_scope.

(** the reported fall-through address is offset + length (getnextflow) *)
Lemma nextflow_is_offset_plus_len offset i : getnextflow offset i = offset + i_len i.
Proof. reflexivity. Qed.

(** destination arithmetic of a direct relative branch: with the displacement stored (as the decoder does)
    as the unsigned 32-bit residue of the sign-extended value, the reported destination is
    offset + length + displacement truncated to the operand size — for ALL offsets, lengths, displacements *)
Lemma land_ones_mod a n : 0 <= n -> Z.land a (2 ^ n - 1) = a mod 2 ^ n.
Proof. intros H. replace (2 ^ n - 1) with (Z.ones n) by (rewrite Z.ones_equiv; lia). apply Z.land_ones. assumption. Qed.

Lemma mod_mod_pow a n m : 0 <= n <= m -> (a mod 2 ^ m) mod 2 ^ n = a mod 2 ^ n.
Proof.
  intros H. replace (2 ^ m) with (2 ^ n * 2 ^ (m - n)).
  - rewrite Z.rem_mul_r by (apply Z.pow_nonzero; lia) || (apply Z.pow_pos_nonneg; lia).
    rewrite Z.mul_comm, Z.mod_add by (apply Z.pow_nonzero; lia). apply Z.mod_mod. apply Z.pow_nonzero; lia.
  - rewrite <- Z.pow_add_r by lia. f_equal. lia.
Qed.

Lemma dst_arith pfx mid name sz txt len opm adm offset disp ob :
  max_uint_bits opm = Some ob -> ob <= 32 -> name <> "jmpf"%string ->
  getdstflow offset (mkinstr pfx mid name [mkarg (Some AdF) sz [] (Some (32, wrapn 32 disp)) None txt] len opm adm)
  = DstVal ((offset + len + disp) mod 2 ^ ob).
Proof.
  intros Hob Hle Hn. unfold getdstflow. simpl.
  destruct (String.eqb_spec name "jmpf") as [E|_]; [contradiction|].
  unfold is_imm_arg, is_address; simpl. rewrite Hob. f_equal.
  assert (0 <= ob) by (destruct opm; simpl in Hob; inversion Hob; lia).
  rewrite land_ones_mod by assumption. unfold wrapn.
  rewrite mod_mod_pow by lia.
  assert (2 ^ ob <> 0) by (apply Z.pow_nonzero; lia).
  rewrite (Z.add_mod (offset + len) (disp mod 2 ^ 32)) by assumption.
  rewrite (mod_mod_pow disp ob 32) by lia.
  rewrite <- Z.add_mod by assumption. reflexivity.
Qed.
