(** SemShift.v — the value half of the shift / rotate group of the x86 lifter (miasmx/arch/ia32_sem.py: shl = sal, shr, sar, rol, ror):
    the expression assigned to the destination, as a Gallina function of the operand expressions the lifter was called with, and
    the recogniser comparing the LAST assignment of the regenerated list with it.  The flag assignments of this group are not
    mirrored (several are known findings: count 0, counts >= size, OF "hacks"); they are judged by the evaluation against the
    SDM reference.  No proofs in this file. *)
From Coq Require Import ZArith List Bool String.
From Mx Require Import Expr Sem.
Import ListNotations.
Open Scope string_scope.
Open Scope list_scope.
Open Scope Z_scope.

Inductive sh := Sal | Shr | Sar | Rol | Ror.
Definition sh_of (mn : string) : option sh :=
  let is x := (mn =? x)%string in
  if is "sal" || is "shl" then Some Sal else if is "shr" then Some Shr else if is "sar" then Some Sar
  else if is "rol" then Some Rol else if is "ror" then Some Ror else None.
Definition masked_count (b : expr) : expr := EOp "&" [b; int_from b 31].
Definition shift_val (k : sh) (a b : expr) : expr :=
  match k with
  | Sal => EOp "<<" [a; masked_count b]
  | Shr => EOp ">>" [a; masked_count b]
  | Sar => EOp "a>>" [a; masked_count b]
  | Rol => EOp "<<<" [a; b]
  | Ror => EOp ">>>" [a; b]
  end.
Fixpoint last_expr (l : list expr) : option expr := match l with [] => None | [x] => Some x | _ :: r => last_expr r end.
Definition is_shift_mirror (k : sh) (args l : list expr) : bool :=
  match args, last_expr l with
  | [a; b], Some x => operand_ok a && operand_ok b && ((size a =? 8) || (size a =? 16) || (size a =? 32)) && expr_eqb x (mk_aff a (shift_val k a b))
  | _, _ => false
  end.
