(** SemMovFacts.v — reflection obligation: every mov / xchg / movzx / movsx / lea / not / push / pop / nop / clc / stc / cmc / cld / std
    form of the lifted dump regenerated from /repo is, node for node, the mirror of SemMov.v applied to the operand expressions the
    lifter was called with (dumped beside the list), except the shapes the mirror declines (mirror_mv = None: push/pop of a
    segment register, movzx/movsx/lea between equal or mismatched widths under the 66 prefix). *)
From Coq Require Import ZArith List Bool String.
From Mx Require Import Expr Wf Sem SemMov SemMovProofs.
From MxGen Require Import LiftAll.
Import ListNotations.
Definition mv_tie_ok (c : lcase) : bool :=
  match mv_of (lc_mnemo c), lc_lift c with
  | Some k, Some l => match mirror_mv k (lc_args c) with Some m => list_expr_eqb l m | None => true end
  | _, _ => true
  end.
Lemma mv_forms_are_mirrors : forallb (forallb mv_tie_ok) shards = true.
Proof. vm_compute. reflexivity. Qed.
Lemma mv_forms_lifted : forall sh c k l, In sh shards -> In c sh -> mv_of (lc_mnemo c) = Some k -> lc_lift c = Some l ->
  mirror_mv k (lc_args c) = None \/ is_mirror_mv k (lc_args c) l = true.
Proof.
  intros sh c k l Hs Hc Hk Hl. pose proof mv_forms_are_mirrors as H. rewrite forallb_forall in H. specialize (H _ Hs). rewrite forallb_forall in H.
  specialize (H _ Hc). unfold mv_tie_ok in H. rewrite Hk, Hl in H. unfold is_mirror_mv. destruct (mirror_mv k (lc_args c)); [right; exact H | left; reflexivity].
Qed.
Definition n_mv (covered : bool) : nat :=
  fold_left (fun acc sh => fold_left (fun acc c => match mv_of (lc_mnemo c), lc_lift c with
     | Some k, Some l => match mirror_mv k (lc_args c) with Some _ => if covered then S acc else acc | None => if covered then acc else S acc end
     | _, _ => acc end) sh acc) shards O.
Lemma many_mv_forms : (1100 <= n_mv true)%nat /\ (n_mv false <= 120)%nat.
Proof. vm_compute. split; repeat constructor. Qed.
