(** SemDShiftProofs.v — what the destination value of the double-shift mirror means, for all operand expressions and all states. *)
From Coq Require Import ZArith List Bool String Lia.
From Mx Require Import Expr ExprProofs Sem SemProofs SemShift SemDShift.
Import ListNotations.
Open Scope Z_scope.

Lemma is_dshift_mirror_sound k args l : is_dshift_mirror k args l = true ->
  exists a b c x, args = [a; b; c] /\ last_expr l = Some x /\ operand_ok a = true /\ operand_ok b = true /\ operand_ok c = true /\ size a = size b /\
    (size a = 16 \/ size a = 32) /\ forall rho mu iota, eval rho mu iota x = eval rho mu iota (mk_aff a (dshift_val k a b c)).
Proof.
  unfold is_dshift_mirror. destruct args as [|a [|b [|c [|? ?]]]]; try discriminate. destruct (last_expr l) as [x|]; try discriminate. intros H.
  apply andb_true_iff in H as [H E]. apply andb_true_iff in H as [H S]. apply andb_true_iff in H as [H Sab]. apply andb_true_iff in H as [H Oc]. apply andb_true_iff in H as [Oa Ob].
  exists a, b, c, x. repeat split; try assumption.
  - apply Z.eqb_eq. exact Sab.
  - apply orb_true_iff in S as [S|S]; apply Z.eqb_eq in S; auto.
  - intros rho mu iota. apply eval_eqb. exact E.
Qed.

Lemma lor_lt_pow2 a b n : 0 <= n -> 0 <= a < 2 ^ n -> 0 <= b < 2 ^ n -> 0 <= Z.lor a b < 2 ^ n.
Proof.
  intros Hn Ha Hb. split; [apply Z.lor_nonneg; lia|].
  assert (E : Z.lor a b = Z.lor a b mod 2 ^ n) by (rewrite <- !Z.land_ones by lia; rewrite Z.land_lor_distr_l; rewrite !Z.land_ones by lia; rewrite !Z.mod_small by lia; reflexivity).
  rewrite E. apply Z.mod_pos_bound. apply Z.pow_pos_nonneg; lia.
Qed.

Section Meaning.
  Variable rho : string -> Z.
  Variable mu : Z -> Z.
  Variable iota : string -> list Z -> Z.
  Notation ev := (eval rho mu iota).
  Variables a b : expr.
  Hypothesis Oa : operand_ok a = true.
  Hypothesis Ob : operand_ok b = true.
  Hypothesis Sab : size a = size b.
  Let n := size a.
  Let x := ev a.
  Let y := ev b.
  Let Pa := proj1 (operand_range rho mu iota a Oa).
  Let Ra := proj2 (operand_range rho mu iota a Oa).
  Let Rb := proj2 (operand_range rho mu iota b Ob).

  Lemma n_lt : n < 2 ^ n.
  Proof. apply Z.pow_gt_lin_r; lia. Qed.
  (** the two halves, for a count expression s of value c <= n *)
  Lemma right_half s c : ev s = c -> 0 <= c <= n -> ev (EOp ">>" [a; s]) = x / 2 ^ c /\ size (EOp ">>" [a; s]) = n.
  Proof.
    intros Es Hc. split; [|apply size_op2; lia]. rewrite eval_op_node, size_op2 by lia. cbn [map]. rewrite Es. unfold eval_op. change (opk_of ">>") with OShr.
    fold n x. fold n x in Ra. replace (wrap n x) with x by (symmetry; apply Z.mod_small; exact Ra). rewrite Z.min_l by lia. rewrite Z.shiftr_div_pow2 by lia.
    apply Z.mod_small. assert (P1 : 0 < 2 ^ c) by (apply Z.pow_pos_nonneg; lia). split; [apply Z.div_pos; lia|]. apply Z.le_lt_trans with x; [|lia].
    apply Z.div_le_upper_bound; [exact P1|]. nia.
  Qed.
  Lemma left_half e s c : operand_ok e = true -> size e = n -> ev s = c -> 0 <= c <= n ->
    ev (EOp "<<" [e; s]) = (ev e * 2 ^ c) mod 2 ^ n /\ size (EOp "<<" [e; s]) = n.
  Proof.
    intros Oe Se Es Hc. split; [|rewrite size_op2 by lia; exact Se]. rewrite eval_op_node, size_op2 by lia. cbn [map]. rewrite Es, Se. unfold eval_op. change (opk_of "<<") with OShl.
    rewrite Z.min_l by lia. rewrite Z.shiftl_mul_pow2 by lia. reflexivity.
  Qed.
  Lemma complement_count s c : size s <> 0 -> ev s = c -> 0 <= c <= n -> ev (EOp "-" [int_from a (size a); s]) = n - c.
  Proof.
    intros Ss Es Hc. pose proof n_lt as L. assert (Si : size (int_from a (size a)) = n) by reflexivity.
    rewrite (ev_sub rho mu iota) by lia. rewrite Si, Es. unfold int_from. cbn [eval]. fold n. unfold wrap. rewrite (Z.mod_small n) by lia. apply Z.mod_small. lia.
  Qed.

  (** shrd: the destination shifted right, the vacated high bits filled from the low bits of the source *)
  Theorem shrd_value c : operand_ok c = true -> ev c <= n -> ev (shrd_val a b c) = Z.lor (x / 2 ^ ev c) ((y * 2 ^ (n - ev c)) mod 2 ^ n).
  Proof.
    intros Oc Hc. destruct (operand_range rho mu iota c Oc) as [Pc Rc]. unfold shrd_val.
    destruct (right_half c (ev c) eq_refl ltac:(lia)) as [R1 R2]. pose proof (complement_count c (ev c) ltac:(lia) eq_refl ltac:(lia)) as K.
    destruct (left_half b _ (n - ev c) Ob (eq_sym Sab) K ltac:(lia)) as [L1 L2].
    rewrite (ev_or rho mu iota) by lia. rewrite R1, R2, L1. fold y. apply Z.mod_small. apply lor_lt_pow2; [lia | | apply Z.mod_pos_bound; apply Z.pow_pos_nonneg; lia].
    assert (P1 : 0 < 2 ^ ev c) by (apply Z.pow_pos_nonneg; lia). fold n x in Ra. split; [apply Z.div_pos; lia|]. apply Z.le_lt_trans with x; [|lia].
    apply Z.div_le_upper_bound; [exact P1|]. nia.
  Qed.

  (** shld: the count is masked to five bits; count 0 keeps the destination; otherwise the destination shifted left, the vacated low bits
      filled from the high bits of the source *)
  Theorem shld_value c : (size a = 16 \/ size a = 32) -> operand_ok c = true -> (size c = 8 \/ size c = 16 \/ size c = 32) -> let k := ev c mod 32 in k <= n ->
    ev (shld_val a b c) = if k =? 0 then x else Z.lor ((x * 2 ^ k) mod 2 ^ n) (y / 2 ^ (n - k)).
  Proof.
    intros Hn Oc Sc k Hk. destruct (operand_range rho mu iota c Oc) as [Pc Rc]. fold n in Hn.
    assert (Ek : ev (shld_count a c) = k).
    { unfold shld_count. fold (e_and c (int_from a 31)). rewrite (ev_and rho mu iota) by lia. unfold int_from. cbn [eval]. fold n.
      assert (W : wrap n 31 = 31) by (apply Z.mod_small; split; [lia|]; apply Z.lt_le_trans with (2 ^ 5); [reflexivity | apply Z.pow_le_mono_r; lia]).
      rewrite W. change 31 with (Z.ones 5). rewrite Z.land_ones by lia. change (2 ^ 5) with 32. fold k. apply Z.mod_small.
      pose proof (Z.mod_pos_bound (ev c) 32 ltac:(lia)) as B. fold k in B. split; [lia|]. apply Z.lt_le_trans with 32; [lia|]. destruct Sc as [E|[E|E]]; rewrite E; lia. }
    assert (K0 : 0 <= k) by (pose proof (Z.mod_pos_bound (ev c) 32 ltac:(lia)) as B; fold k in B; lia).
    unfold shld_val. change (ev (ECond (shld_count a c) (shld_or a b c) a)) with (if ev (shld_count a c) =? 0 then ev a else ev (shld_or a b c)).
    rewrite Ek. destruct (k =? 0) eqn:Z0; [reflexivity|]. unfold shld_or.
    assert (Ss : size (shld_count a c) <> 0) by (unfold shld_count; rewrite size_op2 by lia; lia).
    destruct (left_half a (shld_count a c) k Oa eq_refl Ek ltac:(lia)) as [L1 L2].
    pose proof (complement_count (shld_count a c) k Ss Ek ltac:(lia)) as K.
    assert (R : ev (EOp ">>" [b; EOp "-" [int_from a (size a); shld_count a c]]) = y / 2 ^ (n - k)).
    { rewrite eval_op_node, size_op2 by lia. cbn [map]. rewrite K. unfold eval_op. change (opk_of ">>") with OShr. rewrite <- Sab. fold n y.
      fold y in Rb. rewrite <- Sab in Rb. fold n in Rb. replace (wrap n y) with y by (symmetry; apply Z.mod_small; exact Rb). rewrite Z.min_l by lia. rewrite Z.shiftr_div_pow2 by lia.
      apply Z.mod_small. assert (P1 : 0 < 2 ^ (n - k)) by (apply Z.pow_pos_nonneg; lia). split; [apply Z.div_pos; lia|]. apply Z.le_lt_trans with y; [|lia].
      apply Z.div_le_upper_bound; [exact P1|]. nia. }
    rewrite (ev_or rho mu iota) by lia. rewrite L1, L2, R. fold x. apply Z.mod_small. apply lor_lt_pow2; [lia | apply Z.mod_pos_bound; apply Z.pow_pos_nonneg; lia |].
    assert (P1 : 0 < 2 ^ (n - k)) by (apply Z.pow_pos_nonneg; lia). fold y in Rb. rewrite <- Sab in Rb. fold n in Rb. split; [apply Z.div_pos; lia|]. apply Z.le_lt_trans with y; [|lia].
    apply Z.div_le_upper_bound; [exact P1|]. nia.
  Qed.
End Meaning.
