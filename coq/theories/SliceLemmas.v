(** SliceLemmas.v — bit-vector facts behind the slice rules of the simplifier (C05, fragment 2). *)
From Coq Require Import ZArith List Bool Lia.
From Mx Require Import Expr.
Import ListNotations.
Open Scope Z_scope.

Lemma wrap_bits w v i : 0 <= w -> 0 <= i -> Z.testbit (wrap w v) i = (i <? w) && Z.testbit v i.
Proof.
  intros Hw Hi. unfold wrap. destruct (Z_lt_le_dec i w) as [L|L].
  - rewrite Z.mod_pow2_bits_low by lia. replace (i <? w) with true by (symmetry; apply Z.ltb_lt; lia). reflexivity.
  - rewrite Z.mod_pow2_bits_high by lia. replace (i <? w) with false by (symmetry; apply Z.ltb_ge; lia). reflexivity.
Qed.
Lemma wrap_eq_bits w a b : 0 <= w -> (forall i, 0 <= i < w -> Z.testbit a i = Z.testbit b i) -> wrap w a = wrap w b.
Proof.
  intros Hw H. apply Z.bits_inj'. intros i Hi. rewrite !wrap_bits by lia. destruct (Z_lt_le_dec i w) as [L|L].
  - rewrite H by lia. reflexivity.
  - replace (i <? w) with false by (symmetry; apply Z.ltb_ge; lia). reflexivity.
Qed.

(** a slice of a slice is a slice *)
Lemma slice_slice v lo hi lo2 hi2 : 0 <= lo -> lo <= hi -> 0 <= lo2 -> hi <= hi2 - lo2 ->
  wrap (hi - lo) (Z.shiftr (wrap (hi2 - lo2) (Z.shiftr v lo2)) lo) = wrap (lo + lo2 + (hi - lo) - (lo + lo2)) (Z.shiftr v (lo + lo2)).
Proof.
  intros H1 H2 H3 H4. replace (lo + lo2 + (hi - lo) - (lo + lo2)) with (hi - lo) by lia.
  apply wrap_eq_bits; [lia|]. intros i Hi. rewrite !Z.shiftr_spec by lia. rewrite wrap_bits by lia. rewrite Z.shiftr_spec by lia.
  replace (i + lo <? hi2 - lo2) with true by (symmetry; apply Z.ltb_lt; lia). cbn [andb]. f_equal. lia.
Qed.

(** the constant rule: uint64(v >> lo) & (2^total - 1), cast to total bits *)
Lemma slice_int v lo total : 0 <= lo -> 0 < total -> total <= 64 ->
  wrap total (Z.land (wrap 64 (Z.shiftr v lo)) (wrap 64 (2 ^ total - 1))) = wrap total (Z.shiftr v lo).
Proof.
  intros H1 H2 H3. apply wrap_eq_bits; [lia|]. intros i Hi. rewrite Z.land_spec, !wrap_bits by lia.
  replace (i <? 64) with true by (symmetry; apply Z.ltb_lt; lia). cbn [andb].
  replace (2 ^ total - 1) with (Z.ones total) by (rewrite Z.ones_equiv; lia). rewrite Z.ones_spec_low by lia. apply andb_true_r.
Qed.

(** the whole-width slice *)
Lemma slice_full v n : 0 <= v < 2 ^ n -> wrap (n - 0) (Z.shiftr v 0) = v.
Proof. intros H. rewrite Z.shiftr_0_r, Z.sub_0_r. apply Z.mod_small. exact H. Qed.

(** little-endian narrowing of a memory read: the low k bytes *)
Section Mem.
  Variable mu : Z -> Z.
  Lemma le_read_lt a n : 0 <= le_read mu a n < 256 ^ Z.of_nat n.
  Proof.
    revert a. induction n as [|n IH]; intros a; cbn [le_read]; [simpl; lia|].
    rewrite Nat2Z.inj_succ, Z.pow_succ_r by lia. pose proof (IH (a + 1)) as B. pose proof (Z.mod_pos_bound (mu (wrap 32 a)) 256 ltac:(lia)) as Bb.
    set (P := 256 ^ Z.of_nat n) in *. set (R := le_read mu (a + 1) n) in *. set (b := mu (wrap 32 a) mod 256) in *. lia.
  Qed.
  Lemma le_read_low a n m : (m <= n)%nat -> (le_read mu a n) mod 256 ^ Z.of_nat m = le_read mu a m.
  Proof.
    revert a n. induction m as [|m IH]; intros a n L.
    - simpl. apply Z.mod_1_r.
    - destruct n as [|n]; [lia|]. cbn [le_read]. rewrite Nat2Z.inj_succ, Z.pow_succ_r by lia.
      specialize (IH (a + 1) n ltac:(lia)). pose proof (le_read_lt (a + 1) m) as B. pose proof (Z.mod_pos_bound (mu (wrap 32 a)) 256 ltac:(lia)) as Bb.
      set (b := mu (wrap 32 a) mod 256) in *. set (R := le_read mu (a + 1) n) in *.
      assert (P : 0 < 256 ^ Z.of_nat m) by (apply Z.pow_pos_nonneg; lia).
      rewrite <- IH. symmetry. apply (Z.mod_unique_pos _ _ (R / 256 ^ Z.of_nat m)); [pose proof (Z.mod_pos_bound R (256 ^ Z.of_nat m) P); nia|].
      pose proof (Z.div_mod R (256 ^ Z.of_nat m) ltac:(lia)). nia.
  Qed.
  Lemma mem_read_narrow a w hi : 0 < hi -> hi < w -> hi mod 8 = 0 ->
    wrap (hi - 0) (Z.shiftr (mem_read mu a w) 0) = mem_read mu a hi.
  Proof.
    intros H1 H2 H3. rewrite Z.shiftr_0_r, Z.sub_0_r. unfold mem_read.
    assert (Eh : hi = 8 * (hi / 8)) by (pose proof (Z.div_mod hi 8 ltac:(lia)); lia).
    assert (Nh : (hi + 7) / 8 = hi / 8) by (rewrite Eh at 1; replace (8 * (hi / 8) + 7) with (7 + (hi / 8) * 8) by lia; rewrite Z.div_add by lia; reflexivity).
    set (k := hi / 8) in *. assert (Pk : 0 < k) by lia.
    assert (Hk : 2 ^ hi = 256 ^ Z.of_nat (Z.to_nat k)).
    { rewrite Z2Nat.id by lia. rewrite Eh. change 256 with (2 ^ 8). rewrite <- Z.pow_mul_r by lia. reflexivity. }
    rewrite Nh. unfold wrap.
    assert (Lw : (Z.to_nat k <= Z.to_nat ((w + 7) / 8))%nat).
    { apply Z2Nat.inj_le; [lia | apply Z.div_pos; lia | unfold k; apply Z.div_le_mono; lia]. }
    assert (Dv : (2 ^ hi | 2 ^ w)) by (exists (2 ^ (w - hi)); rewrite <- Z.pow_add_r by lia; f_equal; lia).
    assert (P1 : 0 < 2 ^ hi) by (apply Z.pow_pos_nonneg; lia). assert (P2 : 0 < 2 ^ w) by (apply Z.pow_pos_nonneg; lia).
    rewrite <- (Znumtheory.Zmod_div_mod (2 ^ hi) (2 ^ w) _ P1 P2 Dv).
    rewrite Hk. rewrite (le_read_low a _ _ Lw). rewrite <- Hk. symmetry. apply Z.mod_small.
    pose proof (le_read_lt a (Z.to_nat k)) as B. rewrite <- Hk in B. exact B.
  Qed.
End Mem.
