(** SemCtl.v — mirror of the near control transfers of the x86 lifter with 32-bit operand size (miasmx/arch/ia32_sem.py: call, ret,
    leave, jmp) on the operand expressions the lifter was called with and the next-instruction address (both dumped beside the
    lifted list).  Far transfers and the forms under the 66 prefix are not covered.  No proofs in this file. *)
From Coq Require Import ZArith List Bool String.
From Mx Require Import Expr Sem SemMov.
Import ListNotations.
Open Scope string_scope.
Open Scope list_scope.
Open Scope Z_scope.

Inductive ctl := Call | Ret | Leave | Jmp.
Definition ctl_of (mn : string) : option ctl :=
  let is x := (mn =? x)%string in
  if is "call" then Some Call else if is "ret" then Some Ret else if is "leave" then Some Leave else if is "jmp" then Some Jmp else None.
Definition eip : expr := EId "eip" 32 true false.
Definition ebp : expr := EId "ebp" 32 true false.
Definition mirror_ctl (k : ctl) (o16 : bool) (next : Z) (args : list expr) : option (list expr) :=
  if o16 then None else
  match k, args with
  | Call, [b] => let c := EOp "+" [esp; EInt false 32 4294967292] in
                 Some [EAff esp c; EAff (EMem c 32 None) (EInt false 32 next); EAff eip b]
  | Ret, [] => Some [EAff esp (EOp "+" [esp; EOp "+" [EInt false 32 4; EInt false 32 0]]); EAff eip (EMem esp 32 None)]
  | Ret, [a] => Some [EAff esp (EOp "+" [esp; EOp "+" [EInt false 32 4; a]]); EAff eip (EMem esp 32 None)]
  | Leave, [] => Some [EAff ebp (EMem ebp 32 None); EAff esp (EOp "+" [EInt false 32 4; ebp])]
  | Jmp, [a] => Some [EAff eip a]
  | _, _ => None
  end.
