(** SemCCProofs.v — soundness of the condition-code checkers of SemCC.v: a flag-only expression has, in EVERY state, memory and
    operator interpretation, the value it has under the valuation of the five flags read off that state; hence a check over the 32
    valuations decides the condition for all states. *)
From Coq Require Import ZArith List Bool String Lia ZifyBool.
From Mx Require Import Expr ExprProofs Sem SemProofs SemCC.
Import ListNotations.
Open Scope Z_scope.

Lemma op_interp_eval iota iota' op w vs : op_interp op (List.length vs) = true -> eval_op iota op w vs = eval_op iota' op w vs.
Proof.
  unfold op_interp, eval_op. destruct (opk_of op); try discriminate; try reflexivity.
  - destruct vs; [discriminate | reflexivity].
  - destruct vs as [|a [|b [|c l]]]; try discriminate; reflexivity.
Qed.

Section FlagCoincidence.
  Variables rho rho' : string -> Z.
  Variables mu mu' : Z -> Z.
  Variables iota iota' : string -> list Z -> Z.
  Hypothesis Hfl : forall n, is_flag n = true -> wrap 1 (rho n) = wrap 1 (rho' n).
  Lemma flagexp_coincide : forall e, flagexp e = true -> eval rho mu iota e = eval rho' mu' iota' e.
  Proof.
    induction e using expr_ind'; intros F; simpl in F; try discriminate.
    - reflexivity.
    - apply andb_true_iff in F as [W N]. apply Z.eqb_eq in W. subst w. simpl. apply Hfl. exact N.
    - apply andb_true_iff in F as [I A]. rewrite !eval_op_node.
      assert (M : map (eval rho mu iota) args = map (eval rho' mu' iota') args).
      { clear I. induction H as [|a l Ha Hl IH]; [reflexivity|]. simpl in A. apply andb_true_iff in A as [A1 A2]. simpl. rewrite (Ha A1), (IH A2). reflexivity. }
      rewrite M. assert (S : size (EOp op args) = size (EOp op args)) by reflexivity. apply op_interp_eval. rewrite map_length. exact I.
    - apply andb_true_iff in F as [F F3]. apply andb_true_iff in F as [F1 F2]. simpl. rewrite (IHe1 F1), (IHe2 F2), (IHe3 F3). reflexivity.
    - simpl. rewrite (IHe F). reflexivity.
    - rewrite !eval_compose. f_equal.
      induction H as [|s l Hs Hl IH]; [reflexivity|]. simpl in F. apply andb_true_iff in F as [F1 F2]. simpl. unfold slot_val at 1 3. rewrite (Hs F1), (IH F2). reflexivity.
  Qed.
End FlagCoincidence.

Lemma wrap1_odd x : wrap 1 x = b2z (Z.odd x).
Proof. unfold wrap. change (2 ^ 1) with 2. rewrite Zmod_odd. destruct (Z.odd x); reflexivity. Qed.
Lemma wrap1_b2z b : wrap 1 (b2z b) = b2z b.
Proof. destruct b; reflexivity. Qed.
Lemma frho_fl rho n : is_flag n = true -> wrap 1 (rho n) = wrap 1 (frho (fl_of rho) n).
Proof.
  unfold is_flag, frho, fl_of. intros H.
  destruct (n =? "cf")%string eqn:E1; [apply String.eqb_eq in E1; rewrite E1, wrap1_b2z; apply wrap1_odd|].
  destruct (n =? "zf")%string eqn:E2; [apply String.eqb_eq in E2; rewrite E2, wrap1_b2z; apply wrap1_odd|].
  destruct (n =? "nf")%string eqn:E3; [apply String.eqb_eq in E3; rewrite E3, wrap1_b2z; apply wrap1_odd|].
  destruct (n =? "of")%string eqn:E4; [apply String.eqb_eq in E4; rewrite E4, wrap1_b2z; apply wrap1_odd|].
  destruct (n =? "pf")%string eqn:E5; [apply String.eqb_eq in E5; rewrite E5, wrap1_b2z; apply wrap1_odd|].
  discriminate.
Qed.
Lemma in_all32 v : In v all32.
Proof. destruct v as [[[[a b] c] d] e]. destruct a, b, c, d, e; vm_compute; repeat (first [left; reflexivity | right]). Qed.

Lemma feval_any rho mu iota e : flagexp e = true -> eval rho mu iota e = feval (fl_of rho) e.
Proof. intros F. unfold feval. apply flagexp_coincide; [|exact F]. intros n Hn. apply frho_fl. exact Hn. Qed.

Lemma cond_spec_sound c p : cond_spec c p = true -> forall rho mu iota, (eval rho mu iota c =? 0) = negb (p (fl_of rho)).
Proof.
  unfold cond_spec. intros H rho mu iota. apply andb_true_iff in H as [F A]. rewrite forallb_forall in A.
  specialize (A (fl_of rho) (in_all32 _)). apply eqb_prop in A. rewrite (feval_any rho mu iota c F). rewrite <- A. rewrite negb_involutive. reflexivity.
Qed.
Lemma val_spec_sound s f : val_spec s f = true -> forall rho mu iota, eval rho mu iota s = f (fl_of rho).
Proof.
  unfold val_spec. intros H rho mu iota. apply andb_true_iff in H as [F A]. rewrite forallb_forall in A.
  specialize (A (fl_of rho) (in_all32 _)). apply Z.eqb_eq in A. rewrite (feval_any rho mu iota s F). exact A.
Qed.

Lemma split_aff_sound a x s : split_aff a = Some (x, s) -> expr_eqb (mk_aff x s) a = true.
Proof.
  destruct a as [| | | | | | |d src]; try discriminate. intros H.
  assert (Plain : forall d0 s0, (match d0 with ESlice _ _ _ => None | _ => Some (d0, s0) end) = Some (x, s) -> expr_eqb (mk_aff x s) (EAff d0 s0) = true).
  { intros d0 s0 P. destruct d0; try discriminate; inversion P; subst; apply eqb_refl. }
  destruct src as [| | | | | |slots|]; try (apply Plain; exact H).
  cbn [split_aff] in H. match type of H with context [find ?f slots] => destruct (find f slots) as [s1|] eqn:Fd end.
  - apply find_some in Fd as [_ E]. inversion H; subst. exact E.
  - apply Plain. exact H.
Qed.

(** * the three families *)
Theorem set_sound c l : set_ok c l = true ->
  exists a x s, l = [a] /\ expr_eqb (mk_aff x s) a = true /\ size x = 8 /\ size s = 8 /\
    forall rho mu iota, eval rho mu iota s = b2z (cc_holds c (fl_of rho)).
Proof.
  unfold set_ok. destruct l as [|a [|? ?]]; try discriminate. destruct (split_aff a) as [[x s]|] eqn:Sp; try discriminate. intros H.
  apply andb_true_iff in H as [H V]. apply andb_true_iff in H as [S1 S2]. apply Z.eqb_eq in S1, S2.
  exists a, x, s. repeat split; try assumption; [apply split_aff_sound; exact Sp|]. intros rho mu iota. apply (val_spec_sound s _ V).
Qed.

Theorem cmov_sound c l : cmov_ok c l = true ->
  exists a x k p q b, l = [a] /\ expr_eqb (mk_aff x (ECond k p q)) a = true /\ (b = p \/ b = q) /\
    forall rho mu iota, eval rho mu iota (ECond k p q) = if cc_holds c (fl_of rho) then eval rho mu iota b else eval rho mu iota x.
Proof.
  unfold cmov_ok. destruct l as [|a [|? ?]]; try discriminate. destruct (split_aff a) as [[x s]|] eqn:Sp; try discriminate.
  destruct s as [| | | |k p q| | |]; try discriminate. intros H. pose proof (split_aff_sound _ _ _ Sp) as E.
  destruct (expr_eqb q x && expr_eqb p x) eqn:Both.
  { apply andb_true_iff in Both as [Q P]. exists a, x, k, p, q, p. repeat split; auto. intros rho mu iota.
    change (eval rho mu iota (ECond k p q)) with (if eval rho mu iota k =? 0 then eval rho mu iota q else eval rho mu iota p).
    rewrite (eval_eqb rho mu iota q x Q), (eval_eqb rho mu iota p x P). destruct (eval rho mu iota k =? 0), (cc_holds c (fl_of rho)); reflexivity. }
  destruct (expr_eqb q x) eqn:Q.
  - exists a, x, k, p, q, p. repeat split; auto. intros rho mu iota.
    change (eval rho mu iota (ECond k p q)) with (if eval rho mu iota k =? 0 then eval rho mu iota q else eval rho mu iota p).
    rewrite (cond_spec_sound k _ H rho mu iota), (eval_eqb rho mu iota q x Q). destruct (cc_holds c (fl_of rho)); reflexivity.
  - destruct (expr_eqb p x) eqn:P; [|discriminate]. exists a, x, k, p, q, q. repeat split; auto. intros rho mu iota.
    change (eval rho mu iota (ECond k p q)) with (if eval rho mu iota k =? 0 then eval rho mu iota q else eval rho mu iota p).
    rewrite (cond_spec_sound k _ H rho mu iota), (eval_eqb rho mu iota p x P). destruct (cc_holds c (fl_of rho)); reflexivity.
Qed.

Theorem jcc_sound c next l : jcc_ok c next l = true ->
  exists d k p q t, l = [EAff d (ECond k p q)] /\ is_eip d = true /\ (t = p \/ t = q) /\
    forall rho mu iota, eval rho mu iota (ECond k p q) = if cc_holds c (fl_of rho) then eval rho mu iota t else next.
Proof.
  unfold jcc_ok. destruct l as [|a [|? ?]]; try discriminate; destruct a as [| | | | | | |d src]; try discriminate;
  destruct src as [| | | |k p q| | |]; try discriminate. intros H.
  apply andb_true_iff in H as [H C]. apply andb_true_iff in H as [H N2]. apply andb_true_iff in H as [Ip N1]. apply Z.leb_le in N1. apply Z.ltb_lt in N2.
  assert (Nx : forall rho mu iota, eval rho mu iota (EInt false 32 next) = next) by (intros; simpl; apply Z.mod_small; lia).
  destruct (expr_eqb q (EInt false 32 next)) eqn:Q.
  - exists d, k, p, q, p. split; [reflexivity|]. split; [exact Ip|]. split; [left; reflexivity|]. intros rho mu iota.
    change (eval rho mu iota (ECond k p q)) with (if eval rho mu iota k =? 0 then eval rho mu iota q else eval rho mu iota p).
    rewrite (cond_spec_sound k _ C rho mu iota), (eval_eqb rho mu iota q _ Q), Nx. destruct (cc_holds c (fl_of rho)); reflexivity.
  - destruct (expr_eqb p (EInt false 32 next)) eqn:P; [|discriminate]. exists d, k, p, q, q. split; [reflexivity|]. split; [exact Ip|]. split; [right; reflexivity|]. intros rho mu iota.
    change (eval rho mu iota (ECond k p q)) with (if eval rho mu iota k =? 0 then eval rho mu iota q else eval rho mu iota p).
    rewrite (cond_spec_sound k _ C rho mu iota), (eval_eqb rho mu iota p _ P), Nx. destruct (cc_holds c (fl_of rho)); reflexivity.
Qed.

(** * what the sixteen conditions mean after a comparison: with the flags a `cmp x, y` of width n leaves (C04_sub_sbb_cmp), the
    conditions are the unsigned / signed order relations of the SDM's mnemonics (below, above, less, greater, equal) *)
Definition cmp_flags (n x y : Z) (pf : bool) : fl5 :=
  let z := (x - y) mod 2 ^ n in (cf_sub n x y 0, z =? 0, Z.testbit z (n - 1), of_sub n x y 0, pf).
Theorem cc_after_cmp n x y pf : 0 < n -> 0 <= x < 2 ^ n -> 0 <= y < 2 ^ n ->
  let v := cmp_flags n x y pf in
  cc_holds CB v = (x <? y) /\ cc_holds CAE v = (y <=? x) /\ cc_holds CE v = (x =? y) /\ cc_holds CNE v = negb (x =? y) /\
  cc_holds CBE v = (x <=? y) /\ cc_holds CA v = (y <? x) /\
  cc_holds CL v = (sgnv n x <? sgnv n y) /\ cc_holds CGE v = (sgnv n y <=? sgnv n x) /\
  cc_holds CLE v = (sgnv n x <=? sgnv n y) /\ cc_holds CG v = (sgnv n y <? sgnv n x).
Proof.
  intros Hn Hx Hy. destruct (pow_split n Hn) as [E P]. set (Q := 2 ^ (n - 1)) in *.
  assert (Zr : 0 <= (x - y) mod 2 ^ n < 2 ^ n) by (apply Z.mod_pos_bound; lia).
  assert (Zv : (x - y) mod 2 ^ n = if x <? y then x - y + 2 ^ n else x - y).
  { destruct (x <? y) eqn:L; [apply Z.ltb_lt in L | apply Z.ltb_ge in L].
    - symmetry. apply (Z.mod_unique_pos _ _ (-1)); lia.
    - apply Z.mod_small. lia. }
  unfold cmp_flags. cbv zeta. rewrite (msb_ge n _ Hn Zr). fold Q. unfold cc_holds, cf_sub, of_sub, sgnv. fold Q. cbv zeta.
  rewrite Zv. rewrite E in *.
  destruct (x <? y) eqn:L; destruct (Q <=? x) eqn:Sx; destruct (Q <=? y) eqn:Sy; repeat split; lia.
Qed.
