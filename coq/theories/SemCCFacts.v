(** SemCCFacts.v — reflection obligation: every setcc / cmovcc / jcc form of the lifted dump regenerated from /repo realises the
    SDM condition its mnemonic names (checked under all 32 flag valuations; lifted to every state by SemCCProofs). *)
From Coq Require Import ZArith List Bool String.
From Mx Require Import Expr Wf Sem SemCC SemCCProofs.
From MxGen Require Import LiftAll.
Import ListNotations.
Definition cc_tie_ok (c : lcase) : bool :=
  match cc_family (lc_mnemo c), lc_lift c with
  | Some (f, k), Some l => cc_ok f k (lc_next c) l
  | _, _ => true
  end.
Definition fam_eqb (f f' : ccfam) : bool := match f, f' with FSet, FSet | FCmov, FCmov | FJcc, FJcc => true | _, _ => false end.
Definition n_cc (f : ccfam) : nat :=
  fold_left (fun acc sh => fold_left (fun acc c => match cc_family (lc_mnemo c), lc_lift c with
     | Some (f', k), Some l => if fam_eqb f f' && cc_ok f' k (lc_next c) l then S acc else acc
     | _, _ => acc end) sh acc) shards O.
Lemma cc_forms_hold : forallb (forallb cc_tie_ok) shards = true.
Proof. vm_compute. reflexivity. Qed.
Lemma cc_forms_lifted : forall sh c f k l, In sh shards -> In c sh -> cc_family (lc_mnemo c) = Some (f, k) -> lc_lift c = Some l ->
  cc_ok f k (lc_next c) l = true.
Proof.
  intros sh c f k l Hs Hc Hf Hl. pose proof cc_forms_hold as H. rewrite forallb_forall in H. specialize (H _ Hs). rewrite forallb_forall in H.
  specialize (H _ Hc). unfold cc_tie_ok in H. rewrite Hf, Hl in H. exact H.
Qed.
Lemma many_cc_forms : (400 <= n_cc FSet)%nat /\ (1200 <= n_cc FCmov)%nat /\ (50 <= n_cc FJcc)%nat.
Proof. vm_compute. repeat split; repeat constructor. Qed.
(** all sixteen conditions occur in each family *)
Definition ccs : list cc := [CO; CNO; CB; CAE; CE; CNE; CBE; CA; CS; CNS; CP; CNP; CL; CGE; CLE; CG].
Definition cc_eqb (a b : cc) : bool := match a, b with
  | CO, CO | CNO, CNO | CB, CB | CAE, CAE | CE, CE | CNE, CNE | CBE, CBE | CA, CA | CS, CS | CNS, CNS | CP, CP | CNP, CNP | CL, CL | CGE, CGE | CLE, CLE | CG, CG => true
  | _, _ => false end.
Definition occurs (f : ccfam) (k : cc) : bool :=
  existsb (existsb (fun c => match cc_family (lc_mnemo c), lc_lift c with Some (f', k'), Some _ => fam_eqb f f' && cc_eqb k k' | _, _ => false end)) shards.
Lemma every_condition_occurs : forallb (fun f => forallb (occurs f) ccs) [FSet; FCmov; FJcc] = true.
Proof. vm_compute. reflexivity. Qed.

(** the three families, for every regenerated form, in every state *)
Lemma setcc_forms : forall sh c k l, In sh shards -> In c sh -> cc_family (lc_mnemo c) = Some (FSet, k) -> lc_lift c = Some l ->
  exists a x s, l = [a] /\ expr_eqb (mk_aff x s) a = true /\ size x = 8%Z /\ size s = 8%Z /\
    forall rho mu iota, eval rho mu iota s = b2z (cc_holds k (fl_of rho)).
Proof. intros sh c k l Hs Hc Hf Hl. apply set_sound. exact (cc_forms_lifted sh c FSet k l Hs Hc Hf Hl). Qed.
Lemma cmovcc_forms : forall sh c k l, In sh shards -> In c sh -> cc_family (lc_mnemo c) = Some (FCmov, k) -> lc_lift c = Some l ->
  exists a x g p q b, l = [a] /\ expr_eqb (mk_aff x (ECond g p q)) a = true /\ (b = p \/ b = q) /\
    forall rho mu iota, eval rho mu iota (ECond g p q) = if cc_holds k (fl_of rho) then eval rho mu iota b else eval rho mu iota x.
Proof. intros sh c k l Hs Hc Hf Hl. apply cmov_sound. exact (cc_forms_lifted sh c FCmov k l Hs Hc Hf Hl). Qed.
Lemma jcc_forms : forall sh c k l, In sh shards -> In c sh -> cc_family (lc_mnemo c) = Some (FJcc, k) -> lc_lift c = Some l ->
  exists d g p q t, l = [EAff d (ECond g p q)] /\ is_eip d = true /\ (t = p \/ t = q) /\
    forall rho mu iota, eval rho mu iota (ECond g p q) = if cc_holds k (fl_of rho) then eval rho mu iota t else lc_next c.
Proof. intros sh c k l Hs Hc Hf Hl. apply jcc_sound. exact (cc_forms_lifted sh c FJcc k l Hs Hc Hf Hl). Qed.
