(** SimpProofs.v — soundness of the simplifier model Simp.v (C05): every rewrite preserves width and value.
    Part 1: algebra of the n-ary operators modulo 2^w, permutations (canonize), flattening. *)
From Coq Require Import ZArith List Bool String Lia Permutation.
From Mx Require Import ModInt ModIntProofs Expr ExprProofs Simp SliceLemmas RotLemmas ComposeProofs.
Import ListNotations.
Open Scope list_scope.
Open Scope Z_scope.

(** * Congruence modulo 2^w *)
Definition cong (w a b : Z) : Prop := a mod 2 ^ w = b mod 2 ^ w.
Lemma cong_refl w a : cong w a a. Proof. reflexivity. Qed.
Lemma cong_sym w a b : cong w a b -> cong w b a. Proof. unfold cong; auto. Qed.
Lemma cong_trans w a b c : cong w a b -> cong w b c -> cong w a c. Proof. unfold cong; congruence. Qed.
Lemma cong_wrap w a : 0 <= w -> cong w (wrap w a) a.
Proof. intros H. unfold cong, wrap. apply Z.mod_mod. apply Z.pow_nonzero; lia. Qed.
Lemma wrap_cong w a b : cong w a b -> wrap w a = wrap w b. Proof. auto. Qed.

Lemma land_ones_mod a w : 0 <= w -> a mod 2 ^ w = Z.land a (Z.ones w).
Proof. intros H. symmetry. apply Z.land_ones. assumption. Qed.

Section Cong.
  Variable w : Z.
  Hypothesis Hw : 0 <= w.
  Let P : 2 ^ w <> 0. Proof. apply Z.pow_nonzero; lia. Qed.

  Lemma cong_add a a' b b' : cong w a a' -> cong w b b' -> cong w (a + b) (a' + b').
  Proof. unfold cong. intros H1 H2. rewrite (Z.add_mod a b), (Z.add_mod a' b') by exact P. rewrite H1, H2. reflexivity. Qed.
  Lemma cong_mul a a' b b' : cong w a a' -> cong w b b' -> cong w (a * b) (a' * b').
  Proof. unfold cong. intros H1 H2. rewrite (Z.mul_mod a b), (Z.mul_mod a' b') by exact P. rewrite H1, H2. reflexivity. Qed.
  Lemma cong_opp a a' : cong w a a' -> cong w (- a) (- a').
  Proof. intros H. replace (- a) with ((-1) * a) by lia. replace (- a') with ((-1) * a') by lia. apply cong_mul; [apply cong_refl | assumption]. Qed.
  Lemma cong_sub a a' b b' : cong w a a' -> cong w b b' -> cong w (a - b) (a' - b').
  Proof. intros H1 H2. unfold Z.sub. apply cong_add; [assumption | apply cong_opp; assumption]. Qed.
  Lemma cong_bits a b : cong w a b <-> (forall i, 0 <= i < w -> Z.testbit a i = Z.testbit b i).
  Proof.
    unfold cong. rewrite !land_ones_mod by exact Hw. split.
    - intros H i Hi. assert (E : Z.testbit (Z.land a (Z.ones w)) i = Z.testbit (Z.land b (Z.ones w)) i) by (rewrite H; reflexivity).
      rewrite !Z.land_spec, Z.ones_spec_low in E by lia. rewrite !andb_true_r in E. exact E.
    - intros H. apply Z.bits_inj'. intros i Hi. rewrite !Z.land_spec. destruct (Z_lt_le_dec i w) as [L|L].
      + rewrite H by lia. reflexivity.
      + rewrite Z.ones_spec_high by lia. rewrite !andb_false_r. reflexivity.
  Qed.
  Lemma cong_lxor a a' b b' : cong w a a' -> cong w b b' -> cong w (Z.lxor a b) (Z.lxor a' b').
  Proof. rewrite !cong_bits. intros H1 H2 i Hi. rewrite !Z.lxor_spec, H1, H2 by assumption. reflexivity. Qed.
  Lemma cong_lor a a' b b' : cong w a a' -> cong w b b' -> cong w (Z.lor a b) (Z.lor a' b').
  Proof. rewrite !cong_bits. intros H1 H2 i Hi. rewrite !Z.lor_spec, H1, H2 by assumption. reflexivity. Qed.
  Lemma cong_land a a' b b' : cong w a a' -> cong w b b' -> cong w (Z.land a b) (Z.land a' b').
  Proof. rewrite !cong_bits. intros H1 H2 i Hi. rewrite !Z.land_spec, H1, H2 by assumption. reflexivity. Qed.
End Cong.

(** * The five associative-commutative operators as folds *)
Inductive aop := AAdd | AMul | AXor | AOr | AAnd.
Definition aop_of (op : string) : option aop :=
  match opk_of op with OAdd => Some AAdd | OMul => Some AMul | OXor => Some AXor | OOr => Some AOr | OAnd => Some AAnd | _ => None end.
Definition af (k : aop) : Z -> Z -> Z := match k with AAdd => Z.add | AMul => Z.mul | AXor => Z.lxor | AOr => Z.lor | AAnd => Z.land end.
Definition au (k : aop) : Z := match k with AAdd => 0 | AMul => 1 | AXor => 0 | AOr => 0 | AAnd => -1 end.
Definition afold (k : aop) (vs : list Z) : Z := fold_left (af k) vs (au k).

Lemma af_comm k a b : af k a b = af k b a.
Proof. destruct k; simpl; [apply Z.add_comm | apply Z.mul_comm | apply Z.lxor_comm | apply Z.lor_comm | apply Z.land_comm]. Qed.
Lemma af_assoc k a b c : af k (af k a b) c = af k a (af k b c).
Proof. destruct k; simpl; [lia | lia | apply Z.lxor_assoc | symmetry; apply Z.lor_assoc | symmetry; apply Z.land_assoc]. Qed.
Lemma af_unit k a : af k (au k) a = a.
Proof. destruct k; simpl; [lia | destruct a; reflexivity | apply Z.lxor_0_l | apply Z.lor_0_l | apply Z.land_m1_l]. Qed.
Lemma af_cong k w a a' b b' : 0 <= w -> cong w a a' -> cong w b b' -> cong w (af k a b) (af k a' b').
Proof. intros H. destruct k; simpl; [apply cong_add | apply cong_mul | apply cong_lxor | apply cong_lor | apply cong_land]; assumption. Qed.

Lemma fold_af_acc k vs acc : fold_left (af k) vs acc = af k acc (afold k vs).
Proof.
  unfold afold. revert acc. induction vs as [|v vs IH]; intros acc; simpl.
  - rewrite af_comm, af_unit. reflexivity.
  - rewrite IH, (IH (af k (au k) v)), af_unit, af_assoc. reflexivity.
Qed.
Lemma afold_cons k v vs : afold k (v :: vs) = af k v (afold k vs).
Proof. unfold afold at 1. simpl. rewrite af_unit. apply fold_af_acc. Qed.
Lemma afold_app k l1 l2 : afold k (l1 ++ l2) = af k (afold k l1) (afold k l2).
Proof. induction l1 as [|v l1 IH]; simpl; [rewrite af_unit; reflexivity | rewrite !afold_cons, IH, af_assoc; reflexivity]. Qed.
Lemma afold_perm k l l' : Permutation l l' -> afold k l = afold k l'.
Proof.
  induction 1 as [| x l l' _ IH | x y l | l l' l'' _ IH1 _ IH2].
  - reflexivity.
  - rewrite !afold_cons, IH. reflexivity.
  - rewrite !afold_cons, <- !af_assoc, (af_comm k y x). reflexivity.
  - congruence.
Qed.
Lemma afold_cong k w l l' : 0 <= w -> Forall2 (cong w) l l' -> cong w (afold k l) (afold k l').
Proof. intros H F. induction F as [|a b l l' Hab _ IH]; [apply cong_refl | rewrite !afold_cons; apply af_cong; assumption]. Qed.

(** eval_op of an associative operator on a non-empty operand list *)
Lemma eval_op_assoc iota op k w vs : aop_of op = Some k -> vs <> [] -> eval_op iota op w vs = wrap w (afold k vs).
Proof.
  unfold aop_of, eval_op. intros H NE. destruct (opk_of op); try discriminate; inversion H; subst; unfold afold; cbn [af au]; try reflexivity.
  destruct vs as [|v r]; [contradiction|]. cbn [fold_left]. rewrite Z.land_m1_l. reflexivity.
Qed.

(** * Sorting is a permutation *)
Lemma insert_by_perm {A} (kf : A -> key) x l : Permutation (insert_by kf x l) (x :: l).
Proof.
  induction l as [|y r IH]; simpl; [reflexivity|]. destruct (key_cmp (kf x) (kf y)); try reflexivity;
    (apply perm_trans with (y :: x :: r); [apply perm_skip; exact IH | apply perm_swap]).
Qed.
Lemma sort_by_perm {A} (kf : A -> key) l : Permutation (sort_by kf l) l.
Proof.
  unfold sort_by. assert (G : forall acc, Permutation (fold_left (fun acc x => insert_by kf x acc) l acc) (acc ++ l)).
  { induction l as [|x l IH]; intros acc; simpl; [rewrite app_nil_r; reflexivity|].
    eapply perm_trans; [apply IH|]. eapply perm_trans; [apply Permutation_app_tail; apply insert_by_perm|].
    simpl. apply Permutation_cons_app. reflexivity. }
  apply (G []).
Qed.

(** * Part 2: well-formed trees (fragments 1 and 2: constants, identifiers, memory cells, conditionals, the five associative operators,
    minus, and slices; every width is at most 64) and the one-step soundness of _expr_simp on them *)
Definition frag_op (op : string) : bool := match opk_of op with OAdd | OMul | OXor | OAnd | OOr | OSub | OShl | OShr | OSar | ORol | ORor | OEq | OParity => true | _ => false end.
Definition is_shift (op : string) : bool := match opk_of op with OShl | OShr | OSar => true | _ => false end.
Definition same_size (n : Z) (args : list expr) : bool := forallb (fun a => size a =? n) args.
(** operands: one width for + * ^ & | - == parity (two operands for ==, one for parity); a value and a count (any widths) for the shifts; a value and an 8-bit count for the rotations *)
(** rotations: a value of width 8, 16, 32 or 64 and an 8-bit count (what the lifter produces: cl or an imm8) *)
Definition rot_args_ok (n : Z) (args : list expr) : bool :=
  match args with [_; c] => (size c =? 8) && ((n =? 8) || (n =? 16) || (n =? 32) || (n =? 64)) | _ => false end.
Definition is_sr (op : string) : bool := is_shift op || is_rot op.
Definition args_ok (op : string) (n : Z) (args : list expr) : bool :=
  if is_shift op then Nat.eqb (List.length args) 2 else if is_rot op then rot_args_ok n args else same_size n args.
Definition op_ok (op : string) (args : list expr) : bool :=
  match args with
  | [] => false
  | a :: _ => frag_op op && args_ok op (size a) args &&
              match opk_of op with OSub => (Nat.leb (List.length args) 2) | OEq => Nat.eqb (List.length args) 2 | OParity => Nat.eqb (List.length args) 1 | _ => true end
  end.
(** concatenations: non-empty; every slot non-empty inside [0, 64]; a constant piece at least as wide as its slot, any other piece exactly
    as wide; starts pairwise distinct, one of them 0, no two slots overlap.  [ac] switches concatenations on or off (the theorems about eval_expr and
    idempotence are stated for the concatenation-free fragment). *)
Fixpoint nodupZ (l : list Z) : bool := match l with [] => true | x :: r => negb (existsb (Z.eqb x) r) && nodupZ r end.
Definition piece_shape (e : expr) (lo hi : Z) : bool := match e with EInt _ w _ => hi - lo <=? w | _ => size e =? hi - lo end.
Definition slot_geom (s : slot) : bool :=
  (0 <=? slot_lo s) && (slot_lo s <? slot_hi s) && (slot_hi s <=? 64) && piece_shape (slot_e s) (slot_lo s) (slot_hi s).
Definition slots_ok (slots : list slot) : bool :=
  negb (match slots with [] => true | _ => false end) && forallb slot_geom slots && nodupZ (map slot_lo slots) && existsb (fun s => slot_lo s =? 0) slots && pdisj slots.
Lemma nodupZ_spec l : nodupZ l = true <-> NoDup l.
Proof.
  induction l as [|x r IH]; simpl; [split; [constructor | reflexivity]|]. rewrite andb_true_iff, negb_true_iff, IH. split.
  - intros [N D]. constructor; [|exact D]. intros I. assert (E : existsb (Z.eqb x) r = true) by (apply existsb_exists; exists x; split; [exact I | apply Z.eqb_refl]). congruence.
  - intros H. inversion H as [|? ? N D]; subst. split; [|exact D]. destruct (existsb (Z.eqb x) r) eqn:E; [|reflexivity]. apply existsb_exists in E as (y & Iy & Q). apply Z.eqb_eq in Q. subst y. contradiction.
Qed.
Lemma piece_shape_alt e lo hi : piece_shape e lo hi = if is_int e then hi - lo <=? size e else size e =? hi - lo.
Proof. destruct e; reflexivity. Qed.
(** [Q name width is_reg is_term]: an arbitrary predicate every identifier of the tree satisfies (the simplifier never invents identifiers, so it is preserved) *)
Section IdPred.
Variable ac : bool.
Variable IdQ : string -> Z -> bool -> bool -> bool.
Fixpoint wf (e : expr) : bool :=
  match e with
  | EInt sg w v => negb sg && ((0 <? w) && (w <=? 64)) && (0 <=? v) && (v <? 2 ^ w)
  | EId n w r t => ((0 <? w) && (w <=? 64)) && IdQ n w r t
  | EMem a w s => wf a && ((0 <? w) && (w <=? 64)) && match s with None => true | Some u => wf u end
  | ESlice e1 lo hi => wf e1 && (0 <=? lo) && (lo <? hi) && (hi <=? size e1)
  | EOp op args => forallb wf args && op_ok op args
  | ECond c a b => wf c && wf a && wf b && (size a =? size b)
  | ECompose slots => ac && forallb (fun s => wf (slot_e s)) slots && slots_ok slots
  | _ => false
  end.

Section Sound.
  Variable rho : string -> Z.
  Variable mu : Z -> Z.
  Variable iota : string -> list Z -> Z.
  Notation ev := (eval rho mu iota).

  Lemma wrap_rng w v : 0 <= w -> 0 <= wrap w v < 2 ^ w.
  Proof. intros H. unfold wrap. apply Z.mod_pos_bound. apply Z.pow_pos_nonneg; lia. Qed.
  Lemma wrap_small w v : 0 <= v < 2 ^ w -> wrap w v = v.
  Proof. intros H. apply Z.mod_small. assumption. Qed.

  Lemma eval_op_range op w vs : 0 < w -> 0 <= eval_op iota op w vs < 2 ^ w.
  Proof.
    intros Hw. assert (P : 0 < 2 ^ w) by (apply Z.pow_pos_nonneg; lia).
    assert (R : forall v, 0 <= wrap w v < 2 ^ w) by (intros; apply wrap_rng; lia).
    unfold eval_op, rol, ror. destruct (opk_of op); destruct vs as [|v1 [|v2 [|v3 r]]];
      repeat match goal with
             | |- 0 <= wrap _ _ < _ => apply R
             | |- 0 <= 0 < _ => lia
             | |- context [if ?c then _ else _] => destruct c
             | |- context [match ?x with Some _ => _ | None => _ end] => destruct x
             end.
  Qed.

  Lemma op_ok_inv op args : op_ok op args = true ->
    exists a r, args = a :: r /\ frag_op op = true /\ args_ok op (size a) args = true.
  Proof.
    unfold op_ok. destruct args as [|a r]; [discriminate|]. intros H.
    apply andb_true_iff in H as [H _]. apply andb_true_iff in H as [F S]. exists a, r. auto.
  Qed.
  Lemma args_ok_noshift op n args : is_sr op = false -> args_ok op n args = same_size n args.
  Proof. unfold is_sr. intros H. apply orb_false_iff in H as [H1 H2]. unfold args_ok. rewrite H1, H2. reflexivity. Qed.

  (** width is positive and the value is in range *)
  (** ** what well-formedness says about a concatenation *)
  Lemma wf_compose_inv l : wf (ECompose l) = true ->
    ac = true /\ l <> [] /\ (forall s, In s l -> wf (slot_e s) = true /\ 0 <= slot_lo s /\ slot_lo s < slot_hi s /\ slot_hi s <= 64 /\ piece_shape (slot_e s) (slot_lo s) (slot_hi s) = true) /\
    NoDup (map slot_lo l) /\ (exists a, In a l /\ slot_lo a = 0) /\ forall i, occ l i <= 1.
  Proof.
    cbn [wf]. intros W. apply andb_true_iff in W as [W O]. apply andb_true_iff in W as [A Wp]. unfold slots_ok in O.
    apply andb_true_iff in O as [O Pd]. apply andb_true_iff in O as [O Ex]. apply andb_true_iff in O as [O Nd]. apply andb_true_iff in O as [Ne Ge].
    split; [exact A|]. split; [destruct l; [discriminate | discriminate]|]. split; [|split; [apply nodupZ_spec; exact Nd|split; [|apply pdisj_occ; exact Pd]]].
    - intros s Hs. rewrite forallb_forall in Wp, Ge. specialize (Wp s Hs). specialize (Ge s Hs). unfold slot_geom in Ge.
      apply andb_true_iff in Ge as [Ge Sh]. apply andb_true_iff in Ge as [Ge H3]. apply andb_true_iff in Ge as [H1 H2].
      apply Z.leb_le in H1, H3. apply Z.ltb_lt in H2. auto.
    - apply existsb_exists in Ex as (a & Ia & Z0). apply Z.eqb_eq in Z0. exists a. auto.
  Qed.
  Lemma wf_compose_size l : wf (ECompose l) = true -> size (ECompose l) = maxhi l /\ 0 < maxhi l /\ maxhi l <= 64.
  Proof.
    intros W. destruct (wf_compose_inv l W) as (_ & Ne & Hs & _ & Ex & _). destruct l as [|s0 r]; [contradiction|].
    destruct (compose_size s0 r) as [E P]; [intros a Ha; destruct (Hs a Ha) as (_ & A1 & A2 & _); lia | exact Ex|].
    split; [exact E|]. split; [exact P|]. unfold maxhi. destruct (fold_max_in (s0 :: r) 0) as [Q|(a & Ha & Q)]; [unfold maxhi in P; lia|].
    rewrite Q. destruct (Hs a Ha) as (_ & _ & _ & A3 & _). exact A3.
  Qed.
  Lemma wf_range_compose l : wf (ECompose l) = true -> 0 < size (ECompose l) /\ 0 <= ev (ECompose l) < 2 ^ size (ECompose l).
  Proof.
    intros W. destruct (wf_compose_size l W) as (E & P & L). rewrite E. split; [exact P|]. rewrite eval_compose_V. apply V_range; [lia|].
    intros a Ha. destruct (wf_compose_inv l W) as (_ & _ & Hs & _). destruct (Hs a Ha) as (_ & A1 & A2 & _). split; [exact A1|]. split; [lia|].
    apply (proj2 (fold_max_ge l 0)). exact Ha.
  Qed.

  Lemma wf_compose_intro l : ac = true -> l <> [] ->
    (forall s, In s l -> wf (slot_e s) = true /\ 0 <= slot_lo s /\ slot_lo s < slot_hi s /\ slot_hi s <= 64 /\ piece_shape (slot_e s) (slot_lo s) (slot_hi s) = true) ->
    NoDup (map slot_lo l) -> (exists a, In a l /\ slot_lo a = 0) -> (forall i, occ l i <= 1) -> wf (ECompose l) = true.
  Proof.
    intros A Ne Hs Nd (a & Ia & Z0) Oc. cbn [wf]. rewrite A. cbn [andb]. apply andb_true_iff. split; [apply forallb_forall; intros s Is; apply (Hs s Is)|].
    unfold slots_ok. repeat (apply andb_true_iff; split).
    - destruct l; [contradiction | reflexivity].
    - apply forallb_forall. intros s Is. destruct (Hs s Is) as (_ & A1 & A2 & A3 & A4). unfold slot_geom. rewrite A4.
      repeat (apply andb_true_iff; split); try reflexivity; [apply Z.leb_le | apply Z.ltb_lt | apply Z.leb_le]; assumption.
    - apply nodupZ_spec. exact Nd.
    - apply existsb_exists. exists a. split; [exact Ia | apply Z.eqb_eq; exact Z0].
    - apply occ_pdisj; [intros b Ib; apply (Hs b Ib) | exact Oc].
  Qed.

  Lemma wf_range : forall e, wf e = true -> 0 < size e /\ 0 <= ev e < 2 ^ size e.
  Proof.
    induction e using expr_ind'; try (intros W; apply wf_range_compose; exact W); simpl; intros W; try discriminate.
    - apply andb_true_iff in W as [W V2]. apply andb_true_iff in W as [W V1]. apply andb_true_iff in W as [Sg Ww]. apply andb_true_iff in Ww as [W1 W2]. apply Z.ltb_lt in W1. split; [assumption | apply wrap_rng; lia].
    - apply andb_true_iff in W as [W _]. apply andb_true_iff in W as [W _]. apply Z.ltb_lt in W. split; [assumption | apply wrap_rng; lia].
    - apply andb_true_iff in W as [W _]. apply andb_true_iff in W as [_ W]. apply andb_true_iff in W as [W _]. apply Z.ltb_lt in W. split; [assumption | unfold mem_read; apply wrap_rng; lia].
    - apply andb_true_iff in W as [Wa Ok_]. destruct (op_ok_inv _ _ Ok_) as (a & r & -> & F & S).
      inversion H as [|? ? Ha Hr]; subst. simpl in Wa. apply andb_true_iff in Wa as [Wa _]. destruct (Ha Wa) as [Pa _].
      assert (Sz : (if size a =? 0 then match r with [] => size a | b :: _ => size b end else size a) = size a)
        by (destruct (size a =? 0) eqn:E; [apply Z.eqb_eq in E; lia | reflexivity]).
      rewrite Sz. split; [assumption|].
      apply eval_op_range. lia.
    - repeat (apply andb_true_iff in W as [W ?]). apply Z.eqb_eq in H. destruct (ev e1 =? 0).
      + rewrite H. apply IHe3. assumption.
      + apply IHe2. assumption.
    - apply andb_true_iff in W as [W Hh]. apply andb_true_iff in W as [W Hl]. apply andb_true_iff in W as [W H0]. apply Z.ltb_lt in Hl. split; [lia | apply wrap_rng; lia].
  Qed.

  (** every width is at most 64 *)
  Lemma wf_size_le : forall e, wf e = true -> size e <= 64.
  Proof.
    induction e using expr_ind'; try (intros W; destruct (wf_compose_size _ W) as (E & _ & L); rewrite E; exact L); simpl; intros W; try discriminate.
    - apply andb_true_iff in W as [W V2]. apply andb_true_iff in W as [W V1]. apply andb_true_iff in W as [Sg Ww]. apply andb_true_iff in Ww as [W1 W2]. apply Z.leb_le in W2. exact W2.
    - apply andb_true_iff in W as [W _]. apply andb_true_iff in W as [_ W]. apply Z.leb_le in W. exact W.
    - apply andb_true_iff in W as [W _]. apply andb_true_iff in W as [_ W]. apply andb_true_iff in W as [_ W]. apply Z.leb_le in W. exact W.
    - apply andb_true_iff in W as [Wa Ok_]. destruct (op_ok_inv _ _ Ok_) as (a & r & -> & F & S).
      inversion H as [|? ? Ha Hr]; subst. simpl in Wa. apply andb_true_iff in Wa as [Wa _]. specialize (Ha Wa).
      destruct (wf_range a Wa) as [Pa _]. destruct (size a =? 0) eqn:E; [apply Z.eqb_eq in E; lia | exact Ha].
    - repeat (apply andb_true_iff in W as [W ?]). apply IHe2. assumption.
    - apply andb_true_iff in W as [W Hh]. apply andb_true_iff in W as [W Hl]. apply andb_true_iff in W as [W H0]. apply Z.leb_le in Hh. specialize (IHe W). lia.
  Qed.

  (** ** evaluation of a well-formed n-ary node *)
  Lemma size_node op a r : size a <> 0 -> size (EOp op (a :: r)) = size a.
  Proof. intros H. simpl. destruct (size a =? 0) eqn:E; [apply Z.eqb_eq in E; contradiction | reflexivity]. Qed.

  Definition all_wf (l : list expr) : Prop := Forall (fun a => wf a = true) l.
  Definition all_size (n : Z) (l : list expr) : Prop := Forall (fun a => size a = n) l.
  Lemma forallb_Forall {A} (f : A -> bool) l : forallb f l = true <-> Forall (fun a => f a = true) l.
  Proof. rewrite forallb_forall, Forall_forall. reflexivity. Qed.
  Lemma same_size_all n l : same_size n l = true <-> all_size n l.
  Proof. unfold same_size, all_size. rewrite forallb_Forall. split; intros H; eapply Forall_impl; try exact H; intros a; apply Z.eqb_eq. Qed.

  Lemma ev_assoc op k a r : aop_of op = Some k -> 0 < size a ->
    ev (EOp op (a :: r)) = wrap (size a) (afold k (map ev (a :: r))).
  Proof.
    intros K Ha. rewrite eval_op_node, size_node by lia. apply eval_op_assoc; [assumption | simpl; discriminate].
  Qed.

  (** the value list of well-formed operands of width n is a list of n-bit values *)
  Lemma all_wf_range n l : all_wf l -> all_size n l -> Forall (fun a => 0 <= ev a < 2 ^ n) l /\ (l <> [] -> 0 < n).
  Proof.
    intros W S. split.
    - induction l as [|a l IH]; constructor; inversion W; inversion S; subst; [apply wf_range; assumption | apply IH; assumption].
    - intros NE. destruct l as [|a l]; [contradiction|]. inversion W; inversion S; subst. apply wf_range; assumption.
  Qed.

  (** ** flatten *)
  Lemma aop_assoc op k : aop_of op = Some k -> is_assoc op = true.
  Proof. unfold aop_of, is_assoc. destruct (opk_of op); try discriminate; reflexivity. Qed.
  Lemma aop_frag op k : aop_of op = Some k -> frag_op op = true.
  Proof. unfold aop_of, frag_op. destruct (opk_of op); try discriminate; reflexivity. Qed.
  Lemma aop_not_sub op k : aop_of op = Some k -> opk_of op <> OSub.
  Proof. unfold aop_of. destruct (opk_of op); try discriminate; congruence. Qed.

  Lemma aop_noshift op k : aop_of op = Some k -> is_sr op = false.
  Proof. unfold aop_of, is_sr, is_shift, is_rot. destruct (opk_of op); try discriminate; reflexivity. Qed.
  Lemma wf_op_inv op args : wf (EOp op args) = true -> is_sr op = false ->
    all_wf args /\ exists a r, args = a :: r /\ frag_op op = true /\ all_size (size a) args.
  Proof.
    simpl. intros H NS. apply andb_true_iff in H as [W O]. split; [apply forallb_Forall; assumption|].
    destruct (op_ok_inv _ _ O) as (a & r & E & F & S). exists a, r. repeat split; try assumption. apply same_size_all. rewrite <- (args_ok_noshift op _ _ NS). assumption.
  Qed.

  Lemma flatten_props op k n l : aop_of op = Some k -> 0 < n -> all_wf l -> all_size n l ->
    all_wf (flatten op l) /\ all_size n (flatten op l) /\ cong n (afold k (map ev (flatten op l))) (afold k (map ev l)) /\ (l <> [] -> flatten op l <> []).
  Proof.
    intros K Hn. induction l as [|a l IH]; intros W S.
    - simpl. repeat split; try constructor. intros H; contradiction.
    - inversion W as [|? ? Wa Wl]; inversion S as [|? ? Sa Sl]; subst. destruct (IH Wl Sl) as (W' & S' & C' & _).
      assert (Dflt : all_wf (a :: flatten op l) /\ all_size (size a) (a :: flatten op l) /\
                     cong (size a) (afold k (map ev (a :: flatten op l))) (afold k (map ev (a :: l))) /\ (a :: flatten op l <> [])).
      { split; [constructor; assumption|]. split; [constructor; [reflexivity | assumption]|]. split; [|discriminate].
        cbn [map]. rewrite !afold_cons. apply af_cong; [lia | apply cong_refl | assumption]. }
      assert (Step : flatten op (a :: l) = (match a with EOp op' xs => if is_assoc op && (op =? op')%string then xs else [a] | _ => [a] end ++ flatten op l)%list) by reflexivity.
      rewrite Step. clear Step.
      destruct a as [| | |op' xs| | | |]; try (destruct Dflt as (D1 & D2 & D3 & D4); repeat split; auto; fail).
      rewrite (aop_assoc _ _ K). cbn [andb]. destruct (op =? op')%string eqn:E; [|destruct Dflt as (D1 & D2 & D3 & D4); repeat split; auto].
      apply String.eqb_eq in E. subst op'.
      destruct (wf_op_inv _ _ Wa (aop_noshift _ _ K)) as (Wx & x & xr & -> & _ & Sx).
      assert (Sxn : size x = size (EOp op (x :: xr))).
      { inversion Wx; subst. symmetry. apply size_node. destruct (wf_range x); try assumption. lia. }
      repeat split.
      + apply Forall_app. split; assumption.
      + apply Forall_app. split; [|assumption]. rewrite <- Sxn. assumption.
      + rewrite map_app, afold_app.
        replace (map ev (EOp op (x :: xr) :: l)) with (ev (EOp op (x :: xr)) :: map ev l) by reflexivity.
        rewrite (afold_cons k (ev (EOp op (x :: xr)))). apply af_cong; [lia | | assumption].
        rewrite (ev_assoc op k x xr K) by (rewrite Sxn; assumption). rewrite Sxn. apply cong_sym, cong_wrap. lia.
      + intros _ H. apply app_eq_nil in H as [H _]. discriminate.
  Qed.

  (** ** constants *)
  Lemma wf_int n v : 0 < n <= 64 -> wf (EInt false n (wrap n v)) = true /\ size (EInt false n (wrap n v)) = n /\ ev (EInt false n (wrap n v)) = wrap n v.
  Proof.
    intros H. pose proof (wrap_rng n v ltac:(lia)) as R. simpl. repeat split.
    - apply andb_true_iff. split; [apply andb_true_iff; split; [apply andb_true_iff; split; [apply Z.ltb_lt; lia | apply Z.leb_le; lia] | apply Z.leb_le; lia] | apply Z.ltb_lt; lia].
    - apply wrap_small. assumption.
  Qed.
  Lemma wf_int_inv sg w v : wf (EInt sg w v) = true -> sg = false /\ 0 < w <= 64 /\ 0 <= v < 2 ^ w /\ ev (EInt sg w v) = v.
  Proof.
    simpl. intros H. apply andb_true_iff in H as [H Hv2]. apply andb_true_iff in H as [H Hv1]. apply andb_true_iff in H as [Hs Hw]. apply andb_true_iff in Hw as [Hw1 Hw2].
    destruct sg; [discriminate|]. apply Z.ltb_lt in Hw1, Hv2. apply Z.leb_le in Hv1, Hw2. repeat split; try lia. apply wrap_small. lia.
  Qed.
  Lemma mk_int_ok n v e : mk_int n v = Ok e -> e = EInt false n (wrap n v).
  Proof. unfold mk_int. destruct (std_width n); intros H; inversion H; reflexivity. Qed.

  Lemma fold2_assoc op k n v1 v2 e : aop_of op = Some k -> 0 < n -> fold2 op false n v1 false n v2 = Ok e ->
    e = EInt false n (wrap n (af k v1 v2)).
  Proof.
    intros K Hn. unfold fold2. rewrite Z.eqb_refl. cbn [negb].
    assert (N : forall r, wrap n (norm (maxcast (cls_of false n) (cls_of false n)) r) = wrap n r).
    { intros r. unfold maxcast, cls_of. cbn [c_w]. destruct (n >? n);
        unfold norm, limit; cbn [c_sg c_w]; unfold wrap; apply Z.mod_mod; apply Z.pow_nonzero; lia. }
    unfold aop_of in K. destruct (opk_of op); try discriminate; inversion K; subst k; unfold binop_apply, exact; cbn [af];
      intros H; apply mk_int_ok in H; rewrite H, N; reflexivity.
  Qed.

  Lemma fold_consts_props op k n : aop_of op = Some k -> 0 < n -> forall fuel rl rl',
    fold_consts op fuel rl = Ok rl' -> all_wf rl -> all_size n rl ->
    all_wf rl' /\ all_size n rl' /\ cong n (afold k (map ev rl')) (afold k (map ev rl)) /\ (rl <> [] -> rl' <> []).
  Proof.
    intros K Hn. induction fuel as [|f IH]; intros rl rl' H W S.
    - simpl in H. inversion H; subst. repeat split; auto; try apply cong_refl.
    - simpl in H. destruct rl as [|e1 rl]; [inversion H; subst; repeat split; auto; try apply cong_refl|].
      destruct e1 as [sg1 w1 v1| | | | | | |]; try (inversion H; subst; repeat split; auto; try apply cong_refl; fail).
      destruct rl as [|e2 rl]; [inversion H; subst; repeat split; auto; try apply cong_refl|].
      destruct e2 as [sg2 w2 v2| | | | | | |]; try (inversion H; subst; repeat split; auto; try apply cong_refl; fail).
      inversion W as [|? ? W1 W']; inversion W' as [|? ? W2 Wr]; inversion S as [|? ? S1 S']; inversion S' as [|? ? S2 Sr]; subst.
      destruct (wf_int_inv _ _ _ W1) as (-> & P1 & R1 & E1). destruct (wf_int_inv _ _ _ W2) as (-> & P2 & R2 & E2).
      simpl in S2. subst w2. simpl size in *.
      destruct (fold2 op false w1 v1 false w1 v2) as [o| |] eqn:F; try discriminate. cbn [bind] in H.
      apply (fold2_assoc op k w1 v1 v2 o K Hn) in F. subst o.
      destruct (wf_int w1 (af k v1 v2) P1) as (Wo & So & Eo).
      destruct (IH _ _ H) as (A & B & C & D).
      + constructor; assumption.
      + constructor; assumption.
      + repeat split; try assumption; [|intros _; apply D; discriminate].
        eapply cong_trans; [exact C|]. cbn [map]. rewrite !afold_cons, Eo, E1, E2, <- af_assoc.
        apply af_cong; [lia | apply cong_wrap; lia | apply cong_refl].
  Qed.

  (** ** duplicates and cancelling pairs *)
  Lemma ev_neg y : 0 < size y -> ev (EOp "-" [y]) = wrap (size y) (- ev y).
  Proof. intros H. rewrite eval_op_node, size_node by lia. reflexivity. Qed.
  Lemma eqb_ev a b : expr_eqb a b = true -> ev a = ev b /\ size a = size b.
  Proof. intros H. split; [apply eval_eqb; assumption | apply size_eqb; assumption]. Qed.

  Lemma af_swap k a x r : af k a (af k x r) = af k x (af k a r).
  Proof. rewrite <- !af_assoc, (af_comm k a x). reflexivity. Qed.

  Lemma is_neg_of_ev x a : is_neg_of x a = true -> wf x = true -> ev x = wrap (size x) (- ev a) /\ size x = size a.
  Proof.
    unfold is_neg_of. destruct x as [| | |op' [|y [|? ?]]| | | |]; try discriminate. intros H W.
    apply andb_true_iff in H as [O E]. apply String.eqb_eq in O. subst op'. destruct (eqb_ev _ _ E) as [Ev Sz].
    destruct (wf_op_inv _ _ W eq_refl) as (Wy & _). inversion Wy; subst. destruct (wf_range y) as [Py _]; [assumption|].
    rewrite ev_neg, size_node by lia. rewrite Ev, Sz. auto.
  Qed.

  Lemma dedup_inner_props op k n : aop_of op = Some k -> 0 < n -> forall rest ai p,
    dedup_inner op ai rest = Ok p -> wf ai = true -> size ai = n -> all_wf rest -> all_size n rest ->
    wf (fst p) = true /\ size (fst p) = n /\ all_wf (snd p) /\ all_size n (snd p) /\
    cong n (af k (ev (fst p)) (afold k (map ev (snd p)))) (af k (ev ai) (afold k (map ev rest))).
  Proof.
    intros K Hn. induction rest as [|x r IH]; intros ai p H Wa Sa Wr Sr.
    - simpl in H. inversion H; subst. simpl. repeat split; auto; try constructor.
    - inversion Wr as [|? ? Wx Wr']; inversion Sr as [|? ? Sx Sr']; subst.
      simpl in H. cbn [map]. rewrite afold_cons.
      destruct (dedup_rule op ai x) eqn:R.
      + destruct (dedup_inner op ai r) as [q| |] eqn:Q; try discriminate. cbn [bind] in H. inversion H; subst p. cbn [fst snd].
        destruct (IH _ _ Q Wa eq_refl Wr' Sr') as (A & B & C & D & E). repeat split; auto; try (constructor; assumption).
        cbn [map]. rewrite afold_cons, (af_swap k (ev (fst q))), (af_swap k (ev ai)). apply af_cong; [lia | apply cong_refl | assumption].
      + (* DDel: x == ai under | or & *)
        destruct (IH _ _ H Wa eq_refl Wr' Sr') as (A & B & C & D & E). repeat split; auto.
        eapply cong_trans; [exact E|].
        unfold dedup_rule in R. unfold aop_of in K. destruct (opk_of op); try discriminate; inversion K; subst k;
          try (destruct (is_neg_of x ai); [discriminate | destruct (is_neg_of ai x); discriminate]);
          destruct (expr_eqb ai x) eqn:Q; try discriminate; destruct (eqb_ev _ _ Q) as [Ev _]; rewrite <- Ev; cbn [af].
        * rewrite Z.land_assoc, Z.land_diag. apply cong_refl.
        * rewrite Z.lor_assoc, Z.lor_diag. apply cong_refl.
      + (* DZeroDel *)
        destruct (mk_int (size ai) 0) as [z| |] eqn:M; try discriminate. cbn [bind] in H. apply mk_int_ok in M. subst z.
        destruct (wf_int (size ai) 0 (conj Hn (wf_size_le ai Wa))) as (Wz & Sz & Ez).
        destruct (IH _ _ H Wz Sz Wr' Sr') as (A & B & C & D & E). repeat split; auto.
        eapply cong_trans; [exact E|]. rewrite Ez.
        replace (wrap (size ai) 0) with 0 by (unfold wrap; rewrite Z.mod_0_l; [reflexivity | apply Z.pow_nonzero; lia]).
        unfold dedup_rule in R. unfold aop_of in K. destruct (opk_of op); try discriminate; inversion K; subst k; cbn [af].
        * (* + *) destruct (is_neg_of x ai) eqn:N1.
          -- destruct (is_neg_of_ev _ _ N1 Wx) as [Ex _]. rewrite Ex, Sx. rewrite Z.add_assoc. apply cong_add; [lia | | apply cong_refl].
             unfold cong. rewrite <- (Z.mod_mod (ev ai + wrap (size ai) (- ev ai)) (2 ^ size ai)) by (apply Z.pow_nonzero; lia).
             f_equal. unfold wrap. rewrite Z.add_mod_idemp_r by (apply Z.pow_nonzero; lia). replace (ev ai + - ev ai) with 0 by lia. reflexivity.
          -- destruct (is_neg_of ai x) eqn:N2; [|discriminate].
             destruct (is_neg_of_ev _ _ N2 Wa) as [Ea _]. rewrite Ea. rewrite Z.add_assoc. apply cong_add; [lia | | apply cong_refl].
             unfold cong. rewrite <- (Z.mod_mod (wrap (size ai) (- ev x) + ev x) (2 ^ size ai)) by (apply Z.pow_nonzero; lia).
             f_equal. unfold wrap. rewrite Z.add_mod_idemp_l by (apply Z.pow_nonzero; lia). replace (- ev x + ev x) with 0 by lia. reflexivity.
        * (* ^ *) destruct (expr_eqb ai x) eqn:Q; [|discriminate]. destruct (eqb_ev _ _ Q) as [Ev _]. rewrite <- Ev.
          rewrite <- Z.lxor_assoc, Z.lxor_nilpotent. apply cong_refl.
        * destruct (expr_eqb ai x); discriminate.
        * destruct (expr_eqb ai x); discriminate.
  Qed.

  Lemma dedup_outer_props op k n : aop_of op = Some k -> 0 < n -> forall fuel args args',
    dedup_outer op fuel args = Ok args' -> all_wf args -> all_size n args ->
    all_wf args' /\ all_size n args' /\ cong n (afold k (map ev args')) (afold k (map ev args)) /\ (args <> [] -> args' <> []).
  Proof.
    intros K Hn. induction fuel as [|f IH]; intros args args' H W S.
    - simpl in H. inversion H; subst. repeat split; auto; try apply cong_refl.
    - simpl in H. destruct args as [|a [|b rest]]; try (inversion H; subst; repeat split; auto; try apply cong_refl; fail).
      inversion W as [|? ? Wa Wr]; inversion S as [|? ? Sa Sr]; subst.
      destruct (dedup_inner op a (b :: rest)) as [p| |] eqn:I; try discriminate. cbn [bind] in H.
      destruct (dedup_outer op f (snd p)) as [r'| |] eqn:O; try discriminate. cbn [bind] in H. inversion H; subst args'.
      destruct (dedup_inner_props op k (size a) K Hn _ _ _ I Wa eq_refl Wr Sr) as (A & B & C & D & E).
      destruct (IH _ _ O C D) as (A' & B' & C' & _).
      repeat split; try (constructor; assumption); try discriminate.
      cbn [map]. rewrite afold_cons. rewrite (afold_cons k (ev a)).
      eapply cong_trans; [|exact E]. apply af_cong; [lia | apply cong_refl | assumption].
  Qed.

  (** A op 0 => A for + | ^ *)
  Lemma zero_right k v : (k = AAdd \/ k = AOr \/ k = AXor) -> af k v 0 = v.
  Proof. intros [->|[->| ->]]; simpl; [lia | apply Z.lor_0_r | apply Z.lxor_0_r]. Qed.
  Lemma afold_removelast_zero k n l : (k = AAdd \/ k = AOr \/ k = AXor) -> l <> [] -> last (map ev l) 1 = 0 ->
    cong n (afold k (map ev (removelast l))) (afold k (map ev l)).
  Proof.
    intros Hk NE L. rewrite (app_removelast_last (EInt false 1 0) NE) at 2. rewrite map_app, afold_app. cbn [map]. rewrite afold_cons.
    assert (Z0 : ev (last l (EInt false 1 0)) = 0).
    { rewrite <- L. clear. induction l as [|a [|b r] IH]; [reflexivity | reflexivity | exact IH]. }
    rewrite Z0. change (afold k []) with (au k). rewrite (af_comm k 0 (au k)), (zero_right k (au k) Hk).
    rewrite (af_comm k _ (au k)), af_unit. apply cong_refl.
  Qed.

  (** ** an associative node rebuilt from a congruent operand list *)
  Lemma all_perm {P : expr -> Prop} l l' : Permutation l l' -> Forall P l -> Forall P l'.
  Proof. intros Pm F. rewrite Forall_forall in *. intros x Hx. apply F. eapply Permutation_in; [apply Permutation_sym; exact Pm | exact Hx]. Qed.

  Lemma node_of_list op k n args0 args : aop_of op = Some k -> 0 < n ->
    all_wf args0 -> all_size n args0 -> args0 <> [] ->
    all_wf args -> all_size n args -> args <> [] -> cong n (afold k (map ev args)) (afold k (map ev args0)) ->
    wf (EOp op args) = true /\ size (EOp op args) = n /\ ev (EOp op args) = ev (EOp op args0).
  Proof.
    intros K Hn W0 S0 N0 W S N C.
    destruct args as [|a r]; [contradiction|]. destruct args0 as [|a0 r0]; [contradiction|].
    inversion S as [|? ? Sa Sr]; inversion S0 as [|? ? Sa0 Sr0]; subst.
    split; [|split].
    - change (wf (EOp op (a :: r))) with (forallb wf (a :: r) && op_ok op (a :: r)). apply andb_true_iff. split; [apply forallb_Forall; assumption|].
      unfold op_ok. rewrite (aop_frag _ _ K), (args_ok_noshift op _ _ (aop_noshift _ _ K)). cbn [andb]. apply andb_true_iff. split.
      + apply same_size_all. assumption.
      + clear - K. unfold aop_of in K. destruct (opk_of op); try discriminate K; reflexivity.
    - apply size_node. lia.
    - rewrite (ev_assoc op k a r K) by lia. rewrite (ev_assoc op k a0 r0 K) by lia. rewrite Sa0. apply wrap_cong. assumption.
  Qed.
  Lemma single_value op k a : aop_of op = Some k -> wf a = true -> ev a = ev (EOp op [a]).
  Proof.
    intros K W. destruct (wf_range a W) as [P R]. rewrite (ev_assoc op k a [] K) by lia. cbn [map]. rewrite afold_cons.
    change (afold k []) with (au k). rewrite af_comm, af_unit. symmetry. apply wrap_small. assumption.
  Qed.

  Lemma last_opt_last (l : list expr) x : last_opt l = Some x -> is_int_val x 0 = true -> wf x = true -> last (map ev l) 1 = 0.
  Proof.
    unfold last_opt. intros H I W. destruct (rev l) as [|y r] eqn:R; [discriminate|]. inversion H; subst y.
    assert (E : l = rev r ++ [x]) by (rewrite <- (rev_involutive l), R; reflexivity). subst l.
    rewrite map_app. cbn [map]. rewrite last_last. destruct x; try discriminate. simpl in I. apply Z.eqb_eq in I. subst.
    destruct (wf_int_inv _ _ _ W) as (_ & _ & _ & E). exact E.
  Qed.
  Lemma last_opt_in (l : list expr) x : last_opt l = Some x -> In x l.
  Proof. unfold last_opt. intros H. destruct (rev l) as [|y r] eqn:R; [discriminate|]. inversion H; subst. apply in_rev. rewrite R. left. reflexivity. Qed.
  Lemma removelast_Forall {P : expr -> Prop} l : Forall P l -> Forall P (removelast l).
  Proof. induction l as [|a [|b r] IH]; intros F; [constructor | constructor | inversion F; subst; constructor; [assumption | apply IH; assumption]]. Qed.

  Definition assoc_pipeline (op : string) (flag : bool) (eargs : list expr) : res expr :=
    let args1 := canonize_expr_list (flatten op eargs) in
    do rl <- fold_consts op (List.length args1) (rev args1);
    let args2 := rev rl in
    let args3 := if flag && (1 <? Z.of_nat (List.length args2)) && match last_opt args2 with Some l => is_int_val l 0 | None => false end
                 then removelast args2 else args2 in
    match args3 with [a0] => Ok a0 | _ => do a2 <- dedup_outer op (List.length args3) args3; Ok (EOp op a2) end.
  Lemma simp_op_unfold op eargs flag :
    (opk_of op = OAdd /\ flag = true) \/ (opk_of op = OMul /\ flag = false) \/ (opk_of op = OXor /\ flag = true) \/
    (opk_of op = OAnd /\ flag = false) \/ (opk_of op = OOr /\ flag = true) ->
    simp_op op eargs = assoc_pipeline op flag eargs.
  Proof.
    intros [[E ->]|[[E ->]|[[E ->]|[[E ->]|[E ->]]]]]; unfold simp_op, assoc_pipeline, is_assoc; rewrite E; cbv zeta;
      (destruct (fold_consts op (List.length (canonize_expr_list (flatten op eargs))) (rev (canonize_expr_list (flatten op eargs)))) as [rl| |]; cbn [bind]; [|reflexivity|reflexivity]);
      cbn [andb];
      match goal with |- context [removelast (rev rl)] => idtac | _ => idtac end;
      match goal with |- match ?x with _ => _ end = _ => destruct x as [|? [|? ?]]; reflexivity end.
  Qed.

  (** ** _expr_simp on an n-ary + * ^ & | node: width and value are preserved, the result is well formed *)
  Theorem simp_op_assoc op k eargs e' : aop_of op = Some k -> wf (EOp op eargs) = true -> simp_op op eargs = Ok e' ->
    wf e' = true /\ size e' = size (EOp op eargs) /\ ev e' = ev (EOp op eargs).
  Proof.
    intros K W H.
    destruct (wf_op_inv _ _ W (aop_noshift _ _ K)) as (Wl & a & r & -> & _ & Sl).
    assert (Hn : 0 < size a) by (inversion Wl; subst; apply wf_range; assumption).
    set (n := size a) in *. set (eargs := a :: r) in *.
    assert (Sz : size (EOp op eargs) = n) by (apply size_node; lia).
    destruct (flatten_props op k n eargs K Hn Wl Sl) as (W0 & S0 & C0 & N0).
    assert (NE : eargs <> []) by discriminate. specialize (N0 NE).
    set (args0 := flatten op eargs) in *.
    pose proof (sort_by_perm key_expr args0) as Pm. fold (canonize_expr_list args0) in Pm.
    set (args1 := canonize_expr_list args0) in *.
    assert (W1 : all_wf args1) by (eapply all_perm; [apply Permutation_sym; exact Pm | exact W0]).
    assert (S1 : all_size n args1) by (eapply all_perm; [apply Permutation_sym; exact Pm | exact S0]).
    assert (C1 : cong n (afold k (map ev args1)) (afold k (map ev eargs))).
    { eapply cong_trans; [|exact C0]. rewrite (afold_perm k (map ev args1) (map ev args0)); [apply cong_refl | apply Permutation_map; exact Pm]. }
    assert (N1 : args1 <> []) by (intros E; apply N0; apply Permutation_nil; rewrite <- E; exact Pm).
    assert (Kk : exists flag, ((opk_of op = OAdd /\ flag = true) \/ (opk_of op = OMul /\ flag = false) \/ (opk_of op = OXor /\ flag = true) \/
                               (opk_of op = OAnd /\ flag = false) \/ (opk_of op = OOr /\ flag = true)) /\ (flag = true -> k = AAdd \/ k = AOr \/ k = AXor)).
    { unfold aop_of in K. destruct (opk_of op); try discriminate; inversion K; subst k;
        [exists true | exists false | exists true | exists false | exists true]; split; auto 10; intros; try discriminate; auto. }
    destruct Kk as (flag & Kf & Hflag).
    rewrite (simp_op_unfold op eargs flag Kf) in H. unfold assoc_pipeline in H. fold args0 in H. fold args1 in H. cbv zeta in H.
    destruct (fold_consts op (List.length args1) (rev args1)) as [rl| |] eqn:F; cbn [bind] in H; try discriminate.
    destruct (fold_consts_props op k n K Hn _ _ _ F) as (W2 & S2 & C2 & N2);
      [apply Forall_rev; exact W1 | apply Forall_rev; exact S1 |].
    assert (N2' : rl <> []) by (apply N2; intros E; apply N1; rewrite <- (rev_involutive args1), E; reflexivity).
    set (args2 := rev rl) in *.
    assert (W2' : all_wf args2) by (apply Forall_rev; exact W2).
    assert (S2' : all_size n args2) by (apply Forall_rev; exact S2).
    assert (C2' : cong n (afold k (map ev args2)) (afold k (map ev eargs))).
    { eapply cong_trans; [|exact C1]. unfold args2.
      rewrite (afold_perm k (map ev (rev rl)) (map ev rl)) by (apply Permutation_map, Permutation_sym, Permutation_rev).
      eapply cong_trans; [exact C2|]. rewrite (afold_perm k (map ev (rev args1)) (map ev args1)) by (apply Permutation_map, Permutation_sym, Permutation_rev). apply cong_refl. }
    assert (N2'' : args2 <> []) by (unfold args2; intros E; apply N2'; rewrite <- (rev_involutive rl), E; reflexivity).
    (* the zero-drop step *)
    assert (Z3 : forall flag0 : bool, (flag0 = true -> k = AAdd \/ k = AOr \/ k = AXor) ->
              let args3 := if flag0 && (1 <? Z.of_nat (List.length args2)) && match last_opt args2 with Some l => is_int_val l 0 | None => false end
                           then removelast args2 else args2 in
              all_wf args3 /\ all_size n args3 /\ cong n (afold k (map ev args3)) (afold k (map ev eargs)) /\ args3 <> []).
    { intros flag0 Hf args3. unfold args3. destruct flag0; cbn [andb]; [|repeat split; assumption].
      destruct (1 <? Z.of_nat (List.length args2)) eqn:L1; cbn [andb]; [|repeat split; assumption].
      destruct (last_opt args2) as [x|] eqn:LO; [|repeat split; assumption].
      destruct (is_int_val x 0) eqn:IZ; [|repeat split; assumption].
      assert (Wx : wf x = true) by (unfold all_wf in W2'; rewrite Forall_forall in W2'; apply W2'; apply last_opt_in; assumption).
      repeat split; try (apply removelast_Forall; assumption).
      - eapply cong_trans; [|exact C2']. apply afold_removelast_zero; [apply Hf; reflexivity | assumption | eapply last_opt_last; eassumption].
      - apply Z.ltb_lt in L1. destruct args2 as [|u [|v t]]; simpl in *; try lia. discriminate. }
    (* the tail of the function, once the operator class is known *)
    assert (Tail : forall args3, all_wf args3 -> all_size n args3 -> cong n (afold k (map ev args3)) (afold k (map ev eargs)) -> args3 <> [] ->
              (match args3 with [a0] => Ok a0 | _ => do a2 <- dedup_outer op (List.length args3) args3; Ok (EOp op a2) end) = Ok e' ->
              wf e' = true /\ size e' = n /\ ev e' = ev (EOp op eargs)).
    { intros args3 W3 S3 C3 N3 HT.
      assert (Gen : (do a2 <- dedup_outer op (List.length args3) args3; Ok (EOp op a2)) = Ok e' -> wf e' = true /\ size e' = n /\ ev e' = ev (EOp op eargs)).
      { intros HG. destruct (dedup_outer op (List.length args3) args3) as [a2| |] eqn:D; try discriminate. cbn [bind] in HG. inversion HG; subst e'.
        destruct (dedup_outer_props op k n K Hn _ _ _ D W3 S3) as (W4 & S4 & C4 & N4).
        apply (node_of_list op k n eargs a2 K Hn Wl Sl NE W4 S4 (N4 N3)). eapply cong_trans; [exact C4 | exact C3]. }
      destruct args3 as [|x [|y t]]; [contradiction | | apply Gen; exact HT].
      inversion HT; subst e'. assert (Wx : wf x = true) by (inversion W3; assumption). assert (Sx : size x = n) by (inversion S3; assumption).
      split; [exact Wx|]. split; [exact Sx|]. rewrite (single_value op k x K Wx).
      apply (node_of_list op k n eargs [x] K Hn Wl Sl NE W3 S3 N3 C3). }
    rewrite Sz. fold args2 in H.
    destruct (Z3 flag Hflag) as (A & B & C & D). apply (Tail _ A B C D). exact H.
  Qed.
  (** ** minus *)
  Lemma flatten_nonassoc op l : is_assoc op = false -> flatten op l = l.
  Proof. intros H. unfold flatten. induction l as [|a l IH]; [reflexivity|]. cbn [flat_map]. rewrite IH, H. destruct a; reflexivity. Qed.

  Definition sub_pipeline (args : list expr) : res expr :=
    match args with
    | [a] => match a with
             | EOp op' [x] => if (op' =? "-")%string then Ok x else if (op' =? "+")%string then Ok (EOp "+" [neg x]) else Ok (EOp "-" args)
             | EInt sg w v => Ok (EInt sg w (norm (cls_of sg w) (- v)))
             | EOp op' xs => if (op' =? "+")%string then Ok (EOp "+" (map neg xs)) else Ok (EOp "-" args)
             | _ => Ok (EOp "-" args)
             end
    | [a; b] => if is_int_val b 0 then Ok a else Ok (EOp "+" [a; neg b])
    | _ => Err EValueError
    end.
  Lemma simp_sub_unfold args : List.length args = 1%nat \/ List.length args = 2%nat -> simp_op "-" args = sub_pipeline args.
  Proof.
    intros L. unfold simp_op. rewrite flatten_nonassoc by reflexivity.
    change (is_assoc "-") with false. change (opk_of "-") with OSub. cbv iota zeta. cbn [bind].
    destruct args as [|a [|b [|c t]]]; simpl in L; try lia.
    - destruct a as [sg w v| | |op' [|x [|x2 xs]]| | | |]; unfold sub_pipeline, last_opt; cbn;
        repeat match goal with |- context [if ?c then _ else _] => destruct c end; reflexivity.
    - unfold sub_pipeline, last_opt. cbn. destruct (is_int_val b 0); destruct a as [| | |? [|? [|? ?]]| | | |]; reflexivity.
  Qed.

  Lemma wf_neg x : wf x = true -> wf (neg x) = true /\ size (neg x) = size x /\ ev (neg x) = wrap (size x) (- ev x).
  Proof.
    intros W. destruct (wf_range x W) as [P _]. unfold neg. split; [|split; [apply size_node; lia | apply ev_neg; assumption]].
    change (wf (EOp "-" [x])) with (forallb wf [x] && op_ok "-" [x]). cbn [forallb]. rewrite W. cbn. rewrite Z.eqb_refl. reflexivity.
  Qed.

  Lemma sum_of_negs n xs : 0 < n -> all_wf xs -> all_size n xs ->
    all_wf (map neg xs) /\ all_size n (map neg xs) /\ cong n (afold AAdd (map ev (map neg xs))) (- afold AAdd (map ev xs)).
  Proof.
    intros Hn. induction xs as [|x xs IH]; intros W S.
    - repeat split; try constructor.
    - inversion W; inversion S; subst. destruct (IH H2 H6) as (A & B & C). destruct (wf_neg x H1) as (Wn & Sn & En).
      repeat split; try (constructor; assumption).
      cbn [map]. rewrite !afold_cons, En. cbn [af]. rewrite Z.opp_add_distr. apply cong_add; [lia | apply cong_wrap; lia | assumption].
  Qed.

  Lemma neg_of_plus xs : wf (EOp "+" xs) = true ->
    wf (EOp "+" (map neg xs)) = true /\ size (EOp "+" (map neg xs)) = size (EOp "+" xs) /\ ev (EOp "+" (map neg xs)) = ev (EOp "-" [EOp "+" xs]).
  Proof.
    intros W. destruct (wf_op_inv _ _ W eq_refl) as (Wx & x0 & xr & -> & _ & Sx).
    assert (P0 : 0 < size x0) by (inversion Wx; subst; apply wf_range; assumption).
    destruct (sum_of_negs (size x0) (x0 :: xr) P0 Wx Sx) as (A & B & C).
    assert (K : aop_of "+" = Some AAdd) by reflexivity.
    cbn [map] in *. destruct (wf_neg x0 ltac:(inversion Wx; assumption)) as (_ & Sn & _).
    assert (Sp : size (EOp "+" (x0 :: xr)) = size x0) by (apply size_node; lia).
    split; [|split].
    - change (wf (EOp "+" (neg x0 :: map neg xr))) with (forallb wf (neg x0 :: map neg xr) && op_ok "+" (neg x0 :: map neg xr)).
      apply andb_true_iff. split; [apply forallb_Forall; exact A|]. unfold op_ok. rewrite Sn. rewrite (args_ok_noshift "+" _ _ eq_refl).
      change (frag_op "+") with true. change (opk_of "+") with OAdd. cbn [andb]. rewrite andb_true_r. apply same_size_all; exact B.
    - rewrite Sp. rewrite size_node by (rewrite Sn; lia). exact Sn.
    - rewrite (ev_assoc "+" AAdd (neg x0) (map neg xr) K) by (rewrite Sn; lia). rewrite Sn.
      rewrite ev_neg by (rewrite Sp; lia). rewrite Sp.
      rewrite (ev_assoc "+" AAdd x0 xr K) by lia. apply wrap_cong. eapply cong_trans; [exact C|]. apply cong_opp; [lia | apply cong_sym, cong_wrap; lia].
  Qed.
  Lemma neg_neg x : wf x = true -> ev x = ev (EOp "-" [EOp "-" [x]]).
  Proof.
    intros W. destruct (wf_range x W) as [P R]. assert (S1 : size (EOp "-" [x]) = size x) by (apply size_node; lia).
    rewrite ev_neg by (rewrite S1; lia). rewrite S1, ev_neg by lia.
    rewrite <- (wrap_small (size x) (ev x) R) at 1. apply wrap_cong.
    apply cong_sym. eapply cong_trans; [apply cong_opp; [lia | apply cong_wrap; lia]|]. rewrite Z.opp_involutive. apply cong_refl.
  Qed.

  Theorem simp_op_sub eargs e' : wf (EOp "-" eargs) = true -> simp_op "-" eargs = Ok e' ->
    wf e' = true /\ size e' = size (EOp "-" eargs) /\ ev e' = ev (EOp "-" eargs).
  Proof.
    intros W H. pose proof W as W'. simpl in W'. apply andb_true_iff in W' as [Wl O]. unfold op_ok in O.
    destruct eargs as [|a r]; [discriminate|]. rewrite (args_ok_noshift "-" _ _ eq_refl) in O. change (opk_of "-") with OSub in O. change (frag_op "-") with true in O. cbn [andb] in O.
    apply andb_true_iff in O as [S L]. apply Nat.leb_le in L.
    apply forallb_Forall in Wl. apply same_size_all in S. inversion Wl as [|? ? Wa Wr]; inversion S as [|? ? _ Sr]; subst.
    destruct (wf_range a Wa) as [Pa Ra].
    rewrite simp_sub_unfold in H by (destruct r as [|b [|c t]]; simpl in *; [left|right|lia]; reflexivity).
    rewrite size_node by lia.
    destruct r as [|b [|c t]]; [| |simpl in L; lia].
    - (* unary *)
      assert (Ev : ev (EOp "-" [a]) = wrap (size a) (- ev a)) by (apply ev_neg; assumption).
      assert (Keep : wf (EOp "-" [a]) = true /\ size (EOp "-" [a]) = size a /\ ev (EOp "-" [a]) = ev (EOp "-" [a]))
        by (split; [exact W | split; [apply size_node; lia | reflexivity]]).
      unfold sub_pipeline in H.
      destruct a as [sg w v| | |op' xs| | | |]; try (inversion H; subst e'; exact Keep).
      + (* - int *)
        inversion H; subst e'. destruct (wf_int_inv _ _ _ Wa) as (-> & Pw & Rv & E).
        assert (N : norm (cls_of false w) (- v) = wrap w (- v)) by reflexivity. rewrite N.
        destruct (wf_int w (- v) Pw) as (A & B & C). repeat split; try assumption. rewrite C, Ev, E. reflexivity.
      + assert (Plus : (op' =? "+")%string = true -> wf (EOp "+" (map neg xs)) = true /\ size (EOp "+" (map neg xs)) = size (EOp op' xs) /\
                        ev (EOp "+" (map neg xs)) = ev (EOp "-" [EOp op' xs])).
        { intros Eo. apply String.eqb_eq in Eo. subst op'. apply neg_of_plus. exact Wa. }
        destruct xs as [|x [|x2 xs]].
        * destruct (op' =? "+")%string eqn:Eo; [inversion H; subst e'; apply Plus; reflexivity | inversion H; subst e'; exact Keep].
        * destruct (op' =? "-")%string eqn:Em.
          -- inversion H; subst e'. apply String.eqb_eq in Em. subst op'.
             destruct (wf_op_inv _ _ Wa eq_refl) as (Wx & _). inversion Wx as [|? ? Wx0 _]; subst.
             destruct (wf_range x Wx0) as [Px _]. assert (Sx : size (EOp "-" [x]) = size x) by (apply size_node; lia).
             split; [exact Wx0|]. split; [symmetry; exact Sx | apply neg_neg; exact Wx0].
          -- destruct (op' =? "+")%string eqn:Eo; [inversion H; subst e'; apply (Plus eq_refl) | inversion H; subst e'; exact Keep].
        * destruct (op' =? "+")%string eqn:Eo; [inversion H; subst e'; apply Plus; reflexivity | inversion H; subst e'; exact Keep].
    - (* binary *)
      inversion Wr as [|? ? Wb _]; inversion Sr as [|? ? Sb _]; subst.
      assert (Ev : ev (EOp "-" [a; b]) = wrap (size a) (ev a - ev b)) by (rewrite eval_op_node, size_node by lia; reflexivity).
      unfold sub_pipeline in H. destruct (is_int_val b 0) eqn:IZ.
      + inversion H; subst e'. split; [exact Wa|]. split; [reflexivity|]. rewrite Ev.
        destruct b; try discriminate. simpl in IZ. apply Z.eqb_eq in IZ. subst.
        destruct (wf_int_inv _ _ _ Wb) as (_ & _ & _ & E). rewrite E, Z.sub_0_r. symmetry. apply wrap_small. assumption.
      + inversion H; subst e'. destruct (wf_neg b Wb) as (Wn & Sn & En).
        assert (K : aop_of "+" = Some AAdd) by reflexivity.
        split; [|split].
        * change (wf (EOp "+" [a; neg b])) with (forallb wf [a; neg b] && op_ok "+" [a; neg b]). cbn [forallb]. rewrite Wa, Wn. cbn [andb].
          unfold op_ok. rewrite (args_ok_noshift "+" _ _ eq_refl). change (frag_op "+") with true. change (opk_of "+") with OAdd. cbn [andb same_size forallb]. rewrite Z.eqb_refl, Sn, Sb, Z.eqb_refl. reflexivity.
        * apply size_node. lia.
        * rewrite (ev_assoc "+" AAdd a [neg b] K) by lia. rewrite Ev. apply wrap_cong. cbn [map]. rewrite !afold_cons. change (afold AAdd []) with 0. cbn [af].
          rewrite En, Sb, Z.add_0_r. unfold Z.sub. apply cong_add; [lia | apply cong_refl | apply cong_wrap; lia].
  Qed.
  Definition good (e e' : expr) : Prop := wf e' = true /\ size e' = size e /\ ev e' = ev e.
  Lemma good_refl e : wf e = true -> good e e.
  Proof. intros W. repeat split; assumption. Qed.
  Lemma good_trans e1 e2 e3 : good e1 e2 -> good e2 e3 -> good e1 e3.
  Proof. intros (A & B & C) (A' & B' & C'). repeat split; [assumption | congruence | congruence]. Qed.

  (** ** shifts: a value and a count *)
  Lemma dedup_rule_shift op ai aj : is_shift op = true -> dedup_rule op ai aj = DKeep.
  Proof. unfold is_shift, dedup_rule. destruct (opk_of op); try discriminate; reflexivity. Qed.
  Lemma dedup_inner_shift op : is_shift op = true -> forall rest ai, dedup_inner op ai rest = Ok (ai, rest).
  Proof.
    intros S. induction rest as [|x r IH]; intros ai; simpl; [reflexivity|]. rewrite (dedup_rule_shift op ai x S), IH. reflexivity.
  Qed.
  Lemma dedup_outer_shift op : is_shift op = true -> forall fuel args, dedup_outer op fuel args = Ok args.
  Proof.
    intros S. induction fuel as [|f IH]; intros args; simpl; [reflexivity|].
    destruct args as [|a [|b r]]; try reflexivity. rewrite (dedup_inner_shift op S). cbn [bind fst snd]. rewrite IH. reflexivity.
  Qed.

  Definition shift_pipeline (op : string) (a c : expr) : res expr :=
    do rl <- (match opk_of op with OSar => Ok [c; a] | _ => fold_consts op 2 [c; a] end);
    let args := rev rl in
    let zd := match opk_of op with OSar => false | _ => true end in
    let args1 := if zd && (1 <? Z.of_nat (List.length args)) && match last_opt args with Some l => is_int_val l 0 | None => false end
                 then removelast args else args in
    match opk_of op, args1 with
    | (OShl | OShr), [x] => Ok x
    | OShr, a0 :: EInt sgc wc vc :: rest =>
        match a0 with
        | EOp op2 ys =>
            if (op2 =? "&")%string then
              match ys with
              | _ :: EInt sgm wm vm :: _ => if vm <? 2 ^ vc then mk_int (size a0) 0 else Ok (EOp op args1)
              | _ :: _ :: _ => Ok (EOp op args1)
              | _ => Err EIndexError
              end
            else Ok (EOp op args1)
        | _ => Ok (EOp op args1)
        end
    | _, _ => Ok (EOp op args1)
    end.
  Lemma simp_shift_unfold op a c : is_shift op = true -> simp_op op [a; c] = shift_pipeline op a c.
  Proof.
    unfold is_shift. intros S. unfold simp_op, shift_pipeline.
    destruct (opk_of op) eqn:Ek; try discriminate;
      (rewrite (flatten_nonassoc op) by (unfold is_assoc; rewrite Ek; reflexivity));
      unfold is_assoc; rewrite Ek; cbv zeta; cbn [rev app List.length].
    - (* << *)
      destruct (fold_consts op 2 [c; a]) as [rl| |]; cbn [bind]; [|reflexivity|reflexivity].
      set (args1 := if true && (1 <? Z.of_nat (List.length (rev rl))) && match last_opt (rev rl) with Some l => is_int_val l 0 | None => false end then removelast (rev rl) else rev rl).
      destruct args1 as [|x [|y t]]; try reflexivity; rewrite (dedup_outer_shift op) by (unfold is_shift; rewrite Ek; reflexivity); reflexivity.
    - (* >> *)
      destruct (fold_consts op 2 [c; a]) as [rl| |]; cbn [bind]; [|reflexivity|reflexivity].
      set (args1 := if true && (1 <? Z.of_nat (List.length (rev rl))) && match last_opt (rev rl) with Some l => is_int_val l 0 | None => false end then removelast (rev rl) else rev rl).
      destruct args1 as [|x [|y t]]; try reflexivity; rewrite (dedup_outer_shift op) by (unfold is_shift; rewrite Ek; reflexivity); cbn [bind]; try reflexivity.
    - (* a>> *)
      cbn [bind rev app]. unfold last_opt. cbn [rev app andb]. rewrite (dedup_outer_shift op) by (unfold is_shift; rewrite Ek; reflexivity). reflexivity.
  Qed.

  Lemma shiftl_sat w x c : 0 < w -> 0 <= c -> wrap w (Z.shiftl x c) = wrap w (Z.shiftl x (Z.min c w)).
  Proof.
    intros Hw Hc. destruct (Z_le_gt_dec c w) as [L|L]; [rewrite Z.min_l by lia; reflexivity|]. rewrite Z.min_r by lia.
    apply wrap_eq_bits; [lia|]. intros i Hi. rewrite !Z.shiftl_spec_low by lia. reflexivity.
  Qed.
  Lemma shiftr_sat w x c : 0 < w -> 0 <= c -> 0 <= x < 2 ^ w -> Z.shiftr x c = Z.shiftr x (Z.min c w).
  Proof.
    intros Hw Hc Hx. destruct (Z_le_gt_dec c w) as [L|L]; [rewrite Z.min_l by lia; reflexivity|]. rewrite Z.min_r by lia.
    rewrite !Z.shiftr_div_pow2 by lia. rewrite (Z.div_small x (2 ^ w)) by lia.
    apply Z.div_small. split; [lia|]. apply Z.lt_le_trans with (2 ^ w); [lia | apply Z.pow_le_mono_r; lia].
  Qed.

  Lemma ev_shift op a c : is_shift op = true -> 0 < size a -> 0 <= ev a < 2 ^ size a -> 0 <= ev c ->
    ev (EOp op [a; c]) = match opk_of op with
                         | OShl => wrap (size a) (Z.shiftl (ev a) (ev c))
                         | OShr => wrap (size a) (Z.shiftr (ev a) (ev c))
                         | _ => ev (EOp op [a; c]) end.
  Proof.
    intros S Pa Ra Pc. rewrite eval_op_node, size_node by lia. cbn [map]. unfold eval_op, is_shift in *.
    destruct (opk_of op); try discriminate; try reflexivity.
    - symmetry. apply shiftl_sat; lia.
    - rewrite (wrap_small (size a) (ev a) Ra). rewrite <- (shiftr_sat (size a) (ev a) (ev c)) by lia. reflexivity.
  Qed.

  Lemma fold2_shift op w v1 v2 e : (opk_of op = OShl \/ opk_of op = OShr) -> 0 < w -> 0 <= v1 -> fold2 op false w v1 false w v2 = Ok e ->
    e = EInt false w (wrap w (match opk_of op with OShl => Z.shiftl v2 v1 | _ => Z.shiftr v2 v1 end)).
  Proof.
    intros K Hw Hv. unfold fold2. rewrite Z.eqb_refl. cbn [negb].
    assert (N : forall r, wrap w (norm (maxcast (cls_of false w) (cls_of false w)) r) = wrap w r).
    { intros r. unfold maxcast, cls_of. cbn [c_w]. destruct (w >? w);
        unfold norm, limit; cbn [c_sg c_w]; unfold wrap; apply Z.mod_mod; apply Z.pow_nonzero; lia. }
    assert (Nn : (v1 <? 0) = false) by (apply Z.ltb_ge; lia).
    destruct K as [K|K]; rewrite K; unfold binop_apply, exact; rewrite Nn; intros H; apply mk_int_ok in H; rewrite H, N; reflexivity.
  Qed.

  Lemma land_le_r a b : 0 <= b -> Z.land a b <= b.
  Proof.
    intros Hb. assert (L : Z.ldiff (Z.land a b) b = 0).
    { apply Z.bits_inj'. intros n Hn. rewrite Z.ldiff_spec, Z.land_spec, Z.bits_0. destruct (Z.testbit a n), (Z.testbit b n); reflexivity. }
    pose proof (Z.sub_nocarry_ldiff b (Z.land a b) L) as E.
    assert (0 <= Z.ldiff b (Z.land a b)) by (apply Z.ldiff_nonneg; left; exact Hb). lia.
  Qed.
  Lemma afold_and_bound : forall vs, Forall (fun v => 0 <= v) vs -> forall m, In m vs -> 0 <= afold AAnd vs <= m.
  Proof.
    induction vs as [|v vs IH]; intros F m I; [contradiction|]. inversion F as [|? ? Pv Fv]; subst. rewrite afold_cons. cbn [af].
    destruct vs as [|v2 vs'].
    - change (afold AAnd []) with (-1). rewrite Z.land_m1_r. destruct I as [->|[]]. lia.
    - assert (P2 : 0 <= afold AAnd (v2 :: vs')) by (apply (IH Fv v2); left; reflexivity).
      destruct I as [->|I].
      + split; [apply Z.land_nonneg; lia|]. rewrite Z.land_comm. apply land_le_r; lia.
      + destruct (IH Fv m I) as [_ U]. split; [apply Z.land_nonneg; lia|]. apply Z.le_trans with (afold AAnd (v2 :: vs')); [apply land_le_r; lia | exact U].
  Qed.

  Definition both_int (c a : expr) : bool := is_int c && is_int a.
  Lemma fold_consts_1 op o : fold_consts op 1 [o] = Ok [o]. Proof. destruct o; reflexivity. Qed.
  Lemma fold_consts_2 op c a : fold_consts op 2 [c; a] =
    match c, a with EInt sg1 w1 v1, EInt sg2 w2 v2 => do o <- fold2 op sg1 w1 v1 sg2 w2 v2; Ok [o] | _, _ => Ok [c; a] end.
  Proof.
    destruct c; try reflexivity. destruct a; try reflexivity. cbn [fold_consts].
    destruct (fold2 op sg w v sg0 w0 v0) as [o| |]; try reflexivity. cbn [bind]. destruct o; reflexivity.
  Qed.

  (** the `(X & m) >> c` rule: the masked value is below 2^c *)
  Lemma and_mask_shr a0 ys y0 sgm wm vm t vc : wf a0 = true -> a0 = EOp "&" ys -> ys = y0 :: EInt sgm wm vm :: t -> 0 <= vc -> vm < 2 ^ vc ->
    Z.shiftr (ev a0) vc = 0.
  Proof.
    intros W -> -> Hc Hm. destruct (wf_op_inv _ _ W eq_refl) as (Wl & a & r & E & _ & Sz). inversion E; subst a r. clear E.
    inversion Wl as [|? ? W0 Wl1]; subst. inversion Wl1 as [|? ? Wm _]; subst.
    destruct (wf_range y0 W0) as [P0 R0]. destruct (wf_int_inv _ _ _ Wm) as (_ & _ & Rm & Em).
    destruct (all_wf_range _ _ Wl Sz) as [Rg _].
    rewrite (ev_assoc "&" AAnd y0 _ eq_refl P0).
    assert (F : Forall (fun v => 0 <= v) (map ev (y0 :: EInt sgm wm vm :: t))).
    { apply Forall_forall. intros v I. apply in_map_iff in I as (x & <- & I). rewrite Forall_forall in Rg. specialize (Rg x I). lia. }
    assert (I : In vm (map ev (y0 :: EInt sgm wm vm :: t))) by (cbn [map]; right; left; exact Em). pose proof (afold_and_bound _ F vm I) as B.
    set (A := afold AAnd (map ev (y0 :: EInt sgm wm vm :: t))) in *.
    assert (RA : 0 <= wrap (size y0) A <= A) by (unfold wrap; split; [apply Z.mod_pos_bound; apply Z.pow_pos_nonneg; lia | apply Z.mod_le; [lia | apply Z.pow_pos_nonneg; lia]]).
    rewrite Z.shiftr_div_pow2 by lia. apply Z.div_small. lia.
  Qed.

  Theorem simp_op_shift op eargs e' : is_shift op = true -> wf (EOp op eargs) = true -> simp_op op eargs = Ok e' -> good (EOp op eargs) e'.
  Proof.
    intros S W H. pose proof W as W'. simpl in W'. apply andb_true_iff in W' as [Wl O]. destruct (op_ok_inv _ _ O) as (a & r & -> & _ & Ao).
    unfold args_ok in Ao. rewrite S in Ao. destruct r as [|c [|? ?]]; try discriminate.
    apply forallb_Forall in Wl. inversion Wl as [|? ? Wa Wl']; inversion Wl' as [|? ? Wc _]; subst.
    destruct (wf_range a Wa) as [Pa Ra]. destruct (wf_range c Wc) as [Pc Rc]. pose proof (wf_size_le a Wa) as Sle.
    rewrite (simp_shift_unfold op a c S) in H. unfold shift_pipeline in H.
    assert (Keep : good (EOp op [a; c]) (EOp op [a; c])) by (apply good_refl; exact W).
    assert (Sz : size (EOp op [a; c]) = size a) by (apply size_node; lia).
    pose proof (ev_shift op a c S Pa Ra ltac:(lia)) as Ev.
    assert (Sar : opk_of op = OSar -> good (EOp op [a; c]) e').
    { intros Ek. rewrite Ek in H. cbn [bind rev app] in H. unfold last_opt in H. cbn [rev app andb] in H. inversion H; subst e'. exact Keep. }
    assert (K2 : opk_of op = OSar \/ ((opk_of op = OShl \/ opk_of op = OShr))) by (unfold is_shift in S; destruct (opk_of op); try discriminate; auto).
    destruct K2 as [Ek|K2]; [exact (Sar Ek)|]. clear Sar.
    assert (EvS : ev (EOp op [a; c]) = wrap (size a) (match opk_of op with OShl => Z.shiftl (ev a) (ev c) | _ => Z.shiftr (ev a) (ev c) end))
      by (destruct K2 as [Ek|Ek]; rewrite Ek in Ev |- *; exact Ev).
    assert (ZeroDrop : is_int_val c 0 = true -> good (EOp op [a; c]) a).
    { intros Z0. destruct c; try discriminate. simpl in Z0. apply Z.eqb_eq in Z0. subst. destruct (wf_int_inv _ _ _ Wc) as (_ & _ & _ & E0).
      split; [exact Wa|]. split; [symmetry; exact Sz|]. rewrite EvS, E0. destruct K2 as [Ek|Ek]; rewrite Ek; rewrite ?Z.shiftl_0_r, ?Z.shiftr_0_r; symmetry; apply wrap_small; exact Ra. }
    (* the constant fold *)
    assert (Fold : forall sg1 w1 v1 sg2 w2 v2 o, c = EInt sg1 w1 v1 -> a = EInt sg2 w2 v2 -> fold2 op sg1 w1 v1 sg2 w2 v2 = Ok o -> good (EOp op [a; c]) o).
    { intros sg1 w1 v1 sg2 w2 v2 o Ec Ea F. subst a c.
      destruct (wf_int_inv _ _ _ Wc) as (-> & Pw1 & Rv1 & E1). destruct (wf_int_inv _ _ _ Wa) as (-> & Pw2 & Rv2 & E2).
      assert (Ew : w1 = w2) by (unfold fold2 in F; destruct (w1 =? w2) eqn:Q; [apply Z.eqb_eq; exact Q | discriminate]). subst w2.
      apply (fold2_shift op w1 v1 v2 o K2) in F; try lia. subst o.
      match goal with |- good _ (EInt false w1 (wrap w1 ?x)) => destruct (wf_int w1 x Pw1) as (A & B & C) end.
      split; [exact A|]. split; [rewrite B; symmetry; exact Sz|]. rewrite C, EvS, E1, E2. simpl size. destruct K2 as [Ek|Ek]; rewrite Ek; reflexivity. }
    rewrite fold_consts_2 in H.
    assert (Tail : (match opk_of op with OSar => Ok [c; a] | _ => match c, a with EInt sg1 w1 v1, EInt sg2 w2 v2 => do o <- fold2 op sg1 w1 v1 sg2 w2 v2; Ok [o] | _, _ => Ok [c; a] end end)
                   = match c, a with EInt sg1 w1 v1, EInt sg2 w2 v2 => do o <- fold2 op sg1 w1 v1 sg2 w2 v2; Ok [o] | _, _ => Ok [c; a] end)
      by (destruct K2 as [Ek|Ek]; rewrite Ek; reflexivity).
    rewrite Tail in H. clear Tail.
    assert (Zd : (match opk_of op with OSar => false | _ => true end) = true) by (destruct K2 as [Ek|Ek]; rewrite Ek; reflexivity).
    rewrite Zd in H.
    (* both constants *)
    destruct (both_int c a) eqn:BI.
    { destruct c as [sg1 w1 v1| | | | | | |]; try discriminate. destruct a as [sg2 w2 v2| | | | | | |]; try discriminate.
      destruct (fold2 op sg1 w1 v1 sg2 w2 v2) as [o| |] eqn:F; cbn [bind] in H; try discriminate.
      cbn [rev app List.length Z.of_nat] in H. cbn [andb Z.ltb Z.compare Pos.compare Pos.of_succ_nat] in H. change (1 <? 1) with false in H. cbn [andb] in H.
      assert (H' : Ok o = Ok e') by (destruct K2 as [Ek|Ek]; rewrite Ek in H; exact H). inversion H'; subst e'.
      eapply Fold; try reflexivity. exact F. }
    assert (RL : match c, a with EInt sg1 w1 v1, EInt sg2 w2 v2 => do o <- fold2 op sg1 w1 v1 sg2 w2 v2; Ok [o] | _, _ => Ok [c; a] end = Ok [c; a]).
    { unfold both_int in BI. destruct c; try reflexivity. destruct a; try reflexivity. discriminate. }
    rewrite RL in H. clear RL. cbn [bind rev app] in H. unfold last_opt in H. cbn [rev app List.length Z.of_nat Pos.of_succ_nat Pos.succ] in H. change (1 <? 2) with true in H. cbn [andb] in H.
    destruct (is_int_val c 0) eqn:Z0.
    { cbn [removelast] in H. assert (H' : Ok a = Ok e') by (destruct K2 as [Ek|Ek]; rewrite Ek in H; exact H). inversion H'; subst e'. exact (ZeroDrop eq_refl). }
    destruct K2 as [Ek|Ek]; rewrite Ek in H.
    - inversion H; subst e'. exact Keep.
    - destruct c as [sgc wc vc| | | | | | |]; try (inversion H; subst e'; exact Keep).
      destruct a as [| | | op2 ys | | | |]; try (inversion H; subst e'; exact Keep).
      destruct (op2 =? "&")%string eqn:E2; [|inversion H; subst e'; exact Keep]. apply String.eqb_eq in E2. subst op2.
      destruct ys as [|y0 [|m t]]; try discriminate.
      destruct m as [sgm wm vm| | | | | | |]; try (inversion H; subst e'; exact Keep).
      destruct (vm <? 2 ^ vc) eqn:Lt; [|inversion H; subst e'; exact Keep]. apply Z.ltb_lt in Lt.
      apply mk_int_ok in H. subst e'. destruct (wf_int_inv _ _ _ Wc) as (_ & _ & Rvc & Evc).
      match goal with |- good _ (EInt false ?n (wrap ?n 0)) => destruct (wf_int n 0 ltac:(lia)) as (A & B & C) end.
      split; [exact A|]. split; [rewrite B; symmetry; exact Sz|]. rewrite C, EvS, Ek, Evc.
      rewrite (and_mask_shr _ _ y0 sgm wm vm t vc Wa eq_refl eq_refl ltac:(lia) Lt). reflexivity.
  Qed.
  (** ** parity and == : constant folding, and (X | m) == 0 with m <> 0 *)
  Definition is_plain (op : string) : bool := match opk_of op with OXor | OAdd | OOr | OAnd => false | _ => true end.
  Lemma dedup_rule_plain op ai aj : is_plain op = true -> dedup_rule op ai aj = DKeep.
  Proof. unfold is_plain, dedup_rule. destruct (opk_of op); try discriminate; reflexivity. Qed.
  Lemma dedup_inner_plain op : is_plain op = true -> forall rest ai, dedup_inner op ai rest = Ok (ai, rest).
  Proof.
    intros S. induction rest as [|x r IH]; intros ai; simpl; [reflexivity|]. rewrite (dedup_rule_plain op ai x S), IH. reflexivity.
  Qed.
  Lemma dedup_outer_plain op : is_plain op = true -> forall fuel args, dedup_outer op fuel args = Ok args.
  Proof.
    intros S. induction fuel as [|f IH]; intros args; simpl; [reflexivity|].
    destruct args as [|a [|b r]]; try reflexivity. rewrite (dedup_inner_plain op S). cbn [bind fst snd]. rewrite IH. reflexivity.
  Qed.

  Definition parity_pipeline (op : string) (a : expr) : res expr :=
    match a with EInt _ _ v => mk_int (size (EOp op [a])) (parity_val v) | _ => Ok (EOp op [a]) end.
  Lemma simp_parity_unfold op a : opk_of op = OParity -> simp_op op [a] = parity_pipeline op a.
  Proof.
    intros Ek. unfold simp_op, parity_pipeline. rewrite (flatten_nonassoc op) by (unfold is_assoc; rewrite Ek; reflexivity).
    unfold is_assoc. rewrite Ek. cbv zeta. cbn [bind andb List.length Nat.eqb negb].
    rewrite (dedup_outer_plain op) by (unfold is_plain; rewrite Ek; reflexivity). cbn [bind]. destruct a; reflexivity.
  Qed.
  Theorem simp_op_parity op eargs e' : opk_of op = OParity -> wf (EOp op eargs) = true -> simp_op op eargs = Ok e' -> good (EOp op eargs) e'.
  Proof.
    intros Ek W H. pose proof W as W'. simpl in W'. apply andb_true_iff in W' as [Wl O]. unfold op_ok in O. destruct eargs as [|a r]; [discriminate|].
    rewrite Ek in O. apply andb_true_iff in O as [_ Ln]. destruct r as [|? ?]; [|discriminate].
    apply forallb_Forall in Wl. inversion Wl as [|? ? Wa _]; subst. destruct (wf_range a Wa) as [Pa Ra]. pose proof (wf_size_le a Wa) as Sle.
    rewrite (simp_parity_unfold op a Ek) in H. unfold parity_pipeline in H.
    destruct a as [sg w v| | | | | | |]; try (inversion H; subst e'; apply good_refl; exact W).
    apply mk_int_ok in H. subst e'. destruct (wf_int_inv _ _ _ Wa) as (-> & Pw & Rv & Ev).
    assert (Sz : size (EOp op [EInt false w v]) = w) by (rewrite size_node by (simpl; lia); reflexivity). rewrite Sz.
    destruct (wf_int w (parity_val v) Pw) as (A & B & C). split; [exact A|]. split; [rewrite B; symmetry; exact Sz|].
    rewrite C, eval_op_node, Sz. cbn [map]. unfold eval_op. rewrite Ek. rewrite Ev. reflexivity.
  Qed.

  Lemma lor_ge_l a b : 0 <= a -> 0 <= b -> a <= Z.lor a b.
  Proof.
    intros Ha Hb. assert (D : Z.land a (Z.ldiff b a) = 0).
    { apply Z.bits_inj'. intros n Hn. rewrite Z.land_spec, Z.ldiff_spec, Z.bits_0. destruct (Z.testbit a n), (Z.testbit b n); reflexivity. }
    assert (E : Z.lor a b = a + Z.ldiff b a).
    { rewrite (Z.add_nocarry_lxor _ _ D), (Z.lxor_lor _ _ D). apply Z.bits_inj'. intros n Hn. rewrite !Z.lor_spec, Z.ldiff_spec.
      destruct (Z.testbit a n), (Z.testbit b n); reflexivity. }
    assert (0 <= Z.ldiff b a) by (apply Z.ldiff_nonneg; left; exact Hb). lia.
  Qed.
  Lemma afold_or_ge : forall vs, Forall (fun v => 0 <= v) vs -> forall m, In m vs -> 0 <= afold AOr vs /\ m <= afold AOr vs.
  Proof.
    induction vs as [|v vs IH]; intros F m I; [contradiction|]. inversion F as [|? ? Pv Fv]; subst. rewrite afold_cons. cbn [af].
    assert (P0 : 0 <= afold AOr vs).
    { destruct vs as [|v2 vs']; [change (afold AOr []) with 0; lia|]. apply (IH Fv v2). left; reflexivity. }
    split; [apply Z.lor_nonneg; lia|]. destruct I as [->|I].
    - apply lor_ge_l; lia.
    - destruct (IH Fv m I) as [_ U]. rewrite Z.lor_comm. pose proof (lor_ge_l (afold AOr vs) v P0 Pv). lia.
  Qed.

  Definition eq_pipeline (op : string) (a0 a1 : expr) : res expr :=
    match a0, a1 with
    | EInt _ _ v0, EInt _ _ v1 => mk_int (size a0) (if v0 =? v1 then 1 else 0)
    | _, EInt _ _ v1 =>
        if v1 =? 0 then
          match a0 with
          | EOp op2 ys =>
              if (op2 =? "|")%string then
                match ys with
                | _ :: EInt _ _ vm :: _ => if negb (vm =? 0) then mk_int (size a0) 0 else Ok (EOp op [a0; a1])
                | _ :: _ :: _ => Ok (EOp op [a0; a1])
                | _ => Err EIndexError
                end
              else Ok (EOp op [a0; a1])
          | _ => Ok (EOp op [a0; a1])
          end
        else Ok (EOp op [a0; a1])
    | _, _ => Ok (EOp op [a0; a1])
    end.
  Lemma simp_eq_unfold op a0 a1 : opk_of op = OEq -> simp_op op [a0; a1] = eq_pipeline op a0 a1.
  Proof.
    intros Ek. unfold simp_op, eq_pipeline. rewrite (flatten_nonassoc op) by (unfold is_assoc; rewrite Ek; reflexivity).
    unfold is_assoc. rewrite Ek. cbv zeta. cbn [bind andb List.length Nat.eqb negb].
    rewrite (dedup_outer_plain op) by (unfold is_plain; rewrite Ek; reflexivity). cbn [bind]. reflexivity.
  Qed.
  Theorem simp_op_eq op eargs e' : opk_of op = OEq -> wf (EOp op eargs) = true -> simp_op op eargs = Ok e' -> good (EOp op eargs) e'.
  Proof.
    intros Ek W H. pose proof W as W'. simpl in W'. apply andb_true_iff in W' as [Wl O]. unfold op_ok in O. destruct eargs as [|a0 r]; [discriminate|].
    rewrite Ek in O. apply andb_true_iff in O as [O Ln]. apply andb_true_iff in O as [_ Ao]. destruct r as [|a1 [|? ?]]; try discriminate.
    rewrite (args_ok_noshift op) in Ao by (unfold is_sr, is_shift, is_rot; rewrite Ek; reflexivity). apply same_size_all in Ao.
    inversion Ao as [|? ? _ Ao1]; subst. inversion Ao1 as [|? ? S1 _]; subst.
    apply forallb_Forall in Wl. inversion Wl as [|? ? W0 Wl1]; subst. inversion Wl1 as [|? ? W1 _]; subst.
    destruct (wf_range a0 W0) as [P0 R0]. destruct (wf_range a1 W1) as [P1 R1]. pose proof (wf_size_le a0 W0) as Sle.
    assert (Keep : good (EOp op [a0; a1]) (EOp op [a0; a1])) by (apply good_refl; exact W).
    assert (Sz : size (EOp op [a0; a1]) = size a0) by (apply size_node; lia).
    assert (Ev : ev (EOp op [a0; a1]) = if ev a0 =? ev a1 then wrap (size a0) 1 else 0) by (rewrite eval_op_node, Sz; cbn [map]; unfold eval_op; rewrite Ek; reflexivity).
    assert (Const : forall z, (ev (EOp op [a0; a1]) = wrap (size a0) z) -> good (EOp op [a0; a1]) (EInt false (size a0) (wrap (size a0) z))).
    { intros z Hz. destruct (wf_int (size a0) z ltac:(lia)) as (A & B & C). split; [exact A|]. split; [rewrite B; symmetry; exact Sz|]. rewrite C. symmetry. exact Hz. }
    rewrite (simp_eq_unfold op a0 a1 Ek) in H. unfold eq_pipeline in H.
    destruct a1 as [sg1 w1 v1| | | | | | |]; try (destruct a0; inversion H; subst e'; exact Keep).
    destruct (wf_int_inv _ _ _ W1) as (-> & Pw1 & Rv1 & E1).
    destruct a0 as [sg0 w0 v0| | |op2 ys| | | |];
      try (destruct (v1 =? 0); inversion H; subst e'; exact Keep).
    - destruct (wf_int_inv _ _ _ W0) as (-> & Pw0 & Rv0 & E0). apply mk_int_ok in H. subst e'. apply Const. rewrite Ev, E0, E1.
      destruct (v0 =? v1); [reflexivity|]. unfold wrap. symmetry. apply Z.mod_0_l. apply Z.pow_nonzero; simpl in *; lia.
    - destruct (v1 =? 0) eqn:Z1; [|inversion H; subst e'; exact Keep]. apply Z.eqb_eq in Z1. subst v1.
      destruct (op2 =? "|")%string eqn:E2; [|inversion H; subst e'; exact Keep]. apply String.eqb_eq in E2. subst op2.
      destruct ys as [|y0 [|m t]]; try discriminate.
      destruct m as [sgm wm vm| | | | | | |]; try (inversion H; subst e'; exact Keep).
      destruct (negb (vm =? 0)) eqn:Nz; [|inversion H; subst e'; exact Keep]. apply negb_true_iff in Nz. apply Z.eqb_neq in Nz.
      apply mk_int_ok in H. subst e'. apply Const. rewrite Ev, E1.
      (* the value of X | m is at least m > 0 *)
      destruct (wf_op_inv _ _ W0 eq_refl) as (Wys & y & r & Ey & _ & Sys). inversion Ey; subst y r. clear Ey.
      inversion Wys as [|? ? Wy0 Wys1]; subst. inversion Wys1 as [|? ? Wm _]; subst.
      destruct (wf_range y0 Wy0) as [Py0 Ry0]. destruct (wf_int_inv _ _ _ Wm) as (_ & _ & Rm & Em).
      destruct (all_wf_range _ _ Wys Sys) as [Rg _].
      assert (F : Forall (fun v => 0 <= v) (map ev (y0 :: EInt sgm wm vm :: t))).
      { apply Forall_forall. intros v I. apply in_map_iff in I as (x & <- & I). rewrite Forall_forall in Rg. specialize (Rg x I). lia. }
      assert (I : In vm (map ev (y0 :: EInt sgm wm vm :: t))) by (cbn [map]; right; left; exact Em).
      destruct (afold_or_ge _ F vm I) as [_ Ge].
      assert (Nzero : ev (EOp "|" (y0 :: EInt sgm wm vm :: t)) <> 0).
      { intros Hz. rewrite (ev_assoc "|" AOr y0 _ eq_refl Py0) in Hz.
        assert (Lt : afold AOr (map ev (y0 :: EInt sgm wm vm :: t)) < 2 ^ size y0).
        { clear - Rg Py0. assert (G : forall l, Forall (fun a => 0 <= ev a < 2 ^ size y0) l -> 0 <= afold AOr (map ev l) < 2 ^ size y0).
          { induction l as [|x l IH]; intros Fl; [change (afold AOr (map ev [])) with 0; split; [lia | apply Z.pow_pos_nonneg; lia]|].
            inversion Fl as [|? ? Rx Rl]; subst. cbn [map]. rewrite afold_cons. cbn [af]. specialize (IH Rl).
            split; [apply Z.lor_nonneg; lia|]. 
            assert (E : Z.lor (ev x) (afold AOr (map ev l)) = Z.lor (ev x) (afold AOr (map ev l)) mod 2 ^ size y0).
            { rewrite <- !Z.land_ones by lia. rewrite Z.land_lor_distr_l. rewrite !Z.land_ones by lia. rewrite !Z.mod_small by lia. reflexivity. }
            rewrite E. apply Z.mod_pos_bound. apply Z.pow_pos_nonneg; lia. }
          apply G. exact Rg. }
        unfold wrap in Hz. rewrite Z.mod_small in Hz by lia. lia. }
      change (ev (EInt false w1 0)) with (wrap w1 0) in *. 
      assert (Z0 : wrap w1 0 = 0) by (unfold wrap; apply Z.mod_0_l; apply Z.pow_nonzero; lia). 
      destruct (Z.eqb_spec (ev (EOp "|" (y0 :: EInt sgm wm vm :: t))) 0) as [Q|Q]; [contradiction|].
      unfold wrap. symmetry. apply Z.mod_0_l. apply Z.pow_nonzero; lia.
  Qed.

  (** ** rotations: count 0, count = width, and two rotations in a row *)
  Definition rot_pipeline (op : string) (a c : expr) : res expr :=
    let args1 := if is_int_val c 0 then [a] else [a; c] in
    match args1 with
    | [x] => Ok x
    | a0 :: a1 :: rest =>
        if is_int a1 && is_int_val a1 (size a0) then Ok a0 else
        match a0 with
        | EOp op2 (x :: c2 :: _) =>
            if is_rot op2 then
              if (op =? op2)%string then Ok (EOp op [x; EOp "+" [c2; a1]])
              else Ok (EOp op2 [x; EOp "+" [c2; neg a1]])
            else Ok (EOp op args1)
        | EOp op2 _ => if is_rot op2 then Err EIndexError else Ok (EOp op args1)
        | _ => Ok (EOp op args1)
        end
    | [] => Err EIndexError
    end.
  Lemma simp_rot_unfold op a c : is_rot op = true -> simp_op op [a; c] = rot_pipeline op a c.
  Proof.
    unfold is_rot. intros S. unfold simp_op, rot_pipeline.
    destruct (opk_of op) eqn:Ek; try discriminate;
      (rewrite (flatten_nonassoc op) by (unfold is_assoc; rewrite Ek; reflexivity));
      unfold is_assoc; rewrite Ek; cbv zeta; cbn [bind rev app List.length]; unfold last_opt; cbn [rev app andb];
      change (1 <? Z.of_nat 2) with true; cbn [andb];
      (destruct (is_int_val c 0); cbn [removelast List.length Nat.eqb negb];
       [reflexivity | rewrite (dedup_outer_plain op) by (unfold is_plain; rewrite Ek; reflexivity); cbn [bind]; reflexivity]).
  Qed.

  Lemma ev_rot op a c : is_rot op = true -> 0 < size a -> 0 <= ev a < 2 ^ size a ->
    ev (EOp op [a; c]) = match opk_of op with ORol => rol (size a) (ev a) (ev c) | _ => ror (size a) (ev a) (ev c) end.
  Proof.
    intros S Pa Ra. rewrite eval_op_node, size_node by lia. cbn [map]. unfold eval_op, is_rot in *.
    destruct (opk_of op); try discriminate; replace (size a =? 0) with false by (symmetry; apply Z.eqb_neq; lia); rewrite (wrap_small (size a) (ev a) Ra); reflexivity.
  Qed.
  Lemma std8_divides n : (n =? 8) || (n =? 16) || (n =? 32) || (n =? 64) = true -> 0 < n /\ (n | 2 ^ 8).
  Proof.
    intros H. apply orb_true_iff in H as [H|H]; [apply orb_true_iff in H as [H|H]; [apply orb_true_iff in H as [H|H]|]|]; apply Z.eqb_eq in H; subst n; (split; [lia|]).
    - exists 32. reflexivity.
    - exists 16. reflexivity.
    - exists 8. reflexivity.
    - exists 4. reflexivity.
  Qed.

  Lemma sum8_wf c2 d : wf c2 = true -> wf d = true -> size c2 = 8 -> size d = 8 ->
    wf (EOp "+" [c2; d]) = true /\ size (EOp "+" [c2; d]) = 8 /\ ev (EOp "+" [c2; d]) = wrap 8 (ev c2 + ev d).
  Proof.
    intros Wc2 Wd Sc2 Sd. split; [|split].
    - change (wf (EOp "+" [c2; d])) with (forallb wf [c2; d] && op_ok "+" [c2; d]). cbn [forallb]. rewrite Wc2, Wd. cbn [andb].
      unfold op_ok. rewrite (args_ok_noshift "+" _ _ eq_refl). change (frag_op "+") with true. change (opk_of "+") with OAdd. cbn [andb same_size forallb]. rewrite Z.eqb_refl, Sc2, Sd. reflexivity.
    - rewrite size_node by lia. exact Sc2.
    - rewrite (ev_assoc "+" AAdd c2 [d] eq_refl) by lia. rewrite Sc2. cbn [map]. rewrite !afold_cons. change (afold AAdd []) with 0. cbn [af]. rewrite Z.add_0_r. reflexivity.
  Qed.
  Lemma neg8_wf c : wf c = true -> size c = 8 -> wf (neg c) = true /\ size (neg c) = 8 /\ ev (neg c) = wrap 8 (- ev c).
  Proof.
    intros Wc Sc. split; [|split].
    - unfold neg. change (wf (EOp "-" [c])) with (forallb wf [c] && op_ok "-" [c]). cbn [forallb]. rewrite Wc. cbn [andb].
      unfold op_ok. rewrite (args_ok_noshift "-" _ _ eq_refl). change (frag_op "-") with true. change (opk_of "-") with OSub. cbn [andb same_size forallb List.length Nat.leb]. rewrite Z.eqb_refl. reflexivity.
    - unfold neg. rewrite size_node by lia. exact Sc.
    - unfold neg. rewrite ev_neg by lia. rewrite Sc. reflexivity.
  Qed.
  Lemma rot_node_good opr x cnt e0 : is_rot opr = true -> wf x = true -> wf cnt = true -> size cnt = 8 ->
    ((size x =? 8) || (size x =? 16) || (size x =? 32) || (size x =? 64)) = true -> size e0 = size x ->
    ev e0 = (match opk_of opr with ORol => rol (size x) (ev x) (ev cnt) | _ => ror (size x) (ev x) (ev cnt) end) ->
    good e0 (EOp opr [x; cnt]).
  Proof.
    intros Sr Wx Wcnt Scnt Std Se Ee. destruct (wf_range x Wx) as [Px Rx].
    assert (NShr : is_shift opr = false) by (unfold is_rot in Sr; unfold is_shift; destruct (opk_of opr); try discriminate; reflexivity).
    split; [|split].
    - change (wf (EOp opr [x; cnt])) with (forallb wf [x; cnt] && op_ok opr [x; cnt]). cbn [forallb]. rewrite Wx, Wcnt. cbn [andb].
      unfold op_ok, args_ok. rewrite NShr, Sr. unfold rot_args_ok. rewrite Scnt, Z.eqb_refl. cbn [andb]. rewrite Std.
      assert (Fr : frag_op opr = true) by (unfold is_rot in Sr; unfold frag_op; destruct (opk_of opr); try discriminate; reflexivity). rewrite Fr.
      unfold is_rot in Sr. destruct (opk_of opr); try discriminate; reflexivity.
    - rewrite size_node by lia. symmetry. exact Se.
    - rewrite Ee. rewrite (ev_rot opr x cnt Sr Px Rx). reflexivity.
  Qed.
  Lemma rot_same_kind op op2 k : opk_of op = k -> opk_of op2 = k -> (k = ORol \/ k = ORor) -> op = op2.
  Proof.
    intros E1 E2 K. unfold opk_of in *.
    repeat match type of E1 with context [(?s =? ?t)%string] => destruct (String.eqb_spec s t) as [->|?]; try (destruct K; congruence) end;
    repeat match type of E2 with context [(?s =? ?t)%string] => destruct (String.eqb_spec s t) as [->|?]; try (destruct K; congruence) end; try reflexivity; destruct K; congruence.
  Qed.

  Theorem simp_op_rot op eargs e' : is_rot op = true -> wf (EOp op eargs) = true -> simp_op op eargs = Ok e' -> good (EOp op eargs) e'.
  Proof.
    intros S W H. pose proof W as W'. simpl in W'. apply andb_true_iff in W' as [Wl O]. destruct (op_ok_inv _ _ O) as (a & r & -> & _ & Ao).
    assert (NSh : is_shift op = false) by (unfold is_rot in S; unfold is_shift; destruct (opk_of op); try discriminate; reflexivity).
    unfold args_ok in Ao. rewrite NSh, S in Ao. unfold rot_args_ok in Ao. destruct r as [|c [|? ?]]; try discriminate.
    apply andb_true_iff in Ao as [Sc Std]. apply Z.eqb_eq in Sc. destruct (std8_divides _ Std) as [Pn Dv].
    apply forallb_Forall in Wl. inversion Wl as [|? ? Wa Wl']; inversion Wl' as [|? ? Wc _]; subst.
    destruct (wf_range a Wa) as [Pa Ra]. destruct (wf_range c Wc) as [Pc Rc].
    rewrite (simp_rot_unfold op a c S) in H. unfold rot_pipeline in H.
    assert (Keep : good (EOp op [a; c]) (EOp op [a; c])) by (apply good_refl; exact W).
    assert (Sz : size (EOp op [a; c]) = size a) by (apply size_node; lia).
    pose proof (ev_rot op a c S Pa Ra) as Ev.
    assert (Id : forall k, k mod size a = 0 -> ev c = k -> good (EOp op [a; c]) a).
    { intros k K0 Ek. split; [exact Wa|]. split; [symmetry; exact Sz|]. rewrite Ev, Ek. unfold is_rot in S.
      destruct (opk_of op); try discriminate; [rewrite <- (rol_mod (size a) (ev a) k Pa), K0; symmetry; apply rol_0 | rewrite <- (ror_mod (size a) (ev a) k Pa), K0; symmetry; apply ror_0]; assumption. }
    destruct (is_int_val c 0) eqn:Z0.
    { inversion H; subst e'. destruct c; try discriminate. simpl in Z0. apply Z.eqb_eq in Z0. subst. destruct (wf_int_inv _ _ _ Wc) as (_ & _ & _ & E0).
      apply (Id 0); [apply Z.mod_0_l; lia | exact E0]. }
    destruct (is_int c && is_int_val c (size a)) eqn:Full.
    { inversion H; subst e'. apply andb_true_iff in Full as [_ F2]. destruct c; try discriminate. simpl in F2. apply Z.eqb_eq in F2. subst. destruct (wf_int_inv _ _ _ Wc) as (_ & _ & _ & E0).
      apply (Id (size a)); [apply Z.mod_same; lia | exact E0]. }
    destruct a as [| | |op2 ys| | | |]; try (inversion H; subst e'; exact Keep).
    destruct ys as [|x [|c2 t]]; try (destruct (is_rot op2); [discriminate | inversion H; subst e'; exact Keep]).
    destruct (is_rot op2) eqn:S2; [|inversion H; subst e'; exact Keep].
    (* the inner rotation is well formed: a value and an 8-bit count *)
    pose proof Wa as Wa'. change (wf (EOp op2 (x :: c2 :: t))) with (forallb wf (x :: c2 :: t) && op_ok op2 (x :: c2 :: t)) in Wa'. apply andb_true_iff in Wa' as [Wys O2]. destruct (op_ok_inv _ _ O2) as (x0 & r0 & E0 & _ & Ao2). inversion E0; subst x0 r0. clear E0.
    assert (NSh2 : is_shift op2 = false) by (unfold is_rot in S2; unfold is_shift; destruct (opk_of op2); try discriminate; reflexivity).
    unfold args_ok in Ao2. rewrite NSh2, S2 in Ao2. unfold rot_args_ok in Ao2. destruct t as [|? ?]; [|discriminate].
    apply andb_true_iff in Ao2 as [Sc2 _]. apply Z.eqb_eq in Sc2.
    apply forallb_Forall in Wys. inversion Wys as [|? ? Wx Wys']; inversion Wys' as [|? ? Wc2 _]; subst.
    destruct (wf_range x Wx) as [Px Rx]. destruct (wf_range c2 Wc2) as [Pc2 Rc2].
    assert (Sx : size (EOp op2 [x; c2]) = size x) by (apply size_node; apply Z.neq_sym, Z.lt_neq; exact Px).
    pose proof (ev_rot op2 x c2 S2 Px Rx) as Ev2.
    rewrite Sx in *.
    destruct (op =? op2)%string eqn:Eop.
    - apply String.eqb_eq in Eop. subst op2. inversion H; subst e'. destruct (sum8_wf c2 c Wc2 Wc Sc2 Sc) as (Ws & Ss & Es).
      apply (rot_node_good op x (EOp "+" [c2; c]) _ S Wx Ws Ss Std Sz).
      rewrite Ev, Ev2, Es. unfold is_rot in S. destruct (opk_of op); try discriminate.
      + rewrite rol_rol by assumption. apply rol_cong; [exact Pn|]. symmetry. apply count_sum_mod; [exact Pn | exact Dv].
      + rewrite ror_ror by assumption. apply ror_cong; [exact Pn|]. symmetry. apply count_sum_mod; [exact Pn | exact Dv].
    - inversion H; subst e'. destruct (neg8_wf c Wc Sc) as (Wn & Sn & En). destruct (sum8_wf c2 (neg c) Wc2 Wn Sc2 Sn) as (Ws & Ss & Es).
      apply (rot_node_good op2 x (EOp "+" [c2; neg c]) _ S2 Wx Ws Ss Std Sz).
      rewrite Ev, Ev2, Es, En. unfold is_rot in S, S2.
      assert (Cg : (wrap 8 (ev c2 + wrap 8 (- ev c))) mod size x = (ev c2 - ev c) mod size x) by (apply count_diff_mod; [exact Pn | exact Dv]).
      apply String.eqb_neq in Eop.
      destruct (opk_of op) eqn:Ek; try discriminate; destruct (opk_of op2) eqn:Ek2; try discriminate.
      + exfalso. apply Eop. apply (rot_same_kind op op2 ORol Ek Ek2). left; reflexivity.
      + rewrite rol_ror by assumption. apply ror_cong; [exact Pn | symmetry; exact Cg].
      + rewrite ror_rol by assumption. apply rol_cong; [exact Pn | symmetry; exact Cg].
      + exfalso. apply Eop. apply (rot_same_kind op op2 ORor Ek Ek2). right; reflexivity.
  Qed.

  (** ** one step of _expr_simp *)
  Lemma osub_is_minus op : opk_of op = OSub -> op = "-"%string.
  Proof.
    unfold opk_of. repeat match goal with |- context [(op =? ?s)%string] => destruct (String.eqb_spec op s); [try discriminate; try (intros; assumption)|] end.
    discriminate.
  Qed.

  Lemma simp_cond_good c a b : wf (ECond c a b) = true -> good (ECond c a b) (simp_cond (ECond c a b) c a b).
  Proof.
    intros W. pose proof W as W'. simpl in W'. repeat (apply andb_true_iff in W' as [W' ?]).
    rename H into Sab, H0 into Wb, H1 into Wa. apply Z.eqb_eq in Sab.
    unfold simp_cond. destruct c as [sg w v| | |op [|x [|? ?]]| | | |]; try (apply good_refl; exact W).
    - destruct (wf_int_inv _ _ _ W') as (_ & _ & _ & E).
      destruct (v =? 0) eqn:Z0.
      + split; [exact Wb|]. split; [simpl; congruence|]. simpl. simpl in E. rewrite E, Z0. reflexivity.
      + split; [exact Wa|]. split; [reflexivity|]. simpl. simpl in E. rewrite E, Z0. reflexivity.
    - destruct (op =? "-")%string eqn:Eo; [|apply good_refl; exact W]. apply String.eqb_eq in Eo. subst op.
      destruct (wf_op_inv _ _ W' eq_refl) as (Wx & _). inversion Wx as [|? ? Wx0 _]; subst. destruct (wf_range x Wx0) as [Px Rx].
      split; [|split; [reflexivity|]].
      + simpl. rewrite Wx0, Wa, Wb. cbn [andb]. apply Z.eqb_eq. exact Sab.
      + change (ev (ECond x a b)) with (if ev x =? 0 then ev b else ev a).
        change (ev (ECond (EOp "-" [x]) a b)) with (if ev (EOp "-" [x]) =? 0 then ev b else ev a).
        rewrite ev_neg by assumption.
        assert (Q : (wrap (size x) (- ev x) =? 0) = (ev x =? 0)).
        { destruct (ev x =? 0) eqn:E0.
          - apply Z.eqb_eq in E0. rewrite E0. apply Z.eqb_eq. unfold wrap. apply Z.mod_0_l. apply Z.pow_nonzero; lia.
          - apply Z.eqb_neq in E0. apply Z.eqb_neq. intros Hw. apply E0.
            assert (Cg : cong (size x) (ev x) 0).
            { apply cong_trans with (- wrap (size x) (- ev x)).
              - apply cong_sym. eapply cong_trans; [apply cong_opp; [lia | apply cong_wrap; lia]|]. rewrite Z.opp_involutive. apply cong_refl.
              - rewrite Hw. apply cong_refl. }
            unfold cong in Cg. rewrite Z.mod_0_l in Cg by (apply Z.pow_nonzero; lia). rewrite Z.mod_small in Cg by assumption. exact Cg. }
        rewrite Q. reflexivity.
  Qed.

  (** ** slices *)
  Lemma wf_slice_inv a lo hi : wf (ESlice a lo hi) = true -> wf a = true /\ 0 <= lo /\ lo < hi /\ hi <= size a.
  Proof.
    simpl. intros W. apply andb_true_iff in W as [W Hh]. apply andb_true_iff in W as [W Hl]. apply andb_true_iff in W as [W H0].
    apply Z.leb_le in Hh, H0. apply Z.ltb_lt in Hl. auto.
  Qed.
  Lemma ev_slice a lo hi : ev (ESlice a lo hi) = wrap (hi - lo) (Z.shiftr (ev a) lo).
  Proof. reflexivity. Qed.

  Theorem simp_slice_good a lo hi e' : wf (ESlice a lo hi) = true -> simp_slice (ESlice a lo hi) a lo hi = Ok e' -> good (ESlice a lo hi) e'.
  Proof.
    intros W H. destruct (wf_slice_inv _ _ _ W) as (Wa & L0 & Llh & Lhs). destruct (wf_range a Wa) as [Pa Ra]. pose proof (wf_size_le a Wa) as Sle.
    unfold simp_slice in H. destruct ((lo =? 0) && (hi =? size a)) eqn:Full.
    { inversion H; subst e'. apply andb_true_iff in Full as [F1 F2]. apply Z.eqb_eq in F1, F2. subst lo hi.
      split; [exact Wa|]. split; [simpl; lia|]. rewrite ev_slice. symmetry. apply slice_full. exact Ra. }
    destruct a as [sg w v| |addr w sgm| | |a2 lo2 hi2|slots|]; try (simpl in Wa; discriminate); try (inversion H; subst e'; apply good_refl; exact W).
    - (* constant *)
      destruct (std_width (hi - lo)) eqn:Sw; [|inversion H; subst e'; apply good_refl; exact W]. inversion H; subst e'. clear H.
      destruct (wf_int_inv _ _ _ Wa) as (-> & Pw & Rv & Ev). simpl in Lhs.
      assert (Bt : 0 < hi - lo <= 64) by lia.
      rewrite (slice_int v lo (hi - lo)) by lia.
      destruct (wf_int (hi - lo) (Z.shiftr v lo) Bt) as (A & B & C).
      split; [exact A|]. split; [exact B|]. rewrite C, ev_slice, Ev. reflexivity.
    - (* memory cell: the low bytes *)
      destruct ((lo =? 0) && (w >? hi) && (hi mod 8 =? 0)) eqn:C; [|inversion H; subst e'; apply good_refl; exact W]. inversion H; subst e'. clear H.
      apply andb_true_iff in C as [C C3]. apply andb_true_iff in C as [C1 C2]. apply Z.eqb_eq in C1, C3. subst lo. apply Z.gtb_lt in C2.
      pose proof Wa as Wa'. simpl in Wa'. apply andb_true_iff in Wa' as [Wa' _]. apply andb_true_iff in Wa' as [Wad Ww]. apply andb_true_iff in Ww as [Ww1 Ww2]. apply Z.leb_le in Ww2.
      split; [|split].
      + simpl. rewrite Wad. cbn [andb]. rewrite andb_true_r. apply andb_true_iff. split; [apply Z.ltb_lt; lia | apply Z.leb_le; lia].
      + simpl. lia.
      + rewrite ev_slice. simpl. symmetry. apply mem_read_narrow; lia.
    - (* slice of a slice *)
      destruct (hi - lo >? hi2 - lo2) eqn:G; [discriminate|]. inversion H; subst e'. clear H.
      destruct (wf_slice_inv _ _ _ Wa) as (Wa2 & M0 & Mlh & Mhs). simpl in Lhs.
      split; [|split].
      + simpl. rewrite Wa2. cbn [andb]. apply andb_true_iff. split; [apply andb_true_iff; split; [apply Z.leb_le; lia | apply Z.ltb_lt; lia] | apply Z.leb_le; lia].
      + simpl. lia.
      + rewrite !ev_slice. symmetry. apply slice_slice; lia.
    - (* slice of a concatenation: the slot containing the range *)
      destruct (find (fun s => (slot_lo s <=? lo) && (slot_hi s >=? hi)) slots) as [s|] eqn:Fd; [|inversion H; subst e'; apply good_refl; exact W].
      inversion H; subst e'. clear H. apply find_some in Fd as [Is Cs]. apply andb_true_iff in Cs as [C1 C2]. apply Z.leb_le in C1. apply Z.geb_le in C2.
      destruct (wf_compose_inv slots Wa) as (_ & _ & Hs & _ & _ & Oc). destruct (Hs s Is) as (Ws & A1 & A2 & A3 & A4).
      destruct (wf_range (slot_e s) Ws) as [Ps Rs].
      assert (Sz : slot_hi s - slot_lo s <= size (slot_e s)).
      { unfold piece_shape in A4. destruct (slot_e s); try (apply Z.eqb_eq in A4; lia). apply Z.leb_le in A4. simpl. lia. }
      unfold getitem. set (n := size (slot_e s)) in *.
      assert (K1 : clip (lo - slot_lo s) n = lo - slot_lo s) by (unfold clip; destruct (Z.ltb_spec (lo - slot_lo s) 0); [lia | apply Z.min_l; lia]).
      assert (K2 : clip (hi - slot_lo s) n = hi - slot_lo s) by (unfold clip; destruct (Z.ltb_spec (hi - slot_lo s) 0); [lia | apply Z.min_l; lia]).
      rewrite K1, K2. split; [|split].
      + simpl. rewrite Ws. cbn [andb]. apply andb_true_iff. split; [apply andb_true_iff; split; [apply Z.leb_le; lia | apply Z.ltb_lt; lia] | apply Z.leb_le; fold n; lia].
      + simpl. lia.
      + rewrite !ev_slice. replace (hi - slot_lo s - (lo - slot_lo s)) with (hi - lo) by lia. apply wrap_eq_bits; [lia|]. intros k Hk.
        rewrite !Z.shiftr_spec by lia. rewrite eval_compose_V.
        rewrite (V_bit_unique rho mu iota slots s (k + lo)) by (try lia; try assumption; intros a Ia; destruct (Hs a Ia) as (_ & B1 & B2 & _); lia).
        unfold sval. rewrite fld_bits by lia.
        replace (slot_lo s <=? k + lo) with true by (symmetry; apply Z.leb_le; lia). replace (k + lo <? slot_hi s) with true by (symmetry; apply Z.ltb_lt; lia).
        cbn [andb]. f_equal. lia.
  Qed.

  (** ** concatenations *)
  Lemma piece_in_ok n s : wf (slot_e s) = true -> 0 <= slot_lo s -> slot_lo s < slot_hi s -> slot_hi s <= n -> piece_shape (slot_e s) (slot_lo s) (slot_hi s) = true ->
    in_piece_ok n s.
  Proof.
    intros Ws A1 A2 A3 A4. unfold in_piece_ok. repeat split; try assumption. unfold piece_shape in A4.
    destruct (slot_e s) as [sg w v| | | | |src slo shi| |] eqn:E; try exact I.
    - destruct (wf_int_inv _ _ _ Ws) as (-> & _ & Rv & _). apply Z.leb_le in A4. repeat split; try lia.
    - apply Z.eqb_eq in A4. simpl in A4. destruct (wf_slice_inv _ _ _ Ws) as (_ & B1 & _). split; lia.
  Qed.

  Theorem simp_compose_good args e' : wf (ECompose args) = true -> simp_compose (ECompose args) args = Ok e' -> good (ECompose args) e'.
  Proof.
    intros W H. destruct (wf_compose_inv args W) as (A & Ne & Hs & Nd & (a0 & Ia0 & Z0) & Oc). destruct (wf_compose_size args W) as (Esz & Pn & Ln).
    unfold simp_compose in H. destruct (merge_sliceto_slice args) as [m| |] eqn:Hm; try discriminate. cbn [bind] in H.
    assert (Fin : Forall (in_piece_ok (maxhi args)) args).
    { apply Forall_forall. intros s Is. destruct (Hs s Is) as (Ws & A1 & A2 & A3 & A4). apply piece_in_ok; try assumption. apply (proj2 (fold_max_ge args 0)). exact Is. }
    destruct (merge_spec rho mu iota args m (maxhi args) eq_refl Pn Ln Nd Fin Hm) as (M1 & M2 & M3 & M4 & M5).
    (* every slot of the result is well formed *)
    assert (Hm_ok : forall s, In s m -> wf (slot_e s) = true /\ 0 <= slot_lo s /\ slot_lo s < slot_hi s /\ slot_hi s <= maxhi args /\ piece_shape (slot_e s) (slot_lo s) (slot_hi s) = true /\
                                 (slot_lo s = 0 -> slot_hi s = maxhi args -> size (slot_e s) = maxhi args)).
    { intros s Is. rewrite Forall_forall in M3. destruct (M3 s Is) as [[Ia Oth]|[(v & Ee & Rv & B1 & B2 & B3)|(src & slo0 & shi & a' & Ee & B0 & B1 & B2 & B3 & B4 & a1 & Ia1 & Ea1)]].
      - destruct (Hs s Ia) as (Ws & A1 & A2 & A3 & A4). repeat split; try assumption; [apply (proj2 (fold_max_ge args 0)); exact Ia|].
        intros L0 Hh. unfold piece_shape in A4. unfold is_other in Oth. destruct (slot_e s); try contradiction; apply Z.eqb_eq in A4; lia.
      - rewrite Ee. assert (R2 : 0 <= v < 2 ^ maxhi args) by (split; [lia|]; apply Z.lt_le_trans with (2 ^ (slot_hi s - slot_lo s)); [lia | apply Z.pow_le_mono_r; lia]).
        split; [simpl; repeat (apply andb_true_iff; split); [apply Z.ltb_lt | apply Z.leb_le | apply Z.leb_le | apply Z.ltb_lt]; lia|].
        split; [lia|]. split; [lia|]. split; [lia|]. split; [unfold piece_shape; apply Z.leb_le; lia|]. intros _ _. reflexivity.
      - rewrite Ee. destruct (Hs a1 Ia1) as (Wa1 & _). rewrite Ea1 in Wa1. destruct (wf_slice_inv _ _ _ Wa1) as (Wsrc & _ & _ & Le).
        split; [simpl; rewrite Wsrc; cbn [andb]; apply andb_true_iff; split; [apply andb_true_iff; split; [apply Z.leb_le | apply Z.ltb_lt] | apply Z.leb_le]; lia|].
        split; [lia|]. split; [lia|]. split; [lia|]. split; [unfold piece_shape; apply Z.eqb_eq; simpl; lia|]. intros L0 Hh. simpl. lia. }
    assert (Mne : m <> []).
    { rewrite Forall_forall in M4. destruct (M4 a0 Ia0) as (s & Is & _). intros E. subst m. contradiction. }
    assert (Wm : wf (ECompose m) = true).
    { apply wf_compose_intro; try assumption.
      - intros s Is. destruct (Hm_ok s Is) as (B1 & B2 & B3 & B4 & B5 & _). repeat split; try assumption. lia.
      - rewrite Forall_forall in M4. destruct (M4 a0 Ia0) as (s & Is & L1 & _). exists s. split; [exact Is|]. destruct (Hm_ok s Is) as (_ & B2 & _). lia.
      - intros i. rewrite M5. apply Oc. }
    assert (Em : maxhi m = maxhi args).
    { apply Z.le_antisymm.
      - unfold maxhi at 1. destruct (fold_max_in m 0) as [Q|(s & Is & Q)]; [rewrite Q; lia|]. rewrite Q. apply (Hm_ok s Is).
      - unfold maxhi at 1. destruct (fold_max_in args 0) as [Q|(a & Ia & Q)]; [unfold maxhi in Pn; lia|]. rewrite Q.
        rewrite Forall_forall in M4. destruct (M4 a Ia) as (s & Is & _ & L2). pose proof (proj2 (fold_max_ge m 0) s Is). unfold maxhi. lia. }
    assert (Gm : good (ECompose args) (ECompose m)).
    { split; [exact Wm|]. split; [rewrite (proj1 (wf_compose_size m Wm)), Esz; exact Em|]. rewrite !eval_compose_V. exact M1. }
    destruct m as [|s [|s2 m']]; try (inversion H; subst e'; exact Gm).
    destruct ((slot_lo s =? 0) && (slot_hi s =? size (ECompose args))) eqn:Q; [|inversion H; subst e'; exact Gm]. inversion H; subst e'. clear H.
    apply andb_true_iff in Q as [Q1 Q2]. apply Z.eqb_eq in Q1, Q2. rewrite Esz in Q2.
    destruct (Hm_ok s (or_introl eq_refl)) as (B1 & B2 & B3 & B4 & B5 & B6). specialize (B6 Q1 Q2).
    split; [exact B1|]. split; [rewrite Esz; exact B6|]. destruct Gm as (_ & _ & Ev). rewrite <- Ev. rewrite eval_compose_V. cbn [V fold_right]. rewrite Z.lor_0_r.
    unfold sval, fld. rewrite Q1, Z.shiftl_0_r, Z.sub_0_r, Q2. symmetry. apply wrap_small. destruct (wf_range (slot_e s) B1) as [_ R]. rewrite B6 in R. exact R.
  Qed.

  Theorem simp1_good e e' : wf e = true -> simp1 e = Ok e' -> good e e'.
  Proof.
    intros W H. destruct e as [| | |op args|c a b|a lo hi|slots|]; try (simpl in W; discriminate); try (inversion H; subst; apply good_refl; exact W).
    - simpl in H. pose proof W as W'. simpl in W'. apply andb_true_iff in W' as [_ O].
      destruct (op_ok_inv _ _ O) as (a & r & _ & F & _). unfold frag_op in F.
      destruct (opk_of op) eqn:Ek; try discriminate;
        first [ apply (simp_op_shift op args e'); [unfold is_shift; rewrite Ek; reflexivity | exact W | exact H]
              | apply (simp_op_rot op args e'); [unfold is_rot; rewrite Ek; reflexivity | exact W | exact H]
              | apply (simp_op_eq op args e' Ek W H)
              | apply (simp_op_parity op args e' Ek W H)
              | apply osub_is_minus in Ek; subst op; apply simp_op_sub; assumption
              | eapply (simp_op_assoc op _ args e'); [unfold aop_of; rewrite Ek; reflexivity | exact W | exact H] ].
    - simpl in H. inversion H; subst. apply simp_cond_good. exact W.
    - simpl in H. apply simp_slice_good; assumption.
    - simpl in H. apply simp_compose_good; assumption.
  Qed.
  (** ** the traversal and the fixpoint loop *)
  Lemma mapM_good (f : expr -> res expr) l l' :
    Forall (fun a => forall a', wf a = true -> f a = Ok a' -> good a a') l -> all_wf l -> mapM f l = Ok l' ->
    Forall2 good l l'.
  Proof.
    revert l'. induction l as [|a l IH]; intros l' F W H; simpl in H.
    - inversion H; subst. constructor.
    - inversion F as [|? ? Fa Fl]; inversion W as [|? ? Wa Wl]; subst.
      destruct (f a) as [b| |] eqn:Ea; try discriminate. cbn [bind] in H.
      destruct (mapM f l) as [r'| |] eqn:Er; try discriminate. cbn [bind] in H. inversion H; subst.
      constructor; [apply Fa; [exact Wa | reflexivity] | exact (IH r' Fl Wl eq_refl)].
  Qed.

  Lemma same_size_map n : forall l l', map size l' = map size l -> same_size n l' = same_size n l.
  Proof.
    unfold same_size. induction l as [|x l IH]; intros [|y l'] E; simpl in *; try discriminate; [reflexivity|].
    inversion E as [[E1 E2]]. rewrite E1, (IH l' E2). reflexivity.
  Qed.

  Lemma args_ok_sizes op n l l' : map size l' = map size l -> args_ok op n l' = args_ok op n l.
  Proof.
    intros E. assert (Ln : List.length l' = List.length l) by (rewrite <- (map_length size l'), E, map_length; reflexivity).
    unfold args_ok. rewrite Ln, (same_size_map n l l' E). destruct (is_shift op); [reflexivity|]. destruct (is_rot op); [|reflexivity].
    unfold rot_args_ok. destruct l as [|a [|c [|? ?]]], l' as [|a' [|c' [|? ?]]]; try discriminate; try reflexivity. simpl in E. inversion E as [[E1 E2]]. rewrite E2. reflexivity.
  Qed.

  Lemma node_good op args args' : wf (EOp op args) = true -> Forall2 good args args' -> good (EOp op args) (EOp op args').
  Proof.
    intros W F. pose proof W as W'. simpl in W'. apply andb_true_iff in W' as [Wl O]. apply forallb_Forall in Wl.
    assert (A : all_wf args') by (clear - F; induction F as [|? ? ? ? G]; constructor; [apply G | assumption]).
    assert (Sz : map size args' = map size args) by (clear - F; induction F as [|? ? ? ? G]; simpl; [reflexivity | destruct G as (_ & G & _); congruence]).
    assert (Ev : map ev args' = map ev args) by (clear - F; induction F as [|? ? ? ? G]; simpl; [reflexivity | destruct G as (_ & _ & G); congruence]).
    assert (Ln : List.length args' = List.length args) by (clear - F; induction F; simpl; congruence).
    destruct args as [|a r]; [discriminate|]. destruct args' as [|a' r']; [discriminate|].
    inversion Sz as [[Sa Sr]].
    split; [|split].
    - change (wf (EOp op (a' :: r'))) with (forallb wf (a' :: r') && op_ok op (a' :: r')). apply andb_true_iff. split; [apply forallb_Forall; exact A|].
      unfold op_ok in *. rewrite Sa. rewrite Ln. rewrite (args_ok_sizes op (size a) (a :: r) (a' :: r') Sz). exact O.
    - simpl. rewrite Sa. destruct (size a =? 0); [|reflexivity]. destruct r, r'; simpl in *; try discriminate; congruence.
    - rewrite !eval_op_node. rewrite Ev. f_equal. simpl. rewrite Sa. destruct (size a =? 0); [|reflexivity]. destruct r, r'; simpl in *; try discriminate; congruence.
  Qed.

  (** a concatenation whose pieces are related pointwise (constants stay constants) *)
  Definition slot_rel (s s' : slot) : Prop :=
    good (slot_e s) (slot_e s') /\ slot_lo s' = slot_lo s /\ slot_hi s' = slot_hi s /\ (is_int (slot_e s) = true -> is_int (slot_e s') = true).
  Lemma compose_node_good args args' : wf (ECompose args) = true -> Forall2 slot_rel args args' -> good (ECompose args) (ECompose args').
  Proof.
    intros W F. destruct (wf_compose_inv args W) as (A & Ne & Hs & Nd & (a0 & Ia0 & Z0) & Oc).
    assert (Elo : map slot_lo args' = map slot_lo args) by (clear - F; induction F as [|s s' l l' R _ IH]; simpl; [reflexivity | destruct R as (_ & R1 & _); rewrite R1, IH; reflexivity]).
    assert (Eocc : forall i, occ args' i = occ args i) by (intros i; clear - F; induction F as [|s s' l l' R _ IH]; simpl; [reflexivity | destruct R as (_ & R1 & R2 & _); rewrite R1, R2, IH; reflexivity]).
    assert (Emax : forall m, fold_left (fun m a => Z.max m (slot_hi a)) args' m = fold_left (fun m a => Z.max m (slot_hi a)) args m)
      by (clear - F; induction F as [|s s' l l' R _ IH]; intros m; simpl; [reflexivity | destruct R as (_ & _ & R2 & _); rewrite R2; apply IH]).
    assert (EV : V rho mu iota args' = V rho mu iota args).
    { clear - F. induction F as [|s s' l l' R _ IH]; [reflexivity|]. cbn [V fold_right]. fold (V rho mu iota l'). fold (V rho mu iota l). rewrite IH. f_equal.
      destruct R as ((_ & _ & Ev) & R1 & R2 & _). unfold sval. rewrite R1, R2, Ev. reflexivity. }
    assert (Hs' : forall s', In s' args' -> wf (slot_e s') = true /\ 0 <= slot_lo s' /\ slot_lo s' < slot_hi s' /\ slot_hi s' <= 64 /\ piece_shape (slot_e s') (slot_lo s') (slot_hi s') = true).
    { clear - F Hs. induction F as [|s s' l l' R _ IH]; intros t It; [contradiction|]. destruct It as [<-|It]; [|apply IH; [intros u Iu; apply Hs; right; exact Iu | exact It]].
      destruct (Hs s (or_introl eq_refl)) as (Ws & A1 & A2 & A3 & A4). destruct R as ((W' & Sz & _) & R1 & R2 & Ri). rewrite R1, R2. repeat split; try assumption.
      rewrite piece_shape_alt in A4 |- *. destruct (is_int (slot_e s)) eqn:Io.
      - rewrite (Ri eq_refl). apply Z.leb_le in A4. apply Z.leb_le. lia.
      - apply Z.eqb_eq in A4. destruct (is_int (slot_e s')); [apply Z.leb_le | apply Z.eqb_eq]; lia. }
    assert (Wc : wf (ECompose args') = true).
    { apply wf_compose_intro; try assumption.
      - intros E. subst args'. inversion F; subst. contradiction.
      - rewrite Elo. exact Nd.
      - clear - F Ia0 Z0. induction F as [|s s' l l' R _ IH]; [contradiction|]. destruct Ia0 as [->|Ia0]; [exists s'; split; [left; reflexivity | destruct R as (_ & R1 & _); lia]|].
        destruct (IH Ia0) as (b & Ib & Zb). exists b. split; [right; exact Ib | exact Zb].
      - intros i. rewrite Eocc. apply Oc. }
    split; [exact Wc|]. split.
    - rewrite (proj1 (wf_compose_size _ Wc)), (proj1 (wf_compose_size _ W)). unfold maxhi. apply Emax.
    - rewrite !eval_compose_V. exact EV.
  Qed.

  Section Frame.
    Variable cb : expr -> res expr.
    Hypothesis cb_good : forall x x', wf x = true -> cb x = Ok x' -> good x x'.
    Hypothesis cb_int : forall sg w v x', cb (EInt sg w v) = Ok x' -> is_int x' = true.

    Lemma visit_good : forall e e', wf e = true -> visitM cb e = Ok e' -> good e e'.
    Proof.
      induction e using expr_ind'; intros e' W HV; try (simpl in W; discriminate).
      - simpl in HV. apply cb_good; assumption.
      - simpl in HV. apply cb_good; assumption.
      - (* EMem *)
        pose proof W as W'. simpl in W'. apply andb_true_iff in W' as [W' Ws]. apply andb_true_iff in W' as [Wa Ww].
        assert (Fin : forall s' a', match s, s' with Some u, Some u' => good u u' | None, None => True | _, _ => False end -> good e a' ->
                  cb (if opt_eqb expr_eqb s' s && expr_eqb a' e then EMem e w s else EMem a' w s') = Ok e' -> good (EMem e w s) e').
        { intros s' a' Gs (Wa' & Sa' & Ea') HC.
          assert (G : good (EMem e w s) (EMem a' w s')).
          { split; [|split; [reflexivity|]].
            - simpl. rewrite Wa', Ww. cbn [andb]. destruct s, s'; try contradiction; [apply Gs | reflexivity].
            - simpl. rewrite Ea'. reflexivity. }
          destruct (opt_eqb expr_eqb s' s && expr_eqb a' e).
          - apply cb_good; assumption.
          - eapply good_trans; [exact G|]. apply cb_good; [apply G | exact HC]. }
        destruct s as [u|]; simpl in HV.
        + destruct (visitM cb u) as [u'| |] eqn:Eu; try discriminate. cbn [bind] in HV.
          destruct (visitM cb e) as [a'| |] eqn:Ea; try discriminate. cbn [bind] in HV.
          apply (Fin (Some u') a'); [apply (H u'); [exact Ws | first [reflexivity | exact Eu]] | apply IHe; [exact Wa | first [reflexivity | exact Ea]] | exact HV].
        + destruct (visitM cb e) as [a'| |] eqn:Ea; try discriminate. cbn [bind] in HV.
          apply (Fin None a'); [exact I | apply IHe; [exact Wa | first [reflexivity | exact Ea]] | exact HV].
      - (* EOp *)
        pose proof W as W'. simpl in W'. apply andb_true_iff in W' as [Wl O]. apply forallb_Forall in Wl.
        simpl in HV. destruct (mapM (visitM cb) args) as [args'| |] eqn:Em; try discriminate. cbn [bind] in HV.
        assert (F2 : Forall2 good args args').
        { apply (mapM_good (visitM cb)); [|exact Wl | exact Em]. eapply Forall_impl; [|exact H]. intros a Ha a' Wa Ea. apply Ha; assumption. }
        pose proof (node_good op args args' W F2) as G.
        destruct (all2 expr_eqb args args').
        + apply cb_good; assumption.
        + eapply good_trans; [exact G|]. apply cb_good; [apply G | exact HV].
      - (* ECond *)
        pose proof W as W'. simpl in W'. repeat (apply andb_true_iff in W' as [W' ?]).
        rename H into Sab, H0 into Wb, H1 into Wa. simpl in HV.
        destruct (visitM cb e1) as [c'| |] eqn:E1; try discriminate. cbn [bind] in HV.
        destruct (visitM cb e2) as [a'| |] eqn:E2; try discriminate. cbn [bind] in HV.
        destruct (visitM cb e3) as [b'| |] eqn:E3; try discriminate. cbn [bind] in HV.
        destruct (IHe1 c' W' eq_refl) as (Wc' & Sc' & Ec'). destruct (IHe2 a' Wa eq_refl) as (Wa' & Sa' & Ea'). destruct (IHe3 b' Wb eq_refl) as (Wb' & Sb' & Eb').
        assert (G : good (ECond e1 e2 e3) (ECond c' a' b')).
        { split; [|split].
          - simpl. rewrite Wc', Wa', Wb'. cbn [andb]. rewrite Sa', Sb'. exact Sab.
          - simpl. exact Sa'.
          - simpl. rewrite Ec', Ea', Eb'. reflexivity. }
        destruct (expr_eqb c' e1 && expr_eqb a' e2 && expr_eqb b' e3).
        + apply cb_good; assumption.
        + eapply good_trans; [exact G|]. apply cb_good; [apply G | exact HV].
      - (* ESlice *)
        destruct (wf_slice_inv _ _ _ W) as (Wa & L0 & Llh & Lhs). simpl in HV.
        destruct (visitM cb e) as [a'| |] eqn:Ea; try discriminate. cbn [bind] in HV.
        destruct (IHe a' Wa ltac:(first [reflexivity | exact Ea])) as (Wa' & Sa' & Ea').
        assert (G : good (ESlice e lo hi) (ESlice a' lo hi)).
        { split; [|split; [reflexivity|]].
          - simpl. rewrite Wa', Sa'. cbn [andb]. apply andb_true_iff. split; [apply andb_true_iff; split; [apply Z.leb_le; lia | apply Z.ltb_lt; lia] | apply Z.leb_le; lia].
          - simpl. rewrite Ea'. reflexivity. }
        destruct (expr_eqb a' e).
        + apply cb_good; assumption.
        + eapply good_trans; [exact G|]. apply cb_good; [apply G | exact HV].
      - (* ECompose *)
        destruct (wf_compose_inv _ W) as (_ & _ & Hs & _).
        simpl in HV. destruct (mapM (fun s => do x <- visitM cb (slot_e s); Ok (x, slot_lo s, slot_hi s)) args) as [args'| |] eqn:Em; try discriminate. cbn [bind] in HV.
        assert (F2 : Forall2 slot_rel args args').
        { clear HV W. revert args' Em. induction H as [|s l Hs0 Hl IH]; intros args' Em; simpl in Em; [inversion Em; constructor|].
          destruct (visitM cb (slot_e s)) as [x| |] eqn:Ex0; try discriminate. cbn [bind] in Em.
          destruct (mapM (fun s => do x <- visitM cb (slot_e s); Ok (x, slot_lo s, slot_hi s)) l) as [l'| |] eqn:El; try discriminate. cbn [bind] in Em. inversion Em; subst.
          constructor; [|apply IH; [intros u Iu; apply Hs; right; exact Iu | reflexivity]].
          unfold slot_rel, slot_e at 2, slot_lo at 1, slot_hi at 1. cbn [fst snd].
          split; [apply Hs0; [apply (Hs s); left; reflexivity | first [reflexivity | exact Ex0]]|]. split; [reflexivity|]. split; [reflexivity|].
          intros Ii. destruct (slot_e s) as [sg w v| | | | | | |]; try discriminate. simpl in Ex0. apply (cb_int _ _ _ _ Ex0). }
        pose proof (compose_node_good args args' W F2) as G.
        destruct (all2 _ args args').
        + apply cb_good; assumption.
        + eapply good_trans; [exact G|]. apply cb_good; [apply G | exact HV].
    Qed.

  End Frame.

  Lemma loop_good (rec_simp : expr -> res expr) : (forall x x', wf x = true -> rec_simp x = Ok x' -> good x x') ->
    forall n e e', wf e = true -> simp_loop rec_simp n e = Ok e' -> good e e'.
  Proof.
    intros R. induction n as [|n IH]; intros e e' W H; simpl in H; [discriminate|].
    destruct (simp1 e) as [e1| |] eqn:E1; try discriminate. cbn [bind] in H.
    pose proof (simp1_good e e1 W E1) as G1.
    destruct (expr_eqb e1 e).
    - inversion H; subst. apply good_refl. exact W.
    - destruct (rec_simp e1) as [e2| |] eqn:E2; try discriminate. cbn [bind] in H.
      pose proof (R e1 e2 ltac:(apply G1) E2) as G2.
      eapply good_trans; [exact G1|]. eapply good_trans; [exact G2|]. apply IH; [apply G2 | exact H].
  Qed.

  Lemma loop_int rec_simp n sg w v x' : simp_loop rec_simp (S n) (EInt sg w v) = Ok x' -> is_int x' = true.
  Proof. cbn [simp_loop simp1 bind]. rewrite eqb_refl. intros H. inversion H; subst. reflexivity. Qed.

  Theorem simp_good : forall fuel e e', wf e = true -> simp fuel e = Ok e' -> good e e'.
  Proof.
    induction fuel as [|f IH]; intros e e' W H; [simpl in H; discriminate|].
    simpl in H. apply (visit_good (simp_loop (simp f) (S f))); [| |exact W | exact H].
    - intros x x' Wx Hx. apply (loop_good (simp f) IH (S f)); assumption.
    - intros sg w v x' Hx. apply loop_int in Hx. exact Hx.
  Qed.
End Sound.

(** * The theorem of fragment 1 *)
Theorem simp_sound_frag1 : forall fuel e e', wf e = true -> simp fuel e = Ok e' ->
  wf e' = true /\ size e' = size e /\ forall rho mu iota, eval rho mu iota e' = eval rho mu iota e.
Proof.
  intros fuel e e' W H. pose proof (simp_good (fun _ => 0) (fun _ => 0) (fun _ _ => 0) fuel e e' W H) as (A & B & _).
  split; [exact A|]. split; [exact B|]. intros rho mu iota. apply (simp_good rho mu iota fuel e e' W H).
Qed.
End IdPred.
