(** X86DisProofs.v — the decoder model reads a prefix of the stream and nothing else (C10):
    if it accepts a byte string it consumed an initial segment u of it; on u followed by ANY other bytes it returns the same
    instruction; on every proper prefix of u it returns None.  Proved for every stream function of X86Dis.v by composition. *)
From Coq Require Import ZArith List Bool String Lia.
From Mx Require Import X86Types X86Dis.
Import ListNotations.
Open Scope list_scope.
Open Scope Z_scope.

Definition stream_ok {A} (f : list Z -> dres (A * list Z)) : Prop :=
  forall bs x r, f bs = DOk (x, r) ->
    exists u, bs = u ++ r /\ (forall e, f (u ++ e) = DOk (x, e)) /\ (forall p q, u = p ++ q -> q <> [] -> f p = DNone).

Lemma ret_ok {A} (x : A) : stream_ok (fun bs => DOk (x, bs)).
Proof.
  intros bs y r H. inversion H; subst. exists []. split; [reflexivity|]. split; [intros; reflexivity|].
  intros p q E NE. symmetry in E. apply app_eq_nil in E as [_ E]. contradiction.
Qed.
Lemma read1_ok : stream_ok read1.
Proof.
  intros [|b bs] x r H; simpl in H; [discriminate|]. inversion H; subst. exists [x]. split; [reflexivity|]. split; [intros; reflexivity|].
  intros p q E NE. destruct p as [|c p]; [reflexivity|]. inversion E as [[E1 E2]]. symmetry in E2. apply app_eq_nil in E2 as [-> E3]. contradiction.
Qed.

(** sequential composition: g continues on what f left *)
Lemma bind_ok {A B} (f : list Z -> dres (A * list Z)) (g : A -> list Z -> dres (B * list Z)) :
  stream_ok f -> (forall a, stream_ok (g a)) -> stream_ok (fun bs => dod '(a, r) <- f bs; g a r).
Proof.
  intros Hf Hg bs y r H. destruct (f bs) as [[a r1]| |] eqn:Ef; simpl in H; try discriminate.
  destruct (Hf _ _ _ Ef) as (u1 & E1 & X1 & P1). destruct (Hg a _ _ _ H) as (u2 & E2 & X2 & P2).
  exists (u1 ++ u2). split; [rewrite <- app_assoc, <- E2; exact E1|]. split.
  - intros e. rewrite <- app_assoc, X1. simpl. apply X2.
  - intros p q E NE.
    (* p is a prefix of u1 ++ u2 *)
    assert (C : (exists q1, u1 = p ++ q1 /\ q1 <> []) \/ (exists p2, p = u1 ++ p2 /\ u2 = p2 ++ q)).
    { clear - E NE. revert p E. induction u1 as [|b u1 IH]; intros p E.
      - right. exists p. split; [reflexivity | exact E].
      - destruct p as [|c p].
        + left. exists (b :: u1). split; [reflexivity | discriminate].
        + simpl in E. inversion E as [[E1 E2]]. destruct (IH p E2) as [(q1 & -> & N)|(p2 & -> & F)].
          * left. exists q1. split; [reflexivity | exact N].
          * right. exists p2. split; [reflexivity | exact F]. }
    destruct C as [(q1 & -> & N1)|(p2 & -> & F2)].
    + rewrite (P1 p q1 eq_refl N1). reflexivity.
    + rewrite X1. simpl. apply (P2 p2 q F2 NE).
Qed.

Lemma readn_ok n : stream_ok (readn n).
Proof.
  induction n as [|n IH].
  - apply (ret_ok (A := list Z) []).
  - simpl. apply (bind_ok read1 (fun b r => dod '(l, r') <- readn n r; DOk (b :: l, r'))); [apply read1_ok|].
    intros b. apply (bind_ok (readn n) (fun l r' => DOk (b :: l, r'))); [exact IH|]. intros l. apply (ret_ok (b :: l)).
Qed.

(** a function that does not touch the stream in some branch / fails *)
Lemma fail_ok {A} (d : dres (A * list Z)) : (forall x r, d <> DOk (x, r)) -> stream_ok (fun _ => d).
Proof. intros N bs x r H. exfalso. exact (N _ _ H). Qed.
Lemma ext_ok {A} (f g : list Z -> dres (A * list Z)) : (forall bs, f bs = g bs) -> stream_ok g -> stream_ok f.
Proof.
  intros E G bs x r H. rewrite E in H. destruct (G _ _ _ H) as (u & A1 & A2 & A3). exists u. split; [exact A1|]. split.
  - intros e. rewrite E. apply A2.
  - intros p q Ep Nq. rewrite E. apply (A3 p q Ep Nq).
Qed.
(** post-processing of the result by a stream-free computation *)
Lemma map_ok {A B} (f : list Z -> dres (A * list Z)) (k : A -> dres B) :
  stream_ok f -> stream_ok (fun bs => dod '(a, r) <- f bs; dod b <- k a; DOk (b, r)).
Proof.
  intros Hf. apply (bind_ok f (fun a r => dod b <- k a; DOk (b, r))); [exact Hf|].
  intros a. destruct (k a) as [b| |]; simpl; [apply (ret_ok b) | apply fail_ok; discriminate | apply fail_ok; discriminate].
Qed.

(** * The stream functions of the decoder *)
Lemma get_afs_ok T mb sm : stream_ok (fun bs => get_afs T bs mb sm).
Proof.
  unfold get_afs.
  destruct (match sm with Mu16 => Some (t_db_afs_16 T, 16) | Mu32 => Some (t_db_afs T, 32) | Mmm => Some (t_db_afs_mm T, 32)
                       | Mxmm => Some (t_db_afs_xmm T, 32) | Mf64 => Some (t_db_afs T, 32) | _ => None end) as [[db ubits]|];
    [|apply fail_ok; discriminate].
  set (re := Z.land (Z.shiftr mb 3) 7).
  apply (bind_ok
           (fun bs => match nthZ db mb with
                      | Some (MAfs a) => DOk (a, bs)
                      | Some (MSib k) => dod '(sb, r) <- read1 bs;
                                         match nthZ (t_sib T) k with
                                         | Some st => match nthZ st sb with Some a => DOk (a, r) | None => DCrash CIndex end
                                         | None => DCrash CIndex end
                      | None => DCrash CIndex end)
           (fun a bs1 => match af_imm a with
                         | None => DOk (re, afs_to_arg a None, bs1)
                         | Some 0 => dod '(l, r) <- readn 1 bs1; DOk (re, afs_to_arg a (Some (ubits, wrapn ubits (le_val l))), r)
                         | Some 1 => dod '(l, r) <- readn 1 bs1; DOk (re, afs_to_arg a (Some (ubits, wrapn ubits (sext 8 (le_val l)))), r)
                         | Some 4 => dod '(l, r) <- readn 4 bs1; DOk (re, afs_to_arg a (Some (ubits, wrapn ubits (le_val l))), r)
                         | Some 2 => dod '(l, r) <- readn 2 bs1; DOk (re, afs_to_arg a (Some (ubits, wrapn ubits (le_val l))), r)
                         | Some _ => DCrash CValue
                         end)).
  - destruct (nthZ db mb) as [[k|a]|]; [| apply (ret_ok a) | apply fail_ok; discriminate].
    apply (bind_ok read1 (fun sb r => match nthZ (t_sib T) k with
                                      | Some st => match nthZ st sb with Some a => DOk (a, r) | None => DCrash CIndex end
                                      | None => DCrash CIndex end)); [apply read1_ok|].
    intros sb. destruct (nthZ (t_sib T) k) as [st|]; [|apply fail_ok; discriminate].
    destruct (nthZ st sb) as [a|]; [apply (ret_ok a) | apply fail_ok; discriminate].
  - intros a. destruct (af_imm a) as [[|p|p]|]; try (apply fail_ok; discriminate); try apply (ret_ok (re, afs_to_arg a None)).
    + apply (bind_ok (readn 1) (fun l r => DOk (re, afs_to_arg a (Some (ubits, wrapn ubits (le_val l))), r))); [apply readn_ok|]. intros l. apply (ret_ok (re, afs_to_arg a (Some (ubits, wrapn ubits (le_val l))))).
    + destruct p as [[p|p|]|[p|p|]|]; try (apply fail_ok; discriminate).
      * destruct p; try (apply fail_ok; discriminate).
        apply (bind_ok (readn 4) (fun l r => DOk (re, afs_to_arg a (Some (ubits, wrapn ubits (le_val l))), r))); [apply readn_ok|]. intros l. apply (ret_ok (re, afs_to_arg a (Some (ubits, wrapn ubits (le_val l))))).
      * apply (bind_ok (readn 2) (fun l r => DOk (re, afs_to_arg a (Some (ubits, wrapn ubits (le_val l))), r))); [apply readn_ok|]. intros l. apply (ret_ok (re, afs_to_arg a (Some (ubits, wrapn ubits (le_val l))))).
      * apply (bind_ok (readn 1) (fun l r => DOk (re, afs_to_arg a (Some (ubits, wrapn ubits (sext 8 (le_val l)))), r))); [apply readn_ok|]. intros l. apply (ret_ok (re, afs_to_arg a (Some (ubits, wrapn ubits (sext 8 (le_val l)))))).
Qed.

Lemma retry_walk_ok : forall fuel l pending lastc, stream_ok (fun bs => retry_walk fuel l pending bs lastc).
Proof.
  induction fuel as [|f IH]; intros l pending lastc; simpl; [apply fail_ok; discriminate|].
  destruct pending as [|c rest]; [apply (ret_ok (None, lastc))|].
  destruct (nthZ l c) as [[|m|ch]|]; try apply (ret_ok (None, c)); try apply (ret_ok (Some m, c)).
  destruct rest as [|c2 rest'].
  - apply (bind_ok read1 (fun b r => retry_walk f ch [b] r c)); [apply read1_ok|]. intros b. apply IH.
  - apply IH.
Qed.

Lemma walk_ok T : forall fuel l pd rp rb, stream_ok (fun bs => walk T fuel l pd rp rb bs).
Proof.
  induction fuel as [|f IH]; intros l pd rp rb; simpl; [apply fail_ok; discriminate|].
  apply (bind_ok read1 (fun c r =>
           let read_bytes' := (rb ++ [c])%list in
           if negb pd && memZ c (t_prefixes T) then walk T f l false (rp ++ [c])%list read_bytes' r
           else match nthZ l c with
                | Some TNone | None => dod '(m, c', r') <- retry_walk 32 (t_trie T) read_bytes' r c; DOk (m, c', [], r')
                | Some (TM m) => DOk (Some m, c, rp, r)
                | Some (TN ch) => walk T f ch true rp read_bytes' r
                end)); [apply read1_ok|].
  intros c. cbv zeta. destruct (negb pd && memZ c (t_prefixes T)); [apply IH|].
  assert (R : stream_ok (fun r => dod '(a, r') <- retry_walk 32 (t_trie T) (rb ++ [c]) r c; DOk (fst a, snd a, ([] : list Z), r'))).
  { apply (bind_ok (fun r => retry_walk 32 (t_trie T) (rb ++ [c]) r c) (fun (mc : option Z * Z) r' => DOk (fst mc, snd mc, ([] : list Z), r'))).
    - apply retry_walk_ok.
    - intros [m c']. apply (ret_ok (m, c', ([] : list Z))). }
  destruct (nthZ l c) as [[|m|ch]|].
  - refine (ext_ok _ _ _ R). intros bs. destruct (retry_walk 32 (t_trie T) (rb ++ [c]) bs c) as [[[m c'] r']| |]; reflexivity.
  - apply (ret_ok (Some m, c, rp)).
  - apply IH.
  - refine (ext_ok _ _ _ R). intros bs. destruct (retry_walk 32 (t_trie T) (rb ++ [c]) bs c) as [[[m c'] r']| |]; reflexivity.
Qed.

Lemma pure_bind_ok {B C} (k : dres C) (F : C -> list Z -> dres (B * list Z)) :
  (forall c, stream_ok (F c)) -> stream_ok (fun r => dod c <- k; F c r).
Proof. intros H. destruct k as [c| |]; simpl; [apply H | apply fail_ok; discriminate | apply fail_ok; discriminate]. Qed.

Lemma do_dibs_ok T m opmode admode : forall dibs margs dib_out, stream_ok (fun bs => do_dibs T m opmode admode dibs bs margs dib_out).
Proof.
  induction dibs as [|dib rest IH]; intros margs dib_out; cbn [do_dibs]; [apply (ret_ok (margs, dib_out))|].
  destruct ((0 <=? dib) && (dib <=? 5)).
  { destruct (fmt_size _) as [[[n sg] bits]|]; [|apply fail_ok; discriminate].
    apply (bind_ok (readn n) (fun l r => let v := if sg then sext bits (le_val l) else le_val l in
                                        dod '(w, v') <- intsize m opmode v false;
                                        do_dibs T m opmode admode rest r margs (dib_out ++ [imm_arg w v'])%list)); [apply readn_ok|].
    intros l. cbv zeta. destruct (intsize m opmode _ false) as [[w v']| |]; simpl; [apply IH | apply fail_ok; discriminate | apply fail_ok; discriminate]. }
  destruct ((dib =? D_imm) || (dib =? D_ims)).
  { set (K := if truthy (m_se m) then DOk (1%nat, true, 8)
              else if truthy (m_w8 m) then DOk (1%nat, dib =? D_ims, 8)
              else if mode_eqb opmode Mu32 then DOk (4%nat, dib =? D_ims, 32) else DOk (2%nat, dib =? D_ims, 16)).
    destruct K as [[[n sg] bits]| |] eqn:EK; simpl; try (apply fail_ok; discriminate).
    apply (bind_ok (readn n) (fun l r => let v := if sg then sext bits (le_val l) else le_val l in
                                        dod '(w, v') <- intsize m opmode v (dib =? D_ims);
                                        do_dibs T m opmode admode rest r margs (dib_out ++ [imm_arg w v'])%list)); [apply readn_ok|].
    intros l. cbv zeta. destruct (intsize m opmode _ (dib =? D_ims)) as [[w v']| |]; simpl; [apply IH | apply fail_ok; discriminate | apply fail_ok; discriminate]. }
  destruct ((dib =? D_im1) || (dib =? D_im3)).
  { destruct (intsize m opmode _ false) as [[w v']| |]; simpl; [apply IH | apply fail_ok; discriminate | apply fail_ok; discriminate]. }
  destruct (dib =? D_rmr); [apply IH|].
  destruct (dib =? D_r_eax).
  { destruct margs; [apply IH|]. destruct (truthy (m_sw m)); apply IH. }
  destruct (dib =? D_mim).
  { destruct (match admode with Mu32 => DOk (4%nat, 32) | Mu16 => DOk (2%nat, 16) | Mu08 => DOk (1%nat, 8) | _ => DCrash CKey end) as [[n bits]| |];
      simpl; try (apply fail_ok; discriminate).
    apply (bind_ok (readn n) (fun l r => if m_w8 m =? 0 then DCrash CType else
             let a := mkarg (Some AdT) (Some (if truthy (m_w8 m) then Mu08 else opmode)) [] (Some (32, wrapn 32 (le_val l))) None ""%string in
             do_dibs T m opmode admode rest r margs (dib_out ++ [a])%list)); [apply readn_ok|].
    intros l. destruct (m_w8 m =? 0); [apply fail_ok; discriminate | apply IH]. }
  destruct (dib =? D_r_cl); [apply IH|].
  destruct (dib =? D_r_dx); [apply IH|].
  destruct (seg_index dib); [apply IH | apply fail_ok; discriminate].
Qed.

(** composition with an arbitrary continuation on the (result, rest) pair: fits every tuple pattern of the model *)
Lemma bind_ok2 {A B} (f : list Z -> dres (A * list Z)) (G : A * list Z -> dres (B * list Z)) :
  stream_ok f -> (forall a, stream_ok (fun r => G (a, r))) -> stream_ok (fun bs => dbind (f bs) G).
Proof.
  intros Hf Hg. refine (ext_ok _ (fun bs => dod '(a, r) <- f bs; G (a, r)) _ _).
  - intros bs. destruct (f bs) as [[a r]| |]; reflexivity.
  - apply (bind_ok f (fun a r => G (a, r))); assumption.
Qed.
Lemma pure_bind_ok2 {B C} (k : dres C) (F : C -> list Z -> dres (B * list Z)) :
  (forall c, stream_ok (F c)) -> stream_ok (fun r => dbind k (fun c => F c r)).
Proof. intros H. destruct k as [c| |]; simpl; [apply H | apply fail_ok; discriminate | apply fail_ok; discriminate]. Qed.

Lemma dis_modrm_ok T m c rp1 o1 a1 : stream_ok (fun bs => dis_modrm T m c rp1 o1 a1 bs).
Proof.
  unfold dis_modrm. cbv zeta.
  destruct ((0 <=? mn_afs m) && (mn_afs m <=? 7)).
  { apply bind_ok2; [apply get_afs_ok|]. intros [re modr]. cbn beta iota.
    match goal with |- stream_ok (fun r => dbind ?k _) => destruct k as [x| |]; simpl; try (apply fail_ok; discriminate) end.
    match goal with |- stream_ok (fun r => if ?b then _ else _) => destruct b; [apply fail_ok; discriminate|] end.
    match goal with |- stream_ok (fun r => DOk (?v, r)) => apply (ret_ok v) end. }
  destruct (mn_afs m =? 8).
  { match goal with |- stream_ok (fun r => DOk (?v, r)) => apply (ret_ok v) end. }
  destruct ((mn_afs m =? 9) || (mn_afs m =? 10)); [|apply fail_ok; discriminate].
  destruct (memZ D_rmr (mn_rm m)); [|match goal with |- stream_ok (fun r => DOk (?v, r)) => apply (ret_ok v) end].
  match goal with |- stream_ok (fun r => dbind ?k _) => destruct k as [[[[opm adm] swap] reg_cat]| |]; simpl; try (apply fail_ok; discriminate) end.
  apply bind_ok2; [apply read1_ok|]. intros c2. cbn beta iota.
  apply bind_ok2; [apply get_afs_ok|]. intros [re modr]. cbn beta iota.
  repeat match goal with
         | |- stream_ok (fun r => let '(_, _) := ?p in _) => destruct p
         | |- stream_ok (fun r => if ?b then _ else _) => destruct b; [apply fail_ok; discriminate|]
         end.
  match goal with |- stream_ok (fun r => dbind ?k _) => destruct k as [x| |]; simpl; try (apply fail_ok; discriminate) end.
  match goal with |- stream_ok (fun r => DOk (?v, r)) => apply (ret_ok v) end.
Qed.

Lemma dis_body_ok T o : stream_ok (dis_body T o).
Proof.
  unfold dis_body. apply bind_ok2; [apply walk_ok|]. intros [[mo c] rp]. cbn beta iota.
  destruct mo as [mid0|]; [|apply fail_ok; discriminate].
  destruct (nthZ (t_mnemos T) mid0) as [m0|]; [|apply fail_ok; discriminate]. cbv zeta.
  match goal with |- stream_ok (fun r => dbind ?k _) => destruct k as [[[mid m] rp1]| |]; simpl; try (apply fail_ok; discriminate) end.
  apply bind_ok2; [apply dis_modrm_ok|]. intros [[[margs o2] a2] sw]. cbn beta iota.
  apply bind_ok2; [apply do_dibs_ok|]. intros [margs2 dib_out]. cbn beta iota.
  match goal with |- stream_ok (fun r => DOk (?v, r)) => apply (ret_ok v) end.
Qed.

(** * The decoder reads an initial segment and nothing else *)
Lemma app_length_Z (u r : list Z) : Z.of_nat (List.length (u ++ r)) - Z.of_nat (List.length r) = Z.of_nat (List.length u).
Proof. rewrite app_length, Nat2Z.inj_add. lia. Qed.

Lemma dis_body_len T o bytes k r : dis_body T o bytes = DOk (k, r) -> forall len i, k len = DOk i -> i_len i = len.
Proof.
  unfold dis_body. intros H.
  destruct (walk T 32 (t_trie T) false [] [] bytes) as [[[[mo c] rp] bs1]| |]; simpl in H; try discriminate.
  destruct mo as [mid0|]; try discriminate. destruct (nthZ (t_mnemos T) mid0) as [m0|]; try discriminate. cbv zeta in H.
  match type of H with dbind ?x _ = _ => destruct x as [[[mid m] rp1]| |]; simpl in H; try discriminate end.
  destruct (dis_modrm T m c rp1 _ _ bs1) as [[[[[margs o2] a2] sw] bs2]| |]; simpl in H; try discriminate.
  match type of H with dbind ?x _ = _ => destruct x as [[[margs2 dib_out] bs3]| |]; simpl in H; try discriminate end.
  inversion H; subst k r. clear H. intros len i Hk. cbv beta in Hk.
  match type of Hk with dbind ?x _ = _ => destruct x as [args| |]; simpl in Hk; try discriminate end.
  match type of Hk with dbind ?x _ = _ => destruct x as [[[midf argsf] pxf]| |]; simpl in Hk; try discriminate end.
  destruct (nthZ (t_mnemos T) midf); inversion Hk; reflexivity.
Qed.

Theorem dis_reads_a_prefix T o bytes i : dis_core T o bytes = DOk i ->
  exists u r, bytes = u ++ r /\ i_len i = Z.of_nat (List.length u) /\
    (forall e, dis_core T o (u ++ e) = DOk i) /\
    (forall p q, u = p ++ q -> q <> [] -> dis_core T o p = DNone).
Proof.
  unfold dis_core. intros H. destruct (dis_body T o bytes) as [[k bs3]| |] eqn:E; simpl in H; try discriminate.
  destruct (dis_body_ok T o _ _ _ E) as (u & -> & X & P).
  rewrite app_length_Z in H. exists u, bs3. split; [reflexivity|]. split; [exact (dis_body_len T o _ _ _ E _ _ H)|]. split.
  - intros e. rewrite X. simpl. rewrite app_length_Z. exact H.
  - intros p q Ep Nq. rewrite (P p q Ep Nq). reflexivity.
Qed.

Lemma firstn_app_exact {A} (u r : list A) : firstn (List.length u) (u ++ r) = u.
Proof. induction u; simpl; [destruct r; reflexivity | f_equal; assumption]. Qed.

(** no over-read: the accepted instruction is determined by its own bytes; whatever follows is irrelevant *)
Theorem dis_no_over_read T bytes i : dis T bytes = OSome i ->
  0 <= i_len i <= Z.of_nat (List.length bytes) /\
  forall e, dis T (firstn (Z.to_nat (i_len i)) bytes ++ e) = OSome i.
Proof.
  unfold dis. intros H. destruct (dis_core T Mu32 bytes) as [j| |] eqn:E; try discriminate. inversion H; subst j.
  destruct (dis_reads_a_prefix T Mu32 bytes i E) as (u & r & -> & L & X & _).
  split; [rewrite L, app_length, Nat2Z.inj_add; lia|].
  intros e. rewrite L, Nat2Z.id, firstn_app_exact, X. reflexivity.
Qed.

(** truncation: every proper prefix of an accepted instruction is rejected with None (never a crash, never another instruction) *)
Theorem dis_truncation T bytes i : dis T bytes = OSome i ->
  forall n, (n < Z.to_nat (i_len i))%nat -> dis T (firstn n bytes) = ONone.
Proof.
  unfold dis. intros H n Hn. destruct (dis_core T Mu32 bytes) as [j| |] eqn:E; try discriminate. inversion H; subst j.
  destruct (dis_reads_a_prefix T Mu32 bytes i E) as (u & r & -> & L & _ & P).
  rewrite L, Nat2Z.id in Hn.
  assert (F : firstn n (u ++ r) = firstn n u) by (rewrite firstn_app; replace (n - List.length u)%nat with O by lia; simpl; apply app_nil_r).
  rewrite F. rewrite (P (firstn n u) (skipn n u)); [reflexivity | symmetry; apply firstn_skipn|].
  intros Z0. assert (List.length (skipn n u) = (List.length u - n)%nat) by apply skipn_length. rewrite Z0 in H0. simpl in H0. lia.
Qed.
