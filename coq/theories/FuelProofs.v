(** FuelProofs.v — the fuel of eval_expr (Python recursion depth) is not a hidden input: once a result is returned, more fuel returns the same result.
    eval_body is the body of EvalAbs.eval_expr with the recursive call abstracted (checked by reflexivity below). *)
From Coq Require Import ZArith List Bool String Lia.
From Mx Require Import ModInt Expr Simp EvalAbs.
Import ListNotations.
Open Scope string_scope.
Open Scope Z_scope.

Definition eval_body (ev : expr -> res expr + xerr) (s : pool) (e : expr) : res expr + xerr :=
    if is_term e then okx e else
    dox e1 <- lift (visitM simpF e);
    let evs x := (dox y <- ev x; lift (simpF y)) in
    match e1 with
    | EId _ _ _ _ => okx (match adict_get (pool_id s) e1 with Some v => v | None => e1 end)
    | EInt _ _ _ => okx e1
    | EOp op args =>
        dox args' <- mapX evs args;
        eval_op_consts op args'
    | ECond c a b =>
        dox c' <- ev c; dox a' <- ev a; dox b' <- ev b;
        match c' with
        | EInt _ _ v => okx (if v =? 0 then b' else a')
        | _ => okx (ECond c' a' b')
        end
    | ESlice a lo hi =>
        dox a' <- evs a;
        match a' with
        | EMem _ w _ => okx (if (lo =? 0) && (hi =? w) then a' else ESlice a' lo hi)
        | EInt _ _ _ => lift (simpF (ESlice a' lo hi))
        | _ => okx (ESlice a' lo hi)
        end
    | ECompose slots =>
        dox slots' <- mapX (fun sl => dox x <- ev (slot_e sl); okx (x, slot_lo sl, slot_hi sl)) slots;
        let all_int := forallb (fun sl => is_int (slot_e sl)) slots' in
        let cond_score := fold_left (fun n sl => match slot_e sl with
                                                 | EInt _ _ _ => n
                                                 | ECond _ (EInt _ _ _) (EInt _ _ _) => n + 1
                                                 | _ => n + 3 end) slots' 0 in
        if negb all_int && negb (cond_score =? 1) then okx (ECompose slots') else
        let total := fold_left (fun n sl => n + (slot_hi sl - slot_lo sl)) slots' 0 in
        let rez := fold_left (fun r sl => match slot_e sl with
                                          | EInt _ _ v => Z.lor r (Z.shiftl (Z.land v (2 ^ (slot_hi sl - slot_lo sl) - 1)) (slot_lo sl))
                                          | _ => r end) slots' 0 in
        if all_int then
          (if std_width total then okx (EInt false total (wrap total rez)) else inl (Err ETypeError))
        else
          match find (fun sl => negb (is_int (slot_e sl))) slots' with
          | Some (ECond c (EInt _ _ v1) (EInt _ _ v2), lo, hi) =>
              if std_width total then
                let m := 2 ^ (hi - lo) - 1 in
                ev (ECond c (EInt false total (wrap total (Z.lor (Z.shiftl (Z.land v1 m) lo) rez)))
                            (EInt false total (wrap total (Z.lor (Z.shiftl (Z.land v2 m) lo) rez))))
              else inl (Err ETypeError)
          | _ => inl (Err ETypeError)
          end
    | EAff _ _ => inl (Err EKeyError)
    | EMem addr w _ =>
        dox a_val <- evs addr;
        match pool_get_mem s a_val w with
        | Some v => okx v
        | None =>
          match adict_get (pool_mem s) a_val with
          | Some (cell, cellv) =>
              let cw := size cell in
              if w >? cw then
                (* bigger lookup: walk consecutive cells *)
                (fix walk (n : nat) (rest : Z) (ptr : expr) (idx : Z) (out : list slot) {struct n} : res expr + xerr :=
                   match n with
                   | O => inl OutOfFuel
                   | S n' =>
                       if rest =? 0 then lift (simpF (ECompose out)) else
                       let found := adict_get (pool_mem s) ptr in
                       let '(val, dsz, vsz) :=
                         match found with
                         | None => (EMem ptr 8 None, 8, 8)
                         | Some (c, v) => if rest >=? size c then (v, size c, size c) else (getitem v 0 rest, rest, size c)
                         end in
                       dox ptr' <- evs (EOp "+" [ptr; EInt false 32 (wrap 32 (vsz / 8))]);
                       walk n' (rest - dsz) ptr' (idx + dsz) (out ++ [(val, idx, idx + dsz)])%list
                   end) (Z.to_nat (w / 8 + 2)) w a_val 0 []
              else
                (* part lookup *)
                lift (simpF (ESlice cellv 0 w))
          | None =>
              (* get_mem_overlapping *)
              dox tests <- mapX (fun i => dox x <- evs (mk_add a_val i); okx (i, x)) (range_from (-7) (Z.to_nat (7 + w / 8)));
              dox ov <- (fix go (l : list (Z * expr)) : res (list (Z * (expr * expr))) + xerr :=
                           match l with
                           | [] => okx []
                           | (i, x) :: r =>
                               match adict_get (pool_mem s) x with
                               | None => go r
                               | Some (cell, v) =>
                                   dox d <- evs (mk_sub a_val x);
                                   match d with
                                   | EInt _ _ dv =>
                                       dox tl <- go r;
                                       if 8 * int32_of dv >=? size v then okx tl else okx ((i, (cell, v)) :: tl)
                                   | _ => inl (Err EValueError)
                                   end
                               end
                           end) tests;
              (* ov.sort(): ascending offset (tests are generated in ascending i, hence ov already is) *)
              let ovd := ov in
              dox out <- (fix go (l : list (Z * (expr * expr))) (out : list slot) : res (list slot) + xerr :=
                            match l with
                            | [] => okx out
                            | (off, (cell, v)) :: r =>
                                let off_base := off * 8 in
                                if off >=? 0 then
                                  let m := Z.min (w - off_base) (size cell) in
                                  dox ee <- lift (simpF (ESlice v 0 m));
                                  go r (out ++ [(ee, off_base, off_base + size ee)])%list
                                else
                                  let m := Z.min (w - off * 8) (size cell) in
                                  dox ee <- lift (simpF (ESlice v (- off * 8) m));
                                  go r (out ++ [(ee, 0, size ee)])%list
                            end) ovd [];
              match out with
              | [] => okx (EMem a_val w None)
              | _ =>
                  dox missing <- mapX (fun '(sa, sb) => dox ptr <- lift (simpF (EOp "+" [a_val; EInt false 32 (wrap 32 (sa / 8))]));
                                                        okx (EMem ptr (sb - sa) None, sa, sb)) (rest_slice out 0 w);
                  lift (simpF (ESlice (ECompose (sort_slots (out ++ missing))) 0 w))
              end
          end
        end
    end.
Lemma eval_expr_unfold f s e : eval_expr (S f) s e = eval_body (eval_expr f s) s e.
Proof. reflexivity. Qed.

Definition le {A} (x x' : res A + xerr) : Prop := forall r, x = okx r -> x' = okx r.
Lemma le_refl {A} (x : res A + xerr) : le x x.
Proof. intros r H. exact H. Qed.
Lemma bindx_ok' {A B} (x : res A + xerr) (f : A -> res B + xerr) r : bindx x f = okx r -> exists a, x = okx a /\ f a = okx r.
Proof. unfold bindx, okx. destruct x as [[a|e|]|e]; intros H; try discriminate. exists a. split; [reflexivity | exact H]. Qed.
Lemma le_bindx {A B} (x x' : res A + xerr) (f f' : A -> res B + xerr) : le x x' -> (forall a, le (f a) (f' a)) -> le (bindx x f) (bindx x' f').
Proof. intros Hx Hf r H. apply bindx_ok' in H as [a [Ea Ef]]. rewrite (Hx a Ea). cbn [bindx okx]. apply Hf. exact Ef. Qed.
Lemma le_mapX {A B} (f f' : A -> res B + xerr) l : (forall a, le (f a) (f' a)) -> le (mapX f l) (mapX f' l).
Proof. intros Hf. induction l as [|a l IH]; cbn [mapX]; [apply le_refl|]. apply le_bindx; [apply Hf|intros b]. apply le_bindx; [exact IH | intros r'; apply le_refl]. Qed.

Ltac mono H :=
  repeat first
    [ apply le_refl
    | apply H
    | apply le_mapX; intros ?
    | apply le_bindx; [|intros ?]
    | match goal with |- le (match ?x with _ => _ end) (match ?x with _ => _ end) => destruct x end
    | match goal with |- le (if ?c then _ else _) (if ?c then _ else _) => destruct c end
    | match goal with |- le (let '(_, _) := ?x in _) (let '(_, _) := ?x in _) => destruct x end ].

Lemma body_mono ev ev' s e : (forall x, le (ev x) (ev' x)) -> le (eval_body ev s e) (eval_body ev' s e).
Proof.
  intros H. unfold eval_body. cbv zeta. mono H.
  - match goal with |- le (?F ?n ?r ?p ?i ?o) (?G ?n ?r ?p ?i ?o) =>
      assert (HH : forall n0 r0 p0 i0 o0, le (F n0 r0 p0 i0 o0) (G n0 r0 p0 i0 o0)); [|apply HH] end.
    induction n0 as [|n IHn]; intros rest ptr idx out; [apply le_refl|].
    destruct (rest =? 0) eqn:E0.
    + intros r Hr. cbn beta iota fix in Hr |- *. try rewrite E0 in Hr |- *. exact Hr.
    + intros r Hr. cbn beta iota fix in Hr |- *. try rewrite E0 in Hr |- *. revert r Hr.
      match goal with |- forall r, ?X = okx r -> ?Y = okx r => change (le X Y) end.
      destruct (match adict_get (pool_mem s) ptr with Some (c, v) => if rest >=? size c then (v, size c, size c) else (getitem v 0 rest, rest, size c) | None => (EMem ptr 8 None, 8, 8) end) as [[val dsz] vsz].
      apply le_bindx; [mono H | intros ptr'; apply IHn].
  - match goal with |- le (?F ?l) (?G ?l) => assert (HH : forall l0, le (F l0) (G l0)); [|apply HH] end.
    induction l0 as [|[i x] l IHl]; [apply le_refl|].
    intros r Hr. cbn beta iota fix in Hr |- *. revert r Hr.
    match goal with |- forall r, ?X = okx r -> ?Y = okx r => change (le X Y) end.
    destruct (adict_get (pool_mem s) x) as [[cell v]|]; [|exact IHl].
    apply le_bindx; [mono H | intros d]. destruct d; try apply le_refl. apply le_bindx; [exact IHl | intros tl; apply le_refl].
Qed.

Theorem eval_expr_fuel_mono : forall f s e r, eval_expr f s e = okx r -> eval_expr (S f) s e = okx r.
Proof.
  induction f as [|f IH]; intros s e r H; [discriminate|]. rewrite eval_expr_unfold in H |- *.
  apply (body_mono (eval_expr f s) (eval_expr (S f) s) s e); [intros x r' Hx; apply IH; exact Hx | exact H].
Qed.
Corollary eval_expr_fuel_irrelevant : forall f f' s e r, (f <= f')%nat -> eval_expr f s e = okx r -> eval_expr f' s e = okx r.
Proof. intros f f' s e r L H. induction L as [|m _ IH]; [exact H | apply eval_expr_fuel_mono; exact IH]. Qed.
Corollary eval_expr_runs_agree : forall f f' s e r r', eval_expr f s e = okx r -> eval_expr f' s e = okx r' -> r = r'.
Proof.
  intros f f' s e r r' H H'. destruct (Nat.le_ge_cases f f') as [L|L].
  - rewrite (eval_expr_fuel_irrelevant f f' s e r L H) in H'. injection H' as <-. reflexivity.
  - rewrite (eval_expr_fuel_irrelevant f' f s e r' L H') in H. injection H as <-. reflexivity.
Qed.

(** the same for the instruction step: get_instr_mod evaluates every source and destination address with eval_expr *)
Lemma get_instr_mod_mono f s affs : le (get_instr_mod f s affs) (get_instr_mod (S f) s affs).
Proof.
  unfold get_instr_mod.
  assert (G : forall acc acc', le acc acc' ->
     le (fold_left (fun acc aff => dox out <- acc; match aff with EAff dst src => dox v <- eval_expr f s src; match dst with
           | EMem addr w _ => dox a <- (dox y <- eval_expr f s addr; lift (simpF y)); okx (adict_set out (EMem a w None) v)
           | EId _ _ _ _ => okx (adict_set out dst v) | _ => inl (Err EValueError) end | _ => inl (Err ETypeError) end) affs acc)
        (fold_left (fun acc aff => dox out <- acc; match aff with EAff dst src => dox v <- eval_expr (S f) s src; match dst with
           | EMem addr w _ => dox a <- (dox y <- eval_expr (S f) s addr; lift (simpF y)); okx (adict_set out (EMem a w None) v)
           | EId _ _ _ _ => okx (adict_set out dst v) | _ => inl (Err EValueError) end | _ => inl (Err ETypeError) end) affs acc')).
  { induction affs as [|aff affs IH]; intros a a' La; [exact La|]. cbn [fold_left]. apply IH.
    assert (H : forall x, le (eval_expr f s x) (eval_expr (S f) s x)) by (intros x r Hx; apply eval_expr_fuel_mono; exact Hx).
    apply le_bindx; [exact La | intros out]. mono H. }
  apply G. apply le_refl.
Qed.
Theorem get_instr_mod_fuel_mono : forall f s affs r, get_instr_mod f s affs = okx r -> get_instr_mod (S f) s affs = okx r.
Proof. intros f s affs r H. exact (get_instr_mod_mono f s affs r H). Qed.

(** and for the memory routines of the instruction step *)
Lemma ee_mono f s : forall x, le (eval_expr f s x) (eval_expr (S f) s x).
Proof. intros x r Hx. apply eval_expr_fuel_mono. exact Hx. Qed.
Lemma substract_mems_mono f s cell cellv baddr bw : le (substract_mems f s cell cellv baddr bw) (substract_mems (S f) s cell cellv baddr bw).
Proof. unfold substract_mems. pose proof (ee_mono f s) as H. mono H. Qed.
Lemma mem_overlapping_mono f s a w : le (mem_overlapping f s a w) (mem_overlapping (S f) s a w).
Proof.
  unfold mem_overlapping. cbv zeta. pose proof (ee_mono f s) as H. apply le_bindx; [mono H | intros tests].
  induction tests as [|[i x] l IHl]; [apply le_refl|].
  intros r Hr. cbn beta iota fix in Hr |- *. revert r Hr.
  match goal with |- forall r, ?X = okx r -> ?Y = okx r => change (le X Y) end.
  destruct (adict_get (pool_mem s) x) as [[cell v]|]; [|exact IHl].
  apply le_bindx; [mono H | intros d]. destruct d; try apply le_refl. apply le_bindx; [exact IHl | intros tl; apply le_refl].
Qed.
Lemma le_fold {A B} (F F' : res A + xerr -> B -> res A + xerr) l : (forall a a' b, le a a' -> le (F a b) (F' a' b)) ->
  forall a a', le a a' -> le (fold_left F l a) (fold_left F' l a').
Proof. intros HF. induction l as [|b l IH]; intros a a' La; [exact La|]. cbn [fold_left]. apply IH. apply HF. exact La. Qed.
Theorem eval_instr_mono f s affs : le (eval_instr f s affs) (eval_instr (S f) s affs).
Proof.
  unfold eval_instr. apply le_bindx; [apply get_instr_mod_mono | intros ops]. apply le_fold; [|apply le_refl].
  intros a a' [op v] La. apply le_bindx; [exact La | intros st]. destruct op; try apply le_refl.
  apply le_bindx; [apply mem_overlapping_mono | intros ov]. apply le_bindx; [|intros st'; apply le_refl].
  apply le_fold; [|apply le_refl]. intros b b' [off [cell cellv]] Lb. apply le_bindx; [exact Lb | intros st2].
  destruct (adict_get (pool_mem st2) (match cell with EMem ca _ _ => ca | _ => cell end)) as [[cell2 cellv2]|]; [|apply le_refl].
  apply le_bindx; [apply substract_mems_mono | intros diff; apply le_refl].
Qed.
Theorem eval_instr_fuel_mono : forall f s affs r, eval_instr f s affs = okx r -> eval_instr (S f) s affs = okx r.
Proof. intros f s affs r H. exact (eval_instr_mono f s affs r H). Qed.
